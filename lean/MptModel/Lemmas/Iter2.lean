/-
  Helper lemmas for C19, part 2 (core Lean only): the documented loop, created generators, closed forms.
-/
import MptModel.Lemmas.Iter
namespace Mpt.Iter
open Mpt.IterSpec

/-- the documented loop on the abstract cursor visits exactly the remaining elements -/
theorem walk_cur (fuel : Nat) (c : Cur) (h : c.rem.length ≤ fuel) :
    IterSpec.walk Cur.value Cur.advance fuel c = c.rem := by
  induction fuel generalizing c with
  | zero =>
    have : c.rem = [] := List.eq_nil_of_length_eq_zero (by omega)
    simp [IterSpec.walk, this]
  | succ n ih =>
    obtain ⟨all, rem⟩ := c
    cases rem with
    | nil => simp [IterSpec.walk, Cur.value]
    | cons v t =>
      simp only [IterSpec.walk, Cur.value, List.head?_cons, Cur.advance]
      cases t with
      | nil => simp
      | cons w t' =>
        simp only [List.isEmpty_cons, Bool.false_eq_true, ↓reduceIte]
        rw [ih { all := all, rem := w :: t' } (by simp at h ⊢; omega)]

/-- the model's `value` and `advance` as the loop uses them -/
def mValue (g : Gen) : Option Rat := g.value.2
def mAdvance (g : Gen) : Gen × Adv := (g.value.1.advance.1, advClass g.value.1.advance.2)

theorem walk_sim (fuel : Nat) (g : Gen) (h : g.WF) :
    IterSpec.walk mValue mAdvance fuel g = IterSpec.walk Cur.value Cur.advance fuel g.abs := by
  induction fuel generalizing g with
  | zero => rfl
  | succ n ih =>
    obtain ⟨hv, ha, hw⟩ := value_sim g h
    obtain ⟨a1, a2, a3⟩ := advance_sim g.value.1 hw
    simp only [IterSpec.walk, mValue, mAdvance]
    rw [hv]
    cases hcv : g.abs.value with
    | none => rfl
    | some v =>
      simp only []
      rw [a2, ha]
      cases hadv : g.abs.advance with
      | mk c' r =>
        cases r with
        | more =>
          simp only []
          rw [ih _ a3, a1, ha, hadv]
        | last => rfl
        | err => rfl

/-! ### created generators are well-formed -/

theorem mkLinear_wf (n : Nat) (a b : Rat) (g : Gen) (h : mkLinear n a b = some g) : g.WF := by
  unfold mkLinear at h
  split at h
  · cases h
  · cases h; trivial

theorem linArgs_wf (s : List Char) (g : Gen) (h : linArgs s = some g) : g.WF := by
  unfold linArgs at h
  split at h
  · cases h
  · split at h
    · cases h
    · split at h
      · cases h
      · cases h
      · split at h
        · cases h
        · split at h
          · cases h
          · exact mkLinear_wf _ _ _ _ h

theorem rangeArgs_wf (s : List Char) (g : Gen) (h : rangeArgs s = some g) : g.WF := by
  unfold rangeArgs at h
  split at h
  · cases h
  · split at h
    · cases h
    · split at h
      · cases h
      · split at h
        · cases h
        · split at h
          · cases h
          · split at h
            · cases h
            · cases h; trivial

theorem facArgs_wf (s : List Char) (g : Gen) (h : facArgs s = some g) : g.WF := by
  unfold facArgs at h
  split at h
  · cases h
  · split at h
    · cases h
    · split at h
      · cases h
      · split at h
        · cases h
        · split at h
          · cases h
          · split at h
            · cases h
            · cases h
              intro _; simp [facNth]

/-- every generator made by `mpt_iterator_create` satisfies the invariant, provided a value list consists of
    numbers only -/
theorem create_wf (s : List Char) (g : Gen) (h : create s = some g)
    (hv : ∀ text next curr, g = .values text next curr → numsOk text = true) : g.WF := by
  unfold create at h
  simp only [] at h
  split at h
  · cases h; trivial
  · split at h
    · cases h
    · split at h
      · -- value list
        unfold mkValues at h
        split at h
        · rename_i v rest hc
          cases h
          have hk := hv _ _ _ rfl
          refine ⟨⟨v, rest, hc⟩, hk, ?_⟩
          intro s' hs'; cases hs'
          rw [← (nums_step _ v rest hc).2]; exact hk
        · cases h
      · split at h
        · exact linArgs_wf _ g h
        · split at h
          · exact facArgs_wf _ g h
          · split at h
            · exact rangeArgs_wf _ g h
            · cases h

/-- what `mpt_iterator_poly` returns when it accepts -/
theorem mkPoly_shape (d : List Char) (grid : List Rat) (g : Gen) (h : mkPoly d grid = some g) :
    ∃ coeff, g = .poly grid coeff 0 none := by
  unfold mkPoly at h
  simp only [] at h
  by_cases h1 : (polyCoeffs 128 d).1.isEmpty = true
  · rw [if_pos h1] at h; cases h
  · rw [if_neg h1] at h
    generalize (if (dropSpace (polyCoeffs 128 d).2).head? = some ':'
      then polyCoeffs ((polyCoeffs 128 d).1.length - 1) (dropSpace (polyCoeffs 128 d).2).tail
      else ([], dropSpace (polyCoeffs 128 d).2)) = sh at h
    by_cases h2 : (!(dropSpace sh.2).isEmpty) = true
    · rw [if_pos h2] at h; cases h
    · rw [if_neg h2] at h; cases h; exact ⟨_, rfl⟩

/-- every generator made by `mpt_iterator_profile` satisfies the invariant -/
theorem profile_wf (grid : List Rat) (s : List Char) (g : Gen) (h : profile grid s = some g) : g.WF := by
  unfold profile at h
  split at h
  · cases h
  · simp only [] at h
    split at h
    · split at h
      · cases h
      · split at h
        · exact mkLinear_wf _ _ _ _ h
        · cases h
    · split at h
      · split at h
        · cases h
        · split at h
          · unfold mkBoundary at h
            split at h
            · cases h
            · cases h; trivial
          · cases h
      · split at h
        · split at h
          · cases h
          · obtain ⟨coeff, e⟩ := mkPoly_shape _ _ _ h
            subst e
            intro v hv; cases hv
        · cases h

/-! ### closed forms -/

theorem polyProd_eq (mult tmp : Rat) (k : Nat) : polyProd mult tmp k = mult * tmp ^ k := by
  induction k with
  | zero => simp [polyProd, Rat.pow_zero, Rat.mul_one]
  | succ n ih => rw [polyProd, ih, Rat.pow_succ, Rat.mul_assoc]

theorem polySumAux_eq (coeff : List (Rat × Rat)) (x : Rat) (l : List (Rat × Rat)) (acc : Rat) :
    polySumAux coeff x l acc = acc + polySum x l := by
  induction l generalizing acc with
  | nil => simp [polySumAux, polySum, Rat.add_zero]
  | cons c rest ih =>
    rw [polySumAux, ih, polyProd_eq, polySum, Rat.add_assoc]

/-- `iterPolyValue` computes `Σ_j mult_j·(x + shift_j)^(nc−1−j)` -/
theorem polyEval_eq (coeff : List (Rat × Rat)) (x : Rat) : polyEval coeff x = polyAt coeff x := by
  unfold polyEval polyAt
  split
  · rfl
  · rw [polySumAux_eq, Rat.zero_add]

end Mpt.Iter
