/-
  C04: `mpt_values_prepare` (mptplot/values) appends doubles to an array of doubles; other handles keep their values.
-/
import MptModel.Lemmas.HeapOwn
namespace Mpt.Heap
open Mpt

/-- `mpt_values_prepare(arr, len)`: `len ≥ 0` appends `len` zeroed doubles, `len < 0` appends a copy of the last `-len`
    doubles (refused, without any change, when the array holds fewer); every other handle keeps its value; an array
    of another type is refused -/
theorem valuesPrepare_sem {s : State} (inv : Inv s) {h : Nat} (hlt : h < s.hs.length) (dt : Traits) (pt : PlainT (some dt))
    (d8 : dt.size = 8) (len : Int) :
    Sem s h (fun v v' => v' = if len < 0 then v ++ v.drop (v.length - len.natAbs * 8) else v ++ zeros (len.natAbs * 8))
      (valuesPrepare s h dt len) := by
  unfold valuesPrepare
  simp only
  cases hh : s.handle h with
  | none =>
    simp only
    by_cases neg : len < 0
    · rw [if_pos neg]; exact Sem.fail_same inv _ _ _
    · rw [if_neg neg]
      obtain ⟨dp, ab⟩ := attach_fresh inv hlt hh (len.natAbs * 8) (some dt) pt
      obtain ⟨inv1, len1, oth1, hh1, z, hz, _⟩ := dp
      have hz' : ((s.newBuf (len.natAbs * 8) 0 (some dt)).setHandle h (some s.bufs.length)).buf? s.bufs.length
          = some (State.fresh (len.natAbs * 8) 0 (some dt)) := by
        rw [State.buf?_setHandle, State.buf?_newBuf]; simp
      rw [hz']
      simp only [setUsed]
      have asz := le_allocSize (len.natAbs * 8)
      have wl : (Mem.write (State.fresh (len.natAbs * 8) 0 (some dt)).data 0 (zeros (len.natAbs * 8))).length = allocSize (len.natAbs * 8) := by
        rw [write_length _ _ _ (by simp [State.fresh]; omega)]; simp [State.fresh]
      have o1 : Own ((s.newBuf (len.natAbs * 8) 0 (some dt)).setHandle h (some s.bufs.length)) h s.bufs.length
          (State.fresh (len.natAbs * 8) 0 (some dt)) := ⟨hh1, hz', rfl, by simp [Buf.immutable, State.fresh]⟩
      have up := o1.update inv1
        { State.fresh (len.natAbs * 8) 0 (some dt) with
          data := Mem.write (State.fresh (len.natAbs * 8) 0 (some dt)).data 0 (zeros (len.natAbs * 8)), used := len.natAbs * 8 }
        rfl rfl (by simp only [Buf.size, wl]; omega) pt (by show (len.natAbs * 8) % esize (some dt) = 0; simp [esize, d8])
      obtain ⟨inv2, _, abs2, oth2, len2⟩ := up
      refine ⟨inv2, by rw [len2]; simpa using len1, ?_, fun h' ne => by rw [oth2 h' ne]; exact oth1 h' ne⟩
      rw [abs2, State.abs_none hh]
      simp only [neg, if_false, List.nil_append, Buf.content]
      have := content_take_write (State.fresh (len.natAbs * 8) 0 (some dt)).data (zeros (len.natAbs * 8)) (by simp [State.fresh]; omega)
      simp only [zeros_length] at this
      exact this
  | some b =>
    simp only
    obtain ⟨x, hb⟩ := inv.live h b hh
    rw [hb]
    simp only
    have hu := inv.used b x hb
    have absx : s.abs h = x.content := State.abs_of hh hb
    have cl := content_length x hu
    by_cases tm : x.traits ≠ some dt
    · rw [if_pos tm]; exact Sem.fail_same inv _ _ _
    · rw [if_neg tm]
      have xt : x.traits = some dt := by simpa using tm
      by_cases short : len < 0 ∧ x.used < len.natAbs * 8
      · rw [if_pos short]; exact Sem.fail_same inv _ _ _
      · rw [if_neg short]
        have es := ensure_sem inv hh hb true (x.used + len.natAbs * 8) (by intro c; cases c)
        generalize ensure s h b true (x.used + len.natAbs * 8) = r at es
        cases r with
        | fault w => exact es
        | fail s1 e => exact ⟨es.1, by rw [es.2.1], es.2.2⟩
        | ok s1 nb =>
          have dp : DetachPost s h x (x.used + len.natAbs * 8) s1 nb := es
          obtain ⟨z, hz, zr, zi, zs, zt, zu, zc⟩ := dp.keeps hu (by omega)
          have inv1 := dp.1
          have o1 : Own s1 h nb z := ⟨dp.2.2.2.1, hz, zr, zi⟩
          simp only [hz]
          rw [if_neg (by omega)]
          simp only [setUsed]
          generalize hsrc : (if len < 0 then (z.data.drop (x.used - len.natAbs * 8)).take (len.natAbs * 8) else zeros (len.natAbs * 8)) = src
          have sl : src.length = len.natAbs * 8 := by
            rw [← hsrc]
            split
            · rename_i neg
              have : ¬ x.used < len.natAbs * 8 := fun c => short ⟨neg, c⟩
              rw [List.length_take, List.length_drop]; simp only [Buf.size] at zs; omega
            · simp
          have wl : (Mem.write z.data x.used src).length = z.data.length :=
            write_length _ _ _ (by rw [sl]; simp only [Buf.size] at zs; exact zs)
          have up := o1.update inv1 { z with data := Mem.write z.data x.used src, used := x.used + len.natAbs * 8 } zr rfl
            (by simp only [Buf.size, wl]; simp only [Buf.size] at zs; exact zs) (inv1.plain nb z hz)
            (by
              show (x.used + len.natAbs * 8) % esize z.traits = 0
              have a := inv.aligned b x hb
              rw [zt, xt] at *
              simp only [esize, d8] at a ⊢
              omega)
          obtain ⟨inv2, _, abs2, oth2, len2⟩ := up
          refine ⟨inv2, by rw [len2]; exact dp.2.1, ?_, fun h' ne => by rw [oth2 h' ne]; exact dp.2.2.1 h' ne⟩
          rw [abs2, absx]
          show (Mem.write z.data x.used src).take (x.used + len.natAbs * 8) = _
          have twa := take_write_append z.data x.used src (by rw [sl]; simp only [Buf.size] at zs; exact zs)
          rw [sl] at twa
          have zpre : z.data.take x.used = x.content := by
            have : z.content = z.data.take z.used := rfl
            rw [← zu, ← this, zc]
          rw [twa, zpre]
          congr 1
          rw [← hsrc]
          split
          · rename_i neg
            have ge : len.natAbs * 8 ≤ x.used := by
              have : ¬ x.used < len.natAbs * 8 := fun c => short ⟨neg, c⟩
              omega
            rw [cl]
            have e1 : x.content.drop (x.used - len.natAbs * 8) = (z.data.take x.used).drop (x.used - len.natAbs * 8) := by rw [zpre]
            rw [e1, List.drop_take]
            have e2 : x.used - (x.used - len.natAbs * 8) = len.natAbs * 8 := by omega
            rw [e2]
          · rfl

end Mpt.Heap
