/-
  `mpt_parse_data` (default format: no option end character, `"` and `'` escape, `#` comment) on the
  value text the reference writer produces: blanks, the value plain or in double quotes, trailing
  blanks and comment, line feed.
-/
import MptModel.Lemmas.ParseLine

namespace Mpt.Parse
open Mpt.Render

/-- formats whose data part behaves like the default one -/
structure DataFmt (f : Format) : Prop where
  oend : f.oend = 0
  esc : f.esc = [34, 39, 0]
  com : f.com = [35, 0, 0, 0]

theorem dataFmt_default : DataFmt ({} : Format) := ⟨rfl, rfl, rfl⟩

abbrev Dst (e : List (List UInt8)) (l : List UInt8) (k : Bool) (fi : UInt8) (v cur ln : Nat) (m : UInt8)
    (la : Option UInt8) : DataSt := { st := Stt e l k fi v cur ln, mtch := m, last := la }

/-- characters of a plain value -/
def plainChar (c : UInt8) : Bool := c != 0 && c != 10 && c != 34 && c != 39 && c != 35

theorem DataFmt.isEscape {f : Format} (hf : DataFmt f) (c : UInt8) : f.isEscape c = (c == 34 || c == 39) := by
  unfold Format.isEscape
  rw [hf.esc]
  by_cases h0 : c = 0
  · subst h0; decide
  · have : (c != 0) = true := by simp [h0]
    simp [this, h0]

theorem DataFmt.isComment {f : Format} (hf : DataFmt f) (c : UInt8) : f.isComment c = (c == 35) :=
  HashOnly.isComment hf.com c

/-- the pending bytes after one more character, whatever the keep state is -/
theorem addchar_take (e : List (List UInt8)) (l : List UInt8) (k : Bool) (fi : UInt8) (v : Nat) (c : UInt8)
    (hv : (k = true ∧ v ≤ l.length) ∨ v = 0) :
    ∃ l' k', (Pth e l k fi).addchar c = Pth e l' k' fi ∧ l'.take v = l.take v := by
  rcases hv with ⟨hk, hv⟩ | hv
  · subst hk
    exact ⟨l ++ [c], true, by simp, by rw [List.take_append_of_le_length hv]⟩
  · subst hv
    cases k with
    | true => exact ⟨l ++ [c], true, by simp, by simp⟩
    | false =>
      by_cases hl : l = []
      · subst hl; exact ⟨[c], false, by simp, by simp⟩
      · exact ⟨l.dropLast ++ [c], false, addchar_over _ _ _ _ hl, by simp⟩

section steps
variable {f : Format} (hf : DataFmt f)
include hf

/-- a plain character while everything before it is kept -/
theorem dataStep_plain_keep (e : List (List UInt8)) (l : List UInt8) (fi : UInt8) (v cur ln : Nat)
    (la : Option UInt8) (c : UInt8) (hc : plainChar c = true) :
    dataStep f (Dst e l true fi v cur ln 0 la) c =
      .more (Dst e (l ++ [c]) true fi (if isspace c then v else l.length + 1) cur ln 0 (some c)) := by
  unfold plainChar at hc
  simp only [Bool.and_eq_true, bne_iff_ne, ne_eq] at hc
  obtain ⟨⟨⟨⟨h0, h10⟩, h34⟩, h39⟩, h35⟩ := hc
  have hesc : f.isEscape c = false := by rw [hf.isEscape]; simp [h34, h39]
  have hcom : f.isComment c = false := by rw [hf.isComment]; simp [h35]
  have h10' : (c == 10) = false := by simp [h10]
  have hoe : (c == f.oend) = false := by rw [hf.oend]; simp [h0]
  unfold dataStep
  simp only [save_stt _ _ _ _ _ _ _ _ h0, h10', addchar_keep]
  cases hsp : isspace c <;> simp [hesc, hcom, hoe, h10', hsp]

/-- a blank while nothing is kept yet: at most one unvalidated byte stays pending -/
theorem dataStep_blank_lead (e : List (List UInt8)) (x : List UInt8) (fi : UInt8) (cur ln : Nat)
    (la : Option UInt8) (b : UInt8) (hb : isBlank b = true) (hx : x.length ≤ 1) :
    dataStep f (Dst e x false fi 0 cur ln 0 la) b = .more (Dst e [b] false fi 0 cur ln 0 (some b)) := by
  have hb' : b = 32 ∨ b = 9 := by simpa [isBlank] using hb
  have h0 : b ≠ 0 := by rcases hb' with h | h <;> subst h <;> decide
  have hesc : f.isEscape b = false := by rw [hf.isEscape]; rcases hb' with h | h <;> subst h <;> decide
  have hcom : f.isComment b = false := by rw [hf.isComment]; rcases hb' with h | h <;> subst h <;> decide
  have h10' : (b == 10) = false := by rcases hb' with h | h <;> subst h <;> decide
  have hoe : (b == f.oend) = false := by rw [hf.oend]; rcases hb' with h | h <;> subst h <;> decide
  have hsp : isspace b = true := by rcases hb' with h | h <;> subst h <;> decide
  have hadd : (Pth e x false fi).addchar b = Pth e [b] false fi := by
    match x, hx with
    | [], _ => simp
    | [a], _ => rw [addchar_over _ _ _ _ (by simp)]; simp
  unfold dataStep
  simp only [save_stt _ _ _ _ _ _ _ _ h0, h10', hadd]
  simp [hesc, hcom, hoe, h10', hsp]

/-- the first character of a plain value replaces the unvalidated byte -/
theorem dataStep_plain_first (e : List (List UInt8)) (x : List UInt8) (fi : UInt8) (cur ln : Nat)
    (la : Option UInt8) (c : UInt8) (hc : plainChar c = true) (hsp : isspace c = false) (hx : x.length ≤ 1) :
    dataStep f (Dst e x false fi 0 cur ln 0 la) c = .more (Dst e [c] true fi 1 cur ln 0 (some c)) := by
  unfold plainChar at hc
  simp only [Bool.and_eq_true, bne_iff_ne, ne_eq] at hc
  obtain ⟨⟨⟨⟨h0, h10⟩, h34⟩, h39⟩, h35⟩ := hc
  have hesc : f.isEscape c = false := by rw [hf.isEscape]; simp [h34, h39]
  have hcom : f.isComment c = false := by rw [hf.isComment]; simp [h35]
  have h10' : (c == 10) = false := by simp [h10]
  have hoe : (c == f.oend) = false := by rw [hf.oend]; simp [h0]
  have hadd : (Pth e x false fi).addchar c = Pth e [c] false fi := by
    match x, hx with
    | [], _ => simp
    | [a], _ => rw [addchar_over _ _ _ _ (by simp)]; simp
  unfold dataStep
  simp only [save_stt _ _ _ _ _ _ _ _ h0, h10', hadd]
  simp [hesc, hcom, hoe, h10', hsp]

/-- the opening quote -/
theorem dataStep_quote_open (e : List (List UInt8)) (x : List UInt8) (fi : UInt8) (cur ln : Nat)
    (la : Option UInt8) (hx : x.length ≤ 1) :
    dataStep f (Dst e x false fi 0 cur ln 0 la) 34 = .more (Dst e [34] false fi 0 cur ln 34 (some 34)) := by
  have hesc : f.isEscape 34 = true := by rw [hf.isEscape]; decide
  have hadd : (Pth e x false fi).addchar 34 = Pth e [34] false fi := by
    match x, hx with
    | [], _ => simp
    | [a], _ => rw [addchar_over _ _ _ _ (by simp)]; simp
  unfold dataStep
  simp only [save_stt _ _ _ _ _ _ _ _ (by decide : (34 : UInt8) ≠ 0), hadd]
  simp [hesc]

/-- inside quotes, first character (not a quote): replaces the quote byte -/
theorem dataStep_in_first (e : List (List UInt8)) (fi : UInt8) (cur ln : Nat) (la : Option UInt8) (c : UInt8)
    (h0 : c ≠ 0) (h34 : c ≠ 34) :
    dataStep f (Dst e [34] false fi 0 cur ln 34 la) c =
      .more (Dst e [c] true fi 1 cur (if c == 10 then ln + 1 else ln) 34 (some c)) := by
  have hadd : (Pth e [34] false fi).addchar c = Pth e [c] false fi := by
    rw [addchar_over _ _ _ _ (by simp)]; simp
  have hm : (c == (34 : UInt8)) = false := by simp [h34]
  unfold dataStep
  simp only [save_stt _ _ _ _ _ _ _ _ h0, hadd]
  simp [hm]

/-- inside quotes, a character that is not a quote is kept -/
theorem dataStep_in_keep (e : List (List UInt8)) (l : List UInt8) (fi : UInt8) (v cur ln : Nat)
    (la : Option UInt8) (c : UInt8) (h0 : c ≠ 0) (h34 : c ≠ 34) :
    dataStep f (Dst e l true fi v cur ln 34 la) c =
      .more (Dst e (l ++ [c]) true fi (l.length + 1) cur (if c == 10 then ln + 1 else ln) 34 (some c)) := by
  have hm : (c == (34 : UInt8)) = false := by simp [h34]
  unfold dataStep
  simp only [save_stt _ _ _ _ _ _ _ _ h0, addchar_keep]
  simp [hm]

/-- inside quotes, a quote behind a backslash: the backslash goes, the quote stays -/
theorem dataStep_in_escaped (e : List (List UInt8)) (l : List UInt8) (fi : UInt8) (v cur ln : Nat) :
    dataStep f (Dst e (l ++ [92]) true fi v cur ln 34 (some 92)) 34 =
      .more (Dst e (l ++ [34]) true fi (l.length + 1) cur ln 34 (some 34)) := by
  unfold dataStep
  simp only [save_stt _ _ _ _ _ _ _ _ (by decide : (34 : UInt8) ≠ 0), addchar_keep]
  simp

/-- inside quotes, the closing quote -/
theorem dataStep_in_close (e : List (List UInt8)) (l : List UInt8) (fi : UInt8) (v cur ln : Nat)
    (la : Option UInt8) (hla : la ≠ some 92) (hl : l ≠ []) :
    dataStep f (Dst e l true fi v cur ln 34 la) 34 =
      .more (Dst e l true fi l.length cur ln 0 (some 34)) := by
  unfold dataStep
  simp only [save_stt _ _ _ _ _ _ _ _ (by decide : (34 : UInt8) ≠ 0), addchar_keep]
  simp [hla]

/-- the line feed ends the value -/
theorem dataStep_newline (e : List (List UInt8)) (l : List UInt8) (k : Bool) (fi : UInt8) (v cur ln : Nat)
    (la : Option UInt8) (hv : (k = true ∧ v ≤ l.length) ∨ v = 0) :
    ∃ l' k', dataStep f (Dst e l k fi v cur ln 0 la) 10 = .done (.newline (Stt e l' k' fi v cur (ln + 1)))
      ∧ l'.take v = l.take v := by
  have hesc : f.isEscape 10 = false := by rw [hf.isEscape]; decide
  have hoe : ((10 : UInt8) == f.oend) = false := by rw [hf.oend]; decide
  obtain ⟨l', k', hadd, ht⟩ := addchar_take e l k fi v 10 hv
  refine ⟨l', k', ?_, ht⟩
  unfold dataStep
  simp only [save_stt _ _ _ _ _ _ _ _ (by decide : (10 : UInt8) ≠ 0), hadd]
  simp [hesc, hoe]

/-- a `#` behind white space starts a comment -/
theorem dataStep_comment (e : List (List UInt8)) (l : List UInt8) (k : Bool) (fi : UInt8) (v cur ln : Nat)
    (b : UInt8) (hb : isspace b = true) (hv : (k = true ∧ v ≤ l.length) ∨ v = 0) :
    ∃ l' k', dataStep f (Dst e l k fi v cur ln 0 (some b)) 35 = .done (.comment (Stt e l' k' fi v cur ln))
      ∧ l'.take v = l.take v := by
  have hesc : f.isEscape 35 = false := by rw [hf.isEscape]; decide
  have hcom : f.isComment 35 = true := by rw [hf.isComment]; decide
  have hoe : ((35 : UInt8) == f.oend) = false := by rw [hf.oend]; decide
  have hoe0 : (f.oend == 0) = true := by rw [hf.oend]; decide
  obtain ⟨l', k', hadd, ht⟩ := addchar_take e l k fi v 35 hv
  refine ⟨l', k', ?_, ht⟩
  unfold dataStep
  simp only [save_stt _ _ _ _ _ _ _ _ (by decide : (35 : UInt8) ≠ 0), hadd]
  simp [hesc, hoe, hcom, hoe0, hb]

end steps

/-! ### runs -/
section runs
variable {f : Format} (hf : DataFmt f)
include hf

/-- leading blanks: nothing is kept -/
theorem run_lead_blanks (e : List (List UInt8)) (fi : UInt8) (cur ln : Nat) :
    ∀ (bs x : List UInt8) (la : Option UInt8), bs.all isBlank = true → x.length ≤ 1 →
      ∃ x' la', runSteps (dataStep f) (Dst e x false fi 0 cur ln 0 la) bs = some (Dst e x' false fi 0 cur ln 0 la')
        ∧ x'.length ≤ 1 ∧ (bs ≠ [] → ∃ b, la' = some b ∧ isspace b = true) := by
  intro bs
  induction bs with
  | nil => intro x la _ hx; exact ⟨x, la, rfl, hx, fun h => absurd rfl h⟩
  | cons b r ih =>
    intro x la hb hx
    simp only [List.all_cons, Bool.and_eq_true] at hb
    obtain ⟨x', la', hrun, hx', hla⟩ := ih [b] (some b) hb.2 (by simp)
    refine ⟨x', la', ?_, hx', ?_⟩
    · simp only [runSteps, dataStep_blank_lead hf e x fi cur ln la b hb.1 hx]; exact hrun
    · intro _
      by_cases hr : r = []
      · subst hr
        simp only [runSteps, Option.some.injEq] at hrun
        have hb' : b = 32 ∨ b = 9 := by simpa [isBlank] using hb.1
        refine ⟨b, ?_, by rcases hb' with h | h <;> subst h <;> decide⟩
        have := congrArg DataSt.last hrun
        simpa using this.symm
      · exact hla hr

/-- valid length after a run of plain characters: position behind the last character that is not
    white space -/
def validAfter : Nat → Nat → List UInt8 → Nat
  | _, v, [] => v
  | len, v, c :: r => validAfter (len + 1) (if isspace c then v else len + 1) r

/-- plain characters while everything is kept -/
theorem run_plain (e : List (List UInt8)) (fi : UInt8) (cur ln : Nat) :
    ∀ (w l : List UInt8) (v : Nat) (la : Option UInt8), w.all plainChar = true →
      runSteps (dataStep f) (Dst e l true fi v cur ln 0 la) w =
        some (Dst e (l ++ w) true fi (validAfter l.length v w) cur ln 0 (if w.isEmpty then la else w.getLast?)) := by
  intro w
  induction w with
  | nil => intro l v la _; simp [runSteps, validAfter]
  | cons c r ih =>
    intro l v la hw
    simp only [List.all_cons, Bool.and_eq_true] at hw
    simp only [runSteps, dataStep_plain_keep hf e l fi v cur ln la c hw.1]
    rw [ih (l ++ [c]) _ (some c) hw.2]
    simp only [List.length_append, List.length_cons, List.length_nil, Nat.zero_add, List.append_assoc,
      List.singleton_append, validAfter, List.isEmpty_cons, Bool.false_eq_true, ↓reduceIte]
    cases r with
    | nil => simp
    | cons a t => simp [List.getLast?_cons_cons]

end runs

theorem validAfter_blanks (len v : Nat) (bs : List UInt8) (h : bs.all isBlank = true) :
    validAfter len v bs = v := by
  induction bs generalizing len with
  | nil => rfl
  | cons b r ih =>
    simp only [List.all_cons, Bool.and_eq_true] at h
    have hb' : b = 32 ∨ b = 9 := by simpa [isBlank] using h.1
    have hsp : isspace b = true := by rcases hb' with h | h <;> subst h <;> decide
    simp only [validAfter, hsp, ↓reduceIte]
    exact ih _ h.2

theorem validAfter_append (len v : Nat) (a b : List UInt8) :
    validAfter len v (a ++ b) = validAfter (len + a.length) (validAfter len v a) b := by
  induction a generalizing len v with
  | nil => simp [validAfter]
  | cons c r ih =>
    simp only [List.cons_append, validAfter, List.length_cons]
    rw [ih]
    congr 1; omega

/-- a run that ends in a character that is not white space validates everything -/
theorem validAfter_vis (len v : Nat) (w : List UInt8) (c : UInt8) (hc : isspace c = false) :
    validAfter len v (w ++ [c]) = len + w.length + 1 := by
  rw [validAfter_append]
  simp [validAfter, hc]

end Mpt.Parse
