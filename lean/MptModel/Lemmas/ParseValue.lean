/-
  `mpt_parse_data` (default format: no option end character, `"` and `'` escape, `#` comment) on the
  value text the reference writer produces: blanks, the value plain or in double quotes, trailing
  blanks and comment, line feed.
-/
import MptModel.Lemmas.ParseLine

namespace Mpt.Parse
open Mpt.Render

/-- formats whose data part behaves like the default one -/
structure DataFmt (f : Format) : Prop where
  oend : f.oend = 0
  esc : f.esc = [34, 39, 0]
  com : f.com = [35, 0, 0, 0]

theorem dataFmt_default : DataFmt ({} : Format) := ⟨rfl, rfl, rfl⟩

abbrev Dst (e : List (List UInt8)) (l : List UInt8) (k : Bool) (fi : UInt8) (v cur ln : Nat) (m : UInt8)
    (la : Option UInt8) : DataSt := { st := Stt e l k fi v cur ln, mtch := m, last := la }

/-- characters of a plain value -/
def plainChar (c : UInt8) : Bool := c != 0 && c != 10 && c != 34 && c != 39 && c != 35

theorem DataFmt.isEscape {f : Format} (hf : DataFmt f) (c : UInt8) : f.isEscape c = (c == 34 || c == 39) := by
  unfold Format.isEscape
  rw [hf.esc]
  by_cases h0 : c = 0
  · subst h0; decide
  · have : (c != 0) = true := by simp [h0]
    simp only [this, List.contains_cons, List.contains_nil, Bool.or_false, Bool.true_and]
    have h3 : (c == 0) = false := by simp [h0]
    rw [h3, Bool.or_false]

theorem DataFmt.isComment {f : Format} (hf : DataFmt f) (c : UInt8) : f.isComment c = (c == 35) :=
  HashOnly.isComment hf.com c

/-- the pending bytes after one more character, whatever the keep state is -/
theorem addchar_take (e : List (List UInt8)) (l : List UInt8) (k : Bool) (fi : UInt8) (v : Nat) (c : UInt8)
    (hv : (k = true ∧ v ≤ l.length) ∨ v = 0) :
    ∃ l' k', (Pth e l k fi).addchar c = Pth e l' k' fi ∧ l'.take v = l.take v := by
  rcases hv with ⟨hk, hv⟩ | hv
  · subst hk
    exact ⟨l ++ [c], true, by simp, by rw [List.take_append_of_le_length hv]⟩
  · subst hv
    cases k with
    | true => exact ⟨l ++ [c], true, by simp, by simp⟩
    | false =>
      by_cases hl : l = []
      · subst hl; exact ⟨[c], false, by simp, by simp⟩
      · exact ⟨l.dropLast ++ [c], false, addchar_over _ _ _ _ hl, by simp⟩

section steps
variable {f : Format} (hf : DataFmt f)
include hf

/-- a plain character while everything before it is kept -/
theorem dataStep_plain_keep (e : List (List UInt8)) (l : List UInt8) (fi : UInt8) (v cur ln : Nat)
    (la : Option UInt8) (c : UInt8) (hc : plainChar c = true) :
    dataStep f (Dst e l true fi v cur ln 0 la) c =
      .more (Dst e (l ++ [c]) true fi (if isspace c then v else l.length + 1) cur ln 0 (some c)) := by
  unfold plainChar at hc
  simp only [Bool.and_eq_true, bne_iff_ne, ne_eq] at hc
  obtain ⟨⟨⟨⟨h0, h10⟩, h34⟩, h39⟩, h35⟩ := hc
  have hesc : f.isEscape c = false := by rw [hf.isEscape]; simp [h34, h39]
  have hcom : f.isComment c = false := by rw [hf.isComment]; simp [h35]
  have h10' : (c == 10) = false := by simp [h10]
  have hoe : (c == f.oend) = false := by rw [hf.oend]; simp [h0]
  unfold dataStep
  simp only [save_stt _ _ _ _ _ _ _ _ h0, h10', addchar_keep]
  cases hsp : isspace c <;> simp [hesc, hcom, hoe, h10', hsp]

/-- a blank while nothing is kept yet: at most one unvalidated byte stays pending -/
theorem dataStep_blank_lead (e : List (List UInt8)) (x : List UInt8) (fi : UInt8) (cur ln : Nat)
    (la : Option UInt8) (b : UInt8) (hb : isBlank b = true) (hx : x.length ≤ 1) :
    dataStep f (Dst e x false fi 0 cur ln 0 la) b = .more (Dst e [b] false fi 0 cur ln 0 (some b)) := by
  have hb' : b = 32 ∨ b = 9 ∨ b = 11 ∨ b = 12 ∨ b = 13 := by simpa [isBlank, or_assoc] using hb
  have h0 : b ≠ 0 := by rcases hb' with h | h | h | h | h <;> subst h <;> decide
  have hesc : f.isEscape b = false := by rw [hf.isEscape]; rcases hb' with h | h | h | h | h <;> subst h <;> decide
  have hcom : f.isComment b = false := by rw [hf.isComment]; rcases hb' with h | h | h | h | h <;> subst h <;> decide
  have h10' : (b == 10) = false := by rcases hb' with h | h | h | h | h <;> subst h <;> decide
  have hoe : (b == f.oend) = false := by rw [hf.oend]; rcases hb' with h | h | h | h | h <;> subst h <;> decide
  have hsp : isspace b = true := by rcases hb' with h | h | h | h | h <;> subst h <;> decide
  have hadd : (Pth e x false fi).addchar b = Pth e [b] false fi := by
    match x, hx with
    | [], _ => simp
    | [a], _ => rw [addchar_over _ _ _ _ (by simp)]; simp
  unfold dataStep
  simp only [save_stt _ _ _ _ _ _ _ _ h0, h10', hadd]
  simp [hesc, hcom, hoe, h10', hsp]

/-- the first character of a plain value replaces the unvalidated byte -/
theorem dataStep_plain_first (e : List (List UInt8)) (x : List UInt8) (fi : UInt8) (cur ln : Nat)
    (la : Option UInt8) (c : UInt8) (hc : plainChar c = true) (hsp : isspace c = false) (hx : x.length ≤ 1) :
    dataStep f (Dst e x false fi 0 cur ln 0 la) c = .more (Dst e [c] true fi 1 cur ln 0 (some c)) := by
  unfold plainChar at hc
  simp only [Bool.and_eq_true, bne_iff_ne, ne_eq] at hc
  obtain ⟨⟨⟨⟨h0, h10⟩, h34⟩, h39⟩, h35⟩ := hc
  have hesc : f.isEscape c = false := by rw [hf.isEscape]; simp [h34, h39]
  have hcom : f.isComment c = false := by rw [hf.isComment]; simp [h35]
  have h10' : (c == 10) = false := by simp [h10]
  have hoe : (c == f.oend) = false := by rw [hf.oend]; simp [h0]
  have hadd : (Pth e x false fi).addchar c = Pth e [c] false fi := by
    match x, hx with
    | [], _ => simp
    | [a], _ => rw [addchar_over _ _ _ _ (by simp)]; simp
  unfold dataStep
  simp only [save_stt _ _ _ _ _ _ _ _ h0, h10', hadd]
  simp [hesc, hcom, hoe, h10', hsp]

/-- the opening quote -/
theorem dataStep_quote_open (e : List (List UInt8)) (x : List UInt8) (fi : UInt8) (cur ln : Nat)
    (la : Option UInt8) (hx : x.length ≤ 1) :
    dataStep f (Dst e x false fi 0 cur ln 0 la) 34 = .more (Dst e [34] false fi 0 cur ln 34 (some 34)) := by
  have hesc : f.isEscape 34 = true := by rw [hf.isEscape]; decide
  have hadd : (Pth e x false fi).addchar 34 = Pth e [34] false fi := by
    match x, hx with
    | [], _ => simp
    | [a], _ => rw [addchar_over _ _ _ _ (by simp)]; simp
  unfold dataStep
  simp only [save_stt _ _ _ _ _ _ _ _ (by decide : (34 : UInt8) ≠ 0), hadd]
  simp [hesc]

/-- inside quotes, first character (not a quote): replaces the quote byte -/
theorem dataStep_in_first (e : List (List UInt8)) (fi : UInt8) (cur ln : Nat) (la : Option UInt8) (c : UInt8)
    (h0 : c ≠ 0) (h34 : c ≠ 34) :
    dataStep f (Dst e [34] false fi 0 cur ln 34 la) c =
      .more (Dst e [c] true fi 1 cur (if c == 10 then ln + 1 else ln) 34 (some c)) := by
  have hadd : (Pth e [34] false fi).addchar c = Pth e [c] false fi := by
    rw [addchar_over _ _ _ _ (by simp)]; simp
  have hm : (c == (34 : UInt8)) = false := by simp [h34]
  unfold dataStep
  simp only [save_stt _ _ _ _ _ _ _ _ h0, hadd]
  simp [hm]

/-- inside quotes, a character that is not a quote is kept -/
theorem dataStep_in_keep (e : List (List UInt8)) (l : List UInt8) (fi : UInt8) (v cur ln : Nat)
    (la : Option UInt8) (c : UInt8) (h0 : c ≠ 0) (h34 : c ≠ 34) :
    dataStep f (Dst e l true fi v cur ln 34 la) c =
      .more (Dst e (l ++ [c]) true fi (l.length + 1) cur (if c == 10 then ln + 1 else ln) 34 (some c)) := by
  have hm : (c == (34 : UInt8)) = false := by simp [h34]
  unfold dataStep
  simp only [save_stt _ _ _ _ _ _ _ _ h0, addchar_keep]
  simp [hm]

/-- inside quotes, a quote behind a backslash: the backslash goes, the quote stays -/
theorem dataStep_in_escaped (e : List (List UInt8)) (l : List UInt8) (fi : UInt8) (v cur ln : Nat) :
    dataStep f (Dst e (l ++ [92]) true fi v cur ln 34 (some 92)) 34 =
      .more (Dst e (l ++ [34]) true fi (l.length + 1) cur ln 34 (some 34)) := by
  unfold dataStep
  simp only [save_stt _ _ _ _ _ _ _ _ (by decide : (34 : UInt8) ≠ 0), addchar_keep]
  simp

/-- inside quotes, the closing quote -/
theorem dataStep_in_close (e : List (List UInt8)) (l : List UInt8) (fi : UInt8) (v cur ln : Nat)
    (la : Option UInt8) (hla : la ≠ some 92) (hl : l ≠ []) :
    dataStep f (Dst e l true fi v cur ln 34 la) 34 =
      .more (Dst e l true fi l.length cur ln 0 (some 34)) := by
  unfold dataStep
  simp only [save_stt _ _ _ _ _ _ _ _ (by decide : (34 : UInt8) ≠ 0), addchar_keep]
  simp [hla]

/-- the line feed ends the value -/
theorem dataStep_newline (e : List (List UInt8)) (l : List UInt8) (k : Bool) (fi : UInt8) (v cur ln : Nat)
    (la : Option UInt8) (hv : (k = true ∧ v ≤ l.length) ∨ v = 0) :
    ∃ l' k', dataStep f (Dst e l k fi v cur ln 0 la) 10 = .done (.newline (Stt e l' k' fi v cur (ln + 1)))
      ∧ l'.take v = l.take v := by
  have hesc : f.isEscape 10 = false := by rw [hf.isEscape]; decide
  have hoe : ((10 : UInt8) == f.oend) = false := by rw [hf.oend]; decide
  obtain ⟨l', k', hadd, ht⟩ := addchar_take e l k fi v 10 hv
  refine ⟨l', k', ?_, ht⟩
  unfold dataStep
  simp only [save_stt _ _ _ _ _ _ _ _ (by decide : (10 : UInt8) ≠ 0), hadd]
  simp [hesc, hoe]

/-- a `#` behind white space starts a comment -/
theorem dataStep_comment (e : List (List UInt8)) (l : List UInt8) (k : Bool) (fi : UInt8) (v cur ln : Nat)
    (b : UInt8) (hb : isspace b = true) (hv : (k = true ∧ v ≤ l.length) ∨ v = 0) :
    ∃ l' k', dataStep f (Dst e l k fi v cur ln 0 (some b)) 35 = .done (.comment (Stt e l' k' fi v cur ln))
      ∧ l'.take v = l.take v := by
  have hesc : f.isEscape 35 = false := by rw [hf.isEscape]; decide
  have hcom : f.isComment 35 = true := by rw [hf.isComment]; decide
  have hoe : ((35 : UInt8) == f.oend) = false := by rw [hf.oend]; decide
  have hoe0 : (f.oend == 0) = true := by rw [hf.oend]; decide
  obtain ⟨l', k', hadd, ht⟩ := addchar_take e l k fi v 35 hv
  refine ⟨l', k', ?_, ht⟩
  unfold dataStep
  simp only [save_stt _ _ _ _ _ _ _ _ (by decide : (35 : UInt8) ≠ 0), hadd]
  simp [hesc, hoe, hcom, hoe0, hb]

end steps

/-! ### runs -/
section runs
variable {f : Format} (hf : DataFmt f)
include hf

/-- leading blanks: nothing is kept -/
theorem run_lead_blanks (e : List (List UInt8)) (fi : UInt8) (cur ln : Nat) :
    ∀ (bs x : List UInt8) (la : Option UInt8), bs.all isBlank = true → x.length ≤ 1 →
      ∃ x' la', runSteps (dataStep f) (Dst e x false fi 0 cur ln 0 la) bs = some (Dst e x' false fi 0 cur ln 0 la')
        ∧ x'.length ≤ 1 ∧ (bs ≠ [] → ∃ b, la' = some b ∧ isspace b = true) := by
  intro bs
  induction bs with
  | nil => intro x la _ hx; exact ⟨x, la, rfl, hx, fun h => absurd rfl h⟩
  | cons b r ih =>
    intro x la hb hx
    simp only [List.all_cons, Bool.and_eq_true] at hb
    obtain ⟨x', la', hrun, hx', hla⟩ := ih [b] (some b) hb.2 (by simp)
    refine ⟨x', la', ?_, hx', ?_⟩
    · simp only [runSteps, dataStep_blank_lead hf e x fi cur ln la b hb.1 hx]; exact hrun
    · intro _
      by_cases hr : r = []
      · subst hr
        simp only [runSteps, Option.some.injEq] at hrun
        have hb' : b = 32 ∨ b = 9 ∨ b = 11 ∨ b = 12 ∨ b = 13 := by simpa [isBlank, or_assoc] using hb.1
        refine ⟨b, ?_, by rcases hb' with h | h | h | h | h <;> subst h <;> decide⟩
        have := congrArg DataSt.last hrun
        simpa using this.symm
      · exact hla hr

/-- valid length after a run of plain characters: position behind the last character that is not
    white space -/
def validAfter : Nat → Nat → List UInt8 → Nat
  | _, v, [] => v
  | len, v, c :: r => validAfter (len + 1) (if isspace c then v else len + 1) r

/-- plain characters while everything is kept -/
theorem run_plain (e : List (List UInt8)) (fi : UInt8) (cur ln : Nat) :
    ∀ (w l : List UInt8) (v : Nat) (la : Option UInt8), w.all plainChar = true →
      runSteps (dataStep f) (Dst e l true fi v cur ln 0 la) w =
        some (Dst e (l ++ w) true fi (validAfter l.length v w) cur ln 0 (if w.isEmpty then la else w.getLast?)) := by
  intro w
  induction w with
  | nil => intro l v la _; simp [runSteps, validAfter]
  | cons c r ih =>
    intro l v la hw
    simp only [List.all_cons, Bool.and_eq_true] at hw
    simp only [runSteps, dataStep_plain_keep hf e l fi v cur ln la c hw.1]
    rw [ih (l ++ [c]) _ (some c) hw.2]
    simp only [List.length_append, List.length_cons, List.length_nil, Nat.zero_add, List.append_assoc,
      List.singleton_append, validAfter, List.isEmpty_cons, Bool.false_eq_true, ↓reduceIte]
    cases r with
    | nil => simp
    | cons a t => simp [List.getLast?_cons_cons]

end runs

theorem validAfter_blanks (len v : Nat) (bs : List UInt8) (h : bs.all isBlank = true) :
    validAfter len v bs = v := by
  induction bs generalizing len with
  | nil => rfl
  | cons b r ih =>
    simp only [List.all_cons, Bool.and_eq_true] at h
    have hb' : b = 32 ∨ b = 9 ∨ b = 11 ∨ b = 12 ∨ b = 13 := by simpa [isBlank, or_assoc] using h.1
    have hsp : isspace b = true := by rcases hb' with h | h | h | h | h <;> subst h <;> decide
    simp only [validAfter, hsp, ↓reduceIte]
    exact ih _ h.2

theorem validAfter_append (len v : Nat) (a b : List UInt8) :
    validAfter len v (a ++ b) = validAfter (len + a.length) (validAfter len v a) b := by
  induction a generalizing len v with
  | nil => simp [validAfter]
  | cons c r ih =>
    simp only [List.cons_append, validAfter, List.length_cons]
    rw [ih]
    congr 1; omega

/-- a run that ends in a character that is not white space validates everything -/
theorem validAfter_vis (len v : Nat) (w : List UInt8) (c : UInt8) (hc : isspace c = false) :
    validAfter len v (w ++ [c]) = len + w.length + 1 := by
  rw [validAfter_append]
  simp [validAfter, hc]


/-! ### quoted values -/

/-- state inside double quotes after the value prefix `acc` -/
def qstate (e : List (List UInt8)) (fi : UInt8) (cur ln : Nat) (acc : List UInt8) (la : Option UInt8) : DataSt :=
  if acc.isEmpty then Dst e [34] false fi 0 cur ln 34 (some 34)
  else Dst e acc true fi acc.length cur ln 34 la

section quoted
variable {f : Format} (hf : DataFmt f)
include hf

theorem qstate_step (e : List (List UInt8)) (fi : UInt8) (cur ln : Nat) (acc : List UInt8) (la : Option UInt8)
    (c : UInt8) (h0 : c ≠ 0) (h34 : c ≠ 34) :
    ∃ ln', dataStep f (qstate e fi cur ln acc la) c = .more (qstate e fi cur ln' (acc ++ [c]) (some c)) := by
  unfold qstate
  by_cases ha : acc = []
  · subst ha
    refine ⟨if c == 10 then ln + 1 else ln, ?_⟩
    simp only [List.isEmpty_nil, ↓reduceIte, List.nil_append, List.isEmpty_cons, Bool.false_eq_true,
      List.length_cons, List.length_nil, Nat.zero_add]
    exact dataStep_in_first hf e fi cur ln (some 34) c h0 h34
  · refine ⟨if c == 10 then ln + 1 else ln, ?_⟩
    have h1 : acc.isEmpty = false := by simp [ha]
    have h2 : (acc ++ [c]).isEmpty = false := by simp
    simp only [h1, h2, Bool.false_eq_true, ↓reduceIte, List.length_append, List.length_cons, List.length_nil,
      Nat.zero_add]
    exact dataStep_in_keep hf e acc fi acc.length cur ln la c h0 h34

theorem qstate_escaped (e : List (List UInt8)) (fi : UInt8) (cur ln : Nat) (acc : List UInt8) (la : Option UInt8) :
    runSteps (dataStep f) (qstate e fi cur ln acc la) [92, 34] = some (qstate e fi cur ln (acc ++ [34]) (some 34)) := by
  obtain ⟨ln', h1⟩ := qstate_step hf e fi cur ln acc la 92 (by decide) (by decide)
  have hln : ln' = ln := by
    -- the line counter only moves on a line feed
    unfold qstate at h1
    by_cases ha : acc = []
    · subst ha
      simp only [List.isEmpty_nil, ↓reduceIte, List.nil_append, List.isEmpty_cons, Bool.false_eq_true] at h1
      rw [dataStep_in_first hf e fi cur ln (some 34) 92 (by decide) (by decide)] at h1
      simp only [Step.more.injEq] at h1
      have := congrArg (fun d => d.st.line) h1
      simpa using this.symm
    · have h1' : acc.isEmpty = false := by simp [ha]
      have h2 : (acc ++ [92]).isEmpty = false := by simp
      simp only [h1', h2, Bool.false_eq_true, ↓reduceIte] at h1
      rw [dataStep_in_keep hf e acc fi acc.length cur ln la 92 (by decide) (by decide)] at h1
      simp only [Step.more.injEq] at h1
      have := congrArg (fun d => d.st.line) h1
      simpa using this.symm
  subst hln
  simp only [runSteps, h1]
  have h2 : (acc ++ [92]).isEmpty = false := by simp
  have h3 : (acc ++ [34]).isEmpty = false := by simp
  unfold qstate
  simp only [h2, h3, Bool.false_eq_true, ↓reduceIte, List.length_append, List.length_cons, List.length_nil,
    Nat.zero_add]
  rw [dataStep_in_escaped hf e acc fi (acc.length + 1) cur ln']

/-- the escaped text of `v` inside quotes yields `v` -/
theorem run_escape (e : List (List UInt8)) (fi : UInt8) (cur : Nat) :
    ∀ (v acc : List UInt8) (la : Option UInt8) (ln : Nat), v.contains 0 = false →
      ∃ ln' la', runSteps (dataStep f) (qstate e fi cur ln acc la) (escape v)
          = some (qstate e fi cur ln' (acc ++ v) la')
        ∧ (v ≠ [] → la' = v.getLast?) ∧ (v = [] → la' = la) := by
  intro v
  induction v with
  | nil => intro acc la ln _; exact ⟨ln, la, by simp [escape, runSteps], fun h => absurd rfl h, fun _ => rfl⟩
  | cons c r ih =>
    intro acc la ln hz
    simp only [List.contains_cons, Bool.or_eq_false_iff] at hz
    have h0 : c ≠ 0 := by
      intro h; subst h; simp at hz
    by_cases h34 : c = 34
    · subst h34
      obtain ⟨ln', la', hrun, hl1, hl2⟩ := ih (acc ++ [34]) (some 34) ln hz.2
      refine ⟨ln', la', ?_, ?_, fun h => by cases h⟩
      · have : escape (34 :: r) = [92, 34] ++ escape r := by simp [escape]
        rw [this]
        have := runSteps_append (dataStep f) _ _ _ [92, 34] (escape r)
          (qstate_escaped hf e fi cur ln acc la) hrun
        simpa using this
      · intro _
        by_cases hr : r = []
        · subst hr; rw [hl2 rfl]; rfl
        · rw [hl1 hr]; cases r with
          | nil => exact absurd rfl hr
          | cons a t => simp [List.getLast?_cons_cons]
    · obtain ⟨ln1, hstep⟩ := qstate_step hf e fi cur ln acc la c h0 h34
      obtain ⟨ln', la', hrun, hl1, hl2⟩ := ih (acc ++ [c]) (some c) ln1 hz.2
      refine ⟨ln', la', ?_, ?_, fun h => by cases h⟩
      · have : escape (c :: r) = c :: escape r := by
          have : (c == 34) = false := by simp [h34]
          simp [escape, this]
        rw [this]
        simp only [runSteps, hstep]
        simpa using hrun
      · intro _
        by_cases hr : r = []
        · subst hr; rw [hl2 rfl]; rfl
        · rw [hl1 hr]; cases r with
          | nil => exact absurd rfl hr
          | cons a t => simp [List.getLast?_cons_cons]

end quoted

/-! ### the whole value text -/

/-- the data state behind a value `val`: its bytes are the valid part of the pending area -/
def AfterVal (e : List (List UInt8)) (fi : UInt8) (cur : Nat) (val : List UInt8) (d : DataSt) : Prop :=
  ∃ l k ln la, d = Dst e l k fi val.length cur ln 0 la
    ∧ ((k = true ∧ val.length ≤ l.length) ∨ (k = false ∧ val = [] ∧ l.length ≤ 1))
    ∧ l.take val.length = val

section whole
variable {f : Format} (hf : DataFmt f)
include hf

theorem afterVal_blank (e : List (List UInt8)) (fi : UInt8) (cur : Nat) (val : List UInt8) (d : DataSt)
    (h : AfterVal e fi cur val d) (b : UInt8) (hb : isBlank b = true) :
    ∃ d', dataStep f d b = .more d' ∧ AfterVal e fi cur val d' ∧ d'.last = some b := by
  obtain ⟨l, k, ln, la, hd, hk, ht⟩ := h
  subst hd
  have hb' : b = 32 ∨ b = 9 ∨ b = 11 ∨ b = 12 ∨ b = 13 := by simpa [isBlank, or_assoc] using hb
  have hsp : isspace b = true := by rcases hb' with h | h | h | h | h <;> subst h <;> decide
  have hpl : plainChar b = true := by rcases hb' with h | h | h | h | h <;> subst h <;> decide
  rcases hk with ⟨hk, hv⟩ | ⟨hk, hv, hl⟩
  · subst hk
    refine ⟨_, dataStep_plain_keep hf e l fi val.length cur ln la b hpl, ?_, rfl⟩
    simp only [hsp, ↓reduceIte]
    exact ⟨l ++ [b], true, ln, some b, rfl, Or.inl ⟨rfl, by simp; omega⟩, by rw [List.take_append_of_le_length hv]; exact ht⟩
  · subst hk hv
    refine ⟨_, dataStep_blank_lead hf e l fi cur ln la b hb hl, ?_, rfl⟩
    exact ⟨[b], false, ln, some b, rfl, Or.inr ⟨rfl, rfl, by simp⟩, by simp⟩

theorem afterVal_blanks (e : List (List UInt8)) (fi : UInt8) (cur : Nat) (val : List UInt8) :
    ∀ (bs : List UInt8) (d : DataSt), AfterVal e fi cur val d → bs.all isBlank = true →
      ∃ d', runSteps (dataStep f) d bs = some d' ∧ AfterVal e fi cur val d'
        ∧ (bs ≠ [] → ∃ b, d'.last = some b ∧ isspace b = true) := by
  intro bs
  induction bs with
  | nil => intro d h _; exact ⟨d, rfl, h, fun hh => absurd rfl hh⟩
  | cons b r ih =>
    intro d h hb
    simp only [List.all_cons, Bool.and_eq_true] at hb
    obtain ⟨d1, hs, ha, hl⟩ := afterVal_blank hf e fi cur val d h b hb.1
    obtain ⟨d', hrun, ha', hl'⟩ := ih d1 ha hb.2
    refine ⟨d', by simp only [runSteps, hs]; exact hrun, ha', ?_⟩
    intro _
    by_cases hr : r = []
    · subst hr
      simp only [runSteps, Option.some.injEq] at hrun
      subst hrun
      have hb' : b = 32 ∨ b = 9 ∨ b = 11 ∨ b = 12 ∨ b = 13 := by simpa [isBlank, or_assoc] using hb.1
      exact ⟨b, hl, by rcases hb' with h | h | h | h | h <;> subst h <;> decide⟩
    · exact hl' hr

/-- exit of the data loop behind a value -/
def DataExit.good (e : List (List UInt8)) (fi : UInt8) (cur : Nat) (val : List UInt8) (s : St) : Prop :=
  ∃ l k ln, s = Stt e l k fi val.length cur ln ∧ l.take val.length = val

theorem afterVal_newline (e : List (List UInt8)) (fi : UInt8) (cur : Nat) (val : List UInt8) (d : DataSt)
    (h : AfterVal e fi cur val d) :
    ∃ s, dataStep f d 10 = .done (.newline s) ∧ DataExit.good e fi cur val s := by
  obtain ⟨l, k, ln, la, hd, hk, ht⟩ := h
  subst hd
  have hv : (k = true ∧ val.length ≤ l.length) ∨ val.length = 0 := by
    rcases hk with h | ⟨_, h, _⟩
    · exact Or.inl h
    · exact Or.inr (by rw [h]; rfl)
  obtain ⟨l', k', hs, ht'⟩ := dataStep_newline hf e l k fi val.length cur ln la hv
  exact ⟨_, hs, l', k', ln + 1, rfl, by rw [ht', ht]⟩

theorem afterVal_comment (e : List (List UInt8)) (fi : UInt8) (cur : Nat) (val : List UInt8) (d : DataSt)
    (h : AfterVal e fi cur val d) (b : UInt8) (hb : isspace b = true) (hl : d.last = some b) :
    ∃ s, dataStep f d 35 = .done (.comment s) ∧ DataExit.good e fi cur val s := by
  obtain ⟨l, k, ln, la, hd, hk, ht⟩ := h
  subst hd
  simp only at hl
  subst hl
  have hv : (k = true ∧ val.length ≤ l.length) ∨ val.length = 0 := by
    rcases hk with h | ⟨_, h, _⟩
    · exact Or.inl h
    · exact Or.inr (by rw [h]; rfl)
  obtain ⟨l', k', hs, ht'⟩ := dataStep_comment hf e l k fi val.length cur ln b hb hv
  exact ⟨_, hs, l', k', ln, rfl, by rw [ht', ht]⟩

end whole


/-! ### assembling: value text, trailing decoration, line feed -/

theorem isSpace_eq (c : UInt8) : Render.isSpace c = isspace c := rfl

/-- the text written for an optional value -/
def valueText (ov : Option (List UInt8)) : List UInt8 :=
  match ov with
  | some x => if x.isEmpty then [] else writeValue x
  | none => []

/-- the value that is read back -/
def valueOf (ov : Option (List UInt8)) : List UInt8 :=
  match ov with
  | some x => x
  | none => []

/-- trailing decoration: blanks, optionally (after at least one blank) a comment without line feed -/
theorem trail_split (tr : List UInt8) (h : trailOk tr = true) :
    ∃ bs, bs.all isBlank = true ∧ (tr = bs ∨ ∃ txt, tr = bs ++ 35 :: txt ∧ bs ≠ [] ∧ txt.contains 10 = false) := by
  have hct : ∀ l : List UInt8, commentTail l = true →
      ∃ bs, bs.all isBlank = true ∧ (l = bs ∨ ∃ txt, l = bs ++ 35 :: txt ∧ txt.contains 10 = false) := by
    intro l
    induction l with
    | nil => intro _; exact ⟨[], rfl, Or.inl rfl⟩
    | cons c r ih =>
      intro hc
      simp only [commentTail] at hc
      split at hc
      · rename_i h35
        have : c = 35 := by simpa using h35
        subst this
        exact ⟨[], rfl, Or.inr ⟨r, rfl, by simpa using hc⟩⟩
      · simp only [Bool.and_eq_true] at hc
        obtain ⟨bs, hb, hr⟩ := ih hc.2
        refine ⟨c :: bs, by simp [hc.1, hb], ?_⟩
        rcases hr with hr | ⟨txt, hr, ht⟩
        · exact Or.inl (by rw [hr])
        · exact Or.inr ⟨txt, by rw [hr]; rfl, ht⟩
  unfold trailOk at h
  simp only [Bool.or_eq_true] at h
  rcases h with h | h
  · exact ⟨tr, h, Or.inl rfl⟩
  · cases tr with
    | nil => exact ⟨[], rfl, Or.inl rfl⟩
    | cons c r =>
      simp only [Bool.and_eq_true] at h
      obtain ⟨bs, hb, hr⟩ := hct (c :: r) h.2
      refine ⟨bs, hb, ?_⟩
      rcases hr with hr | ⟨txt, hr, ht⟩
      · exact Or.inl hr
      · refine Or.inr ⟨txt, hr, ?_, ht⟩
        intro hbs
        subst hbs
        simp only [List.nil_append, List.cons.injEq] at hr
        have := h.1
        rw [hr.1] at this
        revert this; decide

section assemble
variable {f : Format} (hf : DataFmt f)
include hf

/-- blanks and the written value lead to the state "behind the value" -/
theorem run_value (e : List (List UInt8)) (fi : UInt8) (cur ln : Nat) (post : List UInt8) (ov : Option (List UInt8))
    (hpost : post.all isBlank = true)
    (hv : match ov with | some x => x.isEmpty = true ∨ valueOk x = true | none => True) :
    ∃ d, runSteps (dataStep f) (Dst e [] false fi 0 cur ln 0 none) (post ++ valueText ov) = some d
      ∧ AfterVal e fi cur (valueOf ov) d := by
  obtain ⟨x, la, hrun1, hx, _⟩ := run_lead_blanks hf e fi cur ln post [] none hpost (by simp)
  -- no text: the state behind the blanks
  have hnone : AfterVal e fi cur [] (Dst e x false fi 0 cur ln 0 la) :=
    ⟨x, false, ln, la, rfl, Or.inr ⟨rfl, rfl, hx⟩, by simp⟩
  cases ov with
  | none => exact ⟨_, by simpa [valueText] using hrun1, by simpa [valueOf] using hnone⟩
  | some v =>
    by_cases hve : v.isEmpty = true
    · have : v = [] := by simpa using hve
      subst this
      exact ⟨_, by simpa [valueText] using hrun1, by simpa [valueOf] using hnone⟩
    · have hvo : valueOk v = true := by
        rcases hv with h | h
        · exact absurd h hve
        · exact h
      have hne : v ≠ [] := by simpa using hve
      simp only [valueText, hve, Bool.false_eq_true, ↓reduceIte, valueOf]
      unfold writeValue
      by_cases hp : plainOk v = true
      · -- plain
        simp only [hp, ↓reduceIte]
        unfold plainOk at hp
        simp only [Bool.and_eq_true] at hp
        obtain ⟨⟨_, hall⟩, hends⟩ := hp
        cases v with
        | nil => exact absurd rfl hne
        | cons c0 v' =>
          have hallp : (c0 :: v').all plainChar = true := by
            rw [List.all_eq_true] at hall ⊢
            intro c hc
            have := hall c hc
            simpa [plainChar] using this
          simp only [List.all_cons, Bool.and_eq_true] at hallp
          have hsp0 : isspace c0 = false := by
            simp only [List.head?_cons] at hends
            split at hends
            · rename_i a b h1 h2
              simp only [Option.some.injEq] at h1
              subst h1
              simp only [Bool.and_eq_true, Bool.not_eq_eq_eq_not, Bool.not_true] at hends
              exact hends.1
            · cases hends
          have hstep := dataStep_plain_first hf e x fi cur ln la c0 hallp.1 hsp0 hx
          have hrun2 := run_plain hf e fi cur ln v' [c0] 1 (some c0) hallp.2
          have hval : validAfter [c0].length 1 v' = (c0 :: v').length := by
            -- the valid length is the whole value: its last character is not white space
            cases hv' : v'.getLast? with
            | none =>
              have : v' = [] := by simpa using hv'
              subst this; simp [validAfter]
            | some cl =>
              obtain ⟨w, hw⟩ : ∃ w, v' = w ++ [cl] := List.getLast?_eq_some_iff.mp hv'
              subst hw
              have hcl : isspace cl = false := by
                have : (c0 :: (w ++ [cl])).getLast? = some cl := by
                  rw [← List.cons_append]; exact List.getLast?_concat
                rw [this] at hends
                simp only [List.head?_cons, Bool.and_eq_true, Bool.not_eq_eq_eq_not, Bool.not_true] at hends
                exact hends.2
              rw [validAfter_vis _ _ _ _ hcl]
              simp; omega
          rw [hval] at hrun2
          refine ⟨_, runSteps_append _ _ _ _ post (c0 :: v') hrun1 (by simp only [runSteps, hstep]; exact hrun2), ?_⟩
          exact ⟨[c0] ++ v', true, ln, _, rfl, Or.inl ⟨rfl, by simp⟩, by simp⟩
      · -- quoted: `"` escaped part `"` and the backslashes of the end
        have hp' : plainOk v = false := by simpa using hp
        simp only [hp', Bool.false_eq_true, ↓reduceIte]
        unfold valueOk at hvo
        simp only [Bool.and_eq_true, Bool.not_eq_eq_eq_not, Bool.not_true] at hvo
        obtain ⟨_, hz⟩ := hvo
        -- split the value
        have hsplit : quotedPart v ++ tailSlashes v = v := by
          unfold quotedPart tailSlashes
          rw [← List.reverse_append, List.takeWhile_append_dropWhile, List.reverse_reverse]
        have hts : (tailSlashes v).all (fun c => c == 92) = true := by
          unfold tailSlashes
          rw [List.all_reverse]; exact List.all_takeWhile
        have hqlast : (quotedPart v).getLast? ≠ some 92 := by
          unfold quotedPart
          rw [List.getLast?_reverse]
          have := List.head?_dropWhile_not (fun c : UInt8 => c == 92) v.reverse
          intro h
          rw [h] at this
          simp at this
        have hqne : quotedPart v ≠ [] := by
          -- otherwise the value consists of backslashes only, and such a value is written plain
          intro hq
          rw [hq, List.nil_append] at hsplit
          have hall : v.all (fun c => c == 92) = true := by rw [← hsplit]; exact hts
          have : plainOk v = true := by
            unfold plainOk
            have hve' : v.isEmpty = false := by simpa using hne
            simp only [hve', Bool.not_false, Bool.true_and, Bool.and_eq_true]
            refine ⟨?_, ?_⟩
            · rw [List.all_eq_true] at hall ⊢
              intro c hc
              have : c = 92 := by simpa using hall c hc
              subst this; decide
            · cases v with
              | nil => exact absurd rfl hne
              | cons a r =>
                have ha : a = 92 := by
                  have := (List.all_eq_true.mp hall) a (by simp)
                  simpa using this
                have hl : ∃ b, (a :: r).getLast? = some b ∧ b = 92 := by
                  have hnn : (a :: r) ≠ [] := by simp
                  refine ⟨(a :: r).getLast hnn, List.getLast?_eq_some_getLast hnn, ?_⟩
                  have := (List.all_eq_true.mp hall) _ (List.getLast_mem hnn)
                  simpa using this
                obtain ⟨b, hb1, hb2⟩ := hl
                simp only [List.head?_cons, hb1]
                subst ha hb2
                decide
          rw [hp'] at this; cases this
        have hzq : (quotedPart v).contains 0 = false := by
          cases hc : (quotedPart v).contains 0
          · rfl
          · exfalso
            have hm : (0 : UInt8) ∈ quotedPart v := by simpa using hc
            have : (0 : UInt8) ∈ v := by rw [← hsplit]; exact List.mem_append_left _ hm
            have : v.contains 0 = true := by simpa using this
            rw [hz] at this; cases this
        have hopen := dataStep_quote_open hf e x fi cur ln la hx
        obtain ⟨ln', la', hesc, hl1, _⟩ := run_escape hf e fi cur (quotedPart v) [] (some 34) ln hzq
        have hq0 : qstate e fi cur ln [] (some 34) = Dst e [34] false fi 0 cur ln 34 (some 34) := by
          simp [qstate]
        have hq1 : qstate e fi cur ln' ([] ++ quotedPart v) la'
            = Dst e (quotedPart v) true fi (quotedPart v).length cur ln' 34 la' := by
          have : (quotedPart v).isEmpty = false := by simpa using hqne
          simp [qstate, this]
        rw [hq0, hq1] at hesc
        have hla : la' ≠ some 92 := by rw [hl1 hqne]; exact hqlast
        have hclose := dataStep_in_close hf e (quotedPart v) fi (quotedPart v).length cur ln' la' hla hqne
        -- the backslashes behind the closing quote are plain characters
        have hplain : (tailSlashes v).all plainChar = true := by
          rw [List.all_eq_true] at hts ⊢
          intro c hc
          have : c = 92 := by simpa using hts c hc
          subst this; decide
        have hrun3 := run_plain hf e fi cur ln' (tailSlashes v) (quotedPart v) (quotedPart v).length (some 34) hplain
        have hval : validAfter (quotedPart v).length (quotedPart v).length (tailSlashes v) = v.length := by
          cases hb : (tailSlashes v).getLast? with
          | none =>
            have : tailSlashes v = [] := by simpa using hb
            rw [this] at hsplit ⊢
            rw [List.append_nil] at hsplit
            rw [hsplit]; rfl
          | some cl =>
            obtain ⟨w, hw⟩ : ∃ w, tailSlashes v = w ++ [cl] := List.getLast?_eq_some_iff.mp hb
            have hcl : cl = 92 := by
              have := (List.all_eq_true.mp hts) cl (by rw [hw]; simp)
              simpa using this
            have hsp : isspace cl = false := by subst hcl; decide
            rw [hw, validAfter_vis _ _ _ _ hsp]
            have : v.length = (quotedPart v).length + (w ++ [cl]).length := by
              rw [← hw, ← List.length_append, hsplit]
            rw [this]; simp; omega
        rw [hval, hsplit] at hrun3
        refine ⟨Dst e v true fi v.length cur ln' 0
          (if (tailSlashes v).isEmpty = true then some 34 else (tailSlashes v).getLast?), ?_, ?_⟩
        · refine runSteps_append _ _ _ _ post (34 :: escape (quotedPart v) ++ [34] ++ tailSlashes v) hrun1 ?_
          simp only [List.cons_append, List.append_assoc, runSteps, hopen]
          refine runSteps_append _ _ _ _ (escape (quotedPart v)) ([34] ++ tailSlashes v) hesc ?_
          simp only [List.singleton_append, runSteps, hclose]
          exact hrun3
        · exact ⟨v, true, ln', _, rfl, Or.inl ⟨rfl, Nat.le_refl _⟩, by simp⟩

/-- **`mpt_parse_data` reads a written value**: blanks, value text, trailing decoration, line feed -/
theorem parseData_value (cfg : Cfg) (hcfg : cfg.fmt = f) (e : List (List UInt8)) (fi : UInt8) (cur ln : Nat)
    (post tr rest : List UInt8) (ov : Option (List UInt8)) (src : Src)
    (hpost : post.all isBlank = true) (htr : trailOk tr = true)
    (hv : match ov with | some x => x.isEmpty = true ∨ valueOk x = true | none => True)
    (hsrc : src.rest = post ++ valueText ov ++ tr ++ 10 :: rest) :
    ∃ s' src', parseData cfg (Stt e [] false fi 0 cur ln) src = (((valueOf ov).length : Int), s', src')
      ∧ DataExit.good e fi cur (valueOf ov) s' ∧ src'.rest = rest := by
  subst hcfg
  obtain ⟨d, hrun, hd⟩ := run_value hf e fi cur ln post ov hpost hv
  obtain ⟨bs, hbs, htr'⟩ := trail_split tr htr
  obtain ⟨d', hrun', hd', hlast⟩ := afterVal_blanks hf e fi cur (valueOf ov) bs d hd hbs
  have hrunAll := runSteps_append (dataStep cfg.fmt) _ _ _ (post ++ valueText ov) bs hrun hrun'
  have hoe : (cfg.fmt.oend != 0) = false := by rw [hf.oend]; rfl
  rcases htr' with htr' | ⟨txt, htr', hne, htxt⟩
  · -- blanks, then the line feed
    subst htr'
    obtain ⟨s', hstep, hgood⟩ := afterVal_newline hf e fi cur (valueOf ov) d' hd'
    obtain ⟨src', hscan, hrest⟩ := scan_prefix_done (dataStep cfg.fmt) (fun d => DataExit.eof d.st)
      (post ++ valueText ov ++ tr) 10 rest src { st := Stt e [] false fi 0 cur ln } d' _ hsrc hrunAll hstep
    refine ⟨s', src', ?_, hgood, hrest⟩
    unfold parseData
    simp only [hscan]
    obtain ⟨l, k, ln', hs', _⟩ := hgood
    subst hs'
    simp [dataFinish, hoe]
  · -- blanks, comment up to the line feed
    subst htr'
    obtain ⟨b, hb1, hb2⟩ := hlast hne
    obtain ⟨s', hstep, hgood⟩ := afterVal_comment hf e fi cur (valueOf ov) d' hd' b hb2 hb1
    have hsrc' : src.rest = (post ++ valueText ov ++ bs) ++ 35 :: (txt ++ 10 :: rest) := by
      rw [hsrc]; simp [List.append_assoc]
    obtain ⟨src1, hscan, hrest1⟩ := scan_prefix_done (dataStep cfg.fmt) (fun d => DataExit.eof d.st)
      (post ++ valueText ov ++ bs) 35 (txt ++ 10 :: rest) src { st := Stt e [] false fi 0 cur ln } d' _ hsrc'
      hrunAll hstep
    obtain ⟨line', src2, hend, hrest2⟩ := endline_line txt rest s' src1 htxt hrest1
    obtain ⟨l, k, ln', hs', htake⟩ := hgood
    subst hs'
    refine ⟨_, src2, ?_, ⟨l, k, line', rfl, htake⟩, hrest2⟩
    unfold parseData
    simp only [hscan, hend]
    simp [dataFinish, hoe]

end assemble

end Mpt.Parse
