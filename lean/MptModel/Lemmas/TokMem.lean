/-
  C05, layer 2: element slots.  A buffer with elements of `sz ≥ 4` bytes is read as a sequence of slots, slot
  `j` holding the token `slot d sz j` (the first four bytes of the element).  Bridge lemmas from byte level
  writes (element construction, scribbling, memcpy/memmove of whole elements, zero fill) to slots.
-/
import MptModel.Lemmas.HeapElem
namespace Mpt.Heap
open Mpt

/-- token found in element `j` -/
def slot (d : List Byte) (sz j : Nat) : Nat := rdTok d (j * sz)

/-- the tokens of the slots `i, i+1, .., i+n-1` -/
def slotsFrom (d : List Byte) (sz i n : Nat) : List Nat := (List.range n).map fun j => slot d sz (i + j)

theorem toksAt_eq (d : List Byte) (sz i : Nat) : ∀ n, toksAt d (i * sz) sz n = slotsFrom d sz i n := by
  intro n
  induction n generalizing i with
  | zero => rfl
  | succ n ih =>
    simp only [toksAt, slotsFrom, List.range_succ_eq_map, List.map_cons, List.map_map]
    have : i * sz + sz = (i + 1) * sz := by rw [Nat.add_mul]; simp
    rw [this, ih (i + 1)]
    simp only [slotsFrom, slot, Nat.add_zero]
    congr 1
    apply List.map_congr_left
    intro a _
    simp only [Function.comp]
    congr 2; omega

theorem slotsFrom_length (d : List Byte) (sz i n : Nat) : (slotsFrom d sz i n).length = n := by simp [slotsFrom]

theorem slotsFrom_add (d : List Byte) (sz i n m : Nat) :
    slotsFrom d sz i (n + m) = slotsFrom d sz i n ++ slotsFrom d sz (i + n) m := by
  simp only [slotsFrom, List.range_add, List.map_append, List.map_map]
  congr 1
  apply List.map_congr_left
  intro a _; simp only [Function.comp]; congr 1; omega

theorem slotsFrom_congr {d d' : List Byte} {sz i n : Nat} (h : ∀ j, i ≤ j → j < i + n → slot d' sz j = slot d sz j) :
    slotsFrom d' sz i n = slotsFrom d sz i n := by
  apply List.map_congr_left
  intro a ha
  exact h (i + a) (by omega) (by have := List.mem_range.mp ha; omega)

theorem slotsFrom_zero (d : List Byte) (sz i : Nat) : slotsFrom d sz i 0 = [] := rfl

theorem Buf.toks_managed {x : Buf} {t : Traits} (ht : x.traits = some t) (hf : t.fini.isSome = true) (hs : t.size ≠ 0) :
    x.toks = slotsFrom x.data t.size 0 (x.used / t.size) := by
  simp only [Buf.toks, ht, hf, hs, ne_eq, not_false_eq_true, and_self, if_true]
  have := toksAt_eq x.data t.size 0 (x.used / t.size)
  simpa using this

/-! ### byte writes seen through slots -/

theorem getD_write_at (d : List Byte) (q : Nat) (bytes : List Byte) (i : Nat) (h : q + bytes.length ≤ d.length) :
    (Mem.write d q bytes).getD i 0 = if i < q then d.getD i 0 else if i < q + bytes.length then bytes.getD (i - q) 0 else d.getD i 0 := by
  simp only [List.getD_eq_getElem?_getD]
  rw [getElem?_write _ _ _ _ h]
  split
  · rfl
  · split <;> rfl

/-- a write of whole elements at an element boundary: slots inside read the written bytes, the others keep -/
theorem slot_write (d : List Byte) (sz i l : Nat) (bytes : List Byte) (h4 : 4 ≤ sz) (bl : bytes.length = l * sz)
    (fit : (i + l) * sz ≤ d.length) (j : Nat) :
    slot (Mem.write d (i * sz) bytes) sz j = if i ≤ j ∧ j < i + l then slot bytes sz (j - i) else slot d sz j := by
  have fit' : i * sz + bytes.length ≤ d.length := by rw [bl, ← Nat.add_mul]; exact fit
  unfold slot rdTok
  simp only [getD_write_at _ _ _ _ fit', bl]
  have e1 : (i + l) * sz = i * sz + l * sz := Nat.add_mul _ _ _
  by_cases c : i ≤ j ∧ j < i + l
  · rw [if_pos c]
    have lo : i * sz ≤ j * sz := Nat.mul_le_mul_right _ c.1
    have hi : (j + 1) * sz ≤ (i + l) * sz := Nat.mul_le_mul_right _ (by omega)
    have e2 : (j + 1) * sz = j * sz + sz := by rw [Nat.add_mul]; simp
    have e3 : (j - i) * sz = j * sz - i * sz := Nat.sub_mul _ _ _
    have n0 : ¬ j * sz < i * sz := by omega
    have n1 : ¬ j * sz + 1 < i * sz := by omega
    have n2 : ¬ j * sz + 2 < i * sz := by omega
    have n3 : ¬ j * sz + 3 < i * sz := by omega
    have p0 : j * sz < i * sz + l * sz := by omega
    have p1 : j * sz + 1 < i * sz + l * sz := by omega
    have p2 : j * sz + 2 < i * sz + l * sz := by omega
    have p3 : j * sz + 3 < i * sz + l * sz := by omega
    simp only [n0, n1, n2, n3, p0, p1, p2, p3, if_true, if_false, e3]
    have a1 : j * sz + 1 - i * sz = j * sz - i * sz + 1 := by omega
    have a2 : j * sz + 2 - i * sz = j * sz - i * sz + 2 := by omega
    have a3 : j * sz + 3 - i * sz = j * sz - i * sz + 3 := by omega
    rw [a1, a2, a3]
  · rw [if_neg c]
    by_cases lt : j < i
    · have hi : (j + 1) * sz ≤ i * sz := Nat.mul_le_mul_right _ (by omega)
      have e2 : (j + 1) * sz = j * sz + sz := by rw [Nat.add_mul]; simp
      have p0 : j * sz < i * sz := by omega
      have p1 : j * sz + 1 < i * sz := by omega
      have p2 : j * sz + 2 < i * sz := by omega
      have p3 : j * sz + 3 < i * sz := by omega
      simp only [p0, p1, p2, p3, if_true]
    · have ge : i + l ≤ j := by omega
      have lo : (i + l) * sz ≤ j * sz := Nat.mul_le_mul_right _ ge
      have n0 : ¬ j * sz < i * sz := by omega
      have n1 : ¬ j * sz + 1 < i * sz := by omega
      have n2 : ¬ j * sz + 2 < i * sz := by omega
      have n3 : ¬ j * sz + 3 < i * sz := by omega
      have q0 : ¬ j * sz < i * sz + l * sz := by omega
      have q1 : ¬ j * sz + 1 < i * sz + l * sz := by omega
      have q2 : ¬ j * sz + 2 < i * sz + l * sz := by omega
      have q3 : ¬ j * sz + 3 < i * sz + l * sz := by omega
      simp only [n0, n1, n2, n3, q0, q1, q2, q3, if_false]

/-- garbage token left by the destructor's scribble -/
def scribbled : Nat := 3722304989

theorem slot_elemBytes (tok sz : Nat) (h4 : 4 ≤ sz) (small : tok < 4294967296) : slot (elemBytes tok sz) sz 0 = tok := by
  have g := elemBytes_getD tok sz h4
  unfold slot rdTok
  simp only [Nat.zero_mul, Nat.zero_add]
  rw [g.1, g.2.1, g.2.2.1, g.2.2.2]
  simp only [UInt8.toNat_ofNat']
  omega

theorem slot_scribble (sz : Nat) (h4 : 4 ≤ sz) : slot (List.replicate sz (0xdd : Byte)) sz 0 = scribbled := by
  unfold slot rdTok scribbled
  have h0 : 0 < sz := by omega
  have h1 : 1 < sz := by omega
  have h2 : 2 < sz := by omega
  have h3 : 3 < sz := by omega
  simp [List.getD_eq_getElem?_getD, List.getElem?_replicate, h0, h1, h2, h3]

/-- slots of a byte range read from `d` at an element boundary -/
theorem slot_read (d : List Byte) (sz c l k : Nat) (h4 : 4 ≤ sz) (hk : k < l) :
    slot (Mem.read d (c * sz) (l * sz)) sz k = slot d sz (c + k) := by
  unfold slot rdTok
  have e : (c + k) * sz = c * sz + k * sz := Nat.add_mul _ _ _
  have hi : (k + 1) * sz ≤ l * sz := Nat.mul_le_mul_right _ (by omega)
  have e2 : (k + 1) * sz = k * sz + sz := by rw [Nat.add_mul]; simp
  simp only [List.getD_eq_getElem?_getD, getElem?_read, e]
  have p0 : k * sz < l * sz := by omega
  have p1 : k * sz + 1 < l * sz := by omega
  have p2 : k * sz + 2 < l * sz := by omega
  have p3 : k * sz + 3 < l * sz := by omega
  simp only [p0, p1, p2, p3, if_true, Nat.add_assoc]

/-- slots of a prefix -/
theorem slot_take (d : List Byte) (sz m k : Nat) (h4 : 4 ≤ sz) (hk : (k + 1) * sz ≤ m) :
    slot (d.take m) sz k = slot d sz k := by
  unfold slot rdTok
  have e2 : (k + 1) * sz = k * sz + sz := by rw [Nat.add_mul]; simp
  simp only [List.getD_eq_getElem?_getD, List.getElem?_take]
  have p0 : k * sz < m := by omega
  have p1 : k * sz + 1 < m := by omega
  have p2 : k * sz + 2 < m := by omega
  have p3 : k * sz + 3 < m := by omega
  simp only [p0, p1, p2, p3, if_true]

/-- `memmove` of whole elements -/
theorem slot_move (d : List Byte) (sz a c l : Nat) (h4 : 4 ≤ sz) (hs : (c + l) * sz ≤ d.length) (hd : (a + l) * sz ≤ d.length)
    (j : Nat) :
    slot (Mem.move d (a * sz) (c * sz) (l * sz)) sz j = if a ≤ j ∧ j < a + l then slot d sz (c + (j - a)) else slot d sz j := by
  unfold Mem.move
  have rl : (Mem.read d (c * sz) (l * sz)).length = l * sz :=
    read_length _ _ _ (by rw [← Nat.add_mul]; exact hs)
  rw [slot_write d sz a l _ h4 rl hd j]
  split
  · rename_i cnd
    rw [slot_read d sz c l (j - a) h4 (by omega)]
  · rfl

theorem move_length' (d : List Byte) (sz a c l : Nat) (hs : (c + l) * sz ≤ d.length) (hd : (a + l) * sz ≤ d.length) :
    (Mem.move d (a * sz) (c * sz) (l * sz)).length = d.length :=
  move_length _ _ _ _ (by rw [← Nat.add_mul]; exact hs) (by rw [← Nat.add_mul]; exact hd)

end Mpt.Heap
