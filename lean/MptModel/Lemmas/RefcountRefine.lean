/-
  C15 helper lemmas, third file: the implementation model M (`Mpt.Refcount`, counters) against the spec S
  (`Mpt.Refs`, no counters): abstraction `abs` and, per operation, "the outcome of M is one of the outcomes S allows".
-/
import MptModel.Lemmas.RefcountHist
import MptModel.Spec.Refs

namespace Mpt.Refcount
open Mpt.Refs

/-- forget the counter: what S knows about an object -/
def absObj (o : RObj) : SObj := { kind := o.kind, ext := o.ext, dead := !o.alive, elems := o.elems }

/-- the S state of an M state: the counters are dropped, S derives the totals from the handles -/
def abs (s : St) : SSt := { objs := s.objs.map absObj, hnd := s.hnd }

/-- M's result `r` (state, accepted) is outcome `a` of S -/
def Sim (a : Alt) (r : St × Bool) : Prop := a.ok = r.2 ∧ a.st = abs r.1

theorem abs_getD (s : St) (o : Nat) (h : o < s.objs.length) : (abs s).objs.getD o default = absObj (s.obj o) := by
  unfold abs St.obj
  simp only [List.getD_eq_getElem?_getD, List.getElem?_map, List.getElem?_eq_getElem h, Option.map_some, Option.getD_some]

theorem abs_ext (s : St) (o : Nat) : ((abs s).objs.getD o default).ext = (s.obj o).ext := by
  rcases Nat.lt_or_ge o s.objs.length with h | h
  · rw [abs_getD s o h]; rfl
  · unfold abs St.obj
    simp only [List.getD_eq_getElem?_getD, List.getElem?_map, List.getElem?_eq_none h, Option.map_none, Option.getD_none]
    rfl

theorem abs_kind (s : St) (o : Nat) : ((abs s).objs.getD o default).kind = (s.obj o).kind := by
  rcases Nat.lt_or_ge o s.objs.length with h | h
  · rw [abs_getD s o h]; rfl
  · unfold abs St.obj
    simp only [List.getD_eq_getElem?_getD, List.getElem?_map, List.getElem?_eq_none h, Option.map_none, Option.getD_none]
    rfl

theorem refs_abs (s : St) (o : Nat) : refs (abs s) o = (s.obj o).ext + hrefs s.hnd o := by
  unfold refs; rw [abs_ext]; rfl

theorem refs_abs_inv (s : St) (hI : Inv s) (o : Nat) : refs (abs s) o = (s.obj o).count := by
  rw [refs_abs]; have := count_of_inv s hI o; omega

/-- S allows a further reference exactly when M's `addref` succeeds -/
theorem canTake_abs (s : St) (hI : Inv s) (o : Nat) (ho : o < s.objs.length) :
    canTake (abs s) o = decide ((s.addref o).2 ≠ 0) := by
  unfold canTake
  rw [refs_abs_inv s hI, abs_getD s o ho, addref_ret]
  have hb := (hI o).2.1
  simp only [absObj, Bool.not_not]
  cases ha : (s.obj o).alive with
  | false => simp
  | true =>
    simp only [↓reduceIte, Bool.true_and]
    rw [raise_eq _ hb]
    by_cases hc : (s.obj o).count = 0 ∨ (s.obj o).count = MAXV
    · simp only [hc, ↓reduceIte, ne_eq, not_true_eq_false, decide_false, Bool.and_eq_false_imp, decide_eq_true_eq]
      rcases hc with h | h <;> rw [h] <;> simp [MAXV]
    · simp only [hc, ↓reduceIte]
      have : 0 < (s.obj o).count ∧ (s.obj o).count < MAXV := by omega
      simp [this.1, this.2]

/-- replacing an object by one that looks the same to S -/
theorem map_set_same (l : List RObj) (o : Nat) (x : RObj) (hx : absObj x = absObj (l.getD o default)) :
    (l.set o x).map absObj = l.map absObj := by
  apply List.ext_getElem?
  intro i
  simp only [List.getElem?_map, List.getElem?_set]
  by_cases e : o = i
  · subst e
    by_cases hl : o < l.length
    · simp only [hl, ↓reduceIte, Option.map_some, List.getElem?_eq_getElem hl]
      rw [hx, List.getD_eq_getElem?_getD, List.getElem?_eq_getElem hl]; rfl
    · simp only [hl, ↓reduceIte, List.getElem?_eq_none (Nat.le_of_not_lt hl)]
  · simp only [e, ↓reduceIte]

theorem map_set_abs (l : List RObj) (o : Nat) (x : RObj) :
    (l.set o x).map absObj = (l.map absObj).set o (absObj x) := by
  rw [List.map_set]

theorem addref_absobjs (s : St) (o : Nat) : (s.addref o).1.objs.map absObj = s.objs.map absObj := by
  unfold St.addref
  simp only []
  split
  · rfl
  · exact map_set_same _ _ _ rfl

theorem abs_addref (s : St) (o : Nat) : abs (s.addref o).1 = abs s := by
  unfold abs; rw [addref_absobjs, addref_hnd]

theorem unref_absobjs (s : St) (o : Nat) :
    (s.unref o).objs.map absObj =
      if (s.obj o).alive = true ∧ (lower (s.obj o).count).2 = 0 then
        (s.objs.map absObj).set o { absObj (s.obj o) with dead := true }
      else s.objs.map absObj := by
  unfold St.unref
  simp only []
  by_cases ha : (s.obj o).alive = true
  · simp only [ha, Bool.not_true, Bool.false_eq_true, ↓reduceIte, true_and]
    by_cases hr : (lower (s.obj o).count).2 = 0
    · simp only [hr, ne_eq, not_true_eq_false, ↓reduceIte]
      rw [map_set_abs]; rfl
    · simp only [hr, ne_eq, not_false_eq_true, ↓reduceIte]
      refine map_set_same _ _ _ ?_
      show _ = absObj (s.obj o)
      simp only [absObj, ha]
  · have ha' : (s.obj o).alive = false := by simpa using ha
    simp only [ha', Bool.not_false, ↓reduceIte, Bool.false_eq_true, false_and]

/-- S's `released` after handle `h` gave up its reference to `o` is what M's `unref` does -/
theorem released_abs (s : St) (o : Nat) (hb : (s.obj o).count ≤ MAXV) (hnd' : List (Option Nat)) (e' : Nat)
    (ha : (s.obj o).alive = true)
    (hr : e' + hrefs hnd' o + 1 = (s.obj o).count) :
    (released { objs := (s.objs.map absObj).set o { absObj (s.obj o) with ext := e' }, hnd := hnd' } o).1 =
      { objs := ((s.unref o).objs.map absObj).set o { absObj ((s.unref o).obj o) with ext := e' }, hnd := hnd' } := by
  have ho := obj_alive_lt s o ha
  unfold released
  have hg : ((s.objs.map absObj).set o { absObj (s.obj o) with ext := e' }).getD o default = { absObj (s.obj o) with ext := e' } := by
    simp [List.getD_eq_getElem?_getD, ho]
  have hrefs' : refs { objs := (s.objs.map absObj).set o { absObj (s.obj o) with ext := e' }, hnd := hnd' } o = e' + hrefs hnd' o := by
    unfold refs; simp only [hg]; rfl
  simp only [hrefs', hg]
  rw [unref_absobjs, unref_obj]
  simp only [ha, true_and, and_self, ↓reduceIte]
  rw [lower_eq _ hb]
  have hne : ¬ (s.obj o).count = 0 := by omega
  simp only [hne, ↓reduceIte]
  by_cases h1 : (s.obj o).count = 1
  · have hz : e' + hrefs hnd' o = 0 := by omega
    have hz2 : (s.obj o).count - 1 = 0 := by omega
    simp only [hz, hz2, absObj, ha, Bool.not_true, Bool.not_false, and_self, ↓reduceIte, ne_eq, not_true_eq_false, decide_false]
    congr 1
    simp [List.set_set]
  · have hz : ¬ e' + hrefs hnd' o = 0 := by omega
    have hz2 : ¬ (s.obj o).count - 1 = 0 := by omega
    simp only [hz, hz2, false_and, ↓reduceIte, ne_eq, not_false_eq_true, decide_true, absObj, ha, Bool.not_true]


theorem set_self_abs (s : St) (o : Nat) : (s.objs.map absObj).set o (absObj (s.obj o)) = s.objs.map absObj := by
  rw [← map_set_abs]; exact map_set_same _ _ _ rfl

theorem addref_absobj (s : St) (o x : Nat) : absObj ((s.addref o).1.obj x) = absObj (s.obj x) := by
  rw [addref_obj]; split
  · rename_i h; rw [h.1]; rfl
  · rfl

theorem abs_hnd (s : St) (hnd : List (Option Nat)) : abs { s with hnd := hnd } = { abs s with hnd := hnd } := rfl

/-! ### per operation: M's outcome is one of S's -/

theorem take_refines (s : St) (h o : Nat) (hI : Inv s) (ho : o < s.objs.length) :
    ∃ a ∈ Refs.take (abs s) h o, Sim a ((s.take h o).1, (s.take h o).2.isOk) := by
  unfold Refs.take St.take
  rw [canTake_abs s hI o ho]
  by_cases hr : (s.addref o).2 = 0
  · simp only [hr, ne_eq, not_true_eq_false, decide_false, Bool.false_eq_true, ↓reduceIte]
    exact ⟨{ ok := false, st := abs s }, by simp [refusedAlts], rfl, (abs_addref s o).symm⟩
  · simp only [hr, ne_eq, not_false_eq_true, decide_true, ↓reduceIte]
    refine ⟨_, List.mem_singleton.mpr rfl, rfl, ?_⟩
    unfold setHnd abs
    simp only [addref_absobjs, addref_hnd]

theorem copy_refines (s : St) (h g : Nat) (hI : Inv s) :
    ∃ a ∈ Refs.copy (abs s) h g, Sim a ((s.copy h g).1, (s.copy h g).2.isOk) := by
  cases hg : s.hnd.getD g none with
  | none =>
    have e1 : Refs.copy (abs s) h g = [{ ok := true, st := abs s }] := by
      unfold Refs.copy; show (match s.hnd.getD g none with | none => _ | some o => _) = _; rw [hg]
    have e2 : s.copy h g = (s, .ok 0) := by unfold St.copy; rw [hg]
    rw [e1, e2]; exact ⟨_, List.mem_singleton.mpr rfl, rfl, rfl⟩
  | some o =>
    have ho := obj_alive_lt s o (inv_referenced_alive s hI g o hg)
    have e1 : Refs.copy (abs s) h g = Refs.take (abs s) h o := by
      unfold Refs.copy; show (match s.hnd.getD g none with | none => _ | some o => _) = _; rw [hg]
    have e2 : s.copy h g = s.take h o := by unfold St.copy; rw [hg]
    rw [e1, e2]
    exact take_refines s h o hI ho

theorem drop_alts (s : SSt) (h o : Nat) (hv : s.hnd.getD h none = some o) :
    Refs.drop s h = [{ ok := true, st := (released (setHnd s h none) o).1,
                       evs := [{ obj := o, unref := 1, destroyed := (released (setHnd s h none) o).2 }] }] := by
  unfold Refs.drop; rw [hv]

theorem drop_refines (s : St) (h : Nat) (hI : Inv s) (hh : h < s.hnd.length) :
    ∃ a ∈ Refs.drop (abs s) h, Sim a (s.drop h, true) := by
  cases hv : s.hnd.getD h none with
  | none =>
    have e1 : Refs.drop (abs s) h = [{ ok := true, st := abs s }] := by
      unfold Refs.drop; show (match s.hnd.getD h none with | none => _ | some o => _) = _; rw [hv]
    have e2 : s.drop h = s := by unfold St.drop; rw [hv]
    rw [e1, e2]; exact ⟨_, List.mem_singleton.mpr rfl, rfl, rfl⟩
  | some o =>
    have ha := inv_referenced_alive s hI h o hv
    rw [drop_alts (abs s) h o hv]
    refine ⟨_, List.mem_singleton.mpr rfl, rfl, ?_⟩
    have e2 : s.drop h = { (s.unref o) with hnd := (s.unref o).hnd.set h none } := by unfold St.drop; rw [hv]
    rw [e2, unref_hnd]
    have hs := hrefs_set s.hnd h none o hh
    simp only [hv, ↓reduceIte, reduceCtorEq, Nat.add_zero] at hs
    have hc := count_of_inv s hI o
    have := released_abs s o (hI o).2.1 (s.hnd.set h none) (s.obj o).ext ha (by omega)
    have e3 : ({ absObj (s.obj o) with ext := (s.obj o).ext } : SObj) = absObj (s.obj o) := rfl
    have e4 : ({ absObj ((s.unref o).obj o) with ext := (s.obj o).ext } : SObj) = absObj ((s.unref o).obj o) := by
      unfold absObj; simp only [unref_ext]
    rw [e3, e4, set_self_abs, set_self_abs] at this
    exact this

theorem extAdd_refines (s : St) (o : Nat) (hI : Inv s) (ho : o < s.objs.length) :
    ∃ a ∈ Refs.extAdd (abs s) o, Sim a (s.extAdd o) := by
  unfold Refs.extAdd St.extAdd
  rw [canTake_abs s hI o ho]
  by_cases hr : (s.addref o).2 = 0
  · simp only [hr, ne_eq, not_true_eq_false, decide_false, Bool.false_eq_true, ↓reduceIte]
    exact ⟨{ ok := false, st := abs s }, by simp [refusedAlts], rfl, (abs_addref s o).symm⟩
  · simp only [hr, ne_eq, not_false_eq_true, decide_true, ↓reduceIte]
    refine ⟨_, List.mem_singleton.mpr rfl, rfl, ?_⟩
    rw [abs_getD s o ho]
    unfold abs
    simp only [map_set_abs, addref_absobjs, addref_hnd]
    congr 2
    show _ = { absObj ((s.addref o).1.obj o) with ext := ((s.addref o).1.obj o).ext + 1 }
    rw [addref_absobj, addref_ext]
    rfl

theorem extUnref_alts (s : SSt) (o : Nat) :
    Refs.extUnref s o =
      [{ ok := true,
         st := (released { s with objs := s.objs.set o { (s.objs.getD o default) with ext := (s.objs.getD o default).ext - 1 } } o).1,
         evs := [{ obj := o, unref := 1,
                   destroyed := (released { s with objs := s.objs.set o { (s.objs.getD o default) with ext := (s.objs.getD o default).ext - 1 } } o).2 }] }] := by
  unfold Refs.extUnref; rfl

theorem extUnref_refines (s : St) (o : Nat) (hI : Inv s) (he : 1 ≤ (s.obj o).ext) :
    ∃ a ∈ Refs.extUnref (abs s) o, Sim a (s.extUnref o, true) := by
  have ho := obj_lt_of_ext s o he
  have hc := count_of_inv s hI o
  have ha : (s.obj o).alive = true := by
    cases hx : (s.obj o).alive with
    | true => rfl
    | false => have := (hI o).2.2 hx; omega
  rw [extUnref_alts]
  refine ⟨_, List.mem_singleton.mpr rfl, rfl, ?_⟩
  rw [abs_getD s o ho]
  have := released_abs s o (hI o).2.1 s.hnd ((s.obj o).ext - 1) ha (by omega)
  show (released { objs := (s.objs.map absObj).set o { absObj (s.obj o) with ext := (absObj (s.obj o)).ext - 1 }, hnd := s.hnd } o).1 = _
  rw [show (absObj (s.obj o)).ext = (s.obj o).ext from rfl, this]
  unfold St.extUnref abs
  simp only [map_set_abs, unref_hnd]
  congr 2
  show _ = { absObj ((s.unref o).obj o) with ext := ((s.unref o).obj o).ext - 1 }
  rw [unref_ext]

theorem create_refines (s : St) (k : OKind) (n : Nat) (els : List Nat) (cap : Nat) (ev : List Ev) :
    abs { s with objs := s.objs ++ [{ kind := k, count := n, alive := true, ext := n, elems := els, cap := cap }], ev := ev } =
      { abs s with objs := (abs s).objs ++ [{ kind := k, ext := n, elems := els }] } := by
  unfold abs; simp [absObj]


/-! ### assignment -/

theorem set_getD_self (l : List (Option Nat)) (h : Nat) : l.set h (l.getD h none) = l := by
  apply List.ext_getElem?
  intro i
  rw [List.getElem?_set]
  split
  · rename_i e; subst e
    split
    · rename_i hl; simp [List.getD_eq_getElem?_getD, List.getElem?_eq_getElem hl]
    · rename_i hl; rw [List.getElem?_eq_none (Nat.le_of_not_lt hl)]
  · rfl

theorem unref_sethnd (s : St) (o : Nat) (v : List (Option Nat)) :
    ({ s with hnd := v } : St).unref o = { (s.unref o) with hnd := v } := by
  unfold St.unref St.obj St.evOf
  simp only []
  (repeat' split) <;> rfl

theorem release_sethnd (s : St) (old : Option Nat) (v : List (Option Nat)) :
    ({ s with hnd := v } : St).release old = { (s.release old) with hnd := v } := by
  unfold St.release; split
  · rfl
  · exact unref_sethnd s _ v

/-- the state after a successful assignment: new referent retained, old one released, handle stored -/
def assignCore (s : St) (h : Nat) (src : Option Nat) : St :=
  { ((s.retain src).1.release (s.hnd.getD h none)) with hnd := s.hnd.set h src }

theorem retain_fail (s : St) (src : Option Nat) (hf : (s.retain src).2 = false) :
    ∃ n, src = some n ∧ (s.addref n).2 = 0 ∧ (s.retain src).1 = (s.addref n).1 := by
  unfold St.retain at hf ⊢
  cases src with
  | none => cases hf
  | some n => exact ⟨n, rfl, by simpa using hf, rfl⟩

theorem absObj_ext_self (x : RObj) (e : Nat) (h : x.ext = e) : ({ absObj x with ext := e } : SObj) = absObj x := by
  subst h; rfl

theorem abs_hndv (s : St) : (abs s).hnd = s.hnd := rfl

theorem assignMeta_eq (s : St) (h : Nat) (src : Option Nat) :
    s.assignMeta h src =
      if !(s.retain src).2 then ((s.retain src).1, .err .BadOperation) else (assignCore s h src, .ok 8) := by
  unfold St.assignMeta assignCore; rw [release_hnd, retain_hnd]

theorem assign_refused_mem (t : SSt) (h n : Nat) (hct : canTake t n = false) :
    ({ ok := false, st := t } : Alt) ∈ Refs.assign t h (some n) false := by
  unfold Refs.assign
  simp only []
  split
  · rename_i e
    rw [← e]
    simp [hct, refusedAlts]
  · simp [hct, refusedAlts]

/-- a refused retain: S has the alternative "refused, nothing changed" -/
theorem assign_refused (s : St) (h : Nat) (src : Option Nat) (hI : Inv s)
    (hsrc : ∀ n, src = some n → n < s.objs.length) (hf : (s.retain src).2 = false) :
    ∃ a ∈ Refs.assign (abs s) h src false, a.ok = false ∧ a.st = abs (s.retain src).1 := by
  obtain ⟨n, rfl, hz, he⟩ := retain_fail s src hf
  have hct : canTake (abs s) n = false := by rw [canTake_abs s hI n (hsrc n rfl)]; simp [hz]
  rw [he, abs_addref]
  exact ⟨{ ok := false, st := abs s }, assign_refused_mem (abs s) h n hct, rfl, rfl⟩

/-- self-assignment through retain + release: nothing changes for S -/
theorem assign_self (s : St) (h o : Nat) (hI : Inv s) (hv : s.hnd.getD h none = some o)
    (hok : (s.retain (some o)).2 = true) :
    abs (assignCore s h (some o)) = abs s := by
  unfold assignCore
  rw [hv]
  have ha := inv_referenced_alive s hI h o hv
  have hc := count_of_inv s hI o
  have hp := hrefs_pos s.hnd h o hv
  have hb := (hI o).2.1
  have hr : (s.addref o).2 ≠ 0 := by simpa [St.retain] using hok
  rw [addref_ret] at hr
  simp only [ha, ↓reduceIte] at hr
  rw [raise_eq _ hb] at hr
  have hnm : ¬ ((s.obj o).count = 0 ∨ (s.obj o).count = MAXV) := by
    intro hcc; simp [hcc] at hr
  show abs { ((s.addref o).1.unref o) with hnd := s.hnd.set h (some o) } = abs s
  unfold abs
  have e1 : ((s.addref o).1.unref o).objs.map absObj = s.objs.map absObj := by
    rw [unref_absobjs, addref_obj]
    simp only [ha, and_self, ↓reduceIte, true_and]
    rw [raise_eq _ hb]
    simp only [hnm, ↓reduceIte]
    rw [lower_eq _ (by omega)]
    have h1 : ¬ (s.obj o).count + 1 = 0 := by omega
    simp only [h1, ↓reduceIte, Nat.add_sub_cancel]
    have h2 : ¬ (s.obj o).count = 0 := by omega
    simp only [h2, ↓reduceIte, addref_absobjs]
  simp only [e1]
  rw [← hv, set_getD_self]

theorem assign_alts_self (s : SSt) (h : Nat) (src : Option Nat) (m : Bool) (e : src = s.hnd.getD h none) :
    ({ ok := true, st := s } : Alt) ∈ Refs.assign s h src m := by
  unfold Refs.assign
  simp only [e, ↓reduceIte]
  exact List.mem_cons_self ..

/-- a successful assignment with a different referent -/
theorem assign_core_refines (s : St) (h : Nat) (src : Option Nat) (hI : Inv s) (hh : h < s.hnd.length)
    (hne : src ≠ s.hnd.getD h none) (hsrc : ∀ n, src = some n → n < s.objs.length)
    (hok : (s.retain src).2 = true) :
    ∃ a ∈ Refs.assign (abs s) h src false, a.ok = true ∧ a.st = abs (assignCore s h src) := by
  unfold Refs.assign
  simp only [abs_hndv, hne, ↓reduceIte, Bool.false_eq_true]
  cases src with
  | none =>
    cases hv : s.hnd.getD h none with
    | none => exact absurd hv.symm hne
    | some o =>
      -- the same as dropping the handle
      simp only []
      obtain ⟨a, ha, h1, h2⟩ := drop_refines s h hI hh
      rw [drop_alts (abs s) h o hv] at ha
      have ea := List.mem_singleton.mp ha
      refine ⟨_, List.mem_singleton.mpr rfl, rfl, ?_⟩
      have e2 : assignCore s h none = s.drop h := by
        unfold assignCore St.drop St.retain St.release
        rw [hv]; simp only [unref_hnd]
      rw [e2, ← h2, ea]
  | some n =>
    have hn := hsrc n rfl
    have hr : (s.addref n).2 ≠ 0 := by simpa [St.retain] using hok
    have hct : canTake (abs s) n = true := by rw [canTake_abs s hI n hn]; simp [hr]
    simp only [hct, ↓reduceIte]
    cases hv : s.hnd.getD h none with
    | none =>
      simp only []
      refine ⟨_, List.mem_singleton.mpr rfl, rfl, ?_⟩
      unfold assignCore St.retain St.release setHnd abs
      rw [hv]
      simp only [addref_absobjs]
    | some o =>
      simp only []
      refine ⟨_, List.mem_singleton.mpr rfl, rfl, ?_⟩
      have hno : n ≠ o := by intro e; apply hne; rw [hv, e]
      have hoa := inv_referenced_alive s hI h o hv
      have e0 : (s.addref n).1.obj o = s.obj o := by
        rw [addref_obj]; split
        · rename_i hc; exact absurd hc.1.symm hno
        · rfl
      have hs := hrefs_set s.hnd h (some n) o hh
      have hno' : ¬ (some n : Option Nat) = some o := by intro e; exact hno (Option.some.inj e)
      simp only [hv, ↓reduceIte, hno', Nat.add_zero] at hs
      have hc := count_of_inv s hI o
      have := released_abs (s.addref n).1 o (by rw [e0]; exact (hI o).2.1) (s.hnd.set h (some n)) (s.obj o).ext
        (by rw [e0]; exact hoa) (by rw [e0]; omega)
      have e3 : ({ absObj ((s.addref n).1.obj o) with ext := (s.obj o).ext } : SObj) = absObj ((s.addref n).1.obj o) :=
        absObj_ext_self _ _ (by rw [e0])
      have hx : (((s.addref n).1.unref o).obj o).ext = (s.obj o).ext := by rw [unref_ext, addref_ext]
      have e4 : ({ absObj (((s.addref n).1.unref o).obj o) with ext := (s.obj o).ext } : SObj) = absObj (((s.addref n).1.unref o).obj o) :=
        absObj_ext_self _ _ hx
      rw [e3, e4, set_self_abs, set_self_abs, addref_absobjs] at this
      have e5 : assignCore s h (some n) = { ((s.addref n).1.unref o) with hnd := s.hnd.set h (some n) } := by
        unfold assignCore St.retain St.release; rw [hv]
      rw [e5]
      show (released { objs := s.objs.map absObj, hnd := s.hnd.set h (some n) } o).1 = _
      rw [this]
      rfl

theorem assignMeta_refines (s : St) (h : Nat) (src : Option Nat) (hI : Inv s) (hh : h < s.hnd.length)
    (hsrc : ∀ n, src = some n → n < s.objs.length) :
    ∃ a ∈ Refs.assign (abs s) h src false, Sim a ((s.assignMeta h src).1, (s.assignMeta h src).2.isOk) := by
  rw [assignMeta_eq]
  cases hok : (s.retain src).2 with
  | false =>
    simp only [Bool.not_false, ↓reduceIte]
    obtain ⟨a, ha, h1, h2⟩ := assign_refused s h src hI hsrc hok
    exact ⟨a, ha, h1, h2⟩
  | true =>
    simp only [Bool.not_true, Bool.false_eq_true, ↓reduceIte]
    by_cases e : src = s.hnd.getD h none
    · refine ⟨_, assign_alts_self (abs s) h src false e, rfl, ?_⟩
      show abs s = abs (assignCore s h src)
      cases hs : src with
      | none =>
        subst hs
        unfold assignCore St.retain St.release
        rw [← e]; simp only []
        unfold abs; simp only []
        rw [e, set_getD_self]
      | some o =>
        subst hs
        exact (assign_self s h o hI e.symm hok).symm
    · obtain ⟨a, ha, h1, h2⟩ := assign_core_refines s h src hI hh e hsrc hok
      exact ⟨a, ha, h1, h2⟩

theorem kindOf_abs (s : St) (o : Option Nat) : kindOf (abs s) o = traitsOf s o := by
  unfold kindOf traitsOf
  cases o with
  | none => rfl
  | some i => simp only [Option.map_some, abs_kind]

theorem assignArr_eq (s : St) (h : Nat) (src : Option Nat) :
    s.assignArr h src =
      if src = s.hnd.getD h none then (s, .ok 0)
      else if src.isSome ∧ (s.hnd.getD h none).isSome ∧ traitsOf s src ≠ traitsOf s (s.hnd.getD h none) then (s, .err .BadType)
      else if !(s.retain src).2 then ((s.retain src).1, .err .BadOperation)
      else (assignCore s h src,
            .ok ((if (s.hnd.getD h none).isSome then 2 else 0) + (if src.isSome then 1 else 0))) := by
  unfold St.assignArr assignCore
  rw [release_sethnd, retain_hnd]

theorem assignArr_refines (s : St) (h : Nat) (src : Option Nat) (hI : Inv s) (hh : h < s.hnd.length)
    (hsrc : ∀ n, src = some n → n < s.objs.length) :
    ∃ a ∈ Refs.assign (abs s) h src
        (src.isSome && (s.hnd.getD h none).isSome && decide (kindOf (abs s) src ≠ kindOf (abs s) (s.hnd.getD h none))),
      Sim a ((s.assignArr h src).1, (s.assignArr h src).2.isOk) := by
  rw [assignArr_eq, kindOf_abs, kindOf_abs]
  by_cases e : src = s.hnd.getD h none
  · rw [if_pos e]
    exact ⟨_, assign_alts_self (abs s) h _ _ e, rfl, rfl⟩
  · rw [if_neg e]
    by_cases hm : src.isSome = true ∧ (s.hnd.getD h none).isSome = true ∧ traitsOf s src ≠ traitsOf s (s.hnd.getD h none)
    · rw [if_pos hm]
      have hb : (src.isSome && (s.hnd.getD h none).isSome && decide (traitsOf s src ≠ traitsOf s (s.hnd.getD h none))) = true := by
        rw [hm.1, hm.2.1]; simp only [Bool.and_self, Bool.true_and, decide_eq_true_eq]; exact hm.2.2
      rw [hb]
      refine ⟨{ ok := false, st := abs s }, ?_, rfl, rfl⟩
      unfold Refs.assign
      simp only [abs_hndv, e, ↓reduceIte]
      exact List.mem_singleton.mpr rfl
    · rw [if_neg hm]
      have hb : (src.isSome && (s.hnd.getD h none).isSome && decide (traitsOf s src ≠ traitsOf s (s.hnd.getD h none))) = false := by
        cases h1 : src.isSome
        · rfl
        · cases h2 : (s.hnd.getD h none).isSome
          · rfl
          · simp only [Bool.and_self, Bool.true_and, decide_eq_false_iff_not]
            intro h3; exact hm ⟨h1, h2, h3⟩
      rw [hb]
      cases hok : (s.retain src).2 with
      | false =>
        simp only [Bool.not_false, ↓reduceIte]
        obtain ⟨a, ha, h1, h2⟩ := assign_refused s h src hI hsrc hok
        exact ⟨a, ha, h1, h2⟩
      | true =>
        simp only [Bool.not_true, Bool.false_eq_true, ↓reduceIte]
        obtain ⟨a, ha, h1, h2⟩ := assign_core_refines s h src hI hh e hsrc hok
        exact ⟨a, ha, h1, h2⟩


/-! ### detach / reserve of a library heap buffer -/

theorem obj_set_self (s : St) (o : Nat) (x : RObj) (ho : o < s.objs.length) (ev : List Ev) (el : List ElEv) :
    ({ s with objs := s.objs.set o x, ev := ev, elog := el } : St).obj o = x := by
  rw [obj_setobjs]; simp [ho]

/-- the only holder moves the content into a new buffer: the old one is gone -/
theorem relocate_move_abs (s : St) (h o newcap : Nat) (els : List Nat) (ha : (s.obj o).alive = true)
    (hc : (s.obj o).count = 1) :
    abs (s.relocateWith h o newcap true els) =
      { objs := (s.objs.map absObj).set o { absObj (s.obj o) with dead := true, elems := [] } ++
                  [{ kind := .rbuf, ext := 0, elems := els }],
        hnd := s.hnd.set h (some s.objs.length) } := by
  have ho := obj_alive_lt s o ha
  unfold St.relocateWith
  simp only [↓reduceIte]
  have hx : ({ s with objs := s.objs.set o { (s.obj o) with elems := [] } } : St).obj o = { (s.obj o) with elems := [] } :=
    obj_set_self s o _ ho s.ev s.elog
  unfold abs
  simp only [List.map_append, List.map_cons, List.map_nil, unref_hnd, unref_len, List.length_set]
  rw [unref_absobjs, hx]
  simp only [ha, hc, true_and]
  have hl : (lower 1).2 = 0 := by decide
  simp only [hl, ↓reduceIte, map_set_abs, List.set_set]
  rfl

/-- a shared buffer hands out a copy: it stays as it is -/
theorem relocate_copy_abs (s : St) (h o newcap : Nat) (els : List Nat) (ha : (s.obj o).alive = true)
    (hc : 2 ≤ (s.obj o).count) (hb : (s.obj o).count ≤ MAXV) :
    abs (s.relocateWith h o newcap false els) =
      { objs := s.objs.map absObj ++ [{ kind := .rbuf, ext := 0, elems := els }],
        hnd := s.hnd.set h (some s.objs.length) } := by
  unfold St.relocateWith
  simp only [Bool.false_eq_true, ↓reduceIte]
  unfold abs
  simp only [List.map_append, List.map_cons, List.map_nil, unref_hnd, unref_len]
  rw [unref_absobjs]
  have e : ({ s with elog := s.elog ++ els.map ElEv.copy } : St).obj o = s.obj o := rfl
  rw [e, lower_eq _ hb]
  have h0 : ¬ (s.obj o).count = 0 := by omega
  have h1 : ¬ (s.obj o).count - 1 = 0 := by omega
  simp only [h0, h1, ↓reduceIte, and_false]
  rfl

theorem detach_refines (s : St) (h len : Nat) (hI : Inv s) :
    ∃ a ∈ Refs.detach (abs s) h, Sim a (s.detach h len) := by
  unfold Refs.detach Refs.detachKeep St.detach
  simp only [abs_hndv]
  cases hv : s.hnd.getD h none with
  | none => exact ⟨_, List.mem_singleton.mpr rfl, rfl, rfl⟩
  | some o =>
    simp only []
    have ha := inv_referenced_alive s hI h o hv
    have ho := obj_alive_lt s o ha
    have hp := hrefs_pos s.hnd h o hv
    have hc := count_of_inv s hI o
    have hb := (hI o).2.1
    rw [refs_abs_inv s hI o, abs_getD s o ho]
    by_cases h2 : (s.obj o).count < 2
    · have h1 : (s.obj o).count = 1 := by omega
      have hns : ¬ (s.obj o).count > 1 := by omega
      simp only [h2, ↓reduceIte, hns, decide_false, Bool.false_eq_true]
      by_cases hcap : len * 8 ≤ (s.obj o).cap
      · simp only [hcap, ↓reduceIte]
        exact ⟨{ ok := true, st := abs s }, by simp, rfl, rfl⟩
      · simp only [hcap, ↓reduceIte]
        refine ⟨{ ok := true, st := { objs := ((abs s).objs ++ [({ kind := .rbuf, ext := 0, elems := (absObj (s.obj o)).elems } : SObj)]).set o { absObj (s.obj o) with dead := true, elems := [] }, hnd := s.hnd.set h (some (abs s).objs.length) } }, by simp, rfl, ?_⟩
        unfold St.relocate
        rw [relocate_move_abs s h o _ _ ha h1]
        simp only [abs, List.length_map]
        congr 1
        rw [List.set_append_left _ _ (by simpa using ho)]
        rfl
    · have hs : (s.obj o).count > 1 := by omega
      simp only [h2, ↓reduceIte, hs, decide_true]
      by_cases hfit : (s.obj o).elems.length * 8 > capOf (len * 8)
      · simp only [hfit, ↓reduceIte]
        exact ⟨{ ok := false, st := abs s }, by simp, rfl, rfl⟩
      · simp only [hfit, ↓reduceIte]
        refine ⟨{ ok := true, st := { objs := (abs s).objs ++ [{ kind := .rbuf, ext := 0, elems := (absObj (s.obj o)).elems }], hnd := s.hnd.set h (some (abs s).objs.length) }, evs := [{ obj := o, copied := (absObj (s.obj o)).elems }] }, by simp, rfl, ?_⟩
        unfold St.relocate
        rw [relocate_copy_abs s h o _ _ ha (by omega) hb]
        simp only [abs, List.length_map]
        rfl

theorem reserve_refines (s : St) (h len : Nat) (hI : Inv s) :
    ∃ a ∈ Refs.reserve (abs s) h len, Sim a (s.reserve h len) := by
  cases hv : s.hnd.getD h none with
  | none =>
    have e1 : Refs.reserve (abs s) h len =
        [{ ok := false, st := abs s },
         { ok := true, st := { objs := (abs s).objs ++ [{ kind := .rbuf, ext := 0 }], hnd := (abs s).hnd.set h (some (abs s).objs.length) } }] := by
      unfold Refs.reserve; simp only [abs_hndv, hv]
    have e2 : s.reserve h len =
        ({ s with objs := s.objs ++ [{ kind := .rbuf, count := 1, alive := true, ext := 0, elems := [], cap := capOf (len * 8) }],
                  ev := s.ev ++ [{}], hnd := s.hnd.set h (some s.objs.length) }, true) := by
      unfold St.reserve; simp only [hv]
    rw [e1, e2]
    refine ⟨{ ok := true, st := { objs := (abs s).objs ++ [{ kind := .rbuf, ext := 0 }], hnd := (abs s).hnd.set h (some (abs s).objs.length) } },
      by simp, rfl, ?_⟩
    simp [abs, absObj]
  | some o =>
    have ha := inv_referenced_alive s hI h o hv
    have ho := obj_alive_lt s o ha
    have hb := (hI o).2.1
    have e1 : Refs.reserve (abs s) h len = Refs.detach (abs s) h := by
      unfold Refs.reserve Refs.detach; simp only [abs_hndv, hv]
    rw [e1]
    by_cases hs : (s.obj o).count > 1
    · have e2 : s.reserve h len =
          (s.relocateWith h o (capOf (max (len * 8) ((s.obj o).elems.length * 8))) false (s.obj o).elems, true) := by
        unfold St.reserve; simp only [hv, hs, ↓reduceIte]
      rw [e2]
      unfold Refs.detach Refs.detachKeep
      simp only [abs_hndv, hv]
      rw [refs_abs_inv s hI o, abs_getD s o ho]
      simp only [hs, decide_true, ↓reduceIte]
      refine ⟨{ ok := true, st := { objs := (abs s).objs ++ [{ kind := .rbuf, ext := 0, elems := (absObj (s.obj o)).elems }], hnd := s.hnd.set h (some (abs s).objs.length) }, evs := [{ obj := o, copied := (absObj (s.obj o)).elems }] }, by simp, rfl, ?_⟩
      rw [relocate_copy_abs s h o _ _ ha (by omega) hb]
      simp only [abs, List.length_map]
      rfl
    · have e2 : s.reserve h len = s.detach h len := by
        unfold St.reserve; simp only [hv, hs, ↓reduceIte]
      rw [e2]
      exact detach_refines s h len hI

end Mpt.Refcount
