/-
  The option line through `mpt_parse_option` and the section header lines of the flat styles
  (`[name]` of `mpt_parse_format_sep`, `|name` of `mpt_parse_format_enc`), for C09.
-/
import MptModel.Lemmas.ParseBrace

namespace Mpt.Parse
open Mpt.Render

/-- what the formats of the flat styles share: no option start/end character, `=` assigns, default data part,
    regular end of input -/
structure FlatCfg (cfg : Cfg) : Prop where
  ostart : cfg.fmt.ostart = 0
  assign : cfg.fmt.assign = 61
  data : DataFmt cfg.fmt
  eof : cfg.eof = -2

theorem FlatCfg.hash {cfg : Cfg} (h : FlatCfg cfg) : HashOnly cfg.fmt := h.data.com

theorem getc_cons (src : Src) (c : UInt8) (r : List UInt8) (h : src.rest = c :: r) :
    ∃ src1, getc src = (some c, src1) ∧ src1.rest = r := by
  unfold getc
  rw [h]
  exact ⟨_, rfl, rfl⟩

/-- `mpt_parse_option` entered behind a stored first character: the next character, whatever it is -/
theorem optFirst_raw (f : Format) (e : List (List UInt8)) (l : List UInt8) (k : Bool) (fi : UInt8) (v cur ln : Nat)
    (src : Src) (c : UInt8) (r : List UInt8) (hv : v ≠ 0) (hc10 : c ≠ 10) (h : src.rest = c :: r) :
    ∃ src1, optFirst f (Stt e l k fi v cur ln) src = (some c, Stt e l k fi v cur ln, src1) ∧ src1.rest = r := by
  obtain ⟨src1, hg, hr⟩ := getc_cons src c r h
  refine ⟨src1, ?_, hr⟩
  unfold optFirst
  have h1 : ((Stt e l k fi v cur ln).valid != 0) = true := by simpa using hv
  have h2 : (c == 10) = false := by simpa using hc10
  simp only [h1, ↓reduceIte, hg, h2, Bool.false_eq_true]

section option
variable {cfg : Cfg} (hc : FlatCfg cfg)
include hc

theorem optBody_name (e : List (List UInt8)) (l : List UInt8) (k : Bool) (fi : UInt8) (v cur ln : Nat) (c : UInt8)
    (hn : nameChar c = true) :
    optBody cfg (Stt e l k fi v cur ln) c = .more (Stt e l (k || !l.isEmpty) fi l.length cur ln) := by
  obtain ⟨h0, _, h35, _, h61, _, _, _, _, _, _, _, hsp⟩ := nameChar_facts c hn
  have hcom : cfg.fmt.isComment c = false := by rw [hc.hash.isComment]; simp [h35]
  unfold optBody
  simp [hc.assign, hc.data.oend, h0, h61, hsp, hcom]

theorem optBody_blank (e : List (List UInt8)) (l : List UInt8) (k : Bool) (fi : UInt8) (v cur ln : Nat) (b : UInt8)
    (hb : isBlank b = true) :
    optBody cfg (Stt e l k fi v cur ln) b = .more (Stt e l k fi v cur ln) := by
  have hb' : b = 32 ∨ b = 9 ∨ b = 11 ∨ b = 12 ∨ b = 13 := by simpa [isBlank, or_assoc] using hb
  have h10 : b ≠ 10 := by rcases hb' with h | h | h | h | h <;> subst h <;> decide
  have hsp : isspace b = true := by rcases hb' with h | h | h | h | h <;> subst h <;> decide
  unfold optBody
  simp [hc.assign, h10, hsp]

theorem optBody_assign (e : List (List UInt8)) (l : List UInt8) (k : Bool) (fi : UInt8) (v cur ln : Nat) :
    optBody cfg (Stt e l k fi v cur ln) 61 = .done (.data (Stt e l k fi v cur ln)) := by
  unfold optBody
  have : isspace 61 = false := by decide
  simp [hc.assign, this]

/-- the loop of `mpt_parse_option` -/
abbrev optStep (cfg : Cfg) : St → UInt8 → Step St OptExit := fun s c => optBody cfg (s.save c) c

theorem run_opt_name (e : List (List UInt8)) (fi : UInt8) (cur ln : Nat) :
    ∀ (w l : List UInt8), w.all nameChar = true →
      runSteps (optStep cfg) (Stt e l true fi l.length cur ln) w
        = some (Stt e (l ++ w) true fi (l ++ w).length cur ln) := by
  intro w
  induction w with
  | nil => intro l _; simp [runSteps]
  | cons c r ih =>
    intro l h
    simp only [List.all_cons, Bool.and_eq_true] at h
    obtain ⟨h0, h10, _⟩ := nameChar_facts c h.1
    have h10' : (c == 10) = false := by simp [h10]
    simp only [runSteps, optStep, save_stt _ _ _ _ _ _ _ _ h0, addchar_keep, h10']
    rw [optBody_name hc _ _ _ _ _ _ _ _ h.1]
    simp only [Bool.true_or, Bool.false_eq_true, ↓reduceIte]
    have := ih (l ++ [c]) h.2
    simpa using this

theorem run_opt_blanks (e : List (List UInt8)) (fi : UInt8) (v cur ln : Nat) :
    ∀ (bs l : List UInt8), bs.all isBlank = true →
      runSteps (optStep cfg) (Stt e l true fi v cur ln) bs = some (Stt e (l ++ bs) true fi v cur ln) := by
  intro bs
  induction bs with
  | nil => intro l _; simp [runSteps]
  | cons b r ih =>
    intro l h
    simp only [List.all_cons, Bool.and_eq_true] at h
    have hb' : b = 32 ∨ b = 9 ∨ b = 11 ∨ b = 12 ∨ b = 13 := by simpa [isBlank, or_assoc] using h.1
    have h0 : b ≠ 0 := by rcases hb' with h | h | h | h | h <;> subst h <;> decide
    have h10' : (b == 10) = false := by rcases hb' with h | h | h | h | h <;> subst h <;> decide
    simp only [runSteps, optStep, save_stt _ _ _ _ _ _ _ _ h0, addchar_keep, h10']
    rw [optBody_blank hc _ _ _ _ _ _ _ _ h.1]
    simp only [Bool.false_eq_true, ↓reduceIte]
    have := ih (l ++ [b]) h.2
    simpa using this

/-- **the rest of an option line behind its first character** (which the format function has already
    saved and declared valid): `name' pre = post value trail \n` through `mpt_parse_option` -/
theorem option_rest (e : List (List UInt8)) (c0 : UInt8) (n' pre post tr rest : List UInt8) (fi : UInt8)
    (cur ln : Nat) (ov : Option (List UInt8)) (src : Src)
    (hn : nameOk (c0 :: n') = true) (hnc : ncheck (c0 :: n') cfg.opt = none)
    (hpre : pre.all isBlank = true) (hpost : post.all isBlank = true) (htr : trailOk tr = true)
    (hval : match ov with | some x => x.isEmpty = true ∨ valueOk x = true | none => True)
    (hsrc : src.rest = n' ++ pre ++ 61 :: (post ++ valueText ov ++ tr ++ 10 :: rest)) :
    ∃ s' src', parseOption cfg (Stt e [c0] true fi 1 cur ln) src
        = ((if (valueOf ov).isEmpty then 3 else 7 : Int), s', src')
      ∧ (∃ l k fi' ln', s' = Stt (e ++ [c0 :: n']) l k fi' (valueOf ov).length (Flag.option ||| Flag.name) ln'
          ∧ l.take (valueOf ov).length = valueOf ov)
      ∧ src'.rest = rest := by
  have hn' := hn
  unfold nameOk at hn'
  simp only [Bool.and_eq_true, List.all_cons] at hn'
  have hos : (cfg.fmt.ostart != 0) = false := by rw [hc.ostart]; rfl
  cases n' with
  | nil =>
    cases pre with
    | nil =>
      -- one character, the `=` directly behind it
      obtain ⟨src1, hnv, hr1⟩ := optFirst_raw cfg.fmt e [c0] true fi 1 cur ln src 61
        (post ++ valueText ov ++ tr ++ 10 :: rest) (by decide) (by decide) (by simpa using hsrc)
      unfold parseOption
      simp only [hnv, hos, Bool.false_and, Bool.false_eq_true, ↓reduceIte, addchar_keep]
      have hb := optBody_assign hc e ([c0] ++ [61]) true fi 1 (Flag.option ||| Flag.name) ln
      simp only [hb, optExit]
      have := nameThenData_line cfg hc.data e [c0] [] fi ln .MissingBuffer post tr rest ov src1 hn hnc hpost htr hval hr1
      simpa using this
    | cons b0 pre' =>
      -- one character, blanks, then the `=`: the blanks go through the loop
      simp only [List.all_cons, Bool.and_eq_true] at hpre
      have hb' : b0 = 32 ∨ b0 = 9 ∨ b0 = 11 ∨ b0 = 12 ∨ b0 = 13 := by simpa [isBlank, or_assoc] using hpre.1
      have hb10 : b0 ≠ 10 := by rcases hb' with h | h | h | h | h <;> subst h <;> decide
      obtain ⟨src1, hnv, hr1⟩ := optFirst_raw cfg.fmt e [c0] true fi 1 cur ln src b0
        (pre' ++ 61 :: (post ++ valueText ov ++ tr ++ 10 :: rest)) (by decide) hb10 (by simpa using hsrc)
      unfold parseOption
      simp only [hnv, hos, Bool.false_and, Bool.false_eq_true, ↓reduceIte, addchar_keep]
      rw [optBody_blank hc _ _ _ _ _ _ _ _ hpre.1]
      simp only []
      have hrun := run_opt_blanks hc e fi 1 (Flag.option ||| Flag.name) ln pre' ([c0] ++ [b0]) hpre.2
      have hsave : (Stt e ([c0] ++ [b0] ++ pre') true fi 1 (Flag.option ||| Flag.name) ln).save 61
          = Stt e ([c0] ++ [b0] ++ pre' ++ [61]) true fi 1 (Flag.option ||| Flag.name) ln := by
        rw [save_stt _ _ _ _ _ _ _ _ (by decide)]; simp
      obtain ⟨src2, hscan, hr2⟩ := scan_prefix_done (optStep cfg)
        (fun s => OptExit.ret (if cfg.eof == -2 then Err.MissingData.code else Err.BadArgument.code) s) pre' 61
        (post ++ valueText ov ++ tr ++ 10 :: rest) src1 _ _ _ (by simp [hr1]) hrun
        (by simp only [optStep, hsave]; exact optBody_assign hc _ _ _ _ _ _ _)
      simp only [hscan, optExit]
      have := nameThenData_line cfg hc.data e [c0] (b0 :: pre') fi ln .MissingBuffer post tr rest ov src2 hn hnc
        hpost htr hval hr2
      simpa using this
  | cons c1 n'' =>
    simp only [List.all_cons, Bool.and_eq_true] at hn'
    obtain ⟨h0, h10, h35, _, _, _, _, _, _, _, _, _, hsp⟩ := nameChar_facts c1 hn'.1.2.2.1
    obtain ⟨src1, hnv, hr1⟩ := optFirst_raw cfg.fmt e [c0] true fi 1 cur ln src c1
      (n'' ++ pre ++ 61 :: (post ++ valueText ov ++ tr ++ 10 :: rest)) (by decide) h10 (by simpa using hsrc)
    unfold parseOption
    simp only [hnv, hos, Bool.false_and, Bool.false_eq_true, ↓reduceIte, addchar_keep]
    rw [optBody_name hc _ _ _ _ _ _ _ _ hn'.1.2.2.1]
    simp only [Bool.true_or]
    have h1 := run_opt_name hc e fi (Flag.option ||| Flag.name) ln n'' ([c0] ++ [c1]) hn'.1.2.2.2
    have h2 := run_opt_blanks hc e fi (([c0] ++ [c1]) ++ n'').length (Flag.option ||| Flag.name) ln pre
      (([c0] ++ [c1]) ++ n'') hpre
    have hrun := runSteps_append (optStep cfg) _ _ _ n'' pre h1 h2
    have hsave : (Stt e ([c0] ++ [c1] ++ n'' ++ pre) true fi ([c0] ++ [c1] ++ n'').length (Flag.option ||| Flag.name) ln).save 61
        = Stt e ([c0] ++ [c1] ++ n'' ++ pre ++ [61]) true fi ([c0] ++ [c1] ++ n'').length (Flag.option ||| Flag.name) ln := by
      rw [save_stt _ _ _ _ _ _ _ _ (by decide)]; simp
    obtain ⟨src2, hscan, hr2⟩ := scan_prefix_done (optStep cfg)
      (fun s => OptExit.ret (if cfg.eof == -2 then Err.MissingData.code else Err.BadArgument.code) s) (n'' ++ pre) 61
      (post ++ valueText ov ++ tr ++ 10 :: rest) src1 _ _ _ (by simp [hr1, List.append_assoc]) hrun
      (by simp only [optStep, hsave]; exact optBody_assign hc _ _ _ _ _ _ _)
    simp only [hscan, optExit]
    have := nameThenData_line cfg hc.data e (c0 :: c1 :: n'') pre fi ln .MissingBuffer post tr rest ov src2 hn hnc
      hpost htr hval hr2
    simpa using this

end option


/-! ### what the loop-level proof needs from a flat style -/

/-- previous-operation codes that occur in front of an option line or at the end of the text:
    start (1), behind a section header (9), behind an option (11) -/
def PrevOpt (prev : Nat) : Prop := prev = 1 ∨ prev = 9 ∨ prev = 11

/-- option lines and the end of the text -/
structure OptStyle (k : Kind) (cfg : Cfg) : Prop where
  optLine : ∀ (e : List (List UInt8)) (s : St) (src : Src) (prev : Nat) (junk n pre post tr rest : List UInt8)
    (ov : Option (List UInt8)),
    Clean e s.path → s.valid = 0 → PrevOpt prev → visSkip false junk = some false → nameOk n = true →
    ncheck n cfg.opt = none → pre.all isBlank = true → post.all isBlank = true → trailOk tr = true →
    (match ov with | some x => x.isEmpty = true ∨ valueOk x = true | none => True) →
    src.rest = junk ++ n ++ pre ++ 61 :: (post ++ valueText ov ++ tr ++ 10 :: rest) →
    ∃ s' src', next k cfg prev s src = ((if (valueOf ov).isEmpty then 3 else 7 : Int), s', src')
      ∧ (∃ l kk fi' ln', s' = Stt (e ++ [n]) l kk fi' (valueOf ov).length (Flag.option ||| Flag.name) ln'
          ∧ l.take (valueOf ov).length = valueOf ov)
      ∧ src'.rest = rest
  eof : ∀ (s : St) (src : Src) (prev : Nat) (junk : List UInt8) (b : Bool),
    Clean [] s.path → PrevOpt prev → visSkip false junk = some b → src.rest = junk →
    ∃ s' src', next k cfg prev s src = (0, s', src')

/-- section header lines: `open_ name close` -/
structure SectStyle (k : Kind) (cfg : Cfg) (open_ close : List UInt8) : Prop extends OptStyle k cfg where
  /-- the header while no section is open: one call -/
  headFirst : ∀ (s : St) (src : Src) (prev : Nat) (junk n tr rest : List UInt8),
    Clean [] s.path → s.valid = 0 → (prev = 1 ∨ prev = 11) → visSkip false junk = some false → nameOk n = true →
    ncheck n cfg.sect = none → headTrailOk tr = true → src.rest = junk ++ open_ ++ n ++ close ++ tr ++ 10 :: rest →
    ∃ s' src' J', next k cfg prev s src = (1, s', src')
      ∧ (∃ l fi' v' ln', s' = Stt [n] l false fi' v' (Flag.section_ ||| Flag.name) ln')
      ∧ visSkip false J' = some false ∧ src'.rest = J' ++ rest
  /-- the header while a section is open: the opening character ends that section … -/
  headEnd : ∀ (m : List UInt8) (s : St) (src : Src) (prev : Nat) (junk R : List UInt8),
    Clean [m] s.path → s.valid = 0 → (prev = 9 ∨ prev = 11) → visSkip false junk = some false →
    src.rest = junk ++ open_ ++ R →
    ∃ s1 src1, next k cfg prev s src = (2, s1, src1) ∧ s1.path = s.path ∧ s1.curr = Flag.sectEnd ∧ src1.rest = R
  /-- … and the next call reads the name -/
  headNext : ∀ (s : St) (src : Src) (n tr rest : List UInt8),
    Clean [] s.path → s.valid = 0 → nameOk n = true → ncheck n cfg.sect = none → headTrailOk tr = true →
    src.rest = n ++ close ++ tr ++ 10 :: rest →
    ∃ s' src' J', next k cfg 2 s src = (1, s', src')
      ∧ (∃ l fi' v' ln', s' = Stt [n] l false fi' v' (Flag.section_ ||| Flag.name) ln')
      ∧ visSkip false J' = some false ∧ src'.rest = J' ++ rest
  /-- the text may end inside a section -/
  eofOpen : ∀ (m : List UInt8) (s : St) (src : Src) (prev : Nat) (junk : List UInt8) (b : Bool),
    Clean [m] s.path → (prev = 9 ∨ prev = 11) → visSkip false junk = some b → src.rest = junk →
    ∃ s' src', next k cfg prev s src = (0, s', src')

/-! ### enclosed format with different start and end characters: options only -/

/-- `{x} = #` -/
abbrev cfgE (fs fo : Nat) : Cfg := { fmt := { sstart := 123, send := 125 }, sect := fs, opt := fo }

variable {fs fo : Nat}

theorem cfgE_desc0 : parseFormat (Style.desc .enc) = ((cfgE 0 0).fmt, 120) := by decide +kernel
theorem cfgE_desc : parseFormat (Style.desc .enc) = ((cfgE fs fo).fmt, 120) := cfgE_desc0
theorem flatCfg_E : FlatCfg (cfgE fs fo) := ⟨rfl, rfl, ⟨rfl, rfl, rfl⟩, rfl⟩

/-- an option line through `mpt_parse_format_enc` (any start/end characters that are no name characters) -/
theorem enc_option_line {cfg : Cfg} (hc : FlatCfg cfg) (hss : nameChar cfg.fmt.sstart = false)
    (hse' : nameChar cfg.fmt.send = false)
    (e : List (List UInt8)) (s : St) (src : Src) (prev : Nat) (junk n pre post tr rest : List UInt8)
    (ov : Option (List UInt8))
    (hclean : Clean e s.path) (hv : s.valid = 0) (hprev : PrevOpt prev ∨ (cfg.fmt.sstart == cfg.fmt.send) = false)
    (hj : visSkip false junk = some false) (hn : nameOk n = true) (hnc : ncheck n cfg.opt = none)
    (hpre : pre.all isBlank = true) (hpost : post.all isBlank = true) (htr : trailOk tr = true)
    (hval : match ov with | some x => x.isEmpty = true ∨ valueOk x = true | none => True)
    (hsrc : src.rest = junk ++ n ++ pre ++ 61 :: (post ++ valueText ov ++ tr ++ 10 :: rest)) :
    ∃ s' src', parseFormatEnc cfg prev s src = ((if (valueOf ov).isEmpty then 3 else 7 : Int), s', src')
      ∧ (∃ l kk fi' ln', s' = Stt (e ++ [n]) l kk fi' (valueOf ov).length (Flag.option ||| Flag.name) ln'
          ∧ l.take (valueOf ov).length = valueOf ov)
      ∧ src'.rest = rest := by
  have hn' := hn
  unfold nameOk at hn'
  simp only [Bool.and_eq_true] at hn'
  cases n with
  | nil => simp at hn'
  | cons c0 n' =>
    simp only [List.all_cons, Bool.and_eq_true] at hn'
    obtain ⟨h0, _, h35, _, _, _, _, _, _, _, _, _, hsp⟩ := nameChar_facts c0 hn'.1.2.1
    have hvis : visible c0 = true := by simp [visible, h0, hsp, h35]
    obtain ⟨ln, src1, hnv, hr1⟩ := nextvis_skip hc.hash junk c0
      (n' ++ pre ++ 61 :: (post ++ valueText ov ++ tr ++ 10 :: rest)) s src hj hvis
      (by simp [hsrc, List.append_assoc])
    have hcs : (c0 == cfg.fmt.sstart) = false := by
      cases hh : c0 == cfg.fmt.sstart
      · rfl
      · have : c0 = cfg.fmt.sstart := by simpa using hh
        rw [this] at hn'; rw [hss] at hn'; simp at hn'
    have hce : (c0 == cfg.fmt.send) = false := by
      cases hh : c0 == cfg.fmt.send
      · rfl
      · have : c0 = cfg.fmt.send := by simpa using hh
        rw [this] at hn'; rw [hse'] at hn'; simp at hn'
    have hos : (cfg.fmt.ostart != 0) = false := by rw [hc.ostart]; rfl
    have hopt := option_rest hc e c0 n' pre post tr rest s.path.first s.curr ln ov src1 hn hnc hpre hpost htr hval hr1
    have hmv : ({ ({ s with line := ln } : St) with path := ({ s with line := ln } : St).path.addchar c0 } : St).markValid
        = Stt e [c0] true s.path.first 1 s.curr ln := by
      simp only [addchar_clean hclean c0, hv]
      rfl
    unfold parseFormatEnc
    by_cases hse : (cfg.fmt.sstart == cfg.fmt.send) = true
    · have hp2 : (prev == Flag.sectEnd) = false := by
        rcases hprev with h | h
        · rcases h with h | h | h <;> subst h <;> decide
        · rw [hse] at h; cases h
      simp only [hse, ↓reduceIte, hp2, Bool.false_eq_true, hnv, hcs, Bool.and_false, bne_iff_ne, ne_eq,
        beq_iff_eq, Bool.not_eq_true]
      have hne : ¬ c0 = cfg.fmt.sstart := by simpa using hcs
      simp only [hne, not_false_eq_true, ↓reduceIte, encOption, hos, Bool.false_eq_true, hmv]
      exact hopt
    · simp only [hse, Bool.false_eq_true, ↓reduceIte, hnv, hce, Bool.and_false, bne_iff_ne, ne_eq]
      have hne : ¬ c0 = cfg.fmt.sstart := by simpa using hcs
      simp only [hne, not_false_eq_true, ↓reduceIte, encOption, hos, Bool.false_eq_true, hmv]
      exact hopt

/-! ### enclosed format with one character for start and end: `|name` -/

/-- `|x| = #` -/
abbrev cfgBar (fs fo : Nat) : Cfg := { fmt := { sstart := 124, send := 124 }, sect := fs, opt := fo }

theorem cfgBar_desc0 : parseFormat (Style.desc .bar) = ((cfgBar 0 0).fmt, 120) := by decide +kernel
theorem cfgBar_desc : parseFormat (Style.desc .bar) = ((cfgBar fs fo).fmt, 120) := cfgBar_desc0
theorem flatCfg_Bar : FlatCfg (cfgBar fs fo) := ⟨rfl, rfl, ⟨rfl, rfl, rfl⟩, rfl⟩

/-- the character behind a header and what is left of the line -/
theorem trail_head (tr : List UInt8) (h : trailOk tr = true) :
    ∃ t J', tr ++ [10] = t :: J' ∧ isspace t = true ∧ t ≠ 0 ∧ visSkip false J' = some false := by
  have hall := visSkip_trail tr h
  cases tr with
  | nil => exact ⟨10, [], rfl, by decide, by decide, rfl⟩
  | cons t r =>
    have ht : isBlank t = true := by
      unfold trailOk at h
      simp only [Bool.or_eq_true] at h
      rcases h with h | h
      · simp only [List.all_cons, Bool.and_eq_true] at h; exact h.1
      · simp only [Bool.and_eq_true] at h; exact h.1
    have hb' : t = 32 ∨ t = 9 ∨ t = 11 ∨ t = 12 ∨ t = 13 := by simpa [isBlank, or_assoc] using ht
    have h0 : (t == 0) = false := by rcases hb' with h | h | h | h | h <;> subst h <;> decide
    have hsp : isspace t = true := by rcases hb' with h | h | h | h | h <;> subst h <;> decide
    refine ⟨t, r ++ [10], rfl, hsp, by rcases hb' with h | h | h | h | h <;> subst h <;> decide, ?_⟩
    simp only [List.cons_append, visSkip, h0, hsp, Bool.false_eq_true, ↓reduceIte] at hall
    exact hall

section encname
variable {cfg : Cfg} (hc : FlatCfg cfg)
include hc

theorem encStep_name (e : List (List UInt8)) (l : List UInt8) (fi : UInt8) (v cur ln : Nat) (c : UInt8)
    (hn : nameChar c = true) :
    encStep cfg.fmt (Stt e l true fi v cur ln) c = .more (Stt e (l ++ [c]) true fi (l.length + 1) cur ln) := by
  obtain ⟨h0, h10, h35, _, _, _, _, _, _, _, _, _, hsp⟩ := nameChar_facts c hn
  have hcom : cfg.fmt.isComment c = false := by rw [hc.hash.isComment]; simp [h35]
  have h10' : (c == 10) = false := by simp [h10]
  unfold encStep
  simp only [save_stt _ _ _ _ _ _ _ _ h0, addchar_keep, h10']
  simp [h0, hsp, hcom]

theorem run_enc_name (e : List (List UInt8)) (fi : UInt8) (cur ln : Nat) :
    ∀ (w l : List UInt8), w.all nameChar = true →
      runSteps (encStep cfg.fmt) (Stt e l true fi l.length cur ln) w
        = some (Stt e (l ++ w) true fi (l ++ w).length cur ln) := by
  intro w
  induction w with
  | nil => intro l _; simp [runSteps]
  | cons c r ih =>
    intro l h
    simp only [List.all_cons, Bool.and_eq_true] at h
    simp only [runSteps, encStep_name hc _ _ _ _ _ _ _ h.1]
    have := ih (l ++ [c]) h.2
    simpa using this

/-- a section name behind the start character, ended by white space -/
theorem encSection_name (e : List (List UInt8)) (s : St) (src : Src) (n : List UInt8) (t : UInt8) (rest : List UInt8)
    (hclean : Clean e s.path) (hv : s.valid = 0) (hn : nameOk n = true) (hnc0 : ncheck n cfg.sect = none)
    (ht : isspace t = true) (ht0 : t ≠ 0) (hsrc : src.rest = n ++ t :: rest) :
    ∃ l fi' ln' src', encSection cfg s src = (1, Stt (e ++ [n]) l false fi' 0 (Flag.section_ ||| Flag.name) ln', src')
      ∧ src'.rest = rest := by
  have hn' := hn
  unfold nameOk at hn'
  simp only [Bool.and_eq_true] at hn'
  cases n with
  | nil => simp at hn'
  | cons c0 n' =>
    simp only [List.all_cons, Bool.and_eq_true] at hn'
    obtain ⟨h0, _, h35, _, _, _, _, _, _, _, _, _, hsp⟩ := nameChar_facts c0 hn'.1.2.1
    have hvis : visible c0 = true := by simp [visible, h0, hsp, h35]
    obtain ⟨ln, src1, hnv, hr1⟩ := nextvis_skip hc.hash [] c0 (n' ++ t :: rest)
      { s with curr := Flag.section_ } src rfl hvis (by simpa using hsrc)
    have hc0 : (c0 == 0) = false := by simp [h0]
    have hrun := run_enc_name hc e s.path.first (Flag.section_ ||| Flag.name) ln n' [c0] hn'.1.2.2
    simp only [List.length_singleton] at hrun
    have hstep : encStep cfg.fmt (Stt e ([c0] ++ n') true s.path.first ([c0] ++ n').length (Flag.section_ ||| Flag.name) ln) t
        = .done (.brk (Stt e ([c0] ++ n' ++ [t]) true s.path.first ([c0] ++ n').length (Flag.section_ ||| Flag.name)
            (if t == 10 then ln + 1 else ln))) := by
      have ht0' : (t == 0) = false := by simp [ht0]
      unfold encStep
      simp only [save_stt _ _ _ _ _ _ _ _ ht0, addchar_keep]
      simp [ht0, ht]
    obtain ⟨src2, hscan, hr2⟩ := scan_prefix_done (encStep cfg.fmt) (fun s => EncExit.ret Err.MissingData.code s) n' t rest
      src1 _ _ _ hr1 hrun hstep
    have htake : ([c0] ++ n' ++ [t]).take ([c0] ++ n').length = c0 :: n' := by
      rw [List.take_left' rfl]; rfl
    have hadd := add_pth e ([c0] ++ n' ++ [t]) true s.path.first ([c0] ++ n').length
      (by simp only [List.length_append, List.length_cons, List.length_nil]; omega)
      (by rw [htake]; exact nameOk_nosep (c0 :: n') (by simp [hn'.1.2.1, hn'.1.2.2]))
    rw [htake] at hadd
    refine ⟨List.drop (([c0] ++ n').length + 1) ([c0] ++ n' ++ [t]),
      (if e.isEmpty = true then UInt8.ofNat ([c0] ++ n').length else s.path.first),
      (if t == 10 then ln + 1 else ln), src2, ?_, hr2⟩
    unfold encSection
    simp only [hnv, hc0, Bool.false_eq_true, ↓reduceIte]
    rw [addchar_clean hclean c0]
    simp only [hv, markValid_stt, List.isEmpty_cons, Bool.not_false, Bool.or_true, List.length_cons,
      List.length_nil, Nat.zero_add, hscan]
    unfold encFinish St.commit
    have hname : (Stt e ([c0] ++ n' ++ [t]) true s.path.first ([c0] ++ n').length (Flag.section_ ||| Flag.name)
        (if t == 10 then ln + 1 else ln)).name = c0 :: n' := by
      simp only [St.name, head_pth, htake]
    have hnc : ncheck (c0 :: n') cfg.sect = none := hnc0
    simp only [hname, hnc, hadd]
    rfl

/-- a section name behind the start character, ended by a comment glued to it -/
theorem encSection_comment (e : List (List UInt8)) (s : St) (src : Src) (n txt rest : List UInt8)
    (hclean : Clean e s.path) (hv : s.valid = 0) (hn : nameOk n = true) (hnc0 : ncheck n cfg.sect = none)
    (htxt : txt.contains 10 = false) (hsrc : src.rest = n ++ 35 :: (txt ++ 10 :: rest)) :
    ∃ l fi' ln' src', encSection cfg s src = (1, Stt (e ++ [n]) l false fi' 0 (Flag.section_ ||| Flag.name) ln', src')
      ∧ src'.rest = rest := by
  have hn' := hn
  unfold nameOk at hn'
  simp only [Bool.and_eq_true] at hn'
  cases n with
  | nil => simp at hn'
  | cons c0 n' =>
    simp only [List.all_cons, Bool.and_eq_true] at hn'
    obtain ⟨h0, _, h35, _, _, _, _, _, _, _, _, _, hsp⟩ := nameChar_facts c0 hn'.1.2.1
    have hvis : visible c0 = true := by simp [visible, h0, hsp, h35]
    obtain ⟨ln, src1, hnv, hr1⟩ := nextvis_skip hc.hash [] c0 (n' ++ 35 :: (txt ++ 10 :: rest))
      { s with curr := Flag.section_ } src rfl hvis (by simpa using hsrc)
    have hc0 : (c0 == 0) = false := by simp [h0]
    have hrun := run_enc_name hc e s.path.first (Flag.section_ ||| Flag.name) ln n' [c0] hn'.1.2.2
    simp only [List.length_singleton] at hrun
    have hcom : cfg.fmt.isComment 35 = true := by rw [hc.hash.isComment]; decide
    have hstep : encStep cfg.fmt (Stt e ([c0] ++ n') true s.path.first ([c0] ++ n').length (Flag.section_ ||| Flag.name) ln) 35
        = .done (.comment (Stt e ([c0] ++ n' ++ [35]) true s.path.first ([c0] ++ n').length (Flag.section_ ||| Flag.name)
            ln)) := by
      unfold encStep
      simp only [save_stt _ _ _ _ _ _ _ _ (by decide : (35 : UInt8) ≠ 0), addchar_keep]
      have : isspace 35 = false := by decide
      simp [this, hcom]
    obtain ⟨src2, hscan, hr2⟩ := scan_prefix_done (encStep cfg.fmt) (fun s => EncExit.ret Err.MissingData.code s) n' 35
      (txt ++ 10 :: rest) src1 _ _ _ hr1 hrun hstep
    obtain ⟨ln3, src3, hend, hr3⟩ := endline_line txt rest
      (Stt e ([c0] ++ n' ++ [35]) true s.path.first ([c0] ++ n').length (Flag.section_ ||| Flag.name) ln) src2 htxt hr2
    have htake : ([c0] ++ n' ++ [35]).take ([c0] ++ n').length = c0 :: n' := by
      rw [List.take_left' rfl]; rfl
    have hadd := add_pth e ([c0] ++ n' ++ [35]) true s.path.first ([c0] ++ n').length
      (by simp only [List.length_append, List.length_cons, List.length_nil]; omega)
      (by rw [htake]; exact nameOk_nosep (c0 :: n') (by simp [hn'.1.2.1, hn'.1.2.2]))
    rw [htake] at hadd
    refine ⟨List.drop (([c0] ++ n').length + 1) ([c0] ++ n' ++ [35]),
      (if e.isEmpty = true then UInt8.ofNat ([c0] ++ n').length else s.path.first), ln3, src3, ?_, hr3⟩
    unfold encSection
    simp only [hnv, hc0, Bool.false_eq_true, ↓reduceIte]
    rw [addchar_clean hclean c0]
    simp only [hv, markValid_stt, List.isEmpty_cons, Bool.not_false, Bool.or_true, List.length_cons,
      List.length_nil, Nat.zero_add, hscan, hend]
    unfold encFinish St.commit
    have hname : (Stt e ([c0] ++ n' ++ [35]) true s.path.first ([c0] ++ n').length (Flag.section_ ||| Flag.name)
        ln3).name = c0 :: n' := by
      simp only [St.name, head_pth, htake]
    have hnc : ncheck (c0 :: n') cfg.sect = none := hnc0
    simp only [hname, hnc, hadd]
    rfl

/-- a section header `name` + what may follow it on the line -/
theorem encSection_head (e : List (List UInt8)) (s : St) (src : Src) (n tr rest : List UInt8)
    (hclean : Clean e s.path) (hv : s.valid = 0) (hn : nameOk n = true) (hnc0 : ncheck n cfg.sect = none)
    (htr : headTrailOk tr = true)
    (hsrc : src.rest = n ++ tr ++ 10 :: rest) :
    ∃ l fi' ln' src' J', encSection cfg s src = (1, Stt (e ++ [n]) l false fi' 0 (Flag.section_ ||| Flag.name) ln', src')
      ∧ visSkip false J' = some false ∧ src'.rest = J' ++ rest := by
  unfold headTrailOk at htr
  simp only [Bool.or_eq_true] at htr
  rcases htr with htr | htr
  · obtain ⟨t, J', hsplit, ht, ht0, hJ'⟩ := trail_head tr htr
    have hsrc' : src.rest = n ++ t :: (J' ++ rest) := by
      rw [hsrc]
      have : tr ++ 10 :: rest = t :: (J' ++ rest) := by
        have := congrArg (· ++ rest) hsplit
        simpa [List.append_assoc] using this
      simp [List.append_assoc, this]
    obtain ⟨l, fi', ln', src2, hes, hr2⟩ := encSection_name hc e s src n t (J' ++ rest) hclean hv hn hnc0 ht ht0 hsrc'
    exact ⟨l, fi', ln', src2, J', hes, hJ', hr2⟩
  · cases tr with
    | nil => cases htr
    | cons c txt =>
      simp only [Bool.and_eq_true, beq_iff_eq, Bool.not_eq_eq_eq_not, Bool.not_true] at htr
      obtain ⟨hc35, htxt⟩ := htr
      subst hc35
      obtain ⟨l, fi', ln', src2, hes, hr2⟩ := encSection_comment hc e s src n txt rest hclean hv hn hnc0 htxt
        (by rw [hsrc]; simp [List.append_assoc])
      exact ⟨l, fi', ln', src2, [], hes, rfl, by simpa using hr2⟩

end encname

theorem sectStyle_Bar : SectStyle .enc (cfgBar fs fo) [124] [] where
  optLine := by
    intro e s src prev junk n pre post tr rest ov h1 h2 h3 h4 h5 hnc h6 h7 h8 h9 h10
    simp only [next]
    exact enc_option_line (flatCfg_Bar (fs := fs) (fo := fo)) rfl rfl e s src prev junk n pre post tr rest ov h1 h2 (Or.inl h3) h4 h5 hnc h6 h7 h8 h9 h10
  eof := by
    intro s src prev junk b _ hprev hj hsrc
    obtain ⟨ln, src1, hnv, _⟩ := nextvis_end (flatCfg_Bar (fs := fs) (fo := fo)).hash junk b s src hj hsrc
    have hp2 : (prev == Flag.sectEnd) = false := by rcases hprev with h | h | h <;> subst h <;> decide
    refine ⟨{ s with line := ln, curr := 0 }, src1, ?_⟩
    simp only [next, parseFormatEnc]
    simp [hnv, hp2]
  eofOpen := by
    intro m s src prev junk b _ hprev hj hsrc
    obtain ⟨ln, src1, hnv, _⟩ := nextvis_end (flatCfg_Bar (fs := fs) (fo := fo)).hash junk b s src hj hsrc
    refine ⟨{ s with line := ln, curr := 0 }, src1, ?_⟩
    simp only [next, parseFormatEnc]
    have hp2 : (prev == Flag.sectEnd) = false := by rcases hprev with h | h <;> subst h <;> decide
    simp [hnv, hp2]
  headFirst := by
    intro s src prev junk n tr rest hclean hv hprev hj hn hnc htr hsrc
    have hsrc' : src.rest = junk ++ 124 :: (n ++ tr ++ 10 :: rest) := by
      rw [hsrc]; simp [List.append_assoc]
    obtain ⟨ln, src1, hnv, hr1⟩ := nextvis_skip (flatCfg_Bar (fs := fs) (fo := fo)).hash junk 124 _ s src hj (by decide) hsrc'
    have hclean1 : Clean [] ({ s with line := ln } : St).path := hclean
    obtain ⟨l, fi', ln', src2, J', hes, hJ', hr2⟩ := encSection_head (flatCfg_Bar (fs := fs) (fo := fo)) [] { s with line := ln } src1 n tr rest
      hclean1 hv hn hnc htr hr1
    have hp2 : (prev == Flag.sectEnd) = false := by rcases hprev with h | h <;> subst h <;> decide
    have hem : s.path.elems.isEmpty = true := by rw [hclean.1]; rfl
    refine ⟨_, src2, J', ?_, ⟨l, fi', 0, ln', rfl⟩, hJ', hr2⟩
    simp only [next, parseFormatEnc]
    simp [hp2, hnv, hem, hes]
  headEnd := by
    intro m s src prev junk R hclean _ hprev hj hsrc
    obtain ⟨ln, src1, hnv, hr1⟩ := nextvis_skip (flatCfg_Bar (fs := fs) (fo := fo)).hash junk 124 R s src hj (by decide) (by simpa using hsrc)
    have hem : s.path.elems.isEmpty = false := by rw [hclean.1]; rfl
    refine ⟨{ s with line := ln, curr := Flag.sectEnd }, src1, ?_, rfl, rfl, hr1⟩
    simp only [next, parseFormatEnc]
    have hp2 : (prev == Flag.sectEnd) = false := by rcases hprev with h | h <;> subst h <;> decide
    simp only [hp2, Bool.false_eq_true, ↓reduceIte, hnv, hem]
    simp [Flag.sectEnd]
  headNext := by
    intro s src n tr rest hclean hv hn hnc htr hsrc
    have hsrc' : src.rest = n ++ tr ++ 10 :: rest := by
      rw [hsrc]; simp [List.append_assoc]
    obtain ⟨l, fi', ln', src2, J', hes, hJ', hr2⟩ := encSection_head (flatCfg_Bar (fs := fs) (fo := fo)) [] s src n tr rest hclean hv hn hnc htr hsrc'
    refine ⟨_, src2, J', ?_, ⟨l, fi', 0, ln', rfl⟩, hJ', hr2⟩
    simp only [next, parseFormatEnc]
    simp [hes, Flag.sectEnd]


/-! ### separated format: `[name]` -/

/-- `[ ] = #` -/
abbrev cfgS (fs fo : Nat) : Cfg := { fmt := { sstart := 91, send := 93 }, sect := fs, opt := fo }

theorem cfgS_desc0 : parseFormat (Style.desc .sep) = ((cfgS 0 0).fmt, 32) := by decide +kernel
theorem cfgS_desc : parseFormat (Style.desc .sep) = ((cfgS fs fo).fmt, 32) := cfgS_desc0
theorem flatCfg_S : FlatCfg (cfgS fs fo) := ⟨rfl, rfl, ⟨rfl, rfl, rfl⟩, rfl⟩

theorem sepBody_name (e : List (List UInt8)) (l : List UInt8) (k : Bool) (fi : UInt8) (v cur ln : Nat) (c : UInt8)
    (hn : nameChar c = true) :
    sepBody (cfgS fs fo).fmt (Stt e l k fi v cur ln) c = .more (Stt e l (k || !l.isEmpty) fi l.length cur ln) := by
  obtain ⟨h0, _, h35, _, _, _, _, _, h93, _, _, _, hsp⟩ := nameChar_facts c hn
  have hcom : (cfgS fs fo).fmt.isComment c = false := by rw [(flatCfg_S (fs := fs) (fo := fo)).hash.isComment]; simp [h35]
  unfold sepBody
  simp [h93, hsp, hcom]

/-- the loop of the section name -/
abbrev sepStep (fs fo : Nat) : St → UInt8 → Step St SepExit := fun s c => sepBody (cfgS fs fo).fmt (s.save c) c

theorem run_sep_name (e : List (List UInt8)) (fi : UInt8) (cur ln : Nat) :
    ∀ (w l : List UInt8), w.all nameChar = true →
      runSteps (sepStep fs fo) (Stt e l true fi l.length cur ln) w = some (Stt e (l ++ w) true fi (l ++ w).length cur ln) := by
  intro w
  induction w with
  | nil => intro l _; simp [runSteps]
  | cons c r ih =>
    intro l h
    simp only [List.all_cons, Bool.and_eq_true] at h
    obtain ⟨h0, h10, _⟩ := nameChar_facts c h.1
    have h10' : (c == 10) = false := by simp [h10]
    simp only [runSteps, sepStep, save_stt _ _ _ _ _ _ _ _ h0, addchar_keep, h10']
    rw [sepBody_name (fs := fs) (fo := fo) _ _ _ _ _ _ _ _ h.1]
    simp only [Bool.true_or, Bool.false_eq_true, ↓reduceIte]
    have := ih (l ++ [c]) h.2
    simpa using this

/-- a section name up to the closing bracket -/
theorem sepFirst_name (e : List (List UInt8)) (s : St) (src : Src) (n rest : List UInt8)
    (hclean : Clean e s.path) (hv : s.valid = 0) (hn : nameOk n = true) (hnc0 : ncheck n fs = none)
    (hsrc : src.rest = n ++ 93 :: rest) :
    ∃ l fi' v' ln' src', sepFirst (cfgS fs fo) s src
        = (1, Stt (e ++ [n]) l false fi' v' (Flag.section_ ||| Flag.name) ln', src')
      ∧ src'.rest = rest := by
  have hn' := hn
  unfold nameOk at hn'
  simp only [Bool.and_eq_true] at hn'
  cases n with
  | nil => simp at hn'
  | cons c0 n' =>
    simp only [List.all_cons, Bool.and_eq_true] at hn'
    obtain ⟨h0, h10, _⟩ := nameChar_facts c0 hn'.1.2.1
    obtain ⟨src1, hg, hr1⟩ := getc_cons src c0 (n' ++ 93 :: rest) (by simpa using hsrc)
    have h10' : (c0 == 10) = false := by simp [h10]
    have hsave : s.save c0 = Stt e [c0] false s.path.first 0 s.curr s.line := by
      have h00 : (c0 == 0) = false := by simp [h0]
      cases s with
      | mk path valid curr line =>
        simp only at hv hclean
        subst hv
        simp only [St.save, h00, Bool.false_eq_true, ↓reduceIte, h10', addchar_clean hclean c0]
    have hrun := run_sep_name (fs := fs) (fo := fo) e s.path.first s.curr s.line n' [c0] hn'.1.2.2
    simp only [List.length_singleton] at hrun
    have hsv93 : (Stt e ([c0] ++ n') true s.path.first ([c0] ++ n').length s.curr s.line).save 93
        = Stt e ([c0] ++ n' ++ [93]) true s.path.first ([c0] ++ n').length s.curr s.line := by
      rw [save_stt _ _ _ _ _ _ _ _ (by decide)]; simp
    have hstep : (sepStep fs fo) (Stt e ([c0] ++ n') true s.path.first ([c0] ++ n').length s.curr s.line) 93
        = .done (.sect (Stt e ([c0] ++ n' ++ [93]) true s.path.first ([c0] ++ n').length s.curr s.line)) := by
      simp only [sepStep, hsv93]
      simp [sepBody]
    obtain ⟨src2, hscan, hr2⟩ := scan_prefix_done (sepStep fs fo) (fun s => SepExit.brk s) n' 93 rest src1 _ _ _ hr1 hrun hstep
    have htake : ([c0] ++ n' ++ [93]).take ([c0] ++ n').length = c0 :: n' := by
      rw [List.take_left' rfl]; rfl
    have hadd := add_pth e ([c0] ++ n' ++ [93]) true s.path.first ([c0] ++ n').length
      (by simp only [List.length_append, List.length_cons, List.length_nil]; omega)
      (by rw [htake]; exact nameOk_nosep (c0 :: n') (by simp [hn'.1.2.1, hn'.1.2.2]))
    rw [htake] at hadd
    refine ⟨List.drop (([c0] ++ n').length + 1) ([c0] ++ n' ++ [93]),
      (if e.isEmpty = true then UInt8.ofNat ([c0] ++ n').length else s.path.first), ([c0] ++ n').length, s.line,
      src2, ?_, hr2⟩
    unfold sepFirst
    have hne : ((cfgS fs fo).fmt.send != (cfgS fs fo).fmt.sstart) = true := rfl
    simp only [hne, ↓reduceIte, hg, hsave]
    unfold sepName
    rw [sepBody_name (fs := fs) (fo := fo) _ _ _ _ _ _ _ _ hn'.1.2.1]
    simp only [List.isEmpty_cons, Bool.not_false, Bool.or_true, List.length_cons, List.length_nil, Nat.zero_add,
      hscan]
    unfold sepExit St.commit
    have hname : (Stt e ([c0] ++ n' ++ [93]) true s.path.first ([c0] ++ n').length (Flag.section_ ||| Flag.name)
        s.line).name = c0 :: n' := by
      simp only [St.name, head_pth, htake]
    have hnc : ncheck (c0 :: n') (cfgS fs fo).sect = none := hnc0
    simp only [hname, hnc, hadd]
    rfl

theorem sectStyle_Sep : SectStyle .sep (cfgS fs fo) [91] [93] where
  optLine := by
    intro e s src prev junk n pre post tr rest ov hclean hv hprev hj hn hnc hpre hpost htr hval hsrc
    have hn' := hn
    unfold nameOk at hn'
    simp only [Bool.and_eq_true] at hn'
    cases n with
    | nil => simp at hn'
    | cons c0 n' =>
      simp only [List.all_cons, Bool.and_eq_true] at hn'
      obtain ⟨h0, _, h35, _, _, _, _, h91, _, _, _, _, hsp⟩ := nameChar_facts c0 hn'.1.2.1
      have hvis : visible c0 = true := by simp [visible, h0, hsp, h35]
      obtain ⟨ln, src1, hnv, hr1⟩ := nextvis_skip (flatCfg_S (fs := fs) (fo := fo)).hash junk c0
        (n' ++ pre ++ 61 :: (post ++ valueText ov ++ tr ++ 10 :: rest)) s src hj hvis
        (by simp [hsrc, List.append_assoc])
      have hp2 : (prev &&& 0xf == Flag.sectEnd) = false := by
        rcases hprev with h | h | h <;> subst h <;> decide
      have hopt := option_rest (flatCfg_S (fs := fs) (fo := fo)) e c0 n' pre post tr rest s.path.first Flag.name ln ov src1 hn hnc hpre hpost htr
        hval hr1
      simp only [next, parseFormatSep, hp2, Bool.false_eq_true, ↓reduceIte, hnv, bne_iff_ne, ne_eq]
      have h1 : ¬ c0 = (cfgS fs fo).fmt.sstart := h91
      have h2 : ¬ c0 = (cfgS fs fo).fmt.ostart := h0
      simp only [h1, h2, not_false_eq_true, ↓reduceIte]
      rw [addchar_clean hclean c0]
      simp only [hv, markValid_stt, List.isEmpty_cons, Bool.not_false, Bool.or_true, List.length_cons,
        List.length_nil, Nat.zero_add]
      exact hopt
  eof := by
    intro s src prev junk b _ hprev hj hsrc
    obtain ⟨ln, src1, hnv, _⟩ := nextvis_end (flatCfg_S (fs := fs) (fo := fo)).hash junk b s src hj hsrc
    have hp2 : (prev &&& 0xf == Flag.sectEnd) = false := by rcases hprev with h | h | h <;> subst h <;> decide
    refine ⟨{ s with line := ln }, src1, ?_⟩
    simp only [next, parseFormatSep]
    simp [hnv, hp2]
  eofOpen := by
    intro m s src prev junk b _ hprev hj hsrc
    obtain ⟨ln, src1, hnv, _⟩ := nextvis_end (flatCfg_S (fs := fs) (fo := fo)).hash junk b s src hj hsrc
    refine ⟨{ s with line := ln }, src1, ?_⟩
    simp only [next, parseFormatSep]
    have hp2 : (prev &&& 0xf == Flag.sectEnd) = false := by rcases hprev with h | h <;> subst h <;> decide
    simp only [hp2, Bool.false_eq_true, ↓reduceIte, hnv]
    rfl
  headFirst := by
    intro s src prev junk n tr rest hclean hv hprev hj hn hnc htr hsrc
    have hsrc' : src.rest = junk ++ 91 :: (n ++ 93 :: ((tr ++ [10]) ++ rest)) := by
      rw [hsrc]; simp [List.append_assoc]
    obtain ⟨ln, src1, hnv, hr1⟩ := nextvis_skip (flatCfg_S (fs := fs) (fo := fo)).hash junk 91 _ s src hj (by decide) hsrc'
    have hclean1 : Clean [] ({ s with line := ln, curr := Flag.section_ } : St).path := hclean
    obtain ⟨l, fi', v', ln', src2, hes, hr2⟩ := sepFirst_name (fs := fs) (fo := fo) [] { s with line := ln, curr := Flag.section_ } src1 n
      ((tr ++ [10]) ++ rest) hclean1 hv hn hnc hr1
    have hp2 : (prev &&& 0xf == Flag.sectEnd) = false := by rcases hprev with h | h <;> subst h <;> decide
    have hem : s.path.elems.isEmpty = true := by rw [hclean.1]; rfl
    refine ⟨_, src2, tr ++ [10], ?_, ⟨l, fi', v', ln', rfl⟩, visSkip_headTrail tr htr, hr2⟩
    simp only [next, parseFormatSep]
    simp [hp2, hnv, hem, hes]
  headEnd := by
    intro m s src prev junk R hclean _ hprev hj hsrc
    obtain ⟨ln, src1, hnv, hr1⟩ := nextvis_skip (flatCfg_S (fs := fs) (fo := fo)).hash junk 91 R s src hj (by decide) (by simpa using hsrc)
    have hem : s.path.elems.isEmpty = false := by rw [hclean.1]; rfl
    refine ⟨{ s with line := ln, curr := Flag.sectEnd }, src1, ?_, rfl, rfl, hr1⟩
    simp only [next, parseFormatSep]
    have hp2 : (prev &&& 0xf == Flag.sectEnd) = false := by rcases hprev with h | h <;> subst h <;> decide
    simp only [hp2, Bool.false_eq_true, ↓reduceIte, hnv, hem]
    simp [Flag.sectEnd]
  headNext := by
    intro s src n tr rest hclean hv hn hnc htr hsrc
    have hsrc' : src.rest = n ++ 93 :: ((tr ++ [10]) ++ rest) := by
      rw [hsrc]; simp [List.append_assoc]
    have hclean1 : Clean [] ({ s with curr := Flag.section_ } : St).path := hclean
    obtain ⟨l, fi', v', ln', src2, hes, hr2⟩ := sepFirst_name (fs := fs) (fo := fo) [] { s with curr := Flag.section_ } src n
      ((tr ++ [10]) ++ rest) hclean1 hv hn hnc hsrc'
    refine ⟨_, src2, tr ++ [10], ?_, ⟨l, fi', v', ln', rfl⟩, visSkip_headTrail tr htr, hr2⟩
    simp only [next, parseFormatSep]
    have hp2 : ((2 : Nat) &&& 0xf == Flag.sectEnd) = true := by decide
    simp only [hp2, ↓reduceIte, hes]
    rfl

end Mpt.Parse
