/-
  Helper lemmas for C02 (core Lean only): everything a caller needs to know about one decoder call on data
  spread over any segments — from a state between two messages (`Fresh`) or inside a frame (`Hist`): what
  it means for the frame (`Hist` again, or `Delivered`) and where it stopped reading (`Scan`).
-/
import MptModel.Lemmas.DecodeScan
import MptModel.Lemmas.DecodeSegs
import MptModel.Lemmas.CodedQueueDec
namespace Mpt.Codec
open Mpt.Cobs

/-- with consistent offsets the part in front of the block loop does not fail -/
theorem decPrep_noerr (st : DecState) (segs : List Seg) (store : List Byte) (h : Bnd store.length st) :
    ∃ st' l, decPrep st segs store false = .inr (st', l) := by
  obtain ⟨hb, hm, hc, hp, hl, hs⟩ := decPrev_bnd store.length st h
  have hpost := alignPost_le (cursorAt segs (st.pos + st.len)).1 (cursorAt segs (st.pos + st.len)).2 (st.curr - (st.pos + st.len))
  have hle := h.le
  have htot := h.tot
  cases hprep : decPrep st segs store false with
  | inr sl => exact ⟨sl.1, sl.2, rfl⟩
  | inl es =>
    exfalso
    unfold decPrep decEnter at hprep
    simp only at hprep
    repeat' split at hprep
    all_goals first
      | (cases hprep; done)
      | omega
      | (rename_i h1 h2; simp at h2)
      | (rename_i h1; simp at h1)

/-- every exit of the block loop except the delivery keeps the relation to the machine run -/
theorem loop_hist (v : Variant) (st' : DecState) (l : Loc) (c0 : Nat) (U' : List Byte)
    (hrel : ∀ more, mach v c0 0 (U' ++ more) = (mach v l.code l.pos (l.store.drop l.r ++ more)).pre l.acc)
    (hpos : st'.pos = l.done) (hmsg : st'.msg = none) (hr : l.r ≤ l.store.length)
    (hc0 : 0 < l.code) (hc : l.code < 256) (hp : l.pos < 256)
    (hne : (decLoop v st' false (l.store.length - l.r) l).ret ≠ .val 1) :
    Hist v c0 U' (decLoop v st' false (l.store.length - l.r) l).st (decLoop v st' false (l.store.length - l.r) l).store := by
  have hn : l.r + (l.store.length - l.r) = l.store.length := by omega
  have hsusp := decLoop_susp v st' _ l hn hc0 hc hp
  generalize decLoop v st' false (l.store.length - l.r) l = o at hsusp hne
  obtain ⟨out, c, p, e1, e2, e3, e4, e5, e6⟩ := hsusp.sv hne
  have hreg : (o.store.drop o.st.pos).take o.st.len = l.acc ++ out := by
    rw [e1]; simp only; rw [hpos]; exact e5
  refine ⟨by rw [e1]; exact hmsg, ?_, c, p, by rw [e1], e2, e3, e4, ?_⟩
  · have := hsusp.curr.2; have := hsusp.len
    simp only [List.length_drop] at *; omega
  · intro more
    rw [hrel, e6, MRes.pre_pre, hreg, hsusp.unread, List.drop_drop]
    have hk : l.r + (o.st.curr - l.r) = o.st.curr := by have := hsusp.curr.1; omega
    rw [hk]

/-- a delivery leaves the state between two messages -/
theorem loop_one_ctx (v : Variant) (st' : DecState) (l : Loc) (hr : l.r ≤ l.store.length)
    (hc0 : 0 < l.code) (hc : l.code < 256)
    (h1 : (decLoop v st' false (l.store.length - l.r) l).ret = .val 1) :
    (decLoop v st' false (l.store.length - l.r) l).st.ctx = 0 := by
  have hn : l.r + (l.store.length - l.r) = l.store.length := by omega
  obtain ⟨_, _, _, _, _, e5, _⟩ := (decLoop_spec v st' _ l hn hc0 hc).one h1
  exact e5

/-- facts about one call of the regular decoder inside the frame `c0 :: U` -/
structure CallOut (v : Variant) (c0 : Nat) (U : List Byte) (s : List Byte) (c : Nat) (o : DecOut) : Prop where
  hist : o.ret ≠ .val 1 → Hist v c0 U o.st o.store
  one : o.ret = .val 1 → Delivered v c0 U o.region ∧ o.st.ctx = 0 ∧ o.st.msg = some o.st.len
  scan : Scan s c o

/-- the regular decoder, inside a frame -/
structure CallOut0 (v : Variant) (c0 : Nat) (U : List Byte) (s : List Byte) (c : Nat) (o : DecOut) : Prop where
  res : CallRes v c0 U o
  hist : o.ret ≠ .val 1 → Hist v c0 U o.st o.store
  ctx : o.ret = .val 1 → o.st.ctx = 0
  scan : Scan s c o

/-- a call that continues an open block with more input, any segments -/
theorem mid_call0 (v : Variant) (segs : List Seg) (st : DecState) (store piece : List Byte) (c0 : Nat) (U : List Byte)
    (hflat : flat segs = store ++ piece) (hb : Bnd (store ++ piece).length st) (h : Hist v c0 U st store) :
    CallOut0 v c0 (U ++ piece) (store ++ piece) st.curr (decodeCobs v st segs false) := by
  have hres := resume_callG v segs st store piece c0 U hflat h
  obtain ⟨hmsg, hcurr, c, p, hctx, hc0, hc, hp, hrel⟩ := h
  obtain ⟨st', l, hprep⟩ := decPrep_noerr st segs (store ++ piece) hb
  obtain ⟨h1, h2, h3, h4, h5, h6, h7, h8, h9, h10⟩ := decPrep_mid st _ _ st' l c p hmsg hctx hc0 hc hp hprep
  have hacc : l.acc = (store.drop st.pos).take st.len := by
    simp only [Loc.acc, h1, h4]
    by_cases hl : st.len = 0
    · simp [hl]
    · rw [h10 hl]; exact take_drop_append_le _ _ _ _ (by omega)
  have hrel' : ∀ more, mach v c0 0 ((U ++ piece) ++ more) = (mach v l.code l.pos (l.store.drop l.r ++ more)).pre l.acc := by
    intro more
    rw [h2, h3, h5, h1, hacc, List.append_assoc, hrel, List.drop_append_of_le_length hcurr, List.append_assoc]
  have hout : decodeCobs v st segs false = decLoop v st' false (l.store.length - l.r) l := by
    unfold decodeCobs
    simp only [Bool.false_eq_true, if_false, hflat, hprep]
    unfold decStart
    rw [if_neg (by omega)]
  rw [hout] at hres ⊢
  refine ⟨hres, ?_, ?_, ?_⟩
  · intro hne
    exact loop_hist v st' l c0 (U ++ piece) hrel' h6 h7 (by rw [h1]; exact h8) (by omega) (by omega) (by omega) hne
  · intro h1'
    exact loop_one_ctx v st' l (by rw [h1]; exact h8) (by omega) (by omega) h1'
  · have hl8 : l.r ≤ l.store.length := by rw [h1]; exact h8
    exact decLoop_scan v st' (store ++ piece) st.curr (l.store.length - l.r) l (by omega)
      (by rw [h1]) (by rw [h1]) (by omega) (by intro i a b; omega)

/-- the state `decPrep` hands to the loop from a state between two messages -/
theorem decPrep_fresh_st (st : DecState) (segs : List Seg) (store : List Byte) (st' : DecState) (l : Loc) (hf : Fresh st)
    (hprep : decPrep st segs store false = .inr (st', l)) : Fresh st' ∧ st'.curr = st.curr ∧ st'.msg = none := by
  have hm := hf.mlen
  unfold decPrep at hprep
  simp only at hprep
  split at hprep
  · simp at hprep
  split at hprep
  · simp at hprep
  try rw [if_pos hm] at hprep
  simp only [Bool.false_eq_true, if_false, hf.ctx, Nat.zero_mod, if_true] at hprep
  unfold decEnter at hprep
  split at hprep
  · simp at hprep
  simp only [Sum.inr.injEq, Prod.mk.injEq] at hprep
  obtain ⟨rfl, _⟩ := hprep
  have hpv : (decPrev st).1.ctx = 0 ∧ (decPrev st).1.msg = none ∧ (decPrev st).1.len = 0 ∧ (decPrev st).1.curr = st.curr := by
    unfold decPrev
    cases hmsg : st.msg with
    | none => simp [hf.ctx, hf.hnone hmsg, hmsg]
    | some m => simp [hf.ctx, hf.hsome m hmsg]
  exact ⟨⟨hpv.1, fun _ => hpv.2.2.1, fun m hm => by simp [hpv.2.1] at hm⟩, hpv.2.2.2, hpv.2.1⟩

/-- a call between two messages with nothing to read: nothing happens (the waiting message is dropped) -/
theorem fresh_call_nil (v : Variant) (segs : List Seg) (st : DecState) (store : List Byte) (hflat : flat segs = store)
    (hb : Bnd store.length st) (hf : Fresh st) (hnil : store.drop st.curr = []) :
    (decodeCobs v st segs false).ret = .val 0 ∧ Fresh (decodeCobs v st segs false).st ∧
      (decodeCobs v st segs false).st.curr = st.curr ∧ (decodeCobs v st segs false).store = store ∧
      (decodeCobs v st segs false).st.msg = none := by
  obtain ⟨st', l, hprep⟩ := decPrep_noerr st segs store hb
  obtain ⟨h1, h2, h3, h4, h5, h6, h7⟩ := decPrep_fresh st _ store st' l hf hprep
  obtain ⟨hf', hc', hm'⟩ := decPrep_fresh_st st segs store st' l hf hprep
  unfold decodeCobs
  simp only [Bool.false_eq_true, if_false, hflat, hprep]
  unfold decStart
  rw [if_pos h2]
  have : l.store[l.r]? = none := by
    rw [h1, h5]
    have := congrArg (fun x => x[0]?) hnil
    simpa using this
  rw [this]
  exact ⟨rfl, hf', hc', h1, hm'⟩

/-- a call between two messages that finds the first byte `c0 ≠ 0` of a frame -/
theorem fresh_call0 (v : Variant) (segs : List Seg) (st : DecState) (store : List Byte) (hflat : flat segs = store)
    (hb : Bnd store.length st) (hf : Fresh st) (c0 : Byte) (U : List Byte) (hU : store.drop st.curr = c0 :: U) (hc0 : c0 ≠ 0) :
    CallOut0 v c0.toNat U store (st.curr + 1) (decodeCobs v st segs false) := by
  have hres := (start_callG v segs st store hflat hf).2.2 c0 U hU hc0
  obtain ⟨st', l, hprep⟩ := decPrep_noerr st segs store hb
  obtain ⟨h1, h2, h3, h4, h5, h6, h7⟩ := decPrep_fresh st _ store st' l hf hprep
  obtain ⟨hf', hc', hm'⟩ := decPrep_fresh_st st segs store st' l hf hprep
  have hc : l.store[l.r]? = some c0 := by
    rw [h1, h5]
    have := congrArg (fun x => x[0]?) hU
    simpa using this
  have hlt : l.r < l.store.length := by
    rcases Nat.lt_or_ge l.r l.store.length with h | h
    · exact h
    · simp [List.getElem?_eq_none h] at hc
  have hdrop : l.store.drop (l.r + 1) = U := by
    rw [h1, h5]
    have := congrArg (List.drop 1) hU
    simpa [List.drop_drop, Nat.add_comm] using this
  have hr1 : ({ l with proc := l.proc + 1, code := c0.toNat, reads := [l.r] } : Loc).r = l.r + 1 := by
    simp only [Loc.r]; omega
  have hcpos : 0 < c0.toNat := Nat.pos_of_ne_zero ((toNat_ne_zero c0).mpr hc0)
  have hout : decodeCobs v st segs false =
      decLoop v st' false (l.store.length - (l.r + 1)) { l with proc := l.proc + 1, code := c0.toNat, reads := [l.r] } := by
    unfold decodeCobs
    simp only [Bool.false_eq_true, if_false, hflat, hprep]
    unfold decStart
    rw [if_pos h2, hc]
    simp only [hc0, if_false]
  rw [hout] at hres ⊢
  have hn : ({ l with proc := l.proc + 1, code := c0.toNat, reads := [l.r] } : Loc).store.length -
      ({ l with proc := l.proc + 1, code := c0.toNat, reads := [l.r] } : Loc).r = l.store.length - (l.r + 1) := by
    rw [hr1]
  have hrel' : ∀ more, mach v c0.toNat 0 (U ++ more) =
      (mach v ({ l with proc := l.proc + 1, code := c0.toNat, reads := [l.r] } : Loc).code
        ({ l with proc := l.proc + 1, code := c0.toNat, reads := [l.r] } : Loc).pos
        (({ l with proc := l.proc + 1, code := c0.toNat, reads := [l.r] } : Loc).store.drop
          ({ l with proc := l.proc + 1, code := c0.toNat, reads := [l.r] } : Loc).r ++ more)).pre
        ({ l with proc := l.proc + 1, code := c0.toNat, reads := [l.r] } : Loc).acc := by
    intro more
    rw [hr1]
    simp only [hdrop, h3, Loc.acc, h4, List.take_zero, MRes.pre_nil]
  refine ⟨hres, ?_, ?_, ?_⟩
  · intro hne
    have := loop_hist v st' { l with proc := l.proc + 1, code := c0.toNat, reads := [l.r] } c0.toNat U hrel' h6 hm'
      (by rw [hr1]; exact hlt) hcpos (UInt8.toNat_lt c0) (by simp [h3]) (by rw [hn]; exact hne)
    rw [hn] at this
    exact this
  · intro h1'
    have := loop_one_ctx v st' { l with proc := l.proc + 1, code := c0.toNat, reads := [l.r] } (by rw [hr1]; exact hlt)
      hcpos (UInt8.toNat_lt c0) (by rw [hn]; exact h1')
    rw [hn] at this
    exact this
  · have hsc := decLoop_scan v st' store (l.r + 1) (l.store.length - (l.r + 1))
      { l with proc := l.proc + 1, code := c0.toNat, reads := [l.r] } (by rw [hr1]; simp only; omega)
      (by rw [hr1]; simp only; rw [h1]) (by simp only; rw [h1]) (by rw [hr1]; exact Nat.le_refl _) (by intro i a b; rw [hr1] at b; omega)
    rw [← h5]
    exact hsc

/-- the decoder selected by the variant behaves like the regular one unless that one stopped at an inline zero -/
theorem decodeV_eq_of_ret (v : Variant) (st : DecState) (segs : List Seg) (h : (decodeCobs v st segs false).ret ≠ .err .MissingData) :
    decodeV v st segs false = decodeCobs v st segs false := by
  unfold decodeV
  split
  · unfold decodeCobsR
    simp only
    rw [if_neg (by intro hc; exact h hc.1)]
  · rfl

/-- from the regular decoder to the decoder selected by the variant (tail fix-up) -/
theorem lift_out (v : Variant) (st : DecState) (segs : List Seg) (c0 : Nat) (U s : List Byte) (c : Nat)
    (hwf : ∀ m, st.msg = some m → m = st.len)
    (h : CallOut0 v c0 U s c (decodeCobs v st segs false)) : CallOut v c0 U s c (decodeV v st segs false) := by
  have hlift := lift_call v st segs c0 U hwf h.res
  have hsafe := decodeCobs_safe v st segs false hwf
  have hplain : decodeV v st segs false = decodeCobs v st segs false →
      CallOut v c0 U s c (decodeV v st segs false) := by
    intro e
    rw [e]
    refine ⟨h.hist, fun h1 => ⟨Or.inl (h.res.one h1).1, h.ctx h1, (h.res.one h1).2⟩, h.scan⟩
  by_cases hmd : (decodeCobs v st segs false).ret = .err .MissingData
  · cases ht : v.tail
    · apply hplain
      unfold decodeV; simp [ht]
    · by_cases hctx : (decodeCobs v st segs false).st.ctx ≠ 0
      · -- the fix-up applies
        have hd := hlift.2
        have hh := h.hist (by rw [hmd]; simp)
        have hsc := h.scan
        have hmd' := hsafe.md hmd
        simp only [Bool.false_eq_true, if_false] at hmd'
        have hz := hsc.md hmd
        unfold decodeV at hd ⊢
        simp only [ht, if_true] at hd ⊢
        unfold decodeCobsR at hd ⊢
        simp only [Bool.false_eq_true, false_or] at hd ⊢
        generalize decodeCobs v st segs false = o at hmd hctx hd hh hsc hmd' hz
        rw [if_pos ⟨hmd, hctx⟩] at hd ⊢
        by_cases hl : o.store.length ≤ o.st.pos + o.st.len
        · rw [if_pos hl]
          refine ⟨fun _ => hh, fun h1 => by simp at h1, ?_⟩
          exact ⟨hsc.unread, hsc.len, hsc.ge, hsc.le, by
            intro i a b; simp only at b; exact hsc.nz i a (by rw [hmd]; simpa using b), by intro h1; simp at h1, by intro h1; simp at h1⟩
        · rw [if_neg hl] at hd ⊢
          have hlt : o.st.pos + o.st.len < o.st.curr + 1 := by omega
          rw [if_pos hlt] at hd ⊢
          have hcl : o.st.curr < s.length := by
            rcases Nat.lt_or_ge o.st.curr s.length with a | a
            · exact a
            · rw [List.getElem?_eq_none a] at hz; cases hz
          refine ⟨fun hne => by simp at hne, fun _ => ⟨hd rfl, rfl, rfl⟩, ?_⟩
          refine ⟨?_, by simp only [List.length_set]; exact hsc.len, by simp only; have := hsc.ge; omega, by simp only; omega, ?_, ?_, by intro h1; simp at h1⟩
          · simp only
            rw [drop_set_lt _ _ _ _ hlt]
            exact drop_ge_of_drop hsc.unread (by omega)
          · intro i a b
            have hb' : i < o.st.curr := by simpa using b
            exact hsc.nz i a (by rw [hmd]; simpa using hb')
          · intro _
            simp only [Nat.add_sub_cancel]
            exact ⟨by have := hsc.ge; omega, hz⟩
      · apply hplain
        unfold decodeV
        simp only [ht, if_true]
        unfold decodeCobsR
        simp only
        rw [if_neg (by intro hc; exact hctx hc.2)]
  · exact hplain (decodeV_eq_of_ret v st segs hmd)

end Mpt.Codec
