/-
  Lemmas about the `mpt_array_push` model (core Lean only): the retry loop terminates (every call either
  consumes data or is followed by a buffer growth after which data is consumed), takes all data and keeps
  the encoder invariant; a message pushed piece by piece and terminated appends its frame.
-/
import MptModel.Lemmas.EncodeZpe
namespace Mpt.Codec
open Mpt.Cobs

theorem allocSize_ge (n : Nat) : n ≤ allocSize n := by unfold allocSize; omega

/-- growing an unshared buffer keeps the used bytes -/
theorem detach_grow (buf : List Byte) (used n : Nat) (fill : Byte) (hu : used ≤ buf.length) :
    (detach buf used n fill).take used = buf.take used ∧ n ≤ (detach buf used n fill).length ∧
    buf.length ≤ (detach buf used n fill).length := by
  unfold detach
  by_cases h : n ≤ buf.length
  · rw [if_pos h]; exact ⟨rfl, h, Nat.le_refl _⟩
  · rw [if_neg h]
    have ha := allocSize_ge n
    have hmin : min used (allocSize n) = used := by omega
    rw [hmin]
    refine ⟨?_, by simp; omega, by simp; omega⟩
    rw [List.take_append_of_le_length (by simp; omega)]
    simp [List.take_take]

/-- the invariant only looks at the used part of the window -/
theorem EncInvM.of_take {v : Variant} {st : EncState} {win win' pre : List Byte} {ms : List (Byte × Bool)}
    (h : EncInvM v st win pre ms) (ht : win'.take (st.done + st.scratch) = win.take (st.done + st.scratch))
    (hl : st.done + st.scratch ≤ win'.length) : EncInvM v st win' pre ms := by
  obtain ⟨fin, run, h1, h2, h3, h4⟩ := h
  refine ⟨fin, run, h1, h2, ?_, h4⟩
  rcases h3 with ⟨a, b, c, d, e, f⟩ | ⟨a, b, c⟩
  · refine Or.inl ⟨a, b, c, d, ?_, by omega⟩
    rw [a, Nat.add_zero] at ht; rw [ht]; exact e
  · exact Or.inr ⟨a, by rw [ht]; exact b, hl⟩

theorem EncInvM.le {v : Variant} {st : EncState} {win pre : List Byte} {ms : List (Byte × Bool)}
    (h : EncInvM v st win pre ms) : st.done + st.scratch ≤ win.length := by
  obtain ⟨fin, run, h1, h2, h3, h4⟩ := h
  rcases h3 with ⟨a, _, _, _, _, f⟩ | ⟨_, _, c⟩ <;> omega

/-- the retry loop of `mpt_array_push` terminates and takes all data (COBS framings) -/
theorem pushLoop_data (v : Variant) (fill : Byte) (pre : List Byte) (fuel : Nat) :
    ∀ (st : EncState) (buf : List Byte) (bytes : List Byte) (max : Nat) (cons : List Nat) (ms : List (Byte × Bool)),
      EncInvM v st buf pre ms → bytes ≠ [] →
      (2 * bytes.length + 1 ≤ fuel ∨ (st.done + st.scratch + 3 ≤ buf.length ∧ 2 * bytes.length ≤ fuel)) →
      ∃ st' buf' cons' ms', pushLoop (.cobs v) fill fuel st buf (st.done + st.scratch) (some bytes) max cons =
          .ok (st', buf', st'.done + st'.scratch, ((max + bytes.length : Nat) : Int), cons') ∧
        EncInvM v st' buf' pre ms' ∧ ms'.map Prod.fst = ms.map Prod.fst ++ bytes := by
  induction fuel with
  | zero =>
    intro st buf bytes max cons ms _ hne hf
    have := List.length_pos_iff.mpr hne
    omega
  | succ f ih =>
    intro st buf bytes max cons ms hinv hne hf
    have hpos := List.length_pos_iff.mpr hne
    have hle := hinv.le
    unfold pushLoop
    rw [if_neg (by omega)]
    simp only [Nat.sub_self, List.drop_zero, List.take_zero, List.nil_append, Nat.zero_add]
    rcases encode_pushM v st buf pre ms bytes hinv with ⟨hnil, _⟩ | ⟨he, hl⟩ | ⟨o, he, hlen, hr, hall, hgrow, hprog, hinv'⟩
    · exact absurd hnil hne
    · -- require larger buffer
      rw [he]
      simp only
      obtain ⟨d1, d2, d3⟩ := detach_grow buf (st.done + st.scratch) (buf.length + 64) fill hle
      have hinvD := hinv.of_take d1 (by omega)
      have hf' : st.done + st.scratch + 3 ≤ (detach buf (st.done + st.scratch) (buf.length + 64) fill).length ∧ 2 * bytes.length ≤ f := by
        rcases hf with h | h
        · exact ⟨by omega, by omega⟩
        · omega
      exact ih st _ bytes max cons ms hinvD hne (Or.inr hf')
    · rw [he]
      simp only
      by_cases hfull : bytes.length = o.ret
      · rw [if_pos hfull]
        refine ⟨o.st, o.win, cons ++ [o.ret], _, ?_, hinv', ?_⟩
        · rw [hfull]
        · rw [List.map_append, markChunk_fst, ← hfull, List.take_length]
      · rw [if_neg hfull]
        by_cases h0 : o.ret = 0
        · rw [if_pos h0]
          have hnr : ¬ (st.done + st.scratch + 3 ≤ buf.length) := fun h => by have := hprog h; omega
          have hf1 : 2 * bytes.length + 1 ≤ f + 1 := by
            rcases hf with h | h
            · exact h
            · exact absurd h.1 hnr
          have hle' := hinv'.le
          rw [h0] at hinv'
          simp only [List.take_zero, markChunk_nil, List.append_nil] at hinv'
          obtain ⟨d1, d2, d3⟩ := detach_grow o.win (o.st.done + o.st.scratch) (o.win.length + 64) fill hle'
          have hinvD := hinv'.of_take d1 (by omega)
          have hgrow' : o.st.done + o.st.scratch ≤ st.done + st.scratch + 1 + 2 * bytes.length := by omega
          have := ih o.st _ bytes max cons ms hinvD hne (Or.inr ⟨by omega, by omega⟩)
          exact this
        · rw [if_neg h0]
          have hdl : (bytes.drop o.ret).length = bytes.length - o.ret := by simp
          have hdne : bytes.drop o.ret ≠ [] := by
            intro h; have := congrArg List.length h; simp at this; omega
          obtain ⟨st', buf', cons', ms', e1, e2, e3⟩ := ih o.st o.win (bytes.drop o.ret) (max + o.ret) (cons ++ [o.ret]) _ hinv' hdne
            (Or.inl (by rw [hdl]; rcases hf with h | h <;> omega))
          refine ⟨st', buf', cons', ms', ?_, e2, ?_⟩
          · rw [e1, hdl]
            have : max + o.ret + (bytes.length - o.ret) = max + bytes.length := by omega
            rw [this]
          · rw [e3, List.map_append, markChunk_fst, List.append_assoc, List.take_append_drop]


/-- the retry loop on the terminating call -/
theorem pushLoop_term (v : Variant) (fill : Byte) (pre : List Byte) (fuel : Nat) :
    ∀ (st : EncState) (buf : List Byte) (max : Nat) (cons : List Nat) (ms : List (Byte × Bool)),
      EncInvM v st buf pre ms →
      (2 ≤ fuel ∨ (st.done + st.scratch + 3 ≤ buf.length ∧ 1 ≤ fuel)) →
      ∃ st' buf', pushLoop (.cobs v) fill fuel st buf (st.done + st.scratch) none max cons =
          .ok (st', buf', st'.done + st'.scratch, ((max : Nat) : Int), cons) ∧
        st'.scratch = 0 ∧ st'.done = (pre ++ (encB v [] false ms ++ [0])).length ∧ st'.done ≤ buf'.length ∧
        buf'.take st'.done = pre ++ (encB v [] false ms ++ [0]) := by
  induction fuel with
  | zero => intro st buf max cons ms _ hf; omega
  | succ f ih =>
    intro st buf max cons ms hinv hf
    have hle := hinv.le
    unfold pushLoop
    rw [if_neg (by omega)]
    simp only [Nat.sub_self, List.drop_zero, List.take_zero, List.nil_append, Nat.zero_add]
    rcases encode_termM v st buf pre ms hinv with ⟨he, hl⟩ | ⟨o, he, hp⟩
    · rw [he]
      simp only
      obtain ⟨d1, d2, d3⟩ := detach_grow buf (st.done + st.scratch) (buf.length + 64) fill hle
      have hinvD := hinv.of_take d1 (by omega)
      refine ih st _ max cons ms hinvD (Or.inr ⟨by omega, ?_⟩)
      rcases hf with h | h <;> omega
    · rw [he]
      obtain ⟨h1, h2, h3, h4, h5, h6⟩ := hp
      simp only
      refine ⟨o.st, o.win, ?_, h2, h4, by omega, h6⟩
      simp [h3]

/-- state of an encode array between two `mpt_array_push` calls: finished frames `pre`, consumed marked
    bytes `ms` of the message in progress -/
def ArrInv (v : Variant) (a : EncArray) (pre : List Byte) (ms : List (Byte × Bool)) : Prop :=
  (a.buf = none ∧ a.st = {} ∧ a.used = 0 ∧ pre = [] ∧ ms = []) ∨
  (∃ buf, a.buf = some buf ∧ a.used = a.st.done + a.st.scratch ∧ EncInvM v a.st buf pre ms)

/-- the buffer the retry loop starts with -/
theorem arrayPush_start (v : Variant) (fill : Byte) (a : EncArray) (pre : List Byte) (ms : List (Byte × Bool)) (add : Nat)
    (h : ArrInv v a pre ms) (hadd : 64 ≤ add) :
    ∃ buf, arrayStart fill a add = .ok (buf, a.st.done + a.st.scratch) ∧
      EncInvM v a.st buf pre ms ∧ a.st.done + a.st.scratch + add ≤ buf.length := by
  unfold arrayStart
  rcases h with ⟨h1, h2, h3, h4, h5⟩ | ⟨buf, h1, h2, h3⟩
  · subst h4 h5
    rw [h1, h2]
    refine ⟨List.replicate (allocSize add) fill, by simp, ?_, ?_⟩
    · exact EncInvM.start v {} _ [] rfl rfl (by simp) (by simp)
    · have := allocSize_ge add; simp; omega
  · rw [h1, h2]
    obtain ⟨d1, d2, d3⟩ := detach_grow buf (a.st.done + a.st.scratch) (a.st.done + a.st.scratch + add) fill h3.le
    exact ⟨_, rfl, h3.of_take d1 (by omega), d2⟩

/-- `mpt_array_push` with data: returns, takes everything, keeps the invariant -/
theorem arrayPush_data (v : Variant) (fill : Byte) (a : EncArray) (pre : List Byte) (ms : List (Byte × Bool))
    (bytes : List Byte) (h : ArrInv v a pre ms) (hne : bytes ≠ []) :
    ∃ a' cons ms', arrayPush (.cobs v) fill a (some bytes) = .ok (a', (bytes.length : Int), cons) ∧
      ArrInv v a' pre ms' ∧ ms'.map Prod.fst = ms.map Prod.fst ++ bytes := by
  have hpos := List.length_pos_iff.mpr hne
  obtain ⟨buf, hs, hinv, hl⟩ := arrayPush_start v fill a pre ms (if bytes.length > 64 then bytes.length else 64) h (by split <;> omega)
  unfold arrayPush
  simp only [Option.map_some, Option.getD_some]
  rw [hs]
  simp only
  rw [if_neg (by omega)]
  obtain ⟨st', buf', cons', ms', e1, e2, e3⟩ := pushLoop_data v fill pre (2 * bytes.length + 8) a.st buf bytes 0 [] ms hinv hne (Or.inl (by omega))
  rw [e1]
  exact ⟨{ st := st', buf := some buf', used := st'.done + st'.scratch }, cons', ms', by simp, Or.inr ⟨buf', rfl, rfl, e2⟩, e3⟩

/-- `mpt_array_push` terminating the message: returns 0 and appends the frame of the consumed bytes -/
theorem arrayPush_term (v : Variant) (fill : Byte) (a : EncArray) (pre : List Byte) (ms : List (Byte × Bool))
    (h : ArrInv v a pre ms) :
    ∃ a' cons buf', arrayPush (.cobs v) fill a none = .ok (a', 0, cons) ∧ a'.buf = some buf' ∧
      buf'.take a'.st.done = pre ++ (encB v [] false ms ++ [0]) ∧
      ArrInv v a' (pre ++ (encB v [] false ms ++ [0])) [] := by
  obtain ⟨buf, hs, hinv, hl⟩ := arrayPush_start v fill a pre ms 64 h (Nat.le_refl _)
  unfold arrayPush
  simp only [Option.map_none, Option.getD_none, Nat.lt_irrefl, gt_iff_lt, Nat.not_lt_zero, if_false, if_true]
  rw [hs]
  simp only
  obtain ⟨st', buf', e1, e2, e3, e4, e5⟩ := pushLoop_term v fill pre (2 * 0 + 8) a.st buf 0 [] ms hinv (Or.inl (by omega))
  rw [e1]
  refine ⟨{ st := st', buf := some buf', used := st'.done + st'.scratch }, [], buf', by simp, rfl, e5, Or.inr ⟨buf', rfl, rfl, ?_⟩⟩
  exact EncInvM.start v st' buf' _ e2 e3 e5 e4


/-- a whole message through `mpt_array_push`: every call returns, and the frame is appended -/
theorem arrayMessage_spec (v : Variant) (fill : Byte) (chunks : List (List Byte)) :
    ∀ (a : EncArray) (pre : List Byte) (ms : List (Byte × Bool)), ArrInv v a pre ms → (∀ c ∈ chunks, c ≠ []) →
    ∃ a' buf' ms', arrayMessage (.cobs v) fill a chunks = .ok a' ∧ a'.buf = some buf' ∧
      ms'.map Prod.fst = ms.map Prod.fst ++ chunks.flatten ∧
      buf'.take a'.st.done = pre ++ (encB v [] false ms' ++ [0]) ∧
      ArrInv v a' (pre ++ (encB v [] false ms' ++ [0])) [] := by
  induction chunks with
  | nil =>
    intro a pre ms h _
    obtain ⟨a', cons, buf', e1, e2, e3, e4⟩ := arrayPush_term v fill a pre ms h
    simp only [arrayMessage, e1]
    exact ⟨a', buf', ms, rfl, e2, by simp, e3, e4⟩
  | cons ch rest ih =>
    intro a pre ms h hne
    obtain ⟨a1, cons, ms1, e1, e2, e3⟩ := arrayPush_data v fill a pre ms ch h (hne ch (by simp))
    simp only [arrayMessage, e1, if_true]
    obtain ⟨a', buf', ms', f1, f2, f3, f4, f5⟩ := ih a1 pre ms1 e2 (fun c hc => hne c (by simp [hc]))
    exact ⟨a', buf', ms', f1, f2, by rw [f3, e3]; simp, f4, f5⟩

end Mpt.Codec
