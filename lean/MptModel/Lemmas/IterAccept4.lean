/-
  Helper lemmas for C19 (core Lean only): recognised `lin(…)` descriptions are accepted by
  `mpt_iterator_create` with the denoted sequence.
-/
import MptModel.Lemmas.IterAccept3
namespace Mpt.Iter
open Mpt.IterSpec

theorem ofList_eq (l : List Char) (w : String) (h : String.ofList l = w) : l = w.toList := by
  rw [← h]; simp

theorem keyword_lin (name : List Char) (h : keywordKind name = some 0) :
    lowerAll name = "linear".toList ∨ lowerAll name = "lin".toList := by
  have hl : lowerAll name = name.map IterSpec.toLower := rfl
  rw [hl]
  unfold keywordKind at h
  simp only [] at h
  split at h
  · rename_i hc
    rcases hc with e | e
    · right; exact ofList_eq _ _ e
    · left; exact ofList_eq _ _ e
  · split at h
    · cases h
    · split at h <;> cases h

theorem keyword_range (name : List Char) (h : keywordKind name = some 1) : lowerAll name = "range".toList := by
  have hl : lowerAll name = name.map IterSpec.toLower := rfl
  rw [hl]
  unfold keywordKind at h
  simp only [] at h
  split at h
  · cases h
  · split at h
    · rename_i hc; exact ofList_eq _ _ hc
    · split at h <;> cases h

theorem keyword_fac (name : List Char) (h : keywordKind name = some 2) :
    lowerAll name = "factor".toList ∨ lowerAll name = "fact".toList ∨ lowerAll name = "fac".toList := by
  have hl : lowerAll name = name.map IterSpec.toLower := rfl
  rw [hl]
  unfold keywordKind at h
  simp only [] at h
  split at h
  · cases h
  · split at h
    · cases h
    · split at h
      · rename_i hc
        rcases hc with e | e | e
        · right; right; exact ofList_eq _ _ e
        · right; left; exact ofList_eq _ _ e
        · left; exact ofList_eq _ _ e
      · cases h

/-- `mpt_iterator_create` on a keyword text: the argument parser of the keyword is called on the rest -/
theorem create_keyword (s : List Char) (hne : (s.takeWhile isLetter).isEmpty = false)
    (hlen : (s.takeWhile isLetter).length ≤ 6) :
    create s =
      (let n := lowerAll (s.takeWhile isLetter)
       if n = "linear".toList ∨ n = "lin".toList then linArgs (s.dropWhile isLetter)
       else if n = "factor".toList ∨ n = "fact".toList ∨ n = "fac".toList then facArgs (s.dropWhile isLetter)
       else if n = "range".toList then rangeArgs (s.dropWhile isLetter)
       else none) := by
  rw [isLetter_eq] at hne hlen ⊢
  obtain ⟨c, cs, hs⟩ : ∃ c cs, s = c :: cs := by
    cases s with
    | nil => simp at hne
    | cons c cs => exact ⟨c, cs, rfl⟩
  have hal : isAlpha c = true := by
    rw [hs] at hne
    by_cases h : isAlpha c = true
    · exact h
    · simp [List.takeWhile, h] at hne
  have hds : dropSpace s = s := by rw [hs]; exact dropSpace_id c cs (letter_not_space c hal)
  unfold create
  simp only []
  rw [hds, spanP_eq]
  simp only []
  have he : s.isEmpty = false := by rw [hs]; rfl
  rw [he, hne]
  simp only [Bool.false_eq_true, ↓reduceIte]
  rw [if_neg (by omega)]

theorem lowerAll_length (l : List Char) : (lowerAll l).length = l.length := by simp [lowerAll]

theorem wrap32_small (k : Nat) (h : k < 4294967295) : wrap32 (k + 1) = k + 1 := by
  unfold wrap32; omega

theorem mkLinear_den (k : Nat) (a b : Rat) (h1 : 1 ≤ k) (h2 : k < 4294967295) :
    ∃ g, mkLinear (wrap32 (k + 1)) a b = some g ∧ g.all = (IterSpec.linear k a b).elems ∧ g.rem = g.all ∧ g.WF := by
  rw [wrap32_small k h2]
  refine ⟨.linear a ((b - a) / ((k : Nat) : Rat)) (k + 1) 0, ?_, ?_, ?_, trivial⟩
  · unfold mkLinear
    rw [if_neg (by omega)]
    simp
  · simp [Gen.all, IterSpec.linear, Den.elems]
  · simp [Gen.rem]

/-- a recognised `lin(…)` description is handed to `mpt_iterator_linear` with its count and bounds -/
theorem lin_created (s : List Char) (k : Nat) (a b : Rat) (h : recognise s = some (.lin k a b)) :
    create s = mkLinear (wrap32 (k + 1)) a b := by
  unfold recognise at h
  simp only [] at h
  split at h
  · -- no keyword: a value list, not a `lin`
    cases hq : numbers s with
    | none => rw [hq] at h; simp at h
    | some vs => rw [hq] at h; simp only [Option.bind_some] at h; split at h <;> cases h
  · rename_i hname
    have hname' : (s.takeWhile isLetter).isEmpty = false := by simpa using hname
    split at h
    all_goals first
      | (cases h; done)
      | (exfalso; revert h; (repeat' split) <;> simp; done)
      | skip
    · -- count only
      rename_i n hkw hf
      cases hn : strictCount n with
      | none => rw [hn] at h; simp at h
      | some k' =>
        rw [hn] at h
        simp only [Option.map_some, Option.some.injEq, Desc.lin.injEq] at h
        obtain ⟨e1, e2, e3⟩ := h
        subst e1; subst e2; subst e3
        obtain ⟨a0, inner, hrest, oa, hfs⟩ := fieldsOf_inv _ _ hf
        obtain ⟨g1, hg1, hg2⟩ := map_eq_one trim1 _ n hfs.symm
        have hj := join_splitC ':' inner
        rw [hg1] at hj
        simp only [joinC] at hj
        obtain ⟨a1, b1, hf1, oa1, ob1⟩ := trim1_inv g1
        rw [hg2] at hf1
        have hkw' := keyword_lin _ hkw
        have hl : (s.takeWhile isLetter).length ≤ 6 := by
          rw [← lowerAll_length]
          rcases hkw' with e | e <;> rw [e] <;> decide
        rw [create_keyword s hname' hl]
        simp only []
        rw [if_pos hkw', hrest, ← hj, hf1]
        have := linArgs_one a0 a1 b1 n k' oa oa1 ob1 hn
        simp only [List.append_assoc, List.cons_append, List.nil_append] at this ⊢
        rw [this]
    · -- count and bounds
      rename_i n ab hkw hf
      cases hn : strictCount n with
      | none => rw [hn] at h; simp at h
      | some k' =>
        rw [hn] at h
        cases hab : numbers ab with
        | none => rw [hab] at h; simp at h
        | some vs =>
          rw [hab] at h
          match vs, h, hab with
          | [a', b'], h, hab =>
            simp only [Option.some.injEq, Desc.lin.injEq] at h
            obtain ⟨e1, e2, e3⟩ := h
            subst e1; subst e2; subst e3
            obtain ⟨ta, tb, hab2, h1, h2⟩ := numbers_two ab a' b' hab
            obtain ⟨a0, inner, hrest, oa, hfs⟩ := fieldsOf_inv _ _ hf
            obtain ⟨g1, g2, hg, hg1, hg2⟩ := map_eq_two trim1 _ n ab hfs.symm
            have hj := join_splitC ':' inner
            rw [hg] at hj
            simp only [joinC] at hj
            obtain ⟨a1, b1, hf1, oa1, ob1⟩ := trim1_inv g1
            obtain ⟨a2, b2, hf2, oa2, ob2⟩ := trim1_inv g2
            rw [hg1] at hf1
            rw [hg2, hab2] at hf2
            have hkw' := keyword_lin _ hkw
            have hl : (s.takeWhile isLetter).length ≤ 6 := by
              rw [← lowerAll_length]
              rcases hkw' with e | e <;> rw [e] <;> decide
            rw [create_keyword s hname' hl]
            simp only []
            rw [if_pos hkw', hrest, ← hj, hf1, hf2]
            have := linArgs_two a0 a1 b1 a2 b2 n ta tb k' a' b' oa oa1 ob1 oa2 ob2 hn h1 h2
            simp only [List.append_assoc, List.cons_append, List.nil_append] at this ⊢
            rw [this]
          | [], h, _ => simp at h
          | [_], h, _ => simp at h
          | _ :: _ :: _ :: _, h, _ => simp at h


/-- **a recognised `lin(…)` description is accepted and denotes its sequence** -/
theorem accept_lin (s : List Char) (k : Nat) (a b : Rat) (den : Den)
    (h : recognise s = some (.lin k a b)) (hd : (Desc.lin k a b).den = some den) :
    ∃ g, create s = some g ∧ g.all = den.elems ∧ g.rem = g.all ∧ g.WF := by
  have hk : 1 ≤ k ∧ k < 4294967295 ∧ den = IterSpec.linear k a b := by
    simp only [Desc.den] at hd
    split at hd
    · rename_i hc; cases hd; exact ⟨hc.1, hc.2, rfl⟩
    · cases hd
  obtain ⟨hk1, hk2, hden⟩ := hk
  subst hden
  rw [lin_created s k a b h]
  exact mkLinear_den k a b hk1 hk2

end Mpt.Iter
