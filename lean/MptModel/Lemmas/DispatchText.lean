/-
  Text lemmas for C11: the id `mpt_dispatch_hash` computes for a command message (model `hashId`) is one of the
  readings the spec accepts (`cmdIds`).
-/
import MptModel.Impl.Dispatch
namespace Mpt.Dispatch

theorem djb2Loop_eq (h : UInt64) (bs : List Byte) :
    djb2Loop h bs = bs.foldl (fun h b => (h * 33) ^^^ signExt b) h := by
  induction bs generalizing h with
  | nil => rfl
  | cons c rest ih => simp [djb2Loop, ih]

theorem mptHash_eq (bs : List Byte) : mptHash bs = hashDjb2 bs := djb2Loop_eq _ _

theorem findIdx?_takeWhile {α} (p : α → Bool) (l : List α) :
    (match l.findIdx? p with | some i => i | none => l.length) = (l.takeWhile (fun x => !p x)).length := by
  induction l with
  | nil => simp
  | cons x rest ih =>
    simp only [List.findIdx?_cons, List.takeWhile_cons]
    by_cases hx : p x = true
    · simp [hx]
    · have : p x = false := by simpa using hx
      simp only [this, Bool.false_eq_true, if_false, Bool.not_false, if_true, List.length_cons]
      rw [← ih]
      cases h : rest.findIdx? p <;> simp

theorem take_findIdx {α} (p : α → Bool) (l : List α) :
    l.take (match l.findIdx? p with | some i => i | none => l.length) = l.takeWhile (fun x => !p x) := by
  induction l with
  | nil => simp
  | cons x rest ih =>
    simp only [List.findIdx?_cons, List.takeWhile_cons]
    by_cases hx : p x = true
    · simp [hx]
    · have : p x = false := by simpa using hx
      simp only [this, Bool.false_eq_true, if_false, Bool.not_false, if_true]
      rw [← ih]
      cases h : rest.findIdx? p <;> simp

theorem nextChar_len (data : List Byte) (tok : Byte) :
    nextChar data tok = (data.takeWhile (· != tok)).length := by
  unfold nextChar
  exact findIdx?_takeWhile (· == tok) data

theorem take_nextChar (data : List Byte) (tok : Byte) :
    data.take (nextChar data tok) = data.takeWhile (· != tok) := by
  unfold nextChar
  exact take_findIdx (· == tok) data

theorem drop_findIdx_some {α} (p : α → Bool) (l : List α) {i : Nat} (h : l.findIdx? p = some i) :
    l.drop i = l.dropWhile (fun x => !p x) := by
  induction l generalizing i with
  | nil => simp at h
  | cons x rest ih =>
    simp only [List.findIdx?_cons] at h
    simp only [List.dropWhile_cons]
    by_cases hx : p x = true
    · simp only [hx, if_true, Option.some.injEq] at h
      subst h; simp [hx]
    · have hx' : p x = false := by simpa using hx
      simp only [hx', Bool.false_eq_true, if_false, Option.map_eq_some_iff] at h
      obtain ⟨j, hj, rfl⟩ := h
      simp [hx', ih hj]

theorem dropWhile_all {α} (p : α → Bool) (l : List α) (h : ∀ x, x ∈ l → p x = true) : l.dropWhile p = [] := by
  induction l with
  | nil => rfl
  | cons x rest ih =>
    simp only [List.dropWhile_cons, h x (by simp), if_true]
    exact ih (fun y hy => h y (by simp [hy]))

/-- an index before `nextChar` does not hold the token -/
theorem getElem_lt_nextChar {data : List Byte} {tok : Byte} {i : Nat} (h : i < nextChar data tok) :
    data[i]? ≠ some tok := by
  unfold nextChar at h
  intro hc
  cases hf : data.findIdx? (· == tok) with
  | none =>
    rw [List.findIdx?_eq_none_iff] at hf
    have := hf tok (List.mem_of_getElem? hc)
    simp at this
  | some j =>
    rw [hf] at h
    simp only at h
    rw [List.findIdx?_eq_some_iff_getElem] at hf
    obtain ⟨hj, _, hmin⟩ := hf
    have := hmin i h
    have hi : i < data.length := by omega
    rw [List.getElem?_eq_getElem hi] at hc
    simp only [Option.some.injEq] at hc
    simp [hc] at this


theorem memtokGo_bounds {l : List Byte} {pos q : Nat} {m prev : Byte} (h : memtokGo l pos m prev = some q) :
    pos ≤ q ∧ q < pos + l.length := by
  induction l generalizing pos m prev with
  | nil => simp [memtokGo] at h
  | cons c rest ih =>
    unfold memtokGo at h
    simp only [List.length_cons]
    split at h
    · have := ih h; omega
    · split at h
      · have := ih h; omega
      · split at h
        · simp only [Option.some.injEq] at h; omega
        · have := ih h; omega

theorem memtok_zero {data : List Byte} (h : memtok data = some 0) : ∃ c rest, data = c :: rest ∧ isTokWs c = true := by
  unfold memtok at h
  cases data with
  | nil => simp [memtokGo] at h
  | cons c rest =>
    refine ⟨c, rest, rfl, ?_⟩
    unfold memtokGo at h
    simp only [ne_eq, not_true_eq_false, if_false] at h
    split at h
    · have := (memtokGo_bounds h).1; omega
    · split at h
      · assumption
      · have := (memtokGo_bounds h).1; omega

theorem tokWs_space {c : Byte} (h : isTokWs c = true) : isSpace c = true := by
  unfold isTokWs at h
  unfold isSpace
  simp only [Bool.or_eq_true, beq_iff_eq] at h
  rcases h with (((h | h) | h) | h) | h <;> subst h <;> decide

theorem take_mem_prefixes {t : List Byte} {n : Nat} (h0 : 0 < n) (hn : n ≤ t.length) : t.take n ∈ prefixes t := by
  unfold prefixes
  simp only [List.mem_map, List.mem_range]
  exact ⟨n - 1, by omega, by congr 1; omega⟩

theorem nextChar_le (data : List Byte) (tok : Byte) : nextChar data tok ≤ data.length := by
  rw [nextChar_len]; exact (List.takeWhile_sublist _).length_le

theorem nextChar_zero_head {data : List Byte} {tok : Byte} (hne : data ≠ []) (h : nextChar data tok = 0) :
    data.head? = some tok := by
  cases data with
  | nil => exact absurd rfl hne
  | cons c rest =>
    rw [nextChar_len, List.takeWhile_cons] at h
    by_cases hc : c = tok
    · simp [hc]
    · have : (c != tok) = true := by simpa using hc
      simp [this] at h

theorem argWs_spec (d : List Byte) :
    argWs d ≤ d.length ∧ (argWs d = 0 → d ≠ [] → (∃ c rest, d = c :: rest ∧ isTokWs c = true) ∨ d.head? = some 0) := by
  unfold argWs
  cases hm : memtok d with
  | some p =>
    have hb := memtokGo_bounds (l := d) (pos := 0) hm
    refine ⟨by simp only; omega, ?_⟩
    intro h0 _
    simp only at h0
    subst h0
    exact Or.inl (memtok_zero hm)
  | none =>
    refine ⟨nextChar_le _ _, ?_⟩
    intro h0 hne'
    exact Or.inr (nextChar_zero_head hne' h0)

theorem tokWs_not_quote {c : Byte} (h : isTokWs c = true) : isQuote c = false := by
  unfold isTokWs at h
  unfold isQuote
  simp only [Bool.or_eq_true, beq_iff_eq] at h
  rcases h with (((h | h) | h) | h) | h <;> subst h <;> decide

/-- a word without quote and blank characters is scanned through -/
theorem memtokGo_plain_end (w : List Byte) (pos : Nat) (prev : Byte)
    (hw : ∀ c, c ∈ w → isQuote c = false ∧ isTokWs c = false) : memtokGo w pos 0 prev = none := by
  induction w generalizing pos prev with
  | nil => simp [memtokGo]
  | cons a w' ih =>
    obtain ⟨hq, ht⟩ := hw a (by simp)
    unfold memtokGo
    simp only [ne_eq, not_true_eq_false, if_false, hq, ht, Bool.false_eq_true]
    exact ih (pos + 1) a (fun c hc => hw c (by simp [hc]))

theorem memtokGo_plain_ws (w : List Byte) (c : Byte) (rest : List Byte) (pos : Nat) (prev : Byte)
    (hw : ∀ c, c ∈ w → isQuote c = false ∧ isTokWs c = false) (hc : isTokWs c = true) :
    memtokGo (w ++ c :: rest) pos 0 prev = some (pos + w.length) := by
  induction w generalizing pos prev with
  | nil => simp [memtokGo, hc, tokWs_not_quote hc]
  | cons a w' ih =>
    obtain ⟨hq, ht⟩ := hw a (by simp)
    simp only [List.cons_append]
    unfold memtokGo
    simp only [ne_eq, not_true_eq_false, if_false, hq, ht, Bool.false_eq_true]
    rw [ih (pos + 1) a (fun c hc => hw c (by simp [hc]))]
    simp only [List.length_cons]
    congr 1; omega

theorem takeWhile_all {α} (p : α → Bool) (l : List α) : ∀ c, c ∈ l.takeWhile p → p c = true := by
  induction l with
  | nil => intro c hc; simp at hc
  | cons a r ih =>
    intro c hc
    rw [List.takeWhile_cons] at hc
    by_cases ha : p a = true
    · simp only [ha, if_true, List.mem_cons] at hc
      rcases hc with rfl | hc
      · exact ha
      · exact ih c hc
    · simp [ha] at hc

theorem takeWhile_self {α} (p : α → Bool) (l : List α) (h : ∀ c, c ∈ l → p c = true) : l.takeWhile p = l := by
  induction l with
  | nil => rfl
  | cons a r ih =>
    rw [List.takeWhile_cons, h a (by simp)]
    simp only [if_true]
    rw [ih (fun c hc => h c (by simp [hc]))]

theorem take_takeWhile_length {α} (p : α → Bool) (l : List α) : l.take (l.takeWhile p).length = l.takeWhile p := by
  induction l with
  | nil => rfl
  | cons a r ih =>
    rw [List.takeWhile_cons]
    by_cases ha : p a = true
    · simp [ha, ih]
    · simp [ha]

/-- white-space separated arguments, plain case: the first argument is the command word -/
theorem plain_argWs {payload : List Byte} (hp : plainWord payload = true) :
    wsWord payload ≠ [] ∧ argWs (payload.dropWhile isSpace) = (wsWord payload).length ∧
      (payload.dropWhile isSpace).take (wsWord payload).length = wsWord payload := by
  unfold plainWord at hp
  simp only [Bool.and_eq_true, Bool.not_eq_true', List.isEmpty_eq_false_iff] at hp
  obtain ⟨⟨hne, hq⟩, hafter⟩ := hp
  have hsplit := List.takeWhile_append_dropWhile (p := fun c => !isSpace c && c != 0) (l := payload.dropWhile isSpace)
  have hw : ∀ c, c ∈ wsWord payload → isQuote c = false ∧ isTokWs c = false ∧ c ≠ 0 := by
    intro c hc
    have h1 : isQuoteCh c = false := by
      rw [List.any_eq_false] at hq
      simpa using hq c hc
    have h2 := takeWhile_all _ _ c hc
    simp only [Bool.and_eq_true, Bool.not_eq_true', bne_iff_ne, ne_eq] at h2
    refine ⟨h1, ?_, h2.2⟩
    cases ht : isTokWs c with
    | false => rfl
    | true => rw [tokWs_space ht] at h2; cases h2.1
  refine ⟨hne, ?_, ?_⟩
  · unfold argWs memtok
    have hw' : ∀ c, c ∈ wsWord payload → isQuote c = false ∧ isTokWs c = false := fun c hc => ⟨(hw c hc).1, (hw c hc).2.1⟩
    unfold wsWord at hw hw' hne ⊢
    generalize List.dropWhile (fun c => !isSpace c && c != 0) (List.dropWhile isSpace payload) = after at hafter hsplit
    generalize List.takeWhile (fun c => !isSpace c && c != 0) (List.dropWhile isSpace payload) = w at hw hw' hne hsplit ⊢
    rw [← hsplit]
    cases after with
    | nil =>
      rw [List.append_nil, memtokGo_plain_end w 0 0x20 hw']
      simp only
      rw [nextChar_len, takeWhile_self]
      intro c hc
      have := (hw c hc).2.2
      simpa using this
    | cons c rest =>
      simp only at hafter
      have hc : isTokWs c = true := hafter
      rw [memtokGo_plain_ws w c rest 0 0x20 hw' hc]
      simp
  · unfold wsWord
    exact take_takeWhile_length _ _

theorem hashId_cmdIds (msg : List Byte) :
    (∃ v, hashId msg = .id v ∧ some v ∈ cmdIds msg) ∨ (hashId msg = .fail ∧ none ∈ cmdIds msg) := by
  unfold hashId cmdIds
  match msg with
  | [] => right; simp
  | [_] => right; simp
  | ty :: arg :: payload =>
    simp only
    generalize (if ty = msgCommand then arg else 0) = sep
    unfold messageArgv
    by_cases hemp : payload = []
    · subst hemp; right; simp [prefixes, plainWord, wsWord]
    · have hne : payload.isEmpty = false := by simpa using hemp
      simp only [hne, Bool.false_eq_true, if_false]
      by_cases hs0 : sep = 0
      · subst hs0
        simp only [if_true]
        have hlen := nextChar_len payload 0
        by_cases hz : nextChar payload 0 = 0
        · right
          simp only [hz, if_true, true_and]
          have : (payload.takeWhile (· != 0)).isEmpty = true := by
            rw [List.isEmpty_iff_length_eq_zero, ← hlen]; exact hz
          simp [this]
        · left
          simp only [hz, if_false]
          have hnz : (payload.takeWhile (· != 0)).isEmpty = false := by
            rw [← Bool.not_eq_true, List.isEmpty_iff_length_eq_zero, ← hlen]; exact hz
          have hlast : payload[nextChar payload 0 - 1]? ≠ some 0 := getElem_lt_nextChar (by omega)
          simp only [hlast, and_false, if_false, hnz, Bool.false_eq_true]
          refine ⟨_, rfl, ?_⟩
          rw [take_nextChar, mptHash_eq]; simp
      · simp only [hs0, if_false, false_and]
        by_cases hgr : isGraph sep = true
        · simp only [hgr, if_true]
          cases hf : payload.findIdx? (fun c => !isSpace c) with
          | none =>
            -- all white space: nothing is trimmed
            simp only
            rw [List.findIdx?_eq_none_iff] at hf
            have hall : ∀ x, x ∈ payload → isSpace x = true := by
              intro x hx; have := hf x hx; simpa using this
            rw [dropWhile_all isSpace payload hall]
            simp only [List.takeWhile_nil, List.isEmpty_nil, if_true]
            have hlen := nextChar_len payload sep
            by_cases hz : nextChar payload sep = 0
            · right
              have : (payload.takeWhile (· != sep)).isEmpty = true := by
                rw [List.isEmpty_iff_length_eq_zero, ← hlen]; exact hz
              simp [hz, this]
            · left
              have hnz : (payload.takeWhile (· != sep)).isEmpty = false := by
                rw [← Bool.not_eq_true, List.isEmpty_iff_length_eq_zero, ← hlen]; exact hz
              simp only [hz, if_false, hnz, Bool.false_eq_true]
              refine ⟨_, rfl, ?_⟩
              rw [take_nextChar, mptHash_eq]; simp
          | some p =>
            simp only
            have hdw : payload.drop p = payload.dropWhile isSpace := by
              have := drop_findIdx_some (fun c => !isSpace c) payload hf
              simpa using this
            rw [hdw]
            have hlen := nextChar_len (payload.dropWhile isSpace) sep
            by_cases hz : nextChar (payload.dropWhile isSpace) sep = 0
            · right
              have : ((payload.dropWhile isSpace).takeWhile (· != sep)).isEmpty = true := by
                rw [List.isEmpty_iff_length_eq_zero, ← hlen]; exact hz
              simp only [hz, if_true, this, true_and]
              split <;> simp
            · left
              have hnz : ((payload.dropWhile isSpace).takeWhile (· != sep)).isEmpty = false := by
                rw [← Bool.not_eq_true, List.isEmpty_iff_length_eq_zero, ← hlen]; exact hz
              simp only [hz, if_false, hnz, Bool.false_eq_true]
              refine ⟨_, rfl, ?_⟩
              rw [take_nextChar, mptHash_eq]; simp
        · -- white-space separated arguments with quoting
          have hgr' : isGraph sep = false := by simpa using hgr
          simp only [hgr', Bool.false_eq_true, if_false]
          by_cases hp : plainWord payload = true
          · -- plain command word: exactly one reading
            obtain ⟨hne, hlen, htake⟩ := plain_argWs hp
            simp only [hp, if_true]
            have hl0 : (wsWord payload).length ≠ 0 := by
              intro h0; exact hne (List.eq_nil_of_length_eq_zero h0)
            cases hf : payload.findIdx? (fun c => !isSpace c) with
            | none =>
              exfalso
              rw [List.findIdx?_eq_none_iff] at hf
              have hall : ∀ x, x ∈ payload → isSpace x = true := by
                intro x hx; have := hf x hx; simpa using this
              apply hne
              unfold wsWord
              rw [dropWhile_all isSpace payload hall]; rfl
            | some p =>
              simp only
              have hdw : payload.drop p = payload.dropWhile isSpace := by
                have := drop_findIdx_some (fun c => !isSpace c) payload hf
                simpa using this
              rw [hdw, hlen]
              left
              simp only [hl0, if_false]
              refine ⟨_, rfl, ?_⟩
              rw [htake, mptHash_eq]; simp
          · simp only [hp, Bool.false_eq_true, if_false]
            cases hf : payload.findIdx? (fun c => !isSpace c) with
          | none =>
            simp only
            rw [List.findIdx?_eq_none_iff] at hf
            have hall : ∀ x, x ∈ payload → isSpace x = true := by
              intro x hx; have := hf x hx; simpa using this
            rw [dropWhile_all isSpace payload hall]
            simp only [List.isEmpty_nil, if_true]
            obtain ⟨hle, _⟩ := argWs_spec payload
            by_cases hz : argWs payload = 0
            · right; simp [hz]
            · left
              simp only [hz, if_false]
              refine ⟨_, rfl, ?_⟩
              rw [mptHash_eq]
              simp only [List.mem_cons, reduceCtorEq, List.mem_map, Option.some.injEq, false_or]
              exact ⟨_, take_mem_prefixes (by omega) hle, rfl⟩
          | some p =>
            simp only
            have hdw : payload.drop p = payload.dropWhile isSpace := by
              have := drop_findIdx_some (fun c => !isSpace c) payload hf
              simpa using this
            rw [hdw]
            have htne : payload.dropWhile isSpace ≠ [] := by
              rw [← hdw]
              rw [List.findIdx?_eq_some_iff_getElem] at hf
              obtain ⟨hp, _, _⟩ := hf
              intro hc
              have := congrArg List.length hc
              rw [List.length_drop, List.length_nil] at this
              omega
            have hte : (payload.dropWhile isSpace).isEmpty = false := by simpa using htne
            simp only [hte, Bool.false_eq_true, if_false]
            have hhead := List.head?_dropWhile_not isSpace payload
            generalize payload.dropWhile isSpace = t at htne hte hhead
            obtain ⟨hle, hzero⟩ := argWs_spec t
            by_cases hz : argWs t = 0
            · right
              simp only [hz, if_true, true_and]
              rcases hzero hz htne with ⟨c, rest, hc, hws⟩ | h0
              · subst hc
                simp only [List.head?_cons] at hhead
                rw [tokWs_space hws] at hhead
                cases hhead
              · simp [h0]
            · left
              simp only [hz, if_false]
              refine ⟨_, rfl, ?_⟩
              rw [mptHash_eq]
              simp only [List.mem_append, List.mem_map, Option.some.injEq]
              right
              exact ⟨_, take_mem_prefixes (by omega) hle, rfl⟩

end Mpt.Dispatch
