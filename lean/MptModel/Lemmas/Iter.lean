/-
  Helper lemmas for C19 (core Lean only): the generator states as cursors over the sequence they denote.
-/
import MptModel.Impl.Iter
import MptModel.Spec.IterGrammar
namespace Mpt.Iter
open Mpt.IterSpec

/-- class of an `advance()` return value -/
def advClass : AdvRes → Adv
  | .more => .more
  | .last => .last
  | .err _ => .err

/-! ### scanners consume text -/

theorem spanP_length (p : Char → Bool) (l : List Char) :
    (spanP p l).1.length + (spanP p l).2.length = l.length := by
  induction l with
  | nil => simp [spanP]
  | cons c cs ih =>
    unfold spanP
    split <;> simp <;> omega

theorem spanP_suffix (p : Char → Bool) (l : List Char) : (spanP p l).2 <:+ l := by
  induction l with
  | nil => simp [spanP]
  | cons c cs ih =>
    unfold spanP
    split
    · exact List.IsSuffix.trans ih (List.suffix_cons c cs)
    · exact List.suffix_refl _

theorem dropSpace_suffix (l : List Char) : dropSpace l <:+ l := by
  induction l with
  | nil => simp [dropSpace]
  | cons c cs ih =>
    unfold dropSpace
    split
    · exact List.IsSuffix.trans ih (List.suffix_cons c cs)
    · exact List.suffix_refl _

theorem tail_suffix {α} (l : List α) : l.tail <:+ l := by
  cases l with
  | nil => simp
  | cons a as => exact List.suffix_cons a as

theorem signRest_suffix (s : List Char) : signRest s <:+ s := by
  unfold signRest
  split
  · exact tail_suffix s
  · exact List.suffix_refl _

theorem numStart_suffix (s : List Char) : numStart s <:+ s :=
  (signRest_suffix _).trans (dropSpace_suffix s)

theorem expRest_suffix (s : List Char) : expRest s <:+ s := by
  unfold expRest
  split
  · exact List.suffix_refl _
  · exact (spanP_suffix _ _).trans ((signRest_suffix _).trans (tail_suffix s))

theorem fracRest_suffix (s : List Char) : fracRest s <:+ s := by
  unfold fracRest
  split
  · exact (spanP_suffix _ _).trans (tail_suffix s)
  · exact List.suffix_refl _

theorem fracRest_length (s : List Char) : (fracDigits s).length + (fracRest s).length ≤ s.length := by
  unfold fracDigits fracRest
  split
  · have := spanP_length isDigit s.tail
    have := (tail_suffix s).length_le
    omega
  · simp

theorem scanRest_suffix (s : List Char) : scanRest s <:+ s :=
  (expRest_suffix _).trans ((fracRest_suffix _).trans ((spanP_suffix _ _).trans (numStart_suffix s)))

/-- a convertible number takes at least one character -/
theorem scanRest_length (s : List Char) (h : scanOk s = true) : (scanRest s).length < s.length := by
  unfold scanOk at h
  unfold scanRest
  have h1 := (numStart_suffix s).length_le
  have h2 := spanP_length isDigit (numStart s)
  have h3 := fracRest_length (spanP isDigit (numStart s)).2
  have h4 := (expRest_suffix (fracRest (spanP isDigit (numStart s)).2)).length_le
  have : (spanP isDigit (numStart s)).1.length ≠ 0 ∨ (fracDigits (spanP isDigit (numStart s)).2).length ≠ 0 := by
    by_cases a : (spanP isDigit (numStart s)).1.length = 0
    · right
      intro b
      have ea := List.eq_nil_of_length_eq_zero a
      have eb := List.eq_nil_of_length_eq_zero b
      simp [ea, eb] at h
    · left; exact a
  omega

theorem infWord_suffix (s r : List Char) (h : infWord s = some r) : r <:+ s ∧ r.length < s.length := by
  unfold infWord at h
  split at h
  · rename_i h8
    cases h
    have : (s.take 8).length = 8 := by
      have := congrArg List.length h8
      simpa using this
    have hl : 8 ≤ s.length := by
      rw [List.length_take] at this; omega
    exact ⟨List.drop_suffix 8 s, by rw [List.length_drop]; omega⟩
  · split at h
    · rename_i h3
      cases h
      have : (s.take 3).length = 3 := by
        have := congrArg List.length h3
        simpa using this
      have hl : 3 ≤ s.length := by
        rw [List.length_take] at this; omega
      exact ⟨List.drop_suffix 3 s, by rw [List.length_drop]; omega⟩
    · cases h

/-- an infinity literal starts with the letter i -/
theorem infWord_none (c : Char) (cs : List Char) (h : lower c ≠ 'i') : infWord (c :: cs) = none := by
  unfold infWord
  rw [if_neg, if_neg]
  · intro hc
    simp only [List.take_succ_cons, List.map_cons] at hc
    have := List.head_eq_of_cons_eq hc
    exact h this
  · intro hc
    simp only [List.take_succ_cons, List.map_cons] at hc
    have := List.head_eq_of_cons_eq hc
    exact h this

theorem infScan_suffix (s : List Char) (v : Rat) (rest : List Char) (h : infScan s = some (v, rest)) :
    rest <:+ s ∧ rest.length < s.length := by
  unfold infScan at h
  cases hw : infWord (numStart s) with
  | none => rw [hw] at h; cases h
  | some r =>
    rw [hw] at h
    cases h
    obtain ⟨a, b⟩ := infWord_suffix _ _ hw
    have hn := numStart_suffix s
    exact ⟨a.trans hn, by have := hn.length_le; omega⟩

theorem cdouble_suffix (s : List Char) (v : Rat) (rest : List Char) (h : cdouble s = .ok v rest) :
    rest <:+ s ∧ rest.length < s.length := by
  unfold cdouble at h
  split at h
  · cases h
  · cases hi : infScan s with
    | some p =>
      obtain ⟨v', r'⟩ := p
      rw [hi] at h
      cases h
      exact infScan_suffix s v rest hi
    | none =>
      rw [hi] at h
      simp only [] at h
      unfold scanDouble at h
      by_cases hk : scanOk s = true
      · rw [if_pos hk] at h
        cases h
        exact ⟨scanRest_suffix s, scanRest_length s hk⟩
      · rw [if_neg hk] at h
        simp only [] at h
        split at h <;> cases h

theorem uintRest_suffix (s : List Char) : uintRest s <:+ s := by
  unfold uintRest
  split <;> exact (spanP_suffix _ _).trans (numStart_suffix s)

theorem cuint32_suffix (s : List Char) (v : Nat) (rest : List Char) (h : cuint32 s = .ok v rest) :
    rest <:+ s := by
  unfold cuint32 at h
  by_cases h1 : s.isEmpty = true
  · rw [if_pos h1] at h; cases h
  · rw [if_neg h1] at h
    by_cases h2 : (uintDigits s).isEmpty = true
    · rw [if_pos h2] at h; split at h <;> cases h
    · rw [if_neg h2] at h
      split at h
      · cases h
      · cases h; exact uintRest_suffix s

theorem nextvis_suffix (s : List Char) (c : Char) (t : List Char) (h : nextvis s = .ok (c, t)) :
    t <:+ s ∧ t.head? = some c := by
  unfold nextvis at h
  split at h
  · cases h
  · rename_i c0 t0
    split at h
    · cases h; exact ⟨List.suffix_refl _, rfl⟩
    · split at h
      · cases h
      · rename_i c2 t2
        split at h
        · cases h
        · cases h; exact ⟨List.suffix_cons _ _, rfl⟩

theorem nextPos_suffix (s : List Char) : nextPos s <:+ s := by
  unfold nextPos
  split
  · rename_i c t h; exact (nextvis_suffix s c t h).1
  · exact List.suffix_refl _

/-- `nextvis` finds `ch` only if it occurs in the text -/
theorem nextIs_mem (s : List Char) (ch : Char) (h : nextIs s ch = true) : ch ∈ s := by
  unfold nextIs at h
  split at h
  · rename_i c t hv
    obtain ⟨hs, hh⟩ := nextvis_suffix s c t hv
    have hc : c = ch := by simpa using h
    subst hc
    cases t with
    | nil => simp at hh
    | cons a as =>
      simp at hh; subst hh
      exact hs.subset (List.mem_cons_self)
  · cases h


/-! ### value lists -/

/-- numbers of a value-list text from `s` on; the flag tells whether the scan ended regularly (end of text
    or white space only) rather than at a non-number -/
def parseL : Nat → List Char → List Rat × Bool
  | 0, _ => ([], true)
  | fuel + 1, s =>
    if s.isEmpty then ([], true)
    else match cdouble s with
      | .ok v rest => ((parseL fuel rest).1.cons v, (parseL fuel rest).2)
      | .zero => ([], true)
      | .err _ => ([], false)

def nums (s : List Char) : List Rat := (parseL (s.length + 1) s).1
def numsOk (s : List Char) : Bool := (parseL (s.length + 1) s).2

theorem parseL_fuel2 (f1 f2 : Nat) (s : List Char) (h1 : s.length < f1) (h2 : s.length < f2) :
    parseL f1 s = parseL f2 s := by
  induction f1 generalizing f2 s with
  | zero => omega
  | succ n ih =>
    cases f2 with
    | zero => omega
    | succ m =>
      unfold parseL
      split
      · rfl
      · split
        · rename_i v rest hc
          have hl := (cdouble_suffix s v rest hc).2
          rw [ih m rest (by omega) (by omega)]
        · rfl
        · rfl

theorem parseL_fuel (fuel : Nat) (s : List Char) (h : s.length < fuel) :
    parseL fuel s = parseL (s.length + 1) s :=
  parseL_fuel2 fuel (s.length + 1) s h (by omega)

theorem nums_empty : nums [] = [] := by simp [nums, parseL]

theorem nums_step (s : List Char) (v : Rat) (rest : List Char) (h : cdouble s = .ok v rest) :
    nums s = v :: nums rest ∧ numsOk s = numsOk rest := by
  have hl := (cdouble_suffix s v rest h).2
  have hne : s.isEmpty = false := by
    cases s with
    | nil => simp at hl
    | cons a as => rfl
  unfold nums numsOk
  rw [parseL]
  simp only [hne, h]
  rw [parseL_fuel s.length rest hl]
  exact ⟨rfl, rfl⟩

theorem nums_zero (s : List Char) (h : cdouble s = .zero) : nums s = [] := by
  unfold nums
  rw [parseL]
  split
  · rfl
  · simp only [h]

/-! ### generators as cursors -/

/-- closed form of the factor generator: element `i` -/
def facNth (base fact init : Rat) (i : Nat) : Rat := if i = 0 then init else base * fact ^ (i - 1)
/-- closed form of the boundary generator -/
def bndNth (left inter right : Rat) (elem i : Nat) : Rat :=
  if i = 0 then left else if i < elem - 1 then inter else right

namespace Gen

/-- all elements the generator denotes -/
def all : Gen → List Rat
  | .linear base step elem _ => (List.range elem).map fun (i : Nat) => base + (i : Rat) * step
  | .factor base fact init elem _ _ => (List.range elem).map (facNth base fact init)
  | .boundary l i r elem _ => (List.range elem).map (bndNth l i r elem)
  | .poly grid coeff _ _ => grid.map (polyEval coeff)
  | .polyN coeff _ _ => (List.range 4294967295).map fun (i : Nat) => polyEval coeff (i : Rat)
  | .values text _ _ => nums text

/-- the elements still to come, the current one first -/
def rem : Gen → List Rat
  | g@(.linear _ _ _ pos) => g.all.drop pos
  | g@(.factor _ _ _ _ pos _) => g.all.drop pos
  | g@(.boundary _ _ _ _ pos) => g.all.drop pos
  | g@(.poly _ _ pos _) => g.all.drop pos
  | g@(.polyN _ pos _) => g.all.drop pos
  | .values _ none _ => []
  | .values _ (some s) curr => curr :: nums s

/-- representation invariant -/
def WF : Gen → Prop
  | .linear .. => True
  | .factor base fact init elem pos curr => pos < elem → curr = facNth base fact init pos
  | .boundary .. => True
  | .poly grid coeff pos cache => ∀ v, cache = some v → v = polyEval coeff (grid.getD pos 0)
  | .polyN coeff pos cache => ∀ v, cache = some v → v = polyEval coeff (pos : Rat)
  | .values text next _ =>
    (∃ v rest, cdouble text = .ok v rest) ∧ numsOk text = true ∧
    (∀ s, next = some s → numsOk s = true)

/-- the generator state seen as the abstract cursor -/
def abs (g : Gen) : Cur := { all := g.all, rem := g.rem }

end Gen

theorem head_drop_map (f : Nat → Rat) (n p : Nat) :
    (((List.range n).map f).drop p).head? = if p < n then some (f p) else none := by
  rw [List.head?_drop]
  simp only [List.getElem?_map]
  split <;> simp_all

theorem cur_advance_in (L : List Rat) (p : Nat) (h : p < L.length) :
    Cur.advance { all := L, rem := L.drop p } =
      ({ all := L, rem := L.drop (p + 1) }, if p + 1 = L.length then Adv.last else Adv.more) := by
  unfold Cur.advance
  rw [List.drop_eq_getElem_cons h]
  simp only []
  congr 1
  by_cases he : p + 1 = L.length
  · rw [if_pos he, if_pos]
    simp; omega
  · rw [if_neg he, if_neg]
    simp; omega

theorem cur_advance_out (L : List Rat) (p : Nat) (h : L.length ≤ p) :
    Cur.advance { all := L, rem := L.drop p } = ({ all := L, rem := L.drop p }, Adv.err) := by
  unfold Cur.advance
  rw [List.drop_eq_nil_of_le h]


theorem all_length_linear (base step : Rat) (elem pos : Nat) :
    (Gen.linear base step elem pos).all.length = elem := by simp [Gen.all]
theorem all_length_factor (b f i : Rat) (elem pos : Nat) (c : Rat) :
    (Gen.factor b f i elem pos c).all.length = elem := by simp [Gen.all]
theorem all_length_boundary (l i r : Rat) (elem pos : Nat) :
    (Gen.boundary l i r elem pos).all.length = elem := by simp [Gen.all]

/-- `value()` returns the current element of the cursor and does not move it -/
theorem value_sim (g : Gen) (h : g.WF) :
    g.value.2 = g.abs.value ∧ g.value.1.abs = g.abs ∧ g.value.1.WF := by
  cases g with
  | linear base step elem pos =>
    refine ⟨?_, rfl, trivial⟩
    simp only [Gen.value, Gen.abs, Cur.value, Gen.rem, Gen.all]
    rw [head_drop_map]
    by_cases hp : pos < elem
    · rw [if_neg (by omega), if_pos hp]
    · rw [if_pos (by omega), if_neg hp]
  | factor b f i elem pos curr =>
    refine ⟨?_, rfl, h⟩
    simp only [Gen.value, Gen.abs, Cur.value, Gen.rem, Gen.all]
    rw [head_drop_map]
    by_cases hp : pos < elem
    · rw [if_neg (by omega), if_pos hp, h hp]
    · rw [if_pos (by omega), if_neg hp]
  | boundary l i r elem pos =>
    refine ⟨?_, rfl, trivial⟩
    simp only [Gen.value, Gen.abs, Cur.value, Gen.rem, Gen.all]
    rw [head_drop_map]
    by_cases hp : pos < elem
    · rw [if_neg (by omega), if_pos hp]; rfl
    · rw [if_pos (by omega), if_neg hp]
  | poly grid coeff pos cache =>
    have hv : (Cur.value (Gen.abs (Gen.poly grid coeff pos cache)))
        = if pos < grid.length then some (polyEval coeff (grid.getD pos 0)) else none := by
      simp only [Gen.abs, Cur.value, Gen.rem, Gen.all]
      rw [List.head?_drop, List.getElem?_map]
      by_cases hp : pos < grid.length
      · rw [if_pos hp, List.getElem?_eq_getElem hp]
        simp [List.getD_eq_getElem?_getD, List.getElem?_eq_getElem hp]
      · rw [if_neg hp, List.getElem?_eq_none (by omega)]; rfl
    rw [hv]
    simp only [Gen.value]
    by_cases hp : pos < grid.length
    · rw [if_neg (by omega), if_pos hp]
      cases cache with
      | some v => exact ⟨by rw [h v rfl], rfl, h⟩
      | none =>
        refine ⟨rfl, rfl, ?_⟩
        intro v hv'; cases hv'; rfl
    · rw [if_pos (by omega), if_neg hp]
      exact ⟨rfl, rfl, h⟩
  | polyN coeff pos cache =>
    have hv : (Cur.value (Gen.abs (Gen.polyN coeff pos cache)))
        = if pos < 4294967295 then some (polyEval coeff (pos : Rat)) else none := by
      simp only [Gen.abs, Cur.value, Gen.rem, Gen.all]
      exact head_drop_map (fun (i : Nat) => polyEval coeff (i : Rat)) 4294967295 pos
    rw [hv]
    simp only [Gen.value]
    by_cases hp : pos < 4294967295
    · rw [if_neg (by omega), if_pos hp]
      cases cache with
      | some v => exact ⟨by rw [h v rfl], rfl, h⟩
      | none =>
        refine ⟨rfl, rfl, ?_⟩
        intro v hv'; cases hv'; rfl
    · rw [if_pos (by omega), if_neg hp]
      exact ⟨rfl, rfl, h⟩
  | values text next curr =>
    refine ⟨?_, rfl, h⟩
    cases next <;> simp [Gen.value, Gen.abs, Cur.value, Gen.rem]


theorem facNth_succ (b f i : Rat) (pos : Nat) (curr : Rat) (h : curr = facNth b f i pos) :
    (if pos = 0 then b else curr * f) = facNth b f i (pos + 1) := by
  unfold facNth at *
  by_cases hp : pos = 0
  · subst hp; simp
  · rw [if_neg hp] at h
    rw [if_neg hp, if_neg (by omega), h]
    rw [show pos + 1 - 1 = (pos - 1) + 1 by omega, Rat.pow_succ, Rat.mul_assoc]

/-- `advance()` moves the cursor by one element and reports `more / last / error` as the cursor does -/
theorem advance_sim (g : Gen) (h : g.WF) :
    g.advance.1.abs = g.abs.advance.1 ∧ advClass g.advance.2 = g.abs.advance.2 ∧ g.advance.1.WF := by
  cases g with
  | linear base step elem pos =>
    have hl := all_length_linear base step elem pos
    simp only [Gen.advance, Gen.abs, Gen.rem]
    by_cases hp : pos < elem
    · rw [if_neg (by omega)]
      have := cur_advance_in (Gen.linear base step elem pos).all pos (by omega)
      rw [this, hl]
      refine ⟨rfl, ?_, trivial⟩
      simp only []; split <;> rfl
    · rw [if_pos (by omega)]
      have := cur_advance_out (Gen.linear base step elem pos).all pos (by omega)
      rw [this]
      exact ⟨rfl, rfl, trivial⟩
  | factor b f i elem pos curr =>
    have hl := all_length_factor b f i elem pos curr
    simp only [Gen.advance, Gen.abs, Gen.rem]
    by_cases hp : pos < elem
    · rw [if_neg (by omega)]
      have := cur_advance_in (Gen.factor b f i elem pos curr).all pos (by omega)
      rw [this, hl]
      refine ⟨rfl, ?_, ?_⟩
      · simp only []; split <;> rfl
      · intro _; exact facNth_succ b f i pos curr (h hp)
    · rw [if_pos (by omega)]
      have := cur_advance_out (Gen.factor b f i elem pos curr).all pos (by omega)
      rw [this]
      exact ⟨rfl, rfl, h⟩
  | boundary l i r elem pos =>
    have hl := all_length_boundary l i r elem pos
    simp only [Gen.advance, Gen.abs, Gen.rem]
    by_cases hp : pos < elem
    · rw [if_neg (by omega)]
      have := cur_advance_in (Gen.boundary l i r elem pos).all pos (by omega)
      rw [this, hl]
      refine ⟨rfl, ?_, trivial⟩
      simp only []; split <;> rfl
    · rw [if_pos (by omega)]
      have := cur_advance_out (Gen.boundary l i r elem pos).all pos (by omega)
      rw [this]
      exact ⟨rfl, rfl, trivial⟩
  | poly grid coeff pos cache =>
    have hl : (Gen.poly grid coeff pos cache).all.length = grid.length := by simp [Gen.all]
    simp only [Gen.advance, Gen.abs, Gen.rem]
    by_cases hp : pos < grid.length
    · rw [if_neg (by omega)]
      have := cur_advance_in (Gen.poly grid coeff pos cache).all pos (by omega)
      rw [this, hl]
      refine ⟨rfl, ?_, ?_⟩
      · simp only []; split <;> rfl
      · intro v hv; cases hv
    · rw [if_pos (by omega)]
      have := cur_advance_out (Gen.poly grid coeff pos cache).all pos (by omega)
      rw [this]
      exact ⟨rfl, rfl, h⟩
  | polyN coeff pos cache =>
    have hl : (Gen.polyN coeff pos cache).all.length = 4294967295 := by simp [Gen.all]
    simp only [Gen.advance, Gen.abs, Gen.rem]
    by_cases hp : pos < 4294967295
    · rw [if_neg (by omega)]
      have := cur_advance_in (Gen.polyN coeff pos cache).all pos (by omega)
      rw [this, hl]
      refine ⟨rfl, ?_, ?_⟩
      · simp only []; split <;> rfl
      · intro v hv; cases hv
    · rw [if_pos (by omega)]
      have := cur_advance_out (Gen.polyN coeff pos cache).all pos (by omega)
      rw [this]
      exact ⟨rfl, rfl, h⟩
  | values text next curr =>
    obtain ⟨h1, h2, h3⟩ := h
    cases next with
    | none => exact ⟨rfl, rfl, h1, h2, h3⟩
    | some s =>
      have hok := h3 s rfl
      simp only [Gen.advance, Gen.abs, Gen.rem, Gen.all, Cur.advance]
      by_cases he : s.isEmpty = true
      · rw [if_pos he]
        have : s = [] := by simpa using he
        subst this
        rw [nums_empty]
        exact ⟨rfl, rfl, h1, h2, by intro s hs; cases hs⟩
      · rw [if_neg he]
        cases hc : cdouble s with
        | zero =>
          simp only []
          rw [nums_zero s hc]
          exact ⟨rfl, rfl, h1, h2, by intro s hs; cases hs⟩
        | err e =>
          -- excluded by the invariant: the scan from `s` ends regularly
          exfalso
          unfold numsOk at hok
          rw [parseL] at hok
          simp only [he, hc] at hok
          cases hok
        | ok v rest =>
          obtain ⟨hn, hk⟩ := nums_step s v rest hc
          simp only []
          rw [hn]
          refine ⟨rfl, ?_, h1, h2, ?_⟩
          · simp only [advClass]
            cases nums rest <;> rfl
          · intro s' hs'; cases hs'; rw [← hk]; exact hok

/-- `reset()` returns the cursor to the first element; its return value is not negative -/
theorem reset_sim (g : Gen) (h : g.WF) :
    g.reset.1.abs = g.abs.reset ∧ 0 ≤ g.reset.2 ∧ g.reset.1.WF := by
  cases g with
  | linear base step elem pos =>
    refine ⟨?_, by simp only [Gen.reset]; omega, trivial⟩
    simp [Gen.reset, Gen.abs, Gen.rem, Gen.all, Cur.reset]
  | factor b f i elem pos curr =>
    refine ⟨?_, by simp only [Gen.reset]; omega, ?_⟩
    · simp [Gen.reset, Gen.abs, Gen.rem, Gen.all, Cur.reset]
    · intro _; simp [facNth]
  | boundary l i r elem pos =>
    refine ⟨?_, by simp only [Gen.reset]; omega, trivial⟩
    simp [Gen.reset, Gen.abs, Gen.rem, Gen.all, Cur.reset]
  | poly grid coeff pos cache =>
    refine ⟨?_, by simp only [Gen.reset]; omega, ?_⟩
    · simp [Gen.reset, Gen.abs, Gen.rem, Gen.all, Cur.reset]
    · intro v hv; cases hv
  | polyN coeff pos cache =>
    refine ⟨?_, by simp only [Gen.reset]; omega, ?_⟩
    · simp [Gen.reset, Gen.abs, Gen.rem, Gen.all, Cur.reset]
    · intro v hv; cases hv
  | values text next curr =>
    obtain ⟨⟨v, rest, hc⟩, h2, h3⟩ := h
    obtain ⟨hn, hk⟩ := nums_step text v rest hc
    simp only [Gen.reset, hc, Gen.abs, Gen.rem, Gen.all, Cur.reset]
    refine ⟨by rw [hn], by decide, ⟨v, rest, hc⟩, h2, ?_⟩
    intro s hs; cases hs; rw [← hk]; exact h2

/-- a clone is an equal state (the polynomial generator has none) -/
theorem clone_eq (g g' : Gen) (h : g.clone = some g') : g' = g := by
  cases g with
  | linear _ _ _ _ => simp [Gen.clone] at h; exact h.symm
  | factor _ _ _ _ _ _ => simp [Gen.clone] at h; exact h.symm
  | poly _ _ _ _ => simp [Gen.clone] at h
  | polyN _ _ _ => simp [Gen.clone] at h
  | boundary l i r elem pos =>
    simp only [Gen.clone, mkBoundary] at h
    by_cases he : elem < 2
    · rw [if_pos he] at h; cases h
    · rw [if_neg he] at h; cases h; rfl
  | values text next curr =>
    simp only [Gen.clone, mkValues] at h
    cases hc : cdouble text with
    | ok v rest => rw [hc] at h; cases h; rfl
    | zero => rw [hc] at h; cases h
    | err e => rw [hc] at h; cases h

/-- a generator made by its public creator can be cloned -/
theorem clone_some_boundary (l i r : Rat) (elem pos : Nat) (h : 2 ≤ elem) :
    (Gen.boundary l i r elem pos).clone = some (.boundary l i r elem pos) := by
  simp only [Gen.clone, mkBoundary]
  rw [if_neg (by omega)]

/-! ### malformed descriptions -/

theorem parseRange_suffix (s : List Char) (d1 d2 a b : Rat) (t : List Char)
    (h : parseRange s d1 d2 = some (a, b, t)) : t <:+ s := by
  unfold parseRange at h
  cases h1 : cdouble s with
  | err e => rw [h1] at h; cases h
  | zero =>
    rw [h1] at h
    simp only [] at h
    cases h; exact List.suffix_refl _
  | ok v1 r1 =>
    rw [h1] at h
    simp only [] at h
    have s1 := (cdouble_suffix s v1 r1 h1).1
    cases h2 : cdouble r1 with
    | err e => rw [h2] at h; cases h
    | zero => rw [h2] at h; cases h; exact s1
    | ok v2 r2 =>
      rw [h2] at h; cases h
      exact ((cdouble_suffix r1 _ _ h2).1).trans s1

theorem linRange_suffix (s : List Char) (a b : Rat) (t : List Char) (h : linRange s = some (a, b, t)) : t <:+ s := by
  unfold linRange at h
  split at h
  · exact (parseRange_suffix _ _ _ _ _ _ h).trans ((tail_suffix _).trans (nextPos_suffix s))
  · cases h; exact List.suffix_refl _

theorem rangeStep_suffix (s : List Char) (d v : Rat) (t : List Char) (h : rangeStep s d = some (v, t)) : t <:+ s := by
  unfold rangeStep at h
  split at h
  · cases hc : cdouble (nextPos s).tail with
    | err e => rw [hc] at h; cases h
    | zero => rw [hc] at h; cases h; exact (tail_suffix _).trans (nextPos_suffix s)
    | ok x r =>
      rw [hc] at h; cases h
      exact ((cdouble_suffix _ _ _ hc).1).trans ((tail_suffix _).trans (nextPos_suffix s))
  · cases h; exact List.suffix_refl _

theorem optNumber_suffix (s : List Char) (d v : Rat) (t : List Char) (h : optNumber s d = some (v, t)) : t <:+ s := by
  unfold optNumber at h
  cases hc : cdouble (nextPos s).tail with
  | err e => rw [hc] at h; cases h
  | zero => rw [hc] at h; cases h; exact (tail_suffix _).trans (nextPos_suffix s)
  | ok x r =>
    rw [hc] at h; cases h
    exact ((cdouble_suffix _ _ _ hc).1).trans ((tail_suffix _).trans (nextPos_suffix s))

theorem facCount_suffix (s : List Char) (n : Nat) (t : List Char) (h : facCount s = some (n, t)) : t <:+ s := by
  unfold facCount at h
  cases hc : cuint32 s with
  | err e => rw [hc] at h; cases h
  | zero => rw [hc] at h; cases h; exact List.suffix_refl _
  | ok x r =>
    rw [hc] at h
    simp only [] at h
    split at h
    · cases h
    · cases h; exact cuint32_suffix s _ _ hc

theorem facBase_suffix (s : List Char) (v : Rat) (t : List Char) (h : facBase s = some (v, t)) : t <:+ s := by
  unfold facBase at h
  split at h
  · exact optNumber_suffix s 10 v t h
  · cases h; exact List.suffix_refl _

theorem facFact_suffix (base : Rat) (p : List Char) (v : Rat) (t : List Char)
    (h : facFact base p = some (v, t)) : t <:+ p := by
  unfold facFact at h
  split at h
  · split at h
    · cases h
    · cases h; exact tail_suffix p
  · cases hc : cdouble p.tail with
    | err e => rw [hc] at h; cases h
    | zero =>
      rw [hc] at h
      simp only [] at h
      split at h
      · cases h
      · cases h; exact tail_suffix p
    | ok x r =>
      rw [hc] at h
      simp only [] at h
      split at h
      · cases h
      · cases h; exact ((cdouble_suffix _ _ _ hc).1).trans (tail_suffix p)

theorem facTail_suffix (base : Rat) (s : List Char) (f i : Rat) (t : List Char)
    (h : facTail base s = some (f, i, t)) : t <:+ s := by
  unfold facTail at h
  split at h
  · cases hf : facFact base (nextPos s) with
    | none => rw [hf] at h; cases h
    | some r =>
      obtain ⟨fact, s3⟩ := r
      rw [hf] at h
      simp only [] at h
      have h3 := (facFact_suffix base _ fact s3 hf).trans (nextPos_suffix s)
      split at h
      · cases ho : optNumber s3 0 with
        | none => rw [ho] at h; cases h
        | some q =>
          obtain ⟨init, s4⟩ := q
          rw [ho] at h; cases h
          exact (optNumber_suffix s3 0 _ _ ho).trans h3
      · cases h; exact h3
  · split at h
    · cases h
    · cases h; exact List.suffix_refl _

/-- what `nextvis` returns occurs in the text -/
theorem nextvis_mem (s : List Char) (c : Char) (t : List Char) (h : nextvis s = .ok (c, t)) : c ∈ s := by
  obtain ⟨hs, hh⟩ := nextvis_suffix s c t h
  cases t with
  | nil => simp at hh
  | cons a as =>
    simp at hh; subst hh
    exact hs.subset List.mem_cons_self

/-- a linear description is accepted only with both parentheses present -/
theorem closeOk_nextIs (s : List Char) (h : closeOk s = true) : nextIs s ')' = true := by
  unfold closeOk at h
  simp only [Bool.and_eq_true] at h
  exact h.1

theorem closeOk_suffix (s : List Char) (h : closeOk s = true) :
    ∃ tl, (')' :: tl) <:+ s ∧ tl.all isSpace = true := by
  unfold closeOk nextIs nextPos at h
  cases hv : nextvis s with
  | error e => rw [hv] at h; simp at h
  | ok r =>
    obtain ⟨c, t⟩ := r
    rw [hv] at h
    simp only [Bool.and_eq_true, decide_eq_true_eq] at h
    obtain ⟨hc, ht⟩ := h
    obtain ⟨hsuf, hhead⟩ := nextvis_suffix s c t hv
    subst hc
    cases t with
    | nil => simp at hhead
    | cons x xs =>
      simp at hhead; subst hhead
      exact ⟨xs, hsuf, ht⟩

theorem linArgs_parens (s : List Char) (g : Gen) (h : linArgs s = some g) :
    '(' ∈ s ∧ ')' ∈ s ∧ ∃ tl, (')' :: tl) <:+ s ∧ tl.all isSpace = true := by
  unfold linArgs at h
  cases hv : nextvis s with
  | error e => rw [hv] at h; cases h
  | ok r =>
    obtain ⟨c, s0⟩ := r
    rw [hv] at h
    simp only [] at h
    have hs0 := (nextvis_suffix s c s0 hv).1
    by_cases hc : c = '('
    · subst hc
      rw [if_neg (by simp)] at h
      refine ⟨nextvis_mem s _ _ hv, ?_⟩
      cases hu : cuint32 s0.tail with
      | zero => rw [hu] at h; cases h
      | err e => rw [hu] at h; cases h
      | ok iv s1 =>
        rw [hu] at h
        simp only [] at h
        have hs1 := (cuint32_suffix _ _ _ hu).trans ((tail_suffix _).trans hs0)
        cases hr : linRange s1 with
        | none => rw [hr] at h; cases h
        | some q =>
          obtain ⟨mn, mx, s2⟩ := q
          rw [hr] at h
          simp only [] at h
          have hs2 := (linRange_suffix s1 mn mx s2 hr).trans hs1
          by_cases hn : closeOk s2 = true
          · obtain ⟨tl, ta, tb⟩ := closeOk_suffix s2 hn
            exact ⟨hs2.subset (nextIs_mem s2 ')' (closeOk_nextIs s2 hn)), tl, ta.trans hs2, tb⟩
          · rw [if_pos (by simpa using hn)] at h; cases h
    · rw [if_pos hc] at h; cases h

theorem rangeArgs_parens (s : List Char) (g : Gen) (h : rangeArgs s = some g) :
    '(' ∈ s ∧ ')' ∈ s ∧ ∃ tl, (')' :: tl) <:+ s ∧ tl.all isSpace = true := by
  unfold rangeArgs at h
  cases hv : nextvis s with
  | error e => rw [hv] at h; cases h
  | ok r =>
    obtain ⟨c, s0⟩ := r
    rw [hv] at h
    simp only [] at h
    have hs0 := (nextvis_suffix s c s0 hv).1
    by_cases hc : c = '('
    · subst hc
      rw [if_neg (by simp)] at h
      refine ⟨nextvis_mem s _ _ hv, ?_⟩
      cases hr : parseRange s0.tail 0 1 with
      | none => rw [hr] at h; cases h
      | some q =>
        obtain ⟨mn, mx, s1⟩ := q
        rw [hr] at h
        simp only [] at h
        have hs1 := (parseRange_suffix _ _ _ _ _ _ hr).trans ((tail_suffix _).trans hs0)
        cases ht : rangeStep s1 ((mx - mn) / 10) with
        | none => rw [ht] at h; cases h
        | some q2 =>
          obtain ⟨step, s2⟩ := q2
          rw [ht] at h
          simp only [] at h
          have hs2 := (rangeStep_suffix s1 _ step s2 ht).trans hs1
          by_cases hn : closeOk s2 = true
          · obtain ⟨tl, ta, tb⟩ := closeOk_suffix s2 hn
            exact ⟨hs2.subset (nextIs_mem s2 ')' (closeOk_nextIs s2 hn)), tl, ta.trans hs2, tb⟩
          · rw [if_pos (by simpa using hn)] at h; cases h
    · rw [if_pos hc] at h; cases h

theorem facArgs_parens (s : List Char) (g : Gen) (h : facArgs s = some g) :
    '(' ∈ s ∧ ')' ∈ s ∧ ∃ tl, (')' :: tl) <:+ s ∧ tl.all isSpace = true := by
  unfold facArgs at h
  cases hv : nextvis s with
  | error e => rw [hv] at h; cases h
  | ok r =>
    obtain ⟨c, s0⟩ := r
    rw [hv] at h
    simp only [] at h
    have hs0 := (nextvis_suffix s c s0 hv).1
    by_cases hc : c = '('
    · subst hc
      rw [if_neg (by simp)] at h
      refine ⟨nextvis_mem s _ _ hv, ?_⟩
      cases h1 : facCount s0.tail with
      | none => rw [h1] at h; cases h
      | some q =>
        obtain ⟨iter, s1⟩ := q
        rw [h1] at h
        simp only [] at h
        have hs1 := (facCount_suffix _ _ _ h1).trans ((tail_suffix _).trans hs0)
        cases h2 : facBase s1 with
        | none => rw [h2] at h; cases h
        | some q2 =>
          obtain ⟨base, s2⟩ := q2
          rw [h2] at h
          simp only [] at h
          have hs2 := (facBase_suffix s1 base s2 h2).trans hs1
          cases h3 : facTail base s2 with
          | none => rw [h3] at h; cases h
          | some q3 =>
            obtain ⟨fact, init, s5⟩ := q3
            rw [h3] at h
            simp only [] at h
            have hs5 := (facTail_suffix base s2 fact init s5 h3).trans hs2
            by_cases hn : closeOk s5 = true
            · obtain ⟨tl, ta, tb⟩ := closeOk_suffix s5 hn
              exact ⟨hs5.subset (nextIs_mem s5 ')' (closeOk_nextIs s5 hn)), tl, ta.trans hs5, tb⟩
            · rw [if_pos (by simpa using hn)] at h; cases h
    · rw [if_pos hc] at h; cases h


theorem spanP_eq (p : Char → Bool) (l : List Char) : spanP p l = (l.takeWhile p, l.dropWhile p) := by
  induction l with
  | nil => simp [spanP]
  | cons c cs ih =>
    unfold spanP
    by_cases h : p c = true
    · simp [h, ih]
    · simp [h]

theorem dropSpace_blank (l : List Char) : dropSpace (l.dropWhile (fun c => c = ' ')) = dropSpace l := by
  induction l with
  | nil => rfl
  | cons c cs ih =>
    by_cases h : c = ' '
    · subst h
      rw [List.dropWhile_cons_of_pos (by simp), ih]
      simp [dropSpace, isSpace]
    · rw [List.dropWhile_cons_of_neg (by simpa using h)]

theorem dropSpace_id (c : Char) (cs : List Char) (h : isSpace c = false) : dropSpace (c :: cs) = c :: cs := by
  simp [dropSpace, h]

theorem isLetter_eq : IterSpec.isLetter = isAlpha := rfl
theorem isDig_eq : IterSpec.isDig = isDigit := rfl

theorem letter_not_space (c : Char) (h : isAlpha c = true) : isSpace c = false := by
  unfold isAlpha at h
  unfold isSpace
  simp only [Bool.or_eq_true, Bool.and_eq_true, decide_eq_true_eq] at h
  simp only [Bool.or_eq_false_iff, Bool.and_eq_false_iff, decide_eq_false_iff_not]
  omega

/-- a list that starts with something that cannot start a number is refused -/
theorem mkValues_refused (c : Char) (cs : List Char)
    (h1 : isSpace c = false) (h2 : isDigit c = false) (h3 : c ≠ '+') (h4 : c ≠ '-') (h5 : c ≠ '.')
    (h6 : lower c ≠ 'i') :
    mkValues (c :: cs) = none := by
  have hd : dropSpace (c :: cs) = c :: cs := dropSpace_id c cs h1
  have hn : numStart (c :: cs) = c :: cs := by
    unfold numStart signRest
    rw [hd]
    simp [h3, h4]
  have hk : scanOk (c :: cs) = false := by
    unfold scanOk
    rw [hn, spanP_eq]
    simp [List.takeWhile, List.dropWhile, h2, fracDigits, h5]
  have hi : infScan (c :: cs) = none := by
    unfold infScan
    rw [hn, infWord_none c cs h6]
  unfold mkValues cdouble scanDouble
  simp [hk, h1, hi]

/-- the keyword test of `mpt_iterator_create` in terms of the spec's keyword table -/
theorem keyword_none (name : List Char) (h : IterSpec.keywordKind name = none) :
    let n := lowerAll name
    ¬ (n = "linear".toList ∨ n = "lin".toList) ∧ ¬ (n = "factor".toList ∨ n = "fact".toList ∨ n = "fac".toList)
      ∧ ¬ (n = "range".toList) := by
  have hl : lowerAll name = name.map IterSpec.toLower := rfl
  simp only []
  rw [hl]
  unfold IterSpec.keywordKind at h
  simp only [] at h
  generalize name.map IterSpec.toLower = n at h
  have key : ∀ (w : String), n = w.toList → String.ofList n = w := by
    intro w hw; rw [hw]; simp
  refine ⟨?_, ?_, ?_⟩
  · intro hc
    rcases hc with hc | hc
    · rw [if_pos (Or.inr (key _ hc))] at h; cases h
    · rw [if_pos (Or.inl (key _ hc))] at h; cases h
  · intro hc
    split at h; · cases h
    split at h; · cases h
    rename_i hx
    rcases hc with hc | hc | hc
    · rw [if_pos (Or.inr (Or.inr (key _ hc)))] at h; cases h
    · rw [if_pos (Or.inr (Or.inl (key _ hc)))] at h; cases h
    · rw [if_pos (Or.inl (key _ hc))] at h; cases h
  · intro hc
    split at h; · cases h
    rw [if_pos (key _ hc)] at h; cases h

/-- **the spec's "certainly malformed" texts are refused by the model of `mpt_iterator_create`** -/
theorem create_refuses_malformed (s : List Char) (h : IterSpec.certainlyMalformed s = true) : create s = none := by
  unfold IterSpec.certainlyMalformed at h
  simp only [] at h
  generalize ht : s.dropWhile (fun c => c = ' ') = t at h
  have hds : dropSpace s = dropSpace t := by rw [← ht, dropSpace_blank]
  cases t with
  | nil => simp at h
  | cons c cs =>
    have hc' : c ≠ ' ' := by
      intro hc
      have h2 := List.head_dropWhile_not (fun c => decide (c = ' ')) (l := s) (by rw [ht]; simp)
      simp only [ht, List.head_cons] at h2
      simp [hc] at h2
    simp only [List.isEmpty_cons, Bool.false_eq_true, ↓reduceIte] at h
    rw [isLetter_eq] at h
    by_cases hal : isAlpha c = true
    · -- a keyword
      have hsp := letter_not_space c hal
      have hname : (List.takeWhile isAlpha (c :: cs)).isEmpty = false := by
        simp [List.takeWhile, hal]
      rw [hname] at h
      simp only [Bool.false_eq_true, ↓reduceIte, Bool.or_eq_true, Bool.not_eq_true', Option.isNone_iff_eq_none] at h
      unfold create
      simp only []
      rw [hds, dropSpace_id c cs hsp, spanP_eq]
      simp only [List.isEmpty_cons, Bool.false_eq_true, ↓reduceIte]
      split
      · rfl
      · try simp only [hname, Bool.false_eq_true, ↓reduceIte]
        rcases h with (hk | ho) | hcl
        · obtain ⟨k1, k2, k3⟩ := keyword_none _ hk
          rw [if_neg k1, if_neg k2, if_neg k3]
        · -- no opening parenthesis
          have hno : '(' ∉ List.dropWhile isAlpha (c :: cs) := by
            intro hm
            have : (List.dropWhile isAlpha (c :: cs)).any (fun c => decide (c = '(')) = true :=
              List.any_eq_true.2 ⟨_, hm, by simp⟩
            rw [this] at ho; cases ho
          split
          · cases hr : linArgs (List.dropWhile isAlpha (c :: cs)) with
            | none => rfl
            | some g => exact absurd (linArgs_parens _ g hr).1 hno
          · split
            · cases hr : facArgs (List.dropWhile isAlpha (c :: cs)) with
              | none => rfl
              | some g => exact absurd (facArgs_parens _ g hr).1 hno
            · split
              · cases hr : rangeArgs (List.dropWhile isAlpha (c :: cs)) with
                | none => rfl
                | some g => exact absurd (rangeArgs_parens _ g hr).1 hno
              · rfl
        · have hno : ')' ∉ List.dropWhile isAlpha (c :: cs) := by
            intro hm
            have : (List.dropWhile isAlpha (c :: cs)).any (fun c => decide (c = ')')) = true :=
              List.any_eq_true.2 ⟨_, hm, by simp⟩
            rw [this] at hcl; cases hcl
          split
          · cases hr : linArgs (List.dropWhile isAlpha (c :: cs)) with
            | none => rfl
            | some g => exact absurd (linArgs_parens _ g hr).2.1 hno
          · split
            · cases hr : facArgs (List.dropWhile isAlpha (c :: cs)) with
              | none => rfl
              | some g => exact absurd (facArgs_parens _ g hr).2.1 hno
            · split
              · cases hr : rangeArgs (List.dropWhile isAlpha (c :: cs)) with
                | none => rfl
                | some g => exact absurd (rangeArgs_parens _ g hr).2.1 hno
              · rfl
    · -- no keyword: the text must start like a number
      have hal' : isAlpha c = false := by simpa using hal
      have hname : (List.takeWhile isAlpha (c :: cs)).isEmpty = true := by
        simp [List.takeWhile, hal']
      rw [hname] at h
      simp only [↓reduceIte, List.head?_cons, Bool.not_eq_true', Bool.or_eq_false_iff, decide_eq_false_iff_not,
        Bool.and_eq_false_iff] at h
      rw [isDig_eq] at h
      obtain ⟨⟨⟨⟨⟨hdg, hplus⟩, hminus⟩, hdot⟩, htab⟩, hctl⟩ := h
      have hsp : isSpace c = false := by
        unfold isSpace
        have : c.toNat ≠ 32 := by
          intro hc
          apply hc'
          apply Char.ext
          apply UInt32.toNat_inj.1
          exact hc
        simp only [Bool.or_eq_false_iff, Bool.and_eq_false_iff, decide_eq_false_iff_not]
        refine ⟨this, ?_⟩
        omega
      unfold create
      simp only []
      rw [hds, dropSpace_id c cs hsp, spanP_eq]
      simp only [List.isEmpty_cons, Bool.false_eq_true, ↓reduceIte]
      split
      · rfl
      · try simp only [hname, ↓reduceIte]
        exact mkValues_refused c cs hsp hdg hplus hminus hdot (by
          intro hc
          have : isAlpha c = true := by
            unfold lower at hc
            unfold isAlpha
            split at hc
            · rename_i hu
              simp only [Bool.or_eq_true, Bool.and_eq_true, decide_eq_true_eq]
              left; exact hu
            · subst hc; decide
          rw [this] at hal'; cases hal')

end Mpt.Iter
