/-
  C17: mpt_message_argv / mpt_array_message on a fragment list = the contiguous computation.
-/
import MptModel.Lemmas.Message
namespace Mpt
open Mpt.Flat

theorem skipEmpty_base_nil (b : Frag) (c : List Frag) (h : (Msg.skipEmpty b c).base = []) :
    (Msg.skipEmpty b c).cont = [] := by
  induction c generalizing b with
  | nil => cases b <;> simp_all [Msg.skipEmpty]
  | cons f fs ih =>
    cases b with
    | nil => simp only [Msg.skipEmpty] at h ⊢; exact ih f h
    | cons x xs => simp [Msg.skipEmpty] at h

theorem findIdx?_lt {p : Byte → Bool} {l : List Byte} {i : Nat} (h : l.findIdx? p = some i) : i < l.length := by
  rw [List.findIdx?_eq_some_iff_getElem] at h
  exact h.1

theorem memfcn_single (curr : Frag) (p : Byte → Bool) : Iov.memfcn [curr] p = curr.findIdx? p := by
  rw [memfcn_eq]; simp [Flat.find]

theorem nextChar_eq (curr : Frag) (cont : List Frag) (c : Byte) :
    Msg.nextChar curr cont c = Flat.nextChar (curr ++ cont.flatten) c := by
  unfold Msg.nextChar Flat.nextChar Flat.find
  have h1 : Iov.memchr [curr] c = curr.findIdx? (· == c) := memfcn_single curr _
  have h2 : Iov.memchr cont c = cont.flatten.findIdx? (· == c) := memfcn_eq cont _
  rw [h1, List.findIdx?_append]
  cases hc : curr.findIdx? (· == c) with
  | some p => simp
  | none =>
    have h3 : (if cont.length ≠ 0 then Iov.memchr cont c else none) = cont.flatten.findIdx? (· == c) := by
      split
      · exact h2
      · rename_i h
        have : cont = [] := List.eq_nil_of_length_eq_zero (by omega)
        simp [this]
    rw [h3]
    cases hd : cont.flatten.findIdx? (· == c) with
    | some p => simp; omega
    | none => simp [foldl_len]

theorem locate_eq (cont : List Frag) (part : Nat) (h : part < cont.flatten.length) :
    ∃ m', Msg.locate cont part = some m' ∧ m'.flat = cont.flatten.drop part := by
  induction cont generalizing part with
  | nil => simp at h
  | cons f fs ih =>
    unfold Msg.locate
    split
    · rename_i hge
      have hl : (f :: fs).flatten.length = f.length + fs.flatten.length := by simp
      have : part - f.length < fs.flatten.length := by omega
      obtain ⟨m', h1, h2⟩ := ih _ this
      refine ⟨m', h1, ?_⟩
      rw [h2]; simp [List.drop_append, List.drop_of_length_le hge]
    · rename_i hlt
      refine ⟨_, rfl, ?_⟩
      simp [Msg.flat, List.drop_append]
      have : part - f.length = 0 := by omega
      simp [this]

theorem trim_eq (m : Msg) : ∃ m1, m.trim = .ok m1 ∧ m1.flat = trimFlat m.flat := by
  unfold Msg.trim trimFlat Flat.find Msg.flat
  rw [memfcn_single, memfcn_eq, List.findIdx?_append]
  cases hb : m.base.findIdx? notSpace with
  | some part =>
    have := findIdx?_lt hb
    refine ⟨_, rfl, ?_⟩
    simp [Msg.flat, List.drop_append]
    have : part - m.base.length = 0 := by omega
    simp [this]
  | none =>
    simp only [Option.none_or, Flat.find]
    cases hc : m.cont.flatten.findIdx? notSpace with
    | some part =>
      obtain ⟨m', h1, h2⟩ := locate_eq m.cont part (findIdx?_lt hc)
      refine ⟨m', by simp [h1], ?_⟩
      simp only [Msg.flat] at h2
      simp [h2, List.drop_append, List.drop_of_length_le]
    | none => exact ⟨m, rfl, by simp [Msg.flat]⟩

theorem spaceEnd_eq (m1 : Msg) : m1.spaceEnd = Flat.tok m1.flat wsTok := by
  unfold Msg.spaceEnd
  rw [nextSpace_eq]; rfl

/-- what `C17.argv_flat` states -/
def argvAgrees (m : Msg) (sep : Byte) : Prop :=
  match Flat.argv m.flat sep with
  | none => (m.argv sep).2 = .err .MissingData ∧ (m.argv sep).1.flat = m.flat
  | some (n, d') => (m.argv sep).2 = .ok n ∧ (m.argv sep).1.flat = d'

theorem argv_eq (m : Msg) (sep : Byte) : argvAgrees m sep := by
  unfold argvAgrees Msg.argv Flat.argv
  have hflat : (Msg.skipEmpty m.base m.cont).flat = m.flat := by rw [skipEmpty_flat]; rfl
  have hnil := skipEmpty_base_nil m.base m.cont
  generalize Msg.skipEmpty m.base m.cont = m0 at hflat hnil ⊢
  simp only []
  by_cases hb : m0.base.length = 0
  · have hb' : m0.base = [] := List.eq_nil_of_length_eq_zero hb
    have : m.flat = [] := by rw [← hflat]; simp [Msg.flat, hb', hnil hb']
    simp [hb, this, hflat]
  · have hne : m.flat.isEmpty = false := by
      rw [← hflat]
      cases hq : m0.base with
      | nil => simp [hq] at hb
      | cons x xs => simp [Msg.flat, hq]
    simp only [hb, hne, if_false, Bool.false_eq_true]
    by_cases hs : (sep == 0) = true
    · simp only [hs, if_true]
      exact ⟨by rw [nextChar_eq, ← hflat]; rfl, hflat⟩
    · simp only [hs, if_false, Bool.false_eq_true]
      obtain ⟨m1, ht, hf1⟩ := trim_eq m0
      rw [hflat] at hf1
      simp only [ht, ← hf1]
      by_cases hg : (!isGraph sep) = true
      · simp only [hg, if_true]
        have hsp : m1.spaceEnd = Flat.tok m1.flat wsTok := spaceEnd_eq m1
        rw [hsp]
        cases Flat.tok m1.flat wsTok with
        | some p => simp
        | none => simp [nextChar_eq, Msg.flat]
      · simp only [hg, if_false, Bool.false_eq_true]
        simp [nextChar_eq, Msg.flat]

/- ---------------------------------------------------------------- mpt_array_message -/

theorem read_eq (m : Msg) (n : Nat) :
    (m.read n).out = m.flat.take n ∧ (m.read n).msg.flat = m.flat.drop n := by
  have h := readLoop_eq m.base m.cont n 0 []
  exact ⟨by simpa [Msg.read, Msg.flat] using h.1, h.2.1⟩

theorem argsLoop_eq (sep : Byte) (fuel : Nat) (m : Msg) (acc : List Byte) (n : Nat) :
    Msg.argsLoop sep fuel m acc n = match Flat.argsLoop sep fuel m.flat acc n with
      | some r => .ok r
      | none => .fault := by
  induction fuel generalizing m acc n with
  | zero => simp [Msg.argsLoop, Flat.argsLoop]
  | succ fuel ih =>
    have hav := argv_eq m sep
    unfold argvAgrees at hav
    unfold Msg.argsLoop Flat.argsLoop
    cases hm : m.argv sep with
    | mk m1 res =>
    rw [hm] at hav
    cases hf : Flat.argv m.flat sep with
    | none =>
      rw [hf] at hav
      simp only [] at hav
      simp [hav.1]
    | some pr =>
      obtain ⟨len, d'⟩ := pr
      rw [hf] at hav
      simp only [] at hav
      obtain ⟨hres, hfl⟩ := hav
      subst hres
      simp only []
      by_cases hz : len = 0 ∧ sep ≠ 0
      · simp [hz]
      · simp only [hz, if_false]
        have hr1 : (if len = 0 then (⟨m1, 0, []⟩ : Msg.ReadRes) else m1.read len).out = d'.take len ∧
            (if len = 0 then (⟨m1, 0, []⟩ : Msg.ReadRes) else m1.read len).msg.flat = d'.drop len := by
          split
          · rename_i h0; subst h0; simp [hfl]
          · rw [← hfl]; exact read_eq m1 len
        have hr2 := (read_eq (if len = 0 then (⟨m1, 0, []⟩ : Msg.ReadRes) else m1.read len).msg 1).2
        rw [hr1.2, List.drop_drop] at hr2
        have := ih ((if len = 0 then (⟨m1, 0, []⟩ : Msg.ReadRes) else m1.read len).msg.read 1).msg (acc ++ (if len = 0 then (⟨m1, 0, []⟩ : Msg.ReadRes) else m1.read len).out ++
            List.replicate (len - (if len = 0 then (⟨m1, 0, []⟩ : Msg.ReadRes) else m1.read len).out.length) 0 ++ [0]) (n + 1)
        rw [this, hr2, hr1.1]

theorem arrayMessage_eq (m : Msg) (sep : Byte) :
    m.arrayMessage sep = match Flat.args m.flat sep with
      | some r => .ok r
      | none => .fault := by
  have hl : m.length = m.flat.length := by simp [Msg.length, Msg.flat, foldl_len]
  unfold Msg.arrayMessage Flat.args
  rw [hl]
  split
  · rfl
  · simp only [Bool.not_true, Bool.false_eq_true, if_false]
    exact argsLoop_eq sep _ m [] 0

/- ---------------------------------------------------------------- mpt_dispatch_hash, mpt_stream_append -/

theorem scan_found_lt {σ : Type} (step : σ → Byte → Option σ) (st : σ) (l : List Byte) (i : Nat)
    (h : Flat.scan step st l = .found i) : i < l.length := by
  induction l generalizing st i with
  | nil => simp [Flat.scan] at h
  | cons c cs ih =>
    simp only [Flat.scan] at h
    cases hst : step st c with
    | none => rw [hst] at h; simp only [] at h; cases h; simp
    | some s' =>
      rw [hst] at h
      simp only [] at h
      cases hr : Flat.scan step s' cs with
      | found j => rw [hr] at h; simp only [] at h; cases h; have := ih s' j hr; simp; omega
      | more t => rw [hr] at h; simp only [] at h; cases h

theorem argv_le (d : List Byte) (sep : Byte) (len : Nat) (d' : List Byte) (h : Flat.argv d sep = some (len, d')) :
    len ≤ d'.length := by
  have hn : ∀ (x : List Byte) (c : Byte), Flat.nextChar x c ≤ x.length := by
    intro x c
    unfold Flat.nextChar Flat.find
    cases hf : x.findIdx? (· == c) with
    | none => simp
    | some i => simpa using Nat.le_of_lt (findIdx?_lt hf)
  unfold Flat.argv at h
  split at h
  · simp at h
  · split at h
    · simp at h; rw [← h.1, ← h.2]; exact hn _ _
    · simp only [] at h
      split at h
      · cases ht : Flat.tok (Flat.trimFlat d) Flat.wsTok with
        | some p =>
          rw [ht] at h; simp at h; rw [← h.1, ← h.2]
          unfold Flat.tok at ht
          cases hs : Flat.scan (Flat.tokStep Flat.wsTok) {} (Flat.trimFlat d) with
          | found i =>
            rw [hs] at ht; cases ht
            exact Nat.le_of_lt (scan_found_lt _ _ _ _ hs)
          | more t => rw [hs] at ht; cases ht
        | none => rw [ht] at h; simp at h; rw [← h.1, ← h.2]; exact hn _ _
      · simp at h; rw [← h.1, ← h.2]; exact hn _ _

theorem dhash_eq (m : Msg) : m.dhash = .ok (Flat.dhash m.flat) := by
  unfold Msg.dhash
  have hr := readLoop_eq m.base m.cont 2 0 []
  have hout : (m.read 2).out = m.flat.take 2 := by simpa [Msg.read, Msg.flat] using hr.1
  have hflat : (m.read 2).msg.flat = m.flat.drop 2 := hr.2.1
  have htot : (m.read 2).total = min 2 m.flat.length := by simpa [Msg.read, Msg.flat] using hr.2.2
  simp only [htot, hout]
  cases hd : m.flat with
  | nil => first | done | simp [Flat.dhash]
  | cons ty r1 =>
    cases r1 with
    | nil => first | done | simp [Flat.dhash]
    | cons arg payload =>
      have h2 : ¬ min 2 (ty :: arg :: payload).length < 2 := by simp
      simp only [h2, if_false, List.take, List.headD_cons, List.drop, List.head?_cons, Option.getD_some]
      simp only [Flat.dhash]
      rw [hd] at hflat
      simp only [List.drop] at hflat
      have hav := argv_eq (m.read 2).msg (if (ty == 4) = true then arg else 0)
      unfold argvAgrees at hav
      rw [hflat] at hav
      cases hm : (m.read 2).msg.argv (if (ty == 4) = true then arg else 0) with
      | mk m1 res =>
      rw [hm] at hav
      cases ha : Flat.argv payload (if (ty == 4) = true then arg else 0) with
      | none =>
        rw [ha] at hav
        simp only [] at hav
        simp [hav.1]
      | some pr =>
        obtain ⟨len, d'⟩ := pr
        rw [ha] at hav
        simp only [] at hav
        obtain ⟨hres, hfl⟩ := hav
        subst hres
        simp only []
        by_cases hz : len = 0
        · simp [hz]
        · simp only [hz, if_false]
          have hle := argv_le _ _ _ _ ha
          -- the word read either way is the first `len` bytes of the content
          have hword : (if m1.base.length ≥ len then m1.base.take len else (m1.read len).out) = d'.take len := by
            rw [← hfl]
            split
            · rename_i hb
              simp [Msg.flat, List.take_append, Nat.sub_eq_zero_of_le hb]
            · exact (read_eq m1 len).1
          rw [hword]

theorem pushPart_eq (step : Nat → Nat) (fuel : Nat) (f : Frag) (cur : List Byte) (total : Nat) (h : f.length ≤ fuel) :
    Msg.pushPart step fuel f cur total = (cur ++ f, total + f.length) := by
  induction fuel generalizing f cur total with
  | zero =>
    have : f = [] := List.eq_nil_of_length_eq_zero (by omega)
    simp [Msg.pushPart, this]
  | succ n ih =>
    unfold Msg.pushPart
    by_cases h0 : f.length = 0
    · have : f = [] := List.eq_nil_of_length_eq_zero h0
      simp [this]
    · simp only [h0, if_false]
      generalize hk : Nat.max 1 (Nat.min (step f.length) f.length) = k
      have hk1 : 1 ≤ k := by rw [← hk]; exact Nat.le_max_left _ _
      have hk2 : k ≤ f.length := by
        rw [← hk]; apply Nat.max_le.mpr; exact ⟨by omega, Nat.min_le_right _ _⟩
      rw [ih (f.drop k) _ _ (by simp; omega)]
      simp only [List.append_assoc, List.take_append_drop, List.length_drop, Prod.mk.injEq, true_and]
      omega

theorem sappendLoop_eq (step : Nat → Nat) (fs : List Frag) (cur : List Byte) (done : List (List Byte)) (total : Nat) :
    Msg.sappendLoop step fs cur done total = (total + fs.flatten.length, cur ++ fs.flatten, done) := by
  induction fs generalizing cur total with
  | nil => simp [Msg.sappendLoop]
  | cons f fs ih =>
    unfold Msg.sappendLoop
    split
    · rw [pushPart_eq step _ f cur total (Nat.le_refl _)]
      simp only []
      rw [ih]; simp; omega
    · rename_i h
      have : f = [] := List.eq_nil_of_length_eq_zero (by omega)
      rw [ih]; simp [this]

/- the contiguous loop always terminates within its fuel -/

theorem trimFlat_length (d : List Byte) : (trimFlat d).length ≤ d.length := by
  unfold trimFlat; split <;> simp

theorem argv_some (d : List Byte) (sep : Byte) (len : Nat) (d' : List Byte) (h : Flat.argv d sep = some (len, d')) :
    d ≠ [] ∧ d'.length ≤ d.length := by
  unfold Flat.argv at h
  have := trimFlat_length d
  refine ⟨by intro hd; simp [hd] at h, ?_⟩
  split at h
  · simp at h
  · split at h
    · simp at h; rw [← h.2]; omega
    · simp only [] at h
      split at h
      · split at h <;> (simp at h; rw [← h.2]; omega)
      · simp at h; rw [← h.2]; omega

theorem argsLoop_total (sep : Byte) (fuel : Nat) (d acc : List Byte) (n : Nat) (h : d.length < fuel) :
    (Flat.argsLoop sep fuel d acc n).isSome = true := by
  induction fuel generalizing d acc n with
  | zero => omega
  | succ fuel ih =>
    unfold Flat.argsLoop
    cases hf : Flat.argv d sep with
    | none => simp
    | some pr =>
      obtain ⟨len, d'⟩ := pr
      simp only []
      split
      · simp
      · obtain ⟨h1, h2⟩ := argv_some d sep len d' hf
        apply ih
        have : d.length ≠ 0 := by intro h0; exact h1 (List.eq_nil_of_length_eq_zero h0)
        simp; omega

theorem args_total (d : List Byte) (sep : Byte) : (Flat.args d sep).isSome = true := by
  unfold Flat.args
  split
  · rfl
  · exact argsLoop_total sep _ d [] 0 (by omega)

end Mpt
