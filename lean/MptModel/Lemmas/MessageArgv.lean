/-
  C17: mpt_message_argv / mpt_array_message on a fragment list = the contiguous computation,
  outside the keyed region of the known finding (`Msg.quoteSplit`).
-/
import MptModel.Lemmas.Message
namespace Mpt
open Mpt.Flat

theorem skipEmpty_base_nil (b : Frag) (c : List Frag) (h : (Msg.skipEmpty b c).base = []) :
    (Msg.skipEmpty b c).cont = [] := by
  induction c generalizing b with
  | nil => cases b <;> simp_all [Msg.skipEmpty]
  | cons f fs ih =>
    cases b with
    | nil => simp only [Msg.skipEmpty] at h ⊢; exact ih f h
    | cons x xs => simp [Msg.skipEmpty] at h

theorem findIdx?_lt {p : Byte → Bool} {l : List Byte} {i : Nat} (h : l.findIdx? p = some i) : i < l.length := by
  rw [List.findIdx?_eq_some_iff_getElem] at h
  exact h.1

theorem memfcn_single (curr : Frag) (p : Byte → Bool) : Iov.memfcn [curr] p = curr.findIdx? p := by
  rw [memfcn_eq]; simp [Flat.find]

theorem nextChar_eq (curr : Frag) (cont : List Frag) (c : Byte) :
    Msg.nextChar curr cont c = Flat.nextChar (curr ++ cont.flatten) c := by
  unfold Msg.nextChar Flat.nextChar Flat.find
  have h1 : Iov.memchr [curr] c = curr.findIdx? (· == c) := memfcn_single curr _
  have h2 : Iov.memchr cont c = cont.flatten.findIdx? (· == c) := memfcn_eq cont _
  rw [h1, List.findIdx?_append]
  cases hc : curr.findIdx? (· == c) with
  | some p => simp
  | none =>
    have h3 : (if cont.length ≠ 0 then Iov.memchr cont c else none) = cont.flatten.findIdx? (· == c) := by
      split
      · exact h2
      · rename_i h
        have : cont = [] := List.eq_nil_of_length_eq_zero (by omega)
        simp [this]
    rw [h3]
    cases hd : cont.flatten.findIdx? (· == c) with
    | some p => simp; omega
    | none => simp [foldl_len]

theorem locate_eq (cont : List Frag) (part : Nat) (h : part < cont.flatten.length) :
    ∃ m', Msg.locate cont part = some m' ∧ m'.flat = cont.flatten.drop part := by
  induction cont generalizing part with
  | nil => simp at h
  | cons f fs ih =>
    unfold Msg.locate
    split
    · rename_i hge
      have hl : (f :: fs).flatten.length = f.length + fs.flatten.length := by simp
      have : part - f.length < fs.flatten.length := by omega
      obtain ⟨m', h1, h2⟩ := ih _ this
      refine ⟨m', h1, ?_⟩
      rw [h2]; simp [List.drop_append, List.drop_of_length_le hge]
    · rename_i hlt
      refine ⟨_, rfl, ?_⟩
      simp [Msg.flat, List.drop_append]
      have : part - f.length = 0 := by omega
      simp [this]

/-- the contiguous meaning of the white-space removal -/
def trimFlat (d : List Byte) : List Byte :=
  match Flat.find notSpace d with
  | some p => d.drop p
  | none => d

theorem trim_eq (m : Msg) : ∃ m1, m.trim = .ok m1 ∧ m1.flat = trimFlat m.flat := by
  unfold Msg.trim trimFlat Flat.find Msg.flat
  rw [memfcn_single, memfcn_eq, List.findIdx?_append]
  cases hb : m.base.findIdx? notSpace with
  | some part =>
    have := findIdx?_lt hb
    refine ⟨_, rfl, ?_⟩
    simp [Msg.flat, List.drop_append]
    have : part - m.base.length = 0 := by omega
    simp [this]
  | none =>
    simp only [Option.none_or, Flat.find]
    cases hc : m.cont.flatten.findIdx? notSpace with
    | some part =>
      obtain ⟨m', h1, h2⟩ := locate_eq m.cont part (findIdx?_lt hc)
      refine ⟨m', by simp [h1], ?_⟩
      simp only [Msg.flat] at h2
      simp [h2, List.drop_append, List.drop_of_length_le]
    | none => exact ⟨m, rfl, by simp [Msg.flat]⟩

/- ---------------------------------------------------------------- scanner states that behave alike -/

/-- two scanner states are interchangeable when no comment set is given: same open quote, neither
    inside a comment, and the previous character is a backslash in both or in neither -/
def Flat.TokSt.alike (s t : TokSt) : Prop :=
  s.quote = t.quote ∧ s.skip = false ∧ t.skip = false ∧ ((s.prev == 92) = (t.prev == 92))

theorem tokStep_alike (a : TokArgs) (hcom : a.com = []) (s t : TokSt) (h : s.alike t) (c : Byte) :
    match tokStep a s c, tokStep a t c with
    | none, none => True
    | some s', some t' => s'.alike t'
    | _, _ => False := by
  obtain ⟨hq, hs, ht, hp⟩ := h
  unfold tokStep
  simp only [hs, ht, hcom, hq, hp, List.contains_nil, Bool.false_and, Bool.false_eq_true, if_false]
  by_cases h1 : (!a.esc.isEmpty && t.quote.isSome) = true
  · simp only [h1, if_true]
    simp [Flat.TokSt.alike]
  · simp only [h1, if_false]
    by_cases h2 : (!a.esc.isEmpty && a.esc.contains c) = true
    · simp only [h2, if_true]
      simp [Flat.TokSt.alike, hs, ht, hp]
    · simp only [h2, if_false]
      cases a.tok with
      | some tk =>
        by_cases h3 : tk.contains c = true
        · simp [h3]
        · simp [h3, Flat.TokSt.alike, hq, hs, ht]
      | none =>
        by_cases h3 : (!isSpace c) = true
        · simp [h3]
        · simp [h3, Flat.TokSt.alike, hq, hs, ht]

theorem scan_alike (a : TokArgs) (hcom : a.com = []) (l : List Byte) (s t : TokSt) (h : s.alike t) :
    match Flat.scan (tokStep a) s l, Flat.scan (tokStep a) t l with
    | .found i, .found j => i = j
    | .more s', .more t' => s'.alike t'
    | _, _ => False := by
  induction l generalizing s t with
  | nil => simpa [Flat.scan] using h
  | cons c cs ih =>
    have hst := tokStep_alike a hcom s t h c
    simp only [Flat.scan]
    cases h1 : tokStep a s c with
    | none =>
      cases h2 : tokStep a t c with
      | none => simp
      | some t' => simp [h1, h2] at hst
    | some s' =>
      cases h2 : tokStep a t c with
      | none => simp [h1, h2] at hst
      | some t' =>
        simp only [h1, h2] at hst
        have := ih s' t' hst
        cases h3 : Flat.scan (tokStep a) s' cs <;> cases h4 : Flat.scan (tokStep a) t' cs <;> simp_all

end Mpt
