/-
  sub-tree views of the global configuration (config_global.c with a base path): `make_global` only adds what is
  missing and never touches a value; assign/query/remove through a view act at `base ++ path`.
-/
import MptModel.Lemmas.ConfigMap
namespace Mpt.Config
open Mpt Mpt.PathMap

theorem chain_names (e : List Byte) (es : Key) (v : Option Value) : ∀ d ∈ chain (e :: es) v, d.name = e := by
  cases es <;> simp [chain, CNode.name]

/-- `make_global` never changes what any path reads (new nodes have no value) -/
theorem valueAt_ensure : ∀ (b : Key) (l : List CNode) (k : Key), valueAt (ensure l b) k = valueAt l k
  | [], l, k => by simp [ensure]
  | e :: es, l, k => by
    cases k with
    | nil => simp [valueAt_nil_key]
    | cons e' es' =>
      simp only [ensure]
      cases h : locate l e with
      | none =>
        simp only
        cases h' : locate l e' with
        | none =>
          rw [valueAt_append_none h', valueAt_chain _ _ _ (by simp)]
          simp [valueAt_cons_key, h']
        | some j => rw [valueAt_append_some h']
      | some i =>
        simp only
        cases hc : l[i]? with
        | none => rfl
        | some c =>
          cases c with
          | mk n val ks =>
            simp only
            rw [valueAt_set h hc (by simp [CNode.name]) e' es']
            by_cases he : e' = e
            · subst he
              simp only [↓reduceIte, CNode.value_mk, CNode.kids_mk]
              rw [valueAt_cons_key, h]
              simp only [hc]
              by_cases hes : es'.isEmpty
              · simp [hes]
              · simp only [hes, Bool.false_eq_true, ↓reduceIte, CNode.kids_mk]
                exact valueAt_ensure es ks es'
            · simp [he]

/-- `make_global` keeps sibling names unique -/
theorem Uniq_ensure : ∀ (b : Key) (l : List CNode), Uniq l → Uniq (ensure l b)
  | [], l, h => by simpa [ensure] using h
  | e :: es, l, hu => by
    simp only [ensure]
    cases h : locate l e with
    | none =>
      simp only
      refine Uniq_append hu (Uniq_chain _ _) ?_
      intro c hc d hd
      rw [chain_names e es none d hd]
      exact fun he => (locate_none_iff.1 h) c hc he.symm
    | some i =>
      simp only
      cases hc : l[i]? with
      | none => exact hu
      | some c =>
        cases c with
        | mk n val ks =>
          simp only
          exact Uniq_set hu hc (by simp [CNode.name]) (by simpa using Uniq_ensure es ks (by simpa using Uniq_getElem hu hc))

/-- nothing is stored beneath a path that does not exist -/
theorem findExact_prefix_none : ∀ (b : Key) (l : List CNode) (k : Key), b ≠ [] → findExact l b = none →
    b.isPrefixOf k = true → findExact l k = none
  | [], _, _, h, _, _ => absurd rfl h
  | e :: es, l, k, _, hf, hp => by
    cases k with
    | nil => simp [List.isPrefixOf] at hp
    | cons e' es' =>
      simp only [List.isPrefixOf, Bool.and_eq_true, beq_iff_eq] at hp
      obtain ⟨rfl, hp'⟩ := hp
      simp only [findExact] at hf ⊢
      cases h : locate l e with
      | none => simp
      | some i =>
        simp only [h] at hf ⊢
        cases hc : l[i]? with
        | none => simp
        | some c =>
          simp only [hc] at hf ⊢
          by_cases hes : es.isEmpty
          · simp [hes] at hf
          · simp only [hes, Bool.false_eq_true, ↓reduceIte] at hf
            have hes' : ¬ es'.isEmpty := by
              intro h'
              have : es' = [] := by simpa using h'
              subst this
              cases es with
              | nil => simp at hes
              | cons x xs => simp [List.isPrefixOf] at hp'
            simp only [hes', Bool.false_eq_true, ↓reduceIte]
            exact findExact_prefix_none es c.kids es' (by intro h'; subst h'; simp at hes) hf hp'

/-- assign, query and remove through a view with base path `b` act on the map at `b ++ k` -/
theorem view_refinement (l : List CNode) (m : PMap) (b k : Key) (v : Value) (hu : Uniq l) (ha : Agree l m)
    (hne : b ++ k ≠ []) :
    (∀ l', configAssign l b k v = .ok l' → Uniq l' ∧ Agree l' (PathMap.set m (b ++ k) v)) ∧
    (∀ x, configQuery l b k = .ok x ↔ PathMap.get m (b ++ k) = some x) ∧
    (∀ l' r, k ≠ [] → configRemove l b k = .ok (l', r) → Uniq l' ∧ Agree l' (removePrefix m (b ++ k))) := by
  refine ⟨?_, ?_, ?_⟩
  · intro l' h
    have hu1 := Uniq_ensure b l hu
    have key : nodeAssign (ensure l b) (b ++ k) v = some l' := by
      simp only [configAssign] at h
      cases k with
      | nil =>
        simp only [List.append_nil] at hne ⊢
        simp only [hne, ↓reduceIte] at h
        cases hn : nodeAssign (ensure l b) b v with
        | none => simp [hn] at h
        | some l2 => simp [hn] at h; simp [h]
      | cons e es =>
        simp only at h
        cases hn : nodeAssign (ensure l b) (b ++ e :: es) v with
        | none => simp [hn] at h
        | some l2 => simp [hn] at h; simp [h]
    refine ⟨Uniq_assign _ _ _ v hu1 key, ?_⟩
    intro k' hk'
    rw [valueAt_assign _ _ _ v key k', get_set, valueAt_ensure, ha k' hk']
  · intro x
    simp only [configQuery]
    rw [← ha (b ++ k) hne]
    cases hk : b ++ k with
    | nil => exact absurd hk hne
    | cons e es =>
      simp only [valueAt]
      cases findExact l (e :: es) with
      | none => simp
      | some c => cases hv : c.value <;> simp [hv]
  · intro l' r hk h
    simp only [configRemove] at h
    by_cases hl : l.isEmpty
    · simp [hl] at h
    · simp only [hl, Bool.false_eq_true, ↓reduceIte] at h
      cases k with
      | nil => exact absurd rfl hk
      | cons e es =>
        by_cases hb : b ≠ [] ∧ (findExact l b).isNone
        · rw [if_pos hb] at h
          have hl' : l' = l := by simp at h; exact h.1.symm
          subst hl'
          refine ⟨hu, ?_⟩
          intro k' hk'
          rw [get_removePrefix]
          by_cases hp : (b ++ e :: es).isPrefixOf k'
          · simp only [hp, ↓reduceIte]
            have hbp : b.isPrefixOf k' = true := by
              rw [List.isPrefixOf_iff_prefix] at hp ⊢
              exact (List.prefix_append b (e :: es)).trans hp
            simp [valueAt, findExact_prefix_none b l' k' hb.1 (by simpa using hb.2) hbp]
          · simp only [hp, Bool.false_eq_true, ↓reduceIte]
            exact ha k' hk'
        · rw [if_neg hb] at h
          have := agree_step hu ha (.del (b ++ e :: es)) (by simp [Op.key])
          simp only [stepM, stepS] at this
          cases hr : removeExact l (b ++ e :: es) with
          | none => simp [hr] at h; rw [hr] at this; simp at this; rw [← h.1]; exact this
          | some l2 => simp [hr] at h; rw [hr] at this; simp at this; rw [← h.1]; exact this

end Mpt.Config
