/-
  sub-tree views of the global configuration (config_global.c with a base path): `make_global` only adds what is
  missing and never touches a value; assign/query/remove through a view act at `base ++ path`.
-/
import MptModel.Lemmas.ConfigMap
namespace Mpt.Config
open Mpt Mpt.PathMap

theorem chain_names (e : List Byte) (es : Key) (v : Option Value) : ∀ d ∈ chain (e :: es) v, d.name = e := by
  cases es <;> simp [chain, CNode.name]

/-- `make_global` never changes what any path reads (new nodes have no value) -/
theorem valueAt_ensure : ∀ (b : Key) (l : List CNode) (k : Key), valueAt (ensure l b) k = valueAt l k
  | [], l, k => by simp [ensure]
  | e :: es, l, k => by
    cases k with
    | nil => simp [valueAt_nil_key]
    | cons e' es' =>
      simp only [ensure]
      cases h : locate l e with
      | none =>
        simp only
        cases h' : locate l e' with
        | none =>
          rw [valueAt_append_none h', valueAt_chain _ _ _ (by simp)]
          simp [valueAt_cons_key, h']
        | some j => rw [valueAt_append_some h']
      | some i =>
        simp only
        cases hc : l[i]? with
        | none => rfl
        | some c =>
          cases c with
          | mk n val ks =>
            simp only
            rw [valueAt_set h hc (by simp [CNode.name]) e' es']
            by_cases he : e' = e
            · subst he
              simp only [↓reduceIte, CNode.value_mk, CNode.kids_mk]
              rw [valueAt_cons_key, h]
              simp only [hc]
              by_cases hes : es'.isEmpty
              · simp [hes]
              · simp only [hes, Bool.false_eq_true, ↓reduceIte, CNode.kids_mk]
                exact valueAt_ensure es ks es'
            · simp [he]

/-- `make_global` keeps sibling names unique -/
theorem Uniq_ensure : ∀ (b : Key) (l : List CNode), Uniq l → Uniq (ensure l b)
  | [], l, h => by simpa [ensure] using h
  | e :: es, l, hu => by
    simp only [ensure]
    cases h : locate l e with
    | none =>
      simp only
      refine Uniq_append hu (Uniq_chain _ _) ?_
      intro c hc d hd
      rw [chain_names e es none d hd]
      exact fun he => (locate_none_iff.1 h) c hc he.symm
    | some i =>
      simp only
      cases hc : l[i]? with
      | none => exact hu
      | some c =>
        cases c with
        | mk n val ks =>
          simp only
          exact Uniq_set hu hc (by simp [CNode.name]) (by simpa using Uniq_ensure es ks (by simpa using Uniq_getElem hu hc))

/-- nothing is stored beneath a path that does not exist -/
theorem findExact_prefix_none : ∀ (b : Key) (l : List CNode) (k : Key), b ≠ [] → findExact l b = none →
    b.isPrefixOf k = true → findExact l k = none
  | [], _, _, h, _, _ => absurd rfl h
  | e :: es, l, k, _, hf, hp => by
    cases k with
    | nil => simp [List.isPrefixOf] at hp
    | cons e' es' =>
      simp only [List.isPrefixOf, Bool.and_eq_true, beq_iff_eq] at hp
      obtain ⟨rfl, hp'⟩ := hp
      simp only [findExact] at hf ⊢
      cases h : locate l e with
      | none => simp
      | some i =>
        simp only [h] at hf ⊢
        cases hc : l[i]? with
        | none => simp
        | some c =>
          simp only [hc] at hf ⊢
          by_cases hes : es.isEmpty
          · simp [hes] at hf
          · simp only [hes, Bool.false_eq_true, ↓reduceIte] at hf
            have hes' : ¬ es'.isEmpty := by
              intro h'
              have : es' = [] := by simpa using h'
              subst this
              cases es with
              | nil => simp at hes
              | cons x xs => simp [List.isPrefixOf] at hp'
            simp only [hes', Bool.false_eq_true, ↓reduceIte]
            exact findExact_prefix_none es c.kids es' (by intro h'; subst h'; simp at hes) hf hp'

/-- assign, query and remove through a view with base path `b` act on the map at `b ++ k` -/
theorem view_refinement (l : List CNode) (m : PMap) (b k : Key) (v : Value) (hu : Uniq l) (ha : Agree l m)
    (hne : b ++ k ≠ []) :
    (∀ l', configAssign l b k v = .ok l' → Uniq l' ∧ Agree l' (PathMap.set m (b ++ k) v)) ∧
    (∀ x, configQuery l b k = .ok x ↔ PathMap.get m (b ++ k) = some x) ∧
    (∀ l' r, k ≠ [] → configRemove l b k = .ok (l', r) → Uniq l' ∧ Agree l' (removePrefix m (b ++ k))) := by
  refine ⟨?_, ?_, ?_⟩
  · intro l' h
    have hu1 := Uniq_ensure b l hu
    have key : nodeAssign (ensure l b) (b ++ k) v = some l' := by
      simp only [configAssign] at h
      cases k with
      | nil =>
        simp only [List.append_nil] at hne ⊢
        simp only [hne, ↓reduceIte] at h
        cases hn : nodeAssign (ensure l b) b v with
        | none => simp [hn] at h
        | some l2 => simp [hn] at h; simp [h]
      | cons e es =>
        simp only at h
        cases hn : nodeAssign (ensure l b) (b ++ e :: es) v with
        | none => simp [hn] at h
        | some l2 => simp [hn] at h; simp [h]
    refine ⟨Uniq_assign _ _ _ v hu1 key, ?_⟩
    intro k' hk'
    rw [valueAt_assign _ _ _ v key k', get_set, valueAt_ensure, ha k' hk']
  · intro x
    simp only [configQuery]
    rw [← ha (b ++ k) hne]
    cases hk : b ++ k with
    | nil => exact absurd hk hne
    | cons e es =>
      simp only [valueAt]
      cases findExact l (e :: es) with
      | none => simp
      | some c => cases hv : c.value <;> simp [hv]
  · intro l' r hk h
    simp only [configRemove] at h
    by_cases hl : l.isEmpty
    · simp [hl] at h
    · simp only [hl, Bool.false_eq_true, ↓reduceIte] at h
      cases k with
      | nil => exact absurd rfl hk
      | cons e es =>
        by_cases hb : b ≠ [] ∧ (findExact l b).isNone
        · rw [if_pos hb] at h
          have hl' : l' = l := by simp at h; exact h.1.symm
          subst hl'
          refine ⟨hu, ?_⟩
          intro k' hk'
          rw [get_removePrefix]
          by_cases hp : (b ++ e :: es).isPrefixOf k'
          · simp only [hp, ↓reduceIte]
            have hbp : b.isPrefixOf k' = true := by
              rw [List.isPrefixOf_iff_prefix] at hp ⊢
              exact (List.prefix_append b (e :: es)).trans hp
            simp [valueAt, findExact_prefix_none b l' k' hb.1 (by simpa using hb.2) hbp]
          · simp only [hp, Bool.false_eq_true, ↓reduceIte]
            exact ha k' hk'
        · rw [if_neg hb] at h
          have := agree_step hu ha (.del (b ++ e :: es)) (by simp [Op.key])
          simp only [stepM, stepS] at this
          cases hr : removeExact l (b ++ e :: es) with
          | none => simp [hr] at h; rw [hr] at this; simp at this; rw [← h.1]; exact this
          | some l2 => simp [hr] at h; rw [hr] at this; simp at this; rw [← h.1]; exact this

theorem get_filter (P : Key → Bool) (m : PMap) (k' : Key) :
    PathMap.get (m.filter (fun e => !(P e.1))) k' = if P k' then none else PathMap.get m k' := by
  simp only [PathMap.get]
  rw [List.find?_filter]
  by_cases hp : P k'
  · simp only [hp, ↓reduceIte]
    have : ∀ o : Option (Key × Value), o = none → o.map (fun x => x.2) = none := by intro o h; rw [h]; rfl
    apply this
    apply List.find?_eq_none.2
    intro x _
    by_cases hx : x.1 = k'
    · simp [hx, hp]
    · simp [hx]
  · simp only [hp, Bool.false_eq_true, ↓reduceIte]
    congr 1
    apply find?_ext
    intro x _
    by_cases hx : x.1 = k'
    · simp [hx, hp]
    · simp [hx]

/-- clearing: everything strictly beneath the path reads "absent", every other path reads what it read before -/
theorem valueAt_clear : ∀ (b : Key) (l l' : List CNode), clearExact l b = some l' →
    ∀ k', valueAt l' k' = if (b.isPrefixOf k' && k' != b) then none else valueAt l k'
  | [], _, _, h, _ => by simp [clearExact] at h
  | e :: es, l, l', h, k' => by
    simp only [clearExact] at h
    cases k' with
    | nil => simp [valueAt_nil_key, List.isPrefixOf]
    | cons e' es' =>
      cases hl : locate l e with
      | none => simp [hl] at h
      | some i =>
        obtain ⟨c, hc, hcn⟩ := locate_name hl
        simp only [hl, hc] at h
        simp only [List.isPrefixOf]
        by_cases hes : es.isEmpty
        · simp only [hes, ↓reduceIte, Option.some.injEq] at h
          subst h
          have hes' : es = [] := by simpa using hes
          subst hes'
          rw [valueAt_set (c' := .mk c.name c.value []) hl hc rfl]
          by_cases he : e' = e
          · subst he
            simp only [↓reduceIte, beq_self_eq_true, Bool.true_and, CNode.value_mk, CNode.kids_mk, List.isPrefixOf]
            by_cases hes'' : es'.isEmpty
            · have : es' = [] := by simpa using hes''
              subst this
              simp [valueAt_cons_key, hl, hc]
            · have hne : es' ≠ [] := by intro h'; simp [h'] at hes''
              have hnil : valueAt [] es' = none := by
                cases es' with
                | nil => exact absurd rfl hne
                | cons a as => simp [valueAt, findExact, locate]
              simp [hes'', hne, hnil]
          · have : (e == e') = false := by simp; exact fun h' => he h'.symm
            simp [he, this]
        · simp only [hes, Bool.false_eq_true, ↓reduceIte] at h
          have hne : es ≠ [] := by intro h'; simp [h'] at hes
          cases hk : clearExact c.kids es with
          | none => simp [hk] at h
          | some ks' =>
            simp only [hk, Option.some.injEq] at h
            subst h
            rw [valueAt_set (c' := .mk c.name c.value ks') hl hc rfl]
            by_cases he : e' = e
            · subst he
              simp only [↓reduceIte, beq_self_eq_true, Bool.true_and, CNode.value_mk, CNode.kids_mk]
              by_cases hes'' : es'.isEmpty
              · have : es' = [] := by simpa using hes''
                subst this
                have hpre : es.isPrefixOf [] = false := by
                  cases es with
                  | nil => exact absurd rfl hne
                  | cons a as => rfl
                simp [hpre, valueAt_cons_key, hl, hc]
              · simp only [hes'', Bool.false_eq_true, ↓reduceIte]
                rw [valueAt_clear es c.kids ks' hk es', valueAt_cons_key (l := l), hl]
                simp only [hc, hes'', Bool.false_eq_true, ↓reduceIte]
                have : ((e' :: es') != (e' :: es)) = (es' != es) := by
                  by_cases h' : es' = es
                  · subst h'; simp
                  · have h2 : ¬ (e' :: es') = (e' :: es) := by simpa using h'
                    simp [bne, h', h2]
                rw [this]
            · have : (e == e') = false := by simp; exact fun h' => he h'.symm
              simp [he, this]

/-- dropping the value of one element: that path reads "absent", every other path reads what it read before -/
theorem valueAt_unset : ∀ (b : Key) (l l' : List CNode), unsetExact l b = some l' →
    ∀ k', valueAt l' k' = if k' = b then none else valueAt l k'
  | [], _, _, h, _ => by simp [unsetExact] at h
  | e :: es, l, l', h, k' => by
    simp only [unsetExact] at h
    cases k' with
    | nil => simp [valueAt_nil_key]
    | cons e' es' =>
      cases hl : locate l e with
      | none => simp [hl] at h
      | some i =>
        obtain ⟨c, hc, hcn⟩ := locate_name hl
        simp only [hl, hc] at h
        by_cases hes : es.isEmpty
        · simp only [hes, ↓reduceIte, Option.some.injEq] at h
          subst h
          have hes' : es = [] := by simpa using hes
          subst hes'
          rw [valueAt_set (c' := .mk c.name none c.kids) hl hc rfl]
          by_cases he : e' = e
          · subst he
            simp only [↓reduceIte, CNode.value_mk, CNode.kids_mk, List.cons.injEq, true_and]
            by_cases hes'' : es'.isEmpty
            · have : es' = [] := by simpa using hes''
              subst this
              simp
            · have hne : es' ≠ [] := by intro h'; simp [h'] at hes''
              simp [hes'', hne, valueAt_cons_key, hl, hc]
          · simp [he]
        · simp only [hes, Bool.false_eq_true, ↓reduceIte] at h
          have hne : es ≠ [] := by intro h'; simp [h'] at hes
          cases hk : unsetExact c.kids es with
          | none => simp [hk] at h
          | some ks' =>
            simp only [hk, Option.some.injEq] at h
            subst h
            rw [valueAt_set (c' := .mk c.name c.value ks') hl hc rfl]
            by_cases he : e' = e
            · subst he
              simp only [↓reduceIte, CNode.value_mk, CNode.kids_mk, List.cons.injEq, true_and]
              by_cases hes'' : es'.isEmpty
              · have : es' = [] := by simpa using hes''
                subst this
                have : ¬ ([] : Key) = es := fun h' => hne h'.symm
                simp [this, valueAt_cons_key, hl, hc]
              · simp only [hes'', Bool.false_eq_true, ↓reduceIte]
                rw [valueAt_unset es c.kids ks' hk es', valueAt_cons_key (l := l), hl]
                simp [hc, hes'']
            · simp [he]

theorem Uniq_clear : ∀ (b : Key) (l l' : List CNode), Uniq l → clearExact l b = some l' → Uniq l'
  | [], _, _, _, h => by simp [clearExact] at h
  | e :: es, l, l', hu, h => by
    simp only [clearExact] at h
    cases hl : locate l e with
    | none => simp [hl] at h
    | some i =>
      obtain ⟨c, hc, _⟩ := locate_name hl
      simp only [hl, hc] at h
      by_cases hes : es.isEmpty
      · simp only [hes, ↓reduceIte, Option.some.injEq] at h
        subst h
        exact Uniq_set hu hc rfl (by simp [Uniq])
      · simp only [hes, Bool.false_eq_true, ↓reduceIte] at h
        cases hk : clearExact c.kids es with
        | none => simp [hk] at h
        | some ks' =>
          simp only [hk, Option.some.injEq] at h
          subst h
          exact Uniq_set hu hc rfl (by simpa using Uniq_clear es c.kids ks' (Uniq_getElem hu hc) hk)

theorem Uniq_unset : ∀ (b : Key) (l l' : List CNode), Uniq l → unsetExact l b = some l' → Uniq l'
  | [], _, _, _, h => by simp [unsetExact] at h
  | e :: es, l, l', hu, h => by
    simp only [unsetExact] at h
    cases hl : locate l e with
    | none => simp [hl] at h
    | some i =>
      obtain ⟨c, hc, _⟩ := locate_name hl
      simp only [hl, hc] at h
      by_cases hes : es.isEmpty
      · simp only [hes, ↓reduceIte, Option.some.injEq] at h
        subst h
        exact Uniq_set hu hc rfl (by simpa using Uniq_getElem hu hc)
      · simp only [hes, Bool.false_eq_true, ↓reduceIte] at h
        cases hk : unsetExact c.kids es with
        | none => simp [hk] at h
        | some ks' =>
          simp only [hk, Option.some.injEq] at h
          subst h
          exact Uniq_set hu hc rfl (by simpa using Uniq_unset es c.kids ks' (Uniq_getElem hu hc) hk)

/-- nothing to clear / unset: the path does not exist, so nothing at or beneath it holds a value -/
theorem clearExact_none_find : ∀ (b : Key) (l : List CNode), b ≠ [] → clearExact l b = none → findExact l b = none
  | [], _, h, _ => absurd rfl h
  | e :: es, l, _, h => by
    simp only [clearExact] at h
    simp only [findExact]
    cases hl : locate l e with
    | none => simp
    | some i =>
      simp only [hl] at h ⊢
      cases hc : l[i]? with
      | none => simp
      | some c =>
        simp only [hc] at h ⊢
        by_cases hes : es.isEmpty
        · simp [hes] at h
        · simp only [hes, Bool.false_eq_true, ↓reduceIte] at h ⊢
          cases hk : clearExact c.kids es with
          | some ks' => simp [hk] at h
          | none => exact clearExact_none_find es c.kids (by intro h'; simp [h'] at hes) hk

theorem unsetExact_none_find : ∀ (b : Key) (l : List CNode), b ≠ [] → unsetExact l b = none → findExact l b = none
  | [], _, h, _ => absurd rfl h
  | e :: es, l, _, h => by
    simp only [unsetExact] at h
    simp only [findExact]
    cases hl : locate l e with
    | none => simp
    | some i =>
      simp only [hl] at h ⊢
      cases hc : l[i]? with
      | none => simp
      | some c =>
        simp only [hc] at h ⊢
        by_cases hes : es.isEmpty
        · simp [hes] at h
        · simp only [hes, Bool.false_eq_true, ↓reduceIte] at h ⊢
          cases hk : unsetExact c.kids es with
          | some ks' => simp [hk] at h
          | none => exact unsetExact_none_find es c.kids (by intro h'; simp [h'] at hes) hk

/-- remove through a view with an empty path (everything beneath the base goes, the base keeps its value) and with
    a NULL path (the base loses its value); the global object with an empty path is emptied -/
theorem view_refinement_empty (l : List CNode) (m : PMap) (b : Key) (hu : Uniq l) (ha : Agree l m) :
    (∀ l' r, b ≠ [] → configRemoveP l b (some []) = .ok (l', r) → Uniq l' ∧ Agree l' (removeBelow m b)) ∧
    (∀ l' r, b ≠ [] → configRemoveP l b none = .ok (l', r) → Uniq l' ∧ Agree l' (PathMap.unset m b)) ∧
    (∀ l' r, configRemoveP l [] (some []) = .ok (l', r) → l' = []) := by
  refine ⟨?_, ?_, ?_⟩
  · intro l' r hb h
    simp only [configRemoveP, configRemove] at h
    by_cases hl : l.isEmpty
    · simp [hl] at h
    · simp only [hl, Bool.false_eq_true, ↓reduceIte, hb] at h
      cases hc : clearExact l b with
      | some l2 =>
        simp only [hc, Res.ok.injEq, Prod.mk.injEq] at h
        obtain ⟨rfl, _⟩ := h
        refine ⟨Uniq_clear b l l2 hu hc, fun k' hk' => ?_⟩
        rw [valueAt_clear b l l2 hc k', removeBelow, get_filter (fun k => b.isPrefixOf k && k != b), ha k' hk']
      | none =>
        simp only [hc, Res.ok.injEq, Prod.mk.injEq] at h
        obtain ⟨rfl, _⟩ := h
        refine ⟨hu, fun k' hk' => ?_⟩
        rw [removeBelow, get_filter (fun k => b.isPrefixOf k && k != b)]
        by_cases hp : (b.isPrefixOf k' && k' != b)
        · simp only [hp, ↓reduceIte]
          have hbp : b.isPrefixOf k' = true := by
            rw [Bool.and_eq_true] at hp; exact hp.1
          simp [valueAt, findExact_prefix_none b l k' hb (clearExact_none_find b l hb hc) hbp]
        · simp only [hp, Bool.false_eq_true, ↓reduceIte]
          exact ha k' hk'
  · intro l' r hb h
    simp only [configRemoveP] at h
    by_cases hl : l.isEmpty
    · simp [hl] at h
    · simp only [hl, Bool.false_eq_true, ↓reduceIte, hb] at h
      cases hc : unsetExact l b with
      | some l2 =>
        simp only [hc, Res.ok.injEq, Prod.mk.injEq] at h
        obtain ⟨rfl, _⟩ := h
        refine ⟨Uniq_unset b l l2 hu hc, fun k' hk' => ?_⟩
        rw [valueAt_unset b l l2 hc k', PathMap.unset]
        have := get_filter (fun k => k == b) m k'
        simp only [beq_iff_eq] at this
        have e1 : (m.filter fun e => e.1 != b) = (m.filter fun e => !(e.1 == b)) := by
          congr 1
        rw [e1, this, ha k' hk']
      | none =>
        simp only [hc, Res.ok.injEq, Prod.mk.injEq] at h
        obtain ⟨rfl, _⟩ := h
        refine ⟨hu, fun k' hk' => ?_⟩
        rw [PathMap.unset]
        have := get_filter (fun k => k == b) m k'
        simp only [beq_iff_eq] at this
        have e1 : (m.filter fun e => e.1 != b) = (m.filter fun e => !(e.1 == b)) := by
          congr 1
        rw [e1, this]
        by_cases hk : k' = b
        · subst hk
          simp [valueAt, unsetExact_none_find k' l hb hc]
        · simp only [hk, ↓reduceIte]
          exact ha k' hk'
  · intro l' r h
    simp only [configRemoveP, configRemove] at h
    by_cases hl : l.isEmpty
    · simp [hl] at h
    · simp [hl] at h
      exact h.1


end Mpt.Config
