/-
  C04, C++ layer: `unique_array<T>` / `typed_array<T>` with plain element types (`Impl/HeapXX.lean`):
  `reserve`, `detach`, `resize` (with `content<T>::set_length`, `buffer::trim`) and `insert`.
-/
import MptModel.Lemmas.HeapOwn
import MptModel.Lemmas.HeapXX
namespace Mpt.Heap
open Mpt

/-- an empty handle gets a fresh buffer (any flags that leave it mutable) -/
theorem attach_fresh_flags {s : State} (inv : Inv s) {h : Nat} (hlt : h < s.hs.length) (hh : s.handle h = none)
    (len fl : Nat) (t : Option Traits) (pt : PlainT t) (mu : (State.fresh len fl t).immutable = false) :
    DetachPost s h (State.fresh len fl t) len ((s.newBuf len fl t).setHandle h (some s.bufs.length)) s.bufs.length ∧
    s.abs h = (State.fresh len fl t).content := by
  have hnb : s.buf? s.bufs.length = none := State.buf?_ge_length s _ (Nat.le_refl _)
  have ret := Inv.retarget (s' := (s.newBuf len fl t).setHandle h (some s.bufs.length)) inv
    (z := State.fresh len fl t) hlt hnb (by simp)
    (by intro c; rw [State.buf?_setHandle, State.buf?_newBuf]; simp [hh])
    rfl (by simp [State.fresh]) pt (by simp [State.fresh])
  have hz : ((s.newBuf len fl t).setHandle h (some s.bufs.length)).buf? s.bufs.length = some (State.fresh len fl t) := by
    rw [State.buf?_setHandle, State.buf?_newBuf]; simp
  refine ⟨⟨ret.1, by simp, ret.2.2.2, ret.2.1, _, hz, rfl, mu, ?_, rfl, len, Nat.le_refl _, ?_⟩, ?_⟩
  · simp only [State.fresh, Buf.size, List.length_replicate]; exact le_allocSize len
  · simp [State.fresh, Buf.content]
  · rw [State.abs_none hh]; simp [State.fresh, Buf.content]

/-- outcome of `unique_array::reserve(n)`: refused without a trace, or the handle owns a buffer of its type with
    room for `n` elements whose content is the old content (cut behind at least `n` elements) -/
def ReservePost (s : State) (h : Nat) (k : XKind) (n : Nat) (r : Out Unit) : Prop :=
  match r with
  | .fault _ => False
  | .fail s' _ => Inv s' ∧ s'.hs.length = s.hs.length ∧ ∀ h', s'.abs h' = s.abs h'
  | .ok s' _ => Inv s' ∧ s'.hs.length = s.hs.length ∧ (∀ h', h' ≠ h → s'.abs h' = s.abs h') ∧
      ∃ nb z m, Own s' h nb z ∧ n * k.t.size ≤ z.size ∧ z.traits = some k.t ∧ n * k.t.size ≤ m ∧ z.content = (s.abs h).take m

theorem uReserve_post {s : State} (inv : Inv s) {h : Nat} (hlt : h < s.hs.length) (k : XKind) (pt : PlainT (some k.t))
    (hk : ∀ b x, s.handle h = some b → s.buf? b = some x → x.traits = some k.t) (n : Nat) :
    ReservePost s h k n (uReserve s h k n) := by
  have sz0 := (pt k.t rfl).2.2
  unfold uReserve
  cases hh : s.handle h with
  | none =>
    simp only [xCreate]
    have lm : n * k.t.size - n * k.t.size % k.t.size = n * k.t.size := by rw [Nat.mul_mod_left]; rfl
    rw [lm]
    obtain ⟨dp, ab⟩ := attach_fresh_flags inv hlt hh (n * k.t.size) (if k.unique then 2 else 0) (some k.t) pt
      (by cases k.unique <;> simp [Buf.immutable, State.fresh])
    obtain ⟨z, o, zs, zt⟩ := dp.own
    obtain ⟨inv1, len1, oth1, hh1, z', hz', _, _, _, _, kk, _, zc, _⟩ := dp
    refine ⟨inv1, len1, oth1, _, z, n * k.t.size, o, zs, zt, Nat.le_refl _, ?_⟩
    have e : z' = z := by have := o.hb; rw [hz'] at this; exact Option.some.inj this
    rw [← e, zc, ab]
    simp [State.fresh, Buf.content]
  | some b =>
    simp only
    obtain ⟨x, hb⟩ := inv.live h b hh
    have xt := hk b x hh hb
    have es := ensure_sem inv hh hb true (n * k.t.size) (by intro c; cases c)
    generalize ensure s h b true (n * k.t.size) = r at es
    cases r with
    | fault w => exact es
    | fail s1 e => exact ⟨es.1, by rw [es.2.1], es.2.2⟩
    | ok s1 nb =>
      have dp : DetachPost s h x (n * k.t.size) s1 nb := es
      obtain ⟨z, o, zs, zt⟩ := dp.own
      obtain ⟨inv1, len1, oth1, _, z', hz', _, _, _, _, m, hm, zc, _⟩ := dp
      have e : z' = z := by have := o.hb; rw [hz'] at this; exact Option.some.inj this
      refine ⟨inv1, len1, oth1, nb, z, m, o, zs, zt.trans xt, hm, ?_⟩
      rw [← e, zc, State.abs_of hh hb]

theorem uReserve_sem {s : State} (inv : Inv s) {h : Nat} (hlt : h < s.hs.length) (k : XKind) (pt : PlainT (some k.t))
    (hk : ∀ b x, s.handle h = some b → s.buf? b = some x → x.traits = some k.t) (n : Nat) :
    Sem s h (fun v v' => ∃ m, n * k.t.size ≤ m ∧ v' = v.take m) (uReserve s h k n) := by
  have rp := uReserve_post inv hlt k pt hk n
  generalize uReserve s h k n = r at rp
  cases r with
  | fault w => exact rp
  | fail s1 e => exact rp
  | ok s1 u =>
    obtain ⟨inv1, len1, oth1, nb, z, m, o, _, _, hm, zc⟩ := rp
    exact ⟨inv1, len1, ⟨m, hm, by rw [State.abs_of o.hh o.hb, zc]⟩, oth1⟩

theorem uDetach_sem {s : State} (inv : Inv s) {h : Nat} (hlt : h < s.hs.length) (k : XKind) (pt : PlainT (some k.t))
    (hk : ∀ b x, s.handle h = some b → s.buf? b = some x → x.traits = some k.t) :
    Sem s h (fun v v' => v' = v) (uDetach s h k) := by
  have sz0 := (pt k.t rfl).2.2
  unfold uDetach
  cases hh : s.handle h with
  | none =>
    simp only [xCreate]
    obtain ⟨dp, ab⟩ := attach_fresh_flags inv hlt hh (0 - 0 % k.t.size) (if k.unique then 2 else 0) (some k.t) pt
      (by cases k.unique <;> simp [Buf.immutable, State.fresh])
    obtain ⟨inv1, len1, oth1, hh1, z', hz', _, _, _, _, kk, _, zc, _⟩ := dp
    refine ⟨inv1, len1, ?_, oth1⟩
    rw [State.abs_of hh1 hz', zc, ab]
    simp [State.fresh, Buf.content]
  | some b =>
    simp only
    obtain ⟨x, hb⟩ := inv.live h b hh
    rw [hb]
    simp only
    have xt := hk b x hh hb
    have hu := inv.used b x hb
    have al := inv.aligned b x hb
    rw [xt] at al
    simp only [esize] at al
    have eu : x.used / k.t.size * k.t.size = x.used := by
      have := Nat.div_add_mod x.used k.t.size
      rw [al, Nat.mul_comm] at this; omega
    rw [eu]
    have es := ensure_sem inv hh hb true x.used (by intro c; cases c)
    generalize ensure s h b true x.used = r at es
    cases r with
    | fault w => exact es
    | fail s1 e => exact ⟨es.1, by rw [es.2.1], es.2.2⟩
    | ok s1 nb =>
      have dp : DetachPost s h x x.used s1 nb := es
      obtain ⟨z, hz, _, _, _, _, _, zc⟩ := dp.keeps hu (Nat.le_refl _)
      refine ⟨dp.1, dp.2.1, ?_, dp.2.2.1⟩
      rw [State.abs_of dp.2.2.2.1 hz, zc, State.abs_of hh hb]

/-- `content<T>::set_length(n)` on an owned buffer with room for `n` elements -/
theorem contentSetLength_own {s : State} {h nb : Nat} {z : Buf} {t : Traits} (inv : Inv s) (o : Own s h nb z) (zt : z.traits = some t)
    (pt : PlainT (some t)) (n : Nat) (fit : n * t.size ≤ z.size) :
    ∃ s', contentSetLength s nb n t.size = .ok s' () ∧ Inv s' ∧ s'.hs.length = s.hs.length ∧
      (∀ h', h' ≠ h → s'.abs h' = s.abs h') ∧
      s'.abs h = if n * t.size ≤ z.used then z.content.take (n * t.size) else Vec.padTo z.content (n * t.size) := by
  have sz0 := (pt t rfl).2.2
  have zu := inv.used nb z o.hb
  have zp := inv.plain nb z o.hb
  have za := inv.aligned nb z o.hb
  have cl := content_length z zu
  unfold contentSetLength
  rw [o.hb]
  simp only
  by_cases e : n * t.size = z.used
  · rw [if_pos e]
    refine ⟨s, rfl, inv, rfl, fun _ _ => rfl, ?_⟩
    rw [if_pos (by omega), State.abs_of o.hh o.hb, e]
    exact (List.take_of_length_le (by omega)).symm
  · rw [if_neg e]
    by_cases lt : n * t.size < z.used
    · rw [if_pos lt]
      unfold bufTrim
      rw [o.hb]
      simp only
      rw [if_neg (by omega)]
      have k1 : z.used - (z.used - n * t.size) = n * t.size := by omega
      simp only [zt, k1]
      have a2 : z.used % t.size = 0 := by rw [zt] at za; exact za
      rw [if_neg (by simp [sz0, a2, Nat.mul_mod_left])]
      simp only [(pt t rfl).2.1, Option.isSome_none, Bool.false_eq_true, if_false, o.hb]
      have up := o.update inv { z with used := n * t.size } o.ref rfl (by simp only [Buf.size]; simp only [Buf.size] at fit; exact fit)
        zp (by show (n * t.size) % esize z.traits = 0; rw [zt]; exact Nat.mul_mod_left _ _)
      obtain ⟨inv', _, abs', oth', len'⟩ := up
      refine ⟨_, rfl, inv', len', oth', ?_⟩
      rw [abs', if_pos (by omega)]
      simp only [Buf.content, List.take_take]
      rw [Nat.min_eq_left (by omega)]
    · rw [if_neg lt]
      have gt : z.used < n * t.size := by omega
      have bi := bufferInsert_plain_ok (s := s) o.hb zp (n * t.size) 0 (by omega) (by omega) o.wr za
        (by rw [zt]; exact Nat.mul_mod_left _ _) (by simp)
      rw [bi]
      simp only
      have ipc := insPlain_poke_content z (n * t.size) [] zu (by simp; omega)
      simp only [List.length_nil, write_nil] at ipc
      have up := o.update inv (insPlain z (n * t.size) 0) o.ref rfl
        (by
          simp only [Buf.size, ipc.2]
          show max z.used (n * t.size) + 0 ≤ z.data.length
          simp only [Buf.size] at fit; omega)
        zp
        (by
          show (max z.used (n * t.size) + 0) % esize z.traits = 0
          have : max z.used (n * t.size) + 0 = n * t.size := by omega
          rw [this, zt]; exact Nat.mul_mod_left _ _)
      obtain ⟨inv', _, abs', oth', len'⟩ := up
      refine ⟨_, rfl, inv', len', oth', ?_⟩
      rw [abs', if_neg (by omega)]
      show (insPlain z (n * t.size) 0).data.take (insPlain z (n * t.size) 0).used = _
      rw [ipc.1]
      simp only [Vec.insert, List.append_nil]
      rw [List.drop_of_length_le (by omega), List.append_nil]
      apply List.take_of_length_le
      rw [padTo_length']
      omega
where
  padTo_length' : ∀ {v : List Byte} {m : Nat}, (Vec.padTo v m).length = max v.length m := by
    intro v m; simp [Vec.padTo, Vec.zeros]; omega


theorem take_min_length (v : List Byte) (m : Nat) : (v.take m).length = min m v.length := List.length_take

/-- `unique_array::resize(n)`: exactly `n` elements afterwards, new ones zero -/
theorem uResize_sem {s : State} (inv : Inv s) {h : Nat} (hlt : h < s.hs.length) (k : XKind) (pt : PlainT (some k.t))
    (hk : ∀ b x, s.handle h = some b → s.buf? b = some x → x.traits = some k.t) (n : Nat) :
    Sem s h (fun v v' => v' = if n * k.t.size ≤ v.length then v.take (n * k.t.size) else Vec.padTo v (n * k.t.size))
      (uResize s h k n) := by
  unfold uResize
  have rp := uReserve_post inv hlt k pt hk n
  generalize uReserve s h k n = r at rp
  cases r with
  | fault w => exact rp
  | fail s1 e => exact rp
  | ok s1 u =>
    obtain ⟨inv1, len1, oth1, nb, z, m, o, zs, zt, hm, zc⟩ := rp
    simp only [o.hh]
    obtain ⟨s2, q, inv2, len2, oth2, abs2⟩ := contentSetLength_own inv1 o zt pt n zs
    rw [q]
    refine ⟨inv2, by rw [len2, len1], ?_, fun h' ne => by rw [oth2 h' ne]; exact oth1 h' ne⟩
    show s2.abs h = if n * k.t.size ≤ (s.abs h).length then (s.abs h).take (n * k.t.size) else Vec.padTo (s.abs h) (n * k.t.size)
    rw [abs2]
    have zu := inv1.used nb z o.hb
    have cl := content_length z zu
    rw [zc, take_min_length] at cl
    by_cases c : n * k.t.size ≤ z.used
    · rw [if_pos c, if_pos (by omega), zc, List.take_take, Nat.min_eq_left hm]
    · rw [if_neg c, if_neg (by omega), zc]
      congr 1
      exact List.take_of_length_le (by omega)

theorem placeElem_plain (s : State) (h nb p : Nat) (k : XKind) (val : List Byte) (pt : PlainT (some k.t)) :
    placeElem s h nb p k (some val) none = poke s h p val := by
  unfold placeElem
  have := (pt k.t rfl).1
  simp [this]

theorem insertPos_need {len : Nat} {pos : Int} {p need : Nat} (e : insertPos len pos = some (p, need)) : max len p + 1 ≤ need := by
  unfold insertPos at e
  have c : Int.ofNat len = (len : Int) := rfl
  split at e
  · split at e
    · cases e
    · cases e; omega
  · cases e; omega

/-- `typed_array::insert(pos, val)` / `unique_array::insert(pos)` + assignment, plain element types -/
theorem uInsert_sem {s : State} (inv : Inv s) {h : Nat} (hlt : h < s.hs.length) (k : XKind) (pt : PlainT (some k.t))
    (hk : ∀ b x, s.handle h = some b → s.buf? b = some x → x.traits = some k.t) (pos : Int) (val : List Byte)
    (vl : val.length = k.t.size) :
    Sem s h (fun v v' => ∃ p need, insertPos (v.length / k.t.size) pos = some (p, need) ∧ v' = Vec.insert v (p * k.t.size) val)
      (uInsert s h k pos (some val) none) := by
  have sz0 := (pt k.t rfl).2.2
  have xl : xLength s h k = (s.abs h).length / k.t.size := by
    unfold xLength
    cases hh : s.handle h with
    | none => simp [State.abs_none hh]
    | some b =>
      obtain ⟨x, hb⟩ := inv.live h b hh
      simp only [Option.bind_some, hb]
      rw [State.abs_of hh hb, content_length x (inv.used b x hb)]
  have al : (s.abs h).length % k.t.size = 0 := by
    cases hh : s.handle h with
    | none => simp [State.abs_none hh]
    | some b =>
      obtain ⟨x, hb⟩ := inv.live h b hh
      have := inv.aligned b x hb
      rw [hk b x hh hb] at this
      rw [State.abs_of hh hb, content_length x (inv.used b x hb)]
      exact this
  unfold uInsert
  rw [xl]
  cases hip : insertPos ((s.abs h).length / k.t.size) pos with
  | none => exact Sem.fail_same inv _ _ _
  | some pn =>
    obtain ⟨p, need⟩ := pn
    simp only
    have nd := insertPos_need hip
    have rp : ReservePost s h k need (uReserve s h k need) := uReserve_post inv hlt k pt hk need
    -- we need the `DetachPost` form for the insertion lemma: redo the reservation at that level
    unfold uReserve at rp ⊢
    have lenv : (s.abs h).length / k.t.size * k.t.size = (s.abs h).length := by
      have := Nat.div_add_mod (s.abs h).length k.t.size
      rw [al, Nat.mul_comm] at this; omega
    have big : (s.abs h).length + k.t.size ≤ need * k.t.size ∧ p * k.t.size + k.t.size ≤ need * k.t.size := by
      have h1 : (max ((s.abs h).length / k.t.size) p + 1) * k.t.size ≤ need * k.t.size := Nat.mul_le_mul_right _ nd
      rw [Nat.add_mul, Nat.one_mul] at h1
      have h2 : (s.abs h).length / k.t.size * k.t.size ≤ max ((s.abs h).length / k.t.size) p * k.t.size :=
        Nat.mul_le_mul_right _ (Nat.le_max_left _ _)
      have h3 : p * k.t.size ≤ max ((s.abs h).length / k.t.size) p * k.t.size :=
        Nat.mul_le_mul_right _ (Nat.le_max_right _ _)
      omega
    have fin : ∀ (s1 : State) (nb : Nat) (x0 : Buf), DetachPost s h x0 (need * k.t.size) s1 nb → s.abs h = x0.content →
        x0.used ≤ x0.size → x0.used % esize x0.traits = 0 →
        Sem s h (fun v v' => ∃ p need, insertPos (v.length / k.t.size) pos = some (p, need) ∧ v' = Vec.insert v (p * k.t.size) val)
          (match s1.handle h with
           | none => (.fault "insert: no buffer" : Out Unit)
           | some nb =>
             match bufferInsert s1 nb (p * k.t.size) k.t.size with
             | .ok s2 off => placeElem s2 h nb off k (some val) none
             | .fail s2 e => .fail s2 e
             | .fault w => .fault w) := by
      intro s1 nb x0 dp ab hu0 al0
      rw [dp.2.2.2.1]
      simp only
      have cl0 := content_length x0 hu0
      rw [← ab] at cl0
      have ips := insert_private_sem (s := s) (h := h) (p * k.t.size) val hu0 al0 ab dp (by rw [vl, ← cl0]; omega)
      rw [vl] at ips
      have key : Sem s h (fun v v' => v' = Vec.insert v (p * k.t.size) val)
          (match bufferInsert s1 nb (p * k.t.size) k.t.size with
           | .ok s2 off => placeElem s2 h nb off k (some val) none
           | .fail s2 e => .fail s2 e
           | .fault w => .fault w) := by
        cases hbi : bufferInsert s1 nb (p * k.t.size) k.t.size with
        | fault w => rw [hbi] at ips; exact ips
        | fail s2 e => rw [hbi] at ips; exact ips
        | ok s2 off =>
          rw [hbi] at ips
          simp only at ips ⊢
          rw [placeElem_plain _ _ _ _ _ _ pt]
          cases hpk : poke s2 h off val with
          | fault w => rw [hpk] at ips; exact ips
          | fail s3 e => rw [hpk] at ips; exact ips
          | ok s3 u => rw [hpk] at ips; exact ips
      generalize (match bufferInsert s1 nb (p * k.t.size) k.t.size with
           | .ok s2 off => placeElem s2 h nb off k (some val) none
           | .fail s2 e => .fail s2 e
           | .fault w => .fault w) = r at key
      cases r with
      | fault w => exact key
      | fail s3 e => exact key
      | ok s3 u => exact ⟨key.1, key.2.1, ⟨p, need, hip, key.2.2.1⟩, key.2.2.2⟩
    cases hh : s.handle h with
    | none =>
      simp only [xCreate]
      have lm : need * k.t.size - need * k.t.size % k.t.size = need * k.t.size := by rw [Nat.mul_mod_left]; rfl
      rw [lm]
      obtain ⟨dp, ab⟩ := attach_fresh_flags inv hlt hh (need * k.t.size) (if k.unique then 2 else 0) (some k.t) pt
        (by cases k.unique <;> simp [Buf.immutable, State.fresh])
      exact fin _ _ _ dp ab (by simp [State.fresh]) (by simp [State.fresh])
    | some b =>
      simp only
      obtain ⟨x, hb⟩ := inv.live h b hh
      have es := ensure_sem inv hh hb true (need * k.t.size) (by intro c; cases c)
      generalize ensure s h b true (need * k.t.size) = r at es
      cases r with
      | fault w => exact es
      | fail s1 e => exact ⟨es.1, by rw [es.2.1], es.2.2⟩
      | ok s1 nb => exact fin s1 nb x es (State.abs_of hh hb) (inv.used b x hb) (inv.aligned b x hb)

end Mpt.Heap
