/-
  Helper lemmas for C02, liveness (core Lean only): a decode queue that holds a complete frame of a valid
  stream delivers its message with the next `mpt_queue_recv`, given free space when the decoder asks for it.
-/
import MptModel.Lemmas.DecodeLiveCall
import MptModel.Lemmas.CodedQueueRun
namespace Mpt.Codec
open Mpt.Cobs

/-- an inline zero in a frame the reference decoder accepts is the tail form: impossible without tail inlining -/
theorem md_invalid (v : Variant) (c0 : Byte) (U rest body junk out : List Byte) (code pos : Nat) (m : List Byte)
    (hc0 : c0 ≠ 0) (hnz : ∀ x ∈ body, x ≠ 0) (hU : U ++ rest = body ++ 0 :: junk)
    (hm : mach v c0.toNat 0 U = .zeroIn out code pos) (ht : v.tail = false)
    (hdec : dec v (c0 :: body ++ [0]) = some m) : False := by
  have hms := mach_spec v (body.length + 2) c0 body junk hnz (by omega)
  rw [← dec_frame v c0 body hc0 hnz, ← hU, (mach_ext v U rest c0.toNat 0).2 _ _ _ hm] at hms
  simp only [MRes.agrees, ht, Bool.false_eq_true, if_false] at hms
  rw [hdec] at hms; cases hms

/-- the decoder selected by the variant stands on an inline zero only if the regular decoder does -/
theorem decodeV_md (v : Variant) (st : DecState) (segs : List Seg) (h : (decodeV v st segs false).ret = .err .MissingData) :
    decodeV v st segs false = decodeCobs v st segs false := by
  by_cases hmd : (decodeCobs v st segs false).ret = .err .MissingData
  · unfold decodeV at h ⊢
    split at h
    · rename_i ht
      simp only [ht, if_true]
      unfold decodeCobsR at h ⊢
      simp only at h ⊢
      split at h
      · split at h
        · cases h
        · split at h <;> cases h
      · rename_i hn
        rw [if_neg hn]
    · rename_i ht
      simp only [ht]; rfl
  · exact decodeV_eq_of_ret v st segs hmd

/-- consumed non-zero bytes in front of a zero-free prefix and its zero -/
theorem split_mid : ∀ (mid X pre junk : List Byte), (∀ x ∈ mid, x ≠ 0) → mid ++ X = pre ++ 0 :: junk →
    ∃ pre', X = pre' ++ 0 :: junk ∧ pre = mid ++ pre' := by
  intro mid
  induction mid with
  | nil => intro X pre junk _ h; exact ⟨pre, by simpa using h, rfl⟩
  | cons a as ih =>
    intro X pre junk hnz h
    cases pre with
    | nil =>
      simp only [List.cons_append, List.nil_append, List.cons.injEq] at h
      exact absurd h.1 (hnz a (by simp))
    | cons p0 ps =>
      simp only [List.cons_append, List.cons.injEq] at h
      obtain ⟨pre', e1, e2⟩ := ih X ps junk (fun x hx => hnz x (by simp [hx])) h.2
      exact ⟨pre', e1, by rw [h.1, e2]; rfl⟩

end Mpt.Codec

namespace Mpt.CQ
open Mpt Mpt.Cobs Mpt.Codec Mpt.Ring Mpt.Stream

/-- facts about one decoder call of a receiver whose queue holds the rest of frame `k` up to its delimiter -/
structure LiveCall (v : Variant) (st : DecState) (o : DecOut) (pre junk : List Byte) : Prop where
  ok : SlackOk v o.st
  ret : o.ret = .val 1 ∨ o.ret = .err .MissingBuffer
  enough : st.msg = none → st.ctx ≠ 0 → pre.length + 2 ≤ st.curr - (st.pos + st.len) → o.ret = .val 1
  rest : o.ret ≠ .val 1 → ∃ pre', o.store.drop o.st.curr = pre' ++ 0 :: junk ∧ (∀ x ∈ pre', x ≠ 0) ∧ pre'.length ≤ pre.length
  open_ : o.ret ≠ .val 1 → o.st.ctx ≠ 0 ∧ o.st.msg = none

theorem phase_live (v : Variant) (frames : List (List Byte)) (ms : List Msg) (hcar : Carries v frames ms)
    (st : DecState) (content fed future : List Byte) (hfut : fed ++ future = frames.flatten) (k : Nat)
    (segs : List Seg) (hflat : flat segs = content) (hb : Bnd content.length st) (hs : SlackOk v st)
    (hph : Phase v frames st content fed k)
    (pre junk : List Byte) (hun : content.drop st.curr = pre ++ 0 :: junk) (hnz : ∀ x ∈ pre, x ≠ 0) :
    LiveCall v st (decodeV v st segs false) pre junk := by
  cases hph with
  | idle hf hcl hfed =>
    have hs1 : (frames.take k).flatten ++ (pre ++ 0 :: junk) ++ future = frames.flatten := by
      rw [← hun, hfed]; exact hfut
    obtain ⟨m, b0, body, _, hb0, hbnz, hdec, _, hX⟩ := stream_at hcar k _ future hs1 (by simp)
    cases pre with
    | nil =>
      simp only [List.nil_append, List.cons_append, List.cons.injEq] at hX
      exact absurd hX.1.symm hb0
    | cons c0 pre' =>
      simp only [List.cons_append, List.cons.injEq] at hX
      obtain ⟨rfl, hX2⟩ := hX
      have hUdef : content.drop st.curr = c0 :: (pre' ++ 0 :: junk) := by rw [hun]; rfl
      have h0 := fresh_call0 v segs st content hflat hb hf c0 _ hUdef hb0
      have hout := lift_out v st segs c0.toNat _ content (st.curr + 1) hf.wf h0
      have hl := lift_live v st segs 0 _ hf.wf (fresh_live0 v segs st content hflat hb hf c0 _ hUdef hb0)
      have hnz' : ∀ x ∈ pre', x ≠ 0 := fun x hx => hnz x (by simp [hx])
      obtain ⟨hr, _⟩ := hl.live pre' junk rfl hnz'
      have hret : (decodeV v st segs false).ret = .val 1 ∨ (decodeV v st segs false).ret = .err .MissingBuffer := by
        rcases hr with a | a | ⟨a, b⟩
        · exact Or.inl a
        · exact Or.inr a
        · exfalso
          have he := decodeV_md v st segs a
          rw [he] at a b
          obtain ⟨code, pos, e1, _, e3⟩ := h0.res.md a
          rcases b with b | b
          · exact md_invalid v c0 _ future body _ _ code pos m hb0 hbnz (by simpa using hX2) e1 b (by simpa using hdec)
          · exact e3 b
      have hopen : (decodeV v st segs false).ret ≠ .val 1 →
          (decodeV v st segs false).st.ctx ≠ 0 ∧ (decodeV v st segs false).st.msg = none := by
        intro hne
        obtain ⟨a, _, c, p, e, h0', _⟩ := hout.hist hne
        exact ⟨by rw [e]; omega, a⟩
      refine ⟨hl.ok, hret, fun _ hc => absurd hf.ctx hc, fun hne => ?_, hopen⟩
      obtain ⟨mid, hmid, hmnz⟩ := hout.scan.split.1 hne
      have hd1 : content.drop (st.curr + 1) = pre' ++ 0 :: junk := by
        have := congrArg (List.drop 1) hUdef
        simpa [List.drop_drop, Nat.add_comm] using this
      rw [hd1] at hmid
      obtain ⟨p2, e1, e2⟩ := split_mid mid _ pre' junk hmnz hmid.symm
      refine ⟨p2, by rw [hout.scan.unread]; exact e1, fun x hx => hnz' x (by rw [e2]; simp [hx]), ?_⟩
      rw [e2]; simp only [List.length_cons, List.length_append]; omega
  | busy c0 Uc hc0 hnzc hh hfed =>
    have hb' : Bnd (content ++ []).length st := by simpa using hb
    have h0 := mid_call0 v segs st content [] c0.toNat (Uc ++ content.drop st.curr) (by simpa using hflat) hb' hh
    simp only [List.append_nil] at h0
    have hwf : ∀ m, st.msg = some m → m = st.len := by intro m hm; rw [hh.msg] at hm; cases hm
    have hout := lift_out v st segs c0.toNat _ content st.curr hwf h0
    obtain ⟨hmsg, _, c, p, hctx, hcp, hc, hp, _⟩ := hh
    have hl := lift_live v st segs _ _ hwf (mid_live0 v segs st content c p hflat hb hs hmsg hctx hcp hc hp)
    obtain ⟨hr, hen⟩ := hl.live pre junk hun hnz
    have hs1 : (frames.take k).flatten ++ (c0 :: (Uc ++ content.drop st.curr)) ++ future = frames.flatten := by
      rw [hfed]; exact hfut
    obtain ⟨m, b0, body, _, hb0, hbnz, hdec, _, hX⟩ := stream_at hcar k _ future hs1 (by simp)
    simp only [List.cons_append, List.cons.injEq] at hX
    obtain ⟨rfl, hX2⟩ := hX
    have hret : (decodeV v st segs false).ret = .val 1 ∨ (decodeV v st segs false).ret = .err .MissingBuffer := by
      rcases hr with a | a | ⟨a, b⟩
      · exact Or.inl a
      · exact Or.inr a
      · exfalso
        have he := decodeV_md v st segs a
        rw [he] at a b
        obtain ⟨code, pos, e1, _, e3⟩ := h0.res.md a
        rcases b with b | b
        · exact md_invalid v c0 _ future body _ _ code pos m hb0 hbnz (by simpa using hX2) e1 b (by simpa using hdec)
        · exact e3 b
    have hopen : (decodeV v st segs false).ret ≠ .val 1 →
        (decodeV v st segs false).st.ctx ≠ 0 ∧ (decodeV v st segs false).st.msg = none := by
      intro hne
      obtain ⟨a, _, c', p', e, h0', _⟩ := hout.hist hne
      exact ⟨by rw [e]; omega, a⟩
    refine ⟨hl.ok, hret, fun _ _ hsl => ?_, fun hne => ?_, hopen⟩
    · rcases hret with a | a
      · exact a
      · exact absurd a (hen hsl)
    · obtain ⟨mid, hmid, hmnz⟩ := hout.scan.split.1 hne
      rw [hun] at hmid
      obtain ⟨p2, e1, e2⟩ := split_mid mid _ pre junk hmnz hmid.symm
      refine ⟨p2, by rw [hout.scan.unread]; exact e1, fun x hx => hnz x (by rw [e2]; simp [hx]), ?_⟩
      rw [e2]; simp only [List.length_append]; omega

/-- the work area invariant is kept by every decoder call of a receiver in a valid stream -/
theorem phase_slack (v : Variant) (frames : List (List Byte)) (ms : List Msg) (hcar : Carries v frames ms)
    (st : DecState) (content fed future : List Byte) (hfut : fed ++ future = frames.flatten) (k : Nat)
    (segs : List Seg) (hflat : flat segs = content) (hb : Bnd content.length st) (hs : SlackOk v st)
    (hph : Phase v frames st content fed k) : SlackOk v (decodeV v st segs false).st := by
  cases hph with
  | idle hf hcl hfed =>
    cases hun : content.drop st.curr with
    | nil =>
      obtain ⟨e1, e2, _, _, _⟩ := fresh_call_nil v segs st content hflat hb hf hun
      rw [decodeV_eq_of_ret v st segs (by rw [e1]; simp)]
      exact slackOk_ctx0 v _ e2.ctx
    | cons b U =>
      have hs1 : (frames.take k).flatten ++ (b :: U) ++ future = frames.flatten := by
        rw [← hun, hfed]; exact hfut
      obtain ⟨m, b0, body, _, hb0, _, _, _, hX⟩ := stream_at hcar k _ future hs1 (by simp)
      simp only [List.cons_append, List.cons.injEq] at hX
      obtain ⟨rfl, _⟩ := hX
      exact (lift_live v st segs 0 _ hf.wf (fresh_live0 v segs st content hflat hb hf b U hun hb0)).ok
  | busy c0 Uc hc0 hnzc hh hfed =>
    obtain ⟨hmsg, _, c, p, hctx, hcp, hc, hp, _⟩ := hh
    exact (lift_live v st segs _ _ (by intro m hm; rw [hmsg] at hm; cases hm)
      (mid_live0 v segs st content c p hflat hb hs hmsg hctx hcp hc hp)).ok

/-- the work area invariant on the queue -/
theorem decCall_slack (v : Variant) (frames : List (List Byte)) (ms : List Msg) (hcar : Carries v frames ms)
    (q : DecodeQueue) (fed future : List Byte) (hfut : fed ++ future = frames.flatten) (k : Nat) (h : DInv q)
    (hs : SlackOk v q.st) (hph : Phase v frames q.st q.ring.content fed k) : SlackOk v (decCall v q).1.st := by
  have hflat := flat_segsOf q.ring h.wf q.base
  have hcl := content_length q.ring h.wf.1 h.wf.2
  have hb : Bnd q.ring.content.length q.st := by rw [hcl]; exact h.bnd
  exact phase_slack v frames ms hcar q.st q.ring.content fed future hfut k (segsOf q.ring q.base) hflat hb hs hph

theorem slackOk_shift {v : Variant} {st : DecState} (h : SlackOk v st) (n p' : Nat) (hn : n ≤ st.curr)
    (hp : st.ctx ≠ 0 → n ≤ st.pos ∧ p' = st.pos - n) : SlackOk v { st with curr := st.curr - n, pos := p' } := by
  refine ⟨h.1, fun hlt => ?_⟩
  simp only at hlt ⊢
  have hne : st.ctx ≠ 0 := by
    intro h0
    rw [h0] at hlt
    simp only [Nat.zero_div, Nat.zero_mod, lenData_zero] at hlt
    omega
  obtain ⟨a, b⟩ := hp hne
  have := h.2 hlt
  omega

/-- the queue after the `MissingBuffer` recovery has enlarged the work area (before the retry) -/
def retryQ (q : DecodeQueue) : DecodeQueue :=
  match q.ring.qpre (q.ring.max - q.ring.len) with
  | .ok (r1, _) =>
    match moveBack r1 (q.ring.max - q.ring.len) q.st.pos q.st.len with
    | .ok r2 => { q with ring := r2, st := { q.st with curr := q.st.curr + (q.ring.max - q.ring.len) } }
    | _ => q
  | _ => q

theorem recvRetry_eq (v : Variant) (q : DecodeQueue) (h : DInv q) (hfull : q.ring.len < q.ring.store.length) :
    recvRetry v q = afterCall (decCall v (retryQ q)).1 (decCall v (retryQ q)).2 ∧
    DInv (retryQ q) ∧ (retryQ q).codec = q.codec ∧ (retryQ q).base = q.base ∧
    (retryQ q).st = { q.st with curr := q.st.curr + (q.ring.store.length - q.ring.len) } ∧
    (retryQ q).ring.store.length = q.ring.store.length ∧ (retryQ q).ring.len = q.ring.store.length ∧
    (retryQ q).ring.content.drop (q.st.curr + (q.ring.store.length - q.ring.len)) = q.ring.content.drop q.st.curr ∧
    ((retryQ q).ring.content.drop q.st.pos).take q.st.len = (q.ring.content.drop q.st.pos).take q.st.len := by
  have hle := h.bnd.le
  have htot := h.bnd.tot
  have hcl := content_length q.ring h.wf.1 h.wf.2
  obtain ⟨r1, kk, he, hwf1, hs1, hl1, hc1⟩ := qpre_ok q.ring h.wf (q.ring.store.length - q.ring.len) hfull (Nat.le_refl _)
  obtain ⟨r2, hmv, hwf2, hs2, hl2, ho2, hel2⟩ := moveBack_content (q.ring.store.length - q.ring.len) q.st.len r1 q.st.pos hwf1
    (by rw [hl1]; omega)
  have hq : retryQ q = { q with ring := r2, st := { q.st with curr := q.st.curr + (q.ring.store.length - q.ring.len) } } := by
    unfold retryQ
    simp only [Ring.max, he, hmv]
  have hold : ∀ i, r1.content[i + (q.ring.store.length - q.ring.len)]? = q.ring.content[i]? := by
    intro i
    have := congrArg (fun x => x[i]?) hc1
    simp only [List.getElem?_drop] at this
    rw [← this]; congr 1; omega
  rw [hq]
  refine ⟨?_, ⟨hwf2, ⟨by simp only; omega, by simp only; rw [hl2, hl1]; omega, h.bnd.msg⟩⟩, rfl, rfl, rfl,
    by simp only; rw [hs2, hs1], by simp only; rw [hl2, hl1]; have := h.wf.1; omega, ?_, ?_⟩
  · unfold recvRetry afterCall
    simp only [Ring.max, he, hmv]
    generalize decCall v { q with ring := r2, st := { q.st with curr := q.st.curr + (q.ring.store.length - q.ring.len) } } = dc
    obtain ⟨q3, ret⟩ := dc
    cases ret <;> rfl
  · simp only
    apply List.ext_getElem?; intro i
    rw [List.getElem?_drop, List.getElem?_drop, hel2, if_neg (by omega), ← hold]
    congr 1; omega
  · simp only
    apply List.ext_getElem?; intro i
    rw [List.getElem?_take, List.getElem?_take, List.getElem?_drop, List.getElem?_drop]
    by_cases hi : i < q.st.len
    · rw [if_pos hi, if_pos hi, hel2, if_pos (by omega), hold]
    · rw [if_neg hi, if_neg hi]

theorem queueRecv_unfold (v : Variant) (q : DecodeQueue) (hc : q.codec = some v) (h0 : q.ring.len ≠ 0) :
    queueRecv q =
      if (decCall v q).2 = .err .MissingBuffer ∧ (decCall v q).1.ring.len < (decCall v q).1.ring.max then
        recvRetry v (decCall v q).1
      else afterCall (decCall v q).1 (decCall v q).2 := by
  unfold queueRecv afterCall
  rw [if_neg h0, hc]
  simp only
  generalize decCall v q = dc
  obtain ⟨q1, ret⟩ := dc
  cases ret with
  | val n => simp
  | err e =>
    simp only
    by_cases he : e = .MissingBuffer
    · subst he
      simp only [ne_eq, not_true_eq_false, if_false, true_and]
      by_cases hf : q1.ring.len ≥ q1.ring.max
      · rw [if_pos hf, if_neg (by omega)]
      · rw [if_neg hf, if_pos (by omega)]
    · rw [if_pos he, if_neg (by intro hh; exact he (by cases hh.1; rfl))]
  | oob => simp
  | clobber => simp

theorem recvDone_eq (q1 : DecodeQueue) (h : DInv q1) :
    ∃ n p' r', recvDone q1 = .ok ({ q1 with ring := r', st := { q1.st with curr := q1.st.curr - n, pos := p' } },
        if q1.st.msg.isSome then 1 else 0) ∧
      n ≤ q1.st.curr ∧ (q1.st.ctx ≠ 0 → n ≤ q1.st.pos ∧ p' = q1.st.pos - n) := by
  obtain ⟨n, p', r', he, _, hn, hp, _⟩ := queueShift_eff q1 h
  refine ⟨n, p', r', ?_, hn, hp⟩
  unfold recvDone
  rw [he]

/-- the work area invariant behind a decoder call of `mpt_queue_recv` -/
theorem afterCall_slack (v : Variant) (q1 : DecodeQueue) (ret : DecRet) (h : DInv q1) (hs : SlackOk v q1.st)
    (q' : DecodeQueue) (r : Int) (he : afterCall q1 ret = .ok (q', r)) : SlackOk v q'.st := by
  unfold afterCall at he
  cases ret with
  | val n =>
    obtain ⟨k, p', r', e, hn, hp⟩ := recvDone_eq q1 h
    simp only at he
    rw [e] at he
    cases he
    exact slackOk_shift hs k p' hn hp
  | err e => cases he; exact hs
  | oob => cases he
  | clobber => cases he

theorem slackOk_grow {v : Variant} {st : DecState} (h : SlackOk v st) (add : Nat) :
    SlackOk v { st with curr := st.curr + add } := by
  refine ⟨h.1, fun hlt => ?_⟩
  have := h.2 hlt
  simp only; omega

/-- `mpt_queue_recv` keeps the work area invariant -/
theorem queueRecv_slack (v : Variant) (frames : List (List Byte)) (ms : List Msg) (hcar : Carries v frames ms)
    (q : DecodeQueue) (hc : q.codec = some v) (fed future : List Byte) (hfut : fed ++ future = frames.flatten) (k : Nat)
    (h : DInv q) (hs : SlackOk v q.st) (hph : Phase v frames q.st q.ring.content fed k)
    (q' : DecodeQueue) (r : Int) (he : queueRecv q = .ok (q', r)) : SlackOk v q'.st := by
  by_cases h0 : q.ring.len = 0
  · unfold queueRecv at he
    rw [if_pos h0] at he
    split at he
    · cases he; exact ⟨hs.1, hs.2⟩
    · cases he; exact hs
  rw [queueRecv_unfold v q hc h0] at he
  obtain ⟨hi1, hsl1, hl1, _, _, _⟩ := decCall_inv v q h
  have hs1 := decCall_slack v frames ms hcar q fed future hfut k h hs hph
  obtain ⟨hp0, _⟩ := decCall_phase v frames ms hcar q fed future hfut k h hph
  split at he
  · rename_i hcond
    obtain ⟨hmb, hnf⟩ := hcond
    obtain ⟨hph1, _⟩ := hp0 (by rw [hmb]; simp)
    obtain ⟨e1, hi2, _, _, hst2, _, _, hun2, hreg2⟩ := recvRetry_eq v (decCall v q).1 hi1 (by simpa [Ring.max] using hnf)
    rw [e1] at he
    have hs2 : SlackOk v (retryQ (decCall v q).1).st := by rw [hst2]; exact slackOk_grow hs1 _
    have hcl2 := content_length (retryQ (decCall v q).1).ring hi2.wf.1 hi2.wf.2
    have hph2 : Phase v frames (retryQ (decCall v q).1).st (retryQ (decCall v q).1).ring.content fed k := by
      rw [hst2]
      exact hph1.move _ (by have := hi2.bnd.tot; rw [hst2] at this; simpa [hcl2] using this) hun2 hreg2
    have hs3 := decCall_slack v frames ms hcar _ fed future hfut k hi2 hs2 hph2
    obtain ⟨hi3, _⟩ := decCall_inv v _ hi2
    exact afterCall_slack v _ _ hi3 hs3 q' r he
  · exact afterCall_slack v _ _ hi1 hs1 q' r he

/-- one decoder call on a queue that holds the rest of frame `k` up to its delimiter -/
theorem decCall_live (v : Variant) (frames : List (List Byte)) (ms : List Msg) (hcar : Carries v frames ms)
    (q : DecodeQueue) (fed future : List Byte) (hfut : fed ++ future = frames.flatten) (k : Nat) (h : DInv q)
    (hs : SlackOk v q.st) (hph : Phase v frames q.st q.ring.content fed k)
    (pre junk : List Byte) (hun : q.ring.content.drop q.st.curr = pre ++ 0 :: junk) (hnz : ∀ x ∈ pre, x ≠ 0) :
    ((decCall v q).2 = .val 1 ∨ (decCall v q).2 = .err .MissingBuffer) ∧
    (q.st.msg = none → q.st.ctx ≠ 0 → pre.length + 2 ≤ q.st.curr - (q.st.pos + q.st.len) → (decCall v q).2 = .val 1) ∧
    ((decCall v q).2 ≠ .val 1 → (decCall v q).1.st.ctx ≠ 0 ∧ (decCall v q).1.st.msg = none ∧
      ∃ pre', (decCall v q).1.ring.content.drop (decCall v q).1.st.curr = pre' ++ 0 :: junk ∧ (∀ x ∈ pre', x ≠ 0) ∧
        pre'.length ≤ pre.length) := by
  have hflat := flat_segsOf q.ring h.wf q.base
  have hcl := content_length q.ring h.wf.1 h.wf.2
  have hb : Bnd q.ring.content.length q.st := by rw [hcl]; exact h.bnd
  have hsafe := decodeV_safe v q.st (segsOf q.ring q.base) false h.bnd.msg
  have hsl : (decodeV v q.st (segsOf q.ring q.base) false).store.length = q.ring.len := by
    have := hsafe.len; simpa [hflat, hcl] using this
  obtain ⟨_, hpc⟩ := putContent_spec q.ring h.wf _ hsl
  have hl := phase_live v frames ms hcar q.st q.ring.content fed future hfut k (segsOf q.ring q.base) hflat hb hs hph pre junk hun hnz
  unfold decCall
  simp only [hpc]
  refine ⟨hl.ret, hl.enough, fun hne => ?_⟩
  obtain ⟨a, b⟩ := hl.open_ hne
  exact ⟨a, b, hl.rest hne⟩

/-- **`mpt_queue_recv` delivers**: the queue holds the rest of frame `k` of a valid stream up to its delimiter,
    and has free space for the work area the decoder may ask for (two bytes more than the bytes in front of
    the delimiter always suffice): the call returns 1 -/
theorem queueRecv_live (v : Variant) (frames : List (List Byte)) (ms : List Msg) (hcar : Carries v frames ms)
    (q : DecodeQueue) (hc : q.codec = some v) (fed future : List Byte) (hfut : fed ++ future = frames.flatten) (k : Nat)
    (h : DInv q) (hs : SlackOk v q.st) (hph : Phase v frames q.st q.ring.content fed k)
    (pre junk : List Byte) (hun : q.ring.content.drop q.st.curr = pre ++ 0 :: junk) (hnz : ∀ x ∈ pre, x ≠ 0)
    (hfree : pre.length + 2 ≤ q.ring.store.length - q.ring.len) :
    ∃ q', queueRecv q = .ok (q', 1) := by
  have hcl := content_length q.ring h.wf.1 h.wf.2
  have h0 : q.ring.len ≠ 0 := by
    intro hz
    have := congrArg List.length hun
    rw [List.length_drop, hcl, hz] at this
    simp at this
  rw [queueRecv_unfold v q hc h0]
  obtain ⟨hi1, hsl1, hl1, _, _, _⟩ := decCall_inv v q h
  have hs1 := decCall_slack v frames ms hcar q fed future hfut k h hs hph
  obtain ⟨hp0, hp1⟩ := decCall_phase v frames ms hcar q fed future hfut k h hph
  obtain ⟨hret, _, hrest⟩ := decCall_live v frames ms hcar q fed future hfut k h hs hph pre junk hun hnz
  -- a delivering decoder call makes the receive return 1
  have hdone : ∀ (qx : DecodeQueue), DInv qx → qx.st.msg = some qx.st.len → ∃ q', afterCall qx (.val 1) = .ok (q', 1) := by
    intro qx hix hm
    obtain ⟨n, p', r', e, _, _⟩ := recvDone_eq qx hix
    unfold afterCall
    simp only
    rw [e]
    have h1 : (if qx.st.msg.isSome = true then (1 : Int) else 0) = 1 := by rw [hm]; rfl
    rw [h1]
    exact ⟨_, rfl⟩
  rcases hret with h1 | hmb
  · rw [if_neg (by rw [h1]; simp), h1]
    exact hdone _ hi1 (hp1 h1).2.2
  · rw [if_pos ⟨hmb, by simp only [Ring.max]; rw [hl1, hsl1]; omega⟩]
    obtain ⟨hph1, _⟩ := hp0 (by rw [hmb]; simp)
    obtain ⟨hctx1, hmsg1, pre', hun1, hnz1, hlen1⟩ := hrest (by rw [hmb]; simp)
    obtain ⟨e1, hi2, _, _, hst2, _, _, hun2, hreg2⟩ := recvRetry_eq v (decCall v q).1 hi1 (by rw [hl1, hsl1]; omega)
    rw [e1]
    have hs2 : SlackOk v (retryQ (decCall v q).1).st := by rw [hst2]; exact slackOk_grow hs1 _
    have hcl2 := content_length (retryQ (decCall v q).1).ring hi2.wf.1 hi2.wf.2
    have hph2 : Phase v frames (retryQ (decCall v q).1).st (retryQ (decCall v q).1).ring.content fed k := by
      rw [hst2]
      exact hph1.move _ (by have := hi2.bnd.tot; rw [hst2] at this; simpa [hcl2] using this) hun2 hreg2
    obtain ⟨hp20, hp21⟩ := decCall_phase v frames ms hcar _ fed future hfut k hi2 hph2
    obtain ⟨_, hen2, _⟩ := decCall_live v frames ms hcar _ fed future hfut k hi2 hs2 hph2 pre' junk
      (by rw [hst2]; simp only; rw [hun2]; exact hun1) hnz1
    have hle1 := hi1.bnd.le
    have h21 : (decCall v (retryQ (decCall v q).1)).2 = .val 1 := by
      apply hen2
      · rw [hst2]; exact hmsg1
      · rw [hst2]; exact hctx1
      · rw [hst2]; simp only
        rw [hl1, hsl1]; omega
    obtain ⟨hi3, _⟩ := decCall_inv v _ hi2
    rw [h21]
    exact hdone _ hi3 (hp21 h21).2.2

/-- **`mpt_queue_recv` never waits for data that is there**: the queue holds the rest of frame `k` of a valid
    stream up to its delimiter; the call delivers (1) or asks for space (`MissingBuffer`), it never answers
    "no message yet" (0) or `MissingData` -/
theorem queueRecv_answers (v : Variant) (frames : List (List Byte)) (ms : List Msg) (hcar : Carries v frames ms)
    (q : DecodeQueue) (hc : q.codec = some v) (fed future : List Byte) (hfut : fed ++ future = frames.flatten) (k : Nat)
    (h : DInv q) (hs : SlackOk v q.st) (hph : Phase v frames q.st q.ring.content fed k)
    (pre junk : List Byte) (hun : q.ring.content.drop q.st.curr = pre ++ 0 :: junk) (hnz : ∀ x ∈ pre, x ≠ 0) :
    ∃ q' r, queueRecv q = .ok (q', r) ∧ (r = 1 ∨ r = Err.MissingBuffer.code) := by
  have hcl := content_length q.ring h.wf.1 h.wf.2
  have h0 : q.ring.len ≠ 0 := by
    intro hz
    have := congrArg List.length hun
    rw [List.length_drop, hcl, hz] at this
    simp at this
  rw [queueRecv_unfold v q hc h0]
  obtain ⟨hi1, hsl1, hl1, _, _, _⟩ := decCall_inv v q h
  have hs1 := decCall_slack v frames ms hcar q fed future hfut k h hs hph
  obtain ⟨hp0, hp1⟩ := decCall_phase v frames ms hcar q fed future hfut k h hph
  obtain ⟨hret, _, hrest⟩ := decCall_live v frames ms hcar q fed future hfut k h hs hph pre junk hun hnz
  have hdone : ∀ (qx : DecodeQueue), DInv qx → qx.st.msg = some qx.st.len → ∃ q', afterCall qx (.val 1) = .ok (q', 1) := by
    intro qx hix hm
    obtain ⟨n, p', r', e, _, _⟩ := recvDone_eq qx hix
    unfold afterCall
    simp only
    rw [e]
    have h1 : (if qx.st.msg.isSome = true then (1 : Int) else 0) = 1 := by rw [hm]; rfl
    rw [h1]
    exact ⟨_, rfl⟩
  rcases hret with h1 | hmb
  · rw [if_neg (by rw [h1]; simp), h1]
    obtain ⟨q', e⟩ := hdone _ hi1 (hp1 h1).2.2
    exact ⟨q', 1, e, Or.inl rfl⟩
  · by_cases hfull : (decCall v q).1.ring.len < (decCall v q).1.ring.max
    · rw [if_pos ⟨hmb, hfull⟩]
      obtain ⟨hph1, _⟩ := hp0 (by rw [hmb]; simp)
      obtain ⟨hctx1, hmsg1, pre', hun1, hnz1, hlen1⟩ := hrest (by rw [hmb]; simp)
      obtain ⟨e1, hi2, _, _, hst2, _, _, hun2, hreg2⟩ := recvRetry_eq v (decCall v q).1 hi1 hfull
      rw [e1]
      have hs2 : SlackOk v (retryQ (decCall v q).1).st := by rw [hst2]; exact slackOk_grow hs1 _
      have hcl2 := content_length (retryQ (decCall v q).1).ring hi2.wf.1 hi2.wf.2
      have hph2 : Phase v frames (retryQ (decCall v q).1).st (retryQ (decCall v q).1).ring.content fed k := by
        rw [hst2]
        exact hph1.move _ (by have := hi2.bnd.tot; rw [hst2] at this; simpa [hcl2] using this) hun2 hreg2
      obtain ⟨hp20, hp21⟩ := decCall_phase v frames ms hcar _ fed future hfut k hi2 hph2
      obtain ⟨hret2, _, _⟩ := decCall_live v frames ms hcar _ fed future hfut k hi2 hs2 hph2 pre' junk
        (by rw [hst2]; simp only; rw [hun2]; exact hun1) hnz1
      obtain ⟨hi3, _⟩ := decCall_inv v _ hi2
      rcases hret2 with h21 | h2mb
      · rw [h21]
        obtain ⟨q', e⟩ := hdone _ hi3 (hp21 h21).2.2
        exact ⟨q', 1, e, Or.inl rfl⟩
      · rw [h2mb]
        exact ⟨_, _, rfl, Or.inr rfl⟩
    · rw [if_neg (fun hh => hfull hh.2), hmb]
      exact ⟨_, _, rfl, Or.inr rfl⟩

end Mpt.CQ
