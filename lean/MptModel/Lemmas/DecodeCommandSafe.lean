/-
  Safety facts of the command text decoder model `decodeCommand` for every state, input and mode
  (core Lean only): where it stores, where it loads, what it never returns.
-/
import MptModel.Impl.Decode
namespace Mpt.Codec
open Mpt.Cobs

/-- a zero byte found by the scan lies inside the scanned range -/
theorem findZero_range (store : List Byte) : ∀ (n i z : Nat), findZero store n i = some z → i ≤ z ∧ z < i + n ∧ store[z]? = some 0 := by
  intro n
  induction n with
  | zero => intro i z h; simp [findZero] at h
  | succ n ih =>
    intro i z h
    simp only [findZero] at h
    by_cases h0 : store[i]? = some 0
    · rw [if_pos h0] at h
      have : i = z := Option.some.inj h
      subst this
      exact ⟨Nat.le_refl _, by omega, h0⟩
    · rw [if_neg h0] at h
      obtain ⟨a, b, c⟩ := ih (i + 1) z h
      exact ⟨by omega, by omega, c⟩

theorem range_map_add_pairwise (k p : Nat) : ((List.range k).map (· + p)).Pairwise (· < ·) := by
  rw [List.pairwise_map]
  exact List.Pairwise.imp (fun h => by omega) List.pairwise_lt_range

theorem range_map_add_mem (k p x : Nat) (h : x ∈ (List.range k).map (· + p)) : p ≤ x ∧ x < p + k := by
  simp only [List.mem_map, List.mem_range] at h
  obtain ⟨a, ha, rfl⟩ := h
  omega

/-- what every call of the command decoder guarantees; `orig` = the storage as handed over -/
structure CmdSafe (orig : List Byte) (peek : Bool) (st : DecState) (o : DecOut) : Prop where
  nofault : o.ret ≠ .oob ∧ o.ret ≠ .clobber
  len : o.store.length = orig.length
  writes : ∀ x ∈ o.writes, x.1 < x.2 ∧ x.2 = st.curr ∧ x.1 < orig.length
  reads : o.reads.Pairwise (· < ·) ∧ ∀ x ∈ o.reads, st.curr ≤ x ∧ x < orig.length
  keep : ∀ i, (∀ x ∈ o.writes, x.1 ≠ i) → o.store[i]? = orig[i]?
  pure : (peek = true ∨ st.len - st.msg.getD 0 ≠ 0) → o.writes = [] ∧ o.store = orig

theorem decodeCommand_safe (st : DecState) (segs : List Seg) (peek : Bool) :
    CmdSafe (flat (if peek then segs.take 1 else segs)) peek st (decodeCommand st segs peek) := by
  unfold decodeCommand
  simp only
  generalize flat (if peek = true then List.take 1 segs else segs) = store
  split
  · exact ⟨by simp, rfl, by simp, by simp, by simp, by simp⟩
  rename_i hg0
  split
  · rename_i hlen
    split
    · exact ⟨by simp, rfl, by simp, by simp, by simp, by simp⟩
    rename_i hpk
    have hpk' : peek = false := by simpa using hpk
    split
    · exact ⟨by simp, rfl, by simp, by simp, by simp, by simp⟩
    rename_i h2
    split
    · exact ⟨by simp, rfl, by simp, by simp, by simp, by simp⟩
    rename_i h3
    split
    · exact ⟨by simp, rfl, by simp, by simp, by simp, by simp⟩
    rename_i h4
    split
    · rename_i h5
      refine ⟨by simp, by simp, ?_, by simp, ?_, ?_⟩
      · intro x hx; simp only [List.mem_singleton] at hx; subst hx; exact ⟨by show st.curr - 2 < st.curr; omega, rfl, by show st.curr - 2 < store.length; omega⟩
      · intro i hi
        have : st.curr - 2 ≠ i := by simpa using hi
        simp [this]
      · intro h; rcases h with h | h
        · simp [hpk'] at h
        · exact absurd hlen h
    rename_i h5
    split
    · rename_i z hz
      obtain ⟨z1, z2, _⟩ := findZero_range _ _ _ _ hz
      simp only [List.length_set] at z2
      refine ⟨by simp, by simp, ?_, ⟨range_map_add_pairwise _ _, ?_⟩, ?_, ?_⟩
      · intro x hx
        simp only [List.mem_cons, List.not_mem_nil, or_false] at hx
        rcases hx with rfl | rfl
        · exact ⟨by show st.curr - 2 < st.curr; omega, rfl, by show st.curr - 2 < store.length; omega⟩
        · exact ⟨by show st.curr - 1 < st.curr; omega, rfl, by show st.curr - 1 < store.length; omega⟩
      · intro x hx; have := range_map_add_mem _ _ _ hx; omega
      · intro i hi
        have h1 : st.curr - 2 ≠ i := by have := hi (st.curr - 2, st.curr) (by simp); simpa using this
        have h2' : st.curr - 1 ≠ i := by have := hi (st.curr - 1, st.curr) (by simp); simpa using this
        simp [h1, h2']
      · intro h; rcases h with h | h
        · simp [hpk'] at h
        · exact absurd hlen h
    · refine ⟨by simp, by simp, ?_, ⟨range_map_add_pairwise _ _, ?_⟩, ?_, ?_⟩
      · intro x hx
        simp only [List.mem_cons, List.not_mem_nil, or_false] at hx
        rcases hx with rfl | rfl
        · exact ⟨by show st.curr - 2 < st.curr; omega, rfl, by show st.curr - 2 < store.length; omega⟩
        · exact ⟨by show st.curr - 1 < st.curr; omega, rfl, by show st.curr - 1 < store.length; omega⟩
      · intro x hx; have := range_map_add_mem _ _ _ hx; simp only [List.length_set] at this; omega
      · intro i hi
        have h1 : st.curr - 2 ≠ i := by have := hi (st.curr - 2, st.curr) (by simp); simpa using this
        have h2' : st.curr - 1 ≠ i := by have := hi (st.curr - 1, st.curr) (by simp); simpa using this
        simp [h1, h2']
      · intro h; rcases h with h | h
        · simp [hpk'] at h
        · exact absurd hlen h
  rename_i hlen
  split
  · exact ⟨by simp, rfl, by simp, by simp, by simp, by simp⟩
  split
  · exact ⟨by simp, rfl, by simp, by simp, by simp, by simp⟩
  rename_i h7
  split
  · rename_i z hz
    obtain ⟨z1, z2, _⟩ := findZero_range _ _ _ _ hz
    split
    · refine ⟨by simp, rfl, by simp, ⟨range_map_add_pairwise _ _, ?_⟩, by simp, by simp⟩
      intro x hx; have := range_map_add_mem _ _ _ hx; omega
    · refine ⟨by simp, rfl, by simp, ⟨range_map_add_pairwise _ _, ?_⟩, by simp, by simp⟩
      intro x hx; have := range_map_add_mem _ _ _ hx; omega
  · refine ⟨by simp, rfl, by simp, ⟨range_map_add_pairwise _ _, ?_⟩, by simp, by simp⟩
    intro x hx; have := range_map_add_mem _ _ _ hx; omega

end Mpt.Codec
