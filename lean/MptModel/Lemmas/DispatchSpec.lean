/-
  Spec-level lemmas for C11: every trace the monitor `Spec.run` accepts has a well-formed log
  (one end-of-life call per retired registration, none for live ones, no invocation after it).
-/
import MptModel.Spec.Dispatch
namespace Mpt.Dispatch

/-- no invocation of a registration is later in the log than its end-of-life call -/
def Ordered (L : List LogE) : Prop :=
  L.Pairwise (fun a b => ∀ r id, a = .fin r → b ≠ .call r id)

structure SInv (sp : Spec) : Prop where
  keys : (sp.live.map (·.1)).Nodup
  regs : sp.liveRegs.Nodup
  live_regd : ∀ r, r ∈ sp.liveRegs → r ∈ sp.regd
  regd_lt : ∀ r, r ∈ sp.regd → r < sp.next

structure LInv (sp : Spec) (L : List LogE) : Prop where
  fins : ∀ r, L.count (.fin r) = if r ∈ sp.regd ∧ r ∉ sp.liveRegs then 1 else 0
  calls : ∀ r id, .call r id ∈ L → r ∈ sp.regd
  ordered : Ordered L

theorem Spec.mem_liveRegs {sp : Spec} {r : Reg} :
    r ∈ sp.liveRegs ↔ (∃ id, (id, r) ∈ sp.live) ∨ sp.fb = some r := by
  unfold Spec.liveRegs
  cases h : sp.fb <;> simp <;> grind

theorem SInv.init (fb : Start) : SInv (Spec.init fb) := by
  cases fb <;> constructor <;> simp [Spec.init, Spec.liveRegs]

theorem LInv.init (fb : Start) : LInv (Spec.init fb) [] := by
  cases fb <;> constructor <;> simp [Spec.init, Spec.liveRegs, Ordered]

/-- lookup finds exactly the entries of a map without repeated keys -/
theorem Spec.lookup_eq_some {sp : Spec} (hk : (sp.live.map (·.1)).Nodup) {id : Id} {r : Reg} :
    sp.lookup id = some r ↔ (id, r) ∈ sp.live := by
  unfold Spec.lookup
  generalize sp.live = l at hk
  induction l with
  | nil => simp
  | cons p rest ih =>
    simp only [List.map_cons, List.nodup_cons] at hk
    simp only [List.find?_cons]
    by_cases hp : p.1 = id
    · subst hp
      simp only [beq_self_eq_true, Option.map_some, Option.some.injEq, List.mem_cons]
      constructor
      · intro h; left; rw [← h]
      · intro h
        rcases h with h | h
        · rw [← h]
        · exfalso; apply hk.1; simp only [List.mem_map]; exact ⟨_, h, rfl⟩
    · have : (p.1 == id) = false := by simpa using hp
      simp only [this, List.mem_cons]
      rw [ih hk.2]
      constructor
      · intro h; right; exact h
      · intro h
        rcases h with h | h
        · exfalso; apply hp; rw [← h]
        · exact h

theorem Spec.lookup_eq_none {sp : Spec} {id : Id} :
    sp.lookup id = none ↔ ∀ r, (id, r) ∉ sp.live := by
  unfold Spec.lookup
  simp only [Option.map_eq_none_iff, List.find?_eq_none]
  constructor
  · intro h r hm
    have := h _ hm
    simp at this
  · intro h p hp
    simp only [beq_iff_eq]
    intro hc
    apply h p.2
    rw [← hc]; exact hp

theorem Spec.mem_remove {sp : Spec} {id : Id} {p : Id × Reg} :
    p ∈ sp.remove id ↔ p ∈ sp.live ∧ p.1 ≠ id := by
  unfold Spec.remove
  simp [List.mem_filter]

theorem sameSet_iff {a b : List LogE} :
    Spec.sameSet a b = true ↔ a.Nodup ∧ ∀ e, e ∈ a ↔ e ∈ b := by
  unfold Spec.sameSet
  simp only [Bool.and_eq_true, decide_eq_true_eq, List.all_eq_true, List.contains_iff_mem]
  grind

/-- the log grows by end-of-life calls of registrations that stop being live -/
theorem LInv.retire {sp sp' : Spec} {L new : List LogE} (hl : LInv sp L) (hs : SInv sp)
    (hnd : new.Nodup)
    (hnew : ∀ e, e ∈ new → ∃ r, e = .fin r ∧ r ∈ sp.liveRegs ∧ r ∉ sp'.liveRegs)
    (hgone : ∀ r, r ∈ sp.liveRegs → r ∉ sp'.liveRegs → .fin r ∈ new)
    (hfresh : ∀ r, r ∈ sp'.liveRegs → r ∈ sp.liveRegs ∨ r ∉ sp.regd)
    (hregd : ∀ r, r ∈ sp.regd → r ∈ sp'.regd)
    (hregd' : ∀ r, r ∈ sp'.regd → r ∈ sp.regd ∨ r ∈ sp'.liveRegs) :
    LInv sp' (L ++ new) := by
  constructor
  · intro r
    rw [List.count_append, hl.fins r, List.Nodup.count hnd]
    have h1 := hs.live_regd r
    have h2 := hnew (.fin r)
    have h3 := hgone r
    have h4 := hfresh r
    have h5 := hregd r
    have h6 := hregd' r
    by_cases a : r ∈ sp.regd <;> by_cases b : r ∈ sp.liveRegs <;> by_cases c : r ∈ sp'.liveRegs <;>
      by_cases d : r ∈ sp'.regd <;> by_cases e : LogE.fin r ∈ new <;> simp_all
  · intro r id hm
    rw [List.mem_append] at hm
    rcases hm with hm | hm
    · exact hregd r (hl.calls r id hm)
    · obtain ⟨r', h, _⟩ := hnew _ hm
      cases h
  · unfold Ordered
    rw [List.pairwise_append]
    refine ⟨hl.ordered, ?_, ?_⟩
    · apply List.pairwise_of_forall_mem_list
      intro a _ b hb r id _ hc
      obtain ⟨r', h, _⟩ := hnew _ hb
      rw [hc] at h; cases h
    · intro a _ b hb r id _ hc
      obtain ⟨r', h, _⟩ := hnew _ hb
      rw [hc] at h; cases h


/-- the log grows by one invocation of a live registration -/
theorem LInv.call {sp sp' : Spec} {L : List LogE} {r : Reg} {id : Id} (hl : LInv sp L) (hs : SInv sp)
    (hr : r ∈ sp.liveRegs) (hlive : sp'.liveRegs = sp.liveRegs) (hregd : sp'.regd = sp.regd) :
    LInv sp' (L ++ [.call r id]) := by
  constructor
  · intro r'
    rw [List.count_append, hl.fins r', hlive, hregd]
    simp
  · intro r' id' hm
    rw [hregd]
    rw [List.mem_append] at hm
    rcases hm with hm | hm
    · exact hl.calls r' id' hm
    · simp only [List.mem_singleton, LogE.call.injEq] at hm
      rw [hm.1]; exact hs.live_regd r hr
  · unfold Ordered
    rw [List.pairwise_append]
    refine ⟨hl.ordered, by simp, ?_⟩
    intro a ha b hb r' id' hfin hc
    simp only [List.mem_singleton] at hb
    rw [hb] at hc
    cases hc
    -- `fin r` is not in the log of a live registration
    have h0 := hl.fins r
    have : ¬ (r ∈ sp.regd ∧ r ∉ sp.liveRegs) := fun h => h.2 hr
    rw [if_neg this, List.count_eq_zero] at h0
    apply h0; rw [← hfin]; exact ha

/-- nothing logged, registrations untouched -/
theorem LInv.same {sp sp' : Spec} {L : List LogE} (hl : LInv sp L)
    (hlive : sp'.liveRegs = sp.liveRegs) (hregd : sp'.regd = sp.regd) : LInv sp' L := by
  constructor
  · intro r; rw [hl.fins r, hlive, hregd]
  · intro r id hm; rw [hregd]; exact hl.calls r id hm
  · exact hl.ordered


/- ---------- the registration lists of the successor states ---------- -/

theorem SInv.snd_nodup {sp : Spec} (hs : SInv sp) : (sp.live.map (·.2)).Nodup := by
  have := hs.regs
  unfold Spec.liveRegs at this
  exact (List.nodup_append.mp this).1

theorem SInv.fb_not_live {sp : Spec} (hs : SInv sp) {r : Reg} (h : sp.fb = some r) (id : Id) : (id, r) ∉ sp.live := by
  have := hs.regs
  unfold Spec.liveRegs at this
  rw [h] at this
  intro hm
  have h3 := (List.nodup_append.mp this).2.2 r (by simp only [List.mem_map]; exact ⟨_, hm, rfl⟩) r (by simp)
  exact h3 rfl

theorem liveRegs_nodup_of {sp : Spec} {X : List (Id × Reg)} (h1 : (X.map (·.2)).Nodup)
    (h2 : ∀ r, sp.fb = some r → ∀ id, (id, r) ∉ X) : ({ sp with live := X } : Spec).liveRegs.Nodup := by
  unfold Spec.liveRegs
  simp only
  rw [List.nodup_append]
  refine ⟨h1, ?_, ?_⟩
  · cases sp.fb <;> simp
  · intro a ha b hb
    cases hfb : sp.fb with
    | none => rw [hfb] at hb; simp at hb
    | some r =>
      rw [hfb] at hb
      simp only [List.mem_singleton] at hb
      simp only [List.mem_map] at ha
      obtain ⟨p, hp, rfl⟩ := ha
      intro hc
      apply h2 r hfb p.1
      rw [← hb, ← hc]; exact hp

theorem remove_keys_nodup {sp : Spec} (hs : SInv sp) (id : Id) : ((sp.remove id).map (·.1)).Nodup :=
  List.Nodup.sublist (List.Sublist.map _ List.filter_sublist) hs.keys

theorem remove_snd_nodup {sp : Spec} (hs : SInv sp) (id : Id) : ((sp.remove id).map (·.2)).Nodup :=
  List.Nodup.sublist (List.Sublist.map _ List.filter_sublist) hs.snd_nodup

/-- a live registration number is below `next` -/
theorem SInv.live_lt {sp : Spec} (hs : SInv sp) {id : Id} {r : Reg} (h : (id, r) ∈ sp.live) : r < sp.next :=
  hs.regd_lt r (hs.live_regd r (Spec.mem_liveRegs.mpr (Or.inl ⟨id, h⟩)))

theorem SInv.fb_lt {sp : Spec} (hs : SInv sp) {r : Reg} (h : sp.fb = some r) : r < sp.next :=
  hs.regd_lt r (hs.live_regd r (Spec.mem_liveRegs.mpr (Or.inr h)))


theorem inj_of_nodup_map {α β} (f : α → β) (l : List α) (h : (l.map f).Nodup) :
    ∀ a, a ∈ l → ∀ b, b ∈ l → f a = f b → a = b := by
  induction l with
  | nil => simp
  | cons x rest ih =>
    simp only [List.map_cons, List.nodup_cons, List.mem_map, not_exists, not_and] at h
    intro a ha b hb hab
    simp only [List.mem_cons] at ha hb
    rcases ha with rfl | ha <;> rcases hb with rfl | hb
    · rfl
    · exact absurd hab.symm (h.1 b hb)
    · exact absurd hab (h.1 a ha)
    · exact ih h.2 a ha b hb hab

theorem SInv.key_inj {sp : Spec} (hs : SInv sp) {i : Id} {r r' : Reg} (h1 : (i, r) ∈ sp.live) (h2 : (i, r') ∈ sp.live) : r = r' := by
  have := inj_of_nodup_map (·.1) sp.live hs.keys _ h1 _ h2 rfl
  exact (Prod.mk.injEq .. ▸ this).2
theorem SInv.reg_inj {sp : Spec} (hs : SInv sp) {i i' : Id} {r : Reg} (h1 : (i, r) ∈ sp.live) (h2 : (i', r) ∈ sp.live) : i = i' := by
  have := inj_of_nodup_map (·.2) sp.live hs.snd_nodup _ h1 _ h2 rfl
  exact (Prod.mk.injEq .. ▸ this).1

/-- constructor with the registration list spelled out -/
theorem SInv.mk' {X : List (Id × Reg)} {fb : Option Reg} {bi : Bool} {dflt : Id} {next : Reg} {regd : List Reg}
    (h1 : (X.map (·.1)).Nodup) (h2 : (X.map (·.2)).Nodup)
    (h3 : ∀ r, fb = some r → ∀ id, (id, r) ∉ X)
    (h4 : ∀ p, p ∈ X → p.2 ∈ regd) (h5 : ∀ r, fb = some r → r ∈ regd)
    (h6 : ∀ r, r ∈ regd → r < next) : SInv ⟨X, fb, bi, dflt, next, regd⟩ := by
  constructor
  · exact h1
  · exact liveRegs_nodup_of (sp := ⟨X, fb, bi, dflt, next, regd⟩) h2 h3
  · intro r hr
    rw [Spec.mem_liveRegs] at hr
    rcases hr with ⟨id, h⟩ | h
    · exact h4 _ h
    · exact h5 r h
  · exact h6

theorem SInv.live_regd' {sp : Spec} (hs : SInv sp) {p : Id × Reg} (h : p ∈ sp.live) : p.2 ∈ sp.regd :=
  hs.live_regd _ (Spec.mem_liveRegs.mpr (Or.inl ⟨p.1, h⟩))
theorem SInv.fb_regd {sp : Spec} (hs : SInv sp) {r : Reg} (h : sp.fb = some r) : r ∈ sp.regd :=
  hs.live_regd _ (Spec.mem_liveRegs.mpr (Or.inr h))
theorem SInv.live_lt' {sp : Spec} (hs : SInv sp) {p : Id × Reg} (h : p ∈ sp.live) : p.2 < sp.next :=
  hs.regd_lt _ (hs.live_regd' h)

/-- introduce the consequences of `SInv sp` as plain hypotheses (for `grind`) -/
macro "sinv_facts" hs:ident : tactic =>
  `(tactic| (have k1 := SInv.keys $hs
             have k2 := SInv.snd_nodup $hs
             have k3 := @SInv.fb_not_live _ $hs
             have k4 := @SInv.live_regd' _ $hs
             have k5 := @SInv.fb_regd _ $hs
             have k6 := SInv.regd_lt $hs
             have k7 := @SInv.live_lt' _ $hs
             have k8 := @SInv.fb_lt _ $hs
             have k9 := @SInv.key_inj _ $hs
             have k10 := @SInv.reg_inj _ $hs))

/-- close the two goals `SInv sp'` / `LInv sp' (L ++ new)` of a monitor step that retires registrations -/
macro "linv_retire" hl:ident hs:ident : tactic =>
  `(tactic| (apply LInv.retire $hl $hs (by simp) <;> simp only [Spec.mem_liveRegs] <;> grind))

theorem stepRegister_inv {sp sp' : Spec} {id : Id} {out : Out} {L : List LogE} (h : sp.stepRegister id out = some sp')
    (hs : SInv sp) (hl : LInv sp L) : SInv sp' ∧ LInv sp' (L ++ out.log) := by
  unfold Spec.stepRegister at h
  sinv_facts hs
  split at h
  · rename_i hlk
    split at h
    · rename_i hc
      simp only [Bool.and_eq_true, beq_iff_eq] at hc
      cases h
      rw [Spec.lookup_eq_none] at hlk
      refine ⟨?_, ?_⟩
      · apply SInv.mk'
        · rw [List.map_append, List.nodup_append]
          grind
        · rw [List.map_append, List.nodup_append]
          grind
        all_goals grind
      · rw [hc.2]
        linv_retire hl hs
    · cases h
  · rename_i old hlk
    rw [Spec.lookup_eq_some hs.keys] at hlk
    split at h
    · rename_i hc
      simp only [Bool.and_eq_true, beq_iff_eq] at hc
      cases h
      have r1 := remove_keys_nodup hs id
      have r2 := remove_snd_nodup hs id
      have r3 := @Spec.mem_remove sp id
      refine ⟨?_, ?_⟩
      · apply SInv.mk'
        · rw [List.map_append, List.nodup_append]
          grind
        · rw [List.map_append, List.nodup_append]
          grind
        all_goals grind
      · rw [hc.2]
        linv_retire hl hs
    · split at h
      · rename_i hc
        simp only [Bool.and_eq_true, beq_iff_eq] at hc
        cases h
        refine ⟨?_, ?_⟩
        · apply SInv.mk' <;> grind
        · rw [hc.2]
          linv_retire hl hs
      · cases h


/-- the log grows by invocations of live registrations -/
theorem LInv.callList {sp sp' : Spec} {L : List LogE} (hl : LInv sp L) (hs : SInv sp) (calls : List LogE)
    (hc : ∀ e, e ∈ calls → ∃ r id, e = .call r id ∧ r ∈ sp.liveRegs)
    (hlive : sp'.liveRegs = sp.liveRegs) (hregd : sp'.regd = sp.regd) : LInv sp' (L ++ calls) := by
  induction calls generalizing L with
  | nil => rw [List.append_nil]; exact LInv.same hl hlive hregd
  | cons c rest ih =>
    obtain ⟨r, id, rfl, hr⟩ := hc c (by simp)
    have h1 : LInv sp (L ++ [.call r id]) := LInv.call hl hs hr rfl rfl
    have := ih h1 (fun e he => hc e (by simp [he]))
    simpa [List.append_assoc] using this

theorem lookup_live' {sp : Spec} (hs : SInv sp) {id : Id} {r : Reg} (h : sp.lookup id = some r) : r ∈ sp.liveRegs := by
  rw [Spec.lookup_eq_some hs.keys] at h
  exact Spec.mem_liveRegs.mpr (Or.inl ⟨id, h⟩)

/-- what a nested hash dispatch may log: nothing, or one invocation of a live registration -/
theorem hashOutcome_calls {sp : Spec} (hs : SInv sp) (m : List Byte) (h : HRes) (cid : Option Id) :
    ∀ e, e ∈ (sp.hashOutcome m h cid).1 → ∃ r id, e = .call r id ∧ r ∈ sp.liveRegs := by
  unfold Spec.hashOutcome
  cases cid with
  | none => intro e he; cases he
  | some id2 =>
    simp only
    cases hlk : sp.lookup id2 with
    | some r2 =>
      have hr2 := lookup_live' hs hlk
      simp only
      split <;> (intro e he; simp at he; exact ⟨r2, id2, he, hr2⟩)
    | none =>
      cases hfb : sp.fb with
      | some r2 =>
        intro e he; simp at he
        exact ⟨r2, id2, he, Spec.mem_liveRegs.mpr (Or.inr hfb)⟩
      | none =>
        simp only
        split <;> (intro e he; cases he)

theorem hashOutcomes_calls {sp : Spec} (hs : SInv sp) {msg : Option (List Byte)} {h : HRes} {o : List LogE × Int × Id}
    (ho : o ∈ sp.hashOutcomes msg h) : ∀ e, e ∈ o.1 → ∃ r id, e = .call r id ∧ r ∈ sp.liveRegs := by
  unfold Spec.hashOutcomes at ho
  cases msg with
  | none => simp at ho; subst ho; intro e he; cases he
  | some m =>
    simp only [List.mem_map] at ho
    obtain ⟨cid, _, rfl⟩ := ho
    exact hashOutcome_calls hs m h cid

theorem stepDeliver_inv {sp sp' : Spec} {r : Reg} {id : Id} {msg : Option (List Byte)} {nest : Bool} {h : HRes} {out : Out}
    {L : List LogE}
    (hst : sp.stepDeliver r id msg nest h out = some sp') (hr : r ∈ sp.liveRegs)
    (hs : SInv sp) (hl : LInv sp L) : SInv sp' ∧ LInv sp' (L ++ out.log) := by
  unfold Spec.stepDeliver at hst
  cases nest with
  | true =>
    simp only [if_true] at hst
    rw [List.findSome?_eq_some_iff] at hst
    obtain ⟨_, o, _, hmem, hst, _⟩ := hst
    have ho : o ∈ sp.hashOutcomes msg h := by rw [hmem]; simp
    split at hst
    · rename_i hc
      simp only [Bool.and_eq_true, beq_iff_eq, decide_eq_true_eq] at hc
      cases hst
      refine ⟨⟨hs.keys, hs.regs, hs.live_regd, hs.regd_lt⟩, ?_⟩
      rw [hc.2]
      apply LInv.callList (sp' := { sp with dflt := (book sp.dflt o.2.2 ⟨o.2.1, false⟩).2 }) hl hs _ _ rfl rfl
      intro e he
      rw [List.mem_cons] at he
      rcases he with rfl | he
      · exact ⟨r, id, rfl, hr⟩
      · exact hashOutcomes_calls hs ho e he
    · cases hst
  | false =>
    simp only [Bool.false_eq_true, if_false] at hst
    split at hst
    · rename_i hc
      simp only [Bool.and_eq_true, beq_iff_eq, decide_eq_true_eq] at hc
      cases hst
      refine ⟨⟨hs.keys, hs.regs, hs.live_regd, hs.regd_lt⟩, ?_⟩
      rw [hc.2]
      exact LInv.call hl hs hr rfl rfl
    · cases hst

theorem target_live {sp : Spec} (hs : SInv sp) {id : Id} {r : Reg} (h : sp.target id = some r) : r ∈ sp.liveRegs := by
  unfold Spec.target at h
  rw [Spec.mem_liveRegs]
  split at h
  · rename_i r' hlk
    cases h
    rw [Spec.lookup_eq_some hs.keys] at hlk
    exact Or.inl ⟨id, hlk⟩
  · exact Or.inr h

theorem lookup_live {sp : Spec} (hs : SInv sp) {id : Id} {r : Reg} (h : sp.lookup id = some r) : r ∈ sp.liveRegs := by
  rw [Spec.lookup_eq_some hs.keys] at h
  exact Spec.mem_liveRegs.mpr (Or.inl ⟨id, h⟩)

theorem stepUnhandled_inv {sp sp' : Spec} {id : Id} {msg : Option (List Byte)} {out : Out} {L : List LogE}
    (hst : sp.stepUnhandled id msg out = some sp')
    (hs : SInv sp) (hl : LInv sp L) : SInv sp' ∧ LInv sp' (L ++ out.log) := by
  unfold Spec.stepUnhandled at hst
  split at hst
  · dsimp only at hst
    split at hst
    · rename_i hc
      simp only [Bool.and_eq_true, beq_iff_eq] at hc
      cases hst
      rw [hc.2, List.append_nil]
      exact ⟨⟨hs.keys, hs.regs, hs.live_regd, hs.regd_lt⟩, LInv.same hl rfl rfl⟩
    · cases hst
  · split at hst
    · rename_i hc
      simp only [Bool.and_eq_true, beq_iff_eq] at hc
      cases hst
      rw [hc.2, List.append_nil]
      exact ⟨hs, hl⟩
    · cases hst

theorem stepEmit_inv {sp sp' : Spec} {id : Id} {msg : Option (List Byte)} {nest : Bool} {h : HRes} {out : Out} {L : List LogE}
    (hst : sp.stepEmit id msg nest h out = some sp')
    (hs : SInv sp) (hl : LInv sp L) : SInv sp' ∧ LInv sp' (L ++ out.log) := by
  unfold Spec.stepEmit at hst
  split at hst
  · rename_i r ht
    exact stepDeliver_inv hst (target_live hs ht) hs hl
  · exact stepUnhandled_inv hst hs hl

theorem stepHashId_inv {sp sp' : Spec} {msg : List Byte} {cid : Option Id} {h : HRes} {out : Out} {L : List LogE}
    (hst : sp.stepHashId msg cid h out = some sp')
    (hs : SInv sp) (hl : LInv sp L) : sp' = sp ∧ LInv sp (L ++ out.log) := by
  unfold Spec.stepHashId at hst
  split at hst
  · split at hst
    · rename_i hc
      simp only [Bool.and_eq_true, beq_iff_eq, decide_eq_true_eq] at hc
      cases hst
      rw [hc.2, List.append_nil]
      exact ⟨rfl, hl⟩
    · cases hst
  · rename_i id
    split at hst
    · rename_i r hlk
      split at hst
      · rename_i hc
        simp only [Bool.and_eq_true, beq_iff_eq] at hc
        cases hst
        rw [hc.1]
        exact ⟨rfl, LInv.call hl hs (lookup_live hs hlk) rfl rfl⟩
      · cases hst
    · split at hst
      · rename_i r hfb
        split at hst
        · rename_i hc
          simp only [Bool.and_eq_true, beq_iff_eq] at hc
          cases hst
          rw [hc.1]
          exact ⟨rfl, LInv.call hl hs (Spec.mem_liveRegs.mpr (Or.inr hfb)) rfl rfl⟩
        · cases hst
      · split at hst
        · split at hst
          · rename_i hc
            simp only [Bool.and_eq_true, beq_iff_eq, decide_eq_true_eq] at hc
            cases hst
            rw [hc.2, List.append_nil]
            exact ⟨rfl, hl⟩
          · cases hst
        · split at hst
          · rename_i hc
            simp only [Bool.and_eq_true, beq_iff_eq, decide_eq_true_eq] at hc
            cases hst
            rw [hc.2, List.append_nil]
            exact ⟨rfl, hl⟩
          · cases hst

/-- one accepted step keeps the spec state and the log well-formed -/
theorem step_inv {sp sp' : Spec} {op : Op} {out : Out} {L : List LogE} (hst : sp.step op out = some sp')
    (hs : SInv sp) (hl : LInv sp L) : SInv sp' ∧ LInv sp' (L ++ out.log) := by
  sinv_facts hs
  cases op with
  | set id => exact stepRegister_inv hst hs hl
  | cset id => exact stepRegister_inv hst hs hl
  | clear id =>
    simp only [Spec.step] at hst
    split at hst
    · rename_i old hlk
      rw [Spec.lookup_eq_some hs.keys] at hlk
      split at hst
      · rename_i hc
        simp only [Bool.and_eq_true, beq_iff_eq] at hc
        cases hst
        have r1 := remove_keys_nodup hs id
        have r2 := remove_snd_nodup hs id
        have r3 := @Spec.mem_remove sp id
        refine ⟨?_, ?_⟩
        · apply SInv.mk' <;> grind
        · rw [hc.2]
          linv_retire hl hs
      · cases hst
    · split at hst
      · rename_i hc
        simp only [Bool.and_eq_true, beq_iff_eq] at hc
        cases hst
        rw [hc.2, List.append_nil]
        exact ⟨hs, hl⟩
      · cases hst
  | clearAll =>
    simp only [Spec.step] at hst
    split at hst
    · rename_i hc
      simp only [Bool.and_eq_true, sameSet_iff] at hc
      cases hst
      obtain ⟨_, hnd, hmem⟩ := hc
      simp only [List.mem_map] at hmem
      refine ⟨?_, ?_⟩
      · apply SInv.mk' <;> grind
      · apply LInv.retire hl hs hnd <;> simp only [Spec.mem_liveRegs] <;> grind
    · cases hst
  | emitId id h => exact stepEmit_inv hst hs hl
  | emitMsg msg h =>
    simp only [Spec.step] at hst
    split at hst
    · split at hst
      · rename_i hc
        simp only [Bool.and_eq_true, beq_iff_eq] at hc
        cases hst
        rw [hc.2, List.append_nil]
        exact ⟨hs, hl⟩
      · cases hst
    · exact stepEmit_inv hst hs hl
  | emitCmd msg h =>
    simp only [Spec.step] at hst
    split at hst
    · split at hst
      · rename_i hc
        simp only [Bool.and_eq_true, beq_iff_eq] at hc
        cases hst
        rw [hc.2, List.append_nil]
        exact ⟨hs, hl⟩
      · cases hst
    · exact stepEmit_inv hst hs hl
  | hashFrag frags h =>
    simp only [Spec.step] at hst
    rw [List.findSome?_eq_some_iff] at hst
    obtain ⟨_, cid, _, _, hcid, _⟩ := hst
    obtain ⟨rfl, hl'⟩ := stepHashId_inv hcid hs hl
    exact ⟨hs, hl'⟩
  | hashNone =>
    simp only [Spec.step] at hst
    split at hst
    · rename_i hc
      simp only [Bool.and_eq_true, beq_iff_eq, decide_eq_true_eq] at hc
      cases hst
      rw [hc.2, List.append_nil]
      exact ⟨hs, hl⟩
    · cases hst
  | emitNone h =>
    simp only [Spec.step] at hst
    split at hst
    · split at hst
      · rename_i hc
        simp only [Bool.and_eq_true, beq_iff_eq, decide_eq_true_eq] at hc
        cases hst
        rw [hc.2, List.append_nil]
        exact ⟨hs, hl⟩
      · cases hst
    · split at hst
      · rename_i r hlk
        exact stepDeliver_inv hst (lookup_live hs hlk) hs hl
      · split at hst
        · rename_i hc
          simp only [Bool.and_eq_true, beq_iff_eq] at hc
          cases hst
          rw [hc.2, List.append_nil]
          exact ⟨⟨hs.keys, hs.regs, hs.live_regd, hs.regd_lt⟩, LInv.same hl rfl rfl⟩
        · split at hst
          · rename_i r hfb
            exact stepDeliver_inv hst (Spec.mem_liveRegs.mpr (Or.inr hfb)) hs hl
          · split at hst
            · exact stepUnhandled_inv hst hs hl
            · cases hst
  | hash msg h =>
    simp only [Spec.step] at hst
    rw [List.findSome?_eq_some_iff] at hst
    obtain ⟨_, cid, _, _, hcid, _⟩ := hst
    obtain ⟨rfl, hl'⟩ := stepHashId_inv hcid hs hl
    exact ⟨hs, hl'⟩
  | reserve w =>
    simp only [Spec.step] at hst
    split at hst
    · split at hst
      · rename_i hc
        simp only [beq_iff_eq] at hc
        cases hst
        refine ⟨?_, ?_⟩
        · apply SInv.mk' <;> grind
        · rw [hc, List.append_nil]
          exact LInv.same hl rfl rfl
      · cases hst
    · rename_i v
      split at hst
      · rename_i hc
        simp only [Bool.and_eq_true, beq_iff_eq, decide_eq_true_eq, Option.isNone_iff_eq_none] at hc
        cases hst
        obtain ⟨⟨⟨_, _⟩, hlog⟩, hlk⟩ := hc
        rw [Spec.lookup_eq_none] at hlk
        refine ⟨?_, ?_⟩
        · apply SInv.mk'
          · rw [List.map_append, List.nodup_append]
            grind
          · rw [List.map_append, List.nodup_append]
            grind
          all_goals grind
        · rw [hlog]
          linv_retire hl hs
      · cases hst
    · cases hst
  | fini =>
    simp only [Spec.step] at hst
    split at hst
    · rename_i hc
      simp only [Bool.and_eq_true, sameSet_iff] at hc
      cases hst
      obtain ⟨_, hnd, hmem⟩ := hc
      have hmem' : ∀ e, e ∈ out.log ↔ ∃ r, r ∈ sp.liveRegs ∧ e = .fin r := by
        intro e; rw [hmem e]; simp only [List.mem_map]; grind
      refine ⟨?_, ?_⟩
      · apply SInv.mk' <;> grind
      · apply LInv.retire hl hs hnd
        · intro e he
          obtain ⟨r, hr, rfl⟩ := (hmem' e).mp he
          refine ⟨r, rfl, hr, ?_⟩
          simp [Spec.liveRegs]
        · intro r hr _
          exact (hmem' _).mpr ⟨r, hr, rfl⟩
        · intro r hr
          simp [Spec.liveRegs] at hr
        · intro r hr; exact hr
        · intro r hr; exact Or.inl hr
    · cases hst
  | drop =>
    simp only [Spec.step] at hst
    split at hst
    · rename_i hc
      simp only [Bool.and_eq_true, sameSet_iff] at hc
      cases hst
      obtain ⟨_, hnd, hmem⟩ := hc
      simp only [List.mem_map] at hmem
      refine ⟨?_, ?_⟩
      · apply SInv.mk' <;> grind
      · apply LInv.retire hl hs hnd <;> simp only [Spec.mem_liveRegs] <;> grind
    · cases hst
  | tcopy r =>
    simp only [Spec.step] at hst
    split at hst
    · rename_i hc
      simp only [Bool.and_eq_true, beq_iff_eq] at hc
      cases hst
      rw [hc.1, List.append_nil]
      exact ⟨hs, hl⟩
    · cases hst
  | setDefault id =>
    simp only [Spec.step] at hst
    split at hst
    · split at hst
      · rename_i hc
        simp only [Bool.and_eq_true, beq_iff_eq] at hc
        cases hst
        rw [hc.2, List.append_nil]
        exact ⟨⟨hs.keys, hs.regs, hs.live_regd, hs.regd_lt⟩, LInv.same hl rfl rfl⟩
      · cases hst
    · split at hst
      · rename_i hc
        simp only [Bool.and_eq_true, beq_iff_eq] at hc
        cases hst
        rw [hc.2, List.append_nil]
        exact ⟨hs, hl⟩
      · cases hst
  | setError =>
    simp only [Spec.step] at hst
    cases hfb : sp.fb with
    | none =>
      rw [hfb] at hst
      dsimp only at hst
      split at hst
      · rename_i hc
        simp only [Bool.and_eq_true, beq_iff_eq] at hc
        cases hst
        refine ⟨?_, ?_⟩
        · apply SInv.mk' <;> grind
        · rw [hc.2]
          apply LInv.retire hl hs (by simp) <;> simp only [Spec.mem_liveRegs] <;> grind
      · cases hst
    | some o =>
      rw [hfb] at hst
      dsimp only at hst
      split at hst
      · rename_i hc
        simp only [Bool.and_eq_true, beq_iff_eq] at hc
        cases hst
        refine ⟨?_, ?_⟩
        · apply SInv.mk' <;> grind
        · rw [hc.2]
          apply LInv.retire hl hs (by simp) <;> simp only [Spec.mem_liveRegs] <;> grind
      · cases hst

/-- log of a trace -/
def logOf (tr : List (Op × Out)) : List LogE := (tr.map (·.2.log)).flatten

theorem run_inv {tr : List (Op × Out)} {sp sp' : Spec} {L : List LogE} (hrun : sp.run tr = some sp')
    (hs : SInv sp) (hl : LInv sp L) : SInv sp' ∧ LInv sp' (L ++ logOf tr) := by
  induction tr generalizing sp L with
  | nil =>
    simp only [Spec.run] at hrun
    cases hrun
    simpa [logOf] using ⟨hs, hl⟩
  | cons x rest ih =>
    obtain ⟨op, out⟩ := x
    simp only [Spec.run] at hrun
    split at hrun
    · rename_i sp1 hst
      obtain ⟨hs1, hl1⟩ := step_inv hst hs hl
      have := ih hrun hs1 hl1
      simpa [logOf, List.append_assoc] using this
    · cases hrun

/-- what the monitor demands of an emit outcome, read off its definition -/
theorem stepEmit_log {sp sp' : Spec} {id : Id} {msg : Option (List Byte)} {h : HRes} {out : Out}
    (hst : sp.stepEmit id msg false h out = some sp') :
    out.log = (match sp.target id with | some r => [.call r id] | none => []) := by
  unfold Spec.stepEmit at hst
  split at hst
  · rename_i r ht
    unfold Spec.stepDeliver at hst
    simp only [Bool.false_eq_true, if_false] at hst
    split at hst
    · rename_i hc
      simp only [Bool.and_eq_true, beq_iff_eq] at hc
      simp only [ht]; exact hc.2
    · cases hst
  · rename_i ht
    simp only [ht]
    unfold Spec.stepUnhandled at hst
    split at hst
    · dsimp only at hst
      split at hst
      · rename_i hc
        simp only [Bool.and_eq_true, beq_iff_eq] at hc
        exact hc.2
      · cases hst
    · split at hst
      · rename_i hc
        simp only [Bool.and_eq_true, beq_iff_eq] at hc
        exact hc.2
      · cases hst

/-- what the monitor demands of a hash-dispatch outcome -/
theorem stepHashId_log {sp sp' : Spec} {msg : List Byte} {cid : Option Id} {h : HRes} {out : Out}
    (hst : sp.stepHashId msg cid h out = some sp') :
    out.log = sp.hashLog cid := by
  cases cid with
  | none =>
    simp only [Spec.stepHashId] at hst
    split at hst
    · rename_i hc
      simp only [Bool.and_eq_true, beq_iff_eq] at hc
      exact hc.2
    · cases hst
  | some id =>
    simp only [Spec.stepHashId] at hst
    simp only [Spec.hashLog, Spec.target]
    split at hst
    · rename_i r hlk
      split at hst
      · rename_i hc
        simp only [Bool.and_eq_true, beq_iff_eq] at hc
        first | (simp only [hlk]; exact hc.1) | exact hc.1
      · cases hst
    · rename_i hlk
      first | simp only [hlk] | skip
      split at hst
      · rename_i r hfb
        split at hst
        · rename_i hc
          simp only [Bool.and_eq_true, beq_iff_eq] at hc
          first | (simp only [hfb]; exact hc.1) | exact hc.1
        · cases hst
      · rename_i hfb
        first | simp only [hfb] | skip
        split at hst
        · split at hst
          · rename_i hc
            simp only [Bool.and_eq_true, beq_iff_eq] at hc
            exact hc.2
          · cases hst
        · split at hst
          · rename_i hc
            simp only [Bool.and_eq_true, beq_iff_eq] at hc
            exact hc.2
          · cases hst

end Mpt.Dispatch
