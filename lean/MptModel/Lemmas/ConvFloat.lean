/-
  Helper lemmas for C07: query mode (no destination) and integer -> floating conversions of small integers.
-/
import MptModel.Impl.Convert
import MptModel.Lemmas.Convert
import MptModel.Lemmas.Float
set_option linter.unusedSimpArgs false
namespace Mpt.Conv
open Mpt.Scalar Mpt.Flt

/-! ### query mode gives the same verdict -/

/-- the store is under `if (dest)`, no range test hides in that block, and the store writes an object of the
    target's size -/
def shapeOK (c : Case) (tgt : Ty) : Bool := c.guarded && c.destGuards.isEmpty && c.store.size == (tgtCTy tgt).size

def checkShapePair (src tgt : Ty) : Bool :=
  match fnOf src with
  | none => true
  | some f =>
    match f.lookup tgt.code with
    | some c => shapeOK c tgt
    | none => true

def checkShapeTable : Bool := Ty.all.all fun s => Ty.all.all fun tg => checkShapePair s tg

theorem readBack_int_ok (tgt : Ty) (ty : CTy) (bits : Nat) (h : ty.size = (tgtCTy tgt).size) :
    ∃ o, readBack tgt (.int ty bits) = .ok o := by
  simp only [readBack]
  rw [if_neg (by omega), if_neg (by omega)]
  split <;> exact ⟨_, rfl⟩

theorem readBack_flt_ok (tgt : Ty) (ty : CTy) (y : FVal) (h : ty.size = (tgtCTy tgt).size) :
    ∃ o, readBack tgt (.flt ty y) = .ok o := by
  simp only [readBack]
  rw [if_neg (by omega), if_neg (by omega)]
  split <;> exact ⟨_, rfl⟩

theorem readBack_ok (tgt : Ty) (store : CTy) (s : Src) (h : store.size = (tgtCTy tgt).size) :
    ∃ o, readBack tgt (doStore store s) = .ok o := by
  unfold doStore
  cases s with
  | int v =>
    by_cases hf : store.isFloat = true
    · simp only [hf, if_true]; exact readBack_flt_ok _ _ _ h
    · simp only [hf, if_false]; exact readBack_int_ok _ _ _ h
  | flt y =>
    by_cases hf : store.isFloat = true
    · simp only [hf, if_true]; exact readBack_flt_ok _ _ _ h
    · simp only [hf, if_false]; exact readBack_int_ok _ _ _ h

theorem query_pair (src tgt : Ty) (hp : checkShapePair src tgt = true) (s : Src) :
    verdict (conv src tgt s false) = verdict (conv src tgt s true) := by
  unfold checkShapePair at hp
  unfold conv
  cases hf : fnOf src with
  | none => rfl
  | some f =>
    simp only [hf] at hp ⊢
    simp only [Fn.run]
    cases hl : f.lookup tgt.code with
    | none => rfl
    | some c =>
      simp only [hl, shapeOK, Bool.and_eq_true, beq_iff_eq, List.isEmpty_iff] at hp ⊢
      obtain ⟨⟨hg, hdg⟩, hsz⟩ := hp
      unfold runCase
      by_cases hsup : c.supported f.src = true
      · simp only [hsup, Bool.not_true, Bool.false_eq_true, if_false]
        cases hgd : evalGuards f.src s c.guards with
        | ok u =>
          obtain ⟨o, ho⟩ := readBack_ok tgt c.store s hsz
          simp [hg, hdg, evalGuards, ho, verdict]
        | err e => simp [verdict]
        | null => simp [verdict]
        | oob => simp [verdict]
        | fault => simp [verdict]
      · simp [hsup, verdict]

theorem mem_all (ty : Ty) : ty ∈ Ty.all := by cases ty <;> simp [Ty.all]

theorem query_of_table (h : checkShapeTable = true) (src tgt : Ty) (s : Src) :
    verdict (conv src tgt s false) = verdict (conv src tgt s true) := by
  unfold checkShapeTable at h
  rw [List.all_eq_true] at h
  have h1 := h src (mem_all src)
  rw [List.all_eq_true] at h1
  exact query_pair src tgt (h1 tgt (mem_all tgt)) s

/-! ### small integers are stored exactly in floating targets -/

theorem roundFin_small (f : Fmt) (neg : Bool) (m : Nat) (hq : f.qmin ≤ 0) (hmax : (f.p : Int) - 1 ≤ f.emax)
    (hp : 0 < f.p) (hm : m < 2 ^ f.p) : roundFin f neg m 0 = .fin neg m 0 := by
  unfold roundFin
  by_cases h0 : m = 0
  · simp [h0]
  · have hl : Nat.log2 m < f.p := (Nat.log2_lt h0).2 hm
    simp only [h0, if_false]
    have hq' : max ((Nat.log2 m : Int) + 0 - ((f.p - 1 : Nat) : Int)) f.qmin ≤ 0 := by omega
    have hle : ¬ ((Nat.log2 m : Int) + 0 > f.emax) := by omega
    simp only [hq', hle, if_true, if_false]

theorem ofInt_toInt (v : Int) : (ofInt v).toInt? = some v := by
  unfold ofInt FVal.toInt?
  simp [pow2]
  split <;> omega

/-- integer source, floating target: guards never fault, the store is guarded and has exactly the target's type -/
def checkCaseF (src : CTy) (c : Case) (tgt : Ty) : Bool :=
  !src.isFloat && tgt.isFloat && c.guarded && c.destGuards.isEmpty && c.ret == tgt.size && c.store == tgtCTy tgt &&
  (stepGuards (srcIv src) c.guards).isSome

def checkPairF (src tgt : Ty) : Bool :=
  match fnOf src with
  | none => true
  | some f =>
    f.src == tgtCTy src &&
    match f.lookup tgt.code with
    | some c => checkCaseF f.src c tgt
    | none => !(f.resolve tgt.code ∈ f.vectors)

def Ty.floats : List Ty := [.f, .d, .e]

def checkFloatTable : Bool := Ty.ints.all fun s => Ty.floats.all fun tg => checkPairF s tg

/-- number of significand bits of a floating target -/
def precision (tgt : Ty) : Nat := (tgtCTy tgt).fmt.p

theorem checkPairF_sound (src tgt : Ty) (v : Int) (hp : checkPairF src tgt = true)
    (hs : src.isFloat = false) (hv : inRange src v) (hsmall : v.natAbs < 2 ^ precision tgt) :
    (∃ e, conv src tgt (.int v) true = .err e) ∨
    conv src tgt (.int v) true = .ok (some (.flt (ofInt v)), tgt.size) := by
  unfold checkPairF at hp
  unfold conv
  cases hf : fnOf src with
  | none => left; exact ⟨.BadType, by simp⟩
  | some f =>
    simp only [hf, Bool.and_eq_true, beq_iff_eq] at hp
    obtain ⟨hsrc, hp⟩ := hp
    have hr := (tgtCTy_range src v hs).mp hv
    rw [← hsrc] at hr
    simp only [Fn.run]
    cases hl : f.lookup tgt.code with
    | none =>
      simp only [hl] at hp
      simp at hp
      left
      exact ⟨f.dflt, by simp [hp]⟩
    | some c =>
      simp only [hl, checkCaseF, Bool.and_eq_true, Bool.not_eq_true', beq_iff_eq, List.isEmpty_iff] at hp
      obtain ⟨⟨⟨⟨⟨⟨hsf, htf⟩, hg⟩, hdg⟩, hret⟩, hst⟩, hsome⟩ := hp
      obtain ⟨iv, hiv⟩ := Option.isSome_iff_exists.mp hsome
      have hsup : c.supported f.src = true := by simp [Case.supported, hsf]
      rcases stepGuards_sound f.src c.guards (srcIv f.src) iv v hiv ⟨hr.1, hr.2⟩ with ⟨hok, _⟩ | ⟨e, he⟩
      · right
        have hstf : c.store.isFloat = true := by
          rw [hst]; cases tgt <;> simp_all [tgtCTy, CTy.isFloat, Ty.isFloat]
        have hrnd : round c.store.fmt (ofInt v) = ofInt v := by
          unfold ofInt round
          simp only
          apply roundFin_small
          · rw [hst]; cases tgt <;> simp [Ty.isFloat] at htf <;> simp [tgtCTy, CTy.fmt, Fmt.qmin, binary32, binary64, x87ext]
          · rw [hst]; cases tgt <;> simp [Ty.isFloat] at htf <;> simp [tgtCTy, CTy.fmt, binary32, binary64, x87ext]
          · rw [hst]; cases tgt <;> simp [Ty.isFloat] at htf <;> simp [tgtCTy, CTy.fmt, binary32, binary64, x87ext]
          · rw [hst]; exact hsmall
        have hwf : (tgtCTy tgt).isFloat = true := by rw [← hst]; exact hstf
        rw [hst] at hrnd
        simp [runCase, hsup, hok, hdg, evalGuards, doStore, hrnd, readBack, hst, hwf, hret]
      · left
        exact ⟨e, by simp [runCase, hsup, he]⟩

end Mpt.Conv
