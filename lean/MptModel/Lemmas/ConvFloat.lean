/-
  Helper lemmas for C07: query mode (no destination) and integer -> floating conversions of small integers.
-/
import MptModel.Impl.Convert
import MptModel.Lemmas.Convert
import MptModel.Lemmas.Float
set_option linter.unusedSimpArgs false
namespace Mpt.Conv
open Mpt.Scalar Mpt.Flt

/-! ### query mode gives the same verdict -/

/-- the store is under `if (dest)`, no range test hides in that block, and the store writes an object of the
    target's size -/
def shapeOK (c : Case) (tgt : Ty) : Bool := c.guarded && c.destGuards.isEmpty && c.store.size == (tgtCTy tgt).size

def checkShapePair (src tgt : Ty) : Bool :=
  match fnOf src with
  | none => true
  | some f =>
    match f.lookup tgt.code with
    | some c => shapeOK c tgt
    | none => true

def checkShapeTable : Bool := Ty.all.all fun s => Ty.all.all fun tg => checkShapePair s tg

theorem readBack_int_ok (tgt : Ty) (ty : CTy) (bits : Nat) (h : ty.size = (tgtCTy tgt).size) :
    ∃ o, readBack tgt (.int ty bits) = .ok o := by
  simp only [readBack]
  rw [if_neg (by omega), if_neg (by omega)]
  split <;> exact ⟨_, rfl⟩

theorem readBack_flt_ok (tgt : Ty) (ty : CTy) (y : FVal) (h : ty.size = (tgtCTy tgt).size) :
    ∃ o, readBack tgt (.flt ty y) = .ok o := by
  simp only [readBack]
  rw [if_neg (by omega), if_neg (by omega)]
  split <;> exact ⟨_, rfl⟩

theorem readBack_ok (tgt : Ty) (store : CTy) (s : Src) (h : store.size = (tgtCTy tgt).size) :
    ∃ o, readBack tgt (doStore store s) = .ok o := by
  unfold doStore
  cases s with
  | int v =>
    by_cases hf : store.isFloat = true
    · simp only [hf, if_true]; exact readBack_flt_ok _ _ _ h
    · simp only [hf, if_false]; exact readBack_int_ok _ _ _ h
  | flt y =>
    by_cases hf : store.isFloat = true
    · simp only [hf, if_true]; exact readBack_flt_ok _ _ _ h
    · simp only [hf, if_false]; exact readBack_int_ok _ _ _ h

theorem query_pair (src tgt : Ty) (hp : checkShapePair src tgt = true) (s : Src) :
    verdict (conv src tgt s false) = verdict (conv src tgt s true) := by
  unfold checkShapePair at hp
  unfold conv
  cases hf : fnOf src with
  | none => rfl
  | some f =>
    simp only [hf] at hp ⊢
    simp only [Fn.run]
    cases hl : f.lookup tgt.code with
    | none => rfl
    | some c =>
      simp only [hl, shapeOK, Bool.and_eq_true, beq_iff_eq, List.isEmpty_iff] at hp ⊢
      obtain ⟨⟨hg, hdg⟩, hsz⟩ := hp
      unfold runCase
      by_cases hsup : c.supported f.src = true
      · simp only [hsup, Bool.not_true, Bool.false_eq_true, if_false]
        cases hgd : evalGuards f.src s c.guards with
        | ok u =>
          obtain ⟨o, ho⟩ := readBack_ok tgt c.store s hsz
          simp [hg, hdg, evalGuards, ho, verdict]
        | err e => simp [verdict]
        | null => simp [verdict]
        | oob => simp [verdict]
        | fault => simp [verdict]
      · simp [hsup, verdict]

theorem mem_all (ty : Ty) : ty ∈ Ty.all := by cases ty <;> simp [Ty.all]

theorem query_of_table (h : checkShapeTable = true) (src tgt : Ty) (s : Src) :
    verdict (conv src tgt s false) = verdict (conv src tgt s true) := by
  unfold checkShapeTable at h
  rw [List.all_eq_true] at h
  have h1 := h src (mem_all src)
  rw [List.all_eq_true] at h1
  exact query_pair src tgt (h1 tgt (mem_all tgt)) s

/-! ### small integers are stored exactly in floating targets -/

theorem roundFin_small (f : Fmt) (neg : Bool) (m : Nat) (hq : f.qmin ≤ 0) (hmax : (f.p : Int) - 1 ≤ f.emax)
    (hp : 0 < f.p) (hm : m < 2 ^ f.p) : roundFin f neg m 0 = .fin neg m 0 := by
  unfold roundFin
  by_cases h0 : m = 0
  · simp [h0]
  · have hl : Nat.log2 m < f.p := (Nat.log2_lt h0).2 hm
    simp only [h0, if_false]
    have hq' : max ((Nat.log2 m : Int) + 0 - ((f.p - 1 : Nat) : Int)) f.qmin ≤ 0 := by omega
    have hle : ¬ ((Nat.log2 m : Int) + 0 > f.emax) := by omega
    simp only [hq', hle, if_true, if_false]

theorem ofInt_toInt (v : Int) : (ofInt v).toInt? = some v := by
  unfold ofInt FVal.toInt?
  simp [pow2]
  split <;> omega

/-- integer source, floating target: guards never fault, the store is guarded and has exactly the target's type -/
def checkCaseF (src : CTy) (c : Case) (tgt : Ty) : Bool :=
  !src.isFloat && tgt.isFloat && c.guarded && c.destGuards.isEmpty && c.ret == tgt.size && c.store == tgtCTy tgt &&
  (stepGuards (srcIv src) c.guards).isSome

def checkPairF (src tgt : Ty) : Bool :=
  match fnOf src with
  | none => true
  | some f =>
    f.src == tgtCTy src &&
    match f.lookup tgt.code with
    | some c => checkCaseF f.src c tgt
    | none => !(f.resolve tgt.code ∈ f.vectors)

def Ty.floats : List Ty := [.f, .d, .e]

def checkFloatTable : Bool := Ty.ints.all fun s => Ty.floats.all fun tg => checkPairF s tg

/-- number of significand bits of a floating target -/
def precision (tgt : Ty) : Nat := (tgtCTy tgt).fmt.p

theorem checkPairF_sound (src tgt : Ty) (v : Int) (hp : checkPairF src tgt = true)
    (hs : src.isFloat = false) (hv : inRange src v) (hsmall : v.natAbs < 2 ^ precision tgt) :
    (∃ e, conv src tgt (.int v) true = .err e) ∨
    conv src tgt (.int v) true = .ok (some (.flt (ofInt v)), tgt.size) := by
  unfold checkPairF at hp
  unfold conv
  cases hf : fnOf src with
  | none => left; exact ⟨.BadType, by simp⟩
  | some f =>
    simp only [hf, Bool.and_eq_true, beq_iff_eq] at hp
    obtain ⟨hsrc, hp⟩ := hp
    have hr := (tgtCTy_range src v hs).mp hv
    rw [← hsrc] at hr
    simp only [Fn.run]
    cases hl : f.lookup tgt.code with
    | none =>
      simp only [hl] at hp
      simp at hp
      left
      exact ⟨f.dflt, by simp [hp]⟩
    | some c =>
      simp only [hl, checkCaseF, Bool.and_eq_true, Bool.not_eq_true', beq_iff_eq, List.isEmpty_iff] at hp
      obtain ⟨⟨⟨⟨⟨⟨hsf, htf⟩, hg⟩, hdg⟩, hret⟩, hst⟩, hsome⟩ := hp
      obtain ⟨iv, hiv⟩ := Option.isSome_iff_exists.mp hsome
      have hsup : c.supported f.src = true := by simp [Case.supported, hsf]
      rcases stepGuards_sound f.src c.guards (srcIv f.src) iv v hiv ⟨hr.1, hr.2⟩ with ⟨hok, _⟩ | ⟨e, he⟩
      · right
        have hstf : c.store.isFloat = true := by
          rw [hst]; cases tgt <;> simp_all [tgtCTy, CTy.isFloat, Ty.isFloat]
        have hrnd : round c.store.fmt (ofInt v) = ofInt v := by
          unfold ofInt round
          simp only
          apply roundFin_small
          · rw [hst]; cases tgt <;> simp [Ty.isFloat] at htf <;> simp [tgtCTy, CTy.fmt, Fmt.qmin, binary32, binary64, x87ext]
          · rw [hst]; cases tgt <;> simp [Ty.isFloat] at htf <;> simp [tgtCTy, CTy.fmt, binary32, binary64, x87ext]
          · rw [hst]; cases tgt <;> simp [Ty.isFloat] at htf <;> simp [tgtCTy, CTy.fmt, binary32, binary64, x87ext]
          · rw [hst]; exact hsmall
        have hwf : (tgtCTy tgt).isFloat = true := by rw [← hst]; exact hstf
        rw [hst] at hrnd
        simp [runCase, hsup, hok, hdg, evalGuards, doStore, hrnd, readBack, hst, hwf, hret]
      · left
        exact ⟨e, by simp [runCase, hsup, he]⟩

/-! ### no saturation: floating targets -/

theorem evalGuards_ok_mem (src : CTy) (s : Src) (gs : List Guard) (h : evalGuards src s gs = .ok ()) :
    ∀ g ∈ gs, evalDisj src s g.conds = .ok false := by
  induction gs with
  | nil => intro g hg; simp at hg
  | cons g0 rest ih =>
    intro g hg
    simp only [evalGuards] at h
    cases hd : evalDisj src s g0.conds with
    | ok b =>
      cases b with
      | true => simp [hd] at h
      | false =>
        simp only [hd] at h
        rcases List.mem_cons.mp hg with rfl | hr
        · exact hd
        · exact ih h g hr
    | err e => simp [hd] at h
    | null => simp [hd] at h
    | oob => simp [hd] at h
    | fault => simp [hd] at h

theorem evalDisj_false_mem (src : CTy) (s : Src) (cs : List (List Atom)) (h : evalDisj src s cs = .ok false) :
    ∀ c ∈ cs, evalConj src s c = .ok false := by
  induction cs with
  | nil => intro c hc; simp at hc
  | cons c0 rest ih =>
    intro c hc
    simp only [evalDisj] at h
    cases hd : evalConj src s c0 with
    | ok b =>
      cases b with
      | true => simp [hd] at h
      | false =>
        simp only [hd] at h
        rcases List.mem_cons.mp hc with rfl | hr
        · exact hd
        · exact ih h c hr
    | err e => simp [hd] at h
    | null => simp [hd] at h
    | oob => simp [hd] at h
    | fault => simp [hd] at h

theorem evalConj_pair (src : CTy) (s : Src) (a1 a2 : Atom) (b1 b2 : Bool)
    (h1 : a1.eval src s = .ok b1) (h2 : a2.eval src s = .ok b2) : evalConj src s [a1, a2] = .ok (b1 && b2) := by
  simp only [evalConj, h1]
  cases b1 <;> cases b2 <;> simp [h2]

/-- a comparison of the floating source value in a floating type at least as wide as the source -/
def isFloatCmp (src : CTy) : Atom → Bool
  | .cmp _ cty _ => cty.isFloat && decide (src.size ≤ cty.size)
  | .notIsgraph _ => false

theorem floatCmp_eval (src : CTy) (x : FVal) (op : Cmp) (cty : CTy) (k : Int) (h : isFloatCmp src (.cmp op cty k) = true) :
    (Atom.cmp op cty k).eval src (.flt x) = .ok (cmpF op x k) := by
  simp [isFloatCmp] at h
  simp [Atom.eval, Atom.evalF, h.1, h.2]

def noFaultF (src : CTy) (gs : List Guard) : Bool := gs.all fun g => g.conds.all fun c => c.all (isFloatCmp src)

theorem noFault_conj (src : CTy) (x : FVal) (c : List Atom) (h : c.all (isFloatCmp src) = true) :
    ∃ b, evalConj src (.flt x) c = .ok b := by
  induction c with
  | nil => exact ⟨true, rfl⟩
  | cons a rest ih =>
    simp only [List.all_cons, Bool.and_eq_true] at h
    obtain ⟨b, hb⟩ := ih h.2
    cases a with
    | notIsgraph i => simp [isFloatCmp] at h
    | cmp op cty k =>
      simp only [evalConj, floatCmp_eval src x op cty k h.1]
      cases cmpF op x k
      · exact ⟨false, rfl⟩
      · exact ⟨b, hb⟩

theorem noFault_disj (src : CTy) (x : FVal) (cs : List (List Atom)) (h : cs.all (fun c => c.all (isFloatCmp src)) = true) :
    ∃ b, evalDisj src (.flt x) cs = .ok b := by
  induction cs with
  | nil => exact ⟨false, rfl⟩
  | cons c rest ih =>
    simp only [List.all_cons, Bool.and_eq_true] at h
    obtain ⟨b, hb⟩ := ih h.2
    obtain ⟨b0, hb0⟩ := noFault_conj src x c h.1
    simp only [evalDisj, hb0]
    cases b0
    · exact ⟨b, hb⟩
    · exact ⟨true, rfl⟩

theorem noFault_guards (src : CTy) (x : FVal) (gs : List Guard) (h : noFaultF src gs = true) :
    evalGuards src (.flt x) gs = .ok () ∨ ∃ e, evalGuards src (.flt x) gs = .err e := by
  induction gs with
  | nil => exact Or.inl rfl
  | cons g rest ih =>
    simp only [noFaultF, List.all_cons, Bool.and_eq_true] at h
    obtain ⟨b, hb⟩ := noFault_disj src x g.conds h.1
    simp only [evalGuards, hb]
    cases b
    · exact ih (by simpa [noFaultF] using h.2)
    · exact Or.inr ⟨g.err, rfl⟩

/-- `[val > F, val <= K]` with `F ≤ B` and `srcMax ≤ K`: refuses every finite value in `(B, srcMax]` -/
def upperTest (src : CTy) (B srcMax : Nat) (c : List Atom) : Bool :=
  match c with
  | [.cmp .gt c1 F, .cmp .le c2 K] =>
    isFloatCmp src (.cmp .gt c1 F) && isFloatCmp src (.cmp .le c2 K) && decide (F ≤ (B : Int)) && decide ((srcMax : Int) ≤ K)
  | _ => false

/-- `[val < F, val >= K]` with `-B ≤ F` and `K ≤ -srcMax`: refuses every finite value in `[-srcMax, -B)` -/
def lowerTest (src : CTy) (B srcMax : Nat) (c : List Atom) : Bool :=
  match c with
  | [.cmp .lt c1 F, .cmp .ge c2 K] =>
    isFloatCmp src (.cmp .lt c1 F) && isFloatCmp src (.cmp .ge c2 K) && decide (-(B : Int) ≤ F) && decide (K ≤ -(srcMax : Int))
  | _ => false

def guardBounds (src : CTy) (B srcMax : Nat) (g : Guard) : Bool :=
  g.conds.any (upperTest src B srcMax) && g.conds.any (lowerTest src B srcMax)

theorem den_pos (e : Int) : (0 : Int) < (FVal.den e : Int) := by
  have := pow2_pos (-e).toNat
  simp only [FVal.den]; omega

/-- a finite value of magnitude at most `srcMax` that passes a guard with `guardBounds` has magnitude at most `B` -/
theorem guardBounds_sound (src : CTy) (B srcMax : Nat) (g : Guard) (sg : Bool) (m : Nat) (e : Int)
    (hgb : guardBounds src B srcMax g = true)
    (hpass : evalDisj src (.flt (.fin sg m e)) g.conds = .ok false)
    (hsrc : (FVal.fin sg m e).absLe srcMax) : (FVal.fin sg m e).absLe B := by
  simp only [guardBounds, Bool.and_eq_true, List.any_eq_true] at hgb
  obtain ⟨⟨cu, hcu, htu⟩, ⟨cl, hcl, htl⟩⟩ := hgb
  have hfu := evalDisj_false_mem src _ g.conds hpass cu hcu
  have hfl := evalDisj_false_mem src _ g.conds hpass cl hcl
  simp only [FVal.absLe] at hsrc ⊢
  have hden := den_pos e
  have hden' : ((pow2 (-e).toNat : Nat) : Int) = (FVal.den e : Int) := rfl
  -- Int versions of the bound
  have hsrcI : ((m * pow2 e.toNat : Nat) : Int) ≤ (srcMax : Int) * (FVal.den e : Int) := by
    have : ((m * pow2 e.toNat : Nat) : Int) ≤ ((srcMax * pow2 (-e).toNat : Nat) : Int) := by exact_mod_cast hsrc
    simpa [FVal.den] using this
  suffices hI : ((m * pow2 e.toNat : Nat) : Int) ≤ (B : Int) * (FVal.den e : Int) by
    have : ((m * pow2 e.toNat : Nat) : Int) ≤ ((B * pow2 (-e).toNat : Nat) : Int) := by simpa [FVal.den] using hI
    exact_mod_cast this
  cases sg with
  | false =>
    -- positive: the upper test
    unfold upperTest at htu
    split at htu
    · rename_i c1 F c2 K
      simp only [Bool.and_eq_true, decide_eq_true_eq] at htu
      obtain ⟨⟨⟨h1, h2⟩, hF⟩, hK⟩ := htu
      rw [evalConj_pair src _ _ _ _ _ (floatCmp_eval src _ _ _ _ h1) (floatCmp_eval src _ _ _ _ h2)] at hfu
      simp only [Res.ok.injEq, Bool.and_eq_false_iff] at hfu
      have hKd : (srcMax : Int) * (FVal.den e : Int) ≤ K * (FVal.den e : Int) :=
        Int.mul_le_mul_of_nonneg_right hK (Int.le_of_lt hden)
      have hFd : F * (FVal.den e : Int) ≤ (B : Int) * (FVal.den e : Int) :=
        Int.mul_le_mul_of_nonneg_right hF (Int.le_of_lt hden)
      have hnum : FVal.num false m e = ((m * pow2 e.toNat : Nat) : Int) := by simp [FVal.num]
      rcases hfu with hgt | hle
      · simp only [cmpF, FVal.gtInt, decide_eq_false_iff_not, hnum] at hgt
        omega
      · simp only [cmpF, FVal.gtInt, hnum] at hle
        simp at hle
        omega
    · simp at htu
  | true =>
    unfold lowerTest at htl
    split at htl
    · rename_i c1 F c2 K
      simp only [Bool.and_eq_true, decide_eq_true_eq] at htl
      obtain ⟨⟨⟨h1, h2⟩, hF⟩, hK⟩ := htl
      rw [evalConj_pair src _ _ _ _ _ (floatCmp_eval src _ _ _ _ h1) (floatCmp_eval src _ _ _ _ h2)] at hfl
      simp only [Res.ok.injEq, Bool.and_eq_false_iff] at hfl
      have hKd : K * (FVal.den e : Int) ≤ -(srcMax : Int) * (FVal.den e : Int) :=
        Int.mul_le_mul_of_nonneg_right hK (Int.le_of_lt hden)
      have hFd : -(B : Int) * (FVal.den e : Int) ≤ F * (FVal.den e : Int) :=
        Int.mul_le_mul_of_nonneg_right hF (Int.le_of_lt hden)
      have hnum : FVal.num true m e = -((m * pow2 e.toNat : Nat) : Int) := by simp [FVal.num]
      have e1 : -(srcMax : Int) * (FVal.den e : Int) = -((srcMax : Int) * (FVal.den e : Int)) := Int.neg_mul _ _
      have e2 : -(B : Int) * (FVal.den e : Int) = -((B : Int) * (FVal.den e : Int)) := Int.neg_mul _ _
      rcases hfl with hlt | hge
      · simp only [cmpF, FVal.ltInt, decide_eq_false_iff_not, hnum] at hlt
        omega
      · simp only [cmpF, FVal.ltInt, hnum] at hge
        simp at hge
        omega
    · simp at htl

/-- floating source, floating target: no undefined behaviour in the guards; the store is under `if (dest)`, of
    the target's type, the target's size is returned; and unless the target format is at least as wide as the
    source format, some guard refuses the finite values beyond the target's range -/
def checkCaseFF (src : CTy) (c : Case) (tgt : Ty) : Bool :=
  src.isFloat && tgt.isFloat && c.guarded && c.destGuards.isEmpty && c.ret == tgt.size && c.store == tgtCTy tgt &&
  noFaultF src c.guards &&
  (decide (src.fmt.maxInt ≤ c.store.fmt.maxInt) || c.guards.any (guardBounds src c.store.fmt.maxInt src.fmt.maxInt))

theorem fmt_sane (t : CTy) : t.fmt.Sane := by
  cases t <;> first | exact sane32 | exact sane64 | exact sane80

theorem checkCaseFF_sound (src : CTy) (c : Case) (tgt : Ty) (x : FVal) (hc : checkCaseFF src c tgt = true)
    (hx : x.absLe src.fmt.maxInt) :
    (∃ e, runCase src c (.flt x) true = .err e) ∨
    (∃ y, runCase src c (.flt x) true = .ok (some (.flt c.store y), tgt.size) ∧ y = round c.store.fmt x ∧
      (x.isFinite = true → y.isFinite = true)) := by
  simp only [checkCaseFF, Bool.and_eq_true, beq_iff_eq, List.isEmpty_iff, Bool.or_eq_true, decide_eq_true_eq] at hc
  obtain ⟨⟨⟨⟨⟨⟨⟨hsf, htf⟩, hg⟩, hdg⟩, hret⟩, hst⟩, hnf⟩, hbound⟩ := hc
  have hstf : c.store.isFloat = true := by
    rw [hst]; cases tgt <;> simp_all [tgtCTy, CTy.isFloat, Ty.isFloat]
  have hsup : c.supported src = true := by simp [Case.supported, hstf]
  rcases noFault_guards src x c.guards hnf with hok | ⟨e, he⟩
  · right
    refine ⟨round c.store.fmt x, by simp [runCase, hsup, hok, hdg, evalGuards, doStore, hstf, hret], rfl, ?_⟩
    intro hfin
    cases x with
    | nan => simp [FVal.isFinite] at hfin
    | inf sg => simp [FVal.isFinite] at hfin
    | fin sg m e =>
      have hB : (FVal.fin sg m e).absLe c.store.fmt.maxInt := by
        rcases hbound with hwide | hany
        · simp only [FVal.absLe] at hx ⊢
          exact Nat.le_trans hx (Nat.mul_le_mul_right _ hwide)
        · rw [List.any_eq_true] at hany
          obtain ⟨g, hgm, hgb⟩ := hany
          exact guardBounds_sound src _ _ g sg m e hgb (evalGuards_ok_mem src _ c.guards hok g hgm) hx
      obtain ⟨m', e', hr⟩ := roundFin_finite c.store.fmt (fmt_sane c.store) sg m e hB
      simp [round, hr, FVal.isFinite]
  · left
    exact ⟨e, by simp [runCase, hsup, he]⟩

def checkPairFF (src tgt : Ty) : Bool :=
  match fnOf src with
  | none => true
  | some f =>
    f.src == tgtCTy src &&
    match f.lookup tgt.code with
    | some c => checkCaseFF f.src c tgt
    | none => !(f.resolve tgt.code ∈ f.vectors)

def checkFloatSrcTable : Bool := Ty.floats.all fun s => Ty.floats.all fun tg => checkPairFF s tg

theorem checkPairFF_sound (src tgt : Ty) (x : FVal) (hp : checkPairFF src tgt = true)
    (hx : x.absLe (tgtCTy src).fmt.maxInt) :
    (∃ e, conv src tgt (.flt x) true = .err e) ∨
    (∃ y, conv src tgt (.flt x) true = .ok (some (.flt y), tgt.size) ∧ y = round (tgtCTy tgt).fmt x ∧
      (x.isFinite = true → y.isFinite = true)) := by
  unfold checkPairFF at hp
  unfold conv
  cases hf : fnOf src with
  | none => left; exact ⟨.BadType, by simp⟩
  | some f =>
    simp only [hf, Bool.and_eq_true, beq_iff_eq] at hp
    obtain ⟨hsrc, hp⟩ := hp
    rw [← hsrc] at hx
    simp only [Fn.run]
    cases hl : f.lookup tgt.code with
    | none =>
      simp only [hl] at hp
      simp at hp
      left
      exact ⟨f.dflt, by simp [hp]⟩
    | some c =>
      simp only [hl] at hp
      have hst : c.store = tgtCTy tgt := by
        simp only [checkCaseFF, Bool.and_eq_true, beq_iff_eq] at hp
        exact hp.1.1.2
      have hwf : (tgtCTy tgt).isFloat = true := by
        simp only [checkCaseFF, Bool.and_eq_true] at hp
        have := hp.1.1.1.1.1.1.2
        cases tgt <;> simp_all [tgtCTy, CTy.isFloat, Ty.isFloat]
      rcases checkCaseFF_sound f.src c tgt x hp hx with ⟨e, he⟩ | ⟨y, hy, hyr, hfin⟩
      · left; exact ⟨e, by simp [he]⟩
      · right
        refine ⟨y, ?_, by rw [hyr, hst], hfin⟩
        simp [hy, readBack, hst, hwf]

/-- integer source, floating target, any in-range value: the stored value is the correctly rounded one, and finite -/
theorem int_bound (src : Ty) (v : Int) (hs : src.isFloat = false) (hv : inRange src v) : v.natAbs ≤ 2 ^ 64 := by
  cases src <;> simp [Ty.isFloat] at hs <;> simp only [inRange, Ty.lo, Ty.hi] at hv <;> omega

theorem checkPairF_sound_any (src tgt : Ty) (v : Int) (hp : checkPairF src tgt = true)
    (hs : src.isFloat = false) (hv : inRange src v) :
    (∃ e, conv src tgt (.int v) true = .err e) ∨
    (∃ y, conv src tgt (.int v) true = .ok (some (.flt y), tgt.size) ∧ y = round (tgtCTy tgt).fmt (ofInt v) ∧
      y.isFinite = true) := by
  unfold checkPairF at hp
  unfold conv
  cases hf : fnOf src with
  | none => left; exact ⟨.BadType, by simp⟩
  | some f =>
    simp only [hf, Bool.and_eq_true, beq_iff_eq] at hp
    obtain ⟨hsrc, hp⟩ := hp
    have hr := (tgtCTy_range src v hs).mp hv
    rw [← hsrc] at hr
    simp only [Fn.run]
    cases hl : f.lookup tgt.code with
    | none =>
      simp only [hl] at hp
      simp at hp
      left
      exact ⟨f.dflt, by simp [hp]⟩
    | some c =>
      simp only [hl, checkCaseF, Bool.and_eq_true, Bool.not_eq_true', beq_iff_eq, List.isEmpty_iff] at hp
      obtain ⟨⟨⟨⟨⟨⟨hsf, htf⟩, hg⟩, hdg⟩, hret⟩, hst⟩, hsome⟩ := hp
      obtain ⟨iv, hiv⟩ := Option.isSome_iff_exists.mp hsome
      have hsup : c.supported f.src = true := by simp [Case.supported, hsf]
      rcases stepGuards_sound f.src c.guards (srcIv f.src) iv v hiv ⟨hr.1, hr.2⟩ with ⟨hok, _⟩ | ⟨e, he⟩
      · right
        have hstf : c.store.isFloat = true := by
          rw [hst]; cases tgt <;> simp_all [tgtCTy, CTy.isFloat, Ty.isFloat]
        have hwf : (tgtCTy tgt).isFloat = true := by rw [← hst]; exact hstf
        have h64 : (2 : Nat) ^ 64 ≤ (tgtCTy tgt).fmt.maxInt := by
          have he0 : 64 ≤ (tgtCTy tgt).fmt.e0 := by cases tgt <;> decide
          have hp1 : 1 ≤ pow2 (tgtCTy tgt).fmt.p - 1 := by
            have : pow2 1 ≤ pow2 (tgtCTy tgt).fmt.p := pow2_mono (fmt_sane _).p_pos
            simp [pow2] at this ⊢; omega
          rw [Fmt.maxInt_eq]
          calc (2 : Nat) ^ 64 = pow2 64 := rfl
            _ ≤ pow2 (tgtCTy tgt).fmt.e0 := pow2_mono he0
            _ = 1 * pow2 (tgtCTy tgt).fmt.e0 := (Nat.one_mul _).symm
            _ ≤ (pow2 (tgtCTy tgt).fmt.p - 1) * pow2 (tgtCTy tgt).fmt.e0 := Nat.mul_le_mul_right _ hp1
        have hB : v.natAbs * pow2 (0 : Int).toNat ≤ (tgtCTy tgt).fmt.maxInt * pow2 (-(0 : Int)).toNat := by
          have := int_bound src v hs hv
          simp [pow2]; omega
        obtain ⟨m', e', hrf⟩ := roundFin_finite (tgtCTy tgt).fmt (fmt_sane _) (decide (v < 0)) v.natAbs 0 hB
        refine ⟨round (tgtCTy tgt).fmt (ofInt v), ?_, rfl, by simp [round, ofInt, hrf, FVal.isFinite]⟩
        simp [runCase, hsup, hok, hdg, evalGuards, doStore, hstf, readBack, hst, hwf, hret]
      · left
        exact ⟨e, by simp [runCase, hsup, he]⟩

end Mpt.Conv
