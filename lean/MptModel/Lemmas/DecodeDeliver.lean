/-
  A decoder call between two messages whose unread input starts with a complete well-formed frame: it
  delivers exactly the reference decoding, or asks for work area — it never waits, never reports the frame
  as broken, never delivers anything else (core Lean only; built on the liveness lemmas of C02).
-/
import MptModel.Lemmas.DecodeLiveCall
namespace Mpt.Codec
open Mpt.Cobs

theorem decodeV_accepts (v : Variant) (st : DecState) (segs : List Seg) (pre junk msg : List Byte)
    (hb : Bnd (flat segs).length st) (hf : Fresh st)
    (hin : (flat segs).drop st.curr = pre ++ 0 :: junk) (hnz : ∀ x ∈ pre, x ≠ 0)
    (hdec : dec v (pre ++ [0]) = some msg) :
    ((decodeV v st segs false).ret = .val 1 ∧ (decodeV v st segs false).region = msg ∧
      (decodeV v st segs false).st.msg = some (decodeV v st segs false).st.len) ∨
    (decodeV v st segs false).ret = .err .MissingBuffer := by
  -- the frame body is not empty
  cases pre with
  | nil => simp [dec] at hdec
  | cons c0 body =>
  have hc0 : c0 ≠ 0 := hnz c0 (by simp)
  have hnzb : ∀ x ∈ body, x ≠ 0 := fun x hx => hnz x (by simp [hx])
  have hU : (flat segs).drop st.curr = c0 :: (body ++ 0 :: junk) := by simpa using hin
  have hlive := lift_live v st segs 0 (body ++ 0 :: junk) hf.wf (fresh_live0 v segs st _ rfl hb hf c0 _ hU hc0)
  have hres := (start_callG v segs st _ rfl hf).2.2 c0 (body ++ 0 :: junk) hU hc0
  obtain ⟨hcase, _⟩ := hlive.live body junk rfl hnzb
  rcases hcase with h1 | hmb | ⟨hmd, hor⟩
  · left
    obtain ⟨e1, e2⟩ := decodeV_honest v st segs (c0 :: body) junk hf hin hnz h1
    rw [hdec] at e1
    exact ⟨h1, (Option.some.inj e1).symm, e2⟩
  · exact Or.inr hmb
  · exfalso
    by_cases hmd0 : (decodeCobs v st segs false).ret = .err .MissingData
    · obtain ⟨code, pos, em, _, ectx⟩ := hres.md hmd0
      have hms := mach_spec v (body.length + 2) c0 body junk hnzb (by omega)
      rw [← dec_frame v c0 body hc0 hnzb] at hms
      rw [em] at hms
      simp only [MRes.agrees] at hms
      cases ht : v.tail
      · rw [ht] at hms
        simp only [Bool.false_eq_true, if_false] at hms
        have : dec v (c0 :: body ++ [0]) = some msg := by simpa using hdec
        rw [this] at hms; cases hms
      · -- the tail fix-up turns this exit into a delivery or a request for work area
        have hsafe := decodeCobs_safe v st segs false hf.wf
        have hmd' := hsafe.md hmd0
        unfold decodeV at hmd
        simp only [ht, if_true] at hmd
        unfold decodeCobsR at hmd
        simp only [Bool.false_eq_true, false_or] at hmd
        generalize decodeCobs v st segs false = o at hmd hmd0 ectx hmd'
        rw [if_pos ⟨hmd0, ectx⟩] at hmd
        by_cases hl : o.store.length ≤ o.st.pos + o.st.len
        · rw [if_pos hl] at hmd; simp at hmd
        · rw [if_neg hl] at hmd
          split at hmd <;> simp at hmd
    · rw [decodeV_eq_of_ret v st segs hmd0] at hmd
      exact hmd0 hmd

theorem alignPost_lt (a u p : Nat) : alignPost a u p < 16 := by
  unfold alignPost
  repeat' split
  all_goals omega

/-- work area on entry from a state between two messages: the head room less the alignment offset -/
theorem decPrep_fresh_proc (st : DecState) (segs : List Seg) (store : List Byte) (st' : DecState) (l : Loc) (hf : Fresh st)
    (h : decPrep st segs store false = .inr (st', l)) : st.curr - (st.pos + st.len) ≤ l.proc + 15 := by
  unfold decPrep at h
  simp only at h
  split at h
  · simp at h
  split at h
  · simp at h
  rw [if_pos hf.mlen] at h
  simp only [Bool.false_eq_true, if_false, hf.ctx, Nat.zero_mod, if_true] at h
  unfold decEnter at h
  split at h
  · simp at h
  simp only [Sum.inr.injEq, Prod.mk.injEq] at h
  obtain ⟨rfl, rfl⟩ := h
  have hp := alignPost_lt (cursorAt segs (st.pos + st.len)).1 (cursorAt segs (st.pos + st.len)).2 (st.curr - (st.pos + st.len))
  simp only
  omega

/-- `fresh_live0` with the head room kept: sixteen bytes more than the frame body (alignment offset
    included) and the call does not ask for work area -/
theorem fresh_live_room (v : Variant) (segs : List Seg) (st : DecState) (store : List Byte) (hflat : flat segs = store)
    (hb : Bnd store.length st) (hf : Fresh st) (c0 : Byte) (U : List Byte)
    (hU : store.drop st.curr = c0 :: U) (hc0 : c0 ≠ 0) :
    LiveOut v (decodeCobs v st segs false) (st.curr - (st.pos + st.len) - 14) U := by
  obtain ⟨st', l, hprep⟩ := decPrep_noerr st segs store hb
  have hproc := decPrep_fresh_proc st segs store st' l hf hprep
  obtain ⟨h1, h2, h3, h4, h5, h6, h7⟩ := decPrep_fresh st _ store st' l hf hprep
  have hc : l.store[l.r]? = some c0 := by
    rw [h1, h5]
    have := congrArg (fun x => x[0]?) hU
    simpa using this
  have hlt : l.r < l.store.length := by
    rcases Nat.lt_or_ge l.r l.store.length with h | h
    · exact h
    · simp [List.getElem?_eq_none h] at hc
  have hdrop : l.store.drop (l.r + 1) = U := by
    rw [h1, h5]
    have := congrArg (List.drop 1) hU
    simpa [List.drop_drop, Nat.add_comm] using this
  have hr1 : ({ l with proc := l.proc + 1, code := c0.toNat, reads := [l.r] } : Loc).r = l.r + 1 := by
    simp only [Loc.r]; omega
  have hout : decodeCobs v st segs false =
      decLoop v st' false (l.store.length - (l.r + 1)) { l with proc := l.proc + 1, code := c0.toNat, reads := [l.r] } := by
    unfold decodeCobs
    simp only [Bool.false_eq_true, if_false, hflat, hprep]
    unfold decStart
    rw [if_pos h2, hc]
    simp only [hc0, if_false]
  obtain ⟨a, b⟩ := decLoop_live v st' (l.store.length - (l.r + 1)) { l with proc := l.proc + 1, code := c0.toNat, reads := [l.r] }
    (by rw [hr1]; simp only; omega) ⟨UInt8.toNat_lt c0, by simp only; omega, fun _ => by simp only; omega⟩ h6
  rw [hout]
  refine ⟨a, fun pre junk hun hnz => ?_⟩
  obtain ⟨b1, b2⟩ := b pre junk (by rw [hr1, hdrop]; exact hun) hnz
  exact ⟨b1, fun h => b2 (by simp only; omega)⟩

/-- with head room (sixteen bytes more than the frame body) the frame is delivered -/
theorem decodeV_delivers (v : Variant) (st : DecState) (segs : List Seg) (pre junk msg : List Byte)
    (hb : Bnd (flat segs).length st) (hf : Fresh st)
    (hin : (flat segs).drop st.curr = pre ++ 0 :: junk) (hnz : ∀ x ∈ pre, x ≠ 0)
    (hdec : dec v (pre ++ [0]) = some msg) (hroom : st.pos + st.len + pre.length + 15 ≤ st.curr) :
    (decodeV v st segs false).ret = .val 1 ∧ (decodeV v st segs false).region = msg ∧
      (decodeV v st segs false).st.msg = some (decodeV v st segs false).st.len := by
  rcases decodeV_accepts v st segs pre junk msg hb hf hin hnz hdec with h | h
  · exact h
  · exfalso
    cases pre with
    | nil => simp [dec] at hdec
    | cons c0 body =>
    have hc0 : c0 ≠ 0 := hnz c0 (by simp)
    have hnzb : ∀ x ∈ body, x ≠ 0 := fun x hx => hnz x (by simp [hx])
    have hU : (flat segs).drop st.curr = c0 :: (body ++ 0 :: junk) := by simpa using hin
    have hlive := lift_live v st segs _ (body ++ 0 :: junk) hf.wf (fresh_live_room v segs st _ rfl hb hf c0 _ hU hc0)
    obtain ⟨_, hno⟩ := hlive.live body junk rfl hnzb
    simp only [List.length_cons] at hroom
    exact hno (by omega) h

end Mpt.Codec
