/-
  C16: the implementation model refines the value-level collection `Vals` of Spec/Ident.lean: after every history each
  identifier denotes the value the value-level machine holds for its slot.
-/
import MptModel.Lemmas.IdentLocate
import MptModel.Impl.IdentAbs
set_option linter.unusedSimpArgs false
namespace Mpt.Ident

/- ---------- the C string in a terminated buffer ---------- -/
theorem takeWhile_append_stop {α} (p : α → Bool) (l r : List α) (x : α) (hx : p x = false) :
    (l ++ x :: r).takeWhile p = l.takeWhile p := by
  induction l with
  | nil => simp [List.takeWhile_cons, hx]
  | cons a t ih =>
    simp only [List.cons_append, List.takeWhile_cons]
    split
    · rw [ih]
    · rfl

theorem take_takeWhile_len {α} (p : α → Bool) (l : List α) : l.take (l.takeWhile p).length = l.takeWhile p := by
  induction l with
  | nil => rfl
  | cons a r ih =>
    rw [List.takeWhile_cons]
    by_cases ha : p a = true
    · simp [ha, ih]
    · simp [ha]

theorem strlen_terminated (b : List Byte) : strlen (b ++ [0]) = (cstr b).length := by
  unfold strlen cstr
  rw [takeWhile_append_stop _ b [] 0 (by simp)]

theorem cstr_le (b : List Byte) : (cstr b).length ≤ b.length := (List.takeWhile_sublist _).length_le

theorem take_cstr (b : List Byte) : b.take (cstr b).length = cstr b := take_takeWhile_len _ b

/- ---------- set, at value level ---------- -/
theorem set_refused_len (id : Ident) (h : Heap) (k : Nat) (buf : List Byte) (len : Nat) (hn : 65535 < len + 1) :
    set id h k (some buf) len = .ok (id, h, false) := by
  unfold set
  simp only [Option.isSome_some, if_true]
  have h0 : ¬ ((len : Int) < 0) := by omega
  have h1 : ((len : Int) + 1 > 65535) := by omega
  simp only [h0, if_false, h1, or_true, if_true]
  rfl

/-- `len` bytes of a terminated buffer -/
theorem set_value_len {id : Ident} {h : Heap} {k : Nat} (hw : Wf id h k) (ho : Own id h k) (b : List Byte) (len : Nat)
    (hl : len ≤ b.length) :
    match setVal (.text (b.take len)) with
    | some v => ∃ id' h', set id h k (some (b ++ [0])) len = .ok (id', h', true) ∧ Denotes id' h' k v ∧ Frame h h' k
    | none => set id h k (some (b ++ [0])) len = .ok (id, h, false) := by
  have htl : (b.take len).length = len := by simp; omega
  unfold setVal
  simp only [htl]
  by_cases hn : len + 1 ≤ 65535
  · simp only [hn, if_true]
    obtain ⟨id', h', hs, hh, hf, _⟩ := set_buf hw ho (b ++ [0]) len (by simp; omega) hn
    refine ⟨id', h', hs, ?_, hf⟩
    unfold Denotes Val.stored
    simp only [if_true]
    rw [List.take_append_of_le_length hl] at hh
    exact hh
  · simp only [hn, if_false]
    exact set_refused_len id h k _ len (by omega)

/-- `mpt_identifier_set` against `setVal`, for every operand the caller may pass -/
theorem set_value {id : Ident} {h : Heap} {k : Nat} (hw : Wf id h k) (ho : Own id h k) (name : Option (List Byte)) (len : Int)
    (hv : ∀ b, name = some b → len ≤ b.length) :
    match (nameOf name len).bind setVal with
    | some v => ∃ id' h', set id h k (name.map (· ++ [0])) len = .ok (id', h', true) ∧ Denotes id' h' k v ∧ Frame h h' k
    | none => set id h k (name.map (· ++ [0])) len = .ok (id, h, false) := by
  cases name with
  | none =>
    simp only [Option.map_none, nameOf]
    by_cases hneg : len < 0
    · simp only [hneg, if_true, Option.bind_none]
      exact set_null_refused id h k len (Or.inl hneg)
    · simp only [hneg, if_false, Option.bind_some, setVal]
      by_cases hbig : len.toNat ≤ 65535
      · simp only [hbig, if_true]
        obtain ⟨id', h', hs, hh, hf, _⟩ := set_null hw ho len.toNat hbig
        have : ((len.toNat : Nat) : Int) = len := by omega
        rw [this] at hs
        refine ⟨id', h', hs, ?_, hf⟩
        unfold Denotes Val.stored
        simpa [utf8] using hh
      · simp only [hbig, if_false]
        exact set_null_refused id h k len (Or.inr (by omega))
  | some b =>
    have hlb := hv b rfl
    simp only [Option.map_some, nameOf]
    by_cases hneg : len < 0
    · simp only [hneg, if_true, Option.bind_some]
      have hm1 : len = -1 ∨ len < 0 := Or.inr hneg
      have hset : set id h k (some (b ++ [0])) len = set id h k (some (b ++ [0])) ((cstr b).length : Int) := by
        unfold set
        simp only [hneg, if_true, strlen_terminated]
        have : ¬ (((cstr b).length : Int) < 0) := by omega
        simp only [this, if_false]
      rw [hset]
      have := set_value_len hw ho b (cstr b).length (cstr_le b)
      rw [take_cstr] at this
      exact this
    · simp only [hneg, if_false, Option.bind_some]
      have hl : len.toNat ≤ b.length := by omega
      have := set_value_len hw ho b len.toNat hl
      have hc : ((len.toNat : Nat) : Int) = len := by omega
      rw [hc] at this
      exact this


/- ---------- compare, for every operand the caller may pass ---------- -/
/-- the first `n` bytes of the caller's buffer `buf` (which may continue beyond them) against an identifier that
    holds the text `c` -/
theorem compare_buf {id : Ident} {h : Heap} {k : Nat} {c : List Byte} (hh : Holds id h k 1 (c ++ [0])) (buf : List Byte)
    (n : Nat) (hn : n ≤ buf.length) :
    ∃ r, compare id h (some buf) n = .ok r ∧ (r = 0 ↔ buf.take n = c) := by
  have hlen : id.len = c.length + 1 := by rw [hh.len]; simp
  have htl : (buf.take n).length = n := by simp; omega
  unfold compare
  have h1 : ¬ ((some buf).isSome = true ∧ id.charset ≠ 1) := by simp [hh.cs]
  have h2 : ¬ ((n : Int) < 0 ∧ (some buf : Option (List Byte)).isNone = true) := by simp
  have h3 : ¬ ((n : Int) < 0) := by omega
  simp only [h1, if_false, h2, h3, Int.toNat_natCast]
  have h4 : ¬ (n = 0 ∧ id.len = 0) := by omega
  simp only [h4, if_false]
  by_cases hl : n + 1 ≠ id.len
  · rw [if_neg (by simp), if_pos hl]
    refine ⟨_, rfl, ?_⟩
    constructor
    · intro hc; simp [Err.code] at hc
    · intro hc
      have := congrArg List.length hc
      rw [htl] at this
      omega
  · have hbl : n = c.length := by omega
    rw [if_neg (by simp), if_neg hl]
    simp only [bind, Except.bind, hh.read]
    have h5 : ¬ (n > buf.length) := by omega
    simp only [h5, if_false]
    unfold firstDiff
    cases hfd : firstDiffGo (c ++ [0]) buf 0 n with
    | some i =>
      simp only [pure, Except.pure]
      refine ⟨_, rfl, ?_⟩
      obtain ⟨j, hj, _, hne⟩ := firstDiffGo_some hfd
      constructor
      · intro hc; omega
      · intro hc
        exfalso; apply hne
        have hj' : j < c.length := by omega
        rw [List.getElem?_append_left hj', ← hc, List.getElem?_take]
        simp [hj]
    | none =>
      have hterm : (c ++ [0])[n]? = some 0 := by
        rw [hbl]; simp
      simp only [hterm, bne_self_eq_false, Bool.false_eq_true, if_false, pure, Except.pure]
      refine ⟨_, rfl, ?_⟩
      simp only [true_iff]
      rw [firstDiffGo_none] at hfd
      have := take_eq_of_getElem (n := n) (by simp; omega) hn hfd
      rw [hbl, List.take_left' rfl, ← hbl] at this
      exact this.symm

/-- `nlen < 0`: the operand is the C string in the buffer -/
theorem compare_cstr (id : Ident) (h : Heap) (buf : List Byte) (n : Int) (hn : n < 0) :
    compare id h (some buf) n = compare id h (some buf) (strlen buf) := by
  unfold compare
  have h3 : ¬ ((strlen buf : Int) < 0) := by omega
  simp [hn, h3]

/-- `mpt_identifier_compare` against `cmpEq`, for every text operand: `len` bytes of a buffer that may be longer, or
    the C string in it -/
theorem compare_value {id : Ident} {h : Heap} {k : Nat} {v : Val} (hd : Denotes id h k v) (b : List Byte) (len : Int)
    (hl : len ≤ b.length) :
    ∃ r, compare id h (some (b ++ [0])) len = .ok r ∧
      (r = 0 ↔ cmpEq v (if len < 0 then cstr b else b.take len.toNat) = true) := by
  by_cases hc : v.charset = utf8
  · have hst : v.stored = v.bytes ++ [0] := by simp [Val.stored, hc]
    have hh : Holds id h k 1 (v.bytes ++ [0]) := by
      have := hd
      unfold Denotes at this
      rw [hst, hc] at this
      exact this
    have hcm : ∀ t, cmpEq v t = true ↔ t = v.bytes := by
      intro t; unfold cmpEq; simp [hc]; exact eq_comm
    by_cases hneg : len < 0
    · rw [compare_cstr _ _ _ _ hneg, strlen_terminated]
      obtain ⟨r, hr, hiff⟩ := compare_buf hh (b ++ [0]) (cstr b).length (by have := cstr_le b; simp; omega)
      refine ⟨r, hr, ?_⟩
      rw [hiff, if_pos hneg, hcm, List.take_append_of_le_length (cstr_le b), take_cstr]
    · have hc' : ((len.toNat : Nat) : Int) = len := by omega
      obtain ⟨r, hr, hiff⟩ := compare_buf hh (b ++ [0]) len.toNat (by simp; omega)
      rw [hc'] at hr
      refine ⟨r, hr, ?_⟩
      rw [hiff, if_neg hneg, hcm, List.take_append_of_le_length (by omega)]
  · have hcs : id.charset ≠ 1 := by rw [hd.cs]; exact hc
    refine ⟨Err.BadType.code, compare_nontext hcs _ _, ?_⟩
    constructor
    · intro h0; simp [Err.code] at h0
    · intro h1; unfold cmpEq at h1; simp [hc] at h1


/- ---------- mpt_node_next ---------- -/
theorem cstr_zero_free (b : List Byte) : ∀ x, x ∈ cstr b → x ≠ 0 := by
  intro x hx
  unfold cstr at hx
  induction b with
  | nil => simp at hx
  | cons a r ih =>
    rw [List.takeWhile_cons] at hx
    by_cases ha : (a != 0) = true
    · simp only [ha, if_true, List.mem_cons] at hx
      rcases hx with rfl | hx
      · simpa using ha
      · exact ih hx
    · simp [ha] at hx

theorem cstr_idem (b : List Byte) : cstr (cstr b) = cstr b := by
  unfold cstr
  induction b with
  | nil => rfl
  | cons a r ih =>
    rw [List.takeWhile_cons]
    by_cases ha : (a != 0) = true
    · simp only [ha, if_true, List.takeWhile_cons]
      rw [ih]
    · simp [ha]

/-- the name test only looks at the C string in the buffer -/
theorem nextMatch_cstr (id : Ident) (h : Heap) (b : List Byte) :
    nextMatch id h (some (b ++ [0])) = nextMatch id h (some (cstr b ++ [0])) := by
  unfold nextMatch
  simp only [strlen_terminated, cstr_idem, Option.getD_some, Nat.add_sub_cancel]
  rw [List.take_append_of_le_length (cstr_le b), take_cstr, List.take_left' rfl]

/-- the name test of `mpt_node_next` against `cmpEq`, for every C string operand -/
theorem nextMatch_value {id : Ident} {h : Heap} {k : Nat} {v : Val} (hd : Denotes id h k v) (b : List Byte) :
    nextMatch id h (some (b ++ [0])) = .ok (cmpEq v (cstr b)) := by
  by_cases hc : v.charset = utf8
  · have hst : v.stored = v.bytes ++ [0] := by simp [Val.stored, hc]
    have hh : Holds id h k 1 (v.bytes ++ [0]) := by
      have := hd
      unfold Denotes at this
      rw [hst, hc] at this
      exact this
    rw [nextMatch_cstr, nextMatch_text hh (cstr b) (cstr_zero_free b)]
    congr 1
    unfold cmpEq
    by_cases he : cstr b = v.bytes
    · simp [he, hc]
    · have : ¬ v.bytes = cstr b := fun h' => he h'.symm
      simp [he, this]
  · have hcs : id.charset ≠ 1 := by rw [hd.cs]; exact hc
    unfold nextMatch cmpEq
    simp [hcs, hc, pure, Except.pure]

/-- `mpt_node_next` over a node list finds the first node from the current one on whose name is the C string -/
theorem nodeNext_spec {nodes : List (Ident × Nat × Val)} {h : Heap}
    (hd : ∀ n, n ∈ nodes → Denotes n.1 h n.2.1 n.2.2) (b : List Byte) (i : Nat) :
    ∃ r, nodeNext h (some (b ++ [0])) (nodes.map (·.1)) i = .ok r ∧
      walkS (cstr b) 1 (nodes.map (·.2.2)) 1 (i : Int) = r.map Int.ofNat := by
  induction nodes generalizing i with
  | nil => exact ⟨none, rfl, rfl⟩
  | cons n rest ih =>
    have hhead := hd n (by simp)
    have htail : ∀ m, m ∈ rest → Denotes m.1 h m.2.1 m.2.2 := fun m hm => hd m (by simp [hm])
    simp only [List.map_cons, nodeNext, walkS, bind, Except.bind, nextMatch_value hhead b]
    cases cmpEq n.2.2 (cstr b)
    · simp only [Bool.false_eq_true, if_false]
      obtain ⟨r, hr, hw⟩ := ih htail (i + 1)
      refine ⟨r, hr, ?_⟩
      rw [← hw]; congr 1
    · simp only [if_true, Nat.le_refl]
      exact ⟨some i, rfl, rfl⟩

/- ---------- agreement of the model system with the value-level collection ---------- -/
structure Agree (s : Sys) (sp : Vals) : Prop where
  len : s.ids.length = sp.length
  slot : ∀ k, (s.get k = none ∧ Vals.slot sp k = none) ∨
    ∃ id v, s.get k = some id ∧ Vals.slot sp k = some v ∧ Denotes id s.heap k v

theorem Agree.empty : Agree Sys.empty [] := by
  constructor
  · rfl
  · intro k; left; simp [Sys.get, Sys.empty, Vals.slot]

theorem Agree.live {s : Sys} {sp : Vals} (ha : Agree s sp) {k : Nat} {id : Ident} (hg : s.get k = some id) :
    ∃ v, Vals.slot sp k = some v ∧ Denotes id s.heap k v := by
  rcases ha.slot k with ⟨h1, _⟩ | ⟨id', v, h1, h2, h3⟩
  · rw [hg] at h1; cases h1
  · rw [hg] at h1; cases h1; exact ⟨v, h2, h3⟩

theorem Agree.dead {s : Sys} {sp : Vals} (ha : Agree s sp) {k : Nat} (hg : s.get k = none) : Vals.slot sp k = none := by
  rcases ha.slot k with ⟨_, h2⟩ | ⟨id', v, h1, _, _⟩
  · exact h2
  · rw [hg] at h1; cases h1

theorem vals_get_set_self {sp : Vals} {k : Nat} {v : Val} (o : Option Val) (hg : Vals.slot sp k = some v) : Vals.slot (sp.set k o) k = o := by
  unfold Vals.slot at hg ⊢
  have hk : k < sp.length := by
    rcases Nat.lt_or_ge k sp.length with h' | h'
    · exact h'
    · rw [List.getElem?_eq_none h'] at hg; cases hg
  simp [List.getElem?_set, hk]

theorem vals_get_set_other {sp : Vals} {k j : Nat} (o : Option Val) (hjk : j ≠ k) : Vals.slot (sp.set k o) j = Vals.slot sp j := by
  unfold Vals.slot
  simp [List.getElem?_set, Ne.symm hjk]

/-- identifier `k` replaced after a heap change that only touched `k`'s blocks -/
theorem Agree.update {s : Sys} {sp : Vals} (ha : Agree s sp) {k : Nat} {id id' : Ident} {h' : Heap} {v : Val}
    (hg : s.get k = some id) (hd : Denotes id' h' k v) (hf : Frame s.heap h' k) :
    Agree { ids := s.ids.set k (some id'), heap := h' } (sp.set k (some v)) := by
  obtain ⟨v0, hv0, _⟩ := ha.live hg
  constructor
  · simp [ha.len]
  · intro j
    by_cases hjk : j = k
    · subst hjk
      right
      refine ⟨id', v, ?_, vals_get_set_self _ hv0, hd⟩
      have := get_set_self (s := s) (some id') hg
      simpa [Sys.get] using this
    · rw [get_set_other (h := s.heap) _ hjk, vals_get_set_other _ hjk]
      rcases ha.slot j with h1 | ⟨idj, vj, h1, h2, h3⟩
      · exact Or.inl h1
      · exact Or.inr ⟨idj, vj, h1, h2, Holds.frame h3 hf hjk⟩

/-- identifier `k` ended -/
theorem Agree.remove {s : Sys} {sp : Vals} (ha : Agree s sp) {k : Nat} {id : Ident} {h' : Heap}
    (hg : s.get k = some id) (hf : Frame s.heap h' k) :
    Agree { ids := s.ids.set k none, heap := h' } (sp.set k none) := by
  obtain ⟨v0, hv0, _⟩ := ha.live hg
  constructor
  · simp [ha.len]
  · intro j
    by_cases hjk : j = k
    · subst hjk
      left
      refine ⟨?_, vals_get_set_self _ hv0⟩
      have := get_set_self (s := s) none hg
      simpa [Sys.get] using this
    · rw [get_set_other (h := s.heap) _ hjk, vals_get_set_other _ hjk]
      rcases ha.slot j with h1 | ⟨idj, vj, h1, h2, h3⟩
      · exact Or.inl h1
      · exact Or.inr ⟨idj, vj, h1, h2, Holds.frame h3 hf hjk⟩

/-- a new identifier in the next slot -/
theorem Agree.push {s : Sys} {sp : Vals} (ha : Agree s sp) {id : Ident} {h' : Heap} {v : Val}
    (hd : Denotes id h' s.ids.length v) (hf : Frame s.heap h' s.ids.length) :
    Agree { ids := s.ids ++ [some id], heap := h' } (sp ++ [some v]) := by
  constructor
  · simp [ha.len]
  · intro j
    by_cases hjk : j = s.ids.length
    · subst hjk
      right
      refine ⟨id, v, by simp [Sys.get], ?_, hd⟩
      rw [ha.len]; simp [Vals.slot]
    · have e1 : ({ ids := s.ids ++ [some id], heap := h' } : Sys).get j = s.get j := by
        unfold Sys.get
        by_cases hlt : j < s.ids.length
        · simp [List.getElem?_append_left hlt]
        · simp [List.getElem?_eq_none (show s.ids.length ≤ j by omega),
            List.getElem?_eq_none (show (s.ids ++ [some id]).length ≤ j by simp; omega)]
      have e2 : Vals.slot (sp ++ [some v]) j = Vals.slot sp j := by
        unfold Vals.slot
        rw [ha.len] at hjk
        by_cases hlt : j < sp.length
        · simp [List.getElem?_append_left hlt]
        · simp [List.getElem?_eq_none (show sp.length ≤ j by omega),
            List.getElem?_eq_none (show (sp ++ [some v]).length ≤ j by simp; omega)]
      rw [e1, e2]
      rcases ha.slot j with h1 | ⟨idj, vj, h1, h2, h3⟩
      · exact Or.inl h1
      · exact Or.inr ⟨idj, vj, h1, h2, Holds.frame h3 hf hjk⟩

theorem denotes_unset {id : Ident} {h : Heap} {k : Nat} (hh : Holds id h k 0 []) : Denotes id h k Val.unset := by
  unfold Denotes Val.stored Val.unset
  simpa [utf8] using hh

/-- **one step**: the model's step is the value-level step -/
theorem step_refines {s : Sys} {sp : Vals} (hi : SysInv s) (ha : Agree s sp) (op : Op) (hv : op.valid) :
    ∃ s' r, s.step op = .ok (s', r) ∧ SysInv s' ∧ Agree s' (sp.step op.abs) := by
  obtain ⟨s', r, hstep, hi', _⟩ := step_inv hi op hv
  refine ⟨s', r, hstep, hi', ?_⟩
  cases op with
  | new size =>
    obtain ⟨id, hc, hh, _⟩ := create_spec size hv s.heap s.ids.length (fresh_slot_dead hi)
    have : s.step (.new size) = .ok ({ s with ids := s.ids ++ [some id] }, .done true) := by
      simp only [Sys.step, hc, bind, Except.bind, pure, Except.pure]
    rw [this] at hstep; cases hstep
    exact ha.push (denotes_unset hh) (Frame.refl _ _)
  | set k name len =>
    cases hg : s.get k with
    | none =>
      have : s.step (.set k name len) = .ok (s, .invalid) := by simp [Sys.step, hg, pure, Except.pure]
      rw [this] at hstep; cases hstep
      simp only [Op.abs, Vals.step, ha.dead hg]
      exact ha
    | some id =>
      obtain ⟨v0, hv0, hd0⟩ := ha.live hg
      have hv' : ∀ b, name = some b → len ≤ b.length := by
        intro b hb; subst hb; exact hv
      have hsv := set_value (hi.wf k id hg) (hi.ownOf hg) name len hv'
      simp only [Op.abs, Vals.step, hv0]
      cases hb : (nameOf name len).bind setVal with
      | none =>
        rw [hb] at hsv
        simp only at hsv
        have : s.step (.set k name len) = .ok ({ ids := s.ids.set k (some id), heap := s.heap }, .done false) := by
          simp only [Sys.step, hg, hsv, bind, Except.bind, pure, Except.pure]
        rw [this] at hstep; cases hstep
        have := ha.update hg hd0 (Frame.refl _ _)
        have hsame : sp.set k (some v0) = sp := by
          unfold Vals.slot at hv0
          apply List.ext_getElem?
          intro i
          by_cases hik : i = k
          · subst hik
            rcases Nat.lt_or_ge i sp.length with hlt | hge
            · simp only [List.getElem?_set, hlt, if_true]
              rw [List.getElem?_eq_getElem hlt] at hv0 ⊢
              simp only [Option.getD_some] at hv0
              rw [hv0]
            · rw [List.getElem?_eq_none hge] at hv0; cases hv0
          · simp [List.getElem?_set, Ne.symm hik]
        rw [hsame] at this
        exact this
      | some v =>
        rw [hb] at hsv
        obtain ⟨id', h', hs, hd, hf⟩ := hsv
        have : s.step (.set k name len) = .ok ({ ids := s.ids.set k (some id'), heap := h' }, .done true) := by
          simp only [Sys.step, hg, hs, bind, Except.bind, pure, Except.pure]
        rw [this] at hstep; cases hstep
        exact ha.update hg hd hf
  | copy k j =>
    cases hg : s.get k with
    | none =>
      have : s.step (.copy k j) = .ok (s, .invalid) := by simp [Sys.step, hg, pure, Except.pure]
      rw [this] at hstep; cases hstep
      simp only [Op.abs, Vals.step, ha.dead hg]
      exact ha
    | some id =>
      obtain ⟨v0, hv0, hd0⟩ := ha.live hg
      cases j with
      | none =>
        obtain ⟨id', h', hs, hh, hf, _⟩ := copy_null (hi.wf k id hg) (hi.ownOf hg)
        have : s.step (.copy k none) = .ok ({ ids := s.ids.set k (some id'), heap := h' }, .done true) := by
          simp only [Sys.step, hg, hs, bind, Except.bind, pure, Except.pure]
        rw [this] at hstep; cases hstep
        simp only [Op.abs, Vals.step, hv0]
        exact ha.update hg (denotes_unset hh) hf
      | some j =>
        cases hgj : s.get j with
        | none =>
          have : s.step (.copy k (some j)) = .ok (s, .invalid) := by simp [Sys.step, hg, hgj, pure, Except.pure]
          rw [this] at hstep; cases hstep
          simp only [Op.abs, Vals.step, hv0, ha.dead hgj]
          exact ha
        | some src =>
          obtain ⟨vj, hvj, hdj⟩ := ha.live hgj
          simp only [Op.abs, Vals.step, hv0, hvj]
          by_cases hjk : j = k
          · subst hjk
            rw [hg] at hgj; cases hgj
            rw [hv0] at hvj; cases hvj
            have hs := copy_self (hi.wf j id hg)
            have : s.step (.copy j (some j)) = .ok ({ ids := s.ids.set j (some id), heap := s.heap }, .done true) := by
              simp only [Sys.step, hg, beq_self_eq_true, hs, bind, Except.bind, pure, Except.pure]
            rw [this] at hstep; cases hstep
            exact ha.update hg hd0 (Frame.refl _ _)
          · obtain ⟨id', h', hs, hh, hf, _⟩ := copy_spec (hi.wf k id hg) (hi.ownOf hg) hdj
            have hb : (j == k) = false := by simpa using hjk
            have : s.step (.copy k (some j)) = .ok ({ ids := s.ids.set k (some id'), heap := h' }, .done true) := by
              simp only [Sys.step, hg, hgj, hb, hs, bind, Except.bind, pure, Except.pure]
            rw [this] at hstep; cases hstep
            exact ha.update hg hh hf
  | free k =>
    cases hg : s.get k with
    | none =>
      have : s.step (.free k) = .ok (s, .invalid) := by simp [Sys.step, hg, pure, Except.pure]
      rw [this] at hstep; cases hstep
      simp only [Op.abs, Vals.step, ha.dead hg]
      exact ha
    | some id =>
      obtain ⟨v0, hv0, _⟩ := ha.live hg
      obtain ⟨id', h', hs, hh, hf, _⟩ := set_null (hi.wf k id hg) (hi.ownOf hg) 0 (by omega)
      rw [show ((0 : Nat) : Int) = 0 from rfl] at hs
      have : ∃ n, s.step (.free k) = .ok ({ ids := s.ids.set k none, heap := h' }, .ended n) := by
        refine ⟨Sys.owned { ids := s.ids.set k none, heap := h' } k, ?_⟩
        simp only [Sys.step, hg, hs, bind, Except.bind, pure, Except.pure]
      obtain ⟨n, this⟩ := this
      rw [this] at hstep; cases hstep
      simp only [Op.abs, Vals.step, hv0]
      exact ha.remove hg hf
  | tinit j =>
    obtain ⟨c, hc, hhc, _⟩ := create_spec 16 (by omega) s.heap s.ids.length (fresh_slot_dead hi)
    have hc' : init (rawStorage 16) 16 = .ok c := hc
    cases j with
    | none =>
      have : s.step (.tinit none) = .ok ({ ids := s.ids ++ [some c], heap := s.heap }, .done true) := by
        simp only [Sys.step, traitsInit, hc', bind, Except.bind, pure, Except.pure]; rfl
      rw [this] at hstep; cases hstep
      simp only [Op.abs, Vals.step]
      exact ha.push (denotes_unset hhc) (Frame.refl _ _)
    | some j =>
      cases hgj : s.get j with
      | none =>
        have : s.step (.tinit (some j)) = .ok (s, .invalid) := by simp [Sys.step, hgj, pure, Except.pure]
        rw [this] at hstep; cases hstep
        simp only [Op.abs, Vals.step, ha.dead hgj]
        exact ha
      | some src =>
        obtain ⟨vj, hvj, hdj⟩ := ha.live hgj
        obtain ⟨id', h', hs, hh, hf, _⟩ := copy_spec hhc.wf hhc.own hdj
        have : s.step (.tinit (some j)) = .ok ({ ids := s.ids ++ [some id'], heap := h' }, .done true) := by
          simp only [Sys.step, hgj, Option.map_some, traitsInit, hc', hs, bind, Except.bind, pure, Except.pure]; rfl
        rw [this] at hstep; cases hstep
        simp only [Op.abs, Vals.step, hvj]
        exact ha.push hh hf
  | tfini k =>
    cases hg : s.get k with
    | none =>
      have : s.step (.tfini k) = .ok (s, .invalid) := by simp [Sys.step, hg, pure, Except.pure]
      rw [this] at hstep; cases hstep
      simp only [Op.abs, Vals.step, ha.dead hg]
      exact ha
    | some id =>
      obtain ⟨v0, hv0, _⟩ := ha.live hg
      obtain ⟨id', h', hs, hf, _, _⟩ := fini_spec (hi.wf k id hg) (hi.ownOf hg)
      have : ∃ n, s.step (.tfini k) = .ok ({ ids := s.ids.set k none, heap := h' }, .ended n) := by
        refine ⟨Sys.owned { ids := s.ids.set k none, heap := h' } k, ?_⟩
        simp only [Sys.step, hg, hs, bind, Except.bind, pure, Except.pure]
      obtain ⟨n, this⟩ := this
      rw [this] at hstep; cases hstep
      simp only [Op.abs, Vals.step, hv0]
      exact ha.remove hg hf

/-- **histories** -/
theorem run_refines {s : Sys} {sp : Vals} (hi : SysInv s) (ha : Agree s sp) (ops : List Op) (hv : ∀ op, op ∈ ops → op.valid) :
    ∃ s', s.run ops = .ok s' ∧ SysInv s' ∧ Agree s' (sp.run (ops.map Op.abs)) := by
  induction ops generalizing s sp with
  | nil => exact ⟨s, rfl, hi, ha⟩
  | cons op rest ih =>
    obtain ⟨s1, r, hs, hi1, ha1⟩ := step_refines hi ha op (hv op (by simp))
    obtain ⟨s', hr, hi', ha'⟩ := ih hi1 ha1 (fun o ho => hv o (by simp [ho]))
    exact ⟨s', by simp only [Sys.run, hs, bind, Except.bind]; exact hr, hi', ha'⟩

end Mpt.Ident
