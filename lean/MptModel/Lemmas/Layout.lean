/-
  Helper lemmas for C20 (core Lean only).
-/
import MptModel.Impl.Layout
import MptModel.Spec.Record
import MptModel.Generated.LayoutTables

namespace Mpt.Layout

/-! ### `mpt_property_match` -/

theorem laterMatch_eq_any (m : Str) (n : Nat) (l : List Str) :
    laterMatch m n l = l.any (fun c => eqNoCaseN m c n) := by
  induction l with
  | nil => rfl
  | cons c r ih => simp [laterMatch, ih]

/-- partial matching, as one equation: the first name that agrees on `n` characters decides -/
theorem propertyMatch_some (m : Str) (n : Nat) (names : List Str) (pos : Nat) :
    propertyMatch m (some n) names pos =
      match names.findIdx? (fun c => eqNoCaseN m c n) with
      | none => .missing
      | some i =>
        if n ≤ (names.getD i []).length ∧ (names.drop (i + 1)).any (fun c => eqNoCaseN m c n) then .ambiguous
        else .found (pos + i) := by
  induction names generalizing pos with
  | nil => rfl
  | cons c r ih =>
    unfold propertyMatch
    by_cases h : eqNoCaseN m c n = true
    · simp [h, List.findIdx?_cons, laterMatch_eq_any]
    · simp only [h]
      rw [ih (pos + 1)]
      simp only [List.findIdx?_cons, h]
      cases hf : List.findIdx? (fun c => eqNoCaseN m c n) r with
      | none => simp
      | some i =>
        simp only [Bool.false_eq_true, ↓reduceIte, Option.map_some, List.getD_cons_succ, List.drop_succ_cons]
        have : pos + 1 + i = pos + (i + 1) := by omega
        rw [this]

/-- full-name matching: the first name equal up to case, never ambiguous -/
theorem propertyMatch_none (m : Str) (names : List Str) (pos : Nat) :
    propertyMatch m none names pos =
      match names.findIdx? (fun c => eqNoCase m c) with
      | none => .missing
      | some i => .found (pos + i) := by
  induction names generalizing pos with
  | nil => rfl
  | cons c r ih =>
    unfold propertyMatch
    by_cases h : eqNoCase m c = true
    · simp [h, List.findIdx?_cons]
    · simp only [h]
      rw [ih (pos + 1)]
      simp only [List.findIdx?_cons, h]
      cases hf : List.findIdx? (fun c => eqNoCase m c) r with
      | none => simp
      | some i =>
        simp only [Bool.false_eq_true, ↓reduceIte, Option.map_some]
        have : pos + 1 + i = pos + (i + 1) := by omega
        rw [this]

/-! ### handlers: frame and refusal -/

theorem put_vals_ne (o : Obj) (f i : Nat) (v : Val) (h : i ≠ f) : (o.put f v).vals[i]? = o.vals[i]? := by
  simp only [Obj.put]
  exact List.getElem?_set_ne (Ne.symm h)

theorem setString_vals_ne (o : Obj) (f i : Nat) (v : Option Str) (tok : Nat) (h : i ≠ f) :
    (setString o f v tok).vals[i]? = o.vals[i]? := by
  unfold setString
  split <;> exact List.getElem?_set_ne (Ne.symm h)

/-- a handler writes only the members it names -/
theorem Act.run_untouched (k : Kind) (tab : List NamedColor) (a : Act) (o : Obj) (src : Src) (tok i : Nat)
    (h : i ∉ a.touched) : (a.run k tab o src tok).obj.vals[i]? = o.vals[i]? := by
  cases a
  case colour f r =>
    cases r <;> simp only [Act.touched, Option.toList, List.mem_cons, List.not_mem_nil, or_false, not_or] at h <;>
      unfold Act.run <;> simp only [] <;> (repeat' split) <;>
      first
      | rfl
      | (simp only [put_vals_ne, h, ne_eq, not_false_eq_true]; done)
      | (obtain ⟨h1, h2⟩ := h; simp only [put_vals_ne, h1, h2, ne_eq, not_false_eq_true]; done)
  case lattr f d lo hi r =>
    cases r <;> simp only [Act.touched, Option.toList, List.mem_cons, List.not_mem_nil, or_false, not_or] at h <;>
      unfold Act.run <;> simp only [] <;> (repeat' split) <;>
      first
      | rfl
      | (simp only [put_vals_ne, h, ne_eq, not_false_eq_true]; done)
      | (obtain ⟨h1, h2⟩ := h; simp only [put_vals_ne, h1, h2, ne_eq, not_false_eq_true]; done)
  all_goals
    simp only [Act.touched, List.mem_cons, List.not_mem_nil, or_false, not_or] at h <;>
    unfold Act.run <;> simp only [] <;> (repeat' split) <;>
    first
    | rfl
    | (simp only [put_vals_ne, setString_vals_ne, h, ne_eq, not_false_eq_true]; done)
    | (obtain ⟨h1, h2⟩ := h; simp only [put_vals_ne, h1, h2, ne_eq, not_false_eq_true]; done)

theorem Obj.get_congr (o o' : Obj) (f : Nat) (h : o'.vals[f]? = o.vals[f]?) : o'.get f = o.get f := by
  simp only [Obj.get, List.getD_eq_getElem?_getD, h]

/-- a table row shows the same value when the members it reads are the same -/
theorem Kind.getAt_congr (k : Kind) (o o' : Obj) (i : Nat)
    (h : ∀ f ∈ k.reads i, o'.vals[f]? = o.vals[f]?) : k.getAt o' i = k.getAt o i := by
  unfold Kind.getAt
  unfold Kind.reads at h
  cases hg : k.gets[i]? with
  | none => rfl
  | some g =>
    simp only [hg] at h
    have h1 : o'.get g.field = o.get g.field := by
      apply Obj.get_congr; apply h; by_cases ht : g.ty = -2 <;> simp [ht]
    have h2 : g.ty = -2 → o'.get (g.field + 1) = o.get (g.field + 1) := by
      intro ht; apply Obj.get_congr; apply h; simp [ht]
    have hre : k.readEntry o' g = k.readEntry o g := by
      unfold Kind.readEntry
      by_cases ht : g.ty = -2
      · simp only [ht, ↓reduceIte, h1, h2 ht]
      · simp only [ht, ↓reduceIte, h1]
    simp only [hre]
    cases hl : k.logAt with
    | none => rfl
    | some t =>
      obtain ⟨idx, flags, bit⟩ := t
      by_cases hi : idx = i
      · have h3 : o'.get flags = o.get flags := by
          apply Obj.get_congr; apply h; simp [hl, hi]
        simp only [hi, h3]
      · simp only [hi, false_and, ↓reduceIte]

/-- a handler that does not return success has not written anything -/
theorem Act.run_refuse_pure (k : Kind) (tab : List NamedColor) (a : Act) (o : Obj) (src : Src) (tok : Nat)
    (h : (a.run k tab o src tok).ret.isOk = false) : (a.run k tab o src tok).obj = o := by
  cases a <;> unfold Act.run at h ⊢ <;> simp only [] at h ⊢ <;> (repeat' split at h) <;>
    first
    | (simp [Ret.isOk] at h; done)
    | (simp_all; done)
    | ((repeat' split) <;> simp_all [Ret.isOk]; done)
    | skip

open Mpt.Record

/-- members present -/
def Kind.WF (k : Kind) (o : Obj) : Prop := o.vals.length = k.fields.length

theorem Obj.get_put (o : Obj) (f : Nat) (v : Val) (h : f < o.vals.length) : (o.put f v).get f = v := by
  simp [Obj.get, Obj.put, List.getD_eq_getElem?_getD, h]

theorem Obj.get_put_ne (o : Obj) (f i : Nat) (v : Val) (h : i ≠ f) : (o.put f v).get i = o.get i :=
  Obj.get_congr _ _ _ (put_vals_ne o f i v h)

theorem Obj.put_length (o : Obj) (f : Nat) (v : Val) : (o.put f v).vals.length = o.vals.length := by
  simp [Obj.put]

/-- row `i` shows member `f` as it is stored (no point, no text alias) -/
def Kind.plainRow (k : Kind) (i f : Nat) : Bool :=
  match k.gets[i]? with
  | some g => g.field == f && g.ty != -2 &&
      (match k.logAt with | some (idx, _, _) => idx != i | none => true) &&
      (match k.clipAlias with | some (nm, _) => nm != g.name | none => true)
  | none => false

theorem Kind.getAt_plain (k : Kind) (o : Obj) (i f : Nat) (h : k.plainRow i f = true) :
    ∃ g, k.gets[i]? = some g ∧ k.getAt o i = some (g.name, o.get f) := by
  unfold Kind.plainRow at h
  cases hg : k.gets[i]? with
  | none => simp [hg] at h
  | some g =>
    simp only [hg, Bool.and_eq_true, beq_iff_eq, bne_iff_ne, ne_eq] at h
    obtain ⟨⟨⟨hf, hty⟩, hlog⟩, hclip⟩ := h
    refine ⟨g, rfl, ?_⟩
    unfold Kind.getAt Kind.readEntry
    simp only [hg, hty, ↓reduceIte, hf]
    cases hl : k.logAt with
    | none =>
      cases hc : k.clipAlias with
      | none => rfl
      | some t => obtain ⟨nm, names⟩ := t; simp [hc] at hclip; simp [hclip]
    | some t =>
      obtain ⟨idx, flags, bit⟩ := t
      simp [hl] at hlog
      cases hc : k.clipAlias with
      | none => simp [hlog]
      | some t => obtain ⟨nm, names⟩ := t; simp [hc] at hclip; simp [hclip, hlog]

/-! ### text conversions -/

theorem skipSpaces_idem (s : Str) : skipSpaces (skipSpaces s) = skipSpaces s := by
  induction s with
  | nil => rfl
  | cons b r ih =>
    by_cases h : isSpace b = true
    · have e : skipSpaces (b :: r) = skipSpaces r := by rw [skipSpaces]; simp [h]
      rw [e]; exact ih
    · have e : skipSpaces (b :: r) = b :: r := by rw [skipSpaces]; simp [h]
      rw [e, e]

/-- an unsigned reading within 0..255 is also the signed reading -/
theorem convUint_convSint (t : Str) (x : Int) (u : Nat) (h : convUint 0 255 t = .val x u) :
    convSint 0 (-2147483648) 2147483647 t = .val x u := by
  unfold convUint at h
  unfold convSint
  split at h
  · cases h
  · rename_i hne
    simp only [hne, Bool.false_eq_true, ↓reduceIte]
    simp only [] at h ⊢
    cases hs : strtoMag 0 (takeSign (skipSpaces t)).2.1 with
    | none => simp only [hs] at h; split at h <;> cases h
    | some p =>
      obtain ⟨v, c⟩ := p
      simp only [hs] at h ⊢
      split at h
      · cases h
      · split at h
        · cases h
        · rename_i hneg
          split at h
          · cases h
          · rename_i h1 h2
            simp only [Conv.val.injEq] at h
            obtain ⟨hx, hu⟩ := h
            simp only [hneg, Bool.false_eq_true, ↓reduceIte]
            have hv : v ≤ 255 := by omega
            have : ¬ ((v : Int) > 9223372036854775807 ∨ (v : Int) < -9223372036854775808) := by omega
            simp only [this, ↓reduceIte]
            subst hx
            have : ¬ ((v : Int) < -2147483648 ∨ (v : Int) > 2147483647) := by omega
            simp only [this, ↓reduceIte, hu]

theorem convUint_none (base hi : Nat) (s : Str) (h : convUint base hi s = .none) :
    (skipSpaces s).isEmpty = true := by
  unfold convUint at h
  split at h
  · rename_i he; cases s <;> simp_all [skipSpaces]
  · simp only [] at h
    split at h
    · split at h
      · assumption
      · cases h
    · (repeat' split at h) <;> cases h

theorem convSint_none (base : Nat) (lo hi : Int) (s : Str) (h : convSint base lo hi s = .none) :
    (skipSpaces s).isEmpty = true := by
  unfold convSint at h
  split at h
  · rename_i he; cases s <;> simp_all [skipSpaces]
  · simp only [] at h
    split at h
    · split at h
      · assumption
      · cases h
    · (repeat' split at h) <;> cases h

theorem convFloat_none (prec : Nat) (emax : Int) (s : Str) (h : convFloat prec emax s = .none) :
    (skipSpaces s).isEmpty = true := by
  unfold convFloat at h
  split at h
  · rename_i he; cases s <;> simp_all [skipSpaces]
  · simp only [] at h
    split at h
    · cases h
    · split at h
      · split at h
        · assumption
        · cases h
      · (repeat' split at h) <;> cases h

theorem convChar_none (s : Str) (h : convChar s = .none) : (skipSpaces s).isEmpty = true := by
  unfold convChar at h
  simp only [] at h
  split at h
  · rename_i he; simp [he]
  · split at h <;> cases h

theorem convScalar_none (ty : Char) (s : Str) (h : convScalar ty s = .none) : (skipSpaces s).isEmpty = true := by
  unfold convScalar at h
  simp only [] at h
  split at h
  all_goals first
    | (cases h; done)
    | (split at h <;> first
        | (cases h; done)
        | exact convUint_none _ _ _ (by assumption)
        | exact convSint_none _ _ _ _ (by assumption)
        | exact convFloat_none _ _ _ (by assumption)
        | exact convChar_none _ (by assumption))

theorem convText_cases (ty : Char) (v : Str) :
    (convText ty (some v) = .none ∧ blank (some v) = true) ∨
    (∃ x u u', convText ty (some v) = .val x u ∧ convScalar ty (skipSpaces v) = .val x u') ∨
    (∃ e, convText ty (some v) = .err e ∧ convScalar ty (skipSpaces v) = .err e) ∨ convText ty (some v) = .unsup := by
  unfold convText
  simp only []
  by_cases he : v.isEmpty = true
  · left
    simp only [he, ↓reduceIte, true_and]
    cases v <;> simp_all [blank, skipSpaces]
  · simp only [he, Bool.false_eq_true, ↓reduceIte]
    cases hc : convScalar ty (skipSpaces v) with
    | val x u => right; left; exact ⟨x, _, u, rfl, rfl⟩
    | none =>
      left
      refine ⟨rfl, ?_⟩
      have := convScalar_none ty _ hc
      rw [skipSpaces_idem] at this
      simpa [blank] using this
    | err e => right; right; left; exact ⟨e, rfl, rfl⟩
    | unsup => right; right; right; rfl

/-! ### the letter forms of graph align and clip -/

theorem alignCode_lt (c : Byte) : alignCode c < 4 := by
  unfold alignCode; simp only []; (repeat' split) <;> decide

theorem align_bits : ∀ f0 f1 f2 f3 : Fin 4,
    ((((((((0 ||| (f0.val <<< (0 * 2))) % 256) ||| (f1.val <<< (1 * 2))) % 256) ||| (f2.val <<< (2 * 2))) % 256) |||
      (f3.val <<< (3 * 2))) % 256) = f0.val + 4 * f1.val + 16 * f2.val + 64 * f3.val := by decide

theorem alignLetters_step (c : Byte) (r : Str) (i n : Nat) (h : i < 4) :
    alignLetters (c :: r) i n = alignLetters r (i + 1) ((n ||| (alignCode c <<< (i * 2))) % 256) := by
  rw [alignLetters]
  have : ¬ i ≥ 4 := by omega
  simp only [this, ↓reduceIte, alignCode]

theorem alignLetters_stop (v : Str) (n : Nat) : alignLetters v 4 n = n := by
  cases v with
  | nil => rfl
  | cons c r => rw [alignLetters]; simp

theorem alignLetters_nil (i n : Nat) : alignLetters [] i n = n := by rw [alignLetters]

/-- the letter loop of the setter computes the documented two-bits-per-axis mask -/
theorem alignLetters_eq (v : Str) : alignLetters v 0 0 = alignMask v := by
  have z : alignCode 0 = 0 := by decide
  have hb := align_bits
  unfold alignMask
  match v with
  | [] => rw [alignLetters_nil]; simp [z]
  | [a] =>
    have := hb ⟨_, alignCode_lt a⟩ 0 0 0
    rw [alignLetters_step _ _ _ _ (by decide : 0 < 4), alignLetters_nil]
    simp only [List.getD_cons_zero, List.getD_cons_succ, List.getD_nil, z]
    simpa using this
  | [a, b] =>
    have := hb ⟨_, alignCode_lt a⟩ ⟨_, alignCode_lt b⟩ 0 0
    rw [alignLetters_step _ _ _ _ (by decide : 0 < 4), alignLetters_step _ _ _ _ (by decide : 0 + 1 < 4), alignLetters_nil]
    simp only [List.getD_cons_zero, List.getD_cons_succ, List.getD_nil, z]
    simpa using this
  | [a, b, c] =>
    have := hb ⟨_, alignCode_lt a⟩ ⟨_, alignCode_lt b⟩ ⟨_, alignCode_lt c⟩ 0
    rw [alignLetters_step _ _ _ _ (by decide : 0 < 4), alignLetters_step _ _ _ _ (by decide : 0 + 1 < 4),
      alignLetters_step _ _ _ _ (by decide : 0 + 1 + 1 < 4), alignLetters_nil]
    simp only [List.getD_cons_zero, List.getD_cons_succ, List.getD_nil, z]
    simpa using this
  | a :: b :: c :: d :: r =>
    have := hb ⟨_, alignCode_lt a⟩ ⟨_, alignCode_lt b⟩ ⟨_, alignCode_lt c⟩ ⟨_, alignCode_lt d⟩
    rw [alignLetters_step _ _ _ _ (by decide : 0 < 4), alignLetters_step _ _ _ _ (by decide : 0 + 1 < 4),
      alignLetters_step _ _ _ _ (by decide : 0 + 1 + 1 < 4), alignLetters_step _ _ _ _ (by decide : 0 + 1 + 1 + 1 < 4),
      alignLetters_stop]
    simp only [List.getD_cons_zero, List.getD_cons_succ]
    simpa using this

/-- a clip mask from its four flags -/
def mk4 (x y z w : Bool) : Nat :=
  (if x then 1 else 0) + (if y then 2 else 0) + (if z then 4 else 0) + (if w then 8 else 0)

theorem mk4_or : ∀ a b c d a' b' c' d' : Bool,
    mk4 a b c d ||| mk4 a' b' c' d' = mk4 (a || a') (b || b') (c || c') (d || d') := by decide

theorem clipBit (c : Byte) :
    (if c == 120 then 1 else if c == 121 then 2 else if c == 122 then 4 else 8) =
      mk4 (c == 120) (c == 121) (c == 122) (c != 120 && c != 121 && c != 122) := by
  by_cases h1 : c = 120
  · subst h1; decide
  · by_cases h2 : c = 121
    · subst h2; decide
    · by_cases h3 : c = 122
      · subst h3; decide
      · simp [mk4, h1, h2, h3]

theorem clipLetters_mk (v : Str) (a b c d : Bool) :
    clipLetters v (mk4 a b c d) =
      mk4 (a || v.contains 120) (b || v.contains 121) (c || v.contains 122)
        (d || v.any (fun x => x != 120 && x != 121 && x != 122)) := by
  induction v generalizing a b c d with
  | nil => simp [clipLetters]
  | cons x r ih =>
    rw [clipLetters, clipBit, mk4_or, ih]
    simp only [List.contains_cons, List.any_cons, Bool.or_assoc]
    have e : ∀ k : Byte, (x == k) = (k == x) := fun k => by cases h : (x == k) <;> cases h2 : (k == x) <;> simp_all
    congr 1 <;> simp [e]

/-- the letter loop of the clip setter computes the set of named axes -/
theorem clipLetters_eq (v : Str) : clipLetters v 0 = clipMask v := by
  have := clipLetters_mk v false false false false
  simpa [mk4, clipMask] using this

/-! ### set then get -/

/-- handlers that store into one member that a table row shows as it is -/
def Act.plainField : Act → Option Nat
  | .conv _ f => some f | .string f => some f | .colour f _ => some f | .lattr f _ _ _ _ => some f
  | .axisPos f => some f | .linePos f => some f | .align f => some f | _ => none

/-- what a handler stores for blank text -/
def Act.blankVal (k : Kind) (a : Act) (o : Obj) : Val :=
  match a with
  | .conv _ f => k.dflt f | .colour f _ => o.get f | .lattr _ d _ _ _ => .int d | .axisPos f => k.dflt f
  | .linePos _ => .flt ⟨0, 0⟩ | .align f => k.dflt f | _ => .int 0

theorem setString_get (o : Obj) (f : Nat) (v : Option Str) (tok : Nat) (h : f < o.vals.length) :
    (setString o f v tok).get f = .str (match v with | some (c :: r) => some (c :: r) | _ => none) := by
  unfold setString
  split <;> simp [Obj.get, List.getD_eq_getElem?_getD, h]

/-- **set then get, one handler**: when a handler of the simple kinds accepts the text `v`, the member reads
    back as a value `v` denotes for the property's type — or `v` is blank and the member holds the handler's
    "no value" result -/
theorem Act.set_get (k : Kind) (tab : List NamedColor) (a : Act) (f : Nat) (hpf : a.plainField = some f)
    (o : Obj) (v : Str) (tok : Nat) (hf : f < o.vals.length)
    (hok : (a.run k tab o (.text (some v)) tok).ret.isOk = true) :
    (∃ x, x ∈ denote tab a.pty (o.get f) v ∧ (a.run k tab o (.text (some v)) tok).obj.get f = x) ∨
    (blank (some v) = true ∧ (a.run k tab o (.text (some v)) tok).obj.get f = a.blankVal k o) := by
  cases a <;> simp only [Act.plainField, Option.some.injEq, reduceCtorEq] at hpf
  case conv ty f' =>
    subst hpf
    unfold Act.run at hok ⊢
    simp only [Act.pty, denote, Act.blankVal] at hok ⊢
    rcases convText_cases ty v with ⟨hc, hb⟩ | ⟨x, u, u', hc, hs⟩ | ⟨e, hc, hse⟩ | hc
    · right; simp only [hc, Obj.get_put _ _ _ hf, hb, and_self]
    · left; simp only [hc, hs, Obj.get_put _ _ _ hf, List.mem_singleton, exists_eq_left]
    · simp [hc, Ret.isOk] at hok
    · simp [hc, Ret.isOk] at hok
  case string f' =>
    subst hpf
    left
    unfold Act.run
    simp only [Act.pty, denote, List.mem_singleton, exists_eq_left]
    rw [setString_get _ _ _ _ hf]
    cases v <;> simp
  case colour f' r =>
    subst hpf
    unfold Act.run at hok ⊢
    simp only [Act.pty, denote, Act.blankVal] at hok ⊢
    unfold colourText at hok ⊢
    cases v with
    | nil => right; simp [blank, skipSpaces]
    | cons c s =>
      simp only [] at hok ⊢
      cases hp : colorParse tab (c :: s) with
      | none => simp [hp, Ret.isOk] at hok
      | some p => obtain ⟨col, n⟩ := p; left; simp [Obj.get_put _ _ _ hf]
  case lattr f' d lo hi r =>
    subst hpf
    unfold Act.run at hok ⊢
    simp only [Act.pty, denote, Act.blankVal] at hok ⊢
    unfold lattrText at hok ⊢
    rcases convText_cases 'y' v with ⟨hc, hb⟩ | ⟨x, u, u', hc, hs⟩ | ⟨e, hc, hse⟩ | hc
    · right; simp only [hc, Obj.get_put _ _ _ hf, hb, and_self]
    · -- unsigned reading
      simp only [hc] at hok ⊢
      cases x with
      | int n =>
        simp only [] at hok ⊢
        by_cases hr : n < (lo : Int) ∨ n > (hi : Int)
        · simp [hr, Ret.isOk] at hok
        · left
          simp only [hr, ↓reduceIte, Obj.get_put _ _ _ hf]
          have hs' : convScalar 'i' (skipSpaces v) = .val (.int n) u' := by
            unfold convScalar at hs ⊢
            simp only [] at hs ⊢
            cases hu : convUint 0 255 (skipSpaces v) with
            | val y w =>
              rw [hu] at hs
              simp only [Conv.val.injEq, Val.int.injEq] at hs
              rw [convUint_convSint _ _ _ hu]
              simp [hs.1, hs.2]
            | none => rw [hu] at hs; cases hs
            | err e => rw [hu] at hs; cases hs
            | unsup => rw [hu] at hs; cases hs
          simp only [hs']
          have : (lo : Int) ≤ n ∧ n ≤ (hi : Int) := by omega
          simp [this]
      | _ => simp [Ret.isOk] at hok
    · -- signed reading after the unsigned one failed
      simp only [hc] at hok ⊢
      rcases convText_cases 'i' v with ⟨hc2, hb⟩ | ⟨x, u, u', hc2, hs⟩ | ⟨e2, hc2, _⟩ | hc2
      · right; simp only [hc2, Obj.get_put _ _ _ hf, hb, and_self]
      · simp only [hc2] at hok ⊢
        cases x with
        | int n =>
          simp only [] at hok ⊢
          by_cases h1 : n < 0 ∨ n > 255
          · simp [h1, Ret.isOk] at hok
          · simp only [h1, ↓reduceIte] at hok ⊢
            by_cases hr : n < (lo : Int) ∨ n > (hi : Int)
            · simp [hr, Ret.isOk] at hok
            · left
              simp only [hr, ↓reduceIte, Obj.get_put _ _ _ hf, hs]
              have : (lo : Int) ≤ n ∧ n ≤ (hi : Int) := by omega
              simp [this]
        | _ => simp [Ret.isOk] at hok
      · simp [hc2, Ret.isOk] at hok
      · simp [hc2, Ret.isOk] at hok
    · simp [hc, Ret.isOk] at hok
  case axisPos f' =>
    subst hpf
    unfold Act.run
    simp only [Act.pty, denote, Act.blankVal]
    cases hs : skipSpaces v with
    | nil => right; simp [blank, hs, Obj.get_put _ _ _ hf]
    | cons b r => left; simp [Obj.get_put _ _ _ hf]
  case align f' =>
    subst hpf
    unfold Act.run at hok ⊢
    simp only [Act.pty, denote, Act.blankVal] at hok ⊢
    rcases convText_cases 'y' v with ⟨hc, hb⟩ | ⟨x, u, u', hc, hs⟩ | ⟨e, hc, hse⟩ | hc
    · right; simp only [hc, Obj.get_put _ _ _ hf, hb, and_self]
    · left; simp only [hc, hs, Obj.get_put _ _ _ hf, List.mem_singleton, exists_eq_left]
    · cases e with
      | BadValue => simp [hc, Ret.isOk] at hok
      | _ =>
        left
        simp only [hc, hse, Obj.get_put _ _ _ hf, List.mem_singleton, exists_eq_left, Option.getD_some, alignLetters_eq]
    · simp [hc, Ret.isOk] at hok
  case linePos f' =>
    subst hpf
    unfold Act.run at hok ⊢
    simp only [Act.pty, denote, Act.blankVal] at hok ⊢
    rcases convText_cases 'f' v with ⟨hc, hb⟩ | ⟨x, u, u', hc, hs⟩ | ⟨e, hc, hse⟩ | hc
    · right; simp only [hc, Obj.get_put _ _ _ hf, hb, and_self]
    · left; simp only [hc, hs, Obj.get_put _ _ _ hf, List.mem_singleton, exists_eq_left]
    · simp only [hc] at hok
      cases e <;> simp only [] at hok <;> (try split at hok) <;> simp [Ret.isOk] at hok
    · simp [hc, Ret.isOk] at hok

/-! ### set then get: graph clip -/

theorem convScalar_y_int (s : Str) (x : Val) (u : Nat) (h : convScalar 'y' s = .val x u) :
    ∃ n : Nat, x = .int n := by
  unfold convScalar at h
  simp only [] at h
  cases hu : convUint 0 255 s with
  | val y w =>
    rw [hu] at h
    simp only [Conv.val.injEq] at h
    unfold convUint at hu
    split at hu
    · cases hu
    · simp only [] at hu
      cases hm : strtoMag 0 (takeSign (skipSpaces s)).2.1 with
      | none => rw [hm] at hu; simp only [] at hu; split at hu <;> cases hu
      | some p =>
        obtain ⟨m, c⟩ := p
        rw [hm] at hu
        simp only [] at hu
        (repeat' split at hu) <;> first | (cases hu; done) | skip
        simp only [Conv.val.injEq] at hu
        exact ⟨m, by rw [← h.1, ← hu.1]⟩
  | none => rw [hu] at h; cases h
  | err e => rw [hu] at h; cases h
  | unsup => rw [hu] at h; cases h

/-- **set then get, graph clip** (member level): an accepted text leaves the mask the text denotes — the number
    of a numeral, else the set of axis letters — or the text is blank and the default is stored -/
theorem Act.set_get_clip (k : Kind) (tab : List NamedColor) (f : Nat) (o : Obj) (v : Str) (tok : Nat)
    (hf : f < o.vals.length) (hok : ((Act.clip f).run k tab o (.text (some v)) tok).ret.isOk = true) :
    (∃ n : Nat, showClip n ∈ denote tab .clipAxes (o.get f) v ∧
        ((Act.clip f).run k tab o (.text (some v)) tok).obj.get f = .int n) ∨
    (blank (some v) = true ∧ ((Act.clip f).run k tab o (.text (some v)) tok).obj.get f = k.dflt f) := by
  unfold Act.run at hok ⊢
  simp only [denote] at hok ⊢
  rcases convText_cases 'y' v with ⟨hc, hb⟩ | ⟨x, u, u', hc, hs⟩ | ⟨e, hc, hse⟩ | hc
  · right; simp only [hc, Obj.get_put _ _ _ hf, hb, and_self]
  · left
    obtain ⟨n, rfl⟩ := convScalar_y_int _ _ _ hs
    refine ⟨n, ?_, ?_⟩
    · simp only [hs, Int.toNat_natCast, List.mem_singleton]
    · simp only [hc, Obj.get_put _ _ _ hf]
  · cases e with
    | BadValue => simp [hc, Ret.isOk] at hok
    | _ =>
      left
      refine ⟨clipMask v, ?_, ?_⟩
      · simp only [hse, List.mem_singleton]
      · simp only [hc, Obj.get_put _ _ _ hf, Option.getD_some, clipLetters_eq]
  · simp [hc, Ret.isOk] at hok

/-- the clip row of the getter: its own member, shown through the alias table -/
def Kind.clipRow (k : Kind) (i f : Nat) : Bool :=
  match k.gets[i]?, k.clipAlias with
  | some g, some (nm, names) =>
    g.field == f && g.ty != -2 && nm == g.name &&
      (match k.logAt with | some (idx, _, _) => idx != i | none => true) &&
      names == (List.range names.length).map clipText && names.length == 8
  | _, _ => false

theorem Kind.getAt_clip (k : Kind) (o : Obj) (i f n : Nat) (h : k.clipRow i f = true) (hv : o.get f = .int n) :
    ∃ g, k.gets[i]? = some g ∧ k.getAt o i = some (g.name, showClip n) := by
  unfold Kind.clipRow at h
  cases hg : k.gets[i]? with
  | none => simp [hg] at h
  | some g =>
    cases hc : k.clipAlias with
    | none => simp [hg, hc] at h
    | some t =>
      obtain ⟨nm, names⟩ := t
      simp only [hg, hc, Bool.and_eq_true, beq_iff_eq, bne_iff_ne, ne_eq] at h
      obtain ⟨⟨⟨⟨⟨hf, hty⟩, hnm⟩, hlog⟩, hnames⟩, hlen⟩ := h
      refine ⟨g, rfl, ?_⟩
      have fin : (if n < names.length then Val.str (some (names.getD n [])) else Val.int ↑n) = showClip n := by
        unfold showClip
        by_cases hn : n < 8
        · simp only [hlen, hn, ↓reduceIte]
          rw [hnames]
          simp [List.getD_eq_getElem?_getD, hlen, hn]
        · simp only [hlen, hn, ↓reduceIte]
      unfold Kind.getAt Kind.readEntry
      cases hl : k.logAt with
      | none =>
        simp only [hg, hty, ↓reduceIte, hf, hv, hc, hnm, Int.toNat_natCast]
        rw [fin]
      | some t =>
        obtain ⟨idx, flags, bit⟩ := t
        have hne : ¬ idx = i := by simpa [hl] using hlog
        simp only [hg, hty, ↓reduceIte, hf, hv, hc, hnm, hne, false_and, Int.toNat_natCast]
        rw [fin]

/-! ### reset of one property -/

/-- table-side condition: the handler's "no source" branch stores the documented default -/
def Act.nullOK (k : Kind) : Act → Bool
  | .conv _ _ => true
  | .string f => k.dflt f == .str none
  | .colour f r => r == some f
  | .lattr f d _ _ r => r == some f || (r == none && k.dflt f == .int d)
  | .axisPos _ => true
  | .linePos f => k.dflt f == .flt ⟨0, 0⟩
  | .fpoint _ _ _ _ => true
  | .intervals f g bit cn => (255 - bit) &&& bit == 0 && f != g && cn
  | .align _ => true
  | .clip _ => true

/-- members that hold their default after the "no source" branch (all written ones but a flags byte) -/
def Act.resetFields : Act → List Nat
  | .intervals f _ _ _ => [f]
  | a => a.touched

theorem hasBit_clearBit (x : Int) (bit : Nat) (h : (255 - bit) &&& bit = 0) : hasBit (clearBit x bit) bit = false := by
  unfold hasBit clearBit
  simp only [Int.toNat_natCast, bne_eq_false_iff_eq]
  rw [Nat.and_assoc, h, Nat.and_zero]

/-- **reset of one property** (`set name` without source): success, and every member of the property holds
    its `def_<kind>` value -/
theorem Act.null_resets (k : Kind) (tab : List NamedColor) (a : Act) (hn : a.nullOK k = true) (o : Obj) (tok : Nat)
    (hw : ∀ f ∈ a.touched, f < o.vals.length) :
    (a.run k tab o .null tok).ret = .ok 0 ∧ ∀ f ∈ a.resetFields, (a.run k tab o .null tok).obj.get f = k.dflt f := by
  cases a <;> simp only [Act.nullOK, Bool.or_eq_true, Bool.and_eq_true, beq_iff_eq] at hn <;>
    simp only [Act.touched, List.mem_cons, List.not_mem_nil, or_false, forall_eq_or_imp, forall_eq] at hw <;>
    unfold Act.run <;> simp only [Act.resetFields, Act.touched, List.mem_cons, List.not_mem_nil, or_false, forall_eq_or_imp, forall_eq]
  case conv ty f => exact ⟨trivial, Obj.get_put _ _ _ hw⟩
  case string f =>
    refine ⟨trivial, ?_⟩
    rw [setString_get _ _ _ _ hw, hn]
  case colour f r => subst hn; simp only [Option.toList, List.mem_cons, List.not_mem_nil, or_false, forall_eq_or_imp, forall_eq] at hw ⊢; exact ⟨trivial, Obj.get_put _ _ _ hw.1, Obj.get_put _ _ _ hw.1⟩
  case lattr f d lo hi r =>
    rcases hn with h | ⟨h1, h2⟩
    · subst h
      simp only [Option.toList, List.mem_cons, List.not_mem_nil, or_false, forall_eq_or_imp, forall_eq] at hw ⊢
      exact ⟨trivial, Obj.get_put _ _ _ hw.1, Obj.get_put _ _ _ hw.1⟩
    · subst h1
      simp only [Option.toList, List.mem_cons, List.not_mem_nil, or_false, forall_eq_or_imp, forall_eq, List.mem_nil_iff] at hw ⊢
      refine ⟨trivial, ?_⟩
      rw [Obj.get_put _ _ _ hw.1, h2]
      exact ⟨rfl, fun a ha => ha.elim⟩
  case axisPos f => exact ⟨trivial, Obj.get_put _ _ _ hw⟩
  case linePos f => refine ⟨trivial, ?_⟩; rw [Obj.get_put _ _ _ hw, hn]
  case fpoint f lo hi rl =>
    refine ⟨trivial, ?_, ?_⟩
    · rw [Obj.get_put_ne _ _ _ _ (by omega), Obj.get_put _ _ _ hw.1]
    · rw [Obj.get_put _ _ _ (by rw [Obj.put_length]; exact hw.2)]
  case intervals f g bit cn =>
    refine ⟨trivial, ?_⟩
    simp only [Bool.and_eq_true, beq_iff_eq, bne_iff_ne, ne_eq] at hn
    rw [Obj.get_put_ne _ _ _ _ hn.1.2, Obj.get_put _ _ _ hw.1]
  case align f => exact ⟨trivial, Obj.get_put _ _ _ hw⟩
  case clip f => exact ⟨trivial, Obj.get_put _ _ _ hw⟩

/-! ### set then get: points, coordinates, axis intervals -/

/-- row `i` shows the point whose coordinates are members `f`, `f + 1` -/
def Kind.pointRow (k : Kind) (i f : Nat) : Bool :=
  match k.gets[i]? with
  | some g => g.field == f && g.ty == -2 &&
      (match k.logAt with | some (idx, _, _) => idx != i | none => true) &&
      (match k.clipAlias with | some (nm, _) => nm != g.name | none => true)
  | none => false

theorem Kind.getAt_point (k : Kind) (o : Obj) (i f : Nat) (h : k.pointRow i f = true) :
    ∃ g, k.gets[i]? = some g ∧ k.getAt o i = some (g.name, .pt (o.get f).toFl (o.get (f + 1)).toFl) := by
  unfold Kind.pointRow at h
  cases hg : k.gets[i]? with
  | none => simp [hg] at h
  | some g =>
    simp only [hg, Bool.and_eq_true, beq_iff_eq, bne_iff_ne, ne_eq] at h
    obtain ⟨⟨⟨hf, hty⟩, hlog⟩, hclip⟩ := h
    refine ⟨g, rfl, ?_⟩
    unfold Kind.getAt Kind.readEntry
    simp only [hg, hty, ↓reduceIte, hf]
    cases hl : k.logAt with
    | none =>
      cases hc : k.clipAlias with
      | none => rfl
      | some t => obtain ⟨nm, names⟩ := t; simp [hc] at hclip; simp [hclip]
    | some t =>
      obtain ⟨idx, flags, bit⟩ := t
      simp [hl] at hlog
      cases hc : k.clipAlias with
      | none => simp [hlog]
      | some t => obtain ⟨nm, names⟩ := t; simp [hc] at hclip; simp [hclip, hlog]

/-- **set then get, point handler** (member level) -/
theorem Act.set_get_point (k : Kind) (tab : List NamedColor) (f : Nat) (lo hi : Fl) (rl : Bool) (o : Obj) (v : Str)
    (tok : Nat) (hf : f + 1 < o.vals.length)
    (hok : ((Act.fpoint f lo hi rl).run k tab o (.text (some v)) tok).ret.isOk = true) :
    (∃ x y, Val.pt x y ∈ denote tab (.point lo hi) (o.get f) v ∧
        ((Act.fpoint f lo hi rl).run k tab o (.text (some v)) tok).obj.get f = .flt x ∧
        ((Act.fpoint f lo hi rl).run k tab o (.text (some v)) tok).obj.get (f + 1) = .flt y) ∨
    (blank (some v) = true ∧
        ((Act.fpoint f lo hi rl).run k tab o (.text (some v)) tok).obj.get f = k.dflt f ∧
        ((Act.fpoint f lo hi rl).run k tab o (.text (some v)) tok).obj.get (f + 1) = k.dflt (f + 1)) := by
  unfold Act.run at hok ⊢
  simp only [denote] at hok ⊢
  have hf0 : f < o.vals.length := by omega
  cases hp : fpointText lo hi (some v) with
  | none =>
    right
    have hv : v = [] := by
      unfold fpointText at hp
      cases v with
      | nil => rfl
      | cons c r => simp only [] at hp; (repeat' split at hp) <;> cases hp
    subst hv
    simp only [hp]
    refine ⟨by simp [blank, skipSpaces], ?_, ?_⟩
    · rw [Obj.get_put_ne _ _ _ _ (by omega), Obj.get_put _ _ _ hf0]
    · rw [Obj.get_put _ _ _ (by rw [Obj.put_length]; exact hf)]
  | val p n =>
    obtain ⟨x, y⟩ := p
    left
    refine ⟨x, y, by simp, ?_, ?_⟩
    · simp only [hp]; rw [Obj.get_put_ne _ _ _ _ (by omega), Obj.get_put _ _ _ hf0]
    · simp only [hp]; rw [Obj.get_put _ _ _ (by rw [Obj.put_length]; exact hf)]
  | err e => simp [hp, Ret.isOk] at hok
  | unsup => simp [hp, Ret.isOk] at hok

theorem hasBit_setBit (x : Int) (bit : Nat) (hb : bit ≠ 0) (h8 : bit &&& bit = bit) : hasBit (setBit x bit) bit = true := by
  unfold hasBit setBit
  simp only [Int.toNat_natCast, bne_iff_ne, ne_eq]
  rw [Nat.and_or_distrib_right, h8]
  intro h
  have : bit ≤ (x.toNat &&& bit) ||| bit := Nat.right_le_or
  omega

/-- row `i` is the `intervals` row: member `f`, shown as `log` while flag `bit` of member `g` is set -/
def Kind.logRow (k : Kind) (i f g bit : Nat) : Bool :=
  match k.gets[i]? with
  | some e => e.field == f && e.ty != -2 && k.logAt == some (i, g, bit) &&
      (match k.clipAlias with | some (nm, _) => nm != e.name | none => true)
  | none => false

theorem Kind.getAt_log (k : Kind) (o : Obj) (i f g bit : Nat) (h : k.logRow i f g bit = true) :
    ∃ e, k.gets[i]? = some e ∧
      k.getAt o i = some (e.name, if hasBit (o.get g).toInt bit then .str (some logWord) else o.get f) := by
  unfold Kind.logRow at h
  cases hg : k.gets[i]? with
  | none => simp [hg] at h
  | some e =>
    simp only [hg, Bool.and_eq_true, beq_iff_eq, bne_iff_ne, ne_eq] at h
    obtain ⟨⟨⟨hf, hty⟩, hlog⟩, hclip⟩ := h
    refine ⟨e, rfl, ?_⟩
    unfold Kind.getAt Kind.readEntry
    simp only [hg, hty, ↓reduceIte, hf, hlog, true_and]
    cases hc : k.clipAlias with
    | none => rfl
    | some t => obtain ⟨nm, names⟩ := t; simp [hc] at hclip; simp [hclip]

/-- **set then get, axis intervals** (shown value): an accepted text leaves the count it denotes (log mode off) or,
    for the keyword, log mode; blank text leaves the default count with log mode off -/
theorem Act.set_get_intervals (k : Kind) (tab : List NamedColor) (f g bit : Nat) (o : Obj) (v : Str) (tok : Nat)
    (hf : f < o.vals.length) (hg : g < o.vals.length) (hfg : f ≠ g) (hb0 : bit ≠ 0) (hbb : bit &&& bit = bit)
    (hcl : (255 - bit) &&& bit = 0)
    (hok : ((Act.intervals f g bit true).run k tab o (.text (some v)) tok).ret.isOk = true) :
    let o' := ((Act.intervals f g bit true).run k tab o (.text (some v)) tok).obj
    let shown : Val := if hasBit (o'.get g).toInt bit then .str (some logWord) else o'.get f
    shown ∈ denote tab .countOrLog (o.get f) v ∨ (blank (some v) = true ∧ shown = k.dflt f) := by
  unfold Act.run at hok ⊢
  simp only [denote] at hok ⊢
  rcases convText_cases 'y' v with ⟨hc, hb⟩ | ⟨x, u, u', hc, hs⟩ | ⟨e, hc, hse⟩ | hc
  · right
    simp only [hc, ↓reduceIte]
    have h1 : ((o.put f (k.dflt f)).put g (.int (clearBit (o.get g).toInt bit))).get g = .int (clearBit (o.get g).toInt bit) :=
      Obj.get_put _ _ _ (by rw [Obj.put_length]; exact hg)
    have h2 : ((o.put f (k.dflt f)).put g (.int (clearBit (o.get g).toInt bit))).get f = k.dflt f := by
      rw [Obj.get_put_ne _ _ _ _ hfg, Obj.get_put _ _ _ hf]
    rw [h1, h2]
    simp only [Val.toInt, hasBit_clearBit _ _ hcl, Bool.false_eq_true, ↓reduceIte, hb, and_self]
  · left
    simp only [hc, hs]
    have h1 : ((o.put f x).put g (.int (clearBit (o.get g).toInt bit))).get g = .int (clearBit (o.get g).toInt bit) :=
      Obj.get_put _ _ _ (by rw [Obj.put_length]; exact hg)
    have h2 : ((o.put f x).put g (.int (clearBit (o.get g).toInt bit))).get f = x := by
      rw [Obj.get_put_ne _ _ _ _ hfg, Obj.get_put _ _ _ hf]
    rw [h1, h2]
    simp only [Val.toInt, hasBit_clearBit _ _ hcl, Bool.false_eq_true, ↓reduceIte, List.mem_singleton]
  · simp only [hc, hse, Option.getD_some] at hok ⊢
    by_cases hl : eqNoCaseN v logWord 3 = true
    · left
      simp only [hl, ↓reduceIte]
      have h1 : ((o.put f (.int 0)).put g (.int (setBit (o.get g).toInt bit))).get g = .int (setBit (o.get g).toInt bit) :=
        Obj.get_put _ _ _ (by rw [Obj.put_length]; exact hg)
      rw [h1]
      simp only [Val.toInt, hasBit_setBit _ _ hb0 hbb, ↓reduceIte, List.mem_singleton]
    · simp [hl, Ret.isOk] at hok
  · simp [hc, Ret.isOk] at hok

/-- **set then get, one coordinate of a point** (text `x`, `y`): member `f` takes the number, the other
    coordinate keeps its value -/
theorem Act.set_get_coord (k : Kind) (tab : List NamedColor) (f : Nat) (o : Obj) (v : Str) (tok : Nat)
    (hf : f < o.vals.length) (hok : ((Act.conv 'f' f).run k tab o (.text (some v)) tok).ret.isOk = true) :
    (∃ x u, convScalar 'f' (skipSpaces v) = .val (.flt x) u ∧
        ((Act.conv 'f' f).run k tab o (.text (some v)) tok).obj.get f = .flt x) ∨
    (blank (some v) = true ∧ ((Act.conv 'f' f).run k tab o (.text (some v)) tok).obj.get f = k.dflt f) := by
  unfold Act.run at hok ⊢
  rcases convText_cases 'f' v with ⟨hc, hb⟩ | ⟨x, u, u', hc, hs⟩ | ⟨e, hc, _⟩ | hc
  · right; simp only [hc, Obj.get_put _ _ _ hf, hb, and_self]
  · left
    have hx : ∃ fl, x = .flt fl := by
      unfold convScalar at hs
      simp only [] at hs
      cases hfl : convFloat 24 128 (skipSpaces v) with
      | val y w => rw [hfl] at hs; simp only [Conv.val.injEq] at hs; exact ⟨y, hs.1.symm⟩
      | none => rw [hfl] at hs; cases hs
      | err e => rw [hfl] at hs; cases hs
      | unsup => rw [hfl] at hs; cases hs
    obtain ⟨fl, rfl⟩ := hx
    exact ⟨fl, u', hs, by simp only [hc, Obj.get_put _ _ _ hf]⟩
  · simp [hc, Ret.isOk] at hok
  · simp [hc, Ret.isOk] at hok

/-! ### colours -/

set_option maxRecDepth 100000 in
theorem htmlPart_hex2 : ∀ n : Fin 256, htmlPart (hexByte (n.val / 16 % 16)) (hexByte (n.val % 16)) = some (some n.val) := by
  decide +kernel

theorem htmlPart_hex (n : Nat) (h : n < 256) : htmlPart (hexByte (n / 16 % 16)) (hexByte (n % 16)) = some (some n) :=
  htmlPart_hex2 ⟨n, h⟩

/-- printing a colour and parsing the text gives the colour back -/
theorem colorParse_print (tab : List NamedColor) (c : Color)
    (hr : c.r < 256) (hg : c.g < 256) (hb : c.b < 256) (ha : c.a < 256) :
    colorParse tab (colorPrint c) = some (c, if c.a = 255 then 8 else 9) := by
  obtain ⟨r, g, b, a⟩ := c
  simp only at hr hg hb ha
  unfold colorPrint colorParse
  by_cases h255 : a = 255
  · subst h255
    simp only [↓reduceIte, hex2, List.cons_append, List.nil_append, List.append_nil]
    unfold colorHtml
    simp only [htmlLoop, htmlPart_hex _ hr, htmlPart_hex _ hg, htmlPart_hex _ hb]
    simp
  · simp only [h255, ↓reduceIte, hex2, List.cons_append, List.nil_append]
    unfold colorHtml
    simp only [htmlLoop, htmlPart_hex _ hr, htmlPart_hex _ hg, htmlPart_hex _ hb, htmlPart_hex _ ha]
    simp

/-! ### copy -/

/-- only string members hold strings -/
def Kind.Typed (k : Kind) (o : Obj) : Prop :=
  ∀ (i : Nat) (s : Str), o.vals[i]? = some (Val.str (some s)) → ∃ fd : Field, k.fields[i]? = some fd ∧ fd.ty = CTy.str

/-- table-side condition: `mpt_<kind>_init` duplicates every string member -/
def Kind.strsDuplicated (k : Kind) : Bool :=
  (List.range k.fields.length).all fun i => (k.fields[i]?.map (·.ty) != some CTy.str) || k.dups.contains i

theorem Kind.dump_congr (k : Kind) (o o' : Obj) (h : o'.vals = o.vals) : k.dump o' = k.dump o := by
  unfold Kind.dump
  congr 1
  funext i
  exact k.getAt_congr o o' i (fun f _ => by rw [h])

theorem copyToks_fresh (dups : List Nat) (src : Obj) (base : Nat) (hb : ∀ t ∈ src.toks, t < base)
    (hd : ∀ (i : Nat) (s : Str), src.vals[i]? = some (Val.str (some s)) → i ∈ dups) :
    ∀ t ∈ copyToks dups src base, t ≠ 0 → t ∉ src.toks := by
  intro t ht hne hmem
  unfold copyToks at ht
  simp only [List.mem_map, List.mem_range] at ht
  obtain ⟨i, hi, hv⟩ := ht
  cases hg : src.vals[i]? with
  | none => simp [List.getD_eq_getElem?_getD, hg] at hv; omega
  | some v =>
    simp only [List.getD_eq_getElem?_getD, hg, Option.getD_some] at hv
    cases v with
    | str s =>
      cases s with
      | none => simp at hv; omega
      | some s =>
        have := hd i s hg
        simp only [List.contains_iff_mem, this, ↓reduceIte] at hv
        have := hb t hmem
        omega
    | _ => simp at hv <;> omega


/-! ### reading by name -/

/-- a row of the getter always reads as a value under the row's own name -/
theorem Kind.getAt_name (k : Kind) (o : Obj) (i : Nat) (g : GetEntry) (hg : k.gets[i]? = some g) :
    ∃ x, k.getAt o i = some (g.name, x) := by
  unfold Kind.getAt
  simp only [hg]
  exact ⟨_, rfl⟩

/-- the current value matters for the meaning of a text only for the coordinates of a point -/
theorem denote_old (tab : List NamedColor) (t : PTy) (old old' : Val) (v : Str)
    (hx : t ≠ .pointX) (hy : t ≠ .pointY) : denote tab t old v = denote tab t old' v := by
  cases t <;> first | rfl | exact absurd rfl hx | exact absurd rfl hy

/-- `getProp` through a name that `lookup` resolves to a row -/
theorem Kind.getProp_row (k : Kind) (o : Obj) (n : Str) (i : Nat) (h : k.lookup n = .row i) :
    k.getProp o n = k.getAt o i := by
  unfold Kind.getProp; rw [h]


theorem filterMap_congr' {α β : Type} (l : List α) (f g : α → Option β) (h : ∀ x ∈ l, f x = g x) :
    l.filterMap f = l.filterMap g := by
  induction l with
  | nil => rfl
  | cons a r ih =>
    simp only [List.filterMap_cons]
    rw [h a (List.mem_cons_self ..), ih (fun x hx => h x (List.mem_cons_of_mem _ hx))]

/-- the record after one row changed its value and every other row kept it -/
theorem Kind.dump_set (k : Kind) (o o' : Obj) (i : Nat) (g : GetEntry) (x : Val)
    (hg : k.gets[i]? = some g) (hnd : (k.gets.map (·.name)).Nodup)
    (hi : k.getAt o' i = some (g.name, x))
    (hj : ∀ j, j < k.gets.length → j ≠ i → k.getAt o' j = k.getAt o j) :
    k.dump o' = Record.set (k.dump o) g.name x := by
  unfold Kind.dump Record.set
  rw [List.map_filterMap]
  apply filterMap_congr'
  intro j hjm
  have hjl : j < k.gets.length := List.mem_range.mp hjm
  have hil : i < k.gets.length := by
    rcases Nat.lt_or_ge i k.gets.length with h | h
    · exact h
    · rw [List.getElem?_eq_none h] at hg; cases hg
  by_cases e : j = i
  · subst e
    obtain ⟨y, hy⟩ := Kind.getAt_name k o j g hg
    rw [hi, hy]
    simp
  · have hgj : k.gets[j]? = some k.gets[j] := List.getElem?_eq_getElem hjl
    obtain ⟨y, hy⟩ := Kind.getAt_name k o j _ hgj
    rw [hj j hjl e, hy]
    have hne : k.gets[j].name ≠ g.name := by
      have hgi : k.gets[i] = g := by
        have := List.getElem?_eq_getElem hil; rw [this] at hg; exact Option.some.inj hg
      rw [← hgi]
      have hp := List.pairwise_iff_getElem.mp hnd
      rcases Nat.lt_or_gt_of_ne e with hlt | hgt
      · have := hp j i (by simpa using hjl) (by simpa using hil) hlt
        simpa using this
      · have := hp i j (by simpa using hil) (by simpa using hjl) hgt
        intro h; apply this; simp only [List.getElem_map]; exact h.symm
    simp [hne]

end Mpt.Layout
