/-
  Helper lemmas for the COBS specs (core Lean only): block decoding steps, the encoder invariant,
  round trip of every frame body `encB` can produce, zero-freeness, the Python encoder.
-/
import MptModel.Spec.Cobs
namespace Mpt.Cobs

theorem Variant.maxlen_cases (v : Variant) : v.maxlen = 255 ∨ v.maxlen = 223 := by
  cases v <;> simp [Variant.maxlen]

theorem Variant.zpe_maxlen (v : Variant) (h : v.isZpe = true) : v.maxlen = 223 := by
  cases v <;> simp_all [Variant.maxlen, Variant.isZpe]

theorem Variant.nozpe_maxlen (v : Variant) (h : v.isZpe = false) : v.maxlen = 255 := by
  cases v <;> simp_all [Variant.maxlen, Variant.isZpe]

theorem toNat_ofNat_lt (n : Nat) (h : n < 256) : (UInt8.ofNat n).toNat = n := by
  rw [UInt8.toNat_ofNat']; omega

/-- invariant of the encoder recursion -/
structure Inv (v : Variant) (run : List Byte) (pend : Bool) : Prop where
  len : run.length + 1 < v.maxlen
  nz : ∀ x ∈ run, x ≠ 0
  pend : pend = true → pairOk v run = true

theorem Inv.nil (v : Variant) : Inv v [] false :=
  ⟨by have := v.maxlen_cases; simp; omega, by simp, by simp⟩

theorem decBody_block (v : Variant) (f : Nat) (c : Byte) (data rest : List Byte)
    (h : dataLen v c = data.length) :
    decBody v (f + 1) (c :: (data ++ rest)) =
      (decBody v f rest).map fun tl => data ++ zerosAfter v c (!rest.isEmpty) ++ tl := by
  simp only [decBody, h]
  rw [if_neg (by simp)]
  simp

theorem pairOk_iff (v : Variant) (run : List Byte) :
    pairOk v run = true ↔ v.isZpe = true ∧ 1 ≤ run.length ∧ run.length ≤ 30 := by
  simp [pairOk, and_assoc]

theorem codeOf_toNat (v : Variant) (run : List Byte) (h : run.length + 1 < v.maxlen) :
    (codeOf run).toNat = run.length + 1 := by
  have := v.maxlen_cases
  unfold codeOf; rw [toNat_ofNat_lt]; omega

theorem dataLen_codeOf (v : Variant) (run : List Byte) (h : run.length + 1 < v.maxlen) :
    dataLen v (codeOf run) = run.length := by
  unfold dataLen; rw [codeOf_toNat v run h]; rw [if_pos (by omega)]; omega

theorem zerosAfter_codeOf (v : Variant) (run : List Byte) (more : Bool) (h : run.length + 1 < v.maxlen) :
    zerosAfter v (codeOf run) more = if more then [0] else [] := by
  unfold zerosAfter; rw [codeOf_toNat v run h]
  rw [if_neg (by omega)]
  cases more <;> simp [h]

theorem pairCode_toNat (run : List Byte) (h : run.length ≤ 30) : (pairCode run).toNat = run.length + 0xE0 := by
  unfold pairCode; rw [toNat_ofNat_lt]; omega

theorem dataLen_pairCode (v : Variant) (run : List Byte) (h : pairOk v run = true) :
    dataLen v (pairCode run) = run.length := by
  rw [pairOk_iff] at h
  unfold dataLen; rw [pairCode_toNat run h.2.2, v.zpe_maxlen h.1]; rw [if_neg (by omega)]; omega

theorem zerosAfter_pairCode (v : Variant) (run : List Byte) (more : Bool) (h : pairOk v run = true) :
    zerosAfter v (pairCode run) more = [0, 0] := by
  rw [pairOk_iff] at h
  unfold zerosAfter; rw [pairCode_toNat run h.2.2, v.zpe_maxlen h.1]; rw [if_pos (by omega)]

theorem maxCode_toNat (v : Variant) : (UInt8.ofNat v.maxlen).toNat = v.maxlen := by
  have := v.maxlen_cases
  rw [toNat_ofNat_lt]; omega

theorem dataLen_maxCode (v : Variant) : dataLen v (UInt8.ofNat v.maxlen) = v.maxlen - 1 := by
  unfold dataLen; rw [maxCode_toNat]; simp

theorem zerosAfter_maxCode (v : Variant) (more : Bool) : zerosAfter v (UInt8.ofNat v.maxlen) more = [] := by
  unfold zerosAfter; rw [maxCode_toNat]; simp

theorem encB_ne_nil (v : Variant) (ms : List (Byte × Bool)) : ∀ run pend, encB v run pend ms ≠ [] := by
  induction ms with
  | nil =>
    intro run pend
    unfold encB finalBlock
    cases pend
    · simp only [Bool.false_eq_true, if_false]
      split
      · split <;> simp
      · simp
    · simp
  | cons x rest ih =>
    intro run pend
    obtain ⟨b, cut⟩ := x
    unfold encB
    split
    · split <;> simp
    · split
      · split
        · exact ih _ _
        · simp
      · split
        · simp
        · exact ih _ _


theorem finalBlock_length (v : Variant) (run : List Byte) : 1 ≤ (finalBlock v run).length := by
  unfold finalBlock
  split
  · split <;> simp
  · simp

theorem decBody_final (v : Variant) (run : List Byte) (f : Nat) (h : run.length + 1 < v.maxlen) :
    decBody v (f + 2) (finalBlock v run) = some run := by
  unfold finalBlock
  split
  · rename_i e he
    have hne : run ≠ [] := by intro h; simp [h] at he
    have hdl : run.dropLast ++ [e] = run := by
      obtain ⟨ys, rfl⟩ := List.getLast?_eq_some_iff.mp he
      simp
    split
    · rename_i hc
      have hd : dataLen v e = e.toNat - 1 := by unfold dataLen; rw [if_pos hc.2.2]
      simp only [decBody, hd]
      have hl : run.dropLast.length < e.toNat - 1 := by
        have := List.length_pos_iff.mpr hne
        simp; omega
      rw [if_pos hl, if_pos hc.1, hdl]
    · have := decBody_block v (f + 1) (codeOf run) run [] (dataLen_codeOf v run h)
      simp only [List.append_nil] at this
      rw [this, zerosAfter_codeOf v run _ h]
      simp [decBody]
  · rename_i he; simp at he; subst he
    simp [decBody, dataLen, zerosAfter]
    have := v.maxlen_cases; omega

theorem decBody_encB (v : Variant) (ms : List (Byte × Bool)) :
    ∀ run pend f, Inv v run pend → (encB v run pend ms).length < f →
      decBody v f (encB v run pend ms) = some (run ++ (if pend then [0] else []) ++ ms.map Prod.fst) := by
  induction ms with
  | nil =>
    intro run pend f inv hf
    cases pend
    · simp only [encB, Bool.false_eq_true, if_false] at hf ⊢
      have := finalBlock_length v run
      obtain ⟨g, rfl⟩ : ∃ g, f = g + 2 := ⟨f - 2, by omega⟩
      rw [decBody_final v run g inv.len]; simp
    · simp only [encB, if_true] at hf ⊢
      obtain ⟨g, rfl⟩ : ∃ g, f = g + 3 := ⟨f - 3, by simp at hf; omega⟩
      rw [decBody_block v _ _ run [1] (dataLen_codeOf v run inv.len), zerosAfter_codeOf v run _ inv.len]
      have h1 : decBody v (g + 2) [1] = some [] := by
        have := v.maxlen_cases
        simp [decBody, dataLen, zerosAfter]; omega
      simp [h1]
  | cons x rest ih =>
    intro run pend f inv hf
    obtain ⟨b, cut⟩ := x
    have hm := v.maxlen_cases
    unfold encB at hf ⊢
    by_cases hp : pend = true
    · subst hp
      have hpo := inv.pend rfl
      simp only [if_true] at hf ⊢
      by_cases hb : b = 0
      · subst hb
        simp only [if_true] at hf ⊢
        obtain ⟨g, rfl⟩ : ∃ g, f = g + 1 := ⟨f - 1, by simp at hf; omega⟩
        rw [decBody_block v _ _ run _ (dataLen_pairCode v run hpo), zerosAfter_pairCode v run _ hpo]
        rw [ih [] false g (Inv.nil v) (by simp at hf; omega)]
        simp
      · simp only [hb, if_false] at hf ⊢
        obtain ⟨g, rfl⟩ : ∃ g, f = g + 1 := ⟨f - 1, by simp at hf; omega⟩
        rw [decBody_block v _ _ run _ (dataLen_codeOf v run inv.len), zerosAfter_codeOf v run _ inv.len]
        have hi : Inv v [b] false := ⟨by simp; omega, by simpa using hb, by simp⟩
        rw [ih [b] false g hi (by simp at hf; omega)]
        have hne := encB_ne_nil v rest [b] false
        simp [hne]
    · have hp : pend = false := by simpa using hp
      subst hp
      simp only [Bool.false_eq_true, if_false] at hf ⊢
      by_cases hb : b = 0
      · subst hb
        simp only [if_true] at hf ⊢
        by_cases hc : pairOk v run = true ∧ cut = false
        · simp only [hc, and_self, if_true] at hf ⊢
          rw [ih run true f ⟨inv.len, inv.nz, fun _ => hc.1⟩ hf]
          simp
        · simp only [hc, if_false] at hf ⊢
          obtain ⟨g, rfl⟩ : ∃ g, f = g + 1 := ⟨f - 1, by simp at hf; omega⟩
          rw [decBody_block v _ _ run _ (dataLen_codeOf v run inv.len), zerosAfter_codeOf v run _ inv.len]
          rw [ih [] false g (Inv.nil v) (by simp at hf; omega)]
          have hne := encB_ne_nil v rest [] false
          simp [hne]
      · simp only [hb, if_false] at hf ⊢
        by_cases hfull : run.length + 2 = v.maxlen
        · simp only [hfull, if_true] at hf ⊢
          obtain ⟨g, rfl⟩ : ∃ g, f = g + 1 := ⟨f - 1, by simp at hf; omega⟩
          rw [decBody_block v _ _ (run ++ [b]) _ (by rw [dataLen_maxCode]; simp; omega), zerosAfter_maxCode]
          rw [ih [] false g (Inv.nil v) (by simp at hf; omega)]
          simp
        · simp only [hfull, if_false] at hf ⊢
          have hi : Inv v (run ++ [b]) false :=
            ⟨by have := inv.len; simp; omega, by
              intro x hx; simp at hx; rcases hx with hx | hx
              · exact inv.nz x hx
              · subst hx; exact hb, by simp⟩
          rw [ih (run ++ [b]) false f hi hf]
          simp


theorem ne_zero_of_toNat (x : Byte) (h : x.toNat ≠ 0) : x ≠ 0 := by
  intro hx; subst hx; simp at h

theorem codeOf_ne_zero (v : Variant) (run : List Byte) (h : run.length + 1 < v.maxlen) : codeOf run ≠ 0 :=
  ne_zero_of_toNat _ (by rw [codeOf_toNat v run h]; omega)

theorem finalBlock_nz (v : Variant) (run : List Byte) (h : run.length + 1 < v.maxlen) (hnz : ∀ x ∈ run, x ≠ 0) :
    ∀ x ∈ finalBlock v run, x ≠ 0 := by
  unfold finalBlock
  split
  · rename_i e he
    split
    · rename_i hc
      intro x hx
      simp at hx
      rcases hx with hx | hx
      · subst hx; exact ne_zero_of_toNat _ (by omega)
      · exact hnz x (List.dropLast_subset run hx)
    · intro x hx
      simp at hx
      rcases hx with hx | hx
      · subst hx; exact codeOf_ne_zero v run h
      · exact hnz x hx
  · simp

theorem encB_nz (v : Variant) (ms : List (Byte × Bool)) :
    ∀ run pend, Inv v run pend → ∀ x ∈ encB v run pend ms, x ≠ 0 := by
  induction ms with
  | nil =>
    intro run pend inv x hx
    cases pend
    · simp only [encB, Bool.false_eq_true, if_false] at hx
      exact finalBlock_nz v run inv.len inv.nz x hx
    · simp only [encB, if_true] at hx
      simp at hx
      rcases hx with hx | hx | hx
      · subst hx; exact codeOf_ne_zero v run inv.len
      · exact inv.nz x hx
      · subst hx; simp
  | cons y rest ih =>
    intro run pend inv x hx
    obtain ⟨b, cut⟩ := y
    have hm := v.maxlen_cases
    unfold encB at hx
    by_cases hp : pend = true
    · subst hp
      have hpo := inv.pend rfl
      simp only [if_true] at hx
      by_cases hb : b = 0
      · subst hb
        simp only [if_true] at hx
        simp at hx
        rcases hx with hx | hx | hx
        · subst hx
          have h2 := (pairOk_iff v run).mp hpo
          exact ne_zero_of_toNat _ (by rw [pairCode_toNat run h2.2.2]; omega)
        · exact inv.nz x hx
        · exact ih [] false (Inv.nil v) x hx
      · simp only [hb, if_false] at hx
        simp at hx
        have hi : Inv v [b] false := ⟨by simp; omega, by simpa using hb, by simp⟩
        rcases hx with hx | hx | hx
        · subst hx; exact codeOf_ne_zero v run inv.len
        · exact inv.nz x hx
        · exact ih [b] false hi x hx
    · have hp : pend = false := by simpa using hp
      subst hp
      simp only [Bool.false_eq_true, if_false] at hx
      by_cases hb : b = 0
      · subst hb
        simp only [if_true] at hx
        by_cases hc : pairOk v run = true ∧ cut = false
        · simp only [hc, and_self, if_true] at hx
          exact ih run true ⟨inv.len, inv.nz, fun _ => hc.1⟩ x hx
        · simp only [hc, if_false] at hx
          simp at hx
          rcases hx with hx | hx | hx
          · subst hx; exact codeOf_ne_zero v run inv.len
          · exact inv.nz x hx
          · exact ih [] false (Inv.nil v) x hx
      · simp only [hb, if_false] at hx
        by_cases hfull : run.length + 2 = v.maxlen
        · simp only [hfull, if_true] at hx
          simp at hx
          rcases hx with hx | hx | hx | hx
          · subst hx; exact ne_zero_of_toNat _ (by rw [maxCode_toNat]; omega)
          · exact inv.nz x hx
          · subst hx; exact hb
          · exact ih [] false (Inv.nil v) x hx
        · simp only [hfull, if_false] at hx
          have hi : Inv v (run ++ [b]) false :=
            ⟨by have := inv.len; simp; omega, by
              intro x hx; simp at hx; rcases hx with hx | hx
              · exact inv.nz x hx
              · subst hx; exact hb, by simp⟩
          exact ih (run ++ [b]) false hi x hx

theorem mark_fst (chunks : List (List Byte)) : (mark chunks).map Prod.fst = chunks.flatten := by
  induction chunks with
  | nil => simp [mark]
  | cons c cs ih =>
    have : mark (c :: cs) = ((c.dropLast.map fun b => (b, false)) ++ (c.getLast?.toList.map fun b => (b, true))) ++ mark cs := by
      simp [mark]
    rw [this, List.map_append, ih]
    simp only [List.flatten_cons]
    congr 1
    rcases List.eq_nil_or_concat c with h | ⟨ys, e, h⟩
    · subst h; simp
    · subst h; simp [Function.comp_def]

/-- any frame body the encoder can produce decodes to the message -/
theorem dec_body_frame (v : Variant) (ms : List (Byte × Bool)) :
    dec v (encB v [] false ms ++ [0]) = some (ms.map Prod.fst) := by
  have hne := encB_ne_nil v ms [] false
  have hnz := encB_nz v ms [] false (Inv.nil v)
  unfold dec
  rw [if_pos]
  · simp only [List.dropLast_concat]
    rw [decBody_encB v ms [] false _ (Inv.nil v) (by omega)]
    simp
  · refine ⟨by simp, by simpa using hne, ?_⟩
    simp only [List.dropLast_concat]
    intro h0; exact hnz 0 h0 rfl

/-! ### the Python encoder is the plain COBS reference encoder -/

theorem set_mid (fin : List Byte) (ph x : Byte) (tl : List Byte) (i : Nat) (h : i = fin.length) :
    (fin ++ ph :: tl).set i x = fin ++ x :: tl := by
  subst h; simp

theorem finalBlock_notail (v : Variant) (run : List Byte) (h : v.tail = false) :
    finalBlock v run = codeOf run :: run := by
  unfold finalBlock
  split
  · simp [h]
  · rename_i he; simp at he; subst he; simp [codeOf]

theorem py_fold (m : List Byte) : ∀ (fin : List Byte) (ph : Byte) (run : List Byte),
    run.length + 1 < 255 → (run = [] → ph = 1) →
    ((m.foldl pyStep (fin ++ ph :: run, run.length + 1)).1.set
        ((m.foldl pyStep (fin ++ ph :: run, run.length + 1)).1.length - (m.foldl pyStep (fin ++ ph :: run, run.length + 1)).2)
        (UInt8.ofNat (m.foldl pyStep (fin ++ ph :: run, run.length + 1)).2))
      = fin ++ encB .cobs run false (m.map fun b => (b, false)) := by
  induction m with
  | nil =>
    intro fin ph run hl hph
    simp only [List.foldl_nil, List.map_nil, encB, Bool.false_eq_true, if_false]
    rw [finalBlock_notail _ _ rfl, set_mid _ _ _ _ _ (by simp)]
    rfl
  | cons b m ih =>
    intro fin ph run hl hph
    simp only [List.foldl_cons, List.map_cons]
    unfold encB
    simp only [Bool.false_eq_true, if_false]
    by_cases hb : b = 0
    · subst hb
      have hpo : pairOk .cobs run = false := by simp [pairOk, Variant.isZpe]
      simp only [if_true, hpo, Bool.false_eq_true, false_and, if_false]
      have hst : pyStep (fin ++ ph :: run, run.length + 1) 0 = ((fin ++ codeOf run :: run) ++ (1 : Byte) :: [], ([] : List Byte).length + 1) := by
        unfold pyStep
        simp only [ne_eq, not_true, if_false]
        by_cases hr : run = []
        · subst hr; simp [hph rfl, codeOf]
        · have : run.length + 1 ≠ 1 := by
            have := List.length_pos_iff.mpr hr; omega
          simp only [this, not_false_eq_true, if_true]
          rw [set_mid _ _ _ _ _ (by simp)]
          simp [codeOf]
      rw [hst, ih _ 1 [] (by simp) (fun _ => rfl)]
      simp
    · simp only [hb, if_false]
      by_cases hfull : run.length + 2 = Variant.cobs.maxlen
      · have h253 : run.length = 253 := by simp [Variant.maxlen] at hfull; omega
        simp only [hfull, if_true]
        have hst : pyStep (fin ++ ph :: run, run.length + 1) b =
            ((fin ++ UInt8.ofNat 255 :: (run ++ [b])) ++ (1 : Byte) :: [], ([] : List Byte).length + 1) := by
          unfold pyStep
          simp only [ne_eq, hb, not_false_eq_true, if_true]
          rw [if_pos (by simp; omega)]
          have : (fin ++ ph :: run ++ [b]) = fin ++ ph :: (run ++ [b]) := by simp
          rw [this, set_mid _ _ _ _ _ (by simp; omega)]
          simp [h253]
        rw [hst, ih _ 1 [] (by simp) (fun _ => rfl)]
        simp [Variant.maxlen]
      · simp only [hfull, if_false]
        have hlt : run.length + 1 < 254 := by simp [Variant.maxlen] at hfull; omega
        have hst : pyStep (fin ++ ph :: run, run.length + 1) b =
            (fin ++ ph :: (run ++ [b]), (run ++ [b]).length + 1) := by
          unfold pyStep
          simp only [ne_eq, hb, not_false_eq_true, if_true]
          rw [if_neg (by simp; omega)]
          simp
        rw [hst, ih _ ph (run ++ [b]) (by simp; omega) (by simp)]

theorem pyEnc_eq_enc (m : List Byte) : pyEnc m = enc .cobs m := by
  unfold pyEnc enc
  have := py_fold m [] 1 [] (by simp) (fun _ => rfl)
  simp only [List.nil_append, List.length_nil, Nat.zero_add] at this
  simp only [this]

end Mpt.Cobs
