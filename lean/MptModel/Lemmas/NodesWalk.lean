/-
  The observer's walk (`Store.walk`, printed by the model driver and mirrored by harness/drv_node.c on the
  real nodes) returns the abstraction of a well-formed store.
-/
import MptModel.Lemmas.NodesInsert
namespace Mpt.Nodes
open Mpt Mpt.Forest

/-- the visited list after walking the forest `l` -/
def seenAfter : Forest → List Nat → List Nat
  | [], seen => seen
  | (.node i _ _ cs) :: ts, seen => seenAfter ts (seenAfter cs (i :: seen))

theorem mem_seenAfter : ∀ (l : Forest) (seen : List Nat) (x : Nat), x ∈ seenAfter l seen ↔ x ∈ ids l ∨ x ∈ seen
  | [], seen, x => by simp [seenAfter]
  | (.node i n v cs) :: ts, seen, x => by
    simp only [seenAfter, mem_seenAfter ts, mem_seenAfter cs, ids_cons, List.mem_cons, List.mem_append]
    constructor
    · rintro (h | h | h | h) <;> simp [h]
    · rintro ((h | h | h) | h) <;> simp [h]

/-- the observer's walk of a realised sibling list returns that list: all link checks pass -/
theorem walkList_real {s : Store} : ∀ (l : Forest) (fuel : Nat) (par prev : Option Nat) (seen : List Nat),
    Real s par prev l → (ids l).Nodup → (∀ x ∈ ids l, x ∉ seen) → (ids l).length + 1 ≤ fuel →
    s.walkList fuel (headId l) par prev seen = .ok (l, seenAfter l seen)
  | [], fuel, par, prev, seen, _, _, _, _ => by
    cases fuel <;> simp [Store.walkList, seenAfter]
  | (.node i n v cs) :: ts, fuel, par, prev, seen, hR, hnd, hs, hf => by
    rw [Real_cons] at hR
    rw [ids_cons, List.nodup_cons, List.mem_append, List.nodup_append] at hnd
    obtain ⟨hni, ndcs, ndts, disj⟩ := hnd
    simp only [ids_cons, List.length_cons, List.length_append] at hf
    obtain ⟨f, rfl⟩ : ∃ f, fuel = f + 1 := ⟨fuel - 1, by omega⟩
    have hi : i ∉ seen := hs i (by simp)
    have h1 := walkList_real cs f (some i) none (i :: seen) hR.2.1 ndcs
      (by
        intro x hx
        simp only [List.mem_cons, not_or]
        exact ⟨by rintro rfl; exact hni (Or.inl hx), hs x (by simp [hx])⟩)
      (by omega)
    have h2 := walkList_real ts f par (some i) (seenAfter cs (i :: seen)) hR.2.2 ndts
      (by
        intro x hx
        rw [mem_seenAfter]
        simp only [List.mem_cons, not_or]
        exact ⟨fun h => disj x h x hx rfl, by rintro rfl; exact hni (Or.inr hx), hs x (by simp [hx])⟩)
      (by omega)
    simp only [headId_cons, Store.walkList, hR.1, recOf]
    simp [hi, h1, h2, seenAfter]

/-- in a realised list only the first element has neither parent nor predecessor -/
theorem Real.root_is_head {s : Store} : ∀ {l : Forest} {par prev : Option Nat} {i : Nat} {n : Node},
    Real s par prev l → i ∈ ids l → s.nodes[i]? = some n → n.parent = none → n.prev = none →
    par = none ∧ prev = none ∧ headId l = some i
  | [], _, _, _, _, _, hi, _, _, _ => by simp at hi
  | (.node j nm v cs) :: ts, par, prev, i, n, hR, hi, hn, hp, hv => by
    rw [Real_cons] at hR
    simp at hi
    rcases hi with rfl | hi | hi
    · rw [hR.1] at hn
      cases hn
      simp at hp hv
      exact ⟨hp, hv, rfl⟩
    · have := (Real.root_is_head hR.2.1 hi hn hp hv).1
      simp at this
    · have := (Real.root_is_head hR.2.2 hi hn hp hv).2.1
      simp at this

theorem mem_heads {s : Store} {i : Nat} :
    i ∈ s.heads ↔ ∃ n, s.nodes[i]? = some n ∧ n.alive = true ∧ n.parent = none ∧ n.prev = none := by
  simp only [Store.heads, List.mem_filter, List.mem_range]
  constructor
  · rintro ⟨hlt, h⟩
    cases hn : s.nodes[i]? with
    | none => simp [hn] at h
    | some n =>
      simp [hn] at h
      exact ⟨n, rfl, h.1.1, h.1.2, h.2⟩
  · rintro ⟨n, hn, ha, hp, hv⟩
    have hlt : i < s.nodes.length := by
      rcases Nat.lt_or_ge i s.nodes.length with h | h
      · exact h
      · simp [List.getElem?_eq_none h] at hn
    exact ⟨hlt, by simp [hn, ha, hp, hv]⟩

/-- the list heads the observer starts from are exactly the first elements of the realised top-level lists -/
theorem Realises.mem_heads {s : Store} {tops : List Forest} (h : Realises s tops) (i : Nat) :
    i ∈ s.heads ↔ ∃ l ∈ tops, headId l = some i := by
  rw [Nodes.mem_heads]
  constructor
  · rintro ⟨n, hn, ha, hp, hv⟩
    have hi := h.cover i n hn ha
    obtain ⟨l, hl, hil⟩ := List.mem_flatMap.1 hi
    exact ⟨l, hl, (Real.root_is_head (h.real l hl).2 hil hn hp hv).2.2⟩
  · rintro ⟨l, hl, hh⟩
    have hr := (h.real l hl).2
    cases l with
    | nil => simp at hh
    | cons t ts =>
      cases t with
      | node j nm v cs =>
        simp at hh; subst hh
        rw [Real_cons] at hr
        exact ⟨_, hr.1, rfl, rfl, rfl⟩


/-- visited list after walking several top-level lists -/
def seenAll : List Forest → List Nat → List Nat
  | [], seen => seen
  | l :: ls, seen => seenAll ls (seenAfter l seen)

theorem mem_seenAll : ∀ (ls : List Forest) (seen : List Nat) (x : Nat), x ∈ seenAll ls seen ↔ x ∈ ls.flatMap ids ∨ x ∈ seen
  | [], seen, x => by simp [seenAll]
  | l :: ls, seen, x => by
    simp only [seenAll, mem_seenAll ls, mem_seenAfter, List.flatMap_cons, List.mem_append]
    constructor
    · rintro (h | h | h) <;> simp [h]
    · rintro ((h | h) | h) <;> simp [h]

theorem walkHeads_real {s : Store} : ∀ (ls : List Forest) (seen : List Nat),
    (∀ l ∈ ls, l ≠ [] ∧ Real s none none l) → (ls.flatMap ids).Nodup → (∀ x ∈ ls.flatMap ids, x ∉ seen) →
    (∀ l ∈ ls, (ids l).length + 1 ≤ s.fuel) →
    s.walkHeads (ls.filterMap headId) seen = .ok (ls, seenAll ls seen)
  | [], seen, _, _, _, _ => by simp [Store.walkHeads, seenAll]
  | l :: ls, seen, hr, hnd, hs, hf => by
    simp only [List.flatMap_cons] at hnd hs
    obtain ⟨ndl, ndls, disj⟩ := List.nodup_append.1 hnd
    have hl := hr l (by simp)
    cases hh : headId l with
    | none =>
      cases l with
      | nil => exact absurd rfl hl.1
      | cons t ts => cases t; simp at hh
    | some h =>
      have h1 := walkList_real l s.fuel none none seen hl.2 ndl (fun x hx => hs x (by simp [hx])) (hf l (by simp))
      rw [hh] at h1
      have h2 := walkHeads_real ls (seenAfter l seen) (fun l' hl' => hr l' (by simp [hl'])) ndls
        (by
          intro x hx
          rw [mem_seenAfter]
          simp only [not_or]
          exact ⟨fun h => disj x h x hx rfl, hs x (by simp [hx])⟩)
        (fun l' hl' => hf l' (by simp [hl']))
      simp only [List.filterMap_cons, hh, Store.walkHeads, h1, h2, seenAll]

/-- The structure the model driver prints (`Store.walk`, the same walk with the same link checks as the
    C driver performs on the real nodes) is the abstraction the theorems speak about: on a store that
    realises `tops`, listed in the order of their heads' creation, the walk passes every check and returns `tops`. -/
theorem walk_realises {s : Store} {tops : List Forest} (h : Realises s tops) (hord : tops.filterMap headId = s.heads) :
    s.walk = .ok tops := by
  have hfuel : ∀ l ∈ tops, (ids l).length + 1 ≤ s.fuel := by
    intro l hl
    have := h.cost_le hl
    rw [cost_eq] at this
    simp only [Store.fuel]
    omega
  have hw := walkHeads_real tops [] (fun l hl => h.real l hl) h.nodup (by simp) hfuel
  rw [hord] at hw
  simp only [Store.walk, hw]
  have : s.liveIds.find? (fun i => !(seenAll tops []).contains i) = none := by
    apply List.find?_eq_none.2
    intro i hi
    simp only [Store.liveIds, List.mem_filter, List.mem_range] at hi
    cases hn : s.nodes[i]? with
    | none => simp [hn] at hi
    | some n =>
      simp [hn] at hi
      have := h.cover i n hn hi.2
      simp [mem_seenAll, this]
  rw [this]


end Mpt.Nodes
