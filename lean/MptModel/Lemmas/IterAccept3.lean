/-
  Helper lemmas for C19 (core Lean only): the canonical `lin(…)` description is accepted with the denoted
  sequence; shape of recognised keyword descriptions.
-/
import MptModel.Lemmas.IterAccept2
namespace Mpt.Iter
open Mpt.IterSpec

/-- shape of the argument text of a recognised keyword description -/
theorem fieldsOf_inv (rest : List Char) (fs : List (List Char)) (h : fieldsOf rest = some fs) :
    ∃ a inner, rest = a ++ '(' :: inner ++ [')'] ∧ OptBlank a ∧ fs = (IterSpec.splitOn ':' inner).map trim1 := by
  obtain ⟨a, ha, oa⟩ := trimFirst_inv rest
  unfold fieldsOf at h
  simp only [] at h
  generalize (if rest.head? = some ' ' then rest.tail else rest) = r at ha h
  split at h
  · cases h
  · rename_i hc
    simp only [not_or, Decidable.not_not] at hc
    obtain ⟨h1, h2⟩ := hc
    split at h
    · cases h
    · cases h
      obtain ⟨r', hr'⟩ : ∃ r', r = '(' :: r' := by
        cases r with
        | nil => simp at h1
        | cons x xs => simp at h1; exact ⟨xs, by rw [h1]⟩
      subst hr'
      have hne : r' ≠ [] := by
        intro e; subst e; simp at h2
      have h3 : r'.getLast? = some ')' := by
        cases r' with
        | nil => exact absurd rfl hne
        | cons y ys => rw [List.getLast?_cons_cons] at h2; exact h2
      have h4 := List.dropLast_concat_getLast hne
      rw [List.getLast?_eq_some_getLast hne] at h3
      have h5 : r'.getLast hne = ')' := by simpa using h3
      rw [h5] at h4
      refine ⟨a, r'.dropLast, ?_, oa, rfl⟩
      rw [ha]
      simp only [List.cons_append, List.append_assoc]
      rw [h4]

theorem map_eq_two {α β} (f : α → β) (l : List α) (x y : β) (h : l.map f = [x, y]) :
    ∃ p q, l = [p, q] ∧ f p = x ∧ f q = y := by
  match l, h with
  | [p, q], h => simp at h; exact ⟨p, q, rfl, h.1, h.2⟩

theorem map_eq_one {α β} (f : α → β) (l : List α) (x : β) (h : l.map f = [x]) :
    ∃ p, l = [p] ∧ f p = x := by
  match l, h with
  | [p], h => simp at h; exact ⟨p, rfl, h⟩

theorem allSome_length {α} (l : List (Option α)) (vs : List α) (h : allSome l = some vs) : vs.length = l.length := by
  induction l generalizing vs with
  | nil => simp [allSome] at h; subst h; rfl
  | cons x xs ih =>
    cases x with
    | none => simp [allSome] at h
    | some a =>
      simp only [allSome] at h
      cases hq : allSome xs with
      | none => rw [hq] at h; simp at h
      | some ws => rw [hq] at h; simp at h; subst h; simp [ih ws hq]

/-- a field of exactly two numbers -/
theorem numbers_two (ab : List Char) (a b : Rat) (h : numbers ab = some [a, b]) :
    ∃ ta tb, ab = ta ++ ' ' :: tb ∧ strictNumber ta = some a ∧ strictNumber tb = some b := by
  unfold numbers at h
  have hj := join_splitC ' ' ab
  match hq : IterSpec.splitOn ' ' ab, h with
  | [ta, tb], h =>
    rw [hq] at hj
    simp only [List.map_cons, List.map_nil, allSome] at h
    cases h1 : strictNumber ta with
    | none => rw [h1] at h; simp [allSome] at h
    | some va =>
      cases h2 : strictNumber tb with
      | none => rw [h1, h2] at h; simp [allSome] at h
      | some vb =>
        rw [h1, h2] at h
        simp [allSome] at h
        exact ⟨ta, tb, hj.symm, by rw [h1, h.1], by rw [h2, h.2]⟩
  | [], h => exact absurd hq (splitOnC_ne_nil ' ' ab)
  | [t], h =>
    have := allSome_length _ _ h; simp at this
  | t1 :: t2 :: t3 :: more, h =>
    have := allSome_length _ _ h; simp at this

/-- a field of exactly one number -/
theorem numbers_one (x : List Char) (a : Rat) (h : numbers x = some [a]) : strictNumber x = some a := by
  unfold numbers at h
  have hj := join_splitC ' ' x
  match hq : IterSpec.splitOn ' ' x, h with
  | [t], h =>
    rw [hq] at hj
    simp only [joinC] at hj
    simp only [List.map_cons, List.map_nil, allSome] at h
    cases h1 : strictNumber t with
    | none => rw [h1] at h; simp [allSome] at h
    | some v => rw [h1] at h; simp [allSome] at h; rw [← hj, h1, h]
  | [], h => exact absurd hq (splitOnC_ne_nil ' ' x)
  | t1 :: t2 :: more, h =>
    have := allSome_length _ _ h; simp at this

theorem paren_close_graph : isGraph ')' = true ∧ isSpace ')' = false := by decide
theorem paren_open_graph : isGraph '(' = true ∧ isSpace '(' = false := by decide
theorem colon_graph : isGraph ':' = true ∧ isSpace ':' = false := by decide
theorem close_stops : isDigit ')' = false ∧ ')' ≠ '.' ∧ ')' ≠ 'e' ∧ ')' ≠ 'E' := by decide
theorem colon_stops : isDigit ':' = false ∧ ':' ≠ '.' ∧ ':' ≠ 'e' ∧ ':' ≠ 'E' := by decide

theorem head_opt_nodigit (b : List Char) (c : Char) (t : List Char) (hb : OptBlank b) (hc : isDigit c = false) :
    ∀ x, (b ++ c :: t).head? = some x → isDigit x = false := by
  intro x hx
  rcases hb with e | e <;> subst e
  · simp at hx; subst hx; exact hc
  · simp at hx; subst hx; decide

/-- the two bounds `a2 ta ' ' tb b2 ')'` are read by `parseRange` -/
theorem parseRange_two (a2 b2 ta tb : List Char) (va vb : Rat) (d1 d2 : Rat) (ha2 : OptBlank a2) (hb2 : OptBlank b2)
    (h1 : strictNumber ta = some va) (h2 : strictNumber tb = some vb) (c : Char) (t : List Char)
    (hc : isDigit c = false ∧ c ≠ '.' ∧ c ≠ 'e' ∧ c ≠ 'E') :
    parseRange (a2 ++ (ta ++ ' ' :: (tb ++ (b2 ++ c :: t)))) d1 d2 = some (va, vb, b2 ++ c :: t) := by
  have c1 := cdouble_opt a2 _ va _ ha2 (cdouble_strict ta (' ' :: (tb ++ (b2 ++ c :: t))) va h1 (stops_space _))
  have c2 := cdouble_space _ vb _ (cdouble_strict tb (b2 ++ c :: t) vb h2 (stops_opt b2 c t hb2 hc))
  unfold parseRange
  rw [c1]
  simp only []
  rw [c2]

/-- acceptance of the linear description once its argument text has the canonical shape -/
theorem linArgs_two (a a1 b1 a2 b2 n ta tb : List Char) (k : Nat) (va vb : Rat)
    (oa : OptBlank a) (oa1 : OptBlank a1) (ob1 : OptBlank b1) (oa2 : OptBlank a2) (ob2 : OptBlank b2)
    (hn : strictCount n = some k) (h1 : strictNumber ta = some va) (h2 : strictNumber tb = some vb) :
    linArgs (a ++ '(' :: (a1 ++ (n ++ (b1 ++ ':' :: (a2 ++ (ta ++ ' ' :: (tb ++ (b2 ++ [')']))))))))
      = mkLinear (wrap32 (k + 1)) va vb := by
  unfold linArgs
  rw [nextvis_opt a '(' _ oa paren_open_graph.1 paren_open_graph.2]
  simp only [List.tail_cons, ne_eq, not_true_eq_false, ↓reduceIte]
  have hu := uint_opt a1 _ k _ oa1
    (cuint32_strict n (b1 ++ ':' :: (a2 ++ (ta ++ ' ' :: (tb ++ (b2 ++ [')']))))) k hn
      (head_opt_nodigit b1 ':' _ ob1 colon_stops.1)).1
  rw [hu]
  simp only []
  have hr : linRange (b1 ++ ':' :: (a2 ++ (ta ++ ' ' :: (tb ++ (b2 ++ [')'])))))
      = some (va, vb, b2 ++ [')']) := by
    unfold linRange
    obtain ⟨n1, n2⟩ := nextIs_opt b1 ':' (a2 ++ (ta ++ ' ' :: (tb ++ (b2 ++ [')'])))) ob1 colon_graph.1 colon_graph.2
    rw [if_pos n1, n2]
    exact parseRange_two a2 b2 ta tb va vb 0 1 oa2 ob2 h1 h2 ')' [] close_stops
  rw [hr]
  simp only []
  rw [closeOk_opt b2 ob2]
  simp

/-- the same with the count only: bounds 0 and 1 -/
theorem linArgs_one (a a1 b1 n : List Char) (k : Nat)
    (oa : OptBlank a) (oa1 : OptBlank a1) (ob1 : OptBlank b1) (hn : strictCount n = some k) :
    linArgs (a ++ '(' :: (a1 ++ (n ++ (b1 ++ [')'])))) = mkLinear (wrap32 (k + 1)) 0 1 := by
  unfold linArgs
  rw [nextvis_opt a '(' _ oa paren_open_graph.1 paren_open_graph.2]
  simp only [List.tail_cons, ne_eq, not_true_eq_false, ↓reduceIte]
  have hu := uint_opt a1 _ k _ oa1
    (cuint32_strict n (b1 ++ [')']) k hn (head_opt_nodigit b1 ')' [] ob1 close_stops.1)).1
  rw [hu]
  simp only []
  have hcl := nextIs_opt b1 ')' [] ob1 paren_close_graph.1 paren_close_graph.2
  have hr : linRange (b1 ++ [')']) = some (0, 1, b1 ++ [')']) := by
    unfold linRange
    have : nextIs (b1 ++ [')']) ':' = false := by
      unfold nextIs
      rw [nextvis_opt b1 ')' [] ob1 paren_close_graph.1 paren_close_graph.2]
      decide
    rw [this]; rfl
  rw [hr]
  simp only []
  rw [closeOk_opt b1 ob1]
  simp

end Mpt.Iter
