/-
  The name search loops of node_locate.c on a realised sibling list: pure index functions first,
  then the link-following loops of the model.
-/
import MptModel.Lemmas.NodesDeepClone
namespace Mpt.Nodes
open Mpt Mpt.Forest

/-! ### index lists of namesakes -/

theorem midx_append (key : Name) : ∀ (a b : List Name) (k : Nat),
    midx key (a ++ b) k = midx key a k ++ midx key b (k + a.length)
  | [], b, k => by simp [midx]
  | n :: a, b, k => by
    simp only [List.cons_append, midx, List.length_cons]
    rw [midx_append key a b (k + 1)]
    have : k + 1 + a.length = k + (a.length + 1) := by omega
    split <;> simp [this]

theorem mem_midx (key : Name) : ∀ (ns : List Name) (b x : Nat), x ∈ midx key ns b ↔ b ≤ x ∧ ns[x - b]? = some key
  | [], b, x => by simp [midx]
  | n :: ns, b, x => by
    simp only [midx]
    by_cases hn : n = key
    · simp only [hn, ↓reduceIte, List.mem_cons, mem_midx key ns (b + 1) x]
      constructor
      · rintro (rfl | ⟨h1, h2⟩)
        · simp
        · refine ⟨by omega, ?_⟩
          have : x - b = (x - (b + 1)) + 1 := by omega
          rw [this]; simpa using h2
      · rintro ⟨h1, h2⟩
        by_cases hx : x = b
        · exact Or.inl hx
        · right
          refine ⟨by omega, ?_⟩
          have : x - b = (x - (b + 1)) + 1 := by omega
          rw [this] at h2; simpa using h2
    · simp only [hn, ↓reduceIte, mem_midx key ns (b + 1) x]
      constructor
      · rintro ⟨h1, h2⟩
        refine ⟨by omega, ?_⟩
        have : x - b = (x - (b + 1)) + 1 := by omega
        rw [this]; simpa using h2
      · rintro ⟨h1, h2⟩
        have hx : x ≠ b := by
          rintro rfl
          simp at h2
          exact hn h2
        refine ⟨by omega, ?_⟩
        have : x - b = (x - (b + 1)) + 1 := by omega
        rw [this] at h2; simpa using h2

theorem midx_ge (key : Name) (ns : List Name) (b : Nat) : ∀ x ∈ midx key ns b, b ≤ x :=
  fun x hx => ((mem_midx key ns b x).1 hx).1

/-- the matches from position `j` on are the matches of the rest of the list -/
theorem midx_drop (key : Name) : ∀ (ns : List Name) (b j : Nat),
    (midx key ns b).filter (fun x => decide (b + j ≤ x)) = midx key (ns.drop j) (b + j)
  | ns, b, 0 => by
    simp only [Nat.add_zero, List.drop_zero]
    apply List.filter_eq_self.2
    intro x hx
    simpa using midx_ge key ns b x hx
  | [], b, j + 1 => by simp [midx]
  | n :: ns, b, j + 1 => by
    simp only [midx, List.drop_succ_cons]
    have ih := midx_drop key ns (b + 1) j
    have hb : b + 1 + j = b + (j + 1) := by omega
    rw [hb] at ih
    by_cases hn : n = key
    · simp only [hn, ↓reduceIte, List.filter_cons]
      have : ¬ (b + (j + 1) ≤ b) := by omega
      simp only [this, decide_false, Bool.false_eq_true, ↓reduceIte]
      exact ih
    · simp only [hn, ↓reduceIte]
      exact ih

/-- the matches before position `i` are the matches of the front part -/
theorem midx_take (key : Name) : ∀ (ns : List Name) (b i : Nat),
    (midx key ns b).filter (fun x => decide (x < b + i)) = midx key (ns.take i) b
  | ns, b, 0 => by
    simp only [Nat.add_zero, List.take_zero, midx]
    apply List.filter_eq_nil_iff.2
    intro x hx
    have := midx_ge key ns b x hx
    simp; omega
  | [], b, i + 1 => by simp [midx]
  | n :: ns, b, i + 1 => by
    simp only [midx, List.take_succ_cons]
    have ih := midx_take key ns (b + 1) i
    have hb : b + 1 + i = b + (i + 1) := by omega
    rw [hb] at ih
    by_cases hn : n = key
    · simp only [hn, ↓reduceIte, List.filter_cons]
      have : b < b + (i + 1) := by omega
      simp only [this, decide_true, ↓reduceIte]
      rw [ih]
    · simp only [hn, ↓reduceIte]
      exact ih

/-! ### the search loops as index functions -/

/-- forward search over names: index (counted from `b`) of the `k`-th match (`k ≤ 1`: the first) -/
def fwdFrom (key : Name) : List Name → Nat → Nat → Option Nat
  | [], _, _ => none
  | n :: ns, k, b =>
    if n = key ∧ k ≤ 1 then some b
    else fwdFrom key ns (if n = key then k - 1 else k) (b + 1)

theorem fwdFrom_eq (key : Name) : ∀ (ns : List Name) (k b : Nat), fwdFrom key ns k b = (midx key ns b)[k - 1]?
  | [], k, b => by simp [fwdFrom, midx]
  | n :: ns, k, b => by
    simp only [fwdFrom, midx]
    by_cases hn : n = key
    · simp only [hn, true_and, ↓reduceIte]
      by_cases hk : k ≤ 1
      · have : k - 1 = 0 := by omega
        simp [hk, this]
      · simp only [hk, ↓reduceIte]
        rw [fwdFrom_eq key ns (k - 1) (b + 1)]
        have : k - 1 = (k - 1 - 1) + 1 := by omega
        rw [this, List.getElem?_cons_succ]
        simp
    · simp only [hn, false_and, ↓reduceIte]
      exact fwdFrom_eq key ns k (b + 1)

/-- backward search over the reversed front part: index of the `k`-th match going down -/
def bwd (key : Name) : List Name → Nat → Option Nat
  | [], _ => none
  | n :: r, k =>
    if n = key then (if k ≤ 1 then some r.length else bwd key r (k - 1))
    else bwd key r k

theorem bwd_eq (key : Name) : ∀ (rev : List Name) (k : Nat), bwd key rev k = ((midx key rev.reverse 0).reverse)[k - 1]?
  | [], k => by simp [bwd, midx]
  | n :: r, k => by
    simp only [bwd, List.reverse_cons, midx_append, Nat.zero_add, List.length_reverse, List.reverse_append]
    by_cases hn : n = key
    · simp only [hn, ↓reduceIte, midx, List.reverse_cons, List.reverse_nil, List.nil_append, List.singleton_append]
      by_cases hk : k ≤ 1
      · have : k - 1 = 0 := by omega
        simp [hk, this]
      · simp only [hk, ↓reduceIte]
        rw [bwd_eq key r (k - 1)]
        have : k - 1 = (k - 1 - 1) + 1 := by omega
        rw [this, List.getElem?_cons_succ]
        simp
    · simp only [hn, ↓reduceIte, midx, List.reverse_nil, List.nil_append]
      exact bwd_eq key r k

end Mpt.Nodes
