/-
  The name search loops of node_locate.c on a realised sibling list: pure index functions first,
  then the link-following loops of the model.
-/
import MptModel.Lemmas.NodesDeepClone
namespace Mpt.Nodes
open Mpt Mpt.Forest

/-! ### index lists of namesakes -/

theorem midx_append (key : Name) : ∀ (a b : List Name) (k : Nat),
    midx key (a ++ b) k = midx key a k ++ midx key b (k + a.length)
  | [], b, k => by simp [midx]
  | n :: a, b, k => by
    simp only [List.cons_append, midx, List.length_cons]
    rw [midx_append key a b (k + 1)]
    have : k + 1 + a.length = k + (a.length + 1) := by omega
    split <;> simp [this]

theorem mem_midx (key : Name) : ∀ (ns : List Name) (b x : Nat), x ∈ midx key ns b ↔ b ≤ x ∧ ns[x - b]? = some key
  | [], b, x => by simp [midx]
  | n :: ns, b, x => by
    simp only [midx]
    by_cases hn : n = key
    · simp only [hn, ↓reduceIte, List.mem_cons, mem_midx key ns (b + 1) x]
      constructor
      · rintro (rfl | ⟨h1, h2⟩)
        · simp
        · refine ⟨by omega, ?_⟩
          have : x - b = (x - (b + 1)) + 1 := by omega
          rw [this]; simpa using h2
      · rintro ⟨h1, h2⟩
        by_cases hx : x = b
        · exact Or.inl hx
        · right
          refine ⟨by omega, ?_⟩
          have : x - b = (x - (b + 1)) + 1 := by omega
          rw [this] at h2; simpa using h2
    · simp only [hn, ↓reduceIte, mem_midx key ns (b + 1) x]
      constructor
      · rintro ⟨h1, h2⟩
        refine ⟨by omega, ?_⟩
        have : x - b = (x - (b + 1)) + 1 := by omega
        rw [this]; simpa using h2
      · rintro ⟨h1, h2⟩
        have hx : x ≠ b := by
          rintro rfl
          simp at h2
          exact hn h2
        refine ⟨by omega, ?_⟩
        have : x - b = (x - (b + 1)) + 1 := by omega
        rw [this] at h2; simpa using h2

theorem midx_ge (key : Name) (ns : List Name) (b : Nat) : ∀ x ∈ midx key ns b, b ≤ x :=
  fun x hx => ((mem_midx key ns b x).1 hx).1

/-- the matches from position `j` on are the matches of the rest of the list -/
theorem midx_drop (key : Name) : ∀ (ns : List Name) (b j : Nat),
    (midx key ns b).filter (fun x => decide (b + j ≤ x)) = midx key (ns.drop j) (b + j)
  | ns, b, 0 => by
    simp only [Nat.add_zero, List.drop_zero]
    apply List.filter_eq_self.2
    intro x hx
    simpa using midx_ge key ns b x hx
  | [], b, j + 1 => by simp [midx]
  | n :: ns, b, j + 1 => by
    simp only [midx, List.drop_succ_cons]
    have ih := midx_drop key ns (b + 1) j
    have hb : b + 1 + j = b + (j + 1) := by omega
    rw [hb] at ih
    by_cases hn : n = key
    · simp only [hn, ↓reduceIte, List.filter_cons]
      have : ¬ (b + (j + 1) ≤ b) := by omega
      simp only [this, decide_false, Bool.false_eq_true, ↓reduceIte]
      exact ih
    · simp only [hn, ↓reduceIte]
      exact ih

/-- the matches before position `i` are the matches of the front part -/
theorem midx_take (key : Name) : ∀ (ns : List Name) (b i : Nat),
    (midx key ns b).filter (fun x => decide (x < b + i)) = midx key (ns.take i) b
  | ns, b, 0 => by
    simp only [Nat.add_zero, List.take_zero, midx]
    apply List.filter_eq_nil_iff.2
    intro x hx
    have := midx_ge key ns b x hx
    simp; omega
  | [], b, i + 1 => by simp [midx]
  | n :: ns, b, i + 1 => by
    simp only [midx, List.take_succ_cons]
    have ih := midx_take key ns (b + 1) i
    have hb : b + 1 + i = b + (i + 1) := by omega
    rw [hb] at ih
    by_cases hn : n = key
    · simp only [hn, ↓reduceIte, List.filter_cons]
      have : b < b + (i + 1) := by omega
      simp only [this, decide_true, ↓reduceIte]
      rw [ih]
    · simp only [hn, ↓reduceIte]
      exact ih

/-! ### the search loops as index functions -/

/-- forward search over names: index (counted from `b`) of the `k`-th match (`k ≤ 1`: the first) -/
def fwdFrom (key : Name) : List Name → Nat → Nat → Option Nat
  | [], _, _ => none
  | n :: ns, k, b =>
    if n = key ∧ k ≤ 1 then some b
    else fwdFrom key ns (if n = key then k - 1 else k) (b + 1)

theorem fwdFrom_eq (key : Name) : ∀ (ns : List Name) (k b : Nat), fwdFrom key ns k b = (midx key ns b)[k - 1]?
  | [], k, b => by simp [fwdFrom, midx]
  | n :: ns, k, b => by
    simp only [fwdFrom, midx]
    by_cases hn : n = key
    · simp only [hn, true_and, ↓reduceIte]
      by_cases hk : k ≤ 1
      · have : k - 1 = 0 := by omega
        simp [hk, this]
      · simp only [hk, ↓reduceIte]
        rw [fwdFrom_eq key ns (k - 1) (b + 1)]
        have : k - 1 = (k - 1 - 1) + 1 := by omega
        rw [this, List.getElem?_cons_succ]
        simp
    · simp only [hn, false_and, ↓reduceIte]
      exact fwdFrom_eq key ns k (b + 1)

/-- backward search over the reversed front part: index of the `k`-th match going down -/
def bwd (key : Name) : List Name → Nat → Option Nat
  | [], _ => none
  | n :: r, k =>
    if n = key then (if k ≤ 1 then some r.length else bwd key r (k - 1))
    else bwd key r k

theorem bwd_eq (key : Name) : ∀ (rev : List Name) (k : Nat), bwd key rev k = ((midx key rev.reverse 0).reverse)[k - 1]?
  | [], k => by simp [bwd, midx]
  | n :: r, k => by
    simp only [bwd, List.reverse_cons, midx_append, Nat.zero_add, List.length_reverse, List.reverse_append]
    by_cases hn : n = key
    · simp only [hn, ↓reduceIte, midx, List.reverse_cons, List.reverse_nil, List.nil_append, List.singleton_append]
      by_cases hk : k ≤ 1
      · have : k - 1 = 0 := by omega
        simp [hk, this]
      · simp only [hk, ↓reduceIte]
        rw [bwd_eq key r (k - 1)]
        have : k - 1 = (k - 1 - 1) + 1 := by omega
        rw [this, List.getElem?_cons_succ]
        simp
    · simp only [hn, ↓reduceIte, midx, List.reverse_nil, List.nil_append]
      exact bwd_eq key r k

/-- the exact record of the `j`-th element of a realised sibling list -/
theorem Real.rec_tree {s : Store} : ∀ {L : Forest} {par prev : Option Nat} {j : Nat} {t : Tree},
    Real s par prev L → L[j]? = some t →
    s.nodes[t.id]? = some (recOf (headId (L.drop (j + 1))) (prevAt prev L j) par t.children t.name t.value)
  | [], _, _, _, _, _, h => by simp at h
  | (.node i n v cs) :: ts, par, prev, 0, t, hL, h => by
    rw [Real_cons] at hL
    simp at h; subst h
    simpa [prevAt, Tree.id, Tree.children, Tree.name, Tree.value] using hL.1
  | (.node i n v cs) :: ts, par, prev, j + 1, t, hL, h => by
    rw [Real_cons] at hL
    have := Real.rec_tree hL.2.2 (j := j) (t := t) (by simpa using h)
    rw [prevAt_succ]; simpa [Tree.id] using this

theorem drop_eq_cons_of_getElem? {L : Forest} {j : Nat} {t : Tree} (h : L[j]? = some t) : L.drop j = t :: L.drop (j + 1) := by
  have hlt := (List.getElem?_eq_some_iff.1 h).1
  have := List.drop_eq_getElem_cons hlt
  rw [this]
  have h2 := (List.getElem?_eq_some_iff.1 h).2
  rw [h2]

/-- forward name search of node_locate.c from the `j`-th element -/
theorem locFwd_real {s : Store} {L : Forest} {par prev : Option Nat} (key : Name) (hL : Real s par prev L) :
    ∀ (fuel j k : Nat) (t : Tree), L[j]? = some t → L.length - j ≤ fuel →
    s.locFwd key fuel k t.id = .ok ((fwdFrom key ((L.drop j).map Tree.name) k j).bind fun i => (L[i]?).map Tree.id)
  | 0, j, k, t, h, hf => by
    have := (List.getElem?_eq_some_iff.1 h).1
    omega
  | f + 1, j, k, t, h, hf => by
    have hrec := Real.rec_tree hL h
    have hlt := (List.getElem?_eq_some_iff.1 h).1
    rw [drop_eq_cons_of_getElem? h]
    simp only [Store.locFwd, Store.get_ok ⟨hrec, rfl⟩, Res.bind_ok, List.map_cons, fwdFrom]
    by_cases hc : t.name = key ∧ k ≤ 1
    · simp [hc, h]
    · simp only [hc, ↓reduceIte]
      rw [headId_drop]
      cases hn : L[j + 1]? with
      | none =>
        have : L.drop (j + 1) = [] := by
          apply List.drop_eq_nil_of_le
          have := List.getElem?_eq_none_iff.1 hn
          omega
        simp [this, fwdFrom]
      | some t' =>
        simp only [Option.map_some]
        exact locFwd_real key hL f (j + 1) _ t' hn (by omega)

theorem take_succ_reverse {L : Forest} {j : Nat} {t : Tree} (h : L[j]? = some t) :
    ((L.take (j + 1)).map Tree.name).reverse = t.name :: ((L.take j).map Tree.name).reverse := by
  rw [List.take_add_one, h]
  simp

/-- backward name search of node_locate.c from the `j`-th element of a list without predecessor -/
theorem locBack_real {s : Store} {L : Forest} {par : Option Nat} (key : Name) (hL : Real s par none L) :
    ∀ (fuel j k : Nat) (t : Tree), L[j]? = some t → j + 1 ≤ fuel →
    s.locBack key fuel k t.id = .ok ((bwd key ((L.take j).map Tree.name).reverse k).bind fun i => (L[i]?).map Tree.id)
  | 0, j, k, t, h, hf => by omega
  | f + 1, j, k, t, h, hf => by
    have hrec := Real.rec_tree hL h
    simp only [Store.locBack, Store.get_ok ⟨hrec, rfl⟩, Res.bind_ok, recOf]
    rw [prevAt_none_eq]
    cases j with
    | zero => simp [bwd]
    | succ j' =>
      have hlt := (List.getElem?_eq_some_iff.1 h).1
      obtain ⟨t', ht'⟩ : ∃ t', L[j']? = some t' := ⟨L[j'], List.getElem?_eq_getElem (by omega)⟩
      have hrec' := Real.rec_tree hL ht'
      simp only [Nat.add_one_ne_zero, ↓reduceIte, Nat.add_sub_cancel, ht', Option.map_some,
        Store.get_ok ⟨hrec', rfl⟩, Res.bind_ok]
      rw [take_succ_reverse ht']
      simp only [bwd, List.length_reverse, List.length_map, List.length_take]
      have hmin : min j' L.length = j' := by omega
      by_cases hn : t'.name = key
      · simp only [hn, ↓reduceIte]
        by_cases hk : k ≤ 1
        · simp [hk, hmin, ht']
        · simp only [hk, ↓reduceIte]
          exact locBack_real key hL f j' (k - 1) t' ht' (by omega)
      · simp only [hn, ↓reduceIte]
        exact locBack_real key hL f j' k t' ht' (by omega)


theorem midx_head_drop (key : Name) : ∀ (ns : List Name) (b a0 : Nat), (midx key ns b).head? = some a0 →
    midx key (ns.drop (a0 - b)) a0 = midx key ns b
  | [], b, a0, h => by simp [midx] at h
  | n :: ns, b, a0, h => by
    simp only [midx] at h ⊢
    by_cases hn : n = key
    · simp only [hn, ↓reduceIte, List.head?_cons, Option.some.injEq] at h
      subst h
      simp [midx, hn]
    · simp only [hn, ↓reduceIte] at h ⊢
      have hge : b + 1 ≤ a0 := midx_ge key ns (b + 1) a0 (List.mem_of_mem_head? h)
      have := midx_head_drop key ns (b + 1) a0 h
      have h2 : a0 - b = (a0 - (b + 1)) + 1 := by omega
      rw [h2, List.drop_succ_cons]
      exact this

theorem midx_last_take (key : Name) (ns : List Name) (b aL : Nat) (h : (midx key ns b).getLast? = some aL) :
    midx key ns b = midx key (ns.take (aL - b)) b ++ [aL] := by
  have hmem : aL ∈ midx key ns b := List.mem_of_getLast? h
  obtain ⟨hge, hat⟩ := (mem_midx key ns b aL).1 hmem
  have hsplit : ns = ns.take (aL - b) ++ ns.drop (aL - b) := (List.take_append_drop _ _).symm
  have hlt : aL - b < ns.length := (List.getElem?_eq_some_iff.1 hat).1
  have hdrop : ns.drop (aL - b) = key :: ns.drop (aL - b + 1) := by
    rw [List.drop_eq_getElem_cons hlt]
    have := (List.getElem?_eq_some_iff.1 hat).2
    rw [this]
  have hlen : (ns.take (aL - b)).length = aL - b := by simp; omega
  have hall : midx key ns b = midx key (ns.take (aL - b)) b ++ (aL :: midx key (ns.drop (aL - b + 1)) (aL + 1)) := by
    conv => lhs; rw [hsplit]
    rw [midx_append, hlen, hdrop]
    have : b + (aL - b) = aL := by omega
    simp [midx, this]
  cases hrest : midx key (ns.drop (aL - b + 1)) (aL + 1) with
  | nil => rw [hall, hrest]
  | cons y ys =>
    exfalso
    rw [hall, hrest] at h
    have hl : ((midx key (ns.take (aL - b)) b ++ aL :: y :: ys)).getLast? = (y :: ys).getLast? := by
      rw [List.getLast?_append, List.getLast?_cons_cons]
      cases hq : (y :: ys).getLast? with
      | none => simp at hq
      | some z => simp
    rw [hl] at h
    have hm : aL ∈ midx key (ns.drop (aL - b + 1)) (aL + 1) := by rw [hrest]; exact List.mem_of_getLast? h
    have := midx_ge key _ _ aL hm
    omega

/-- `pos = 0` of node_locate: the last element if it matches, else the nearest match before it -/
theorem last_match_eq (key : Name) (ns : List Name) (hne : ns ≠ []) :
    (if ns[ns.length - 1]? = some key then some (ns.length - 1) else bwd key (ns.take (ns.length - 1)).reverse 1) =
      (midx key ns 0).getLast? := by
  have hlt : ns.length - 1 < ns.length := by
    cases ns with
    | nil => exact absurd rfl hne
    | cons a as => simp
  have hsplit : ns = ns.take (ns.length - 1) ++ [ns[ns.length - 1]] := by
    conv => lhs; rw [← List.take_append_drop (ns.length - 1) ns]
    rw [List.drop_eq_getElem_cons hlt]
    have : ns.length - 1 + 1 = ns.length := by omega
    simp [this]
  have hall : midx key ns 0 = midx key (ns.take (ns.length - 1)) 0 ++ midx key [ns[ns.length - 1]] (ns.length - 1) := by
    conv => lhs; rw [hsplit]
    rw [midx_append]
    simp
  rw [hall]
  by_cases hk : ns[ns.length - 1] = key
  · have : ns[ns.length - 1]? = some key := by rw [List.getElem?_eq_getElem hlt, hk]
    simp [this, midx, hk]
  · have : ¬ (ns[ns.length - 1]? = some key) := by rw [List.getElem?_eq_getElem hlt]; simpa using hk
    simp only [this, ↓reduceIte, midx, hk, List.append_nil]
    rw [bwd_eq]
    simp only [List.reverse_reverse, Nat.sub_self]
    rw [← List.head?_eq_getElem?, List.head?_reverse]


theorem namesakes_from (L : Forest) (key : Name) (f : Nat) :
    (namesakes L key).filter (· ≥ f) = midx key ((L.drop f).map Tree.name) f := by
  have := midx_drop key (L.map Tree.name) 0 f
  simp only [Nat.zero_add] at this
  simp only [namesakes, ge_iff_le, List.map_drop]
  exact this

theorem namesakes_before (L : Forest) (key : Name) (f : Nat) :
    (namesakes L key).filter (· < f) = midx key ((L.take f).map Tree.name) 0 := by
  have := midx_take key (L.map Tree.name) 0 f
  simp only [Nat.zero_add] at this
  simp only [namesakes, List.map_take]
  exact this

/-- `mpt_node_locate(first, pos, name)` on a realised sibling list (first = its `f`-th element) finds the element
    the specification names (`locIdx`) -/
theorem locate_real {s : Store} {L : Forest} {par : Option Nat} {f : Nat} {tf : Tree} (key : Name) (pos : Int)
    (hL : Real s par none L) (hf : L[f]? = some tf) (hfuel : L.length ≤ s.fuel) :
    s.locate (some tf.id) pos key = .ok ((locIdx L f key pos).bind fun i => (L[i]?).map Tree.id) := by
  have hflt := (List.getElem?_eq_some_iff.1 hf).1
  have hne : L ≠ [] := by intro h; simp [h] at hflt
  by_cases h0 : pos = 0
  · subst h0
    obtain ⟨tl, htl⟩ := getElem?_last hne
    have hlast : s.lastOf s.fuel tf.id = .ok tl.id := by
      rw [lastOf_real hL s.fuel f tf hf (by omega), htl]; rfl
    have hrec := Real.rec_tree hL htl
    simp only [Store.locate, ↓reduceIte, hlast, Res.bind_ok, Store.get_ok ⟨hrec, rfl⟩, recOf]
    have hnn : (L.map Tree.name) ≠ [] := by simpa using hne
    have hlm := last_match_eq key (L.map Tree.name) hnn
    simp only [List.length_map, List.getElem?_map, htl, Option.map_some, Option.some.injEq] at hlm
    simp only [locIdx, Int.lt_irrefl, ↓reduceIte, namesakes]
    rw [← hlm]
    by_cases hn : tl.name = key
    · simp [hn, htl]
    · simp only [hn, ↓reduceIte]
      have := locBack_real key hL s.fuel (L.length - 1) 1 tl htl (by omega)
      simpa [List.map_take] using this
  · by_cases hp : pos > 0
    · have hnl : ¬ pos < 0 := by omega
      simp only [Store.locate, h0, ↓reduceIte, hnl, locIdx, hp]
      rw [locFwd_real key hL s.fuel f pos.toNat tf hf (by omega), fwdFrom_eq, namesakes_from]
    · have hneg : pos < 0 := by omega
      simp only [Store.locate, h0, ↓reduceIte, hneg, locIdx, hp]
      rw [locBack_real key hL s.fuel f (-pos).toNat tf hf (by omega), bwd_eq, namesakes_before]
      simp


/-- from the first namesake at or behind `f` on, the namesakes are the namesakes from `f` on -/
theorem namesakes_from_head (L : Forest) (key : Name) (f a0 : Nat)
    (h : ((namesakes L key).filter (· ≥ f)).head? = some a0) :
    (namesakes L key).filter (· ≥ a0) = (namesakes L key).filter (· ≥ f) := by
  rw [namesakes_from] at h ⊢
  rw [namesakes_from]
  have hge : f ≤ a0 := midx_ge key _ f a0 (List.mem_of_mem_head? h)
  have := midx_head_drop key ((L.drop f).map Tree.name) f a0 h
  rw [← this, ← List.map_drop, List.drop_drop]
  have : f + (a0 - f) = a0 := by omega
  rw [this]

/-- the namesakes before the last namesake are all but the last -/
theorem namesakes_before_last (L : Forest) (key : Name) (aL : Nat) (h : (namesakes L key).getLast? = some aL) :
    (namesakes L key).filter (· < aL) = (namesakes L key).dropLast := by
  rw [namesakes_before]
  have := midx_last_take key (L.map Tree.name) 0 aL h
  simp only [Nat.sub_zero] at this
  simp only [namesakes]
  rw [this, List.dropLast_concat, List.map_take]

theorem reverse_dropLast_getElem? {A : List Nat} {k : Nat} (hk : 1 ≤ k) :
    (A.dropLast.reverse)[k - 1]? = if k < A.length then A[A.length - 1 - k]? else none := by
  by_cases h : k < A.length
  · simp only [h, ↓reduceIte]
    have hl : k - 1 < A.dropLast.reverse.length := by simp; omega
    rw [List.getElem?_eq_getElem hl, List.getElem_reverse]
    simp only [List.length_dropLast, List.getElem_dropLast]
    have : A.length - 1 - 1 - (k - 1) = A.length - 1 - k := by omega
    rw [List.getElem?_eq_getElem (by omega)]
    simp [this]
  · simp only [h, ↓reduceIte]
    apply List.getElem?_eq_none
    simp; omega

theorem namesakes_lt (L : Forest) (key : Name) : ∀ i ∈ namesakes L key, i < L.length := by
  intro i hi
  have := ((mem_midx key (L.map Tree.name) 0 i).1 hi).2
  have := (List.getElem?_eq_some_iff.1 this).1
  simpa using this


/-- where `node_insert(first, pos, x, node_locate)` (by name) ends up: one call of after/before at a list
    element at the index `nameIdx` names, or nothing at all when `nameIdx` is `none` -/
theorem nodeInsert_name {s : Store} {L : Forest} {par : Option Nat} {f x : Nat} {tf : Tree} {xn : Node} (pos : Int)
    (hL : Real s par none L) (hf : L[f]? = some tf) (hfuel : L.length ≤ s.fuel) (hx : s.Live x xn) :
    (∃ jt tt, L[jt]? = some tt ∧
      ((s.nodeInsert tf.id pos x true = s.gnodeAfter (some tt.id) x ∧ nameIdx L f xn.name pos = some (jt + 1)) ∨
       (s.nodeInsert tf.id pos x true = s.gnodeBefore (some tt.id) x ∧ nameIdx L f xn.name pos = some jt))) ∨
    (s.nodeInsert tf.id pos x true = .ok s ∧ nameIdx L f xn.name pos = none) := by
  have hflt := (List.getElem?_eq_some_iff.1 hf).1
  have hne : L ≠ [] := by intro h; simp [h] at hflt
  obtain ⟨tl, htl⟩ := getElem?_last hne
  have hlast : s.lastOf s.fuel tf.id = .ok tl.id := by
    rw [lastOf_real hL s.fuel f tf hf (by omega), htl]; rfl
  have hl0 : s.gnodePos (some tf.id) 0 = .ok (some tl.id) := by simp [Store.gnodePos, hlast]
  -- the name lookups
  have hget : ∀ (j : Nat) (tj : Tree) (p : Int), L[j]? = some tj →
      s.getnode true x (some tj.id) p = .ok ((locIdx L j xn.name p).bind fun i => (L[i]?).map Tree.id) := by
    intro j tj p hj
    simp only [Store.getnode, ↓reduceIte, Store.get_ok hx, Res.bind_ok]
    exact locate_real xn.name p hL hj hfuel
  have hidx : ∀ i ∈ namesakes L xn.name, ∃ ti, L[i]? = some ti := by
    intro i hi
    exact ⟨L[i]'(namesakes_lt L xn.name i hi), List.getElem?_eq_getElem _⟩
  -- abbreviations of the spec
  have hA0 : locIdx L f xn.name 0 = (namesakes L xn.name).getLast? := by simp [locIdx]
  have hF1 : locIdx L f xn.name 1 = ((namesakes L xn.name).filter (· ≥ f))[0]? := by simp [locIdx]
  by_cases h0 : pos = 0
  · subst h0
    cases hA : (namesakes L xn.name).getLast? with
    | none =>
      have hAnil : namesakes L xn.name = [] := List.getLast?_eq_none_iff.1 hA
      left
      refine ⟨L.length - 1, tl, htl, Or.inl ⟨?_, ?_⟩⟩
      · simp [Store.nodeInsert, hget f tf 0 hf, hA0, hA, hl0]
      · simp only [nameIdx, Int.lt_irrefl, ↓reduceIte, hAnil]
        congr 1; omega
    | some aL =>
      obtain ⟨tL, htL⟩ := hidx aL (List.mem_of_getLast? hA)
      have hAne : namesakes L xn.name ≠ [] := by intro h; simp [h] at hA
      left
      refine ⟨aL, tL, htL, Or.inl ⟨?_, ?_⟩⟩
      · simp [Store.nodeInsert, hget f tf 0 hf, hA0, hA, htL]
      · simp only [nameIdx, Int.lt_irrefl, ↓reduceIte]
        cases hAl : namesakes L xn.name with
        | nil => exact absurd hAl hAne
        | cons a as =>
          simp only [Int.neg_zero, Int.toNat_zero, List.length_cons, Nat.zero_lt_succ, ↓reduceIte, Nat.sub_zero,
            Nat.add_sub_cancel]
          rw [hAl, List.getLast?_eq_getElem?] at hA
          simp only [List.length_cons, Nat.add_sub_cancel] at hA
          rw [hA]; rfl
  by_cases hp : pos > 0
  · -- start = first namesake from `first` on
    have hstart := hget f tf 1 hf
    rw [hF1] at hstart
    cases hF : ((namesakes L xn.name).filter (· ≥ f))[0]? with
    | none =>
      have hFnil : (namesakes L xn.name).filter (· ≥ f) = [] := by
        cases hq : (namesakes L xn.name).filter (· ≥ f) with
        | nil => rfl
        | cons a as => rw [hq] at hF; simp at hF
      left
      refine ⟨L.length - 1, tl, htl, Or.inl ⟨?_, ?_⟩⟩
      · simp [Store.nodeInsert, hp, hstart, hF, hl0]
      · simp only [nameIdx, hp, ↓reduceIte, hFnil]
        congr 1; omega
    | some a0 =>
      have ha0mem : a0 ∈ (namesakes L xn.name).filter (· ≥ f) := List.mem_of_getElem? hF
      have ha0A : a0 ∈ namesakes L xn.name := (List.mem_filter.1 ha0mem).1
      obtain ⟨t0, ht0⟩ := hidx a0 ha0A
      have hFne : (namesakes L xn.name).filter (· ≥ f) ≠ [] := by intro h; rw [h] at ha0mem; simp at ha0mem
      by_cases h1 : pos = 1
      · subst h1
        left
        refine ⟨a0, t0, ht0, Or.inr ⟨?_, ?_⟩⟩
        · simp [Store.nodeInsert, hstart, hF, ht0]
        · simp only [nameIdx, Int.one_pos, ↓reduceIte]
          cases hq : (namesakes L xn.name).filter (· ≥ f) with
          | nil => exact absurd hq hFne
          | cons a as =>
            rw [hq] at hF
            simp at hF
            simp [hF]
      · -- pos ≥ 2: the pos-th namesake from `first` on
        have hn1 : ¬ pos < 1 := by omega
        have hnl : ¬ pos < 0 := by omega
        have hneg1 : -pos < 1 := by omega
        have hhead : ((namesakes L xn.name).filter (· ≥ f)).head? = some a0 := by
          rw [List.head?_eq_getElem?]; exact hF
        have htmp := hget a0 t0 pos ht0
        have hloc2 : locIdx L a0 xn.name pos = ((namesakes L xn.name).filter (· ≥ f))[pos.toNat - 1]? := by
          simp only [locIdx, hp, ↓reduceIte]
          rw [namesakes_from_head L xn.name f a0 hhead]
        rw [hloc2] at htmp
        cases hT : ((namesakes L xn.name).filter (· ≥ f))[pos.toNat - 1]? with
        | some i =>
          have himem : i ∈ namesakes L xn.name := (List.mem_filter.1 (List.mem_of_getElem? hT)).1
          obtain ⟨ti, hti⟩ := hidx i himem
          left
          refine ⟨i, ti, hti, Or.inr ⟨?_, ?_⟩⟩
          · simp [Store.nodeInsert, hp, hstart, hF, ht0, h0, h1, htmp, hT, hti, hn1]
          · simp only [nameIdx, hp, ↓reduceIte]
            cases hq : (namesakes L xn.name).filter (· ≥ f) with
            | nil => exact absurd hq hFne
            | cons a as => rw [hq] at hT; simp [hT]
        | none =>
          have hAne : namesakes L xn.name ≠ [] := by intro h; rw [h] at ha0A; simp at ha0A
          obtain ⟨aL, hAL⟩ : ∃ aL, (namesakes L xn.name).getLast? = some aL := by
            cases hq : (namesakes L xn.name).getLast? with
            | none => exact absurd (List.getLast?_eq_none_iff.1 hq) hAne
            | some a => exact ⟨a, rfl⟩
          obtain ⟨tL, htL⟩ := hidx aL (List.mem_of_getLast? hAL)
          have hlast0 := hget f tf 0 hf
          rw [hA0, hAL] at hlast0
          left
          refine ⟨aL, tL, htL, Or.inl ⟨?_, ?_⟩⟩
          · simp [Store.nodeInsert, hp, hstart, hF, ht0, h0, h1, htmp, hT, hnl, hlast0, htL, hneg1]
          · simp only [nameIdx, hp, ↓reduceIte]
            cases hq : (namesakes L xn.name).filter (· ≥ f) with
            | nil => exact absurd hq hFne
            | cons a as => rw [hq] at hT; simp [hT, hAL]
  · -- pos < 0
    have hneg : pos < 0 := by omega
    have hlt1 : pos < 1 := by omega
    have hnn : ¬ (-pos < 1) := by omega
    have hk1 : 1 ≤ (-pos).toNat := by omega
    have hne1 : ¬ pos = 1 := by omega
    have hstart := hget f tf 0 hf
    rw [hA0] at hstart
    cases hA : (namesakes L xn.name).getLast? with
    | none =>
      have hAnil : namesakes L xn.name = [] := List.getLast?_eq_none_iff.1 hA
      left
      refine ⟨L.length - 1, tl, htl, Or.inl ⟨?_, ?_⟩⟩
      · simp [Store.nodeInsert, hp, hstart, hA, hl0]
      · simp only [nameIdx, hp, ↓reduceIte, hAnil]
        congr 1; omega
    | some aL =>
      obtain ⟨tL, htL⟩ := hidx aL (List.mem_of_getLast? hA)
      have hAne : namesakes L xn.name ≠ [] := by intro h; simp [h] at hA
      have htmp := hget aL tL pos htL
      have hloc2 : locIdx L aL xn.name pos =
          if (-pos).toNat < (namesakes L xn.name).length then
            (namesakes L xn.name)[(namesakes L xn.name).length - 1 - (-pos).toNat]? else none := by
        simp only [locIdx, hp, ↓reduceIte, h0]
        rw [namesakes_before_last L xn.name aL hA, reverse_dropLast_getElem? hk1]
      rw [hloc2] at htmp
      by_cases hk : (-pos).toNat < (namesakes L xn.name).length
      · have hlt : (namesakes L xn.name).length - 1 - (-pos).toNat < (namesakes L xn.name).length := by omega
        obtain ⟨i, hi⟩ : ∃ i, (namesakes L xn.name)[(namesakes L xn.name).length - 1 - (-pos).toNat]? = some i :=
          ⟨_, List.getElem?_eq_getElem hlt⟩
        obtain ⟨ti, hti⟩ := hidx i (List.mem_of_getElem? hi)
        simp only [hk, ↓reduceIte, hi] at htmp
        left
        refine ⟨i, ti, hti, Or.inl ⟨?_, ?_⟩⟩
        · simp [Store.nodeInsert, hp, hstart, hA, htL, h0, hne1, htmp, hti, hlt1]
        · simp only [nameIdx, hp, ↓reduceIte]
          cases hq : namesakes L xn.name with
          | nil => exact absurd hq hAne
          | cons a as =>
            rw [hq] at hk hi
            simp only [hk, ↓reduceIte, hi, Option.map_some]
      · simp only [hk, ↓reduceIte] at htmp
        have hfirst := hget f tf 1 hf
        rw [hF1] at hfirst
        cases hF : ((namesakes L xn.name).filter (· ≥ f))[0]? with
        | some a =>
          have hamem : a ∈ namesakes L xn.name := (List.mem_filter.1 (List.mem_of_getElem? hF)).1
          obtain ⟨ta, hta⟩ := hidx a hamem
          left
          refine ⟨a, ta, hta, Or.inr ⟨?_, ?_⟩⟩
          · simp [Store.nodeInsert, hp, hstart, hA, htL, h0, hne1, htmp, hneg, hfirst, hF, hta, hnn]
          · simp only [nameIdx, hp, ↓reduceIte]
            cases hq : namesakes L xn.name with
            | nil => exact absurd hq hAne
            | cons b bs =>
              rw [hq] at hk hF
              simp only [hk, ↓reduceIte]
              rw [List.head?_eq_getElem?]; exact hF
        | none =>
          right
          refine ⟨?_, ?_⟩
          · simp [Store.nodeInsert, hp, hstart, hA, htL, h0, hne1, htmp, hneg, hfirst, hF, hnn, Store.gnodeBefore]
          · simp only [nameIdx, hp, ↓reduceIte]
            cases hq : namesakes L xn.name with
            | nil => exact absurd hq hAne
            | cons b bs =>
              rw [hq] at hk hF
              simp only [hk, ↓reduceIte]
              rw [List.head?_eq_getElem?]; exact hF


/-- `mpt_node_add(first, pos, x)` (by name) with `x` a detached root: `x` is placed in the sibling list of `first`
    at the index `nameIdx` names; nothing happens where `nameIdx` is `none` -/
theorem add_name_refines {s : Store} {first x f : Nat} {n' : Name} {v' : Val} {cs' l0 L : Forest} {rest : List Forest}
    {par : Option Nat} (pos : Int)
    (hR : Realises s ([.node x n' v' cs'] :: l0 :: rest)) (hat : SibsAt first l0 L f par) :
    ∃ s', s.add first pos x true = .ok s' ∧
      Realises s' (match nameIdx L f n' pos with
        | some k => applyAt par (fun L' => L'.insertIdx k (.node x n' v' cs')) l0 :: rest
        | none => [.node x n' v' cs'] :: l0 :: rest) := by
  have hT := (hR.real [.node x n' v' cs'] (by simp)).2
  rw [Real_cons] at hT
  have hl0 := hR.real l0 (by simp)
  have hnd := hR.nodup
  simp only [List.flatMap_cons, ids_cons, ids_nil, List.append_nil] at hnd
  have hnd0 : (ids l0).Nodup := by
    have := (List.nodup_append.1 hnd).2.1
    exact (List.nodup_append.1 this).1
  have hLr := hat.real hl0.2
  have hLnd := hat.nodup hnd0
  obtain ⟨tf, htf, htfid⟩ := getElem?_of_idx? hat.idx
  have hfuel : L.length ≤ s.fuel := by
    have h1 := hR.cost_le (l := l0) (by simp)
    rw [cost_eq] at h1
    obtain ⟨A, B, h2, _⟩ := hat.ids_split hnd0
    have h3 := length_le_ids L
    have : (ids L).length ≤ (ids l0).length := by rw [h2]; simp; omega
    simp only [Store.fuel]
    omega
  have hx : s.Live x (recOf (headId []) none none cs' n' v') := ⟨hT.1, rfl⟩
  subst htfid
  rcases nodeInsert_name (x := x) pos hLr htf hfuel hx with ⟨jt, tt, htt, hcase⟩ | ⟨heq, hidx⟩
  · have hat' := hat.with_idx (idx?_of_getElem? hLnd htt)
    rcases hcase with ⟨heq, hidx⟩ | ⟨heq, hidx⟩
    · obtain ⟨s', hs', hr⟩ := after_refines hR hat'
      simp only [recOf] at hidx
      exact ⟨s', by simp only [Store.add]; rw [heq]; exact hs', by rw [hidx]; exact hr⟩
    · obtain ⟨s', hs', hr⟩ := before_refines hR hat'
      simp only [recOf] at hidx
      exact ⟨s', by simp only [Store.add]; rw [heq]; exact hs', by rw [hidx]; exact hr⟩
  · simp only [recOf] at hidx
    exact ⟨s, by simp only [Store.add]; exact heq, by rw [hidx]; exact hR⟩

/-- `mpt_node_insert(parent, pos, x)` (by name) for a parent that has children -/
theorem insert_name_refines {s : Store} {parent x : Nat} {n' : Name} {v' : Val} {cs' l0 : Forest} {rest : List Forest}
    {tp : Tree} (pos : Int)
    (hR : Realises s ([.node x n' v' cs'] :: l0 :: rest)) (hf : find? parent l0 = some tp) (hne : tp.children ≠ []) :
    ∃ s', s.insert parent pos x true = .ok s' ∧
      Realises s' (match nameIdx tp.children 0 n' pos with
        | some k => modKids parent (fun L' => L'.insertIdx k (.node x n' v' cs')) l0 :: rest
        | none => [.node x n' v' cs'] :: l0 :: rest) := by
  have hl0 := hR.real l0 (by simp)
  obtain ⟨⟨nx, pv, pr, hprec⟩, _⟩ := Real.of_find hl0.2 hf
  cases hk : tp.children with
  | nil => exact absurd hk hne
  | cons c cs =>
    cases c with
    | node ci cn cv ccs =>
      have hidx : idx? ci tp.children = some 0 := by rw [hk, idx?_cons]; simp
      have hat : SibsAt ci l0 tp.children 0 (some parent) := SibsAt.kids hf hidx
      obtain ⟨s', hs', hr⟩ := add_name_refines pos hR hat
      refine ⟨s', ?_, ?_⟩
      · simp only [Store.insert, Store.get_ok ⟨hprec, rfl⟩, Res.bind_ok]
        simp only [hk, headId_cons]
        exact hs'
      · rw [← hk]
        cases hq : nameIdx tp.children 0 n' pos with
        | none => simpa [hq] using hr
        | some k => simpa [hq, applyAt] using hr

/-- `mpt_node_locate(first, pos, name)` on a well-formed store returns the element `locIdx` names -/
theorem locate_refines {s : Store} {first f : Nat} {l0 L : Forest} {rest : List Forest} {par : Option Nat}
    (key : Name) (pos : Int) (hR : Realises s (l0 :: rest)) (hat : SibsAt first l0 L f par) :
    s.locate (some first) pos key = .ok ((locIdx L f key pos).bind fun i => (L[i]?).map Tree.id) := by
  have hl0 := hR.real l0 (by simp)
  have hnd := hR.nodup
  simp only [List.flatMap_cons] at hnd
  have hnd0 : (ids l0).Nodup := (List.nodup_append.1 hnd).1
  obtain ⟨tf, htf, htfid⟩ := getElem?_of_idx? hat.idx
  have hfuel : L.length ≤ s.fuel := by
    have h1 := hR.cost_le (l := l0) (by simp)
    rw [cost_eq] at h1
    obtain ⟨A, B, h2, _⟩ := hat.ids_split hnd0
    have h3 := length_le_ids L
    have : (ids L).length ≤ (ids l0).length := by rw [h2]; simp; omega
    simp only [Store.fuel]
    omega
  subst htfid
  exact locate_real key pos (hat.real hl0.2) htf hfuel

end Mpt.Nodes
