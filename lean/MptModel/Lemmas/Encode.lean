/-
  Refinement lemmas: the encoder model (Impl/Encode.lean) against the reference encoder of Spec/Cobs.lean
  for the framings without zero pair elimination (core Lean only).
-/
import MptModel.Impl.Encode
import MptModel.Lemmas.Cobs
namespace Mpt.Codec
open Mpt.Cobs

/-- reference encoder blocks for an unmarked message -/
def encN (v : Variant) (run : List Byte) (m : List Byte) : List Byte :=
  encB v run false (m.map fun b => (b, false))

theorem enc_eq_encN (v : Variant) (m : List Byte) : enc v m = encN v [] m ++ [0] := rfl

theorem pairOk_nozpe (v : Variant) (hz : v.isZpe = false) (run : List Byte) : pairOk v run = false := by
  simp [pairOk, hz]

theorem encN_nil (v : Variant) (run : List Byte) : encN v run [] = finalBlock v run := by
  simp [encN, encB]

theorem encN_zero (v : Variant) (hz : v.isZpe = false) (run rest : List Byte) :
    encN v run (0 :: rest) = codeOf run :: (run ++ encN v [] rest) := by
  simp [encN, encB, pairOk_nozpe v hz]

theorem encN_full (v : Variant) (run rest : List Byte) (b : Byte) (hb : b ≠ 0) (h : run.length + 2 = v.maxlen) :
    encN v run (b :: rest) = UInt8.ofNat v.maxlen :: ((run ++ [b]) ++ encN v [] rest) := by
  simp [encN, encB, hb, h]

theorem encN_data (v : Variant) (run rest : List Byte) (b : Byte) (hb : b ≠ 0) (h : run.length + 2 ≠ v.maxlen) :
    encN v run (b :: rest) = encN v (run ++ [b]) rest := by
  simp [encN, encB, hb, h]

/-! list facts about single byte stores -/
theorem wr_ok (w : List Byte) (i : Nat) (b : Byte) (h : i < w.length) : wr w i b = .ok (w.set i b) := by
  simp [wr, h]

theorem take_set_ge (w : List Byte) (i n : Nat) (b : Byte) (h : n ≤ i) : (w.set i b).take n = w.take n := by
  rw [List.take_set]; 
  rw [List.set_eq_of_length_le]; simp; omega

theorem take_succ_set (w : List Byte) (i : Nat) (b : Byte) (h : i < w.length) :
    (w.set i b).take (i + 1) = w.take i ++ [b] := by
  apply List.ext_getElem?
  intro k
  simp [List.getElem?_take, List.getElem?_set, List.getElem?_append]
  grind

theorem take_set_mid (w : List Byte) (n : Nat) (pre : List Byte) (ph x : Byte) (tl : List Byte)
    (h : w.take n = pre ++ ph :: tl) : (w.set pre.length x).take n = pre ++ x :: tl := by
  rw [List.take_set, h]; simp


theorem take_succ_ex (w : List Byte) (n : Nat) (h : n < w.length) : ∃ x, w.take (n + 1) = w.take n ++ [x] :=
  ⟨w[n], by rw [List.take_add_one]; simp [h]⟩

/-- what the data loop guarantees when it stops -/
def LoopPost (v : Variant) (w : List Byte) (dst : Nat) (pre run bs : List Byte) (o : LoopOut) : Prop :=
  o.win.length = w.length ∧ o.rem ≤ bs.length ∧ (dst + 2 * bs.length < w.length → o.rem = 0) ∧
  o.dst + 2 * o.rem ≤ dst + 2 * bs.length ∧
  ∃ fin' run', o.code = run'.length + 1 ∧ run'.length + 1 < v.maxlen ∧
    o.dst = pre.length + fin'.length + o.code ∧ o.dst ≤ w.length ∧
    o.win.take o.dst = pre ++ fin' ++ codeOf run' :: run' ∧
    (∀ rest, encN v run (bs.take (bs.length - o.rem) ++ rest) = fin' ++ encN v run' rest)

theorem LoopPost.cons {v : Variant} {w w1 : List Byte} {dst dst1 : Nat} {pre delta run run1 rest : List Byte} {b : Byte}
    {o : LoopOut} (h : LoopPost v w1 dst1 (pre ++ delta) run1 rest o) (hl : w1.length = w.length)
    (hd : dst1 ≤ dst + 2)
    (hs : ∀ r, encN v run (b :: r) = delta ++ encN v run1 r) :
    LoopPost v w dst pre run (b :: rest) o := by
  obtain ⟨h1, h2, h3, h3b, fin', run', h4, h5, h6, h7, h8, h9⟩ := h
  refine ⟨by omega, by simp; omega, ?_, by simp; omega, delta ++ fin', run', h4, h5, ?_, by omega, ?_, ?_⟩
  · intro ha; apply h3; simp at ha; omega
  · simp at h6 ⊢; omega
  · simpa using h8
  · intro r
    have : (b :: rest).take ((b :: rest).length - o.rem) = b :: rest.take (rest.length - o.rem) := by
      have : (b :: rest).length - o.rem = (rest.length - o.rem) + 1 := by simp; omega
      rw [this]; rfl
    rw [this]
    simp only [List.cons_append]
    rw [hs, h9]; simp

theorem encLoop_spec (v : Variant) (hz : v.isZpe = false) (bs : List Byte) :
    ∀ (w : List Byte) (dst code : Nat) (pre : List Byte) (ph : Byte) (run : List Byte),
      w.take dst = pre ++ ph :: run → code = run.length + 1 → dst < w.length → run.length + 1 < v.maxlen →
      ∃ o, encLoop v w dst code false bs = .ok o ∧ LoopPost v w dst pre run bs o := by
  induction bs with
  | nil =>
    intro w dst code pre ph run hw hc hd hr
    have hlen : dst = pre.length + 1 + run.length := by
      have := congrArg List.length hw; simp at this; omega
    have hi : dst - code = pre.length := by omega
    refine ⟨⟨w.set pre.length (UInt8.ofNat code), dst, code, 0⟩, ?_, ?_⟩
    · simp only [encLoop, hi]
      rw [wr_ok _ _ _ (by omega)]; rfl
    · refine ⟨by simp, by simp, by simp, by simp, [], run, hc, hr, by simp; omega, by simp; omega, ?_, by simp⟩
      simp only [List.append_nil]
      rw [take_set_mid w dst pre ph _ run hw, hc]; rfl
  | cons b rest ih =>
    intro w dst code pre ph run hw hc hd hr
    have hm := v.maxlen_cases
    have hlen : dst = pre.length + 1 + run.length := by
      have := congrArg List.length hw; simp at this; omega
    have hi : dst - code = pre.length := by omega
    by_cases hb : b = 0
    · subst hb
      -- zero byte: close the block
      have hpair : (v.isZpe && decide (1 < code) && decide (code < 32) && (rest.head? == some 0)) = false := by simp [hz]
      have hw1 : (w.set pre.length (UInt8.ofNat code)).take dst = pre ++ codeOf run :: run := by
        rw [take_set_mid w dst pre ph _ run hw, hc]; rfl
      by_cases hfull : dst + 1 = w.length
      · refine ⟨⟨(w.set pre.length (UInt8.ofNat code)).set dst 1, dst + 1, 1, rest.length⟩, ?_, ?_⟩
        · simp only [encLoop, if_true, hpair, hi, Bool.false_eq_true, if_false]
          rw [wr_ok _ _ _ (by omega)]
          simp only [CRes.bind_ok, List.length_set, hfull, if_true]
          rw [wr_ok _ _ _ (by simp; omega)]; rfl
        · refine ⟨by simp, by simp, by simp; omega, by simp; omega, codeOf run :: run, [], rfl, by simp; omega, ?_, by simp; omega, ?_, ?_⟩
          · simp only [List.length_cons]; omega
          · simp only
            rw [take_succ_set _ _ _ (by simp; omega), hw1]; simp [codeOf]
          · intro r
            simp only [List.length_cons, Nat.add_sub_cancel_left, show rest.length + 1 - rest.length = 1 by omega]
            simp only [List.take_succ_cons, List.take_zero, List.cons_append, List.nil_append]
            rw [encN_zero v hz]
      · have hd1 : dst + 1 < (w.set pre.length (UInt8.ofNat code)).length := by simp; omega
        obtain ⟨ph', hw2⟩ := take_succ_ex (w.set pre.length (UInt8.ofNat code)) dst (by simp; omega)
        rw [hw1] at hw2
        obtain ⟨o, ho, hp⟩ := ih (w.set pre.length (UInt8.ofNat code)) (dst + 1) 1 (pre ++ codeOf run :: run) ph' [] hw2 rfl hd1 (by simp; omega)
        refine ⟨o, ?_, ?_⟩
        · simp only [encLoop, if_true, hpair, hi, Bool.false_eq_true, if_false]
          rw [wr_ok _ _ _ (by omega)]
          simp only [CRes.bind_ok, List.length_set, hfull, if_false]
          exact ho
        · exact LoopPost.cons hp (by simp) (by omega) (fun r => by rw [encN_zero v hz]; simp)
    · -- data byte
      have hw1 : (w.set dst b).take (dst + 1) = pre ++ ph :: (run ++ [b]) := by
        rw [take_succ_set _ _ _ hd, hw]; simp
      have hw0 : (w.set dst b).take dst = pre ++ ph :: run := by rw [take_set_ge _ _ _ _ (Nat.le_refl _), hw]
      have hrun : run.length + 2 = v.maxlen ↔ code + 1 = v.maxlen := by omega
      by_cases hmax : code + 1 = v.maxlen
      · by_cases hfull : dst + 1 = w.length
        · -- unable to save continuation state
          refine ⟨⟨(w.set dst b).set pre.length (UInt8.ofNat code), dst, code, rest.length + 1⟩, ?_, ?_⟩
          · simp only [encLoop, hb, if_false, hmax, if_true, hi]
            rw [wr_ok _ _ _ hd]
            simp only [CRes.bind_ok]
            rw [if_pos hfull, wr_ok _ _ _ (by simp; omega)]; rfl
          · refine ⟨by simp, by simp, by simp; omega, by simp, [], run, hc, hr, by simp; omega, by simp; omega, ?_, ?_⟩
            · simp only [List.append_nil]
              rw [take_set_mid _ dst pre ph _ run hw0, hc]; rfl
            · intro r; simp
        · have hw2 : ((w.set dst b).set pre.length (UInt8.ofNat (code + 1))).take (dst + 1)
              = pre ++ UInt8.ofNat v.maxlen :: (run ++ [b]) := by
            rw [take_set_mid _ (dst + 1) pre ph _ (run ++ [b]) hw1, hmax]
          have hspec : ∀ r, encN v run (b :: r) = (UInt8.ofNat v.maxlen :: (run ++ [b])) ++ encN v [] r := by
            intro r; rw [encN_full v run r b hb (hrun.mpr hmax)]; simp
          by_cases hfull2 : dst + 2 = w.length
          · refine ⟨⟨((w.set dst b).set pre.length (UInt8.ofNat (code + 1))).set (dst + 1) 1, dst + 2, 1, rest.length⟩, ?_, ?_⟩
            · simp only [encLoop, hb, if_false, hmax, if_true, hfull, hi]
              rw [wr_ok _ _ _ hd]
              simp only [CRes.bind_ok]
              rw [← hmax, wr_ok _ _ _ (by simp; omega)]
              simp only [CRes.bind_ok]
              rw [if_pos hfull2, wr_ok _ _ _ (by simp; omega)]; rfl
            · refine ⟨by simp, by simp, by simp; omega, by simp; omega, UInt8.ofNat v.maxlen :: (run ++ [b]), [], rfl, by simp; omega, ?_, by simp; omega, ?_, ?_⟩
              · simp only [List.length_cons, List.length_append, List.length_nil]; omega
              · simp only
                rw [take_succ_set _ _ _ (by simp; omega), hw2]; simp [codeOf]
              · intro r
                simp only [List.length_cons, show rest.length + 1 - rest.length = 1 by omega]
                simp only [List.take_succ_cons, List.take_zero, List.cons_append, List.nil_append]
                rw [hspec]; simp
          · obtain ⟨ph', hw3⟩ := take_succ_ex ((w.set dst b).set pre.length (UInt8.ofNat (code + 1))) (dst + 1) (by simp; omega)
            rw [hw2] at hw3
            obtain ⟨o, ho, hp⟩ := ih ((w.set dst b).set pre.length (UInt8.ofNat (code + 1))) (dst + 2) 1
              (pre ++ UInt8.ofNat v.maxlen :: (run ++ [b])) ph' [] hw3 rfl (by simp; omega) (by simp; omega)
            refine ⟨o, ?_, ?_⟩
            · simp only [encLoop, hb, if_false, hmax, if_true, hfull, hi]
              rw [wr_ok _ _ _ hd]
              simp only [CRes.bind_ok]
              rw [← hmax, wr_ok _ _ _ (by simp; omega)]
              simp only [CRes.bind_ok, hfull2, if_false]
              exact ho
            · exact LoopPost.cons hp (by simp) (by omega) hspec
      · have hspec : ∀ r, encN v run (b :: r) = [] ++ encN v (run ++ [b]) r := by
          intro r; rw [encN_data v run r b hb (by omega)]; simp
        by_cases hfull : dst + 1 = w.length
        · refine ⟨⟨(w.set dst b).set pre.length (UInt8.ofNat (code + 1)), dst + 1, code + 1, rest.length⟩, ?_, ?_⟩
          · simp only [encLoop, hb, if_false, hmax, hi]
            rw [wr_ok _ _ _ hd]
            simp only [CRes.bind_ok]
            rw [if_pos hfull, wr_ok _ _ _ (by simp; omega)]; rfl
          · refine ⟨by simp, by simp, by simp; omega, by simp; omega, [], run ++ [b], by simp; omega, by simp; omega, by simp; omega, by simp; omega, ?_, ?_⟩
            · simp only [List.append_nil]
              rw [take_set_mid _ (dst + 1) pre ph _ (run ++ [b]) hw1, hc]
              simp [codeOf]
            · intro r
              simp only [List.length_cons, show rest.length + 1 - rest.length = 1 by omega]
              simp only [List.take_succ_cons, List.take_zero, List.cons_append, List.nil_append]
              rw [hspec]; rfl
        · obtain ⟨o, ho, hp⟩ := ih (w.set dst b) (dst + 1) (code + 1) pre ph (run ++ [b]) hw1 (by simp; omega) (by simp; omega) (by simp; omega)
          refine ⟨o, ?_, ?_⟩
          · simp only [encLoop, hb, if_false, hmax, hfull, hi]
            rw [wr_ok _ _ _ hd]
            simp only [CRes.bind_ok]
            exact ho
          · have hp' : LoopPost v (w.set dst b) (dst + 1) (pre ++ []) (run ++ [b]) rest o := by simpa using hp
            exact LoopPost.cons hp' (by simp) (by omega) hspec


/-- window/state invariant while a message whose consumed prefix is `p` is being encoded behind the
    finished bytes `pre` -/
def EncInv (v : Variant) (st : EncState) (win pre p : List Byte) : Prop :=
  ∃ fin run, st.done = pre.length + fin.length ∧ run.length + 1 < v.maxlen ∧
    ((st.scratch = 0 ∧ run = [] ∧ fin = [] ∧ p = [] ∧ win.take st.done = pre ∧ st.done ≤ win.length) ∨
     (st.scratch = run.length + 1 ∧ win.take (st.done + st.scratch) = pre ++ fin ++ codeOf run :: run ∧
        st.done + st.scratch ≤ win.length)) ∧
    (∀ rest, encN v [] (p ++ rest) = fin ++ encN v run rest)

theorem EncInv.start (v : Variant) (st : EncState) (win pre : List Byte) (hs : st.scratch = 0)
    (hd : st.done = pre.length) (hw : win.take st.done = pre) (hl : st.done ≤ win.length) : EncInv v st win pre [] := by
  have := v.maxlen_cases
  exact ⟨[], [], by simp [hd], by simp; omega, Or.inl ⟨hs, rfl, rfl, rfl, hw, hl⟩, by simp⟩

/-- more window space does not disturb the invariant -/
theorem EncInv.grow {v : Variant} {st : EncState} {win pre p : List Byte} (h : EncInv v st win pre p) (ext : List Byte) :
    EncInv v st (win ++ ext) pre p := by
  obtain ⟨fin, run, h1, h2, h3, h4⟩ := h
  refine ⟨fin, run, h1, h2, ?_, h4⟩
  rcases h3 with ⟨a, b, c, d, e, f⟩ | ⟨a, b, c⟩
  · exact Or.inl ⟨a, b, c, d, by rw [List.take_append_of_le_length f]; exact e, by simp; omega⟩
  · exact Or.inr ⟨a, by rw [List.take_append_of_le_length c]; exact b, by simp; omega⟩

/-- one data call of `mpt_encode_cobs` (no zero pair elimination) -/
theorem encodeCobs_push (v : Variant) (hz : v.isZpe = false) (st : EncState) (win pre p bytes : List Byte)
    (h : EncInv v st win pre p) :
    (bytes = [] ∧ encodeCobs v st win (some bytes) = .err .BadValue) ∨
    (encodeCobs v st win (some bytes) = .err .MissingBuffer ∧ win.length ≤ st.done + st.scratch + 1) ∨
    ∃ o, encodeCobs v st win (some bytes) = .ok o ∧ o.win.length = win.length ∧ o.ret ≤ bytes.length ∧
      (st.done + st.scratch + 1 + 2 * bytes.length < win.length → o.ret = bytes.length) ∧
      o.st.done + o.st.scratch + 2 * (bytes.length - o.ret) ≤ st.done + st.scratch + 1 + 2 * bytes.length ∧
      EncInv v o.st o.win pre (p ++ bytes.take o.ret) := by
  obtain ⟨fin, run, h1, h2, h3, h4⟩ := h
  have hm := v.maxlen_cases
  have hsc : st.scratch % 256 = st.scratch := by
    rcases h3 with ⟨a, _⟩ | ⟨a, _⟩ <;> omega
  have hdl : st.done + st.scratch ≤ win.length := by
    rcases h3 with ⟨a, _, _, _, _, f⟩ | ⟨_, _, c⟩ <;> omega
  unfold encodeCobs
  simp only [hsc]
  rw [if_neg (by omega), if_neg (by omega)]
  by_cases hb : bytes.length = 0
  · left; rw [if_pos hb]; exact ⟨List.length_eq_zero_iff.mp hb, rfl⟩
  rw [if_neg hb]
  by_cases hg1 : st.scratch ≠ 0 ∧ win.length - st.done - st.scratch = 0
  · right; left; rw [if_pos hg1]; exact ⟨rfl, by omega⟩
  rw [if_neg hg1]
  by_cases hg2 : st.scratch = 0 ∧ win.length - st.done ≤ 1
  · right; left; rw [if_pos hg2]; exact ⟨rfl, by omega⟩
  rw [if_neg hg2]
  right; right
  -- set up the loop
  have hloop : ∃ ph code, code = (if st.scratch ≠ 0 then st.scratch else 1) ∧ code = run.length + 1 ∧
      win.take (st.done + code) = (pre ++ fin) ++ ph :: run ∧ st.done + code < win.length := by
    rcases h3 with ⟨a, b, c, d, e, f⟩ | ⟨a, b, c⟩
    · obtain ⟨ph, hph⟩ := take_succ_ex win st.done (by omega)
      refine ⟨ph, 1, by simp [a], by simp [b], ?_, by omega⟩
      rw [hph, e, b, c]; simp
    · refine ⟨codeOf run, st.scratch, by simp; omega, a, by rw [b], by omega⟩
  obtain ⟨ph, code, hc1, hc2, hc3, hc4⟩ := hloop
  obtain ⟨o, ho, hp1, hp2, hp3, hp3b, fin', run', hp4, hp5, hp6, hp7, hp8, hp9⟩ :=
    encLoop_spec v hz bytes win (st.done + code) code (pre ++ fin) ph run hc3 hc2 hc4 h2
  rw [← hc1, ho]
  have hcode : code ≤ st.scratch + 1 := by rw [hc1]; split <;> omega
  refine ⟨_, rfl, hp1, by simp, ?_, ?_, ?_⟩
  · intro ha
    have : o.rem = 0 := hp3 (by omega)
    simp [this]
  · simp only; omega
  · refine ⟨fin ++ fin', run', ?_, hp5, Or.inr ⟨hp4, ?_, ?_⟩, ?_⟩
    · simp only [List.length_append] at hp6 ⊢; omega
    · have : o.dst - o.code + o.code = o.dst := by omega
      simp only [this, hp8]; simp
    · simp only; omega
    · intro rest
      simp only
      rw [List.append_assoc, h4, hp9]; simp


/-- the two shapes of the window in `EncInv` -/
def Shape (st : EncState) (win pre fin run : List Byte) : Prop :=
  (st.scratch = 0 ∧ run = [] ∧ fin = [] ∧ win.take st.done = pre ∧ st.done ≤ win.length) ∨
  (st.scratch = run.length + 1 ∧ win.take (st.done + st.scratch) = pre ++ fin ++ codeOf run :: run ∧
     st.done + st.scratch ≤ win.length)

/-- what a successful termination leaves behind: `frame` appended to `pre` -/
def TermPost (win pre frame : List Byte) (o : EncOut) : Prop :=
  o.win.length = win.length ∧ o.st.scratch = 0 ∧ o.ret = 0 ∧ o.st.done = (pre ++ frame).length ∧
  o.st.done ≤ win.length ∧ o.win.take o.st.done = pre ++ frame

/-- regular termination: the open block gets its code and the delimiter -/
theorem encodeCobs_term_raw (v : Variant) (st : EncState) (win pre fin run : List Byte)
    (h1 : st.done = pre.length + fin.length) (h2 : run.length + 1 < v.maxlen) (h3 : Shape st win pre fin run) :
    (encodeCobs v st win none = .err .MissingBuffer ∧ win.length ≤ st.done + st.scratch + 1) ∨
    ∃ o, encodeCobs v st win none = .ok o ∧ TermPost win pre (fin ++ codeOf run :: run ++ [0]) o := by
  have hm := v.maxlen_cases
  have hsc : st.scratch % 256 = st.scratch := by
    rcases h3 with ⟨a, _⟩ | ⟨a, _⟩ <;> omega
  have hdl : st.done + st.scratch ≤ win.length := by
    rcases h3 with ⟨a, _, _, _, f⟩ | ⟨_, _, c⟩ <;> omega
  unfold encodeCobs
  simp only [hsc]
  rw [if_neg (by omega), if_neg (by omega)]
  by_cases hg : st.scratch ≥ win.length - st.done
  · left; rw [if_pos hg]; exact ⟨rfl, by omega⟩
  rw [if_neg hg]
  rcases h3 with ⟨a, b, c, e, f⟩ | ⟨a, b, c⟩
  · rw [if_pos a]
    by_cases hg2 : win.length - st.done < 2
    · left; rw [if_pos hg2]; exact ⟨rfl, by omega⟩
    rw [if_neg hg2]
    right
    subst b c
    rw [wr_ok _ _ _ (by omega)]
    simp only [CRes.bind_ok]
    rw [wr_ok _ _ _ (by simp; omega)]
    refine ⟨_, rfl, by simp, rfl, rfl, by simp at h1 ⊢; omega, by simp; omega, ?_⟩
    simp only
    rw [take_succ_set _ _ _ (by simp; omega), take_succ_set _ _ _ (by omega), e]
    simp [codeOf]
  · rw [if_neg (by omega)]
    right
    have hw1 : (win.set st.done (UInt8.ofNat st.scratch)).take (st.done + st.scratch) = pre ++ fin ++ codeOf run :: run := by
      have := take_set_mid win (st.done + st.scratch) (pre ++ fin) (codeOf run) (UInt8.ofNat st.scratch) run b
      simp only [List.length_append, ← h1] at this
      rw [this, a]; rfl
    rw [wr_ok _ _ _ (by omega)]
    simp only [CRes.bind_ok]
    rw [wr_ok _ _ _ (by simp; omega)]
    refine ⟨_, rfl, by simp, rfl, rfl, by simp at h1 ⊢; omega, by simp; omega, ?_⟩
    simp only
    rw [take_succ_set _ _ _ (by simp; omega), hw1]
    simp

theorem byte_le_255 (e : Byte) : e.toNat ≤ 255 := by
  have := UInt8.toNat_lt e; omega

/-- COBS/R termination -/
theorem encodeCobsR_term_raw (v : Variant) (hz : v.isZpe = false) (ht : v.tail = true) (st : EncState)
    (win pre fin run : List Byte)
    (h1 : st.done = pre.length + fin.length) (h2 : run.length + 1 < v.maxlen) (h3 : Shape st win pre fin run) :
    (encodeCobsR v st win none = .err .MissingBuffer ∧ win.length ≤ st.done + st.scratch + 1) ∨
    ∃ o, encodeCobsR v st win none = .ok o ∧ TermPost win pre (fin ++ finalBlock v run ++ [0]) o := by
  have hm := v.nozpe_maxlen hz
  unfold encodeCobsR
  by_cases hs : st.scratch = 0
  · rw [if_pos (Or.inr hs)]
    have := encodeCobs_term_raw v st win pre fin run h1 h2 h3
    rcases h3 with ⟨a, b, c, e, f⟩ | ⟨a, b, c⟩
    · subst b; simpa [finalBlock, codeOf] using this
    · omega
  · rw [if_neg (by simp [hs])]
    rcases h3 with ⟨a, _⟩ | ⟨a, b, c⟩
    · omega
    simp only
    rw [if_neg (by omega)]
    rcases List.eq_nil_or_concat run with hr | ⟨rd, e, hr⟩
    · -- empty open block: no inlining
      subst hr
      have hsc : st.scratch = 1 := by simpa using a
      simp only [hsc, show ¬ (1 > 1) by omega, if_false, CRes.pure_eq, CRes.bind_ok]
      by_cases hg : win.length - st.done ≤ 1
      · left; rw [if_pos hg]; exact ⟨rfl, by omega⟩
      rw [if_neg hg]; right
      have hw1 : (win.set st.done (UInt8.ofNat 1)).take (st.done + 1) = pre ++ fin ++ [1] := by
        have := take_set_mid win (st.done + st.scratch) (pre ++ fin) (codeOf []) (UInt8.ofNat 1) [] b
        simp only [List.length_append, ← h1, hsc] at this
        rw [this]; rfl
      rw [wr_ok _ _ _ (by omega)]
      simp only [CRes.bind_ok]
      rw [wr_ok _ _ _ (by simp; omega)]
      refine ⟨_, rfl, by simp, rfl, rfl, by simp [finalBlock] at h1 ⊢; omega, by simp; omega, ?_⟩
      simp only
      rw [take_succ_set _ _ _ (by simp; omega), hw1]
      simp [finalBlock]
    · subst hr
      have hsc : st.scratch = rd.length + 2 := by simpa using a
      have hlast : win[st.done + st.scratch - 1]? = some e := by
        have h5 : (win.take (st.done + st.scratch))[st.done + st.scratch - 1]? = some e := by
          rw [b]
          have : st.done + st.scratch - 1 = (pre ++ fin ++ codeOf (rd.concat e) :: rd).length := by simp; omega
          rw [this]; simp
        rw [List.getElem?_take] at h5
        split at h5
        · exact h5
        · simp at h5
      rw [if_pos (by omega)]
      simp only [Mpt.Codec.rd, hlast, CRes.bind_ok, CRes.pure_eq]
      have hfb : finalBlock v (rd.concat e) =
          if rd.length + 2 < e.toNat then e :: rd else codeOf (rd.concat e) :: rd.concat e := by
        unfold finalBlock
        simp [ht, hm, byte_le_255]
      by_cases hin : checkInline v st.scratch e = true
      · -- tail inline
        right
        have hlt : rd.length + 2 < e.toNat := by simpa [checkInline, hz, hsc] using hin
        rw [hin]
        simp only [if_true]
        have hw1 : (win.set st.done e).take (st.done + st.scratch) = (pre ++ fin ++ e :: rd) ++ e :: [] := by
          have := take_set_mid win (st.done + st.scratch) (pre ++ fin) (codeOf (rd.concat e)) e (rd.concat e) b
          simp only [List.length_append, ← h1] at this
          rw [this]; simp
        have hw2 : ((win.set st.done e).set (st.done + st.scratch - 1) 0).take (st.done + st.scratch)
            = (pre ++ fin ++ e :: rd) ++ (0 : Byte) :: [] := by
          have := take_set_mid (win.set st.done e) (st.done + st.scratch) (pre ++ fin ++ e :: rd) e 0 [] hw1
          have hl : (pre ++ fin ++ e :: rd).length = st.done + st.scratch - 1 := by simp; omega
          rw [hl] at this; exact this
        rw [wr_ok _ _ _ (by omega)]
        simp only [CRes.bind_ok]
        rw [wr_ok _ _ _ (by simp; omega)]
        refine ⟨_, rfl, by simp, rfl, rfl, ?_, by simp; omega, ?_⟩
        · simp only [hfb, if_pos hlt]; simp at h1 ⊢; omega
        · simp only [hw2, hfb, if_pos hlt]; simp
      · have hge : ¬ rd.length + 2 < e.toNat := by simpa [checkInline, hz, hsc] using hin
        have hin' : checkInline v st.scratch e = false := by simpa using hin
        rw [hin']
        simp only [Bool.false_eq_true, if_false]
        by_cases hg : win.length - st.done ≤ st.scratch
        · left; rw [if_pos hg]; exact ⟨rfl, by omega⟩
        rw [if_neg hg]; right
        have hw1 : (win.set st.done (UInt8.ofNat st.scratch)).take (st.done + st.scratch)
            = pre ++ fin ++ codeOf (rd.concat e) :: rd.concat e := by
          have := take_set_mid win (st.done + st.scratch) (pre ++ fin) (codeOf (rd.concat e)) (UInt8.ofNat st.scratch) (rd.concat e) b
          simp only [List.length_append, ← h1] at this
          rw [this, a]; rfl
        rw [wr_ok _ _ _ (by omega)]
        simp only [CRes.bind_ok]
        rw [wr_ok _ _ _ (by simp; omega)]
        refine ⟨_, rfl, by simp, rfl, rfl, ?_, by simp; omega, ?_⟩
        · simp only [hfb, if_neg hge]; simp at h1 ⊢; omega
        · simp only
          rw [take_succ_set _ _ _ (by simp; omega), hw1, hfb, if_neg hge]; simp


theorem encode_some (v : Variant) (st : EncState) (win bytes : List Byte) :
    encode (.cobs v) st win (some bytes) = encodeCobs v st win (some bytes) := by
  unfold encode
  cases hv : v.tail <;> simp [encodeCobsR]

/-- one data call of the encoder selected for a COBS or COBS/R framing -/
theorem encode_push (v : Variant) (hz : v.isZpe = false) (st : EncState) (win pre p bytes : List Byte)
    (h : EncInv v st win pre p) :
    (bytes = [] ∧ encode (.cobs v) st win (some bytes) = .err .BadValue) ∨
    (encode (.cobs v) st win (some bytes) = .err .MissingBuffer ∧ win.length ≤ st.done + st.scratch + 1) ∨
    ∃ o, encode (.cobs v) st win (some bytes) = .ok o ∧ o.win.length = win.length ∧ o.ret ≤ bytes.length ∧
      (st.done + st.scratch + 1 + 2 * bytes.length < win.length → o.ret = bytes.length) ∧
      o.st.done + o.st.scratch + 2 * (bytes.length - o.ret) ≤ st.done + st.scratch + 1 + 2 * bytes.length ∧
      EncInv v o.st o.win pre (p ++ bytes.take o.ret) := by
  rw [encode_some]; exact encodeCobs_push v hz st win pre p bytes h

/-- the terminating call: the finished data is `pre` followed by the reference frame of the message -/
theorem encode_term (v : Variant) (hz : v.isZpe = false) (st : EncState) (win pre p : List Byte)
    (h : EncInv v st win pre p) :
    (encode (.cobs v) st win none = .err .MissingBuffer ∧ win.length ≤ st.done + st.scratch + 1) ∨
    ∃ o, encode (.cobs v) st win none = .ok o ∧ TermPost win pre (enc v p) o := by
  obtain ⟨fin, run, h1, h2, h3, h4⟩ := h
  have hsh : Shape st win pre fin run := by
    rcases h3 with ⟨a, b, c, d, e, f⟩ | h3
    · exact Or.inl ⟨a, b, c, e, f⟩
    · exact Or.inr h3
  have henc : enc v p = fin ++ finalBlock v run ++ [0] := by
    have := h4 []
    simp only [List.append_nil, encN_nil] at this
    rw [enc_eq_encN, this]
  unfold encode
  cases ht : v.tail
  · simp only [ht, Bool.false_eq_true, if_false]
    have := encodeCobs_term_raw v st win pre fin run h1 h2 hsh
    rw [henc, finalBlock_notail v run ht]
    simpa using this
  · simp only [ht, if_true]
    have := encodeCobsR_term_raw v hz ht st win pre fin run h1 h2 hsh
    rw [henc]; exact this


/-- partial correctness of the caller loop for every chunking and every growth schedule -/
theorem sched_refines (v : Variant) (hz : v.isZpe = false) (fill : Byte) (fuel : Nat) :
    ∀ (st : EncState) (win : List Byte) (chunks : List (List Byte)) (caps : List Nat) (pre p : List Byte) (o : EncOut),
      EncInv v st win pre p → encodeSched (.cobs v) fill fuel st win chunks caps = .ok o →
      o.st.scratch = 0 ∧ o.st.done = (pre ++ enc v (p ++ chunks.flatten)).length ∧
      o.win.take o.st.done = pre ++ enc v (p ++ chunks.flatten) := by
  induction fuel with
  | zero => intro st win chunks caps pre p o _ h; simp [encodeSched] at h
  | succ f ih =>
    intro st win chunks caps pre p o hinv h
    cases chunks with
    | nil =>
      simp only [encodeSched] at h
      rcases encode_term v hz st win pre p hinv with ⟨he, _⟩ | ⟨o', he, hp⟩
      · rw [he] at h
        simp only [if_true] at h
        cases caps with
        | nil => simp at h
        | cons k caps => exact ih _ _ _ _ _ _ _ (hinv.grow _) h
      · rw [he] at h
        simp only [CRes.ok.injEq] at h
        subst h
        obtain ⟨_, h2, _, h4, _, h6⟩ := hp
        simp only [List.flatten_nil, List.append_nil]
        exact ⟨h2, h4, h6⟩
    | cons ch rest =>
      simp only [encodeSched] at h
      rcases encode_push v hz st win pre p ch hinv with ⟨_, he⟩ | ⟨he, _⟩ | ⟨o', he, _, hr, _, _, hinv'⟩
      · rw [he] at h; simp at h
      · rw [he] at h
        simp only [if_true] at h
        cases caps with
        | nil => simp at h
        | cons k caps =>
          have := ih _ _ _ _ _ _ _ (hinv.grow _) h
          simpa using this
      · rw [he] at h
        simp only at h
        by_cases hall : o'.ret = ch.length
        · rw [if_pos hall] at h
          rw [hall, List.take_length] at hinv'
          have := ih _ _ _ _ _ _ _ hinv' h
          simpa [List.append_assoc] using this
        · rw [if_neg hall] at h
          cases caps with
          | nil => simp at h
          | cons k caps =>
            have := ih _ _ _ _ _ _ _ (hinv'.grow _) h
            simpa [List.append_assoc, ← List.append_assoc (ch.take o'.ret), List.take_append_drop] using this

/-- total correctness: with enough room the caller loop succeeds without growing the window -/
theorem sched_total (v : Variant) (hz : v.isZpe = false) (fill : Byte) (chunks : List (List Byte)) :
    ∀ (st : EncState) (win pre p : List Byte), (∀ c ∈ chunks, c ≠ []) →
      st.done + st.scratch + 2 * chunks.flatten.length + chunks.length + 2 ≤ win.length →
      EncInv v st win pre p →
      ∃ o, encodeSched (.cobs v) fill (chunks.length + 1) st win chunks [] = .ok o := by
  induction chunks with
  | nil =>
    intro st win pre p _ hsp hinv
    simp only [encodeSched, List.length_nil]
    rcases encode_term v hz st win pre p hinv with ⟨_, hl⟩ | ⟨o', he, _⟩
    · simp at hsp; omega
    · rw [he]; exact ⟨o', rfl⟩
  | cons ch rest ih =>
    intro st win pre p hne hsp hinv
    simp only [encodeSched, List.length_cons]
    simp only [List.flatten_cons, List.length_append, List.length_cons] at hsp
    rcases encode_push v hz st win pre p ch hinv with ⟨hnil, _⟩ | ⟨_, hl⟩ | ⟨o', he, hlen, _, hall, hgrow, hinv'⟩
    · exact absurd hnil (hne ch (by simp))
    · omega
    · rw [he]
      have hr : o'.ret = ch.length := hall (by omega)
      simp only [hr, if_true]
      exact ih o'.st o'.win pre _ (fun c hc => hne c (by simp [hc])) (by rw [hlen]; rw [hr] at hgrow; omega) hinv'

end Mpt.Codec
