/-
  Refinement for C11: every step of the implementation model `Impl/Dispatch.lean` is accepted by the spec
  monitor `Spec.step`, and the relation "the table's live registrations are the spec's map" is kept.
-/
import MptModel.Lemmas.DispatchTable
import MptModel.Lemmas.DispatchText
import MptModel.Lemmas.DispatchSpec
import MptModel.Lemmas.DispatchFrag
set_option linter.unusedSimpArgs false
set_option linter.constructorNameAsVariable false
namespace Mpt.Dispatch

/-- table invariant: live ids pairwise distinct, live registrations pairwise distinct, no placeholder handler -/
structure TWf (tab : Option Table) : Prop where
  keys : ((liveList tab).map (·.1)).Nodup
  regs : ((liveList tab).map (·.2)).Nodup
  user : ∀ t, tab = some t → AllUser t.slots

theorem TWf.none : TWf none := by
  constructor <;> simp [liveList]

theorem allUser_set {slots : List Slot} {i : Nat} {s' : Slot} (h : AllUser slots) (hs : s'.cmd ≠ some .logReply) :
    AllUser (slots.set i s') := by
  intro s hm
  rcases List.mem_or_eq_of_mem_set hm with h1 | h1
  · exact h s h1
  · rw [h1]; exact hs

theorem allUser_append {a b : List Slot} (ha : AllUser a) (hb : AllUser b) : AllUser (a ++ b) := by
  intro s hm
  rw [List.mem_append] at hm
  rcases hm with h | h
  · exact ha s h
  · exact hb s h

/-- `mpt_command_set` with a harness handler and a fresh registration number -/
theorem commandSet_user {tab : Option Table} {id : Id} {r : Reg} (hw : TWf tab)
    (hfresh : ∀ p, p ∈ liveList tab → p.2 ≠ r) :
    let res := commandSet tab id (some .user) r
    TWf res.1 ∧
    ((∃ old, (id, old) ∈ liveList tab ∧ res.2.2 = [.fin old] ∧ res.2.1 = 0 ∧
        ∀ p, p ∈ liveList res.1 ↔ (p ∈ liveList tab ∧ p.1 ≠ id) ∨ p = (id, r)) ∨
     ((∀ r', (id, r') ∉ liveList tab) ∧ res.2.2 = [] ∧ 0 ≤ res.2.1 ∧
        ∀ p, p ∈ liveList res.1 ↔ p ∈ liveList tab ∨ p = (id, r))) := by
  intro res
  have hk := hw.keys
  have hr := hw.regs
  cases hg : commandGet tab id with
  | some x =>
    obtain ⟨i, old⟩ := x
    obtain ⟨t, rfl, hi, hl, hid⟩ := commandGet_some hg
    have hu := hw.user t rfl
    have hilen : i < t.slots.length := by
      rcases Nat.lt_or_ge i t.slots.length with h' | h'
      · exact h'
      · rw [List.getElem?_eq_none h'] at hi; cases hi
    have hres : res = (some { t with slots := t.slots.set i { old with cmd := some .user, arg := r } }, 0, finalise old) := by
      simp [res, commandSet, hg]
    rw [hres]
    simp only [liveList_some]
    have hsplit := liveL_split hi
    have hset := liveL_set (slots := t.slots) { old with cmd := some Hnd.user, arg := r } hilen
    simp only [hl, if_true] at hsplit
    simp only [Slot.live, Option.isSome_some, if_true] at hset
    simp only [liveList_some] at hk hr hfresh ⊢
    rw [hsplit] at hk hr hfresh
    have hfin : finalise old = [.fin old.arg] := by
      rw [finalise_user (hu old (List.mem_of_getElem? hi)), hl]; rfl
    refine ⟨⟨?_, ?_, ?_⟩, Or.inl ⟨old.arg, ?_, hfin, trivial, ?_⟩⟩
    · rw [liveList_some, hset]
      simp only [List.map_append, List.map_cons, List.map_nil, List.nodup_append, List.nodup_cons, List.mem_append, List.mem_cons, List.mem_map] at hk ⊢
      grind
    · rw [liveList_some, hset]
      simp only [List.map_append, List.map_cons, List.map_nil, List.nodup_append, List.nodup_cons, List.mem_append, List.mem_cons, List.mem_map] at hr hfresh ⊢
      grind
    · intro t' ht'
      cases ht'
      exact allUser_set hu (by simp)
    · rw [hsplit, ← hid]; simp
    · intro p
      rw [hset, hsplit]
      simp only [List.map_append, List.map_cons, List.map_nil, List.nodup_append, List.nodup_cons, List.mem_append, List.mem_cons, List.mem_map] at hk ⊢
      grind
  | none =>
    have hnone := commandGet_none hg
    cases tab with
    | none =>
      have hres : res = (some { slots := [⟨id, some .user, r⟩], cap := allocSize slotSize }, 1, []) := by
        simp [res, commandSet]
      rw [hres]
      refine ⟨⟨?_, ?_, ?_⟩, Or.inr ⟨hnone, rfl, by simp, ?_⟩⟩
      · simp [liveList, Slot.live]
      · simp [liveList, Slot.live]
      · intro t' ht'; cases ht'
        intro s hs
        simp only [List.mem_singleton] at hs
        rw [hs]; simp
      · intro p; simp [liveList, Slot.live]
    | some t =>
      have hu := hw.user t rfl
      simp only [liveList_some] at hk hr hfresh hnone
      cases he : (if t.slots.length ≠ 0 then commandEmpty t.slots else none) with
      | some i =>
        have he' : commandEmpty t.slots = some i := by
          split at he
          · exact he
          · cases he
        obtain ⟨s0, hi, hl0⟩ := commandEmpty_some he'
        have hilen : i < t.slots.length := by
          rcases Nat.lt_or_ge i t.slots.length with h' | h'
          · exact h'
          · rw [List.getElem?_eq_none h'] at hi; cases hi
        have hres : res = (some { t with slots := t.slots.set i ⟨id, some .user, r⟩ }, 0, []) := by
          simp only [res, commandSet, hg, he]
        rw [hres]
        have hsplit := liveL_split hi
        have hset := liveL_set (slots := t.slots) ⟨id, some .user, r⟩ hilen
        simp only [hl0, Bool.false_eq_true, if_false, List.nil_append] at hsplit
        simp only [Slot.live, Option.isSome_some, if_true] at hset
        rw [hsplit] at hk hr hfresh hnone
        refine ⟨⟨?_, ?_, ?_⟩, Or.inr ⟨?_, rfl, by simp, ?_⟩⟩
        · rw [liveList_some, hset]
          simp only [List.map_append, List.map_cons, List.map_nil, List.nodup_append, List.nodup_cons, List.mem_append, List.mem_cons, List.mem_map] at hk hnone ⊢
          grind
        · rw [liveList_some, hset]
          simp only [List.map_append, List.map_cons, List.map_nil, List.nodup_append, List.nodup_cons, List.mem_append, List.mem_cons, List.mem_map] at hr hfresh ⊢
          grind
        · intro t' ht'
          cases ht'
          exact allUser_set hu (by simp)
        · intro r'; rw [liveList_some, hsplit]; exact hnone r'
        · intro p
          rw [liveList_some, liveList_some, hset, hsplit]
          simp only [List.mem_append, List.mem_cons]
          grind
      | none =>
        have hres : ∃ cap, res = (some { t with slots := t.slots ++ [⟨id, some .user, r⟩], cap := cap }, 1, []) := by
          refine ⟨if t.slots.length * slotSize + slotSize ≤ t.cap then t.cap else detachCap t (t.slots.length * slotSize + slotSize), ?_⟩
          simp only [res, commandSet, hg, he]
        obtain ⟨cap, hres⟩ := hres
        rw [hres]
        have happ : liveL (t.slots ++ [⟨id, some .user, r⟩]) = liveL t.slots ++ [(id, r)] := by
          rw [liveL_append, liveL_cons]; simp [Slot.live]
        refine ⟨⟨?_, ?_, ?_⟩, Or.inr ⟨?_, rfl, by simp, ?_⟩⟩
        · rw [liveList_some, happ]
          simp only [List.map_append, List.map_cons, List.map_nil, List.nodup_append, List.nodup_cons, List.mem_cons, List.mem_map] at hk hnone ⊢
          grind
        · rw [liveList_some, happ]
          simp only [List.map_append, List.map_cons, List.map_nil, List.nodup_append, List.nodup_cons, List.mem_cons, List.mem_map] at hr hfresh ⊢
          grind
        · intro t' ht'
          cases ht'
          exact allUser_append hu (by intro s hs; simp only [List.mem_singleton] at hs; rw [hs]; simp)
        · intro r'; rw [liveList_some]; exact hnone r'
        · intro p
          rw [liveList_some, liveList_some, happ]
          simp


/-- `mpt_dispatch_set(disp, id, NULL, NULL)` -/
theorem dispatchSet_clear {d : Disp} {id : Id} (hw : TWf d.tab) :
    let res := dispatchSet d id none 0
    TWf res.1.tab ∧ res.1.dflt = d.dflt ∧ res.1.err = d.err ∧ res.1.bi = d.bi ∧
    ((∃ old, (id, old) ∈ liveList d.tab ∧ res.2.2 = [.fin old] ∧ 0 ≤ res.2.1 ∧
        ∀ p, p ∈ liveList res.1.tab ↔ (p ∈ liveList d.tab ∧ p.1 ≠ id)) ∨
     ((∀ r', (id, r') ∉ liveList d.tab) ∧ res.2.2 = [] ∧ res.2.1 < 0 ∧ res.1 = d)) := by
  intro res
  have hk := hw.keys
  have hr := hw.regs
  cases hg : commandGet d.tab id with
  | some x =>
    obtain ⟨i, old⟩ := x
    obtain ⟨t, htab, hi, hl, hid⟩ := commandGet_some hg
    have hu := hw.user t htab
    have hilen : i < t.slots.length := by
      rcases Nat.lt_or_ge i t.slots.length with h' | h'
      · exact h'
      · rw [List.getElem?_eq_none h'] at hi; cases hi
    have hres : res = ({ d with tab := some { t with slots := t.slots.set i { old with cmd := none, arg := 0 } } }, (i : Int), finalise old) := by
      have hg' := hg
      rw [htab] at hg'
      simp only [res, dispatchSet, htab, hg', Option.map_some]
    rw [hres]
    have hsplit := liveL_split hi
    have hset := liveL_set (slots := t.slots) { old with cmd := none, arg := 0 } hilen
    simp only [hl, if_true] at hsplit
    simp only [Slot.live, Option.isSome_none, Bool.false_eq_true, if_false, List.nil_append] at hset
    rw [htab] at hk hr
    simp only [liveList_some] at hk hr
    rw [hsplit] at hk hr
    have hfin : finalise old = [.fin old.arg] := by
      rw [finalise_user (hu old (List.mem_of_getElem? hi)), hl]; rfl
    refine ⟨⟨?_, ?_, ?_⟩, rfl, rfl, rfl, Or.inl ⟨old.arg, ?_, hfin, by simp, ?_⟩⟩
    · rw [liveList_some, hset]
      simp only [List.map_append, List.map_cons, List.map_nil, List.nodup_append, List.nodup_cons, List.mem_append, List.mem_cons, List.mem_map] at hk ⊢
      grind
    · rw [liveList_some, hset]
      simp only [List.map_append, List.map_cons, List.map_nil, List.nodup_append, List.nodup_cons, List.mem_append, List.mem_cons, List.mem_map] at hr ⊢
      grind
    · intro t' ht'
      cases ht'
      exact allUser_set hu (by simp)
    · rw [htab, liveList_some, hsplit, ← hid]; simp
    · intro p
      rw [htab, liveList_some, liveList_some, hset, hsplit]
      simp only [List.map_append, List.map_cons, List.map_nil, List.nodup_append, List.nodup_cons, List.mem_append, List.mem_cons, List.mem_map] at hk ⊢
      grind
  | none =>
    have hnone := commandGet_none hg
    have hres : res = (d, Err.BadArgument.code, []) := by
      simp only [res, dispatchSet, hg]
    rw [hres]
    exact ⟨hw, rfl, rfl, rfl, Or.inr ⟨hnone, rfl, by simp [Err.code], rfl⟩⟩

/-- `mpt_dispatch_set(disp, id, handler, registration)` -/
theorem dispatchSet_user {d : Disp} {id : Id} {r : Reg} (hw : TWf d.tab)
    (hfresh : ∀ p, p ∈ liveList d.tab → p.2 ≠ r) :
    let res := dispatchSet d id (some .user) r
    TWf res.1.tab ∧ res.1.dflt = d.dflt ∧ res.1.err = d.err ∧ res.1.bi = d.bi ∧
    ((∃ old, (id, old) ∈ liveList d.tab ∧ res.2.2 = [] ∧ res.2.1 < 0 ∧ res.1 = d) ∨
     ((∀ r', (id, r') ∉ liveList d.tab) ∧ res.2.2 = [] ∧ 0 ≤ res.2.1 ∧
        ∀ p, p ∈ liveList res.1.tab ↔ p ∈ liveList d.tab ∨ p = (id, r))) := by
  intro res
  cases hg : commandGet d.tab id with
  | some x =>
    obtain ⟨i, old⟩ := x
    obtain ⟨t, htab, hi, hl, hid⟩ := commandGet_some hg
    have hres : res = (d, Err.BadArgument.code, []) := by
      simp only [res, dispatchSet, hg]
    rw [hres]
    refine ⟨hw, rfl, rfl, rfl, Or.inl ⟨old.arg, ?_, rfl, by simp [Err.code], rfl⟩⟩
    rw [htab, liveList_some, ← hid]
    exact mem_liveL_of_getElem hi hl
  | none =>
    have hnone := commandGet_none hg
    have hres : res = ({ d with tab := (commandSet d.tab id (some .user) r).1 },
        (commandSet d.tab id (some .user) r).2.1, (commandSet d.tab id (some .user) r).2.2) := by
      simp only [res, dispatchSet, hg]
    rw [hres]
    obtain ⟨hw', hcase⟩ := commandSet_user (id := id) hw hfresh
    refine ⟨hw', rfl, rfl, rfl, Or.inr ?_⟩
    rcases hcase with ⟨old, hold, _⟩ | ⟨h1, h2, h3, h4⟩
    · exact absurd hold (hnone old)
    · exact ⟨h1, h2, h3, h4⟩

/-- the registration a resolved element (or the fallback) stands for -/
def resolveReg (cmd : Option (Nat × Slot)) (err : Option Nat) : Option Reg :=
  match cmd with
  | some (_, s) => some s.arg
  | none => err

/-- the flag handling of `mpt_dispatch_emit` is the spec's bookkeeping function -/
theorem emitFlags_book (d : Disp) (evid : Id) (res : HRes) (hs : ¬ res.val < 0) (log : List LogE) :
    emitFlags d res.val (if res.zero then 0 else evid) log =
      ({ d with dflt := (book d.dflt evid res).2 }, ⟨.val (book d.dflt evid res).1, log⟩) := by
  simp only [emitFlags, book, hs, if_false]
  by_cases hd : hasDefault res.val.toNat = true
  · simp [hd]
  · simp [hd]

/-- the built-in fallback of the model is the spec's `builtinAnswer` -/
theorem unknownEvent_answer (evid : Id) (msg : Option (List Byte)) :
    unknownEvent evid msg = ((builtinAnswer evid msg).val, if (builtinAnswer evid msg).zero then 0 else evid) ∧
      ¬ (builtinAnswer evid msg).val < 0 := by
  unfold unknownEvent builtinAnswer
  by_cases h0 : (evid != 0) = true
  · simp [h0]
  · simp only [h0, if_false]
    cases msg with
    | none => simp
    | some b => cases b <;> simp

theorem emitResolved_spec {d : Disp} {cmd : Option (Nat × Slot)} {evid : Id} {msg : Option (List Byte)} {res : HRes}
    (hcmd : ∀ i s, cmd = some (i, s) → s.cmd = some .user) :
    emitResolved d cmd evid msg false res =
      match resolveReg cmd d.err with
      | some r => ({ d with dflt := (book d.dflt evid res).2 }, ⟨.val (book d.dflt evid res).1, [.call r evid]⟩)
      | none =>
        if d.bi then ({ d with dflt := (book d.dflt evid (builtinAnswer evid msg)).2 },
                      ⟨.val (book d.dflt evid (builtinAnswer evid msg)).1, []⟩)
        else (d, ⟨.val (-1), []⟩) := by
  have key : ∀ r, (match invoke Hnd.user r evid res with
      | none => (d, (⟨.fault, []⟩ : Out))
      | some (log, evid', state) =>
        if state < 0 then (d, ⟨.val state, log⟩)
        else emitFlags d state evid' log) =
      ({ d with dflt := (book d.dflt evid res).2 }, ⟨.val (book d.dflt evid res).1, [.call r evid]⟩) := by
    intro r
    simp only [invoke]
    by_cases hneg : res.val < 0
    · simp [hneg, book]
    · simp only [hneg, if_false]
      exact emitFlags_book d evid res hneg _
  unfold emitResolved
  cases cmd with
  | some x =>
    obtain ⟨i, s⟩ := x
    have := hcmd i s rfl
    simp only [this, Option.map_some, resolveReg, Bool.false_eq_true, if_false]
    exact key s.arg
  | none =>
    cases he : d.err with
    | none =>
      simp only [Option.map_none, resolveReg]
      by_cases hb : d.bi = true
      · simp only [hb, if_true]
        obtain ⟨h1, h2⟩ := unknownEvent_answer evid msg
        rw [h1]
        have := emitFlags_book d evid (builtinAnswer evid msg) h2 []
        simp only [he, hb] at this ⊢
        exact this
      · simp [hb, Err.code]
    | some r =>
      simp only [Option.map_some, resolveReg, Bool.false_eq_true, if_false]
      have := key r
      simp only [he] at this
      exact this

/- ---------- the refinement relation ---------- -/
structure Rel (m : St) (sp : Spec) : Prop where
  live : ∀ p, p ∈ liveList m.d.tab ↔ p ∈ sp.live
  fb : sp.fb = m.d.err
  dflt : sp.dflt = m.d.dflt
  next : sp.next = m.next
  bi : sp.bi = m.d.bi

theorem Rel.init (fb : Start) : Rel (St.init fb) (Spec.init fb) := by
  constructor <;> simp [St.init, Spec.init, liveList]

theorem Rel.fresh {m : St} {sp : Spec} (hr : Rel m sp) (hs : SInv sp) :
    ∀ p, p ∈ liveList m.d.tab → p.2 ≠ m.next := by
  intro p hp
  have := hs.live_lt' ((hr.live p).mp hp)
  rw [hr.next] at this
  exact Nat.ne_of_lt this

theorem Rel.lookup_some {m : St} {sp : Spec} (hr : Rel m sp) (hs : SInv sp) {id : Id} {r : Reg}
    (h : (id, r) ∈ liveList m.d.tab) : sp.lookup id = some r :=
  (Spec.lookup_eq_some hs.keys).mpr ((hr.live _).mp h)

theorem Rel.lookup_none {m : St} {sp : Spec} (hr : Rel m sp) {id : Id}
    (h : ∀ r, (id, r) ∉ liveList m.d.tab) : sp.lookup id = none :=
  Spec.lookup_eq_none.mpr (fun r hm => h r ((hr.live _).mpr hm))

theorem refines_set {m : St} {sp : Spec} {id : Id} (hw : TWf m.d.tab) (hr : Rel m sp) (hs : SInv sp) :
    ∃ sp', sp.step (.set id) (step m (.set id)).2 = some sp' ∧ Rel (step m (.set id)).1 sp' ∧ TWf (step m (.set id)).1.d.tab := by
  obtain ⟨hw', hdf, herr, hbi, hcase⟩ := dispatchSet_user (id := id) hw (hr.fresh hs)
  simp only [step, Spec.step]
  generalize dispatchSet m.d id (some .user) m.next = res at hw' hdf herr hbi hcase
  rcases hcase with ⟨old, hold, hlog, hret, hsame⟩ | ⟨hnone, hlog, hret, hlive⟩
  · have hlk := hr.lookup_some hs hold
    refine ⟨{ sp with next := sp.next + 1 }, ?_, ?_, hw'⟩
    · simp only [Spec.stepRegister, hlk, hlog, Spec.isOk, Spec.isErr]
      have : ¬ (0 ≤ res.2.1) := by omega
      simp [this, hret]
    · rw [hsame]
      exact ⟨hr.live, hr.fb, hr.dflt, by simp [hr.next], hr.bi⟩
  · have hlk := hr.lookup_none hnone
    refine ⟨{ sp with live := sp.live ++ [(id, sp.next)], next := sp.next + 1, regd := sp.regd ++ [sp.next] }, ?_, ?_, hw'⟩
    · simp only [Spec.stepRegister, hlk, hlog, Spec.isOk]
      simp [hret]
    · constructor
      · intro p
        simp only [hlive p, List.mem_append, List.mem_singleton, hr.live p, hr.next]
      · simp only [herr]; exact hr.fb
      · simp only [hdf]; exact hr.dflt
      · simp [hr.next]
      · simp only [hbi]; exact hr.bi


theorem refines_cset {m : St} {sp : Spec} {id : Id} (hw : TWf m.d.tab) (hr : Rel m sp) (hs : SInv sp) :
    ∃ sp', sp.step (.cset id) (step m (.cset id)).2 = some sp' ∧ Rel (step m (.cset id)).1 sp' ∧ TWf (step m (.cset id)).1.d.tab := by
  obtain ⟨hw', hcase⟩ := commandSet_user (id := id) hw (hr.fresh hs)
  simp only [step, Spec.step]
  generalize commandSet m.d.tab id (some .user) m.next = res at hw' hcase
  rcases hcase with ⟨old, hold, hlog, hret, hlive⟩ | ⟨hnone, hlog, hret, hlive⟩
  · have hlk := hr.lookup_some hs hold
    refine ⟨{ sp with live := sp.remove id ++ [(id, sp.next)], next := sp.next + 1, regd := sp.regd ++ [sp.next] }, ?_, ?_, hw'⟩
    · simp only [Spec.stepRegister, hlk, hlog, Spec.isOk]
      simp [hret]
    · constructor
      · intro p
        simp only [hlive p, List.mem_append, List.mem_singleton, Spec.mem_remove, hr.live p, hr.next]
      · exact hr.fb
      · exact hr.dflt
      · simp [hr.next]
      · exact hr.bi
  · have hlk := hr.lookup_none hnone
    refine ⟨{ sp with live := sp.live ++ [(id, sp.next)], next := sp.next + 1, regd := sp.regd ++ [sp.next] }, ?_, ?_, hw'⟩
    · simp only [Spec.stepRegister, hlk, hlog, Spec.isOk]
      simp [hret]
    · constructor
      · intro p
        simp only [hlive p, List.mem_append, List.mem_singleton, hr.live p, hr.next]
      · exact hr.fb
      · exact hr.dflt
      · simp [hr.next]
      · exact hr.bi

theorem refines_clear {m : St} {sp : Spec} {id : Id} (hw : TWf m.d.tab) (hr : Rel m sp) (hs : SInv sp) :
    ∃ sp', sp.step (.clear id) (step m (.clear id)).2 = some sp' ∧ Rel (step m (.clear id)).1 sp' ∧ TWf (step m (.clear id)).1.d.tab := by
  obtain ⟨hw', hdf, herr, hbi, hcase⟩ := dispatchSet_clear (id := id) hw
  simp only [step, Spec.step]
  rcases hcase with ⟨old, hold, hlog, hret, hlive⟩ | ⟨hnone, hlog, hret, hsame⟩
  · have hlk := hr.lookup_some hs hold
    refine ⟨{ sp with live := sp.remove id }, ?_, ?_, hw'⟩
    · simp only [hlk, hlog, Spec.isOk]
      simp [hret]
    · constructor
      · intro p
        simp only [hlive p, Spec.mem_remove, hr.live p]
      · simp only [herr]; exact hr.fb
      · simp only [hdf]; exact hr.dflt
      · exact hr.next
      · simp only [hbi]; exact hr.bi
  · have hlk := hr.lookup_none hnone
    refine ⟨sp, ?_, ?_, hw'⟩
    · simp only [hlk, hlog, Spec.isErr]
      simp [hret]
    · rw [hsame]
      exact ⟨hr.live, hr.fb, hr.dflt, hr.next, hr.bi⟩

theorem fin_map_nodup {l : List (Id × Reg)} (h : (l.map (·.2)).Nodup) : (l.map (LogE.fin ·.2)).Nodup := by
  have : l.map (LogE.fin ·.2) = (l.map (·.2)).map LogE.fin := by simp
  rw [this]
  generalize l.map (·.2) = rs at h
  induction rs with
  | nil => simp
  | cons r rest ih =>
    simp only [List.map_cons, List.nodup_cons, List.mem_map, LogE.fin.injEq] at h ⊢
    exact ⟨by simpa using h.1, ih h.2⟩

theorem refines_clearAll {m : St} {sp : Spec} (hw : TWf m.d.tab) (hr : Rel m sp) (_hs : SInv sp) :
    ∃ sp', sp.step .clearAll (step m .clearAll).2 = some sp' ∧ Rel (step m .clearAll).1 sp' ∧ TWf (step m .clearAll).1.d.tab := by
  simp only [step, Spec.step]
  have hlog : (commandClear m.d.tab).2 = (liveList m.d.tab).map (.fin ·.2) := by
    unfold commandClear
    cases ht : m.d.tab with
    | none => simp [liveList]
    | some t => simp only [liveList_some]; exact clear_log (hw.user t ht)
  have hlive : liveList (commandClear m.d.tab).1 = [] := by
    unfold commandClear
    cases m.d.tab <;> simp [liveList]
  have hw' : TWf (commandClear m.d.tab).1 := by
    constructor
    · rw [hlive]; simp
    · rw [hlive]; simp
    · intro t ht
      unfold commandClear at ht
      cases h : m.d.tab with
      | none => rw [h] at ht; cases ht
      | some t0 =>
        rw [h] at ht
        simp only [Option.some.injEq] at ht
        subst ht
        intro s hs; simp at hs
  refine ⟨{ sp with live := [] }, ?_, ?_, hw'⟩
  · have : Spec.sameSet (commandClear m.d.tab).2 (sp.live.map (.fin ·.2)) = true := by
      rw [sameSet_iff, hlog]
      refine ⟨fin_map_nodup hw.regs, ?_⟩
      intro e
      simp only [List.mem_map]
      constructor
      · rintro ⟨p, hp, rfl⟩; exact ⟨p, (hr.live p).mp hp, rfl⟩
      · rintro ⟨p, hp, rfl⟩; exact ⟨p, (hr.live p).mpr hp, rfl⟩
    simp [Spec.isOk, this]
  · constructor
    · intro p; simp only [hlive]
    · exact hr.fb
    · exact hr.dflt
    · exact hr.next
    · exact hr.bi


/-- a resolved element is a harness handler -/
theorem get_user {tab : Option Table} (hw : TWf tab) {id : Id} :
    ∀ i s, commandGet tab id = some (i, s) → s.cmd = some .user := by
  intro i s hg
  obtain ⟨t, rfl, hi, hl, _⟩ := commandGet_some hg
  have := hw.user t rfl s (List.mem_of_getElem? hi)
  unfold Slot.live at hl
  cases hc : s.cmd with
  | none => rw [hc] at hl; cases hl
  | some h => cases h with
    | user => rfl
    | logReply => exact absurd hc this

/-- the registration `mpt_command_get` resolves is the one the spec map holds, else the fallback -/
theorem target_eq {m : St} {sp : Spec} {id : Id} (hr : Rel m sp) (hs : SInv sp) :
    sp.target id = resolveReg (commandGet m.d.tab id) m.d.err := by
  unfold Spec.target resolveReg
  cases hg : commandGet m.d.tab id with
  | some x =>
    obtain ⟨i, s⟩ := x
    obtain ⟨t, htab, hi, hl, hid⟩ := commandGet_some hg
    have : (id, s.arg) ∈ liveList m.d.tab := by
      rw [htab, liveList_some, ← hid]; exact mem_liveL_of_getElem hi hl
    rw [hr.lookup_some hs this]
  | none =>
    rw [hr.lookup_none (commandGet_none hg)]
    exact hr.fb

theorem lookup_eq {m : St} {sp : Spec} {id : Id} (hr : Rel m sp) (hs : SInv sp) :
    sp.lookup id = (commandGet m.d.tab id).map (·.2.arg) := by
  cases hg : commandGet m.d.tab id with
  | some x =>
    obtain ⟨i, s⟩ := x
    obtain ⟨t, htab, hi, hl, hid⟩ := commandGet_some hg
    have : (id, s.arg) ∈ liveList m.d.tab := by
      rw [htab, liveList_some, ← hid]; exact mem_liveL_of_getElem hi hl
    rw [hr.lookup_some hs this]; rfl
  | none =>
    rw [hr.lookup_none (commandGet_none hg)]; rfl

/-- `emitResolved` against `stepEmit` -/
theorem refines_resolved {m : St} {sp : Spec} {id : Id} {msg : Option (List Byte)} {h : HRes}
    (hw : TWf m.d.tab) (hr : Rel m sp) (hs : SInv sp) :
    ∃ sp', sp.stepEmit id msg false h (emitResolved m.d (commandGet m.d.tab id) id msg false h).2 = some sp' ∧
      Rel { m with d := (emitResolved m.d (commandGet m.d.tab id) id msg false h).1 } sp' ∧
      (emitResolved m.d (commandGet m.d.tab id) id msg false h).1.tab = m.d.tab := by
  rw [emitResolved_spec (get_user hw)]
  unfold Spec.stepEmit
  rw [target_eq hr hs]
  generalize resolveReg (commandGet m.d.tab id) m.d.err = tgt
  cases tgt with
  | none =>
    by_cases hb : m.d.bi = true
    · have hsb : sp.bi = true := by rw [hr.bi]; exact hb
      refine ⟨{ sp with dflt := (book sp.dflt id (builtinAnswer id msg)).2 }, ?_, ?_, by simp [hb]⟩
      · simp [Spec.stepUnhandled, hsb, hb, hr.dflt]
      · simp only [hb, if_true]
        exact ⟨hr.live, hr.fb, by simp [hr.dflt], hr.next, hsb⟩
    · have hsb : sp.bi = false := by rw [hr.bi]; simpa using hb
      refine ⟨sp, ?_, ?_, by simp [hb]⟩
      · simp [Spec.stepUnhandled, hsb, hb, Spec.isErr]
      · simp only [hb]
        exact ⟨hr.live, hr.fb, hr.dflt, hr.next, hr.bi⟩
  | some r =>
    refine ⟨{ sp with dflt := (book sp.dflt id h).2 }, ?_, ?_, rfl⟩
    · simp [Spec.stepDeliver, hr.dflt]
    · exact ⟨hr.live, hr.fb, by simp [hr.dflt], hr.next, hr.bi⟩

theorem refines_emitId {m : St} {sp : Spec} {id : Id} {h : HRes} (hw : TWf m.d.tab) (hr : Rel m sp) (hs : SInv sp) :
    ∃ sp', sp.step (.emitId id h) (step m (.emitId id h)).2 = some sp' ∧ Rel (step m (.emitId id h)).1 sp' ∧
      TWf (step m (.emitId id h)).1.d.tab := by
  obtain ⟨sp', h1, h2, h3⟩ := refines_resolved (id := id) (msg := none) (h := h) hw hr hs
  refine ⟨sp', ?_, ?_, ?_⟩
  · simpa [step, Spec.step, dispatchEmit] using h1
  · simpa [step, dispatchEmit] using h2
  · simp only [step, dispatchEmit]; rw [h3]; exact hw

theorem refines_emitMsg {m : St} {sp : Spec} {msg : List Byte} {h : HRes} (hw : TWf m.d.tab) (hr : Rel m sp) (hs : SInv sp) :
    ∃ sp', sp.step (.emitMsg msg h) (step m (.emitMsg msg h)).2 = some sp' ∧ Rel (step m (.emitMsg msg h)).1 sp' ∧
      TWf (step m (.emitMsg msg h)).1.d.tab := by
  cases msg with
  | nil =>
    refine ⟨sp, ?_, ?_, ?_⟩
    · simp [step, Spec.step, dispatchEmit, Spec.isErr]
    · simp only [step, dispatchEmit]; exact ⟨hr.live, hr.fb, hr.dflt, hr.next, hr.bi⟩
    · simp only [step, dispatchEmit]; exact hw
  | cons b rest =>
    obtain ⟨sp', h1, h2, h3⟩ := refines_resolved (id := b.toUInt64) (msg := some (b :: rest)) (h := h) hw hr hs
    refine ⟨sp', ?_, ?_, ?_⟩
    · simpa [step, Spec.step, dispatchEmit] using h1
    · simpa [step, dispatchEmit] using h2
    · simp only [step, dispatchEmit]; rw [h3]; exact hw

theorem refines_emitNone {m : St} {sp : Spec} {h : HRes} (hw : TWf m.d.tab) (hr : Rel m sp) (hs : SInv sp) :
    ∃ sp', sp.step (.emitNone h) (step m (.emitNone h)).2 = some sp' ∧ Rel (step m (.emitNone h)).1 sp' ∧
      TWf (step m (.emitNone h)).1.d.tab := by
  by_cases hd0 : m.d.dflt = 0
  · refine ⟨sp, ?_, ?_, ?_⟩
    · simp [step, Spec.step, dispatchEmit, hd0, hr.dflt]
    · simp only [step, dispatchEmit, hd0, if_true]; exact ⟨hr.live, hr.fb, hr.dflt, hr.next, hr.bi⟩
    · simp only [step, dispatchEmit, hd0, if_true]; exact hw
  · have hsd : ¬ sp.dflt = 0 := by rw [hr.dflt]; exact hd0
    cases hg : commandGet m.d.tab m.d.dflt with
    | none =>
      refine ⟨{ sp with dflt := 0 }, ?_, ?_, ?_⟩
      · have hlk := hr.lookup_none (commandGet_none hg)
        rw [← hr.dflt] at hlk
        simp [step, Spec.step, dispatchEmit, hd0, hsd, hg, hlk, Spec.isErr, Err.code]
      · simp only [step, dispatchEmit, hd0, if_false, hg]; exact ⟨hr.live, hr.fb, rfl, hr.next, hr.bi⟩
      · simp only [step, dispatchEmit, hd0, if_false, hg]; exact hw
    | some c =>
      obtain ⟨i, s⟩ := c
      obtain ⟨sp', h1, h2, h3⟩ := refines_resolved (id := m.d.dflt) (msg := none) (h := h) hw hr hs
      rw [hg] at h1 h2 h3
      have hlk : sp.lookup sp.dflt = some s.arg := by
        rw [hr.dflt, lookup_eq hr hs, hg]; rfl
      have htg : sp.target m.d.dflt = some s.arg := by
        unfold Spec.target; rw [← hr.dflt, hlk]
      refine ⟨sp', ?_, ?_, ?_⟩
      · simp only [Spec.stepEmit, htg] at h1
        simp only [step, Spec.step, dispatchEmit, hd0, hsd, if_false, hg, hlk]
        rw [hr.dflt]; exact h1
      · simpa [step, dispatchEmit, hd0, hg] using h2
      · simp only [step, dispatchEmit, hd0, if_false, hg]; rw [h3]; exact hw


theorem stepHashId_same {sp sp' : Spec} {msg : List Byte} {cid : Option Id} {h : HRes} {out : Out} (hst : sp.stepHashId msg cid h out = some sp') : sp' = sp := by
  unfold Spec.stepHashId at hst
  repeat' split at hst
  all_goals first | cases hst; rfl | cases hst

theorem findSome_const {α β} {l : List α} {f : α → Option β} {c : β} (hall : ∀ x y, f x = some y → y = c)
    (hex : ∃ x, x ∈ l ∧ (f x).isSome) : l.findSome? f = some c := by
  induction l with
  | nil => obtain ⟨x, hx, _⟩ := hex; cases hx
  | cons a rest ih =>
    rw [List.findSome?_cons]
    cases hfa : f a with
    | some y => rw [hall a y hfa]
    | none =>
      simp only
      apply ih
      obtain ⟨x, hx, hs⟩ := hex
      rw [List.mem_cons] at hx
      rcases hx with rfl | hx
      · rw [hfa] at hs; cases hs
      · exact ⟨x, hx, hs⟩

/-- the reading of the message `mpt_dispatch_hash` arrived at, in the spec's terms -/
def HashId.cid : HashId → Option Id
  | .id v => some v
  | .fail => none

theorem hashId_cid (msg : List Byte) : (hashId msg).cid ∈ cmdIds msg := by
  rcases hashId_cmdIds msg with ⟨v, hv, hmem⟩ | ⟨hf, hmem⟩
  · rw [hv]; exact hmem
  · rw [hf]; exact hmem

theorem hashIdFrag_cid (frags : List (List Byte)) : (hashIdFrag frags).cid ∈ cmdIdsFrag frags := by
  rcases hashIdFrag_cmdIds frags with ⟨v, hv, hmem⟩ | ⟨hf, hmem⟩
  · rw [hv]; exact hmem
  · rw [hf]; exact hmem

/-- `mpt_dispatch_hash` from the lookup on, in the spec's terms -/
theorem hashExec_outcome {m : St} {sp : Spec} (hw : TWf m.d.tab) (hr : Rel m sp) (hs : SInv sp)
    (hid : HashId) (msg : List Byte) (h : HRes) :
    hashExec m.d hid msg h =
      (⟨.val (sp.hashOutcome msg h hid.cid).2.1, (sp.hashOutcome msg h hid.cid).1⟩, (sp.hashOutcome msg h hid.cid).2.2) := by
  cases hid with
  | fail => rfl
  | id v =>
    unfold hashExec Spec.hashOutcome HashId.cid
    simp only
    cases hg : commandGet m.d.tab v with
    | some x =>
      obtain ⟨i, s⟩ := x
      have hu := get_user hw i s hg
      have hlk : sp.lookup v = some s.arg := by rw [lookup_eq hr hs, hg]; rfl
      simp only [hu, invoke, hlk]
      by_cases hneg : h.val < 0
      · simp [hneg]
      · simp [hneg]
    | none =>
      have hlk : sp.lookup v = none := by rw [lookup_eq hr hs, hg]; rfl
      simp only [hlk]
      cases he : m.d.err with
      | none =>
        have hfb : sp.fb = none := by rw [hr.fb]; exact he
        simp only [hfb]
        by_cases hb : m.d.bi = true
        · have hsb : sp.bi = true := by rw [hr.bi]; exact hb
          simp [hb, hsb, (unknownEvent_answer v (some msg)).1]
        · have hsb : sp.bi = false := by rw [hr.bi]; simpa using hb
          simp [hb, hsb]
      | some r =>
        have hfb : sp.fb = some r := by rw [hr.fb]; exact he
        simp [hfb, invoke]

/-- the monitor accepts the outcome the spec lists for the reading -/
theorem stepHashId_outcome (sp : Spec) (msg : List Byte) (cid : Option Id) (h : HRes) :
    sp.stepHashId msg cid h ⟨.val (sp.hashOutcome msg h cid).2.1, (sp.hashOutcome msg h cid).1⟩ = some sp := by
  unfold Spec.stepHashId Spec.hashOutcome
  cases cid with
  | none => simp
  | some v =>
    simp only
    rcases Option.eq_none_or_eq_some (sp.lookup v) with hlk | ⟨r, hlk⟩
    · simp only [hlk]
      rcases Option.eq_none_or_eq_some sp.fb with hfb | ⟨r, hfb⟩
      · simp only [hfb]
        by_cases hb : sp.bi = true
        · simp [hb]
        · simp [hb]
      · simp [hfb]
    · simp only [hlk]
      by_cases hneg : h.val < 0
      · simp [hneg]
      · simp [hneg]

theorem hash_accept {m : St} {sp : Spec} (hw : TWf m.d.tab) (hr : Rel m sp) (hs : SInv sp)
    (hid : HashId) (msg : List Byte) (h : HRes) (l : List (Option Id)) (hmem : hid.cid ∈ l) :
    l.findSome? (fun cid => sp.stepHashId msg cid h (hashExec m.d hid msg h).1) = some sp := by
  apply findSome_const (f := fun cid => sp.stepHashId msg cid h (hashExec m.d hid msg h).1) (fun x y hxy => stepHashId_same hxy)
  refine ⟨hid.cid, hmem, ?_⟩
  rw [hashExec_outcome hw hr hs]
  simp only [stepHashId_outcome, Option.isSome_some]

theorem refines_hash {m : St} {sp : Spec} {msg : List Byte} {h : HRes} (hw : TWf m.d.tab) (hr : Rel m sp) (hs : SInv sp) :
    ∃ sp', sp.step (.hash msg h) (step m (.hash msg h)).2 = some sp' ∧ Rel (step m (.hash msg h)).1 sp' ∧
      TWf (step m (.hash msg h)).1.d.tab := by
  refine ⟨sp, ?_, ?_, ?_⟩
  · simp only [step, Spec.step, dispatchHash]
    exact hash_accept hw hr hs _ _ _ _ (hashId_cid msg)
  · simp only [step]; exact ⟨hr.live, hr.fb, hr.dflt, hr.next, hr.bi⟩
  · simp only [step]; exact hw

theorem refines_hashFrag {m : St} {sp : Spec} {frags : List (List Byte)} {h : HRes} (hw : TWf m.d.tab) (hr : Rel m sp) (hs : SInv sp) :
    ∃ sp', sp.step (.hashFrag frags h) (step m (.hashFrag frags h)).2 = some sp' ∧ Rel (step m (.hashFrag frags h)).1 sp' ∧
      TWf (step m (.hashFrag frags h)).1.d.tab := by
  refine ⟨sp, ?_, ?_, ?_⟩
  · simp only [step, Spec.step, dispatchHashFrag]
    exact hash_accept hw hr hs _ _ _ _ (hashIdFrag_cid frags)
  · simp only [step]; exact ⟨hr.live, hr.fb, hr.dflt, hr.next, hr.bi⟩
  · simp only [step]; exact hw

/- ---------- a handler that dispatches by hash ---------- -/
/-- what the nested `mpt_dispatch_hash` gives back, in the spec's terms -/
def nestedOutcome (sp : Spec) (msg : Option (List Byte)) (h : HRes) : List LogE × Int × Id :=
  match msg with
  | none => ([], failDefault, 0)
  | some m => sp.hashOutcome m h (hashId m).cid

theorem nestedOutcome_mem (sp : Spec) (msg : Option (List Byte)) (h : HRes) :
    nestedOutcome sp msg h ∈ sp.hashOutcomes msg h := by
  unfold nestedOutcome Spec.hashOutcomes
  cases msg with
  | none => simp
  | some m => exact List.mem_map.mpr ⟨_, hashId_cid m, rfl⟩

/-- an outcome either carries the one invocation made inside, or nothing happened and the event id is cleared -/
theorem hashOutcome_shape (sp : Spec) (m : List Byte) (h : HRes) (cid : Option Id) :
    (∃ r2 id2, cid = some id2 ∧ (sp.hashOutcome m h cid).1 = [.call r2 id2]) ∨
    ((sp.hashOutcome m h cid).1 = [] ∧ (sp.hashOutcome m h cid).2.2 = 0 ∧
      ((sp.hashOutcome m h cid).2.1 = 3 ∨ (sp.hashOutcome m h cid).2.1 = 2 ∨ (sp.hashOutcome m h cid).2.1 = 0)) := by
  unfold Spec.hashOutcome
  cases cid with
  | none => right; simp [failDefault]
  | some id2 =>
    simp only
    cases hlk : sp.lookup id2 with
    | some r2 =>
      left; refine ⟨r2, id2, rfl, ?_⟩
      simp only; split <;> rfl
    | none =>
      cases hfb : sp.fb with
      | some r2 => left; exact ⟨r2, id2, rfl, rfl⟩
      | none =>
        right
        simp only
        by_cases hb : sp.bi = true
        · simp only [hb, if_true]
          unfold builtinAnswer
          by_cases h0 : (id2 != 0) = true
          · simp [h0]
          · have : id2 = 0 := by simpa using h0
            subst this
            cases m with
            | nil => simp
            | cons a b => simp
        · simp [hb, failDefault]

theorem book_quiet (dflt : Id) {v1 v2 : Int} (h1 : v1 = 3 ∨ v1 = 2 ∨ v1 = 0) (h2 : v2 = 3 ∨ v2 = 2 ∨ v2 = 0)
    (he : (book dflt 0 ⟨v1, false⟩).1 = (book dflt 0 ⟨v2, false⟩).1) :
    (book dflt 0 ⟨v1, false⟩).2 = (book dflt 0 ⟨v2, false⟩).2 := by
  by_cases hd : dflt = 0
  · subst hd
    rcases h1 with rfl | rfl | rfl <;> rcases h2 with rfl | rfl | rfl <;>
      simp [book, hasDefault, clrDefault, setDefault] at he ⊢
  · have hd' : (dflt != 0) = true := by simpa using hd
    rcases h1 with rfl | rfl | rfl <;> rcases h2 with rfl | rfl | rfl <;>
      simp [book, hasDefault, clrDefault, setDefault, hd'] at he ⊢

/-- two listed outcomes that look the same from outside leave the same default event -/
theorem hashOutcomes_unique {sp : Spec} {msg : Option (List Byte)} {h : HRes} {o1 o2 : List LogE × Int × Id} (dflt : Id)
    (h1 : o1 ∈ sp.hashOutcomes msg h) (h2 : o2 ∈ sp.hashOutcomes msg h) (hlog : o1.1 = o2.1)
    (hb : (book dflt o1.2.2 ⟨o1.2.1, false⟩).1 = (book dflt o2.2.2 ⟨o2.2.1, false⟩).1) :
    (book dflt o1.2.2 ⟨o1.2.1, false⟩).2 = (book dflt o2.2.2 ⟨o2.2.1, false⟩).2 := by
  unfold Spec.hashOutcomes at h1 h2
  cases msg with
  | none =>
    simp only [List.mem_singleton] at h1 h2
    rw [h1, h2]
  | some m =>
    simp only [List.mem_map] at h1 h2
    obtain ⟨c1, _, rfl⟩ := h1
    obtain ⟨c2, _, rfl⟩ := h2
    rcases hashOutcome_shape sp m h c1 with ⟨r1, i1, hc1, hl1⟩ | ⟨hl1, hz1, hv1⟩
    · rcases hashOutcome_shape sp m h c2 with ⟨r2, i2, hc2, hl2⟩ | ⟨hl2, hz2, hv2⟩
      · rw [hl1, hl2] at hlog
        simp only [List.cons.injEq, LogE.call.injEq, and_true] at hlog
        rw [hc1, hc2, hlog.2]
      · rw [hl1, hl2] at hlog; cases hlog
    · rcases hashOutcome_shape sp m h c2 with ⟨r2, i2, hc2, hl2⟩ | ⟨hl2, hz2, hv2⟩
      · rw [hl1, hl2] at hlog; cases hlog
      · rw [hz1, hz2] at hb ⊢
        exact book_quiet dflt hv1 hv2 hb

theorem findSome_mem {α β} {l : List α} {f : α → Option β} {c : β} {x : α} (hx : x ∈ l) (hfx : (f x).isSome)
    (hall : ∀ y, y ∈ l → ∀ b, f y = some b → b = c) : l.findSome? f = some c := by
  induction l with
  | nil => cases hx
  | cons a rest ih =>
    rw [List.findSome?_cons]
    cases hfa : f a with
    | some y => rw [hall a (List.mem_cons_self ..) y hfa]
    | none =>
      simp only
      rw [List.mem_cons] at hx
      rcases hx with rfl | hx
      · rw [hfa] at hfx; cases hfx
      · exact ih hx (fun y hy => hall y (List.mem_cons_of_mem _ hy))

/-- `emitResolved` with a handler that dispatches by hash -/
theorem emitResolved_nest {d : Disp} {cmd : Option (Nat × Slot)} {evid : Id} {msg : Option (List Byte)} {res : HRes}
    (o : List LogE × Int × Id)
    (hcmd : ∀ i s, cmd = some (i, s) → s.cmd = some .user)
    (hinner : nestedCall d msg res = (⟨.val o.2.1, o.1⟩, o.2.2)) :
    emitResolved d cmd evid msg true res =
      match resolveReg cmd d.err with
      | some r =>
        ({ d with dflt := (book d.dflt o.2.2 ⟨o.2.1, false⟩).2 },
         ⟨.val (book d.dflt o.2.2 ⟨o.2.1, false⟩).1, .call r evid :: o.1⟩)
      | none =>
        if d.bi then ({ d with dflt := (book d.dflt evid (builtinAnswer evid msg)).2 },
                      ⟨.val (book d.dflt evid (builtinAnswer evid msg)).1, []⟩)
        else (d, ⟨.val (-1), []⟩) := by
  have key : ∀ r, (match invokeNested d Hnd.user r evid msg res with
      | none => (d, (⟨.fault, []⟩ : Out))
      | some (log, evid', state) =>
        if state < 0 then (d, ⟨.val state, log⟩)
        else emitFlags d state evid' log) =
      ({ d with dflt := (book d.dflt o.2.2 ⟨o.2.1, false⟩).2 },
         ⟨.val (book d.dflt o.2.2 ⟨o.2.1, false⟩).1, .call r evid :: o.1⟩) := by
    intro r
    simp only [invokeNested, hinner]
    by_cases hneg : o.2.1 < 0
    · simp [hneg, book]
    · simp only [hneg, if_false]
      exact emitFlags_book d o.2.2 ⟨o.2.1, false⟩ hneg _
  unfold emitResolved
  cases cmd with
  | some x =>
    obtain ⟨i, s⟩ := x
    have := hcmd i s rfl
    simp only [this, Option.map_some, resolveReg, if_true]
    exact key s.arg
  | none =>
    cases he : d.err with
    | none =>
      simp only [Option.map_none, resolveReg]
      by_cases hb : d.bi = true
      · simp only [hb, if_true]
        obtain ⟨h1, h2⟩ := unknownEvent_answer evid msg
        rw [h1]
        have := emitFlags_book d evid (builtinAnswer evid msg) h2 []
        simp only [he, hb] at this ⊢
        exact this
      · simp [hb, Err.code]
    | some r =>
      simp only [Option.map_some, resolveReg, if_true]
      have := key r
      simp only [he] at this
      exact this

theorem nestedCall_outcome {m : St} {sp : Spec} (hw : TWf m.d.tab) (hr : Rel m sp) (hs : SInv sp)
    (msg : Option (List Byte)) (h : HRes) :
    nestedCall m.d msg h =
      (⟨.val (nestedOutcome sp msg h).2.1, (nestedOutcome sp msg h).1⟩, (nestedOutcome sp msg h).2.2) := by
  unfold nestedCall nestedOutcome
  cases msg with
  | none => rfl
  | some mm => exact hashExec_outcome hw hr hs _ _ _

/-- `emitResolved` with a nesting handler against `stepEmit` -/
theorem refines_resolved_nest {m : St} {sp : Spec} {id : Id} {msg : Option (List Byte)} {h : HRes}
    (hw : TWf m.d.tab) (hr : Rel m sp) (hs : SInv sp) :
    ∃ sp', sp.stepEmit id msg true h (emitResolved m.d (commandGet m.d.tab id) id msg true h).2 = some sp' ∧
      Rel { m with d := (emitResolved m.d (commandGet m.d.tab id) id msg true h).1 } sp' ∧
      (emitResolved m.d (commandGet m.d.tab id) id msg true h).1.tab = m.d.tab := by
  rw [emitResolved_nest _ (get_user hw) (nestedCall_outcome hw hr hs msg h)]
  unfold Spec.stepEmit
  rw [target_eq hr hs]
  generalize resolveReg (commandGet m.d.tab id) m.d.err = tgt
  cases tgt with
  | none =>
    by_cases hb : m.d.bi = true
    · have hsb : sp.bi = true := by rw [hr.bi]; exact hb
      refine ⟨{ sp with dflt := (book sp.dflt id (builtinAnswer id msg)).2 }, ?_, ?_, by simp [hb]⟩
      · simp [Spec.stepUnhandled, hsb, hb, hr.dflt]
      · simp only [hb, if_true]
        exact ⟨hr.live, hr.fb, by simp [hr.dflt], hr.next, hsb⟩
    · have hsb : sp.bi = false := by rw [hr.bi]; simpa using hb
      refine ⟨sp, ?_, ?_, by simp [hb]⟩
      · simp [Spec.stepUnhandled, hsb, hb, Spec.isErr]
      · simp only [hb]
        exact ⟨hr.live, hr.fb, hr.dflt, hr.next, hr.bi⟩
  | some r =>
    have hmem := nestedOutcome_mem sp msg h
    generalize nestedOutcome sp msg h = o at hmem
    refine ⟨{ sp with dflt := (book sp.dflt o.2.2 ⟨o.2.1, false⟩).2 }, ?_, ?_, rfl⟩
    · simp only [Spec.stepDeliver, if_true, ← hr.dflt]
      apply findSome_mem hmem
      · simp
      · intro y hy b hyb
        split at hyb
        · rename_i hc
          simp only [Bool.and_eq_true, decide_eq_true_eq, beq_iff_eq, Ret.val.injEq, List.cons.injEq, true_and] at hc
          cases hyb
          rw [hashOutcomes_unique sp.dflt hmem hy hc.2 hc.1]
        · cases hyb
    · exact ⟨hr.live, hr.fb, by simp [hr.dflt], hr.next, hr.bi⟩

theorem refines_emitCmd {m : St} {sp : Spec} {msg : List Byte} {h : HRes} (hw : TWf m.d.tab) (hr : Rel m sp) (hs : SInv sp) :
    ∃ sp', sp.step (.emitCmd msg h) (step m (.emitCmd msg h)).2 = some sp' ∧ Rel (step m (.emitCmd msg h)).1 sp' ∧
      TWf (step m (.emitCmd msg h)).1.d.tab := by
  cases msg with
  | nil =>
    refine ⟨sp, ?_, ?_, ?_⟩
    · simp [step, Spec.step, dispatchEmit, Spec.isErr]
    · simp only [step, dispatchEmit]; exact ⟨hr.live, hr.fb, hr.dflt, hr.next, hr.bi⟩
    · simp only [step, dispatchEmit]; exact hw
  | cons b rest =>
    obtain ⟨sp', h1, h2, h3⟩ := refines_resolved_nest (id := b.toUInt64) (msg := some (b :: rest)) (h := h) hw hr hs
    refine ⟨sp', ?_, ?_, ?_⟩
    · simpa [step, Spec.step, dispatchEmit] using h1
    · simpa [step, dispatchEmit] using h2
    · simp only [step, dispatchEmit]; rw [h3]; exact hw

theorem refines_fini {m : St} {sp : Spec} (hw : TWf m.d.tab) (hr : Rel m sp) (hs : SInv sp) :
    ∃ sp', sp.step .fini (step m .fini).2 = some sp' ∧ Rel (step m .fini).1 sp' ∧ TWf (step m .fini).1.d.tab := by
  have hlog : (commandClear m.d.tab).2 = (liveList m.d.tab).map (.fin ·.2) := by
    unfold commandClear
    cases ht : m.d.tab with
    | none => simp [liveList]
    | some t => simp only [liveList_some]; exact clear_log (hw.user t ht)
  refine ⟨{ sp with live := [], fb := none, bi := false, dflt := 0 }, ?_, ?_, ?_⟩
  · simp only [step, Spec.step, dispatchFini, hlog]
    have : Spec.sameSet ((liveList m.d.tab).map (.fin ·.2) ++ errFin m.d.err) (sp.liveRegs.map .fin) = true := by
      rw [sameSet_iff]
      have hfb := hr.fb
      unfold errFin Spec.liveRegs
      refine ⟨?_, ?_⟩
      · rw [List.nodup_append]
        refine ⟨fin_map_nodup hw.regs, ?_, ?_⟩
        · cases m.d.err <;> simp
        · intro a ha b hb
          cases he : m.d.err with
          | none => rw [he] at hb; simp at hb
          | some r =>
            rw [he] at hb
            simp only [List.mem_singleton] at hb
            simp only [List.mem_map] at ha
            obtain ⟨p, hp, rfl⟩ := ha
            rw [hb]
            intro hc
            simp only [LogE.fin.injEq] at hc
            have h1 := (hr.live p).mp hp
            rw [he] at hfb
            have := hs.fb_not_live hfb p.1
            apply this
            rw [← hc]; exact h1
      · intro e
        rw [hfb]
        simp only [List.mem_append, List.mem_map]
        constructor
        · rintro (⟨p, hp, rfl⟩ | he)
          · exact ⟨p.2, Or.inl ⟨p, (hr.live p).mp hp, rfl⟩, rfl⟩
          · cases herr : m.d.err with
            | none => rw [herr] at he; simp at he
            | some r =>
              rw [herr] at he
              simp only [List.mem_singleton] at he
              exact ⟨r, Or.inr (by simp), he.symm⟩
        · rintro ⟨r, (⟨p, hp, rfl⟩ | hr'), rfl⟩
          · exact Or.inl ⟨p, (hr.live p).mpr hp, rfl⟩
          · right
            cases herr : m.d.err with
            | none => rw [herr] at hr'; simp at hr'
            | some r0 =>
              rw [herr] at hr'
              simp only [List.mem_singleton] at hr'
              simp [hr']
    simp only [Spec.isOk, this]
    simp
  · simp only [step, dispatchFini]
    constructor <;> simp [liveList, hr.next]
  · simp only [step, dispatchFini]; exact TWf.none


theorem refines_reserve {m : St} {sp : Spec} {w : Nat} (hw : TWf m.d.tab) (hr : Rel m sp) (hs : SInv sp) :
    ∃ sp', sp.step (.reserve w) (step m (.reserve w)).2 = some sp' ∧ Rel (step m (.reserve w)).1 sp' ∧
      TWf (step m (.reserve w)).1.d.tab := by
  cases hres : commandReserve m.d.tab w with
  | mk tab' oidx =>
    cases oidx with
    | none =>
      obtain ⟨hlive, hsub⟩ := commandReserve_none hres
      refine ⟨{ sp with next := sp.next + 1 }, ?_, ?_, ?_⟩
      · simp [step, Spec.step, hres]
      · simp only [step, hres]
        constructor
        · intro p; simp only [hlive]; exact hr.live p
        · exact hr.fb
        · exact hr.dflt
        · simp [hr.next]
        · exact hr.bi
      · simp only [step, hres]
        constructor
        · rw [hlive]; exact hw.keys
        · rw [hlive]; exact hw.regs
        · intro t' ht' s hs'
          obtain ⟨t, ht, hst⟩ := hsub t' ht'
          exact hw.user t ht s (hst s hs')
    | some idx =>
      obtain ⟨a, b, idv, m0, cap, htab, hidx, hlive, hsub, hfresh⟩ := commandReserve_some hres
      subst htab hidx
      have hget : (a ++ (⟨idv, some .logReply, m0⟩ : Slot) :: b)[a.length]? = some ⟨idv, some .logReply, m0⟩ := by simp
      have hset : (a ++ (⟨idv, some .logReply, m0⟩ : Slot) :: b).set a.length ⟨idv, some .user, m.next⟩ = a ++ ⟨idv, some .user, m.next⟩ :: b := by
        simp
      have hnew : liveL (a ++ (⟨idv, some .user, m.next⟩ : Slot) :: b) = liveL a ++ ((idv, m.next) :: liveL b) := by
        rw [liveL_append, liveL_cons]; simp [Slot.live]
      have hmem : ∀ p, p ∈ liveList m.d.tab ↔ p ∈ liveL a ∨ p ∈ liveL b := by
        intro p; rw [← hlive, List.mem_append]
      have hk := hw.keys
      have hrg := hw.regs
      rw [← hlive] at hk hrg
      have hfr := hr.fresh hs
      have hlk : sp.lookup idv = none := hr.lookup_none hfresh
      have hidv : UInt64.ofNat (idv.toNat : Int).toNat = idv := by simp
      refine ⟨{ sp with live := sp.live ++ [(idv, sp.next)], next := sp.next + 1, regd := sp.regd ++ [sp.next] }, ?_, ?_, ?_⟩
      · simp only [step, Spec.step, hres, hget, Option.map_some, Option.getD_some]
        have h1 : (0 : Int) ≤ (idv.toNat : Int) := Int.natCast_nonneg _
        have h2 : (idv.toNat : Int) < 18446744073709551616 := by have := idv.toNat_lt; omega
        simp [h1, h2, hidv, hlk]
      · simp only [step, hres, activate, hget, hset]
        constructor
        · intro p
          simp only [liveList_some, hnew, List.mem_append, List.mem_cons, List.mem_singleton, ← hr.live p, hmem p, hr.next]
          grind
        · exact hr.fb
        · exact hr.dflt
        · simp [hr.next]
        · exact hr.bi
      · simp only [step, hres, activate, hget, hset]
        constructor
        · rw [liveList_some, hnew]
          simp only [List.map_append, List.map_cons, List.map_nil, List.nodup_append, List.nodup_cons, List.mem_append, List.mem_cons, List.mem_map] at hk ⊢
          have hf1 : ∀ r, (idv, r) ∉ liveL a := fun r h => hfresh r ((hmem _).mpr (Or.inl h))
          have hf2 : ∀ r, (idv, r) ∉ liveL b := fun r h => hfresh r ((hmem _).mpr (Or.inr h))
          grind
        · rw [liveList_some, hnew]
          simp only [List.map_append, List.map_cons, List.map_nil, List.nodup_append, List.nodup_cons, List.mem_append, List.mem_cons, List.mem_map] at hrg ⊢
          have hf1 : ∀ p, p ∈ liveL a → p.2 ≠ m.next := fun p h => hfr p ((hmem _).mpr (Or.inl h))
          have hf2 : ∀ p, p ∈ liveL b → p.2 ≠ m.next := fun p h => hfr p ((hmem _).mpr (Or.inr h))
          grind
        · intro t' ht' s hs'
          cases ht'
          simp only [List.mem_append, List.mem_cons] at hs'
          have hab : s ∈ a ++ b ∨ s = ⟨idv, some .user, m.next⟩ := by
            rw [List.mem_append]
            rcases hs' with h | h | h
            · exact Or.inl (Or.inl h)
            · exact Or.inr h
            · exact Or.inl (Or.inr h)
          rcases hab with hab | rfl
          · rcases hsub s hab with ⟨t, ht, hst⟩ | hdead
            · exact hw.user t ht s hst
            · intro hc; unfold Slot.live at hdead; rw [hc] at hdead; cases hdead
          · simp

theorem refines_drop {m : St} {sp : Spec} (hw : TWf m.d.tab) (hr : Rel m sp) (_hs : SInv sp) :
    ∃ sp', sp.step .drop (step m .drop).2 = some sp' ∧ Rel (step m .drop).1 sp' ∧ TWf (step m .drop).1.d.tab := by
  have hlog : arrayDrop m.d.tab = (liveList m.d.tab).map (.fin ·.2) := by
    unfold arrayDrop
    cases ht : m.d.tab with
    | none => simp [liveList]
    | some t => simp only [liveList_some]; exact clear_log (hw.user t ht)
  refine ⟨{ sp with live := [] }, ?_, ?_, ?_⟩
  · have : Spec.sameSet (arrayDrop m.d.tab) (sp.live.map (.fin ·.2)) = true := by
      rw [sameSet_iff, hlog]
      refine ⟨fin_map_nodup hw.regs, ?_⟩
      intro e
      simp only [List.mem_map]
      constructor
      · rintro ⟨p, hp, rfl⟩; exact ⟨p, (hr.live p).mp hp, rfl⟩
      · rintro ⟨p, hp, rfl⟩; exact ⟨p, (hr.live p).mpr hp, rfl⟩
    simp [step, Spec.step, Spec.isOk, this]
  · simp only [step]
    constructor
    · intro p; simp [liveList]
    · exact hr.fb
    · exact hr.dflt
    · exact hr.next
    · exact hr.bi
  · simp only [step]; exact TWf.none

/-- `_command_init` refuses to copy the element of a live registration -/
theorem traitsCopy_spec (tab : Option Table) (r : Reg) :
    traitsCopy tab r < 0 ∨ ∀ p, p ∈ liveList tab → p.2 ≠ r := by
  unfold traitsCopy
  cases tab with
  | none => right; intro p hp; simp [liveList] at hp
  | some t =>
    simp only
    by_cases hany : t.slots.any (fun s => s.live && s.arg == r) = true
    · left; simp [hany, Err.code]
    · right
      intro p hp hpr
      rw [liveList_some, mem_liveL] at hp
      obtain ⟨s, hs, hl, he⟩ := hp
      apply hany
      rw [List.any_eq_true]
      exact ⟨s, hs, by simp [hl, ← hpr, he]⟩

theorem refines_tcopy {m : St} {sp : Spec} {r : Reg} (hw : TWf m.d.tab) (hr : Rel m sp) (_hs : SInv sp) :
    ∃ sp', sp.step (.tcopy r) (step m (.tcopy r)).2 = some sp' ∧ Rel (step m (.tcopy r)).1 sp' ∧ TWf (step m (.tcopy r)).1.d.tab := by
  refine ⟨sp, ?_, ⟨hr.live, hr.fb, hr.dflt, hr.next, hr.bi⟩, hw⟩
  have hout : (step m (.tcopy r)).2 = ⟨.val (traitsCopy m.d.tab r), []⟩ := rfl
  rw [hout]
  show (if ((([] : List LogE) == []) && (Spec.isErr (.val (traitsCopy m.d.tab r)) ||
      (Spec.isOk (.val (traitsCopy m.d.tab r)) && !(sp.live.map (·.2)).contains r))) = true
    then some sp else none) = some sp
  apply if_pos
  rcases traitsCopy_spec m.d.tab r with hneg | hno
  · simp [Spec.isErr, hneg]
  · have : ¬ (sp.live.map (·.2)).contains r = true := by
      simp only [List.contains_iff_mem, List.mem_map, not_exists, not_and]
      intro p hp
      exact hno p ((hr.live p).mpr hp)
    have h2 : (sp.live.map (·.2)).contains r = false := by simpa using this
    by_cases hneg : traitsCopy m.d.tab r < 0
    · simp [Spec.isErr, hneg]
    · have hge : 0 ≤ traitsCopy m.d.tab r := by omega
      simp only [Spec.isErr, Spec.isOk, hneg, hge, h2, beq_self_eq_true, decide_true, decide_false, Bool.not_false,
        Bool.and_self, Bool.or_true, Bool.false_or, Bool.true_and]

theorem refines_setDefault {m : St} {sp : Spec} {id : Id} (hw : TWf m.d.tab) (hr : Rel m sp) (hs : SInv sp) :
    ∃ sp', sp.step (.setDefault id) (step m (.setDefault id)).2 = some sp' ∧ Rel (step m (.setDefault id)).1 sp' ∧
      TWf (step m (.setDefault id)).1.d.tab := by
  have hlk := lookup_eq (id := id) hr hs
  cases hg : commandGet m.d.tab id with
  | some c =>
    rw [hg] at hlk
    refine ⟨{ sp with dflt := id }, ?_, ?_, ?_⟩
    · simp [step, Spec.step, setDefaultX, hg, hlk, Spec.isOk]
    · simp only [step, setDefaultX, hg]
      exact ⟨hr.live, hr.fb, rfl, hr.next, hr.bi⟩
    · simp only [step, setDefaultX, hg]; exact hw
  | none =>
    rw [hg] at hlk
    refine ⟨sp, ?_, ?_, ?_⟩
    · simp [step, Spec.step, setDefaultX, hg, hlk, Spec.isErr]
    · simp only [step, setDefaultX, hg]
      exact ⟨hr.live, hr.fb, hr.dflt, hr.next, hr.bi⟩
    · simp only [step, setDefaultX, hg]; exact hw

theorem refines_setError {m : St} {sp : Spec} (hw : TWf m.d.tab) (hr : Rel m sp) (_hs : SInv sp) :
    ∃ sp', sp.step .setError (step m .setError).2 = some sp' ∧ Rel (step m .setError).1 sp' ∧
      TWf (step m .setError).1.d.tab := by
  refine ⟨{ sp with fb := some sp.next, bi := false, next := sp.next + 1, regd := sp.regd ++ [sp.next] }, ?_, ?_, ?_⟩
  · simp only [step, Spec.step, setErrorX, errFin, hr.fb]
    cases m.d.err <;> simp [Spec.isOk]
  · simp only [step, setErrorX]
    exact ⟨hr.live, by simp [hr.next], hr.dflt, by simp [hr.next], rfl⟩
  · simp only [step, setErrorX]; exact hw

/-- one step of the model is accepted by the monitor and keeps the refinement relation -/
theorem step_refines {m : St} {sp : Spec} {op : Op} (hw : TWf m.d.tab) (hr : Rel m sp) (hs : SInv sp) :
    ∃ sp', sp.step op (step m op).2 = some sp' ∧ Rel (step m op).1 sp' ∧ TWf (step m op).1.d.tab := by
  cases op with
  | set id => exact refines_set hw hr hs
  | cset id => exact refines_cset hw hr hs
  | clear id => exact refines_clear hw hr hs
  | clearAll => exact refines_clearAll hw hr hs
  | emitId id h => exact refines_emitId hw hr hs
  | emitMsg msg h => exact refines_emitMsg hw hr hs
  | emitNone h => exact refines_emitNone hw hr hs
  | hash msg h => exact refines_hash hw hr hs
  | hashFrag frags h => exact refines_hashFrag hw hr hs
  | hashNone =>
    refine ⟨sp, ?_, ?_, ?_⟩
    · simp [step, Spec.step, nestedCall]
    · simp only [step]; exact ⟨hr.live, hr.fb, hr.dflt, hr.next, hr.bi⟩
    · simp only [step]; exact hw
  | emitCmd msg h => exact refines_emitCmd hw hr hs
  | reserve w => exact refines_reserve hw hr hs
  | fini => exact refines_fini hw hr hs
  | drop => exact refines_drop hw hr hs
  | tcopy r => exact refines_tcopy hw hr hs
  | setDefault id => exact refines_setDefault hw hr hs
  | setError => exact refines_setError hw hr hs

/-- histories: the monitor accepts the whole trace, and the log stays well-formed -/
theorem runFrom_refines {ops : List Op} {m : St} {sp : Spec} {L : List LogE} (hw : TWf m.d.tab) (hr : Rel m sp) (hs : SInv sp)
    (hl : LInv sp L) :
    ∃ sp', sp.run (runFrom m ops).2 = some sp' ∧ Rel (runFrom m ops).1 sp' ∧ TWf (runFrom m ops).1.d.tab ∧ SInv sp' ∧
      LInv sp' (L ++ logOf (runFrom m ops).2) := by
  induction ops generalizing m sp L with
  | nil => exact ⟨sp, rfl, hr, hw, hs, by simpa [runFrom, logOf] using hl⟩
  | cons op rest ih =>
    obtain ⟨sp1, h1, hr1, hw1⟩ := step_refines (op := op) hw hr hs
    obtain ⟨hs1, hl1⟩ := step_inv h1 hs hl
    obtain ⟨sp', h2, hr2, hw2, hs2, hl2⟩ := ih hw1 hr1 hs1 hl1
    refine ⟨sp', ?_, hr2, hw2, hs2, ?_⟩
    · simp only [runFrom, Spec.run, h1]
      exact h2
    · simpa [runFrom, logOf, List.append_assoc] using hl2

theorem run_refines (fb : Start) (ops : List Op) :
    ∃ sp', (Spec.init fb).run (run fb ops).2 = some sp' ∧ Rel (run fb ops).1 sp' ∧ TWf (run fb ops).1.d.tab ∧ SInv sp' ∧
      LInv sp' (logOf (run fb ops).2) := by
  have := runFrom_refines (ops := ops) (m := St.init fb) (sp := Spec.init fb) (L := [])
    (by simpa [St.init] using TWf.none) (Rel.init fb) (SInv.init fb) (LInv.init fb)
  simpa [run] using this


end Mpt.Dispatch
