/-
  Refinement for C11: every step of the implementation model `Impl/Dispatch.lean` is accepted by the spec
  monitor `Spec.step`, and the relation "the table's live registrations are the spec's map" is kept.
-/
import MptModel.Lemmas.DispatchTable
import MptModel.Lemmas.DispatchText
import MptModel.Lemmas.DispatchSpec
namespace Mpt.Dispatch

/-- table invariant: live ids pairwise distinct, live registrations pairwise distinct, no placeholder handler -/
structure TWf (tab : Option Table) : Prop where
  keys : ((liveList tab).map (·.1)).Nodup
  regs : ((liveList tab).map (·.2)).Nodup
  user : ∀ t, tab = some t → AllUser t.slots

theorem TWf.none : TWf none := by
  constructor <;> simp [liveList]

theorem allUser_set {slots : List Slot} {i : Nat} {s' : Slot} (h : AllUser slots) (hs : s'.cmd ≠ some .logReply) :
    AllUser (slots.set i s') := by
  intro s hm
  rcases List.mem_or_eq_of_mem_set hm with h1 | h1
  · exact h s h1
  · rw [h1]; exact hs

theorem allUser_append {a b : List Slot} (ha : AllUser a) (hb : AllUser b) : AllUser (a ++ b) := by
  intro s hm
  rw [List.mem_append] at hm
  rcases hm with h | h
  · exact ha s h
  · exact hb s h

/-- `mpt_command_set` with a harness handler and a fresh registration number -/
theorem commandSet_user {tab : Option Table} {id : Id} {r : Reg} (hw : TWf tab)
    (hfresh : ∀ p, p ∈ liveList tab → p.2 ≠ r) :
    let res := commandSet tab id (some .user) r
    TWf res.1 ∧
    ((∃ old, (id, old) ∈ liveList tab ∧ res.2.2 = [.fin old] ∧ res.2.1 = 0 ∧
        ∀ p, p ∈ liveList res.1 ↔ (p ∈ liveList tab ∧ p.1 ≠ id) ∨ p = (id, r)) ∨
     ((∀ r', (id, r') ∉ liveList tab) ∧ res.2.2 = [] ∧ 0 ≤ res.2.1 ∧
        ∀ p, p ∈ liveList res.1 ↔ p ∈ liveList tab ∨ p = (id, r))) := by
  intro res
  have hk := hw.keys
  have hr := hw.regs
  cases hg : commandGet tab id with
  | some x =>
    obtain ⟨i, old⟩ := x
    obtain ⟨t, rfl, hi, hl, hid⟩ := commandGet_some hg
    have hu := hw.user t rfl
    have hilen : i < t.slots.length := by
      rcases Nat.lt_or_ge i t.slots.length with h' | h'
      · exact h'
      · rw [List.getElem?_eq_none h'] at hi; cases hi
    have hres : res = (some { t with slots := t.slots.set i { old with cmd := some .user, arg := r } }, 0, finalise old) := by
      simp [res, commandSet, hg]
    rw [hres]
    simp only [liveList_some]
    have hsplit := liveL_split hi
    have hset := liveL_set (slots := t.slots) { old with cmd := some Hnd.user, arg := r } hilen
    simp only [hl, if_true] at hsplit
    simp only [Slot.live, Option.isSome_some, if_true] at hset
    simp only [liveList_some] at hk hr hfresh ⊢
    rw [hsplit] at hk hr hfresh
    have hfin : finalise old = [.fin old.arg] := by
      rw [finalise_user (hu old (List.mem_of_getElem? hi)), hl]; rfl
    refine ⟨⟨?_, ?_, ?_⟩, Or.inl ⟨old.arg, ?_, hfin, trivial, ?_⟩⟩
    · rw [liveList_some, hset]
      simp only [List.map_append, List.map_cons, List.map_nil, List.nodup_append, List.nodup_cons, List.mem_append, List.mem_cons, List.mem_map] at hk ⊢
      grind
    · rw [liveList_some, hset]
      simp only [List.map_append, List.map_cons, List.map_nil, List.nodup_append, List.nodup_cons, List.mem_append, List.mem_cons, List.mem_map] at hr hfresh ⊢
      grind
    · intro t' ht'
      cases ht'
      exact allUser_set hu (by simp)
    · rw [hsplit, ← hid]; simp
    · intro p
      rw [hset, hsplit]
      simp only [List.map_append, List.map_cons, List.map_nil, List.nodup_append, List.nodup_cons, List.mem_append, List.mem_cons, List.mem_map] at hk ⊢
      grind
  | none =>
    have hnone := commandGet_none hg
    cases tab with
    | none =>
      have hres : res = (some { slots := [⟨id, some .user, r⟩], cap := allocSize slotSize, typed := true }, 1, []) := by
        simp [res, commandSet]
      rw [hres]
      refine ⟨⟨?_, ?_, ?_⟩, Or.inr ⟨hnone, rfl, by simp, ?_⟩⟩
      · simp [liveList, Slot.live]
      · simp [liveList, Slot.live]
      · intro t' ht'; cases ht'
        intro s hs
        simp only [List.mem_singleton] at hs
        rw [hs]; simp
      · intro p; simp [liveList, Slot.live]
    | some t =>
      have hu := hw.user t rfl
      simp only [liveList_some] at hk hr hfresh hnone
      cases he : (if t.slots.length ≠ 0 then commandEmpty t.slots else none) with
      | some i =>
        have he' : commandEmpty t.slots = some i := by
          split at he
          · exact he
          · cases he
        obtain ⟨s0, hi, hl0⟩ := commandEmpty_some he'
        have hilen : i < t.slots.length := by
          rcases Nat.lt_or_ge i t.slots.length with h' | h'
          · exact h'
          · rw [List.getElem?_eq_none h'] at hi; cases hi
        have hres : res = (some { t with slots := t.slots.set i ⟨id, some .user, r⟩ }, 0, []) := by
          simp only [res, commandSet, hg, he]
        rw [hres]
        have hsplit := liveL_split hi
        have hset := liveL_set (slots := t.slots) ⟨id, some .user, r⟩ hilen
        simp only [hl0, Bool.false_eq_true, if_false, List.nil_append] at hsplit
        simp only [Slot.live, Option.isSome_some, if_true] at hset
        rw [hsplit] at hk hr hfresh hnone
        refine ⟨⟨?_, ?_, ?_⟩, Or.inr ⟨?_, rfl, by simp, ?_⟩⟩
        · rw [liveList_some, hset]
          simp only [List.map_append, List.map_cons, List.map_nil, List.nodup_append, List.nodup_cons, List.mem_append, List.mem_cons, List.mem_map] at hk hnone ⊢
          grind
        · rw [liveList_some, hset]
          simp only [List.map_append, List.map_cons, List.map_nil, List.nodup_append, List.nodup_cons, List.mem_append, List.mem_cons, List.mem_map] at hr hfresh ⊢
          grind
        · intro t' ht'
          cases ht'
          exact allUser_set hu (by simp)
        · intro r'; rw [liveList_some, hsplit]; exact hnone r'
        · intro p
          rw [liveList_some, liveList_some, hset, hsplit]
          simp only [List.mem_append, List.mem_cons]
          grind
      | none =>
        have hres : ∃ cap, res = (some { t with slots := t.slots ++ [⟨id, some .user, r⟩], cap := cap }, 1, []) := by
          refine ⟨if t.slots.length * slotSize + slotSize ≤ t.cap then t.cap else detachCap t (t.slots.length * slotSize + slotSize), ?_⟩
          simp only [res, commandSet, hg, he]
        obtain ⟨cap, hres⟩ := hres
        rw [hres]
        have happ : liveL (t.slots ++ [⟨id, some .user, r⟩]) = liveL t.slots ++ [(id, r)] := by
          rw [liveL_append, liveL_cons]; simp [Slot.live]
        refine ⟨⟨?_, ?_, ?_⟩, Or.inr ⟨?_, rfl, by simp, ?_⟩⟩
        · rw [liveList_some, happ]
          simp only [List.map_append, List.map_cons, List.map_nil, List.nodup_append, List.nodup_cons, List.mem_append, List.mem_cons, List.mem_map] at hk hnone ⊢
          grind
        · rw [liveList_some, happ]
          simp only [List.map_append, List.map_cons, List.map_nil, List.nodup_append, List.nodup_cons, List.mem_append, List.mem_cons, List.mem_map] at hr hfresh ⊢
          grind
        · intro t' ht'
          cases ht'
          exact allUser_append hu (by intro s hs; simp only [List.mem_singleton] at hs; rw [hs]; simp)
        · intro r'; rw [liveList_some]; exact hnone r'
        · intro p
          rw [liveList_some, liveList_some, happ]
          simp


/-- `mpt_dispatch_set(disp, id, NULL, NULL)` -/
theorem dispatchSet_clear {d : Disp} {id : Id} (hw : TWf d.tab) :
    let res := dispatchSet d id none 0
    TWf res.1.tab ∧ res.1.dflt = d.dflt ∧ res.1.err = d.err ∧
    ((∃ old, (id, old) ∈ liveList d.tab ∧ res.2.2 = [.fin old] ∧ 0 ≤ res.2.1 ∧
        ∀ p, p ∈ liveList res.1.tab ↔ (p ∈ liveList d.tab ∧ p.1 ≠ id)) ∨
     ((∀ r', (id, r') ∉ liveList d.tab) ∧ res.2.2 = [] ∧ res.2.1 < 0 ∧ res.1 = d)) := by
  intro res
  have hk := hw.keys
  have hr := hw.regs
  cases hg : commandGet d.tab id with
  | some x =>
    obtain ⟨i, old⟩ := x
    obtain ⟨t, htab, hi, hl, hid⟩ := commandGet_some hg
    have hu := hw.user t htab
    have hilen : i < t.slots.length := by
      rcases Nat.lt_or_ge i t.slots.length with h' | h'
      · exact h'
      · rw [List.getElem?_eq_none h'] at hi; cases hi
    have hres : res = ({ d with tab := some { t with slots := t.slots.set i { old with cmd := none, arg := 0 } } }, (i : Int), finalise old) := by
      have hg' := hg
      rw [htab] at hg'
      simp only [res, dispatchSet, htab, hg', Option.map_some]
    rw [hres]
    have hsplit := liveL_split hi
    have hset := liveL_set (slots := t.slots) { old with cmd := none, arg := 0 } hilen
    simp only [hl, if_true] at hsplit
    simp only [Slot.live, Option.isSome_none, Bool.false_eq_true, if_false, List.nil_append] at hset
    rw [htab] at hk hr
    simp only [liveList_some] at hk hr
    rw [hsplit] at hk hr
    have hfin : finalise old = [.fin old.arg] := by
      rw [finalise_user (hu old (List.mem_of_getElem? hi)), hl]; rfl
    refine ⟨⟨?_, ?_, ?_⟩, rfl, rfl, Or.inl ⟨old.arg, ?_, hfin, by simp, ?_⟩⟩
    · rw [liveList_some, hset]
      simp only [List.map_append, List.map_cons, List.map_nil, List.nodup_append, List.nodup_cons, List.mem_append, List.mem_cons, List.mem_map] at hk ⊢
      grind
    · rw [liveList_some, hset]
      simp only [List.map_append, List.map_cons, List.map_nil, List.nodup_append, List.nodup_cons, List.mem_append, List.mem_cons, List.mem_map] at hr ⊢
      grind
    · intro t' ht'
      cases ht'
      exact allUser_set hu (by simp)
    · rw [htab, liveList_some, hsplit, ← hid]; simp
    · intro p
      rw [htab, liveList_some, liveList_some, hset, hsplit]
      simp only [List.map_append, List.map_cons, List.map_nil, List.nodup_append, List.nodup_cons, List.mem_append, List.mem_cons, List.mem_map] at hk ⊢
      grind
  | none =>
    have hnone := commandGet_none hg
    have hres : res = (d, Err.BadArgument.code, []) := by
      simp only [res, dispatchSet, hg]
    rw [hres]
    exact ⟨hw, rfl, rfl, Or.inr ⟨hnone, rfl, by simp [Err.code], rfl⟩⟩

/-- `mpt_dispatch_set(disp, id, handler, registration)` -/
theorem dispatchSet_user {d : Disp} {id : Id} {r : Reg} (hw : TWf d.tab)
    (hfresh : ∀ p, p ∈ liveList d.tab → p.2 ≠ r) :
    let res := dispatchSet d id (some .user) r
    TWf res.1.tab ∧ res.1.dflt = d.dflt ∧ res.1.err = d.err ∧
    ((∃ old, (id, old) ∈ liveList d.tab ∧ res.2.2 = [] ∧ res.2.1 < 0 ∧ res.1 = d) ∨
     ((∀ r', (id, r') ∉ liveList d.tab) ∧ res.2.2 = [] ∧ 0 ≤ res.2.1 ∧
        ∀ p, p ∈ liveList res.1.tab ↔ p ∈ liveList d.tab ∨ p = (id, r))) := by
  intro res
  cases hg : commandGet d.tab id with
  | some x =>
    obtain ⟨i, old⟩ := x
    obtain ⟨t, htab, hi, hl, hid⟩ := commandGet_some hg
    have hres : res = (d, Err.BadArgument.code, []) := by
      simp only [res, dispatchSet, hg]
    rw [hres]
    refine ⟨hw, rfl, rfl, Or.inl ⟨old.arg, ?_, rfl, by simp [Err.code], rfl⟩⟩
    rw [htab, liveList_some, ← hid]
    exact mem_liveL_of_getElem hi hl
  | none =>
    have hnone := commandGet_none hg
    have hres : res = ({ d with tab := (commandSet d.tab id (some .user) r).1 },
        (commandSet d.tab id (some .user) r).2.1, (commandSet d.tab id (some .user) r).2.2) := by
      simp only [res, dispatchSet, hg]
    rw [hres]
    obtain ⟨hw', hcase⟩ := commandSet_user (id := id) hw hfresh
    refine ⟨hw', rfl, rfl, Or.inr ?_⟩
    rcases hcase with ⟨old, hold, _⟩ | ⟨h1, h2, h3, h4⟩
    · exact absurd hold (hnone old)
    · exact ⟨h1, h2, h3, h4⟩

/-- the registration a resolved element (or the fallback) stands for -/
def resolveReg (cmd : Option (Nat × Slot)) (err : Option Nat) : Option Reg :=
  match cmd with
  | some (_, s) => some s.arg
  | none => err

theorem emitResolved_spec {d : Disp} {cmd : Option (Nat × Slot)} {evid : Id} {res : HRes}
    (hcmd : ∀ i s, cmd = some (i, s) → s.cmd = some .user) :
    emitResolved d cmd evid res =
      match resolveReg cmd d.err with
      | some r => ({ d with dflt := (book d.dflt evid res).2 }, ⟨.val (book d.dflt evid res).1, [.call r evid]⟩)
      | none => (d, ⟨.val (-1), []⟩) := by
  have key : ∀ r, (match invoke Hnd.user r evid res with
      | none => (d, (⟨.fault, []⟩ : Out))
      | some (log, evid', state) =>
        if state < 0 then (d, ⟨.val state, log⟩)
        else
          let f := state.toNat
          let d1 := if hasDefault f then { d with dflt := evid' } else d
          let f1 := if hasDefault f then clrDefault f else f
          let f2 := if d1.dflt != 0 then setDefault f1 else f1
          (d1, ⟨.val (Int.ofNat f2), log⟩)) =
      ({ d with dflt := (book d.dflt evid res).2 }, ⟨.val (book d.dflt evid res).1, [.call r evid]⟩) := by
    intro r
    simp only [invoke, book]
    by_cases hneg : res.val < 0
    · simp [hneg]
    · simp only [hneg, if_false]
      by_cases hd : hasDefault res.val.toNat = true
      · simp [hd]
      · simp [hd]
  unfold emitResolved
  cases cmd with
  | some x =>
    obtain ⟨i, s⟩ := x
    have := hcmd i s rfl
    simp only [this, Option.map_some, resolveReg]
    exact key s.arg
  | none =>
    cases he : d.err with
    | none => simp [Err.code, resolveReg]
    | some r =>
      simp only [Option.map_some, resolveReg]
      have := key r
      simp only [he] at this
      exact this


end Mpt.Dispatch
