/-
  Helper lemmas for C02 (core Lean only), liveness of the decoders: a call whose unread input contains the
  delimiter of the frame never answers "need more data" — it delivers, or asks for work area
  (`MissingBuffer`), or stands on an inline zero; with enough work area it does not ask.  The invariant that
  makes this true (`SlackOk`): a block that is open in its data part has at least one byte of work area.
-/
import MptModel.Lemmas.DecodeScan
namespace Mpt.Codec
open Mpt.Cobs

/-- a block that is open in its data part has work area left (`pos + len < curr`) -/
def SlackOk (v : Variant) (st : DecState) : Prop :=
  st.ctx / 256 < 256 ∧ (st.ctx / 256 < lenData v (st.ctx % 256) → st.pos + st.len < st.curr)

/-- the same for the loop variables -/
def JL (v : Variant) (l : Loc) : Prop := l.code < 256 ∧ l.pos < 256 ∧ (l.pos < lenData v l.code → 1 ≤ l.proc)

theorem lenData_zero (v : Variant) : lenData v 0 = 0 := by
  unfold lenData; split <;> simp

theorem slackOk_ctx0 (v : Variant) (st : DecState) (h : st.ctx = 0) : SlackOk v st := by
  refine ⟨by rw [h]; decide, fun hp => ?_⟩
  rw [h] at hp
  simp only [Nat.zero_div, Nat.zero_mod, lenData_zero] at hp
  omega

theorem lenZero_le (v : Variant) (c n : Nat) : lenZero v c n ≤ 2 := by
  unfold lenZero; split
  · omega
  · split <;> omega

/-- the zero loop succeeds when the work area suffices -/
theorem putZeros_ok (k : Nat) : ∀ (l : Loc) (r : Nat), k ≤ l.proc → r = l.r + 1 → r ≤ l.store.length →
    (putZeros k l r).2 = true := by
  induction k with
  | zero => intro l r _ _ _; rfl
  | succ k ih =>
    intro l r hk hr hrl
    unfold putZeros
    rw [if_neg (by omega)]
    have hw : l.w < r := by simp only [Loc.w, Loc.r] at *; omega
    rw [Loc.put_some l r 0 hw hrl]
    simp only
    apply ih
    · simp only; omega
    · simp only [Loc.r] at *; omega
    · simpa using hrl

theorem save_slack (v : Variant) (l : Loc) (st : DecState) (ret : DecRet) (hp : st.pos = l.done) (hj : JL v l) :
    SlackOk v (l.save st ret).st := by
  obtain ⟨hc, hpp, hs⟩ := hj
  have e1 : (l.pos * 256 + l.code) / 256 = l.pos := by omega
  have e2 : (l.pos * 256 + l.code) % 256 = l.code := by omega
  refine ⟨by simp only [Loc.save, e1]; exact hpp, fun hlt => ?_⟩
  simp only [Loc.save, e1, e2] at hlt ⊢
  have := hs hlt
  simp only [Loc.r]; omega

/-- **the block loop never stalls on a complete frame**: every exit keeps `SlackOk`; when the unread input
    contains a zero byte behind non-zero bytes `pre`, the exit is a delivery, an inline zero, or a request
    for work area — and not the latter when the work area exceeds `pre` by two -/
theorem decLoop_live (v : Variant) (st : DecState) (n : Nat) : ∀ l : Loc,
    l.r + n = l.store.length → JL v l → st.pos = l.done →
    SlackOk v (decLoop v st false n l).st ∧
    (∀ pre junk, l.store.drop l.r = pre ++ 0 :: junk → (∀ x ∈ pre, x ≠ 0) →
      ((decLoop v st false n l).ret = .val 1 ∨ (decLoop v st false n l).ret = .err .MissingData ∨
        (decLoop v st false n l).ret = .err .MissingBuffer) ∧
      (pre.length + 2 ≤ l.proc → (decLoop v st false n l).ret ≠ .err .MissingBuffer)) := by
  induction n with
  | zero =>
    intro l hn hj hp
    simp only [decLoop]
    refine ⟨save_slack v l st _ hp hj, ?_⟩
    intro pre junk hd _
    have := congrArg List.length hd
    simp only [List.length_drop, List.length_append, List.length_cons] at this
    omega
  | succ n ih =>
    intro l hn hj hp
    have hlt : l.r < l.store.length := by omega
    have hb : l.store[l.r]? = some l.store[l.r] := by simp [hlt]
    have hinp : l.store.drop l.r = l.store[l.r] :: l.store.drop (l.r + 1) := by
      rw [List.drop_eq_getElem_cons hlt]
    generalize l.store[l.r] = b at hb hinp
    unfold decLoop
    by_cases hdat : l.pos < lenData v l.code
    · have hproc := hj.2.2 hdat
      have hld := lenData_lt v l.code hj.1
      simp only [hdat, if_true, hb]
      by_cases hz : b = 0
      · simp only [hz, if_true]
        refine ⟨save_slack v _ st _ hp ⟨hj.1, hj.2.1, fun _ => hproc⟩, fun _ _ _ _ => ⟨Or.inr (Or.inl rfl), fun _ => by simp [Loc.save]⟩⟩
      simp only [hz, if_false]
      rw [if_neg (by omega)]
      have hw : l.w < l.r + 1 := by simp only [Loc.w, Loc.r]; omega
      rw [Loc.put_some { l with reads := l.reads ++ [l.r] } (l.r + 1) b hw (by simp only; omega)]
      simp only
      have hr1 : ({ l with store := l.store.set l.w b, mlen := l.mlen + 1, reads := l.reads ++ [l.r], writes := l.writes ++ [(l.w, l.r + 1)], pos := l.pos + 1 } : Loc).r = l.r + 1 := by
        simp only [Loc.r]; omega
      obtain ⟨ih1, ih2⟩ := ih { l with store := l.store.set l.w b, mlen := l.mlen + 1, reads := l.reads ++ [l.r], writes := l.writes ++ [(l.w, l.r + 1)], pos := l.pos + 1 }
        (by rw [hr1]; simp only [List.length_set]; omega) ⟨hj.1, by simp only; omega, fun _ => hproc⟩ hp
      refine ⟨ih1, ?_⟩
      intro pre junk hd hnz
      rw [hinp] at hd
      cases pre with
      | nil => simp only [List.nil_append, List.cons.injEq] at hd; exact absurd hd.1 hz
      | cons p0 pre' =>
        simp only [List.cons_append, List.cons.injEq] at hd
        have := ih2 pre' junk (by
          rw [hr1]; simp only
          rw [drop_set_lt _ _ _ _ hw]; exact hd.2) (fun x hx => hnz x (by simp [hx]))
        refine ⟨this.1, fun hs => this.2 (by simp only [List.length_cons] at hs ⊢; omega)⟩
    · simp only [hdat, if_false, Bool.false_eq_true, hb]
      obtain ⟨j, hjk, _, hjf, g1, g2, g3, g4, g5, g6, g7, _⟩ := putZeros_gen (lenData v l.code + lenZero v l.code b.toNat - l.pos)
        { l with reads := l.reads ++ [l.r] } (l.r + 1) rfl (by simp only; omega)
      have hok := putZeros_ok (lenData v l.code + lenZero v l.code b.toNat - l.pos) { l with reads := l.reads ++ [l.r] } (l.r + 1)
      have hk2 : lenData v l.code + lenZero v l.code b.toNat - l.pos ≤ 2 := by
        have := lenZero_le v l.code b.toNat; omega
      have hdz := lenDZ_lt v l.code b.toNat hj.1
      generalize hq : putZeros (lenData v l.code + lenZero v l.code b.toNat - l.pos) { l with reads := l.reads ++ [l.r] } (l.r + 1) = q
        at hjf g1 g2 g3 g4 g5 g6 g7 hok
      obtain ⟨l', ok⟩ := q
      simp only at hjf g1 g2 g3 g4 g5 g6 g7 hok
      have hr' : l'.r = l.r := by simp only [Loc.r] at *; omega
      cases ok
      · -- request for work area: the block is in its zero part
        simp only
        refine ⟨save_slack v l' st _ (by rw [g1]; exact hp) ⟨by rw [g4]; exact hj.1, by rw [g5]; have := hj.2.1; omega, fun h => by rw [g4, g5] at h; omega⟩, ?_⟩
        intro pre junk _ _
        refine ⟨Or.inr (Or.inr rfl), fun hs => ?_⟩
        have e1 : ({ l with reads := l.reads ++ [l.r] } : Loc).proc = l.proc := rfl
        have e2 : ({ l with reads := l.reads ++ [l.r] } : Loc).store = l.store := rfl
        have := hok (by rw [e1]; omega) rfl (by rw [e2]; omega)
        cases this
      · show (SlackOk v (if b = 0 then _ else _ : DecOut).st) ∧ _
        by_cases hz : b = 0
        · simp only [hz, if_true]
          exact ⟨slackOk_ctx0 v _ rfl, fun _ _ _ _ => ⟨by simp, fun _ => by simp⟩⟩
        · simp only [hz, if_false]
          have hr1 : ({ l' with proc := l'.proc + 1, code := b.toNat, pos := 0 } : Loc).r = l.r + 1 := by
            simp only [Loc.r] at *; omega
          obtain ⟨ih1, ih2⟩ := ih { l' with proc := l'.proc + 1, code := b.toNat, pos := 0 }
            (by rw [hr1]; simp only; omega) ⟨UInt8.toNat_lt b, by simp only; omega, fun _ => by simp only; omega⟩ (by simp only; rw [g1]; exact hp)
          refine ⟨ih1, ?_⟩
          intro pre junk hd hnz
          rw [hinp] at hd
          cases pre with
          | nil => simp only [List.nil_append, List.cons.injEq] at hd; exact absurd hd.1 hz
          | cons p0 pre' =>
            simp only [List.cons_append, List.cons.injEq] at hd
            have := ih2 pre' junk (by
              rw [hr1]; simp only
              have e : ({ l with reads := l.reads ++ [l.r] } : Loc).r = l.r := rfl
              rw [e] at g7
              rw [drop_ge_of_drop g7 (by omega)]; exact hd.2) (fun x hx => hnz x (by simp [hx]))
            refine ⟨this.1, fun hs => this.2 ?_⟩
            simp only [List.length_cons] at hs ⊢
            have : ({ l with reads := l.reads ++ [l.r] } : Loc).proc = l.proc := rfl
            omega

end Mpt.Codec
