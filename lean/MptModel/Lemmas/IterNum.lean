/-
  Helper lemmas for C19 (core Lean only): a number token of the canonical grammar (Spec/IterGrammar.lean) is
  scanned by the `strtod` subset of the model (`scanDouble`) to exactly the value the grammar gives it, and
  the scan stops right behind the token.
-/
import MptModel.Lemmas.Iter2
namespace Mpt.Iter
open Mpt.IterSpec

/-- the text behind a number cannot continue it -/
def Stops (rest : List Char) : Prop :=
  ∀ c, rest.head? = some c → isDigit c = false ∧ c ≠ '.' ∧ c ≠ 'e' ∧ c ≠ 'E'

theorem spanP_app (p : Char → Bool) (a b : List Char) (ha : ∀ c ∈ a, p c = true)
    (hb : ∀ c, b.head? = some c → p c = false) : spanP p (a ++ b) = (a, b) := by
  induction a with
  | nil =>
    cases b with
    | nil => simp [spanP]
    | cons c cs => simp [spanP, hb c rfl]
  | cons x xs ih =>
    simp only [List.cons_append, spanP]
    rw [if_pos (ha x (by simp)), ih (fun c hc => ha c (by simp [hc]))]

theorem takeWhile_all (p : Char → Bool) (l : List Char) : ∀ c ∈ l.takeWhile p, p c = true := by
  induction l with
  | nil => intro c hc; simp at hc
  | cons x xs ih =>
    intro c hc
    by_cases hx : p x = true
    · rw [List.takeWhile_cons_of_pos hx] at hc
      rcases List.mem_cons.1 hc with e | e
      · rw [e]; exact hx
      · exact ih c e
    · rw [List.takeWhile_cons_of_neg hx] at hc; simp at hc

theorem dropWhile_head (p : Char → Bool) (l : List Char) : ∀ c, (l.dropWhile p).head? = some c → p c = false := by
  intro c hc
  cases h : l.dropWhile p with
  | nil => rw [h] at hc; simp at hc
  | cons a as =>
    have h2 := List.head_dropWhile_not p (l := l) (by rw [h]; simp)
    simp only [h, List.head_cons] at h2
    rw [h] at hc; simp at hc; subst hc
    simpa using h2

theorem head_append_of_ne {α} (a b : List α) (h : a ≠ []) : (a ++ b).head? = a.head? := by
  cases a with
  | nil => exact absurd rfl h
  | cons x xs => rfl

theorem tail_append_of_ne {α} (a b : List α) (h : a ≠ []) : (a ++ b).tail = a.tail ++ b := by
  cases a with
  | nil => exact absurd rfl h
  | cons x xs => rfl

theorem natOf_eq (ds : List Char) : natOf ds = digitsVal 10 ds := rfl
theorem pow10_eq (e : Int) : IterSpec.pow10 e = Iter.pow10 e := rfl

theorem digit_not_space (c : Char) (h : isDigit c = true) : isSpace c = false := by
  unfold isDigit at h
  unfold isSpace
  simp only [Bool.and_eq_true, decide_eq_true_eq] at h
  simp only [Bool.or_eq_false_iff, Bool.and_eq_false_iff, decide_eq_false_iff_not]
  omega

theorem signRest_append (a b : List Char) (h : a ≠ []) : signRest (a ++ b) = signRest a ++ b := by
  unfold signRest
  rw [head_append_of_ne _ _ h]
  split
  · exact tail_append_of_ne _ _ h
  · rfl

/-- `unsign` of the spec is `signRest` of the model -/
theorem unsign_eq (s : List Char) : unsign s = signRest s := rfl

/-- a number token starts (behind its sign) with a digit; white space and sign handling of the scanner -/
theorem strict_shape (t rest : List Char) (v : Rat) (h : strictNumber t = some v) :
    numStart (t ++ rest) = intPart t ++ (afterInt t ++ rest) ∧ intPart t ≠ [] ∧
    (∀ c ∈ intPart t, isDigit c = true) ∧ dropSpace (t ++ rest) = t ++ rest := by
  unfold strictNumber at h
  split at h
  · cases h
  · rename_i hc
    simp only [not_or, Bool.not_eq_true', Bool.not_eq_false] at hc
    obtain ⟨hip, _⟩ := hc
    have hipne : intPart t ≠ [] := by intro e; rw [e] at hip; simp at hip
    have hu : unsign t = intPart t ++ afterInt t := (List.takeWhile_append_dropWhile).symm
    have hune : unsign t ≠ [] := by rw [hu]; simp [hipne]
    have htne : t ≠ [] := by
      intro e; apply hune; subst e; rfl
    have hd0 : ∀ c ∈ intPart t, isDigit c = true := takeWhile_all isDig _
    have hfirst : ∀ c, t.head? = some c → isSpace c = false := by
      intro c hc
      by_cases hsg : t.head? = some '-' ∨ t.head? = some '+'
      · rcases hsg with e | e <;> (rw [e] at hc; cases hc; decide)
      · have : unsign t = t := by unfold unsign; rw [if_neg hsg]
        rw [this] at hu
        have hh : t.head? = (intPart t).head? := by
          conv => lhs; rw [hu]
          exact head_append_of_ne _ _ hipne
        rw [hh] at hc
        have hm : c ∈ intPart t := List.mem_of_mem_head? hc
        exact digit_not_space c (hd0 c hm)
    have hds : dropSpace (t ++ rest) = t ++ rest := by
      cases t with
      | nil => exact absurd rfl htne
      | cons a as => exact dropSpace_id a _ (hfirst a rfl)
    have hhead : (t ++ rest).head? = t.head? := head_append_of_ne _ _ htne
    have hns : numStart (t ++ rest) = unsign t ++ rest := by
      unfold numStart signRest unsign
      rw [hds, hhead]
      split
      · exact tail_append_of_ne _ _ htne
      · rfl
    refine ⟨?_, hipne, hd0, hds⟩
    rw [hns, hu, List.append_assoc]

/-- a number token is no infinity literal -/
theorem strict_not_inf (t rest : List Char) (v : Rat) (h : strictNumber t = some v) : infScan (t ++ rest) = none := by
  obtain ⟨h1, h2, h3, _⟩ := strict_shape t rest v h
  unfold infScan
  rw [h1]
  cases hq : intPart t with
  | nil => exact absurd hq h2
  | cons d ds =>
    have hd : isDigit d = true := h3 d (by rw [hq]; simp)
    have : lower d ≠ 'i' := by
      unfold lower
      unfold isDigit at hd
      simp only [Bool.and_eq_true, decide_eq_true_eq] at hd
      rw [if_neg (by omega)]
      intro e; subst e; simp at hd
    simp only [List.cons_append]
    rw [infWord_none d _ this]

/-- **a number token is scanned exactly**: value and end position -/
theorem scan_strict (t rest : List Char) (v : Rat) (h : strictNumber t = some v) (hs : Stops rest) :
    scanOk (t ++ rest) = true ∧ scanVal (t ++ rest) = v ∧ scanRest (t ++ rest) = rest := by
  unfold strictNumber at h
  split at h
  · cases h
  · rename_i hc
    simp only [not_or, Bool.not_eq_true', Bool.not_eq_false] at hc
    obtain ⟨hip, hfp, hep, hend, _, _⟩ := hc
    -- structure of the token
    have hipne : intPart t ≠ [] := by intro e; rw [e] at hip; simp at hip
    have hu : unsign t = intPart t ++ afterInt t := (List.takeWhile_append_dropWhile).symm
    have hune : unsign t ≠ [] := by rw [hu]; simp [hipne]
    have htne : t ≠ [] := by
      intro e; apply hune; subst e; rfl
    -- first character: a sign or a digit, never white space
    have hd0 : ∀ c ∈ intPart t, isDigit c = true := takeWhile_all isDig _
    have hfirst : ∀ c, t.head? = some c → isSpace c = false := by
      intro c hc
      by_cases hsg : t.head? = some '-' ∨ t.head? = some '+'
      · rcases hsg with e | e <;> (rw [e] at hc; cases hc; decide)
      · have : unsign t = t := by unfold unsign; rw [if_neg hsg]
        rw [this] at hu
        have hh : t.head? = (intPart t).head? := by
          conv => lhs; rw [hu]
          exact head_append_of_ne _ _ hipne
        rw [hh] at hc
        have hm : c ∈ intPart t := List.mem_of_mem_head? hc
        exact digit_not_space c (hd0 c hm)
    have hds : dropSpace (t ++ rest) = t ++ rest := by
      cases t with
      | nil => exact absurd rfl htne
      | cons a as => exact dropSpace_id a _ (hfirst a rfl)
    have hhead : (t ++ rest).head? = t.head? := head_append_of_ne _ _ htne
    have hns : numStart (t ++ rest) = unsign t ++ rest := by
      unfold numStart signRest unsign
      rw [hds, hhead]
      split
      · exact tail_append_of_ne _ _ htne
      · rfl
    -- integer digits
    have hsp1 : spanP isDigit (numStart (t ++ rest)) = (intPart t, afterInt t ++ rest) := by
      rw [hns, hu, List.append_assoc]
      apply spanP_app _ _ _ hd0
      intro c hc
      by_cases hr : afterInt t = []
      · rw [hr] at hc; exact (hs c (by simpa using hc)).1
      · rw [head_append_of_ne _ _ hr] at hc
        exact dropWhile_head isDig _ c hc
    -- fraction
    have hfd : fracDigits (afterInt t ++ rest) = fracPart t ∧ fracRest (afterInt t ++ rest) = afterFrac t ++ rest := by
      unfold fracDigits fracRest fracPart afterFrac
      by_cases hdot : hasDot t = true
      · have hne : afterInt t ≠ [] := by
          intro e; unfold hasDot at hdot; rw [e] at hdot; simp at hdot
        have hh : (afterInt t ++ rest).head? = some '.' := by
          rw [head_append_of_ne _ _ hne]; unfold hasDot at hdot; simpa using hdot
        rw [if_pos hh, if_pos hh, tail_append_of_ne _ _ hne]
        simp only [hdot, ↓reduceIte]
        have hu2 : (afterInt t).tail = (afterInt t).tail.takeWhile isDig ++ (afterInt t).tail.dropWhile isDig :=
          (List.takeWhile_append_dropWhile).symm
        have : spanP isDigit ((afterInt t).tail ++ rest)
            = ((afterInt t).tail.takeWhile isDig, (afterInt t).tail.dropWhile isDig ++ rest) := by
          conv => lhs; rw [hu2, List.append_assoc]
          apply spanP_app _ _ _ (takeWhile_all isDig _)
          intro c hc
          by_cases hr : (afterInt t).tail.dropWhile isDig = []
          · rw [hr] at hc; exact (hs c (by simpa using hc)).1
          · rw [head_append_of_ne _ _ hr] at hc
            exact dropWhile_head isDig _ c hc
        rw [this]; exact ⟨by simp, by simp⟩
      · have hdot' : hasDot t = false := by simpa using hdot
        have hh : ¬ (afterInt t ++ rest).head? = some '.' := by
          intro hc
          by_cases hr : afterInt t = []
          · rw [hr] at hc; exact (hs '.' (by simpa using hc)).2.1 rfl
          · rw [head_append_of_ne _ _ hr] at hc
            unfold hasDot at hdot'; simp [hc] at hdot'
        rw [if_neg hh, if_neg hh]
        simp only [hdot', Bool.false_eq_true, ↓reduceIte]
        first | exact ⟨rfl, rfl⟩ | exact ⟨trivial, trivial⟩ | simp
    -- exponent
    have hex : expRest (afterFrac t ++ rest) = rest ∧
        expVal (afterFrac t ++ rest) =
          (if hasExp t = true ∧ expNeg t = true then -(natOf (expPart t) : Int) else (natOf (expPart t) : Int)) := by
      by_cases hexp : hasExp t = true
      · have hepne : expPart t ≠ [] := by
          intro e; exact hep ⟨hexp, by rw [e]; rfl⟩
        have hafe : afterExp t = [] := by simpa using hend
        unfold expPart at hepne
        rw [if_pos hexp] at hepne
        unfold afterExp at hafe
        rw [if_pos hexp] at hafe
        have hbody : expBody t = (expBody t).takeWhile isDig := by
          have := (List.takeWhile_append_dropWhile (p := isDig) (l := expBody t)).symm
          rw [hafe, List.append_nil] at this; exact this
        have hne : afterFrac t ≠ [] := by
          intro e; unfold hasExp at hexp; rw [e] at hexp; simp at hexp
        have htl : (afterFrac t).tail ≠ [] := by
          intro e
          apply hepne
          unfold expBody unsign; rw [e]; simp
        obtain ⟨x, xs, hx⟩ : ∃ x xs, afterFrac t = x :: xs := by
          cases hq : afterFrac t with
          | nil => exact absurd hq hne
          | cons x xs => exact ⟨x, xs, rfl⟩
        have hxe : x = 'e' ∨ x = 'E' := by
          unfold hasExp at hexp; rw [hx] at hexp; simpa using hexp
        have hxs : xs ≠ [] := by rw [hx] at htl; simpa using htl
        have hsr : signRest (xs ++ rest) = expBody t ++ rest := by
          have : expBody t = signRest xs := by unfold expBody; rw [hx]; rfl
          rw [this]; exact signRest_append xs rest hxs
        have hspan : spanP isDigit (expBody t ++ rest) = ((expBody t).takeWhile isDig, rest) := by
          conv => lhs; rw [hbody]
          apply spanP_app _ _ _ (takeWhile_all isDig _)
          intro c hc; exact (hs c hc).1
        have hdig : expDigits (afterFrac t ++ rest) = (expBody t).takeWhile isDig := by
          rw [hx]
          simp only [List.cons_append, expDigits]
          rw [if_pos hxe, hsr, hspan]
        have hdne : (expDigits (afterFrac t ++ rest)).isEmpty = false := by
          rw [hdig]
          cases hq : (expBody t).takeWhile isDig with
          | nil => exact absurd hq hepne
          | cons _ _ => rfl
        constructor
        · unfold expRest
          rw [hdne]
          simp only [Bool.false_eq_true, ↓reduceIte]
          rw [hx]
          simp only [List.cons_append, List.tail_cons]
          rw [hsr, hspan]
        · unfold expVal
          rw [hdne]
          simp only [Bool.false_eq_true, ↓reduceIte]
          rw [hdig]
          have hneg : ((afterFrac t ++ rest).tail.head? = some '-') ↔ expNeg t = true := by
            have e1 : (afterFrac t ++ rest).tail.head? = xs.head? := by
              rw [hx]; exact head_append_of_ne _ _ hxs
            have e2 : expNeg t = decide (xs.head? = some '-') := by unfold expNeg; rw [hx]; rfl
            rw [e1, e2]; simp
          unfold expPart
          rw [if_pos hexp]
          simp only [hexp, true_and]
          by_cases hn : expNeg t = true
          · rw [if_pos (hneg.2 hn), if_pos hn]; rfl
          · rw [if_neg (fun h => hn (hneg.1 h)), if_neg hn]; rfl
      · have hexp' : hasExp t = false := by simpa using hexp
        have hafe : afterExp t = [] := by simpa using hend
        unfold afterExp at hafe
        rw [hexp'] at hafe
        simp only [Bool.false_eq_true, ↓reduceIte] at hafe
        rw [hafe, List.nil_append]
        have hdig : expDigits rest = [] := by
          cases rest with
          | nil => rfl
          | cons c cs =>
            have := hs c rfl
            simp only [expDigits]
            rw [if_neg (by intro hc; rcases hc with hc | hc <;> simp [hc] at this)]
        constructor
        · unfold expRest; rw [hdig]; rfl
        · unfold expVal expPart
          rw [hdig, hexp']
          simp [natOf]
    -- assemble
    have hok : scanOk (t ++ rest) = true := by
      unfold scanOk
      rw [hsp1]
      simp only []
      cases hq : intPart t with
      | nil => exact absurd hq hipne
      | cons _ _ => rfl
    refine ⟨hok, ?_, ?_⟩
    · unfold scanVal
      rw [hsp1]
      simp only []
      rw [hfd.1, hfd.2, hex.2, hds, hhead]
      cases h
      rfl
    · unfold scanRest
      rw [hsp1]
      simp only []
      rw [hfd.2, hex.1]

end Mpt.Iter
