/-
  Refinement lemmas for all four COBS framings (core Lean only): the encoder model against the reference
  encoder on *marked* bytes (a cut where an encoder call ended — zero pair elimination cannot look past it).
-/
import MptModel.Lemmas.Encode
namespace Mpt.Codec
open Mpt.Cobs

/-- marks of one piece handed to the encoder: a cut after its last byte -/
def markChunk (bytes : List Byte) : List (Byte × Bool) :=
  (bytes.dropLast.map fun b => (b, false)) ++ (bytes.getLast?.toList.map fun b => (b, true))

theorem markChunk_nil : markChunk [] = [] := rfl
theorem markChunk_single (b : Byte) : markChunk [b] = [(b, true)] := rfl
theorem markChunk_cons (b c : Byte) (tl : List Byte) : markChunk (b :: c :: tl) = (b, false) :: markChunk (c :: tl) := by
  simp [markChunk, List.getLast?_cons_cons]

theorem markChunk_fst (bytes : List Byte) : (markChunk bytes).map Prod.fst = bytes := by
  rcases List.eq_nil_or_concat bytes with h | ⟨ys, e, h⟩
  · subst h; rfl
  · subst h; simp [markChunk, Function.comp_def]

/-- a data byte -/
theorem encB_full (v : Variant) (run : List Byte) (b : Byte) (cut : Bool) (rest : List (Byte × Bool)) (hb : b ≠ 0)
    (h : run.length + 2 = v.maxlen) :
    encB v run false ((b, cut) :: rest) = UInt8.ofNat v.maxlen :: ((run ++ [b]) ++ encB v [] false rest) := by
  simp [encB, hb, h]

theorem encB_data (v : Variant) (run : List Byte) (b : Byte) (cut : Bool) (rest : List (Byte × Bool)) (hb : b ≠ 0)
    (h : run.length + 2 ≠ v.maxlen) :
    encB v run false ((b, cut) :: rest) = encB v (run ++ [b]) false rest := by
  simp [encB, hb, h]

/-- a zero byte that is not folded into a pair -/
theorem encB_zero_plain (v : Variant) (run : List Byte) (cut : Bool) (rest : List (Byte × Bool))
    (h : pairOk v run = false ∨ cut = true ∨ (∀ y c tl, rest = (y, c) :: tl → y ≠ 0)) :
    encB v run false ((0, cut) :: rest) = codeOf run :: (run ++ encB v [] false rest) := by
  have hm := v.maxlen_cases
  by_cases hpc : pairOk v run = true ∧ cut = false
  · have h3 : ∀ y c tl, rest = (y, c) :: tl → y ≠ 0 := by
      rcases h with h | h | h
      · simp [hpc.1] at h
      · simp [hpc.2] at h
      · exact h
    simp only [encB, Bool.false_eq_true, if_false, if_true, hpc, and_self]
    cases rest with
    | nil => simp [encB, finalBlock]
    | cons y tl =>
      obtain ⟨y, c⟩ := y
      have hy := h3 y c tl rfl
      simp only [encB, if_true, hy, if_false, Bool.false_eq_true]
      have : ¬ (2 = v.maxlen) := by omega
      simp [this]
  · simp [encB, hpc]

/-- a zero pair -/
theorem encB_zero_pair (v : Variant) (run : List Byte) (cut : Bool) (rest : List (Byte × Bool)) (h : pairOk v run = true) :
    encB v run false ((0, false) :: (0, cut) :: rest) = pairCode run :: (run ++ encB v [] false rest) := by
  simp [encB, h]


/-- what the data loop guarantees when it stops (all framings): the consumed bytes, marked as one piece,
    continue the reference encoding -/
def LoopPostM (v : Variant) (w : List Byte) (dst : Nat) (pre run bs : List Byte) (o : LoopOut) : Prop :=
  o.win.length = w.length ∧ o.rem ≤ bs.length ∧ (dst + 2 * bs.length < w.length → o.rem = 0) ∧
  o.dst + 2 * o.rem ≤ dst + 2 * bs.length ∧ (dst + 2 ≤ w.length → bs ≠ [] → o.rem < bs.length) ∧
  ∃ fin' run', o.code = run'.length + 1 ∧ run'.length + 1 < v.maxlen ∧
    o.dst = pre.length + fin'.length + o.code ∧ o.dst ≤ w.length ∧
    o.win.take o.dst = pre ++ fin' ++ codeOf run' :: run' ∧
    (∀ rest, encB v run false (markChunk (bs.take (bs.length - o.rem)) ++ rest) = fin' ++ encB v run' false rest)

theorem take_cons_rem (b : Byte) (rest : List Byte) (rem : Nat) (h : rem ≤ rest.length) :
    (b :: rest).take ((b :: rest).length - rem) = b :: rest.take (rest.length - rem) := by
  have : (b :: rest).length - rem = (rest.length - rem) + 1 := by simp; omega
  rw [this]; rfl

/-- one consumed byte `b`; `Q` is what is known about the byte behind it -/
theorem LoopPostM.cons {v : Variant} {w w1 : List Byte} {dst dst1 : Nat} {pre delta run run1 rest : List Byte} {b : Byte}
    {o : LoopOut} (Q : Byte → Prop) (h : LoopPostM v w1 dst1 (pre ++ delta) run1 rest o) (hl : w1.length = w.length)
    (hd : dst1 ≤ dst + 2) (hQ : ∀ y tl, rest = y :: tl → Q y)
    (hs : ∀ cut r, (cut = true ∨ ∀ y c tl, r = (y, c) :: tl → Q y) →
      encB v run false ((b, cut) :: r) = delta ++ encB v run1 false r) :
    LoopPostM v w dst pre run (b :: rest) o := by
  obtain ⟨h1, h2, h3, h3b, _, fin', run', h4, h5, h6, h7, h8, h9⟩ := h
  refine ⟨by omega, by simp; omega, ?_, by simp; omega, (fun _ _ => by simp only [List.length_cons]; omega), delta ++ fin', run', h4, h5, ?_, by omega, ?_, ?_⟩
  · intro ha; apply h3; simp at ha; omega
  · simp at h6 ⊢; omega
  · simpa using h8
  · intro r
    rw [take_cons_rem b rest o.rem h2]
    cases hcons : rest.take (rest.length - o.rem) with
    | nil =>
      rw [hcons] at h9
      simp only [markChunk_single, markChunk_nil, List.nil_append, List.cons_append] at h9 ⊢
      rw [hs true r (Or.inl rfl), h9]; simp
    | cons y tl =>
      rw [hcons] at h9
      have hy : Q y := by
        cases rest with
        | nil => simp at hcons
        | cons y' tl' =>
          have : y' = y := by
            have := congrArg List.head? hcons
            cases hk : (y' :: tl').length - o.rem with
            | zero => rw [hk] at hcons; simp at hcons
            | succ k => rw [hk] at this; simpa using this
          subst this
          exact hQ y' tl' rfl
      rw [markChunk_cons]
      simp only [List.cons_append]
      rw [hs false _ (Or.inr ?_), h9]
      · simp
      · intro y' c tl' he
        cases tl with
        | nil => simp [markChunk_single] at he; rw [← he.1.1]; exact hy
        | cons z tl2 => rw [markChunk_cons] at he; simp at he; rw [← he.1.1]; exact hy

/-- a consumed zero pair -/
theorem LoopPostM.cons2 {v : Variant} {w w1 : List Byte} {dst dst1 : Nat} {pre run rest : List Byte}
    {o : LoopOut} (h : LoopPostM v w1 dst1 (pre ++ (pairCode run :: run)) [] rest o) (hl : w1.length = w.length)
    (hd : dst1 ≤ dst + 2) (hp : pairOk v run = true) :
    LoopPostM v w dst pre run (0 :: 0 :: rest) o := by
  obtain ⟨h1, h2, h3, h3b, _, fin', run', h4, h5, h6, h7, h8, h9⟩ := h
  refine ⟨by omega, by simp; omega, ?_, by simp; omega, (fun _ _ => by simp only [List.length_cons]; omega), (pairCode run :: run) ++ fin', run', h4, h5, ?_, by omega, ?_, ?_⟩
  · intro ha; apply h3; simp at ha; omega
  · simp at h6 ⊢; omega
  · simpa using h8
  · intro r
    rw [take_cons_rem 0 (0 :: rest) o.rem (by simp; omega), take_cons_rem 0 rest o.rem h2, markChunk_cons]
    cases hcons : rest.take (rest.length - o.rem) with
    | nil =>
      rw [hcons] at h9
      simp only [markChunk_single, markChunk_nil, List.nil_append, List.cons_append] at h9 ⊢
      rw [encB_zero_pair v run true r hp, h9]; simp
    | cons y tl =>
      rw [hcons] at h9
      rw [markChunk_cons]
      simp only [List.cons_append]
      rw [encB_zero_pair v run false _ hp, h9]; simp


theorem pair_iff (v : Variant) (run : List Byte) (code : Nat) (hc : code = run.length + 1) :
    (v.isZpe && decide (1 < code) && decide (code < 32)) = pairOk v run := by
  subst hc
  simp only [pairOk]
  congr 1
  · congr 1
    simp; omega
  · simp; omega

theorem encLoopM_spec (v : Variant) : ∀ (n : Nat) (bs : List Byte), bs.length = n →
    ∀ (w : List Byte) (dst code : Nat) (pre : List Byte) (ph : Byte) (run : List Byte),
      w.take dst = pre ++ ph :: run → code = run.length + 1 → dst < w.length → run.length + 1 < v.maxlen →
      ∃ o, encLoop v w dst code false bs = .ok o ∧ LoopPostM v w dst pre run bs o := by
  intro n
  induction n using Nat.strongRecOn with
  | _ n ih =>
  intro bs hbs w dst code pre ph run hw hc hd hr
  have hm := v.maxlen_cases
  have hlen : dst = pre.length + 1 + run.length := by
    have := congrArg List.length hw; simp at this; omega
  have hi : dst - code = pre.length := by omega
  cases bs with
  | nil =>
    refine ⟨⟨w.set pre.length (UInt8.ofNat code), dst, code, 0⟩, ?_, ?_⟩
    · simp only [encLoop, hi]
      rw [wr_ok _ _ _ (by omega)]; rfl
    · refine ⟨by simp, by simp, by simp, by simp, (fun _ h => absurd rfl h), [], run, hc, hr, by simp; omega, by simp; omega, ?_, by simp [markChunk_nil]⟩
      simp only [List.append_nil]
      rw [take_set_mid w dst pre ph _ run hw, hc]; rfl
  | cons b rest =>
    have hrl : rest.length < n := by simp at hbs; omega
    by_cases hb : b = 0
    · subst hb
      have hw1 : (w.set pre.length (UInt8.ofNat code)).take dst = pre ++ codeOf run :: run := by
        rw [take_set_mid w dst pre ph _ run hw, hc]; rfl
      by_cases hpair : pairOk v run = true ∧ rest.head? = some 0
      · -- zero pair
        obtain ⟨hpo, hhead⟩ := hpair
        obtain ⟨rest2, rfl⟩ : ∃ rest2, rest = 0 :: rest2 := by
          cases rest with
          | nil => simp at hhead
          | cons y tl => simp at hhead; exact ⟨tl, by rw [hhead]⟩
        have hpz := (pairOk_iff v run).mp hpo
        have hmz := v.zpe_maxlen hpz.1
        have hpairb : (v.isZpe && decide (1 < code) && decide (code < 32) && ((0 :: rest2).head? == some 0)) = true := by
          rw [pair_iff v run code hc, hpo]; simp
        have hcode : UInt8.ofNat (code + v.maxlen) = pairCode run := by
          rw [hc, hmz]; unfold pairCode; congr 1
        have hw1p : (w.set pre.length (pairCode run)).take dst = pre ++ pairCode run :: run := by
          rw [take_set_mid w dst pre ph _ run hw]
        by_cases hfull : dst + 1 = w.length
        · refine ⟨⟨(w.set pre.length (pairCode run)).set dst 1, dst + 1, 1, rest2.length⟩, ?_, ?_⟩
          · simp only [encLoop, if_true, hpairb, hi, hcode]
            rw [wr_ok _ _ _ (by omega)]
            simp only [CRes.bind_ok]
            rw [if_pos (by simpa using hfull), wr_ok _ _ _ (by simp; omega)]
            simp
          · refine ⟨by simp, by simp; omega, by simp; omega, by simp; omega, (fun _ _ => by simp only [List.length_cons]; omega), pairCode run :: run, [], rfl, by simp; omega, ?_, by simp; omega, ?_, ?_⟩
            · simp only [List.length_cons]; omega
            · simp only
              rw [take_succ_set _ _ _ (by simp; omega), hw1p]; simp [codeOf]
            · intro r
              have : (0 :: 0 :: rest2).take ((0 :: 0 :: rest2).length - rest2.length) = [0, 0] := by
                have : (0 :: 0 :: rest2).length - rest2.length = 2 := by simp; omega
                rw [this]; rfl
              rw [this, markChunk_cons, markChunk_single]
              simp only [List.cons_append, List.nil_append]
              rw [encB_zero_pair v run true r hpo]
        · obtain ⟨ph', hw2⟩ := take_succ_ex (w.set pre.length (pairCode run)) dst (by simp; omega)
          rw [hw1p] at hw2
          obtain ⟨o, ho, hp⟩ := ih rest2.length (by simp at hbs; omega) rest2 rfl (w.set pre.length (pairCode run)) (dst + 1) 1
            (pre ++ pairCode run :: run) ph' [] hw2 rfl (by simp; omega) (by simp; omega)
          refine ⟨o, ?_, ?_⟩
          · simp only [encLoop, if_true, hpairb, hi, hcode]
            rw [wr_ok _ _ _ (by omega)]
            simp only [CRes.bind_ok]
            rw [if_neg (by simpa using hfull)]
            exact ho
          · exact LoopPostM.cons2 hp (by simp) (by omega) hpo
      · -- plain zero
        have hpairb : (v.isZpe && decide (1 < code) && decide (code < 32) && (rest.head? == some 0)) = false := by
          rw [pair_iff v run code hc]
          by_cases h1 : pairOk v run = true
          · have : rest.head? ≠ some 0 := fun h => hpair ⟨h1, h⟩
            simp [h1, this]
          · simp [h1]
        have hQ : ∀ y tl, rest = y :: tl → (y ≠ 0 ∨ pairOk v run = false) := by
          intro y tl he
          by_cases h1 : pairOk v run = true
          · left; intro hy; subst hy; subst he; exact hpair ⟨h1, rfl⟩
          · right; simpa using h1
        have hs : ∀ cut r, (cut = true ∨ ∀ y c tl, r = (y, c) :: tl → (y ≠ 0 ∨ pairOk v run = false)) →
            encB v run false ((0, cut) :: r) = (codeOf run :: run) ++ encB v [] false r := by
          intro cut r h
          rw [encB_zero_plain v run cut r ?_]; simp
          rcases h with h | h
          · exact Or.inr (Or.inl h)
          · by_cases h1 : pairOk v run = false
            · exact Or.inl h1
            · right; right
              intro y c tl he
              rcases h y c tl he with h2 | h2
              · exact h2
              · exact absurd h2 h1
        by_cases hfull : dst + 1 = w.length
        · refine ⟨⟨(w.set pre.length (UInt8.ofNat code)).set dst 1, dst + 1, 1, rest.length⟩, ?_, ?_⟩
          · simp only [encLoop, if_true, hpairb, hi, Bool.false_eq_true, if_false]
            rw [wr_ok _ _ _ (by omega)]
            simp only [CRes.bind_ok]
            rw [if_pos (by simpa using hfull), wr_ok _ _ _ (by simp; omega)]; rfl
          · refine ⟨by simp, by simp, by simp; omega, by simp; omega, (fun _ _ => by simp only [List.length_cons]; omega), codeOf run :: run, [], rfl, by simp; omega, ?_, by simp; omega, ?_, ?_⟩
            · simp only [List.length_cons]; omega
            · simp only
              rw [take_succ_set _ _ _ (by simp; omega), hw1]; simp [codeOf]
            · intro r
              have : (0 :: rest).take ((0 :: rest).length - rest.length) = [0] := by
                have : (0 :: rest).length - rest.length = 1 := by simp
                rw [this]; rfl
              rw [this, markChunk_single]
              simp only [List.cons_append, List.nil_append]
              rw [hs true r (Or.inl rfl)]; simp
        · have hd1 : dst + 1 < (w.set pre.length (UInt8.ofNat code)).length := by simp; omega
          obtain ⟨ph', hw2⟩ := take_succ_ex (w.set pre.length (UInt8.ofNat code)) dst (by simp; omega)
          rw [hw1] at hw2
          obtain ⟨o, ho, hp⟩ := ih rest.length hrl rest rfl (w.set pre.length (UInt8.ofNat code)) (dst + 1) 1
            (pre ++ codeOf run :: run) ph' [] hw2 rfl hd1 (by simp; omega)
          refine ⟨o, ?_, ?_⟩
          · simp only [encLoop, if_true, hpairb, hi, Bool.false_eq_true, if_false]
            rw [wr_ok _ _ _ (by omega)]
            simp only [CRes.bind_ok]
            rw [if_neg (by simpa using hfull)]
            exact ho
          · exact LoopPostM.cons (fun y => y ≠ 0 ∨ pairOk v run = false) hp (by simp) (by omega) hQ hs
    · -- data byte
      have hw1 : (w.set dst b).take (dst + 1) = pre ++ ph :: (run ++ [b]) := by
        rw [take_succ_set _ _ _ hd, hw]; simp
      have hw0 : (w.set dst b).take dst = pre ++ ph :: run := by rw [take_set_ge _ _ _ _ (Nat.le_refl _), hw]
      by_cases hmax : code + 1 = v.maxlen
      · by_cases hfull : dst + 1 = w.length
        · refine ⟨⟨(w.set dst b).set pre.length (UInt8.ofNat code), dst, code, rest.length + 1⟩, ?_, ?_⟩
          · simp only [encLoop, hb, if_false, hmax, if_true, hi]
            rw [wr_ok _ _ _ hd]
            simp only [CRes.bind_ok]
            rw [if_pos hfull, wr_ok _ _ _ (by simp; omega)]; rfl
          · refine ⟨by simp, by simp, by simp; omega, by simp, (fun h _ => by omega), [], run, hc, hr, by simp; omega, by simp; omega, ?_, ?_⟩
            · simp only [List.append_nil]
              rw [take_set_mid _ dst pre ph _ run hw0, hc]; rfl
            · intro r; simp [markChunk_nil]
        · have hw2 : ((w.set dst b).set pre.length (UInt8.ofNat (code + 1))).take (dst + 1)
              = pre ++ UInt8.ofNat v.maxlen :: (run ++ [b]) := by
            rw [take_set_mid _ (dst + 1) pre ph _ (run ++ [b]) hw1, hmax]
          have hspec : ∀ cut r, encB v run false ((b, cut) :: r) = (UInt8.ofNat v.maxlen :: (run ++ [b])) ++ encB v [] false r := by
            intro cut r; rw [encB_full v run b cut r hb (by omega)]; simp
          by_cases hfull2 : dst + 2 = w.length
          · refine ⟨⟨((w.set dst b).set pre.length (UInt8.ofNat (code + 1))).set (dst + 1) 1, dst + 2, 1, rest.length⟩, ?_, ?_⟩
            · simp only [encLoop, hb, if_false, hmax, if_true, hfull, hi]
              rw [wr_ok _ _ _ hd]
              simp only [CRes.bind_ok]
              rw [← hmax, wr_ok _ _ _ (by simp; omega)]
              simp only [CRes.bind_ok]
              rw [if_pos hfull2, wr_ok _ _ _ (by simp; omega)]; rfl
            · refine ⟨by simp, by simp, by simp; omega, by simp; omega, (fun _ _ => by simp only [List.length_cons]; omega), UInt8.ofNat v.maxlen :: (run ++ [b]), [], rfl, by simp; omega, ?_, by simp; omega, ?_, ?_⟩
              · simp only [List.length_cons, List.length_append, List.length_nil]; omega
              · simp only
                rw [take_succ_set _ _ _ (by simp; omega), hw2]; simp [codeOf]
              · intro r
                have : (b :: rest).take ((b :: rest).length - rest.length) = [b] := by
                  have : (b :: rest).length - rest.length = 1 := by simp
                  rw [this]; rfl
                rw [this, markChunk_single]
                simp only [List.cons_append, List.nil_append]
                rw [hspec]; simp
          · obtain ⟨ph', hw3⟩ := take_succ_ex ((w.set dst b).set pre.length (UInt8.ofNat (code + 1))) (dst + 1) (by simp; omega)
            rw [hw2] at hw3
            obtain ⟨o, ho, hp⟩ := ih rest.length hrl rest rfl ((w.set dst b).set pre.length (UInt8.ofNat (code + 1))) (dst + 2) 1
              (pre ++ UInt8.ofNat v.maxlen :: (run ++ [b])) ph' [] hw3 rfl (by simp; omega) (by simp; omega)
            refine ⟨o, ?_, ?_⟩
            · simp only [encLoop, hb, if_false, hmax, if_true, hfull, hi]
              rw [wr_ok _ _ _ hd]
              simp only [CRes.bind_ok]
              rw [← hmax, wr_ok _ _ _ (by simp; omega)]
              simp only [CRes.bind_ok]
              rw [if_neg hfull2]
              exact ho
            · exact LoopPostM.cons (fun _ => True) hp (by simp) (by omega) (fun _ _ _ => trivial) (fun cut r _ => hspec cut r)
      · have hspec : ∀ cut r, encB v run false ((b, cut) :: r) = [] ++ encB v (run ++ [b]) false r := by
          intro cut r; rw [encB_data v run b cut r hb (by omega)]; simp
        by_cases hfull : dst + 1 = w.length
        · refine ⟨⟨(w.set dst b).set pre.length (UInt8.ofNat (code + 1)), dst + 1, code + 1, rest.length⟩, ?_, ?_⟩
          · simp only [encLoop, hb, if_false, hmax, hi]
            rw [wr_ok _ _ _ hd]
            simp only [CRes.bind_ok]
            rw [if_pos hfull, wr_ok _ _ _ (by simp; omega)]; rfl
          · refine ⟨by simp, by simp, by simp; omega, by simp; omega, (fun _ _ => by simp only [List.length_cons]; omega), [], run ++ [b], by simp; omega, by simp; omega, by simp; omega, by simp; omega, ?_, ?_⟩
            · simp only [List.append_nil]
              rw [take_set_mid _ (dst + 1) pre ph _ (run ++ [b]) hw1, hc]
              simp [codeOf]
            · intro r
              have : (b :: rest).take ((b :: rest).length - rest.length) = [b] := by
                have : (b :: rest).length - rest.length = 1 := by simp
                rw [this]; rfl
              rw [this, markChunk_single]
              simp only [List.cons_append, List.nil_append]
              rw [hspec]; rfl
        · obtain ⟨o, ho, hp⟩ := ih rest.length hrl rest rfl (w.set dst b) (dst + 1) (code + 1) pre ph (run ++ [b]) hw1 (by simp; omega) (by simp; omega) (by simp; omega)
          refine ⟨o, ?_, ?_⟩
          · simp only [encLoop, hb, if_false, hmax, hfull, hi]
            rw [wr_ok _ _ _ hd]
            simp only [CRes.bind_ok]
            exact ho
          · have hp' : LoopPostM v (w.set dst b) (dst + 1) (pre ++ []) (run ++ [b]) rest o := by simpa using hp
            exact LoopPostM.cons (fun _ => True) hp' (by simp) (by omega) (fun _ _ _ => trivial) (fun cut r _ => hspec cut r)


theorem encodeCobsR_term_rawG (v : Variant) (ht : v.tail = true) (st : EncState)
    (win pre fin run : List Byte)
    (h1 : st.done = pre.length + fin.length) (h2 : run.length + 1 < v.maxlen) (h3 : Shape st win pre fin run) :
    (encodeCobsR v st win none = .err .MissingBuffer ∧ win.length ≤ st.done + st.scratch + 1) ∨
    ∃ o, encodeCobsR v st win none = .ok o ∧ TermPost win pre (fin ++ finalBlock v run ++ [0]) o := by
  have hm := v.maxlen_cases
  unfold encodeCobsR
  by_cases hs : st.scratch = 0
  · rw [if_pos (Or.inr hs)]
    have := encodeCobs_term_raw v st win pre fin run h1 h2 h3
    rcases h3 with ⟨a, b, c, e, f⟩ | ⟨a, b, c⟩
    · subst b; simpa [finalBlock, codeOf] using this
    · omega
  · rw [if_neg (by simp [hs])]
    rcases h3 with ⟨a, _⟩ | ⟨a, b, c⟩
    · omega
    simp only
    rw [if_neg (by omega)]
    rcases List.eq_nil_or_concat run with hr | ⟨rd, e, hr⟩
    · -- empty open block: no inlining
      subst hr
      have hsc : st.scratch = 1 := by simpa using a
      simp only [hsc, show ¬ (1 > 1) by omega, if_false, CRes.pure_eq, CRes.bind_ok]
      by_cases hg : win.length - st.done ≤ 1
      · left; rw [if_pos hg]; exact ⟨rfl, by omega⟩
      rw [if_neg hg]; right
      have hw1 : (win.set st.done (UInt8.ofNat 1)).take (st.done + 1) = pre ++ fin ++ [1] := by
        have := take_set_mid win (st.done + st.scratch) (pre ++ fin) (codeOf []) (UInt8.ofNat 1) [] b
        simp only [List.length_append, ← h1, hsc] at this
        rw [this]; rfl
      rw [wr_ok _ _ _ (by omega)]
      simp only [CRes.bind_ok]
      rw [wr_ok _ _ _ (by simp; omega)]
      refine ⟨_, rfl, by simp, rfl, rfl, by simp [finalBlock] at h1 ⊢; omega, by simp; omega, ?_⟩
      simp only
      rw [take_succ_set _ _ _ (by simp; omega), hw1]
      simp [finalBlock]
    · subst hr
      have hsc : st.scratch = rd.length + 2 := by simpa using a
      have hlast : win[st.done + st.scratch - 1]? = some e := by
        have h5 : (win.take (st.done + st.scratch))[st.done + st.scratch - 1]? = some e := by
          rw [b]
          have : st.done + st.scratch - 1 = (pre ++ fin ++ codeOf (rd.concat e) :: rd).length := by simp; omega
          rw [this]; simp
        rw [List.getElem?_take] at h5
        split at h5
        · exact h5
        · simp at h5
      rw [if_pos (by omega)]
      simp only [Mpt.Codec.rd, hlast, CRes.bind_ok, CRes.pure_eq]
      have hfb : finalBlock v (rd.concat e) =
          if rd.length + 2 < e.toNat ∧ e.toNat ≤ v.maxlen then e :: rd else codeOf (rd.concat e) :: rd.concat e := by
        unfold finalBlock
        simp [ht]
      have hchk : checkInline v st.scratch e = true ↔ (rd.length + 2 < e.toNat ∧ e.toNat ≤ v.maxlen) := by
        have hle := byte_le_255 e
        have h2' : rd.length + 2 < v.maxlen := by simpa using h2
        unfold checkInline
        cases hz : v.isZpe
        · have := v.nozpe_maxlen hz
          simp [hsc]; omega
        · simp [hsc]; omega
      by_cases hin : checkInline v st.scratch e = true
      · -- tail inline
        right
        have hlt : rd.length + 2 < e.toNat ∧ e.toNat ≤ v.maxlen := hchk.mp hin
        rw [hin]
        simp only [if_true]
        have hw1 : (win.set st.done e).take (st.done + st.scratch) = (pre ++ fin ++ e :: rd) ++ e :: [] := by
          have := take_set_mid win (st.done + st.scratch) (pre ++ fin) (codeOf (rd.concat e)) e (rd.concat e) b
          simp only [List.length_append, ← h1] at this
          rw [this]; simp
        have hw2 : ((win.set st.done e).set (st.done + st.scratch - 1) 0).take (st.done + st.scratch)
            = (pre ++ fin ++ e :: rd) ++ (0 : Byte) :: [] := by
          have := take_set_mid (win.set st.done e) (st.done + st.scratch) (pre ++ fin ++ e :: rd) e 0 [] hw1
          have hl : (pre ++ fin ++ e :: rd).length = st.done + st.scratch - 1 := by simp; omega
          rw [hl] at this; exact this
        rw [wr_ok _ _ _ (by omega)]
        simp only [CRes.bind_ok]
        rw [wr_ok _ _ _ (by simp; omega)]
        refine ⟨_, rfl, by simp, rfl, rfl, ?_, by simp; omega, ?_⟩
        · simp only [hfb, if_pos hlt]; simp at h1 ⊢; omega
        · simp only [hw2, hfb, if_pos hlt]; simp
      · have hge : ¬ (rd.length + 2 < e.toNat ∧ e.toNat ≤ v.maxlen) := fun h => hin (hchk.mpr h)
        have hin' : checkInline v st.scratch e = false := by simpa using hin
        rw [hin']
        simp only [Bool.false_eq_true, if_false]
        by_cases hg : win.length - st.done ≤ st.scratch
        · left; rw [if_pos hg]; exact ⟨rfl, by omega⟩
        rw [if_neg hg]; right
        have hw1 : (win.set st.done (UInt8.ofNat st.scratch)).take (st.done + st.scratch)
            = pre ++ fin ++ codeOf (rd.concat e) :: rd.concat e := by
          have := take_set_mid win (st.done + st.scratch) (pre ++ fin) (codeOf (rd.concat e)) (UInt8.ofNat st.scratch) (rd.concat e) b
          simp only [List.length_append, ← h1] at this
          rw [this, a]; rfl
        rw [wr_ok _ _ _ (by omega)]
        simp only [CRes.bind_ok]
        rw [wr_ok _ _ _ (by simp; omega)]
        refine ⟨_, rfl, by simp, rfl, rfl, ?_, by simp; omega, ?_⟩
        · simp only [hfb, if_neg hge]; simp at h1 ⊢; omega
        · simp only
          rw [take_succ_set _ _ _ (by simp; omega), hw1, hfb, if_neg hge]; simp




/-- window/state invariant for all framings: `ms` = the consumed bytes with a cut after every piece -/
def EncInvM (v : Variant) (st : EncState) (win pre : List Byte) (ms : List (Byte × Bool)) : Prop :=
  ∃ fin run, st.done = pre.length + fin.length ∧ run.length + 1 < v.maxlen ∧
    ((st.scratch = 0 ∧ run = [] ∧ fin = [] ∧ ms = [] ∧ win.take st.done = pre ∧ st.done ≤ win.length) ∨
     (st.scratch = run.length + 1 ∧ win.take (st.done + st.scratch) = pre ++ fin ++ codeOf run :: run ∧
        st.done + st.scratch ≤ win.length)) ∧
    (∀ rest, encB v [] false (ms ++ rest) = fin ++ encB v run false rest)

theorem EncInvM.start (v : Variant) (st : EncState) (win pre : List Byte) (hs : st.scratch = 0)
    (hd : st.done = pre.length) (hw : win.take st.done = pre) (hl : st.done ≤ win.length) : EncInvM v st win pre [] := by
  have := v.maxlen_cases
  exact ⟨[], [], by simp [hd], by simp; omega, Or.inl ⟨hs, rfl, rfl, rfl, hw, hl⟩, by simp⟩

theorem EncInvM.grow {v : Variant} {st : EncState} {win pre : List Byte} {ms : List (Byte × Bool)}
    (h : EncInvM v st win pre ms) (ext : List Byte) : EncInvM v st (win ++ ext) pre ms := by
  obtain ⟨fin, run, h1, h2, h3, h4⟩ := h
  refine ⟨fin, run, h1, h2, ?_, h4⟩
  rcases h3 with ⟨a, b, c, d, e, f⟩ | ⟨a, b, c⟩
  · exact Or.inl ⟨a, b, c, d, by rw [List.take_append_of_le_length f]; exact e, by simp; omega⟩
  · exact Or.inr ⟨a, by rw [List.take_append_of_le_length c]; exact b, by simp; omega⟩

theorem encodeCobs_pushM (v : Variant) (st : EncState) (win pre : List Byte) (ms : List (Byte × Bool)) (bytes : List Byte)
    (h : EncInvM v st win pre ms) :
    (bytes = [] ∧ encodeCobs v st win (some bytes) = .err .BadValue) ∨
    (encodeCobs v st win (some bytes) = .err .MissingBuffer ∧ win.length ≤ st.done + st.scratch + 1) ∨
    ∃ o, encodeCobs v st win (some bytes) = .ok o ∧ o.win.length = win.length ∧ o.ret ≤ bytes.length ∧
      (st.done + st.scratch + 1 + 2 * bytes.length < win.length → o.ret = bytes.length) ∧
      o.st.done + o.st.scratch + 2 * (bytes.length - o.ret) ≤ st.done + st.scratch + 1 + 2 * bytes.length ∧
      (st.done + st.scratch + 3 ≤ win.length → 0 < o.ret) ∧
      EncInvM v o.st o.win pre (ms ++ markChunk (bytes.take o.ret)) := by
  obtain ⟨fin, run, h1, h2, h3, h4⟩ := h
  have hm := v.maxlen_cases
  have hsc : st.scratch % 256 = st.scratch := by
    rcases h3 with ⟨a, _⟩ | ⟨a, _⟩ <;> omega
  have hdl : st.done + st.scratch ≤ win.length := by
    rcases h3 with ⟨a, _, _, _, _, f⟩ | ⟨_, _, c⟩ <;> omega
  unfold encodeCobs
  simp only [hsc]
  rw [if_neg (by omega), if_neg (by omega)]
  by_cases hb : bytes.length = 0
  · left; rw [if_pos hb]; exact ⟨List.length_eq_zero_iff.mp hb, rfl⟩
  rw [if_neg hb]
  by_cases hg1 : st.scratch ≠ 0 ∧ win.length - st.done - st.scratch = 0
  · right; left; rw [if_pos hg1]; exact ⟨rfl, by omega⟩
  rw [if_neg hg1]
  by_cases hg2 : st.scratch = 0 ∧ win.length - st.done ≤ 1
  · right; left; rw [if_pos hg2]; exact ⟨rfl, by omega⟩
  rw [if_neg hg2]
  right; right
  -- set up the loop
  have hloop : ∃ ph code, code = (if st.scratch ≠ 0 then st.scratch else 1) ∧ code = run.length + 1 ∧
      win.take (st.done + code) = (pre ++ fin) ++ ph :: run ∧ st.done + code < win.length := by
    rcases h3 with ⟨a, b, c, d, e, f⟩ | ⟨a, b, c⟩
    · obtain ⟨ph, hph⟩ := take_succ_ex win st.done (by omega)
      refine ⟨ph, 1, by simp [a], by simp [b], ?_, by omega⟩
      rw [hph, e, b, c]; simp
    · refine ⟨codeOf run, st.scratch, by simp; omega, a, by rw [b], by omega⟩
  obtain ⟨ph, code, hc1, hc2, hc3, hc4⟩ := hloop
  obtain ⟨o, ho, hp1, hp2, hp3, hp3b, hp3c, fin', run', hp4, hp5, hp6, hp7, hp8, hp9⟩ :=
    encLoopM_spec v bytes.length bytes rfl win (st.done + code) code (pre ++ fin) ph run hc3 hc2 hc4 h2
  rw [← hc1, ho]
  have hcode : code ≤ st.scratch + 1 := by rw [hc1]; split <;> omega
  refine ⟨_, rfl, hp1, by simp, ?_, ?_, ?_, ?_⟩
  · intro ha
    have : o.rem = 0 := hp3 (by omega)
    simp [this]
  · simp only; omega
  · intro ha
    have : o.rem < bytes.length := hp3c (by omega) (by intro h; simp [h] at hb)
    simp only; omega
  · refine ⟨fin ++ fin', run', ?_, hp5, Or.inr ⟨hp4, ?_, ?_⟩, ?_⟩
    · simp only [List.length_append] at hp6 ⊢; omega
    · have : o.dst - o.code + o.code = o.dst := by omega
      simp only [this, hp8]; simp
    · simp only; omega
    · intro rest
      simp only
      rw [List.append_assoc, h4, hp9]; simp



/-- the terminating call, all framings: the finished data is `pre` followed by the frame of the marked bytes -/
theorem encode_termM (v : Variant) (st : EncState) (win pre : List Byte) (ms : List (Byte × Bool))
    (h : EncInvM v st win pre ms) :
    (encode (.cobs v) st win none = .err .MissingBuffer ∧ win.length ≤ st.done + st.scratch + 1) ∨
    ∃ o, encode (.cobs v) st win none = .ok o ∧ TermPost win pre (encB v [] false ms ++ [0]) o := by
  obtain ⟨fin, run, h1, h2, h3, h4⟩ := h
  have hsh : Shape st win pre fin run := by
    rcases h3 with ⟨a, b, c, d, e, f⟩ | h3
    · exact Or.inl ⟨a, b, c, e, f⟩
    · exact Or.inr h3
  have henc : encB v [] false ms ++ [0] = fin ++ finalBlock v run ++ [0] := by
    have := h4 []
    simp only [List.append_nil] at this
    rw [this]; simp [encB]
  unfold encode
  cases ht : v.tail
  · simp only [ht, Bool.false_eq_true, if_false]
    have := encodeCobs_term_raw v st win pre fin run h1 h2 hsh
    rw [henc, finalBlock_notail v run ht]
    simpa using this
  · simp only [ht, if_true]
    have := encodeCobsR_term_rawG v ht st win pre fin run h1 h2 hsh
    rw [henc]; exact this

theorem encode_pushM (v : Variant) (st : EncState) (win pre : List Byte) (ms : List (Byte × Bool)) (bytes : List Byte)
    (h : EncInvM v st win pre ms) :
    (bytes = [] ∧ encode (.cobs v) st win (some bytes) = .err .BadValue) ∨
    (encode (.cobs v) st win (some bytes) = .err .MissingBuffer ∧ win.length ≤ st.done + st.scratch + 1) ∨
    ∃ o, encode (.cobs v) st win (some bytes) = .ok o ∧ o.win.length = win.length ∧ o.ret ≤ bytes.length ∧
      (st.done + st.scratch + 1 + 2 * bytes.length < win.length → o.ret = bytes.length) ∧
      o.st.done + o.st.scratch + 2 * (bytes.length - o.ret) ≤ st.done + st.scratch + 1 + 2 * bytes.length ∧
      (st.done + st.scratch + 3 ≤ win.length → 0 < o.ret) ∧
      EncInvM v o.st o.win pre (ms ++ markChunk (bytes.take o.ret)) := by
  rw [encode_some]; exact encodeCobs_pushM v st win pre ms bytes h

/-- partial correctness of the caller loop, all framings: the finished frame is the reference encoding of
    the message under *some* marking (cuts where the encoder calls ended) -/
theorem sched_refinesM (v : Variant) (fill : Byte) (fuel : Nat) :
    ∀ (st : EncState) (win : List Byte) (chunks : List (List Byte)) (caps : List Nat) (pre : List Byte)
      (ms : List (Byte × Bool)) (o : EncOut),
      EncInvM v st win pre ms → encodeSched (.cobs v) fill fuel st win chunks caps = .ok o →
      ∃ ms', ms'.map Prod.fst = ms.map Prod.fst ++ chunks.flatten ∧ o.st.scratch = 0 ∧
        o.st.done = (pre ++ (encB v [] false ms' ++ [0])).length ∧
        o.win.take o.st.done = pre ++ (encB v [] false ms' ++ [0]) := by
  induction fuel with
  | zero => intro st win chunks caps pre ms o _ h; simp [encodeSched] at h
  | succ f ih =>
    intro st win chunks caps pre ms o hinv h
    cases chunks with
    | nil =>
      simp only [encodeSched] at h
      rcases encode_termM v st win pre ms hinv with ⟨he, _⟩ | ⟨o', he, hp⟩
      · rw [he] at h
        simp only [if_true] at h
        cases caps with
        | nil => simp at h
        | cons k caps => exact ih _ _ _ _ _ _ _ (hinv.grow _) h
      · rw [he] at h
        simp only [CRes.ok.injEq] at h
        subst h
        obtain ⟨_, h2, _, h4, _, h6⟩ := hp
        exact ⟨ms, by simp, h2, h4, h6⟩
    | cons ch rest =>
      simp only [encodeSched] at h
      rcases encode_pushM v st win pre ms ch hinv with ⟨_, he⟩ | ⟨he, _⟩ | ⟨o', he, _, hr, _, _, _, hinv'⟩
      · rw [he] at h; simp at h
      · rw [he] at h
        simp only [if_true] at h
        cases caps with
        | nil => simp at h
        | cons k caps => exact ih _ _ _ _ _ _ _ (hinv.grow _) h
      · rw [he] at h
        simp only at h
        by_cases hall : o'.ret = ch.length
        · rw [if_pos hall] at h
          obtain ⟨ms', e1, e2⟩ := ih _ _ _ _ _ _ _ hinv' h
          refine ⟨ms', ?_, e2⟩
          rw [e1, List.map_append, markChunk_fst, hall, List.take_length]; simp
        · rw [if_neg hall] at h
          cases caps with
          | nil => simp at h
          | cons k caps =>
            obtain ⟨ms', e1, e2⟩ := ih _ _ _ _ _ _ _ (hinv'.grow _) h
            refine ⟨ms', ?_, e2⟩
            rw [e1, List.map_append, markChunk_fst]
            simp [← List.append_assoc (ch.take o'.ret), List.take_append_drop]


/-- total correctness, all framings: with enough room no retry and no growth is needed -/
theorem sched_totalM (v : Variant) (fill : Byte) (chunks : List (List Byte)) :
    ∀ (st : EncState) (win pre : List Byte) (ms : List (Byte × Bool)), (∀ c ∈ chunks, c ≠ []) →
      st.done + st.scratch + 2 * chunks.flatten.length + chunks.length + 2 ≤ win.length →
      EncInvM v st win pre ms →
      ∃ o, encodeSched (.cobs v) fill (chunks.length + 1) st win chunks [] = .ok o := by
  induction chunks with
  | nil =>
    intro st win pre ms _ hsp hinv
    simp only [encodeSched, List.length_nil]
    rcases encode_termM v st win pre ms hinv with ⟨_, hl⟩ | ⟨o', he, _⟩
    · simp at hsp; omega
    · rw [he]; exact ⟨o', rfl⟩
  | cons ch rest ih =>
    intro st win pre ms hne hsp hinv
    simp only [encodeSched, List.length_cons]
    simp only [List.flatten_cons, List.length_append, List.length_cons] at hsp
    rcases encode_pushM v st win pre ms ch hinv with ⟨hnil, _⟩ | ⟨_, hl⟩ | ⟨o', he, hlen, _, hall, hgrow, _, hinv'⟩
    · exact absurd hnil (hne ch (by simp))
    · omega
    · rw [he]
      have hr : o'.ret = ch.length := hall (by omega)
      simp only [hr, if_true]
      exact ih o'.st o'.win pre _ (fun c hc => hne c (by simp [hc])) (by rw [hlen]; rw [hr] at hgrow; omega) hinv'

end Mpt.Codec
