/-
  Histories: every operation of `runOp` keeps `Realises s.m s.sp.tops`; from the empty store every history runs
  without a model failure.
-/
import MptModel.Impl.NodesRun
import MptModel.Lemmas.NodesSt
namespace Mpt.Nodes
open Mpt Mpt.Forest

/-- `mpt_node_new` + name + value: a new detached root -/
theorem alloc_refines {s : Store} {tops : List Forest} (hR : Realises s tops) (nm : Name) (vl : Val) :
    Realises (s.alloc nm vl).1 (tops ++ [[.node s.nodes.length nm vl []]]) := by
  show Realises { s with nodes := s.nodes ++ [{ name := nm, value := vl }] } _
  · have hold : ∀ i, i < s.nodes.length →
        (s.nodes ++ [({ name := nm, value := vl } : Node)])[i]? = s.nodes[i]? := by
      intro i hi; simp [List.getElem?_append_left hi]
    have hnew : (s.nodes ++ [({ name := nm, value := vl } : Node)])[s.nodes.length]? =
        some { name := nm, value := vl } := by simp
    have hlt : ∀ l ∈ tops, ∀ i ∈ ids l, i < s.nodes.length := by
      intro l hl i hi
      obtain ⟨n, hn⟩ := Real.live (hR.real l hl).2 i hi
      exact hn.lt
    refine ⟨?_, ?_, ?_, hR.freedNodup, ?_⟩
    · intro l hl
      rw [List.mem_append] at hl
      rcases hl with hl | hl
      · have hr := hR.real l hl
        exact ⟨hr.1, Real.frame hr.2 (fun i hi => hold i (hlt l hl i hi))⟩
      · simp at hl; subst hl
        refine ⟨by simp, ?_⟩
        rw [Real_cons]
        exact ⟨by rw [hnew]; rfl, by simp, by simp⟩
    · rw [List.flatMap_append, List.nodup_append]
      refine ⟨hR.nodup, by simp, ?_⟩
      intro a ha b hb hab
      subst hab
      simp at hb
      obtain ⟨l, hl, hi⟩ := List.mem_flatMap.1 ha
      have := hlt l hl a hi
      omega
    · intro i n hn ha
      rw [List.flatMap_append, List.mem_append]
      by_cases hi : i < s.nodes.length
      · left
        exact hR.cover i n (by rw [← hold i hi]; exact hn) ha
      · right
        have : i = s.nodes.length := by
          rcases Nat.lt_or_ge i (s.nodes.length + 1) with h | h
          · omega
          · have : (s.nodes ++ [({ name := nm, value := vl } : Node)])[i]? = none := by
              apply List.getElem?_eq_none; simp; omega
            rw [this] at hn
            exact absurd hn (by simp)
        subst this
        simp
    · intro i
      rw [hR.freedIff i]
      by_cases hi : i < s.nodes.length
      · simp only [hold i hi]
      · constructor
        · rintro ⟨n, hn, _⟩
          have : s.nodes[i]? = none := List.getElem?_eq_none (by omega)
          rw [this] at hn
          exact absurd hn (by simp)
        · rintro ⟨n, hn, hd⟩
          exfalso
          rcases Nat.lt_or_ge i (s.nodes.length + 1) with h | h
          · have : i = s.nodes.length := by omega
            subst this
            rw [hnew] at hn
            have := Option.some.inj hn
            subst this
            simp at hd
          · have : (s.nodes ++ [({ name := nm, value := vl } : Node)])[i]? = none := by
              apply List.getElem?_eq_none; simp; omega
            rw [this] at hn
            exact absurd hn (by simp)

/-- the empty store realises the empty collection -/
theorem realises_empty : Realises {} [] := ⟨by simp, by simp, by simp, by simp, by simp⟩

/-! ### the remaining operations through `Forest.St` -/

/-- located form of an accepted `St.place` -/
theorem st_place_located {s : Store} {sp sp' : Forest.St} (hR : Realises s sp.tops) {p x : Nat}
    {at_ : Forest → Nat → Option Nat} (h : sp.place p x at_ = some sp') :
    ∃ n' v' cs' l j l0 par rest, Realises s ([.node x n' v' cs'] :: l0 :: rest) ∧ SibsAt p l0 l j par ∧
      sp.tops.Perm ([.node x n' v' cs'] :: l0 :: rest) ∧
      ((at_ l j = none ∧ sp' = sp) ∨
       ∃ k, at_ l j = some k ∧ sp'.tops.Perm (applyAt par (fun l' => l'.insertIdx k (.node x n' v' cs')) l0 :: rest)) := by
  simp only [Forest.St.place] at h
  cases hd : sp.detached? x with
  | none => simp [hd] at h
  | some t =>
    cases hs : sp.sibsOf? p with
    | none => simp [hd, hs] at h
    | some lj =>
      obtain ⟨l, j⟩ := lj
      simp only [hd, hs] at h
      by_cases hc : (ids [t]).contains p
      · simp at hc; simp [hc] at h
      · simp only [hc, Bool.false_eq_true, ↓reduceIte] at h
        obtain ⟨htm, htid⟩ := st_detached? hd
        obtain ⟨l0, hl0, hso⟩ := st_sibsOf? hs
        obtain ⟨par, hat, hupd⟩ := sibsOf?_sibsAt hso
        obtain ⟨rest, hperm, hR', hrest⟩ := located_pair hR htm hl0 hat.mem (by simpa using hc)
        cases t with
        | node x' n' v' cs' =>
          simp only [Tree.id] at htid; subst htid
          refine ⟨n', v', cs', l, j, l0, par, rest, hR', hat, hperm, ?_⟩
          cases hk : at_ l j with
          | none => simp only [hk, Option.some.injEq] at h; exact Or.inl ⟨rfl, h.symm⟩
          | some k =>
            simp only [hk, Option.some.injEq] at h
            subst h
            refine Or.inr ⟨k, rfl, ?_⟩
            have := placed_tops (updSibs p fun l' => l'.insertIdx k (.node x' n' v' cs')) rfl hperm hR'
              (fun r hr => (sibsOf?_not_mem (hrest r hr)).2 _)
            rwa [hupd] at this

theorem st_after_refines {s : Store} {sp sp' : Forest.St} (hR : Realises s sp.tops) {p x : Nat}
    (h : sp.after p x = some sp') : ∃ s', s.gnodeAfter (some p) x = .ok s' ∧ Realises s' sp'.tops := by
  simp only [Forest.St.after] at h
  by_cases hpx : p = x
  · subst hpx
    simp only [↓reduceIte] at h
    split at h
    · cases h; exact ⟨s, by simp [Store.gnodeAfter], hR⟩
    · cases h
  · simp only [hpx, ↓reduceIte] at h
    obtain ⟨n', v', cs', l, j, l0, par, rest, hR', hat, hperm, hcase⟩ := st_place_located hR h
    rcases hcase with ⟨hn, _⟩ | ⟨k, hk, htops⟩
    · cases hn
    · cases hk
      obtain ⟨s', h1, h2⟩ := after_refines hR' hat
      exact ⟨s', h1, h2.perm htops⟩

theorem st_before_refines {s : Store} {sp sp' : Forest.St} (hR : Realises s sp.tops) {p x : Nat}
    (h : sp.before p x = some sp') : ∃ s', s.gnodeBefore (some p) x = .ok s' ∧ Realises s' sp'.tops := by
  simp only [Forest.St.before] at h
  by_cases hpx : p = x
  · subst hpx
    simp only [↓reduceIte] at h
    split at h
    · cases h; exact ⟨s, by simp [Store.gnodeBefore], hR⟩
    · cases h
  · simp only [hpx, ↓reduceIte] at h
    obtain ⟨n', v', cs', l, j, l0, par, rest, hR', hat, hperm, hcase⟩ := st_place_located hR h
    rcases hcase with ⟨hn, _⟩ | ⟨k, hk, htops⟩
    · cases hn
    · cases hk
      obtain ⟨s', h1, h2⟩ := before_refines hR' hat
      exact ⟨s', h1, h2.perm htops⟩

theorem ids_nodup_of_top {s : Store} {l0 : Forest} {rest : List Forest} (hR : Realises s (l0 :: rest)) : (ids l0).Nodup := by
  have := hR.nodup
  simp only [List.flatMap_cons] at this
  exact (List.nodup_append.1 this).1

/-- the list a `St.find?` result comes from -/
theorem st_find_in {s : Store} {sp : Forest.St} (hR : Realises s sp.tops) {x : Nat} {t : Tree} (h : sp.find? x = some t)
    {l0 : Forest} (hl0 : l0 ∈ sp.tops) (hx : x ∈ ids l0) : Forest.find? x l0 = some t := by
  obtain ⟨l1, hl1, hf⟩ := st_find? h
  have := uniq_top hR.nodup hl1 hl0 (find?_mem hf).1 hx
  subst this
  exact hf

theorem st_unlink_refines {s : Store} {sp sp' : Forest.St} (hR : Realises s sp.tops) {x : Nat}
    (h : sp.unlink x = some sp') : ∃ r, s.unlink x = .ok r ∧ Realises r.1 sp'.tops := by
  simp only [Forest.St.unlink] at h
  cases hf : sp.find? x with
  | none => simp [hf] at h
  | some t =>
    cases hs : sp.sibsOf? x with
    | none => simp [hf, hs] at h
    | some Lj =>
      obtain ⟨L, j⟩ := Lj
      simp only [hf, hs, Option.some.injEq] at h
      subst h
      obtain ⟨l0, hl0, hso⟩ := st_sibsOf? hs
      obtain ⟨par, hat, hupd⟩ := sibsOf?_sibsAt hso
      obtain ⟨rest, hperm⟩ := one_top hl0
      have hR' := hR.perm hperm.symm
      have hnd0 := ids_nodup_of_top hR'
      obtain ⟨tj, htj, htjid⟩ := getElem?_of_idx? hat.idx
      have hft : Forest.find? x l0 = some t := st_find_in hR hf hl0 hat.mem
      have hteq : tj = t := by
        have := hat.find_elem hnd0 htj
        rw [hft] at this
        exact (Option.some.inj this).symm
      subst hteq
      have hrest : ∀ r ∈ rest, x ∉ ids r := fun r hr => hR'.disjoint_rest r hr x hat.mem
      have hmap : (sp.tops.map (updSibs x fun l => l.eraseIdx j)).Perm (applyAt par (fun l => l.eraseIdx j) l0 :: rest) := by
        refine (hperm.map _).trans ?_
        simp only [List.map_cons]
        rw [hupd]
        have : rest.map (updSibs x fun l => l.eraseIdx j) = rest := by
          conv => rhs; rw [← List.map_id rest]
          exact List.map_congr_left (fun r hr => by simp [(sibsOf?_not_mem (hrest r hr)).2])
        rw [this]
      have hrne : ∀ r ∈ rest, r ≠ [] := fun r hr => (hR'.real r (by simp [hr])).1
      have hfr : rest.filter (fun l => !l.isEmpty) = rest := by
        apply List.filter_eq_self.2
        intro r hr
        have := hrne r hr
        cases r <;> simp_all
      simp only [Forest.St.dropEmpty]
      by_cases hne : applyAt par (fun L => L.eraseIdx j) l0 = []
      · -- `x` is a list of its own: nothing changes
        have hl0ne := (hR'.real l0 (by simp)).1
        have hl0eq : l0 = [tj] := by
          cases hat with
          | @kids q tq _ hfq hi =>
            exfalso
            have hh := headId_modKids (q := q) (g := fun L => L.eraseIdx j) l0
            simp only [applyAt] at hne
            rw [hne] at hh
            cases l0 with
            | nil => exact hl0ne rfl
            | cons t0 ts => cases t0; simp [headId] at hh
          | top hi =>
            simp only [applyAt] at hne
            have hlen : L.length = 1 := by
              have h1 := (List.getElem?_eq_some_iff.1 htj).1
              have h2 : (L.eraseIdx j).length = 0 := by rw [hne]; rfl
              rw [List.length_eraseIdx] at h2
              split at h2 <;> omega
            have hj : j = 0 := by have := (List.getElem?_eq_some_iff.1 htj).1; omega
            subst hj
            obtain ⟨t0, hl⟩ : ∃ t0, L = [t0] := List.length_eq_one_iff.1 hlen
            subst hl
            simp at htj; subst htj; rfl
        subst hl0eq
        cases tj with
        | node i n v cs =>
          simp only [Tree.id] at htjid; subst htjid
          refine ⟨(s, none), unlink_lone hR', ?_⟩
          refine hR'.perm ?_
          refine (List.Perm.append_right _ ((hmap.filter _))).trans ?_
          rw [hne]
          simp only [List.filter_cons, List.isEmpty_nil, Bool.not_true, Bool.false_eq_true, ↓reduceIte, hfr]
          exact List.perm_append_singleton _ _
      · obtain ⟨s', h1, h2⟩ := unlink_refines hR' hat htj hne
        refine ⟨_, h1, h2.perm ?_⟩
        refine (List.Perm.append_right _ ((hmap.filter _))).trans ?_
        have hAne : (!(applyAt par (fun L => L.eraseIdx j) l0).isEmpty) = true := by
          cases hq : applyAt par (fun L => L.eraseIdx j) l0 with
          | nil => exact absurd hq hne
          | cons a as => rfl
        simp only [List.filter_cons, hAne, ↓reduceIte, hfr]
        exact List.perm_append_singleton _ _

theorem st_clear_refines {s : Store} {sp sp' : Forest.St} (hR : Realises s sp.tops) {x : Nat}
    (h : sp.clear x = some sp') : ∃ s', s.clear s.fuel x = .ok s' ∧ Realises s' sp'.tops := by
  simp only [Forest.St.clear] at h
  cases hf : sp.find? x with
  | none => simp [hf] at h
  | some t =>
    simp only [hf, Option.some.injEq] at h
    subst h
    obtain ⟨l0, hl0, hfx⟩ := st_find? hf
    obtain ⟨rest, hperm⟩ := one_top hl0
    have hR' := hR.perm hperm.symm
    have hnd0 := ids_nodup_of_top hR'
    have hx := (find?_mem hfx).1
    have hrest : ∀ r ∈ rest, x ∉ ids r := fun r hr => hR'.disjoint_rest r hr x hx
    have hfu := hR'.cost_le (l := l0) (by simp)
    have hsub : cost t.children ≤ cost l0 := by
      rw [cost_eq, cost_eq]
      obtain ⟨A, B, h1, _⟩ := ids_modKids_split hnd0 hfx
      rw [h1]
      simp only [List.length_append]
      omega
    obtain ⟨s1, h1, r1, _⟩ := clear_refines (fuel := s.fuel) hR' hfx (by simp only [Store.fuel]; omega)
    refine ⟨s1, h1, r1.perm ?_⟩
    refine (hperm.map _).trans ?_
    simp only [List.map_cons]
    have : rest.map (modKids x fun _ => []) = rest := by
      conv => rhs; rw [← List.map_id rest]
      exact List.map_congr_left (fun r hr => by simp [modKids_of_not_mem (hrest r hr)])
    rw [this]

theorem st_destroy_refines {s : Store} {sp sp' : Forest.St} (hR : Realises s sp.tops) {x : Nat}
    (h : sp.destroy x = some sp') : ∃ r, s.destroy s.fuel x = .ok r ∧ Realises r.1 sp'.tops := by
  simp only [Forest.St.destroy] at h
  cases hd : sp.detached? x with
  | none => simp [hd] at h
  | some t =>
    simp only [hd, Option.some.injEq] at h
    subst h
    obtain ⟨htm, htid⟩ := st_detached? hd
    obtain ⟨rest, hperm⟩ := one_top htm
    have hR' := hR.perm hperm.symm
    cases t with
    | node x' n v cs =>
      simp only [Tree.id] at htid; subst htid
      have hfu := hR'.cost_le (l := [.node x' n v cs]) (by simp)
      obtain ⟨s1, h1, r1, _⟩ := destroy_refines (fuel := s.fuel) hR' (by simp only [cost, Store.fuel] at hfu ⊢; omega)
      exact ⟨_, h1, r1.perm (eraseTop_perm rfl hperm hR')⟩

theorem st_clone0_refines {s : Store} {sp sp' : Forest.St} (hR : Realises s sp.tops) (hn : sp.next = s.nodes.length) {x : Nat}
    (h : sp.clone x 0 = some sp') : ∃ r, s.nodeClone x = .ok r ∧ Realises r.1 sp'.tops := by
  simp only [Forest.St.clone] at h
  cases hs : sp.sibsOf? x with
  | none => simp [hs] at h
  | some li =>
    obtain ⟨l, i⟩ := li
    simp only [hs] at h
    cases ht : l[i]? with
    | none => simp [ht] at h
    | some t =>
      simp only [ht, ↓reduceIte, Option.some.injEq] at h
      subst h
      obtain ⟨l0, hl0, hso⟩ := st_sibsOf? hs
      obtain ⟨par, hat, _⟩ := sibsOf?_sibsAt hso
      obtain ⟨t', ht', htid⟩ := getElem?_of_idx? hat.idx
      rw [ht] at ht'; cases ht'
      have hreal := (hR.real l0 hl0).2
      have hrec := Real.rec_tree (hat.real hreal) ht
      rw [htid] at hrec
      obtain ⟨s', h1, h2⟩ := nodeClone_refines hR (xn := _) ⟨hrec, rfl⟩
      refine ⟨_, h1, ?_⟩
      simp only [hn, relabel] at h2 ⊢
      simpa [relabel] using h2


/-- the drivers' choice of the list reference is admissible, and `slotOf` does not fail on a realised store -/
theorem slotOf_spec {s : Store} {sp : Forest.St} (hR : Realises s sp.tops) {a : Nat} {la0 S0 : Forest} {i0 : Nat} {ps0 : Option Nat}
    (hla0 : la0 ∈ sp.tops) (hat0 : SibsAt a la0 S0 i0 ps0) :
    ∃ slot, slotOf s a = .ok slot ∧
      ∀ la S i ps, la ∈ sp.tops → SibsAt a la S i ps → ∀ p, slot = .kids p → ps = some p := by
  have hreal0 := (hR.real la0 hla0).2
  obtain ⟨ta, hta, htaid⟩ := getElem?_of_idx? hat0.idx
  have hrec := Real.rec_tree (hat0.real hreal0) hta
  rw [htaid] at hrec
  -- the parent recorded in the node is the parent of every sibling list that holds it
  have hpar : ∀ la S i ps, la ∈ sp.tops → SibsAt a la S i ps → ps = ps0 := by
    intro la S i ps hla hat
    obtain ⟨tb, htb, htbid⟩ := getElem?_of_idx? hat.idx
    have hrec' := Real.rec_tree (hat.real (hR.real la hla).2) htb
    rw [htbid, hrec] at hrec'
    have := Option.some.inj hrec'
    simp only [recOf, Node.mk.injEq] at this
    exact this.2.2.1.symm
  cases hps : ps0 with
  | none =>
    refine ⟨.loc, ?_, fun _ _ _ _ _ _ p hp => by cases hp⟩
    simp only [slotOf, Store.get_ok ⟨hrec, rfl⟩, Res.bind_ok, recOf, hps]
    rfl
  | some p =>
    have hnd0 : (ids la0).Nodup := by
      have hsub : (ids la0).Sublist (sp.tops.flatMap ids) := by
        obtain ⟨A, B, hAB⟩ := List.append_of_mem hla0
        rw [hAB]
        simp only [List.flatMap_append, List.flatMap_cons]
        exact (List.sublist_append_left _ _).trans (List.sublist_append_right _ _)
      exact hsub.nodup hR.nodup
    have hpmem := (hat0.par_not_mem hnd0 p hps).2
    obtain ⟨pn, hpn⟩ := Real.live hreal0 p hpmem
    refine ⟨if pn.children = some a then .kids p else .loc, ?_, ?_⟩
    · simp only [slotOf, Store.get_ok ⟨hrec, rfl⟩, Res.bind_ok, recOf, hps, Store.get_ok hpn]
      rfl
    · intro la S i ps hla hat q hq
      rw [hpar la S i ps hla hat, hps]
      split at hq
      · cases hq; rfl
      · cases hq

/-- every operation keeps the store a realisation of the specification state (and does not fail) -/
theorem runOp_inv {s : NSt} (hR : Realises s.m s.sp.tops) (op : NOp) :
    ∃ s', runOp s op = .ok s' ∧ Realises s'.m s'.sp.tops := by
  have hRs : Realises s.m s.spec.tops := hR
  have hn : s.spec.next = s.m.nodes.length := rfl
  cases op with
  | new n v =>
    refine ⟨_, rfl, ?_⟩
    simpa [NSt.spec, Forest.St.new] using alloc_refines hR n v
  | after p x =>
    simp only [runOp]
    cases h : s.spec.after p x with
    | none => exact ⟨s, rfl, hR⟩
    | some sp' =>
      obtain ⟨m', h1, h2⟩ := st_after_refines hRs h
      exact ⟨{ m := m', sp := sp' }, by simp [h1, Res.bind], h2⟩
  | before p x =>
    simp only [runOp]
    cases h : s.spec.before p x with
    | none => exact ⟨s, rfl, hR⟩
    | some sp' =>
      obtain ⟨m', h1, h2⟩ := st_before_refines hRs h
      exact ⟨{ m := m', sp := sp' }, by simp [h1, Res.bind], h2⟩
  | add f pos x byName =>
    simp only [runOp]
    cases h : s.spec.add f pos x byName with
    | none => exact ⟨s, rfl, hR⟩
    | some sp' =>
      obtain ⟨m', h1, h2⟩ := st_add_refines hRs h
      exact ⟨{ m := m', sp := sp' }, by simp [h1, Res.bind], h2⟩
  | insert p pos x byName =>
    simp only [runOp]
    cases h : s.spec.insert p pos x byName with
    | none => exact ⟨s, rfl, hR⟩
    | some sp' =>
      obtain ⟨m', h1, h2⟩ := st_insert_refines hRs h
      exact ⟨{ m := m', sp := sp' }, by simp [h1, Res.bind], h2⟩
  | unlink x =>
    simp only [runOp]
    cases h : s.spec.unlink x with
    | none => exact ⟨s, rfl, hR⟩
    | some sp' =>
      obtain ⟨r, h1, h2⟩ := st_unlink_refines hRs h
      exact ⟨{ m := r.1, sp := sp' }, by simp [h1, Res.bind], h2⟩
  | move a b =>
    simp only [runOp]
    cases h : s.spec.move a b with
    | none => exact ⟨s, rfl, hR⟩
    | some r0 =>
      obtain ⟨sp', m⟩ := r0
      -- the source list exists (the specification found it)
      have hsa : ∃ S i, s.spec.sibsOf? a = some (S, i) := by
        simp only [Forest.St.move] at h
        cases h1 : s.spec.topOf? a with
        | none => simp [h1] at h
        | some ia =>
        cases h2 : s.spec.topOf? b with
        | none => simp [h1, h2] at h
        | some ib =>
        cases h3 : s.spec.sibsOf? a with
        | none => simp [h1, h2, h3] at h
        | some Si => exact ⟨Si.1, Si.2, rfl⟩
      obtain ⟨S, i, hsa⟩ := hsa
      obtain ⟨la, hla, hso⟩ := st_sibsOf? hsa
      obtain ⟨ps, hat, _⟩ := sibsOf?_sibsAt hso
      obtain ⟨slot, hslot, hadm⟩ := slotOf_spec hRs hla hat
      obtain ⟨r, h1, _, h2⟩ := st_move_refines_slot hRs h slot hadm
      exact ⟨{ m := r.1, sp := sp', ret := r.2 }, by simp [hslot, h1, Res.bind], h2⟩
  | clone x mode =>
    simp only [runOp]
    cases h : s.spec.clone x mode with
    | none => exact ⟨s, rfl, hR⟩
    | some sp' =>
      by_cases h0 : mode = 0
      · subst h0
        obtain ⟨r, h1, h2⟩ := st_clone0_refines hRs hn h
        exact ⟨{ m := r.1, sp := sp' }, by simp [h1, Res.bind], h2⟩
      · by_cases h1m : mode = 1
        · subst h1m
          obtain ⟨r, h1, h2⟩ := (st_clone_refines hRs hn).1 h
          exact ⟨{ m := r.1, sp := sp' }, by simp [h1, Res.bind], h2⟩
        · -- every other mode is the list clone
          have h' : s.spec.clone x 2 = some sp' := by
            simp only [Forest.St.clone] at h ⊢
            simpa [h0, h1m] using h
          obtain ⟨r, h1, h2⟩ := (st_clone_refines hRs hn).2 h'
          exact ⟨{ m := r.1, sp := sp' }, by simp [h0, h1m, h1, Res.bind], h2⟩
  | clear x =>
    simp only [runOp]
    cases h : s.spec.clear x with
    | none => exact ⟨s, rfl, hR⟩
    | some sp' =>
      obtain ⟨m', h1, h2⟩ := st_clear_refines hRs h
      exact ⟨{ m := m', sp := sp' }, by simp [h1, Res.bind], h2⟩
  | destroy x =>
    simp only [runOp]
    cases h : s.spec.destroy x with
    | none => exact ⟨s, rfl, hR⟩
    | some sp' =>
      obtain ⟨r, h1, h2⟩ := st_destroy_refines hRs h
      exact ⟨{ m := r.1, sp := sp' }, by simp [h1, Res.bind], h2⟩

/-- every history keeps the invariant -/
theorem runOps_inv : ∀ (ops : List NOp) {s : NSt}, Realises s.m s.sp.tops →
    ∃ s', runOps s ops = .ok s' ∧ Realises s'.m s'.sp.tops
  | [], s, hR => ⟨s, rfl, hR⟩
  | op :: ops, s, hR => by
    obtain ⟨s1, h1, r1⟩ := runOp_inv hR op
    obtain ⟨s2, h2, r2⟩ := runOps_inv ops r1
    exact ⟨s2, by simp [runOps, h1, h2, Res.bind], r2⟩


end Mpt.Nodes
