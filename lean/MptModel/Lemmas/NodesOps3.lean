/-
  Refinement of node_unlink (continuation of NodesOps2).
-/
import MptModel.Lemmas.NodesOps2
namespace Mpt.Nodes
open Mpt Mpt.Forest

/-- the handles of a forest before and after replacing the children of `q`: same context -/
theorem ids_modKids_split {q : Nat} {tq : Tree} : ∀ {l : Forest}, (ids l).Nodup → find? q l = some tq →
    ∃ A B, ids l = A ++ ids tq.children ++ B ∧ ∀ g, ids (modKids q g l) = A ++ ids (g tq.children) ++ B
  | [], _, hf => by simp [find?] at hf
  | (.node i n v cs) :: ts, hnd, hf => by
    rw [ids_cons, List.nodup_cons, List.mem_append, List.nodup_append] at hnd
    obtain ⟨hni, ndcs, ndts, disj⟩ := hnd
    simp only [find?] at hf
    by_cases hiq : i = q
    · subst hiq
      simp at hf; subst hf
      refine ⟨[i], ids ts, by simp [Tree.children], ?_⟩
      intro g
      simp [modKids, Tree.children]
    · simp only [hiq, ↓reduceIte] at hf
      cases hc : find? q cs with
      | some t =>
        simp [hc] at hf; subst hf
        have hqcs := (find?_mem hc).1
        have hqts : q ∉ ids ts := fun h => disj q hqcs q h rfl
        obtain ⟨A, B, h1, h2⟩ := ids_modKids_split ndcs hc
        refine ⟨i :: A, B ++ ids ts, by simp [h1], ?_⟩
        intro g
        simp [modKids, hiq, modKids_of_not_mem hqts, h2 g]
      | none =>
        simp [hc] at hf
        have hqts := (find?_mem hf).1
        have hqcs : q ∉ ids cs := fun h => disj q h q hqts rfl
        obtain ⟨A, B, h1, h2⟩ := ids_modKids_split ndts hf
        refine ⟨i :: (ids cs ++ A), B, by simp [h1], ?_⟩
        intro g
        simp [modKids, hiq, modKids_of_not_mem hqcs, h2 g]

theorem SibsAt.ids_split {p : Nat} {l L : Forest} {j : Nat} {par : Option Nat}
    (h : SibsAt p l L j par) (hnd : (ids l).Nodup) :
    ∃ A B, ids l = A ++ ids L ++ B ∧ ∀ g, ids (applyAt par g l) = A ++ ids (g L) ++ B := by
  cases h with
  | top _ => exact ⟨[], [], by simp, fun g => by simp [applyAt]⟩
  | kids hf _ => exact ids_modKids_split hnd hf

theorem ids_eraseIdx_perm {t : Tree} : ∀ (L : Forest) (j : Nat), L[j]? = some t →
    (ids L).Perm (ids [t] ++ ids (L.eraseIdx j))
  | [], _, h => by simp at h
  | (.node i n v cs) :: ts, 0, h => by simp at h; subst h; simp
  | (.node i n v cs) :: ts, j + 1, h => by
    have ih := ids_eraseIdx_perm ts j (by simpa using h)
    simp only [List.eraseIdx_cons_succ, ids_cons]
    have h1 : (i :: (ids cs ++ ids ts)).Perm (i :: (ids cs ++ (ids [t] ++ ids (ts.eraseIdx j)))) :=
      List.Perm.cons _ (List.Perm.append_left _ ih)
    refine h1.trans ?_
    have := @List.perm_append_comm _ (i :: ids cs) (ids [t])
    have h2 := List.Perm.append_right (ids (ts.eraseIdx j)) this
    simpa [List.append_assoc] using h2


/-- the records after `unlink(x)`; `nxt`/`pvp` = old successor/predecessor, `par` = parent of `x` -/
def UnlinkEff (s s' : Store) (x : Nat) (nxt pvp par : Option Nat) : Prop :=
  ∀ i, s'.nodes[i]? =
    if i = x then (s.nodes[i]?).map (fun cn => { cn with parent := none, next := none, prev := none })
    else if some i = nxt then (s.nodes[i]?).map (fun qn => { qn with prev := pvp })
    else if some i = pvp then (s.nodes[i]?).map (fun pn => { pn with next := nxt })
    else if pvp = none ∧ some i = par then (s.nodes[i]?).map (fun rn => { rn with children := nxt })
    else s.nodes[i]?

theorem headId_eraseIdx_succ (l : Forest) (j : Nat) (h : l ≠ []) : headId (l.eraseIdx (j + 1)) = headId l := by
  cases l with
  | nil => simp at h
  | cons a as => simp [headId]

theorem headId_drop_one (l : Forest) : headId (l.drop 1) = headId (l.eraseIdx 0) := by
  cases l <;> simp

theorem real_unlink_list {s s' : Store} {x : Nat} :
    ∀ {L : Forest} {par prev : Option Nat} {j : Nat} {t : Tree},
    Real s par prev L → idx? x L = some j → L[j]? = some t → (ids L).Nodup →
    (∀ k, prev = some k → k ∉ ids L) → (∀ k, par = some k → k ∉ ids L) →
    UnlinkEff s s' x (headId (L.drop (j + 1))) (prevAt prev L j) par →
    Real s' par prev (L.eraseIdx j) ∧ Real s' none none [t]
  | [], _, _, _, _, _, hj, _, _, _, _, _ => by simp at hj
  | (.node i n v cs) :: ts, par, prev, j, t, hL, hj, ht, hnd, hpv, hpa, he => by
    rw [idx?_cons] at hj
    rw [Real_cons] at hL
    rw [ids_cons, List.nodup_cons, List.mem_append, List.nodup_append] at hnd
    obtain ⟨hni, ndcs, ndts, disj⟩ := hnd
    have hpv' : ∀ k, some k = prev → k ≠ i ∧ k ∉ ids cs ∧ k ∉ ids ts := by
      intro k hk
      have := hpv k hk.symm
      simp at this
      grind
    have hpa' : ∀ k, some k = par → k ≠ i ∧ k ∉ ids cs ∧ k ∉ ids ts := by
      intro k hk
      have := hpa k hk.symm
      simp at this
      grind
    by_cases hix : i = x
    · subst hix
      simp at hj
      subst hj
      simp at ht
      subst ht
      simp only [List.eraseIdx_zero, List.tail_cons, List.drop_succ_cons, List.drop_zero, prevAt, ↓reduceIte] at he ⊢
      refine ⟨?_, ?_⟩
      · refine Real.set_prev hL.2.2 ndts (fun k hk => ?_)
        rw [he k]
        have h1 : k ≠ i := by rintro rfl; exact hni (Or.inr hk)
        simp only [h1, ↓reduceIte]
        by_cases h2 : some k = headId ts
        · simp [h2]
        · have h3 : some k ≠ prev := by intro h; exact (hpv' k h).2.2 hk
          have h4 : ¬ (prev = none ∧ some k = par) := by intro ⟨_, h⟩; exact (hpa' k h).2.2 hk
          simp [h2, h3, h4]
      · rw [Real_cons]
        refine ⟨?_, ?_, by simp⟩
        · rw [he i]; simp [hL.1]
        · refine Real.frame hL.2.1 (fun k hk => ?_)
          rw [he k]
          have h1 : k ≠ i := by rintro rfl; exact hni (Or.inl hk)
          have h2 : some k ≠ headId ts := by
            intro h; exact disj k hk k (headId_mem h.symm) rfl
          have h3 : some k ≠ prev := by intro h; exact (hpv' k h).2.1 hk
          have h4 : ¬ (prev = none ∧ some k = par) := by intro ⟨_, h⟩; exact (hpa' k h).2.1 hk
          simp [h1, h2, h3, h4]
    · simp [hix] at hj
      obtain ⟨j', hj', rfl⟩ := hj
      rw [prevAt_succ] at he
      simp only [Tree.id, List.drop_succ_cons] at he
      simp only [List.eraseIdx_cons_succ, List.getElem?_cons_succ] at ht ⊢
      have hxts : x ∈ ids ts := idx?_mem hj'
      have hnxt : ∀ k, some k = headId (ts.drop (j' + 1)) → k ∈ ids ts :=
        fun k hk => ids_drop_subset ts _ k (headId_mem hk.symm)
      have hpvm : ∀ k, some k = prevAt (some i) ts j' → k = i ∨ k ∈ ids ts := by
        intro k hk
        unfold prevAt at hk
        split at hk
        · left; simpa using hk
        · right; exact ids_drop_subset ts _ k (headId_mem hk.symm)
      have ih := real_unlink_list (t := t) hL.2.2 hj' ht ndts
        (by intro k hk; simp at hk; subst hk; exact fun h => hni (Or.inr h))
        (by intro k hk; exact (hpa' k hk.symm).2.2) he
      refine ⟨?_, ih.2⟩
      rw [Real_cons]
      refine ⟨?_, ?_, ih.1⟩
      · rw [he i]
        have h2 : some i ≠ headId (ts.drop (j' + 1)) := by
          intro h; exact hni (Or.inr (hnxt i h))
        simp only [hix, h2, ↓reduceIte]
        cases j' with
        | zero =>
          simp [prevAt, hL.1]
        | succ j'' =>
          have hne : ts ≠ [] := by intro h; simp [h] at hj'
          rw [headId_eraseIdx_succ ts j'' hne]
          have h3 : some i ≠ prevAt (some i) ts (j'' + 1) := by
            intro h
            unfold prevAt at h
            simp at h
            exact hni (Or.inr (ids_drop_subset ts _ i (headId_mem h.symm)))
          have h4 : ¬ (prevAt (some i) ts (j'' + 1) = none ∧ some i = par) := by
            intro ⟨_, h⟩; exact (hpa' i h).1 rfl
          simp [h3, h4, hL.1]
      · refine Real.frame hL.2.1 (fun k hk => ?_)
        rw [he k]
        have h1 : k ≠ x := by rintro rfl; exact disj k hk k hxts rfl
        have h2 : some k ≠ headId (ts.drop (j' + 1)) := by
          intro h; exact disj k hk k (hnxt k h) rfl
        have h3 : some k ≠ prevAt (some i) ts j' := by
          intro h
          rcases hpvm k h with rfl | h'
          · exact hni (Or.inl hk)
          · exact disj k hk k h' rfl
        have h4 : ¬ (prevAt (some i) ts j' = none ∧ some k = par) := by
          intro ⟨_, h⟩; exact (hpa' k h).2.1 hk
        simp [h1, h2, h3, h4]

theorem prevAt_ne_next {x : Nat} : ∀ {L : Forest} {prev : Option Nat} {j : Nat}, idx? x L = some j → (ids L).Nodup →
    (∀ k, prev = some k → k ∉ ids L) →
    ∀ k, prevAt prev L j = some k → headId (L.drop (j + 1)) ≠ some k
  | [], _, _, hj, _, _, _, _ => by simp at hj
  | (.node i n v cs) :: ts, prev, j, hj, hnd, hpv, k, hk => by
    rw [idx?_cons] at hj
    rw [ids_cons, List.nodup_cons, List.mem_append, List.nodup_append] at hnd
    obtain ⟨hni, ndcs, ndts, disj⟩ := hnd
    by_cases hix : i = x
    · subst hix
      simp at hj; subst hj
      simp [prevAt] at hk
      intro h
      have := hpv k hk
      simp at this
      exact this.2.2 (headId_mem (by simpa using h))
    · simp [hix] at hj
      obtain ⟨j', hj', rfl⟩ := hj
      rw [prevAt_succ] at hk
      simp only [List.drop_succ_cons]
      exact prevAt_ne_next hj' ndts (by intro k hk; simp [Tree.id] at hk; subst hk; exact fun h => hni (Or.inr h)) k hk

theorem getElem?_of_idx? {p : Nat} : ∀ {L : Forest} {j : Nat}, idx? p L = some j → ∃ t, L[j]? = some t ∧ t.id = p
  | [], _, hj => by simp at hj
  | (.node i n v cs) :: ts, j, hj => by
    rw [idx?_cons] at hj
    by_cases hix : i = p
    · subst hix; simp at hj; subst hj; exact ⟨.node i n v cs, by simp, rfl⟩
    · simp [hix] at hj
      obtain ⟨j', hj', rfl⟩ := hj
      simpa using getElem?_of_idx? hj'

/-- `mpt_node_unlink(x)` for a node with siblings or a parent: `x` (with everything below it) leaves its
    sibling list and becomes a top-level list of its own; the returned pointer is the old successor -/
theorem unlink_refines {s : Store} {x j : Nat} {l0 L : Forest} {rest : List Forest} {par : Option Nat} {t : Tree}
    (hR : Realises s (l0 :: rest)) (hat : SibsAt x l0 L j par) (ht : L[j]? = some t)
    (hne : applyAt par (fun L => L.eraseIdx j) l0 ≠ []) :
    ∃ s', s.unlink x = .ok (s', headId (L.drop (j + 1))) ∧
      Realises s' ([t] :: applyAt par (fun L => L.eraseIdx j) l0 :: rest) := by
  have hl0 := hR.real l0 (by simp)
  have hnd := hR.nodup
  simp only [List.flatMap_cons] at hnd
  have hnd0 : (ids l0).Nodup := (List.nodup_append.1 hnd).1
  have hLr := hat.real hl0.2
  have hLnd := hat.nodup hnd0
  have hidx := hat.idx
  have hxL : x ∈ ids L := idx?_mem hidx
  have hLsub := hat.subset
  have hparL : ∀ q, par = some q → q ∉ ids L ∧ q ∈ ids l0 := hat.par_not_mem hnd0
  obtain ⟨xcs, xn, xv, hxrec⟩ := Real.rec_at' hLr hidx
  have hnxtL : ∀ q, headId (L.drop (j + 1)) = some q → q ∈ ids L :=
    fun q hq => ids_drop_subset L _ q (headId_mem hq)
  obtain ⟨s', hs', hfreed, hlen, heff⟩ := Store.unlink_ok (s := s) (c := x) ⟨hxrec, rfl⟩
    (by
      intro q hq
      obtain ⟨qn, hqn⟩ := Real.live hLr q (hnxtL q hq)
      refine ⟨qn, hqn, ?_⟩
      rintro rfl
      exact idx?_not_mem_drop hidx hLnd (headId_mem hq))
    (by
      intro q hq
      have hqL : q ∈ ids L := prevAt_mem hq
      obtain ⟨qn, hqn⟩ := Real.live hLr q hqL
      refine ⟨qn, hqn, ?_, ?_⟩
      · rintro rfl; exact prevAt_ne hidx hLnd (by simp) hq
      · exact fun h => prevAt_ne_next hidx hLnd (by simp) q hq h.symm)
    (by
      intro _ r hr
      obtain ⟨hrL, hrl0⟩ := hparL r hr
      obtain ⟨rn, hrn⟩ := Real.live hl0.2 r hrl0
      refine ⟨rn, hrn, by rintro rfl; exact hrL hxL, ?_⟩
      exact fun h => hrL (hnxtL r h.symm))
  refine ⟨s', hs', ?_⟩
  have hUE : UnlinkEff s s' x (headId (L.drop (j + 1))) (prevAt none L j) par := by
    intro i
    rw [heff i]
    by_cases h1 : i = x
    · subst h1; simp [hxrec]
    · simp [h1]
  obtain ⟨hloc, hT⟩ := real_unlink_list (t := t) hLr hidx ht hLnd (by simp) (fun k hk => (hparL k hk).1) hUE
  have hpvL : ∀ i, some i = prevAt none L j → i ∈ ids L := fun i h => prevAt_mem h.symm
  have hLne : L ≠ [] := by intro h; simp [h] at hidx
  have hunch : ∀ i, i ∉ ids L → some i ≠ par → s'.nodes[i]? = s.nodes[i]? := by
    intro i h2 h3
    rw [hUE i]
    have h1 : i ≠ x := by rintro rfl; exact h2 hxL
    have h4 : some i ≠ headId (L.drop (j + 1)) := fun h => h2 (hnxtL i h.symm)
    have h5 : some i ≠ prevAt none L j := fun h => h2 (hpvL i h)
    have h6 : ¬ (prevAt none L j = none ∧ some i = par) := fun ⟨_, h⟩ => h3 h
    simp [h1, h4, h5, h6]
  refine hR.of_sameLife ⟨hfreed, ?_⟩ ?_ ?_
  · intro i
    rw [hUE i]
    cases hsi : s.nodes[i]? <;> (repeat' split) <;> simp
  · intro l' hl'
    simp only [List.mem_cons] at hl'
    rcases hl' with rfl | rfl | hl'
    · exact ⟨by simp, hT⟩
    · refine ⟨hne, ?_⟩
      refine hat.lift hl0.2 hnd0 hloc ?_ ?_
      · intro q hq
        obtain ⟨hqL, hql0⟩ := hparL q hq
        obtain ⟨qn, hqn, hqc⟩ := hat.par_rec hl0.2 q hq
        rw [hUE q]
        have h1 : q ≠ x := by rintro rfl; exact hqL hxL
        have h2 : some q ≠ headId (L.drop (j + 1)) := fun h => hqL (hnxtL q h.symm)
        have h3 : some q ≠ prevAt none L j := fun h => hqL (hpvL q h)
        simp only [h1, h2, h3, ↓reduceIte]
        cases j with
        | zero =>
          simp [prevAt, hq]
        | succ j' =>
          have h4 : ¬ (prevAt none L (j' + 1) = none ∧ some q = par) := by
            intro ⟨h, _⟩
            unfold prevAt at h
            simp at h
            have hlt := idx?_lt hidx
            cases hd : L.drop j' with
            | nil =>
              have := congrArg List.length hd
              simp at this
              omega
            | cons a as => cases a; simp [hd] at h
          rw [if_neg h4, hqn, headId_eraseIdx_succ L j' hLne]
          simp [← hqc]
      · intro i hi hip hiL
        exact hunch i hiL hip
    · have hr := hR.real l' (by simp [hl'])
      refine ⟨hr.1, Real.frame hr.2 (fun i hi => ?_)⟩
      have hirest : i ∈ rest.flatMap ids := List.mem_flatMap.2 ⟨l', hl', hi⟩
      have h3 := (List.nodup_append.1 hnd).2.2
      refine hunch i ?_ ?_
      · intro h; exact h3 i (hLsub i h) i hirest rfl
      · intro h
        obtain ⟨_, hq⟩ := hparL i h.symm
        exact h3 i hq i hirest rfl
  · simp only [List.flatMap_cons]
    obtain ⟨A, B, h1, h2⟩ := hat.ids_split hnd0
    rw [h1, h2]
    have hp := ids_eraseIdx_perm L j ht
    have : (ids [t] ++ (A ++ ids (L.eraseIdx j) ++ B)).Perm (A ++ ids L ++ B) := by
      have h3 : (A ++ ids L ++ B).Perm (A ++ (ids [t] ++ ids (L.eraseIdx j)) ++ B) :=
        List.Perm.append_right _ (List.Perm.append_left _ hp)
      refine List.Perm.trans ?_ h3.symm
      have := @List.perm_append_comm _ (ids [t]) A
      have h4 := List.Perm.append_right (ids (L.eraseIdx j) ++ B) this
      simpa [List.append_assoc] using h4
    have h5 := List.Perm.append_right (rest.flatMap ids) this
    simpa [List.append_assoc] using h5


/-- the link invariants of the property text, about one live record -/
structure LinksAt (s : Store) (i : Nat) (n : Node) : Prop where
  /-- forward and backward links agree; siblings name the same parent -/
  next_prev : ∀ j, n.next = some j → ∃ m, s.Live j m ∧ m.prev = some i ∧ m.parent = n.parent
  prev_next : ∀ j, n.prev = some j → ∃ m, s.Live j m ∧ m.next = some i
  /-- the first-child link leads to a node that names this node as parent and has no predecessor -/
  child_parent : ∀ c, n.children = some c → ∃ m, s.Live c m ∧ m.parent = some i ∧ m.prev = none
  /-- the parent is alive, has children, and its first-child link is the head of this sibling list -/
  parent_head : ∀ p, n.parent = some p → ∃ m, s.Live p m ∧ m.children.isSome ∧ (n.prev = none → m.children = some i)

theorem Real.links {s : Store} : ∀ {l : Forest} {par prev : Option Nat},
    Real s par prev l →
    (∀ k, prev = some k → ∃ m, s.Live k m ∧ m.next = headId l) →
    (∀ q, par = some q → ∃ m, s.Live q m ∧ m.children.isSome ∧ (prev = none → m.children = headId l)) →
    ∀ i ∈ ids l, ∃ n, s.Live i n ∧ LinksAt s i n
  | [], _, _, _, _, _, i, hi => by simp at hi
  | (.node j nm v cs) :: ts, par, prev, hL, hpv, hpa, i, hi => by
    rw [Real_cons] at hL
    have hlive : s.Live j (recOf (headId ts) prev par cs nm v) := ⟨hL.1, rfl⟩
    simp at hi
    rcases hi with rfl | hi | hi
    · refine ⟨_, hlive, ?_, ?_, ?_, ?_⟩
      · intro k hk
        simp at hk
        cases ts with
        | nil => simp at hk
        | cons t ts' =>
          cases t with
          | node k' n' v' cs' =>
            simp at hk; subst hk
            have := hL.2.2
            rw [Real_cons] at this
            exact ⟨_, ⟨this.1, rfl⟩, rfl, rfl⟩
      · intro k hk
        simp at hk
        obtain ⟨m, hm, hn⟩ := hpv k hk
        exact ⟨m, hm, by simpa using hn⟩
      · intro c hc
        simp at hc
        cases cs with
        | nil => simp at hc
        | cons t cs' =>
          cases t with
          | node k' n' v' cs'' =>
            simp at hc; subst hc
            have := hL.2.1
            rw [Real_cons] at this
            exact ⟨_, ⟨this.1, rfl⟩, rfl, rfl⟩
      · intro p hp
        simp at hp
        obtain ⟨m, hm, hc, hh⟩ := hpa p hp
        exact ⟨m, hm, hc, by intro h; simp at h; simpa using hh h⟩
    · refine Real.links hL.2.1 (by simp) ?_ i hi
      intro q hq
      simp at hq; subst hq
      refine ⟨_, hlive, ?_, fun _ => rfl⟩
      cases cs with
      | nil => simp at hi
      | cons t cs' => cases t; simp
    · refine Real.links hL.2.2 ?_ ?_ i hi
      · intro k hk
        simp at hk; subst hk
        exact ⟨_, hlive, rfl⟩
      · intro q hq
        obtain ⟨m, hm, hc, _⟩ := hpa q hq
        exact ⟨m, hm, hc, by simp⟩

/-- on a well-formed store every live record satisfies the link invariants -/
theorem Realises.links {s : Store} {tops : List Forest} (h : Realises s tops) :
    ∀ i n, s.Live i n → LinksAt s i n := by
  intro i n hl
  have hi := h.cover i n hl.1 hl.2
  obtain ⟨l, hlt, hil⟩ := List.mem_flatMap.1 hi
  obtain ⟨n', hn', hlk⟩ := Real.links (h.real l hlt).2 (by simp) (by simp) i hil
  have : n' = n := by
    have := hn'.1
    rw [hl.1] at this
    exact (Option.some.inj this).symm
  subst this
  exact hlk


end Mpt.Nodes
