/-
  Refinement of node_unlink (continuation of NodesOps2).
-/
import MptModel.Lemmas.NodesOps2
namespace Mpt.Nodes
open Mpt Mpt.Forest

/-- the handles of a forest before and after replacing the children of `q`: same context -/
theorem ids_modKids_split {q : Nat} {tq : Tree} : ∀ {l : Forest}, (ids l).Nodup → find? q l = some tq →
    ∃ A B, ids l = A ++ ids tq.children ++ B ∧ ∀ g, ids (modKids q g l) = A ++ ids (g tq.children) ++ B
  | [], _, hf => by simp [find?] at hf
  | (.node i n v cs) :: ts, hnd, hf => by
    rw [ids_cons, List.nodup_cons, List.mem_append, List.nodup_append] at hnd
    obtain ⟨hni, ndcs, ndts, disj⟩ := hnd
    simp only [find?] at hf
    by_cases hiq : i = q
    · subst hiq
      simp at hf; subst hf
      refine ⟨[i], ids ts, by simp [Tree.children], ?_⟩
      intro g
      simp [modKids, Tree.children]
    · simp only [hiq, ↓reduceIte] at hf
      cases hc : find? q cs with
      | some t =>
        simp [hc] at hf; subst hf
        have hqcs := (find?_mem hc).1
        have hqts : q ∉ ids ts := fun h => disj q hqcs q h rfl
        obtain ⟨A, B, h1, h2⟩ := ids_modKids_split ndcs hc
        refine ⟨i :: A, B ++ ids ts, by simp [h1], ?_⟩
        intro g
        simp [modKids, hiq, modKids_of_not_mem hqts, h2 g]
      | none =>
        simp [hc] at hf
        have hqts := (find?_mem hf).1
        have hqcs : q ∉ ids cs := fun h => disj q h q hqts rfl
        obtain ⟨A, B, h1, h2⟩ := ids_modKids_split ndts hf
        refine ⟨i :: (ids cs ++ A), B, by simp [h1], ?_⟩
        intro g
        simp [modKids, hiq, modKids_of_not_mem hqcs, h2 g]

theorem SibsAt.ids_split {p : Nat} {l L : Forest} {j : Nat} {par : Option Nat}
    (h : SibsAt p l L j par) (hnd : (ids l).Nodup) :
    ∃ A B, ids l = A ++ ids L ++ B ∧ ∀ g, ids (applyAt par g l) = A ++ ids (g L) ++ B := by
  cases h with
  | top _ => exact ⟨[], [], by simp, fun g => by simp [applyAt]⟩
  | kids hf _ => exact ids_modKids_split hnd hf

theorem ids_eraseIdx_perm {t : Tree} : ∀ (L : Forest) (j : Nat), L[j]? = some t →
    (ids L).Perm (ids [t] ++ ids (L.eraseIdx j))
  | [], _, h => by simp at h
  | (.node i n v cs) :: ts, 0, h => by simp at h; subst h; simp
  | (.node i n v cs) :: ts, j + 1, h => by
    have ih := ids_eraseIdx_perm ts j (by simpa using h)
    simp only [List.eraseIdx_cons_succ, ids_cons]
    have h1 : (i :: (ids cs ++ ids ts)).Perm (i :: (ids cs ++ (ids [t] ++ ids (ts.eraseIdx j)))) :=
      List.Perm.cons _ (List.Perm.append_left _ ih)
    refine h1.trans ?_
    have := @List.perm_append_comm _ (i :: ids cs) (ids [t])
    have h2 := List.Perm.append_right (ids (ts.eraseIdx j)) this
    simpa [List.append_assoc] using h2


/-- the records after `unlink(x)`; `nxt`/`pvp` = old successor/predecessor, `par` = parent of `x` -/
def UnlinkEff (s s' : Store) (x : Nat) (nxt pvp par : Option Nat) : Prop :=
  ∀ i, s'.nodes[i]? =
    if i = x then (s.nodes[i]?).map (fun cn => { cn with parent := none, next := none, prev := none })
    else if some i = nxt then (s.nodes[i]?).map (fun qn => { qn with prev := pvp })
    else if some i = pvp then (s.nodes[i]?).map (fun pn => { pn with next := nxt })
    else if pvp = none ∧ some i = par then (s.nodes[i]?).map (fun rn => { rn with children := nxt })
    else s.nodes[i]?

theorem headId_eraseIdx_succ (l : Forest) (j : Nat) (h : l ≠ []) : headId (l.eraseIdx (j + 1)) = headId l := by
  cases l with
  | nil => simp at h
  | cons a as => simp [headId]

theorem headId_drop_one (l : Forest) : headId (l.drop 1) = headId (l.eraseIdx 0) := by
  cases l <;> simp

theorem real_unlink_list {s s' : Store} {x : Nat} :
    ∀ {L : Forest} {par prev : Option Nat} {j : Nat} {t : Tree},
    Real s par prev L → idx? x L = some j → L[j]? = some t → (ids L).Nodup →
    (∀ k, prev = some k → k ∉ ids L) → (∀ k, par = some k → k ∉ ids L) →
    UnlinkEff s s' x (headId (L.drop (j + 1))) (prevAt prev L j) par →
    Real s' par prev (L.eraseIdx j) ∧ Real s' none none [t]
  | [], _, _, _, _, _, hj, _, _, _, _, _ => by simp at hj
  | (.node i n v cs) :: ts, par, prev, j, t, hL, hj, ht, hnd, hpv, hpa, he => by
    rw [idx?_cons] at hj
    rw [Real_cons] at hL
    rw [ids_cons, List.nodup_cons, List.mem_append, List.nodup_append] at hnd
    obtain ⟨hni, ndcs, ndts, disj⟩ := hnd
    have hpv' : ∀ k, some k = prev → k ≠ i ∧ k ∉ ids cs ∧ k ∉ ids ts := by
      intro k hk
      have := hpv k hk.symm
      simp at this
      grind
    have hpa' : ∀ k, some k = par → k ≠ i ∧ k ∉ ids cs ∧ k ∉ ids ts := by
      intro k hk
      have := hpa k hk.symm
      simp at this
      grind
    by_cases hix : i = x
    · subst hix
      simp at hj
      subst hj
      simp at ht
      subst ht
      simp only [List.eraseIdx_zero, List.tail_cons, List.drop_succ_cons, List.drop_zero, prevAt, ↓reduceIte] at he ⊢
      refine ⟨?_, ?_⟩
      · refine Real.set_prev hL.2.2 ndts (fun k hk => ?_)
        rw [he k]
        have h1 : k ≠ i := by rintro rfl; exact hni (Or.inr hk)
        simp only [h1, ↓reduceIte]
        by_cases h2 : some k = headId ts
        · simp [h2]
        · have h3 : some k ≠ prev := by intro h; exact (hpv' k h).2.2 hk
          have h4 : ¬ (prev = none ∧ some k = par) := by intro ⟨_, h⟩; exact (hpa' k h).2.2 hk
          simp [h2, h3, h4]
      · rw [Real_cons]
        refine ⟨?_, ?_, by simp⟩
        · rw [he i]; simp [hL.1]
        · refine Real.frame hL.2.1 (fun k hk => ?_)
          rw [he k]
          have h1 : k ≠ i := by rintro rfl; exact hni (Or.inl hk)
          have h2 : some k ≠ headId ts := by
            intro h; exact disj k hk k (headId_mem h.symm) rfl
          have h3 : some k ≠ prev := by intro h; exact (hpv' k h).2.1 hk
          have h4 : ¬ (prev = none ∧ some k = par) := by intro ⟨_, h⟩; exact (hpa' k h).2.1 hk
          simp [h1, h2, h3, h4]
    · simp [hix] at hj
      obtain ⟨j', hj', rfl⟩ := hj
      rw [prevAt_succ] at he
      simp only [Tree.id, List.drop_succ_cons] at he
      simp only [List.eraseIdx_cons_succ, List.getElem?_cons_succ] at ht ⊢
      have hxts : x ∈ ids ts := idx?_mem hj'
      have hnxt : ∀ k, some k = headId (ts.drop (j' + 1)) → k ∈ ids ts :=
        fun k hk => ids_drop_subset ts _ k (headId_mem hk.symm)
      have hpvm : ∀ k, some k = prevAt (some i) ts j' → k = i ∨ k ∈ ids ts := by
        intro k hk
        unfold prevAt at hk
        split at hk
        · left; simpa using hk
        · right; exact ids_drop_subset ts _ k (headId_mem hk.symm)
      have ih := real_unlink_list (t := t) hL.2.2 hj' ht ndts
        (by intro k hk; simp at hk; subst hk; exact fun h => hni (Or.inr h))
        (by intro k hk; exact (hpa' k hk.symm).2.2) he
      refine ⟨?_, ih.2⟩
      rw [Real_cons]
      refine ⟨?_, ?_, ih.1⟩
      · rw [he i]
        have h2 : some i ≠ headId (ts.drop (j' + 1)) := by
          intro h; exact hni (Or.inr (hnxt i h))
        simp only [hix, h2, ↓reduceIte]
        cases j' with
        | zero =>
          simp [prevAt, hL.1]
        | succ j'' =>
          have hne : ts ≠ [] := by intro h; simp [h] at hj'
          rw [headId_eraseIdx_succ ts j'' hne]
          have h3 : some i ≠ prevAt (some i) ts (j'' + 1) := by
            intro h
            unfold prevAt at h
            simp at h
            exact hni (Or.inr (ids_drop_subset ts _ i (headId_mem h.symm)))
          have h4 : ¬ (prevAt (some i) ts (j'' + 1) = none ∧ some i = par) := by
            intro ⟨_, h⟩; exact (hpa' i h).1 rfl
          simp [h3, h4, hL.1]
      · refine Real.frame hL.2.1 (fun k hk => ?_)
        rw [he k]
        have h1 : k ≠ x := by rintro rfl; exact disj k hk k hxts rfl
        have h2 : some k ≠ headId (ts.drop (j' + 1)) := by
          intro h; exact disj k hk k (hnxt k h) rfl
        have h3 : some k ≠ prevAt (some i) ts j' := by
          intro h
          rcases hpvm k h with rfl | h'
          · exact hni (Or.inl hk)
          · exact disj k hk k h' rfl
        have h4 : ¬ (prevAt (some i) ts j' = none ∧ some k = par) := by
          intro ⟨_, h⟩; exact (hpa' k h).2.1 hk
        simp [h1, h2, h3, h4]

end Mpt.Nodes
