/-
  Helper lemmas for C02 (core Lean only): histories of an encode queue (push / terminate / take / grow /
  align in any order) and what they put on the wire.
-/
import MptModel.Lemmas.CodedQueue
import MptModel.Lemmas.Stream
namespace Mpt.CQ
open Mpt Mpt.Cobs Mpt.Codec Mpt.Stream

/-- `mpt_stream_flush`'s queue part: the first `n` finished bytes leave the queue -/
theorem queueTake_spec (v : Variant) (q : EncodeQueue) (vis fin : List Byte) (ms : List (Byte × Bool)) (n : Nat)
    (h : EInv v q vis fin ms) :
    ∃ q', queueTake q n = .ok (q', vis.take n) ∧ q'.ring.store.length = q.ring.store.length ∧
      EInv v q' (vis.drop n) fin ms := by
  have hwf := h.wf
  have hw := h.winv
  have hb := hw.bound
  have hcl := Ring.content_length q.ring hwf.1 hwf.2
  have hlen := h.len
  unfold queueTake
  have hmin : min n (min q.st.done q.ring.len) = min n q.st.done := by omega
  simp only [hmin]
  obtain ⟨r', c, he, hwf', hs', hl', hc'⟩ := Ring.crop_front q.ring hwf (min n q.st.done) (by omega)
  rw [he]
  have hout : q.ring.content.take (min n q.st.done) = vis.take n := by
    rw [winv_take_k hw (min n q.st.done) (by omega), hb.2]
    by_cases hn : n ≤ vis.length
    · rw [Nat.min_eq_left hn]
    · rw [Nat.min_eq_right (by omega), List.take_of_length_le (Nat.le_refl _), List.take_of_length_le (by omega)]
  have hdrop : vis.drop (min n q.st.done) = vis.drop n := by
    rw [hb.2]
    by_cases hn : n ≤ vis.length
    · rw [Nat.min_eq_left hn]
    · rw [Nat.min_eq_right (by omega), List.drop_of_length_le (Nat.le_refl _), List.drop_of_length_le (by omega)]
  simp only [hout]
  refine ⟨_, rfl, by simp only; rw [hs'], h.codec, by simp only; omega, ?_⟩
  unfold WorkInv
  simp only
  rw [ring_len_eta r' _ (by omega)]
  refine ⟨hwf', ?_⟩
  rw [hc', ← hdrop]
  exact hw.window (min n q.st.done) (by omega) (by omega)
    (by rw [List.take_of_length_le (by rw [List.length_drop]; omega)]) (by rw [List.length_drop]; omega)

/-- `mpt_queue_prepare` on the data keeps the invariant (and the content) -/
theorem prepare_keeps (v : Variant) (q : EncodeQueue) (vis fin : List Byte) (ms : List (Byte × Bool)) (n : Nat)
    (h : EInv v q vis fin ms) :
    ∃ r' left, q.ring.prepare n = .ok (r', left) ∧ EInv v { q with ring := r' } vis fin ms := by
  obtain ⟨r', left, he, hwf', hc', _, _, hl'⟩ := Ring.prepare_spec q.ring h.wf n
  refine ⟨r', left, he, h.codec, by simp only; rw [hl', h.len], ?_⟩
  unfold WorkInv
  simp only
  rw [ring_len_eta r' _ (by rw [hl', h.len])]
  exact ⟨hwf', by rw [hc']; exact h.winv⟩

/-- `mpt_queue_align` on the data keeps the invariant (and the content) -/
theorem align_keeps (v : Variant) (q : EncodeQueue) (vis fin : List Byte) (ms : List (Byte × Bool)) (p : Nat)
    (h : EInv v q vis fin ms) :
    ∃ r', q.ring.align p = .ok r' ∧ EInv v { q with ring := r' } vis fin ms := by
  obtain ⟨r', he, hwf', hl', _, hc', _⟩ := Ring.align_spec q.ring h.wf p
  refine ⟨r', he, h.codec, by simp only; rw [hl', h.len], ?_⟩
  unfold WorkInv
  simp only
  rw [ring_len_eta r' _ (by rw [hl', h.len])]
  exact ⟨hwf', by rw [hc']; exact h.winv⟩

/-- **direct data append** (`mpt_queue_push` without encoder) on any ring state with `done + scratch = data.len`:
    the first `min free len` bytes are appended and counted as open data; a full queue refuses with
    `MissingBuffer`; the terminating call turns everything into finished data -/
theorem pushRaw_spec (q : EncodeQueue) (hc : q.codec = none) (hwf : q.ring.WF) (hl : q.st.done + q.st.scratch = q.ring.len) :
    (∃ out, queuePush q none = .ok out ∧ out.ret = (q.ring.len : Nat) ∧ out.q.ring = q.ring ∧
        out.q.st.done = q.ring.len ∧ out.q.st.scratch = 0) ∧
    (∀ bytes, ∃ out, queuePush q (some bytes) = .ok out ∧
      ((q.ring.len = q.ring.store.length ∧ out.ret = Err.MissingBuffer.code ∧ out.q = q) ∨
       (q.ring.len < q.ring.store.length ∧ out.ret = ((min (q.ring.store.length - q.ring.len) bytes.length : Nat) : Int) ∧
          out.q.ring.WF ∧ out.q.ring.store.length = q.ring.store.length ∧
          out.q.ring.content = q.ring.content ++ bytes.take (min (q.ring.store.length - q.ring.len) bytes.length) ∧
          out.q.st.done = q.st.done ∧
          out.q.st.scratch = q.st.scratch + min (q.ring.store.length - q.ring.len) bytes.length))) := by
  constructor
  · unfold queuePush pushRaw
    rw [hc]
    exact ⟨_, rfl, rfl, rfl, rfl, rfl⟩
  · intro bytes
    unfold queuePush pushRaw
    rw [hc]
    simp only [Ring.max]
    rw [if_neg (by omega)]
    by_cases hfull : q.ring.store.length - q.ring.len = 0
    · rw [if_pos hfull]
      exact ⟨_, rfl, Or.inl ⟨by have := hwf.1; omega, rfl, rfl⟩⟩
    · rw [if_neg hfull]
      have htl : (bytes.take (min (q.ring.store.length - q.ring.len) bytes.length)).length
          = min (q.ring.store.length - q.ring.len) bytes.length := by
        rw [List.length_take]; omega
      obtain ⟨r', c, he, hwf', hs', hc'⟩ := Ring.qpush_ok q.ring hwf (min (q.ring.store.length - q.ring.len) bytes.length)
        (some (bytes.take (min (q.ring.store.length - q.ring.len) bytes.length))) (by omega) (by omega)
      rw [he]
      have hsrc := Ring.setSrc_some' (bytes.take (min (q.ring.store.length - q.ring.len) bytes.length))
      rw [htl] at hsrc
      rw [hsrc] at hc'
      exact ⟨_, rfl, Or.inr ⟨by omega, rfl, hwf', hs', hc', rfl, rfl⟩⟩

/-! ### histories -/

/-- operations on the sender side -/
inductive EOp where
  | push (bytes : List Byte)
  | term
  | take (n : Nat)
  | grow (n : Nat)
  | align (p : Nat)
  deriving Repr

/-- sender state: the queue, the bytes taken from it so far (the wire), the messages terminated so far,
    the consumed bytes of the message in progress -/
structure ESt where
  q : EncodeQueue
  wire : List Byte := []
  msgs : List Msg := []
  cur : List Byte := []
  deriving Repr

def estep (s : ESt) : EOp → ESt
  | .push bytes =>
    match queuePush s.q (some bytes) with
    | .ok o => if o.ret < 0 then { s with q := o.q } else { s with q := o.q, cur := s.cur ++ bytes.take o.ret.toNat }
    | _ => s
  | .term =>
    match queuePush s.q none with
    | .ok o => if o.ret < 0 then { s with q := o.q } else { s with q := o.q, msgs := s.msgs ++ [s.cur], cur := [] }
    | _ => s
  | .take n =>
    match queueTake s.q n with
    | .ok (q, out) => { s with q := q, wire := s.wire ++ out }
    | _ => s
  | .grow n =>
    match s.q.ring.prepare n with
    | .ok (r, _) => { s with q := { s.q with ring := r } }
    | _ => s
  | .align p =>
    match s.q.ring.align p with
    | .ok r => { s with q := { s.q with ring := r } }
    | _ => s

def erun (s : ESt) (ops : List EOp) : ESt := ops.foldl estep s

theorem _root_.Mpt.Stream.Carries.snoc {v : Variant} {fs : List (List Byte)} {ms : List Msg} (h : Carries v fs ms) {f : List Byte} {m : Msg}
    (hf : IsFrame f ∧ dec v f = some m) : Carries v (fs ++ [f]) (ms ++ [m]) := by
  induction h with
  | nil => exact Carries.cons hf Carries.nil
  | cons a _ ih => exact Carries.cons a ih

/-- history invariant: the bytes taken so far followed by the finished bytes still in the queue are the
    frames of the terminated messages followed by the finished blocks of the message in progress -/
structure EHist (v : Variant) (s : ESt) : Prop where
  ex : ∃ (frames : List (List Byte)) (vis fin : List Byte) (ms : List (Byte × Bool)),
    EInv v s.q vis fin ms ∧ Carries v frames s.msgs ∧ s.wire ++ vis = frames.flatten ++ fin ∧ ms.map Prod.fst = s.cur

theorem estep_hist (v : Variant) (s : ESt) (op : EOp) (h : EHist v s) : EHist v (estep s op) := by
  obtain ⟨frames, vis, fin, ms, hinv, hcar, hsum, hcur⟩ := h.ex
  cases op with
  | push bytes =>
    obtain ⟨out, he, _, hc⟩ := queuePush_refines v s.q vis fin ms (some bytes) hinv
    simp only [estep, he]
    rcases hc with ⟨hneg, hi⟩ | ⟨vis', fin', ms', ret, hret, hprog, hi⟩
    · rw [if_pos hneg]; exact ⟨frames, vis, fin, ms, hi, hcar, hsum, hcur⟩
    · rw [if_neg (by omega)]
      obtain ⟨fin1, ms2, _, hm2, rfl, rfl, rfl⟩ := hprog
      refine ⟨frames, _, _, _, hi, hcar, ?_, ?_⟩
      · simp only; rw [← List.append_assoc, hsum, List.append_assoc]
      · simp only; rw [List.map_append, hcur, hm2]; congr 2; omega
  | term =>
    obtain ⟨out, he, _, hc⟩ := queuePush_refines v s.q vis fin ms none hinv
    simp only [estep, he]
    rcases hc with ⟨hneg, hi⟩ | ⟨vis', fin', ms', ret, hret, hprog, hi⟩
    · rw [if_pos hneg]; exact ⟨frames, vis, fin, ms, hi, hcar, hsum, hcur⟩
    · rw [if_neg (by omega)]
      obtain ⟨tail, _, hframe, rfl, rfl, rfl⟩ := hprog
      refine ⟨frames ++ [encB v [] false ms ++ [0]], _, _, _, hi, ?_, ?_, rfl⟩
      · refine hcar.snoc ⟨IsFrame.mk _ (encB_nz v ms [] false (Inv.nil v)), ?_⟩
        rw [dec_body_frame v ms, hcur]
      · simp only
        rw [← List.append_assoc, hsum, List.flatten_append, hframe]; simp
  | take n =>
    obtain ⟨q', he, _, hi⟩ := queueTake_spec v s.q vis fin ms n hinv
    simp only [estep, he]
    refine ⟨frames, _, _, _, hi, hcar, ?_, hcur⟩
    simp only
    rw [List.append_assoc, List.take_append_drop, hsum]
  | grow n =>
    obtain ⟨r', left, he, hi⟩ := prepare_keeps v s.q vis fin ms n hinv
    simp only [estep, he]
    exact ⟨frames, vis, fin, ms, hi, hcar, hsum, hcur⟩
  | align p =>
    obtain ⟨r', he, hi⟩ := align_keeps v s.q vis fin ms p hinv
    simp only [estep, he]
    exact ⟨frames, vis, fin, ms, hi, hcar, hsum, hcur⟩

theorem erun_hist (v : Variant) (ops : List EOp) : ∀ s, EHist v s → EHist v (erun s ops) := by
  induction ops with
  | nil => intro s h; exact h
  | cons op ops ih => intro s h; exact ih _ (estep_hist v s op h)

theorem fresh_hist (v : Variant) (store : List Byte) (off : Nat) (h : off ≤ store.length) :
    EHist v { q := { ring := { store := store, len := 0, off := off }, codec := some (.cobs v) } } :=
  ⟨[], [], [], [], EInv.fresh v store off h, Carries.nil, rfl, rfl⟩

end Mpt.CQ
