/-
  C11: the spec's bookkeeping function `book` meets the declarative statement `Follows` (Spec/Dispatch.lean), and that
  statement determines the outcome.
-/
import MptModel.Spec.Dispatch
namespace Mpt.Dispatch

theorem mask_testBit (i : Nat) : (0xFFFFFFFE : Nat).testBit i = (decide (i ≠ 0) && decide (i < 32)) := by
  cases i with
  | zero => decide
  | succ j =>
    rw [Nat.testBit_succ]
    have : (0xFFFFFFFE : Nat) / 2 = 2 ^ 31 - 1 := by decide
    rw [this, Nat.testBit_two_pow_sub_one]
    by_cases h : j < 31
    · have : j + 1 < 32 := by omega
      simp [h, this]
    · have : ¬ j + 1 < 32 := by omega
      simp [h, this]

theorem clrDefault_eq (f : Nat) (hf : f < 2 ^ 32) : clrDefault f = 2 * (f / 2) := by
  unfold clrDefault
  apply Nat.eq_of_testBit_eq
  intro i
  rw [Nat.testBit_and, mask_testBit]
  cases i with
  | zero => simp [Nat.testBit_zero]
  | succ j =>
    have e : (2 * (f / 2)).testBit (j + 1) = f.testBit (j + 1) := by
      rw [Nat.testBit_succ, Nat.testBit_succ, Nat.mul_div_cancel_left _ (by omega : 0 < 2)]
    rw [e]
    by_cases hj : j + 1 < 32
    · simp [hj]
    · have : f.testBit (j + 1) = false := by
        apply Nat.testBit_lt_two_pow
        calc f < 2 ^ 32 := hf
          _ ≤ 2 ^ (j + 1) := Nat.pow_le_pow_right (by omega) (by omega)
      simp [hj, this]

theorem setDefault_eq (f : Nat) : setDefault f = 2 * (f / 2) + 1 := by
  unfold setDefault
  apply Nat.eq_of_testBit_eq
  intro i
  rw [Nat.testBit_or]
  cases i with
  | zero => simp [Nat.testBit_zero]
  | succ j =>
    have e : (2 * (f / 2) + 1).testBit (j + 1) = f.testBit (j + 1) := by
      rw [Nat.testBit_succ, Nat.testBit_succ]
      have : (2 * (f / 2) + 1) / 2 = f / 2 := by omega
      rw [this]
    rw [e]
    simp [Nat.testBit_succ]

theorem hasDefault_eq (f : Nat) : hasDefault f = decide (f % 2 = 1) := by
  unfold hasDefault
  rw [Nat.and_one_is_mod]
  by_cases h : f % 2 = 1
  · simp [h]
  · have : f % 2 = 0 := by omega
    simp [this]

/-- the spec's bookkeeping function meets the declarative statement (for handler answers in `int` range) -/
theorem book_follows (dflt evid : Id) (h : HRes) (hv : h.val < 2 ^ 31) :
    Follows dflt (if h.zero then 0 else evid) h.val (book dflt evid h).1 (book dflt evid h).2 := by
  unfold Follows book
  by_cases hneg : h.val < 0
  · simp [hneg]
  · simp only [hneg, if_false]
    have hnn : 0 ≤ h.val := by omega
    obtain ⟨f, hf⟩ : ∃ f : Nat, h.val = (f : Int) := ⟨h.val.toNat, by omega⟩
    have hf32 : f < 2 ^ 32 := by omega
    rw [hf]
    simp only [Int.toNat_natCast, hasDefault_eq]
    have hmod : ((f : Int) % 2 = 1) ↔ f % 2 = 1 := by omega
    by_cases hd : f % 2 = 1
    · have hd' : (f : Int) % 2 = 1 := hmod.mpr hd
      simp only [hd, hd', decide_true, if_true, clrDefault_eq f hf32, setDefault_eq]
      by_cases hz : (if h.zero = true then (0 : Id) else evid) = 0
      · have hb : ((if h.zero = true then (0 : Id) else evid) != 0) = false := by simp [hz]
        simp only [hb, Bool.false_eq_true, if_false, Int.ofNat_eq_natCast]
        refine ⟨?_, ?_, ?_, ?_⟩
        · first | trivial | rfl
        · omega
        · first | trivial | rfl | omega
        · constructor <;> intro hc <;> first | omega | exact absurd hz hc | exact hz
      · have hb : ((if h.zero = true then (0 : Id) else evid) != 0) = true := by simp [hz]
        simp only [hb, if_true, Int.ofNat_eq_natCast]
        refine ⟨?_, ?_, ?_, ?_⟩
        · first | trivial | rfl
        · omega
        · first | trivial | rfl | omega
        · constructor <;> intro hc <;> first | omega | exact absurd hz hc | exact hz
    · have hd' : ¬ (f : Int) % 2 = 1 := fun hc => hd (hmod.mp hc)
      simp only [hd, hd', decide_false, if_false, Bool.false_eq_true, setDefault_eq]
      by_cases hz : dflt = 0
      · have hb : (dflt != 0) = false := by simp [hz]
        simp only [hb, Bool.false_eq_true, if_false, Int.ofNat_eq_natCast]
        refine ⟨?_, ?_, ?_, ?_⟩
        · first | trivial | rfl
        · omega
        · first | trivial | rfl | omega
        · constructor <;> intro hc <;> first | omega | exact absurd hz hc | exact hz
      · have hb : (dflt != 0) = true := by simp [hz]
        simp only [hb, if_true, Int.ofNat_eq_natCast]
        refine ⟨?_, ?_, ?_, ?_⟩
        · first | trivial | rfl
        · omega
        · first | trivial | rfl | omega
        · constructor <;> intro hc <;> first | omega | exact absurd hz hc | exact hz

/-- the declarative statement determines the outcome -/
theorem follows_unique {dflt left : Id} {v r1 r2 : Int} {d1 d2 : Id}
    (h1 : Follows dflt left v r1 d1) (h2 : Follows dflt left v r2 d2) : r1 = r2 ∧ d1 = d2 := by
  unfold Follows at h1 h2
  by_cases hneg : v < 0
  · simp only [hneg, if_true] at h1 h2
    exact ⟨by rw [h1.1, h2.1], by rw [h1.2, h2.2]⟩
  · simp only [hneg, if_false] at h1 h2
    obtain ⟨e1, p1, q1, b1⟩ := h1
    obtain ⟨e2, p2, q2, b2⟩ := h2
    have hd : d1 = d2 := by rw [e1, e2]
    refine ⟨?_, hd⟩
    subst hd
    have : r1 % 2 = r2 % 2 := by
      by_cases hz : d1 ≠ 0
      · have a := b1.mpr hz; have b := b2.mpr hz; omega
      · have a : ¬ r1 % 2 = 1 := fun hc => hz (b1.mp hc)
        have b : ¬ r2 % 2 = 1 := fun hc => hz (b2.mp hc)
        omega
    omega

end Mpt.Dispatch
