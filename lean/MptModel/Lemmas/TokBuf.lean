/-
  C05, layer 5: the buffer-level functions on a buffer of managed elements (constructor + destructor), in
  terms of slots, events and the token counter.
-/
import MptModel.Lemmas.TokState
namespace Mpt.Heap
open Mpt

theorem mem_slotsFrom {d : List Byte} {sz i n t : Nat} :
    t ∈ slotsFrom d sz i n ↔ ∃ j, i ≤ j ∧ j < i + n ∧ slot d sz j = t := by
  unfold slotsFrom
  rw [List.mem_map]
  constructor
  · rintro ⟨a, ha, e⟩; exact ⟨i + a, by omega, by have := List.mem_range.mp ha; omega, e⟩
  · rintro ⟨j, h1, h2, e⟩; exact ⟨j - i, List.mem_range.mpr (by omega), by rw [← e]; congr 1; omega⟩

theorem used_eq_mul {u sz : Nat} (al : u % sz = 0) : u = u / sz * sz := by
  have := Nat.div_add_mod u sz
  rw [al, Nat.add_zero, Nat.mul_comm] at this
  exact this.symm

theorem mul_div_self (n sz : Nat) (h : sz ≠ 0) : n * sz / sz = n := Nat.mul_div_cancel n (Nat.pos_of_ne_zero h)

/-- tokens of a managed buffer whose used size is `n` elements -/
theorem toks_of_used {x : Buf} {t : Traits} (xt : x.traits = some t) (mt : Managed t) {n : Nat} (hu : x.used = n * t.size) :
    x.toks = slotsFrom x.data t.size 0 n := by
  rw [Buf.toks_managed xt mt.2.1 (by have := mt.2.2; omega), hu, mul_div_self n t.size (by have := mt.2.2; omega)]

/-- `mpt_buffer_cut` on a buffer of managed elements: refused without any change, or the elements `i .. i+l-1`
    are destroyed (exactly these, in order) and the rest moves down -/
theorem bufferCut_managed {s : State} {b : Nat} {x : Buf} {t : Traits} (hb : s.buf? b = some x) (xt : x.traits = some t)
    (mt : Managed t) {n : Nat} (hu : x.used = n * t.size) (hsz : x.used ≤ x.size) (off len : Nat) :
    (∃ e, bufferCut s b off len = .fail s e) ∨
    (∃ i l s' x' v, i + l ≤ n ∧ bufferCut s b off len = .ok s' v ∧ OnlyBuf s s' b ∧ s'.buf? b = some x' ∧
      x'.ref = x.ref ∧ x'.flags = x.flags ∧ x'.traits = x.traits ∧ x'.data.length = x.data.length ∧
      x'.used = (n - l) * t.size ∧
      s'.log = s.log ++ (slotsFrom x.data t.size i l).map Ev.fini ∧
      x'.toks = slotsFrom x.data t.size 0 i ++ slotsFrom x.data t.size (i + l) (n - (i + l))) := by
  have h4 := mt.2.2
  have sz0 : t.size ≠ 0 := by omega
  have blt := State.buf?_lt hb
  unfold bufferCut
  rw [hb]
  simp only
  split
  · exact Or.inl ⟨_, rfl⟩
  · rename_i c1
    split
    · exact Or.inl ⟨_, rfl⟩
    · rename_i c2
      generalize hl : (if len = 0 then x.used - off else len) = len'
      split
      · exact Or.inl ⟨_, rfl⟩
      · rename_i c3
        have fit : off + len' ≤ x.used := by
          rw [← hl]; split
          · simp only [not_and, Nat.not_lt] at c2; rename_i l0; have := c2 l0; omega
          · rw [← hl] at c3; rename_i l0; simp only [l0, if_false] at c3; omega
        rw [xt]
        simp only
        split
        · exact Or.inl ⟨_, rfl⟩
        · rename_i c4
          simp only [not_or, Decidable.not_not] at c4
          simp only [mt.2.1, if_true]
          -- element positions
          have eo : off = off / t.size * t.size := used_eq_mul c4.2.1
          have el : len' = len' / t.size * t.size := used_eq_mul c4.2.2
          generalize hi : off / t.size = i at eo
          generalize hll : len' / t.size = l at el
          have il : i + l ≤ n := by
            have : (i + l) * t.size ≤ n * t.size := by rw [Nat.add_mul, ← eo, ← el, ← hu]; exact fit
            exact Nat.le_of_mul_le_mul_right this (by omega)
          have itl : iters 0 len' t.size = l := by rw [el]; exact iters_mul l t.size sz0
          rw [itl, eo]
          have nfit : (i + l) * t.size ≤ x.size := by
            have : (i + l) * t.size ≤ n * t.size := Nat.mul_le_mul_right _ il
            omega
          obtain ⟨s1, d1, hf, ob, l1, hb1, dl1, same1⟩ := finiLoop_slots l s b i t.size x hb h4 nfit
          rw [hf]
          simp only [hb1]
          have blt1 : b < s1.bufs.length := by rw [ob.len]; exact blt
          have keepe : x.used - len' - i * t.size = (n - l - i) * t.size := by
            rw [hu, el, ← Nat.sub_mul, ← Nat.sub_mul]
          have offl : i * t.size + len' = (i + l) * t.size := by rw [Nat.add_mul, ← el]
          rw [keepe, offl]
          generalize hd2 : (if (n - l - i) * t.size ≠ 0 then Mem.move d1 (i * t.size) ((i + l) * t.size) ((n - l - i) * t.size) else d1) = d2
          have nsz : n * t.size ≤ x.data.length := by rw [← hu]; exact hsz
          have hsrc : (i + l + (n - l - i)) * t.size ≤ d1.length := by
            have e : i + l + (n - l - i) = n := by omega
            rw [dl1, e]; exact nsz
          have hdst : (i + (n - l - i)) * t.size ≤ d1.length := by
            have : (i + (n - l - i)) * t.size ≤ n * t.size := Nat.mul_le_mul_right _ (by omega)
            rw [dl1]; omega
          have d2l : d2.length = x.data.length := by
            rw [← hd2]; split
            · rw [move_length' d1 t.size i (i + l) (n - l - i) hsrc hdst, dl1]
            · exact dl1
          have slot2 : ∀ j, j < n - l → slot d2 t.size j = if j < i then slot x.data t.size j else slot x.data t.size (j + l) := by
            intro j hj
            rw [← hd2]
            by_cases k0 : (n - l - i) * t.size ≠ 0
            · rw [if_pos k0]
              rw [slot_move d1 t.size i (i + l) (n - l - i) h4 hsrc hdst j]
              by_cases ji : j < i
              · have : ¬ (i ≤ j ∧ j < i + (n - l - i)) := by omega
                rw [if_neg this, if_pos ji]
                exact same1 j (Or.inl ji)
              · have : i ≤ j ∧ j < i + (n - l - i) := by omega
                rw [if_pos this, if_neg ji]
                rw [same1 _ (Or.inr (by omega))]
                congr 1; omega
            · rw [if_neg k0]
              have : n - l - i = 0 := by
                rcases Nat.eq_zero_or_pos (n - l - i) with z | p
                · exact z
                · exfalso; apply k0; exact Nat.ne_of_gt (Nat.mul_pos p (by omega))
              have ji : j < i := by omega
              rw [if_pos ji]
              exact same1 j (Or.inl ji)
          have used2 : i * t.size + (n - l - i) * t.size = (n - l) * t.size := by
            rw [← Nat.add_mul]; congr 1; omega
          refine Or.inr ⟨i, l, _, { x with data := d2, used := i * t.size + (n - l - i) * t.size }, _, il, rfl, ?_, ?_, rfl, rfl, xt,
            d2l, used2, l1, ?_⟩
          · have o2 : OnlyBuf s1 (setUsed s1 b { x with data := d1 } d2 (i * t.size + (n - l - i) * t.size)) b :=
              ⟨rfl, rfl, rfl, rfl, by simp [setUsed], fun c ne => by
                simp only [setUsed]; rw [State.buf?_setBuf _ _ _ _ blt1]; simp [ne]⟩
            exact ob.trans o2
          · simp only [setUsed]; rw [State.buf?_setBuf _ _ _ _ blt1]; simp
          · rw [toks_of_used (x := { x with data := d2, used := i * t.size + (n - l - i) * t.size }) xt mt used2]
            have split : n - l = i + (n - (i + l)) := by omega
            rw [split, slotsFrom_add]
            congr 1
            · exact slotsFrom_congr (fun j _ h2 => by rw [slot2 j (by omega), if_pos (by omega)])
            · simp only [slotsFrom, Nat.zero_add]
              apply List.map_congr_left
              intro a ha
              have := List.mem_range.mp ha
              rw [slot2 (i + a) (by omega), if_neg (by omega)]
              congr 1; omega


/-- result of `mpt_buffer_insert(buf, p*sz, l*sz)` on a buffer of `n` managed elements that went through:
    the tail moved up by `l` elements, the gap `n .. p-1` (if any) default-constructed with fresh tokens, the
    inserted elements `p .. p+l-1` left for the caller to construct -/
structure Inserted (s s' : State) (b : Nat) (x x' : Buf) (sz n p l : Nat) : Prop where
  frame : Frame s s' b
  buf : s'.buf? b = some x'
  ref : x'.ref = x.ref
  flags : x'.flags = x.flags
  traits : x'.traits = x.traits
  len : x'.data.length = x.data.length
  used : x'.used = (max n p + l) * sz
  next : s'.next = s.next + (p - n)
  log : ∃ evs, s'.log = s.log ++ evs ∧ Creates [] s.next evs (p - n)
  low : ∀ j, j < min n p → slot x'.data sz j = slot x.data sz j
  gap : s'.next ≤ tokLimit → ∀ j, n ≤ j → j < p → slot x'.data sz j = s.next + (j - n)
  high : ∀ j, p + l ≤ j → j < max n p + l → slot x'.data sz j = slot x.data sz (j - l)

theorem bufferInsert_managed {s : State} {b : Nat} {x : Buf} {t : Traits} (hb : s.buf? b = some x) (xt : x.traits = some t)
    (mt : Managed t) {n : Nat} (hu : x.used = n * t.size) (hsz : x.used ≤ x.size) (pos len : Nat) :
    (∃ e, bufferInsert s b pos len = .fail s e) ∨
    (pos = 0 ∧ len = 0 ∧ n = 0 ∧ bufferInsert s b pos len = .ok s 0) ∨
    (∃ p l s' x', pos = p * t.size ∧ len = l * t.size ∧ (max n p + l) * t.size ≤ x.size ∧
      bufferInsert s b pos len = .ok s' pos ∧ Inserted s s' b x x' t.size n p l) ∨
    (∃ p m s' x', pos = p * t.size ∧ n + m < p ∧ p * t.size ≤ x.size ∧ bufferInsert s b pos len = .fail s' .null ∧ Frame s s' b ∧ s'.buf? b = some x' ∧
      x'.ref = x.ref ∧ x'.flags = x.flags ∧ x'.traits = x.traits ∧ x'.data.length = x.data.length ∧ x'.used = (n + m) * t.size ∧
      s'.next = s.next + m ∧ (∃ evs, s'.log = s.log ++ evs ∧ Creates [] s.next evs m) ∧
      (∀ j, j < n → slot x'.data t.size j = slot x.data t.size j) ∧
      (s'.next ≤ tokLimit → ∀ j, n ≤ j → j < n + m → slot x'.data t.size j = s.next + (j - n))) := by
  have h4 := mt.2.2
  have sz0 : t.size ≠ 0 := by omega
  have szp : 0 < t.size := by omega
  have blt := State.buf?_lt hb
  unfold bufferInsert
  rw [hb]
  simp only
  by_cases t0 : max x.used pos + len = 0
  · rw [if_pos t0]
    refine Or.inr (Or.inl ⟨by omega, by omega, ?_, rfl⟩)
    have : n * t.size = 0 := by omega
    rcases Nat.mul_eq_zero.mp this with h | h
    · exact h
    · omega
  · rw [if_neg t0]
    by_cases big : max x.used pos + len > x.size
    · rw [if_pos big]; exact Or.inl ⟨_, rfl⟩
    · rw [if_neg big]
      by_cases imm : x.immutable = true
      · rw [if_pos imm]; exact Or.inl ⟨_, rfl⟩
      · rw [if_neg imm, xt]
        simp only
        split
        · exact Or.inl ⟨_, rfl⟩
        · rename_i c4
          simp only [not_or, Decidable.not_not] at c4
          simp only [mt.1, if_true]
          have ep : pos = pos / t.size * t.size := used_eq_mul c4.2.2.1
          have el : len = len / t.size * t.size := used_eq_mul c4.2.2.2
          generalize hp : pos / t.size = p at ep
          generalize hll : len / t.size = l at el
          have tot : max x.used pos + len = (max n p + l) * t.size := by
            rw [Nat.add_mul, ← el, hu, ep]
            congr 1
            rcases Nat.le_total n p with h | h
            · rw [Nat.max_eq_right h, Nat.max_eq_right (Nat.mul_le_mul_right _ h)]
            · rw [Nat.max_eq_left h, Nat.max_eq_left (Nat.mul_le_mul_right _ h)]
          have totfit : (max n p + l) * t.size ≤ x.size := by rw [← tot]; omega
          have nsz : n * t.size ≤ x.data.length := by rw [← hu]; exact hsz
          have keepe : x.used - pos = (n - p) * t.size := by rw [hu, ep, ← Nat.sub_mul]
          have ple : pos + len = (p + l) * t.size := by rw [Nat.add_mul, ← ep, ← el]
          rw [keepe, ple, tot, hu, ep, iters_aligned n p t.size sz0, initLoopBreak_eq]
          generalize hd1 : (if (n - p) * t.size ≠ 0 then Mem.move x.data ((p + l) * t.size) (p * t.size) ((n - p) * t.size) else x.data) = d1
          have hsrc : (p + (n - p)) * t.size ≤ x.data.length := by
            have : (p + (n - p)) * t.size ≤ (max n p) * t.size := Nat.mul_le_mul_right _ (by omega)
            have : (max n p) * t.size ≤ (max n p + l) * t.size := Nat.mul_le_mul_right _ (by omega)
            simp only [Buf.size] at totfit; omega
          have hdst : (p + l + (n - p)) * t.size ≤ x.data.length := by
            have : (p + l + (n - p)) * t.size ≤ (max n p + l) * t.size := Nat.mul_le_mul_right _ (by omega)
            simp only [Buf.size] at totfit; omega
          have d1l : d1.length = x.data.length := by
            rw [← hd1]; split
            · exact move_length' x.data t.size (p + l) p (n - p) hsrc hdst
            · rfl
          have slot1 : ∀ j, slot d1 t.size j = if p + l ≤ j ∧ j < p + l + (n - p) then slot x.data t.size (j - l) else slot x.data t.size j := by
            intro j
            rw [← hd1]
            by_cases k0 : (n - p) * t.size ≠ 0
            · rw [if_pos k0, slot_move x.data t.size (p + l) p (n - p) h4 hsrc hdst j]
              split
              · congr 1; omega
              · rfl
            · rw [if_neg k0]
              have z : n - p = 0 := by
                rcases Nat.eq_zero_or_pos (n - p) with z | q
                · exact z
                · exfalso; apply k0; exact Nat.ne_of_gt (Nat.mul_pos q szp)
              have : ¬ (p + l ≤ j ∧ j < p + l + (n - p)) := by omega
              rw [if_neg this]
          generalize hsU : setUsed s b x d1 ((max n p + l) * t.size) = sU
          have hbU : sU.buf? b = some { x with data := d1, used := (max n p + l) * t.size } := by
            rw [← hsU]; simp only [setUsed]; rw [State.buf?_setBuf _ _ _ _ blt]; simp
          have frU : Frame s sU b := by
            rw [← hsU]
            exact ⟨rfl, rfl, by simp [setUsed], fun c ne => by simp only [setUsed]; rw [State.buf?_setBuf _ _ _ _ blt]; simp [ne]⟩
          have nU : sU.next = s.next := by rw [← hsU]; rfl
          have lU : sU.log = s.log := by rw [← hsU]; rfl
          have gfit : (n + (p - n)) * t.size ≤ ({ x with data := d1, used := (max n p + l) * t.size } : Buf).size := by
            simp only [Buf.size, d1l]
            have : (n + (p - n)) * t.size ≤ (max n p + l) * t.size := Nat.mul_le_mul_right _ (by omega)
            simp only [Buf.size] at totfit; omega
          obtain ⟨s1, d', m, mle, bt, alt⟩ := genInit_spec (fun s1 p => Out.ok s1 p) (fun s p => Out.ok s p) (p - n) sU b n t.size _ hbU h4 gfit
          have blt1 : b < s1.bufs.length := by rw [bt.frame.len, frU.len]; exact blt
          rcases alt with ⟨me, hg⟩ | ⟨ml, hg⟩
          · -- all gap elements constructed
            rw [hg]
            simp only [bt.buf]
            have notgt : ¬ p * t.size > (n + (p - n)) * t.size := by
              have : p * t.size ≤ (n + (p - n)) * t.size := Nat.mul_le_mul_right _ (by omega)
              omega
            rw [if_neg notgt]
            refine Or.inr (Or.inr (Or.inl ⟨p, l, s1, _, rfl, el, totfit, rfl, ⟨frU.trans bt.frame, bt.buf, rfl, rfl, rfl, by rw [bt.len]; exact d1l,
              rfl, by rw [bt.next, nU, me], ?_, ?_, ?_, ?_⟩⟩))
            · obtain ⟨evs, le, cr⟩ := bt.log
              exact ⟨evs, by rw [le, lU], by rw [nU, me] at cr; exact cr⟩
            · intro j hj
              show slot d' t.size j = _
              rw [bt.out j (Or.inl (by omega)), slot1 j]
              have : ¬ (p + l ≤ j ∧ j < p + l + (n - p)) := by omega
              rw [if_neg this]
            · intro small j h1 h2
              show slot d' t.size j = _
              rw [bt.inn small j h1 (by omega), nU]
            · intro j h1 h2
              show slot d' t.size j = _
              rw [bt.out j (by omega), slot1 j]
              have : p + l ≤ j ∧ j < p + l + (n - p) := by omega
              rw [if_pos this]
          · -- a gap constructor was refused
            rw [hg]
            simp only [bt.buf]
            have gt : p * t.size > (n + m) * t.size := Nat.mul_lt_mul_of_pos_right (by omega) szp
            rw [if_pos gt]
            have pfit : p * t.size ≤ x.size := by
              have : p * t.size ≤ (max n p + l) * t.size := Nat.mul_le_mul_right _ (by omega)
              omega
            refine Or.inr (Or.inr (Or.inr ⟨p, m, _, { x with data := d', used := (n + m) * t.size }, rfl, by omega, pfit, rfl, ?_, ?_, rfl, rfl, xt,
              by rw [bt.len]; exact d1l, rfl, by show s1.next = _; rw [bt.next, nU], ?_, ?_, ?_⟩))
            · exact (frU.trans bt.frame).trans ⟨rfl, rfl, by simp, fun c ne => by rw [State.buf?_setBuf _ _ _ _ blt1]; simp [ne]⟩
            · rw [State.buf?_setBuf _ _ _ _ blt1]; simp
            · obtain ⟨evs, le, cr⟩ := bt.log
              exact ⟨evs, by show s1.log = _; rw [le, lU], by rw [nU] at cr; exact cr⟩
            · intro j hj
              show slot d' t.size j = _
              rw [bt.out j (Or.inl hj), slot1 j]
              have : ¬ (p + l ≤ j ∧ j < p + l + (n - p)) := by omega
              rw [if_neg this]
            · intro small j h1 h2
              show slot d' t.size j = _
              rw [bt.inn small j h1 h2, nU]

/-- result of `mpt_buffer_set(buf, traits, p*sz, data, k*sz)` on a buffer of `n` managed elements: the
    overwritten elements are destroyed, the gap `n .. p-1` is default-constructed, `m ≤ k` elements are
    constructed at `p ..`; `fatal` = a constructor and its fallback were refused (then the buffer ends behind the
    last constructed element and the old tail behind the range is destroyed) -/
structure SetDone (s s' : State) (b : Nat) (x x' : Buf) (sz n p k m : Nat) (S : List Nat) (fatal : Bool) : Prop where
  frame : Frame s s' b
  buf : s'.buf? b = some x'
  ref : x'.ref = x.ref
  flags : x'.flags = x.flags
  traits : x'.traits = x.traits
  len : x'.data.length = x.data.length
  mle : m ≤ k
  fat : fatal = true → m < k
  nfat : fatal = false → m = k
  used : x'.used = if fatal then (p + m) * sz else (max n (p + k)) * sz
  next : s'.next = s.next + ((p - n) + m)
  log : ∃ cre, Creates S s.next cre ((p - n) + m) ∧
    s'.log = s.log ++ cre ++ (if fatal then (slotsFrom x.data sz (p + k) (n - (p + k))).map Ev.fini else []) ++
      (slotsFrom x.data sz p (min n (p + k) - p)).map Ev.fini
  low : ∀ j, j < min n p → slot x'.data sz j = slot x.data sz j
  gap : s'.next ≤ tokLimit → ∀ j, n ≤ j → j < p → slot x'.data sz j = s.next + (j - n)
  new : s'.next ≤ tokLimit → ∀ j, p ≤ j → j < p + m → slot x'.data sz j = s.next + (p - n) + (j - p)
  high : fatal = false → ∀ j, p + k ≤ j → slot x'.data sz j = slot x.data sz j

theorem Frame.withLog {s s' : State} {b : Nat} (f : Frame s s' b) (l : List Ev) : Frame s { s' with log := l } b :=
  ⟨f.hs, f.wins, f.len, f.other⟩

theorem savedToks_eq (d : List Byte) (sz p n : Nat) : savedToks d (p * sz) sz n = slotsFrom d sz p n := by
  unfold savedToks slotsFrom slot
  apply List.map_congr_left
  intro i _
  rw [Nat.add_mul]

theorem bufferSet_managed {s : State} {b : Nat} {x : Buf} {t : Traits} (hb : s.buf? b = some x) (xt : x.traits = some t)
    (mt : Managed t) {n : Nat} (hu : x.used = n * t.size) (hsz : x.used ≤ x.size) (pos : Nat) (bytes : List Byte)
    (hasSrc : Bool) (S : List Nat)
    (hS : hasSrc = true → ∀ j, j < bytes.length / t.size → slot bytes t.size j ∈ S) :
    (∃ e, bufferSet s b (some t) pos bytes hasSrc = .fail s e) ∨
    (∃ p k m fatal s' x' v, pos = p * t.size ∧ bytes.length = k * t.size ∧ (p + k) * t.size ≤ x.size ∧
      bufferSet s b (some t) pos bytes hasSrc = .ok s' v ∧ SetDone s s' b x x' t.size n p k m S fatal) ∨
    (∃ p m s' x', pos = p * t.size ∧ n + m < p ∧ p * t.size ≤ x.size ∧ bufferSet s b (some t) pos bytes hasSrc = .fail s' (.err .BadOperation) ∧
      Frame s s' b ∧ s'.buf? b = some x' ∧
      x'.ref = x.ref ∧ x'.flags = x.flags ∧ x'.traits = x.traits ∧ x'.data.length = x.data.length ∧ x'.used = (n + m) * t.size ∧
      s'.next = s.next + m ∧ (∃ evs, s'.log = s.log ++ evs ∧ Creates S s.next evs m) ∧
      (∀ j, j < n → slot x'.data t.size j = slot x.data t.size j) ∧
      (s'.next ≤ tokLimit → ∀ j, n ≤ j → j < n + m → slot x'.data t.size j = s.next + (j - n))) := by
  have h4 := mt.2.2
  have sz0 : t.size ≠ 0 := by omega
  have szp : 0 < t.size := by omega
  have blt := State.buf?_lt hb
  unfold bufferSet
  rw [hb]
  simp only
  by_cases big : pos + bytes.length > x.size
  · rw [if_pos big]; exact Or.inl ⟨_, rfl⟩
  · rw [if_neg big, xt]
    simp only [bufferSetTyped]
    split
    · exact Or.inl ⟨_, rfl⟩
    · rename_i c4
      simp only [not_or, Decidable.not_not] at c4
      rw [if_neg (by simp)]
      have notplain : ¬ (t.fini.isNone = true ∧ t.init = false) := by
        intro h; rw [mt.1] at h; cases h.2
      rw [if_neg notplain]
      simp only [mt.2.1, mt.1, if_true]
      have ep : pos = pos / t.size * t.size := used_eq_mul c4.2.1
      have ek : bytes.length = bytes.length / t.size * t.size := used_eq_mul c4.2.2
      generalize hp : pos / t.size = p at ep
      generalize hk : bytes.length / t.size = k at ek hS
      have ual : x.used - x.used % t.size = n * t.size := by rw [hu, Nat.mul_mod_left]; simp
      have stope : pos + bytes.length = (p + k) * t.size := by rw [Nat.add_mul, ← ep, ← ek]
      have qfit : (p + k) * t.size ≤ x.size := by rw [← stope]; omega
      have nsz : n * t.size ≤ x.data.length := by rw [← hu]; exact hsz
      have mine : min (n * t.size) ((p + k) * t.size) = (min n (p + k)) * t.size := by
        rcases Nat.le_total n (p + k) with h | h
        · rw [Nat.min_eq_left h, Nat.min_eq_left (Nat.mul_le_mul_right _ h)]
        · rw [Nat.min_eq_right h, Nat.min_eq_right (Nat.mul_le_mul_right _ h)]
      rw [ual, stope, mine, ep, iters_aligned p (min n (p + k)) t.size sz0, iters_aligned n p t.size sz0,
        iters_aligned p (p + k) t.size sz0]
      have pk : p + k - p = k := by omega
      rw [pk]
      -- step 1: the elements that get replaced are saved aside (destroyed at the end)
      rw [savedToks_eq]
      have step1 : ∃ s1 d1, s = s1 ∧ OnlyBuf s s1 b ∧ s1.log = s.log ∧ s1.buf? b = some { x with data := d1 } ∧
          d1.length = x.data.length ∧ (∀ j, j < p ∨ p + (min n (p + k) - p) ≤ j → slot d1 t.size j = slot x.data t.size j) :=
        ⟨s, x.data, rfl, OnlyBuf.refl s b, rfl, hb, rfl, fun _ _ => rfl⟩
      obtain ⟨s1, d1, es1, ob1, l1, hb1, dl1, same1⟩ := step1
      subst es1
      rw [setGapLoop_eq]
      have fr1 : Frame s s b := ⟨ob1.hs, ob1.wins, ob1.len, ob1.other⟩
      -- step 2: the gap
      have gfit : (n + (p - n)) * t.size ≤ ({ x with data := d1 } : Buf).size := by
        simp only [Buf.size, dl1]
        have : (n + (p - n)) * t.size ≤ (max n (p + k)) * t.size := Nat.mul_le_mul_right _ (by omega)
        have : (max n (p + k)) * t.size ≤ x.data.length := by
          rcases Nat.le_total n (p + k) with h | h
          · rw [Nat.max_eq_right h]; simpa [Buf.size] using qfit
          · rw [Nat.max_eq_left h]; exact nsz
        omega
      obtain ⟨s2, d2, mg, mgle, bt, alt⟩ := genInit_spec (gapFail b) doneUnit (p - n) s b n t.size _ hb1 h4 gfit
      have blt2 : b < s2.bufs.length := by rw [bt.frame.len, ob1.len]; exact blt
      -- when there is a gap nothing was destroyed in step 1
      have nofini : n < p → min n (p + k) - p = 0 := by intro h; omega
      rcases alt with ⟨me, hg⟩ | ⟨ml, hg⟩
      · rw [hg]
        simp only [doneUnit]
        -- step 3: construct the new elements
        have res := setInitLoop_spec S t.size (p + k) n p bytes hasSrc true b h4 k s2 p { x with data := d2 } 0 bt.buf rfl
          (by simp only [Buf.size, bt.len, dl1]; simpa [Buf.size] using qfit)
          (by simp only [Buf.size, bt.len, dl1]; exact nsz) (Nat.le_refl _)
          (by intro hs j h1 h2; exact hS hs (j - p) (by omega))
        obtain ⟨s3, d3, m, cnt, mle, hr, fr3, dl3, n3, lo3, inn3, alt3⟩ := res
        rw [hr]
        obtain ⟨evg, leg, crg⟩ := bt.log
        have n2 : s2.next = s.next + (p - n) := by rw [bt.next, ob1.next, me]
        have crg' : Creates S s.next evg (p - n) := by
          rw [ob1.next, me] at crg; exact crg.mono (fun k hk => by cases hk)
        have slot2 : ∀ j, (j < p ∨ min n (p + k) ≤ j) → (j < n ∨ p ≤ j) → slot d2 t.size j = slot x.data t.size j := by
          intro j h1 h2
          rw [bt.out j (by rw [me]; omega)]
          exact same1 j (by omega)
        rcases alt3 with ⟨me3, hb3, hi3, evs, les, crs⟩ | ⟨ml3, hb3, evs, crs, les⟩
        · refine Or.inr (Or.inl ⟨p, k, m, false, { s3 with log := s3.log ++ (slotsFrom x.data t.size p (min n (p + k) - p)).map Ev.fini },
            _, cnt, rfl, ek, qfit, rfl,
            ⟨((fr1.trans bt.frame).trans fr3).withLog _, hb3, rfl, rfl, rfl, by rw [dl3, bt.len]; exact dl1, mle, (by intro h; cases h), fun _ => me3,
             ?_, by rw [n3, n2]; omega, ?_, ?_, ?_, ?_, ?_⟩⟩)
          · simp only [Bool.false_eq_true, if_false]
            rcases Nat.le_total (n * t.size) ((p + k) * t.size) with h | h
            · have : n ≤ p + k := Nat.le_of_mul_le_mul_right h szp
              rw [Nat.max_eq_right h, Nat.max_eq_right this]
            · have : p + k ≤ n := Nat.le_of_mul_le_mul_right h szp
              rw [Nat.max_eq_left h, Nat.max_eq_left this]
          · refine ⟨evg ++ evs, ?_, ?_⟩
            · have := Creates.append crg' (by rw [← n2]; exact crs)
              exact this
            · show s3.log ++ _ = _
              rw [les, leg, l1]; simp
          · intro j hj
            show slot d3 t.size j = _
            rw [lo3 j (by omega)]
            exact slot2 j (by omega) (by omega)
          · intro small j h1 h2
            have small : s3.next ≤ tokLimit := small
            show slot d3 t.size j = _
            rw [lo3 j h2]
            show slot d2 t.size j = _
            rw [bt.inn (by omega) j h1 (by omega), ob1.next]
          · intro small j h1 h2
            have small : s3.next ≤ tokLimit := small
            show slot d3 t.size j = _
            rw [inn3 small j h1 h2, n2]
          · intro _ j hj
            show slot d3 t.size j = _
            rw [hi3 j hj]
            exact slot2 j (by omega) (by omega)
        · refine Or.inr (Or.inl ⟨p, k, m, true, { s3 with log := s3.log ++ (slotsFrom x.data t.size p (min n (p + k) - p)).map Ev.fini },
            _, cnt, rfl, ek, qfit, rfl,
            ⟨((fr1.trans bt.frame).trans fr3).withLog _, hb3, rfl, rfl, rfl, by rw [dl3, bt.len]; exact dl1, mle, fun _ => ml3, (by intro h; cases h),
             (by simp), (by rw [n3, n2]; omega), ?_, ?_, ?_, ?_, (by intro h; cases h)⟩⟩)
          · refine ⟨evg ++ evs, ?_, ?_⟩
            · have := Creates.append crg' (by rw [← n2]; exact crs)
              exact this
            · show s3.log ++ _ = _
              rw [les, leg, l1]
              have : slotsFrom d2 t.size (p + k) (n - (p + k)) = slotsFrom x.data t.size (p + k) (n - (p + k)) :=
                slotsFrom_congr (fun j h1 h2 => slot2 j (by omega) (by omega))
              simp only [if_true]
              rw [this]; simp
          · intro j hj
            show slot d3 t.size j = _
            rw [lo3 j (by omega)]
            exact slot2 j (by omega) (by omega)
          · intro small j h1 h2
            have small : s3.next ≤ tokLimit := small
            show slot d3 t.size j = _
            rw [lo3 j h2]
            show slot d2 t.size j = _
            rw [bt.inn (by omega) j h1 (by omega), ob1.next]
          · intro small j h1 h2
            have small : s3.next ≤ tokLimit := small
            show slot d3 t.size j = _
            rw [inn3 small j h1 h2, n2]
      · -- gap constructor refused
        rw [hg]
        simp only [gapFail, bt.buf]
        have pn : n < p := by omega
        have z := nofini pn
        have pfit : p * t.size ≤ x.size := by
          have : p * t.size ≤ (p + k) * t.size := Nat.mul_le_mul_right _ (by omega)
          omega
        refine Or.inr (Or.inr ⟨p, mg, _, { x with data := d2, used := (n + mg) * t.size }, rfl, by omega, pfit, rfl, ?_, ?_, rfl, rfl, xt,
          by rw [bt.len]; exact dl1, rfl, by show s2.next = _; rw [bt.next, ob1.next], ?_, ?_, ?_⟩)
        · exact (fr1.trans bt.frame).trans ⟨rfl, rfl, by simp, fun c ne => by rw [State.buf?_setBuf _ _ _ _ blt2]; simp [ne]⟩
        · rw [State.buf?_setBuf _ _ _ _ blt2]; simp
        · obtain ⟨evg, leg, crg⟩ := bt.log
          refine ⟨evg, ?_, ?_⟩
          · show s2.log = _; rw [leg, l1]
          · rw [ob1.next] at crg; exact crg.mono (fun k hk => by cases hk)
        · intro j hj
          show slot d2 t.size j = _
          rw [bt.out j (Or.inl hj)]
          exact same1 j (by omega)
        · intro small j h1 h2
          show slot d2 t.size j = _
          rw [bt.inn small j h1 h2, ob1.next]


end Mpt.Heap
