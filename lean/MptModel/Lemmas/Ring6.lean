/-
  Lemmas for the unified step `Ring.stepX` (Impl/RingOps.lean): prepare with the overflow guard, partial save,
  mpt_message_get views, get without destination, the spec's search function.
-/
import MptModel.Lemmas.Ring5
import MptModel.Impl.RingOps
namespace Mpt
namespace Ring
open Deque (XOp XOut sizeMax)

theorem setSrc_eq_srcBytes (n : Nat) (b : Option (List Byte)) : setSrc n b = Deque.srcBytes n b := by
  cases b <;> rfl

theorem srcBytes_length (n : Nat) (b : Option (List Byte)) : (Deque.srcBytes n b).length = n := by
  cases b with
  | none => simp [Deque.srcBytes]
  | some l => simp [Deque.srcBytes]; omega

theorem srcBytes_zero (b : Option (List Byte)) : Deque.srcBytes 0 b = [] := by
  cases b <;> simp [Deque.srcBytes]

theorem prepareC_spec (r : Ring) (h : r.WF) (n : Nat) :
    ∃ r' left, r.prepareC n = .ok (r', left) ∧ r'.WF ∧ r'.content = r.content ∧ r'.len = r.len ∧
      ((n > r.store.length - r.len ∧ n - (r.store.length - r.len) > sizeMax - 8 - r.store.length) →
        r' = r ∧ left = 0) ∧
      (¬(n > r.store.length - r.len ∧ n - (r.store.length - r.len) > sizeMax - 8 - r.store.length) →
        left = r'.store.length - r'.len ∧ n ≤ left) := by
  unfold prepareC
  simp only [max]
  by_cases hc : n > r.store.length - r.len ∧ n - (r.store.length - r.len) > sizeMax - 8 - r.store.length
  · rw [if_pos hc]
    exact ⟨r, 0, rfl, h, rfl, rfl, fun _ => ⟨rfl, rfl⟩, fun hn => absurd hc hn⟩
  · rw [if_neg hc]
    obtain ⟨r', left, he, hw, hcn, hl, hn, hlen⟩ := prepare_spec r h n
    exact ⟨r', left, he, hw, hcn, hlen, fun hh => absurd hh hc, fun _ => ⟨hl, hn⟩⟩

theorem saveN_spec (r : Ring) (h : r.WF) (accept : Nat) :
    ∃ r', r.saveN accept = .ok (r', r.content.take (min r.len accept)) ∧ r'.WF ∧
      r'.store.length = r.store.length ∧ r'.content = r.content.drop (min r.len accept) := by
  have hwf := h
  obtain ⟨h1, h2⟩ := h
  have hcl := content_length r h1 h2
  unfold saveN
  by_cases h0 : r.len = 0
  · rw [if_pos h0]
    have hc : r.content = [] := List.eq_nil_of_length_eq_zero (by rw [hcl]; exact h0)
    refine ⟨r, ?_, hwf, rfl, ?_⟩
    · rw [hc]; simp
    · rw [hc]; simp
  · rw [if_neg h0]
    simp only []
    have hlow : r.off + r.low ≤ r.store.length ∧ r.len - r.low ≤ r.store.length := by
      unfold low; simp only [max]; omega
    rw [Mem.rd_ok _ _ _ hlow.1, Mem.rd_ok _ _ _ (by omega)]
    simp only []
    have hab : Mem.read r.store r.off r.low ++ Mem.read r.store 0 (r.len - r.low) = r.content := by
      apply List.ext_getElem?; intro i
      rw [List.getElem?_append, Mem.read_length _ _ _ hlow.1,
          Mem.getElem?_read, Mem.getElem?_read, getElem?_content _ _ h1 h2]
      have := hlow
      unfold low at this ⊢
      simp only [max, Nat.zero_add] at this ⊢
      ite_idx
    rw [hab]
    have hlen : (r.content.take accept).length = min r.len accept := by
      rw [List.length_take, hcl]; omega
    have htk : r.content.take accept = r.content.take (min r.len accept) := by
      rw [List.take_eq_take_min, hcl, Nat.min_comm]
    by_cases hz : (r.content.take accept).length = 0
    · rw [if_pos hz]
      have hm : min r.len accept = 0 := by omega
      refine ⟨r, ?_, hwf, rfl, ?_⟩
      · rw [hm]; simp
      · rw [hm]; simp
    · rw [if_neg hz]
      obtain ⟨r1, k, hc, hw1, hs1, _, hcont⟩ := crop_front r hwf (r.content.take accept).length (by omega)
      rw [hc]
      simp only []
      refine ⟨r1, by rw [htk], hw1, by rw [hs1], ?_⟩
      rw [hcont, hlen]

theorem get_nodst (r : Ring) (h : r.WF) (pos n : Nat) (h0 : 0 < n) (hn : pos + n ≤ r.len) :
    ∃ c, r.get pos n false = .ok (c, []) := by
  obtain ⟨bit, base, low, high, hv, _⟩ := view_ok r h pos n .BadArgument h0 hn
  unfold get
  rw [if_neg (by omega), hv]
  exact ⟨_, rfl⟩

/-- `mpt_message_get`: a view inside the content is delivered (in one or two parts) with exactly those bytes;
    without a continuation vector a two-part view is refused; a view reaching past the content is refused -/
theorem mget_spec (r : Ring) (h : r.WF) (off take : Nat) (vec : Bool) :
    (off + take ≤ r.len →
      (∃ a b, r.mget off take vec = .ok (a, b) ∧ a ++ b = (r.content.drop off).take take) ∨
      (vec = false ∧ r.mget off take vec = .err .BadType)) ∧
    (r.len < off + take → ∃ e, r.mget off take vec = .err e) := by
  obtain ⟨h1, h2⟩ := h
  have hcl := content_length r h1 h2
  have hlow : r.low ≤ r.len ∧ r.off + r.low ≤ r.store.length ∧ (r.low < r.len → r.off + r.low = r.store.length) := by
    unfold low; simp only [max]; omega
  constructor
  · intro hin
    unfold mget
    simp only []
    by_cases hlt : off < r.low
    · rw [if_pos hlt]
      simp only []
      rw [if_neg (by omega)]
      by_cases ht : take ≤ r.low - off
      · rw [if_pos ht, Mem.rd_ok _ _ _ (by omega)]
        left
        refine ⟨_, [], rfl, ?_⟩
        rw [List.append_nil]
        apply List.ext_getElem?; intro i
        rw [Mem.getElem?_read, List.getElem?_take, List.getElem?_drop, getElem?_content _ _ h1 h2]
        ite_idx
      · rw [if_neg ht]
        cases vec with
        | false => right; exact ⟨rfl, rfl⟩
        | true =>
          simp only [Bool.not_true, Bool.false_eq_true, ↓reduceIte]
          rw [Mem.rd_ok _ _ _ (by omega), Mem.rd_ok _ _ _ (by omega)]
          left
          refine ⟨_, _, rfl, ?_⟩
          apply List.ext_getElem?; intro i
          rw [List.getElem?_append, Mem.read_length _ _ _ (by omega), Mem.getElem?_read, Mem.getElem?_read,
              List.getElem?_take, List.getElem?_drop, getElem?_content _ _ h1 h2]
          have := hlow.2.2 (by omega)
          simp only [Nat.zero_add]
          ite_idx
    · rw [if_neg hlt]
      try simp only []
      rw [if_neg (by omega)]
      simp only []
      rw [if_neg (by omega), if_pos (by omega), Mem.rd_ok _ _ _ (by omega)]
      left
      refine ⟨_, [], rfl, ?_⟩
      rw [List.append_nil]
      apply List.ext_getElem?; intro i
      rw [Mem.getElem?_read, List.getElem?_take, List.getElem?_drop, getElem?_content _ _ h1 h2]
      by_cases hw : r.low < r.len
      · have := hlow.2.2 hw
        ite_idx
      · ite_idx
  · intro hout
    unfold mget
    simp only []
    by_cases hlt : off < r.low
    · rw [if_pos hlt]
      simp only []
      rw [if_pos (by omega)]
      exact ⟨_, rfl⟩
    · rw [if_neg hlt]
      try simp only []
      by_cases hh : off - r.low > r.len - r.low
      · rw [if_pos hh]; exact ⟨_, rfl⟩
      · rw [if_neg hh]
        simp only []
        rw [if_pos (by omega)]
        exact ⟨_, rfl⟩

theorem xreadNull_spec (r : Ring) (h : r.WF) (part k : Nat) :
    ∃ r' n, r.xreadNull part k = .ok (r', n) ∧ r'.WF ∧ r'.store.length = r.store.length ∧ n ≤ k ∧
      n * part ≤ r.len ∧ r'.content = r.content.take (r.len - n * part) := by
  induction k generalizing r with
  | zero =>
    have hcl := content_length r h.1 h.2
    refine ⟨r, 0, rfl, h, rfl, Nat.le_refl _, by omega, ?_⟩
    rw [Nat.zero_mul, Nat.sub_zero, List.take_of_length_le (by omega)]
  | succ k ih =>
    have h1 := h.1
    have h2 := h.2
    have hcl := content_length r h1 h2
    have hstay : ∃ r' n, Res.ok (r, 0) = (Res.ok (r', n) : Res (Ring × Nat)) ∧ r'.WF ∧ r'.store.length = r.store.length ∧
        n ≤ k + 1 ∧ n * part ≤ r.len ∧ r'.content = r.content.take (r.len - n * part) :=
      ⟨r, 0, rfl, h, rfl, by omega, by omega, by
        rw [Nat.zero_mul, Nat.sub_zero, List.take_of_length_le (by omega)]⟩
    unfold xreadNull
    by_cases hp : part ≤ r.len
    · rcases (qpop_spec r h part false).1 hp with hq | ⟨_, hq⟩
      · rw [hq]
        simp only []
        have hw1 : ({ r with len := r.len - part } : Ring).WF := by unfold WF; simp only []; omega
        obtain ⟨r2, n, he, hw2, hs2, hk2, hn2, hc2⟩ := ih { r with len := r.len - part } hw1
        rw [he]
        simp only [] at hn2 hc2 ⊢
        have hct := content_take r (r.len - part) (by omega)
        refine ⟨r2, n + 1, rfl, hw2, hs2, by omega, ?_, ?_⟩
        · rw [Nat.succ_mul]; omega
        · rw [hc2, hct, List.take_take, Nat.succ_mul]
          congr 1; omega
      · rw [hq]; exact hstay
    · rw [(qpop_spec r h part false).2 (by omega)]; exact hstay

theorem logicalPos_physIdx (r : Ring) (h : r.WF) (p : Nat) (hp : p < r.store.length) :
    r.logicalPos (physIdx r.store.length r.off p) = p := by
  have h2 := h.2
  unfold logicalPos physIdx
  simp only [max]
  split <;> split <;> omega

theorem findAt_none (d needle : List Byte) (fuel i : Nat)
    (h : ∀ k, i ≤ k → (k + 1) * needle.length ≤ d.length → elemAt d needle.length k ≠ needle) :
    Deque.findAt d needle fuel i = none := by
  induction fuel generalizing i with
  | zero => rfl
  | succ fuel ih =>
    unfold Deque.findAt
    by_cases hr : (i + 1) * needle.length ≤ d.length
    · rw [if_pos hr]
      have := h i (Nat.le_refl _) hr
      unfold elemAt at this
      rw [if_neg this]
      exact ih (i + 1) (fun k hk => h k (by omega))
    · rw [if_neg hr]

theorem findAt_some (d needle : List Byte) (k : Nat) (hk : (k + 1) * needle.length ≤ d.length)
    (hm : elemAt d needle.length k = needle) (hf : ∀ j, j < k → elemAt d needle.length j ≠ needle)
    (fuel i : Nat) (hi : i ≤ k) (hfuel : k - i < fuel) :
    Deque.findAt d needle fuel i = some k := by
  induction fuel generalizing i with
  | zero => omega
  | succ fuel ih =>
    unfold Deque.findAt
    have hr : (i + 1) * needle.length ≤ d.length :=
      Nat.le_trans (Nat.mul_le_mul_right _ (by omega)) hk
    rw [if_pos hr]
    by_cases hik : i = k
    · subst hik
      unfold elemAt at hm
      rw [if_pos hm]
    · have := hf i (by omega)
      unfold elemAt at this
      rw [if_neg this]
      exact ih (i + 1) (by omega) (by omega)

end Ring
end Mpt
