/-
  Helper lemmas for C19 (core Lean only): `mpt_iterator_consume` on a text argument iterator over a
  separated number list, and the iterator-argument forms of the creators.
-/
import MptModel.Lemmas.IterAccept7
namespace Mpt.Iter
open Mpt.IterSpec

/-- conversion of a token that is followed by a separator: the element is marked -/
theorem convWith_mid {α : Type} (scan : List Char → Scan α) (sep pre t : List Char) (c : Char) (rest : List Char) (v : α)
    (hscan : scan (t ++ c :: rest) = .ok v (c :: rest)) (hd : dropSpace (t ++ c :: rest) = t ++ c :: rest)
    (hne : t ≠ []) :
    (atPos sep (pre ++ (t ++ c :: rest)) pre.length).convWith scan =
      ({ atPos sep (pre ++ (t ++ c :: rest)) pre.length with restore := some (pre.length + t.length), patched := true },
        .ok v) := by
  have he : (t ++ c :: rest).isEmpty = false := by cases t with | nil => exact absurd rfl hne | cons _ _ => rfl
  unfold StrIt.convWith atPos
  simp only [List.drop_left, he, Bool.false_eq_true, ↓reduceIte, hd, hscan]
  have hr : pre.length + ((t ++ c :: rest).length - (c :: rest).length) = pre.length + t.length := by simp
  rw [hr]
  rw [if_neg (by simp)]

/-- conversion of the last token -/
theorem convWith_last {α : Type} (scan : List Char → Scan α) (sep pre t : List Char) (v : α)
    (hscan : scan t = .ok v []) (hd : dropSpace t = t) (hne : t ≠ []) :
    (atPos sep (pre ++ t) pre.length).convWith scan = (atPos sep (pre ++ t) pre.length, .ok v) := by
  have he : t.isEmpty = false := by cases t with | nil => exact absurd rfl hne | cons _ _ => rfl
  unfold StrIt.convWith atPos
  simp only [List.drop_left, he, Bool.false_eq_true, ↓reduceIte, hd, hscan]
  simp

/-- `mpt_iterator_consume(…, 'd', …)` takes a number token and moves behind its separator -/
theorem consumeD_mid (sep pre t : List Char) (c : Char) (rest : List Char) (v : Rat) (h : strictNumber t = some v)
    (hs : SepChar c) (hr : NoLeadSpace rest) :
    (Src.str (atPos sep (pre ++ (t ++ c :: rest)) pre.length)).consumeD =
      (.str (atPos sep ((pre ++ t ++ [c]) ++ rest) (pre ++ t ++ [c]).length), .ok v) := by
  have hst : Stops (c :: rest) := by intro x hx; simp at hx; subst hx; exact hs
  have hlt : pre.length < (pre ++ (t ++ c :: rest)).length := by simp; omega
  simp only [Src.consumeD]
  have hv : (atPos sep (pre ++ (t ++ c :: rest)) pre.length).hasValue = true := rfl
  rw [hv]
  simp only [Bool.not_true, Bool.false_eq_true, ↓reduceIte, StrIt.conv]
  rw [convWith_mid cdouble sep pre t c rest v (cdouble_strict t _ v h hst) (strict_dropSpace t _ v h)
    (strict_ne_nil t v h)]
  simp only []
  have hnl : NoLeadSpace ((pre ++ (t ++ c :: rest)).drop (pre.length + t.length + 1)) := by
    have e : pre ++ (t ++ c :: rest) = (pre ++ t ++ [c]) ++ rest := by simp
    have l : pre.length + t.length + 1 = (pre ++ t ++ [c]).length := by simp; omega
    rw [e, l, List.drop_left]; exact hr
  rw [advance_mid sep _ _ _ hlt hnl]
  simp only []
  have htxt : pre ++ (t ++ c :: rest) = (pre ++ t ++ [c]) ++ rest := by simp
  have hpos : pre.length + t.length + 1 = (pre ++ t ++ [c]).length := by simp; omega
  rw [htxt, hpos]

/-- … and the last token, leaving the source exhausted -/
theorem consumeD_last (sep pre t : List Char) (v : Rat) (h : strictNumber t = some v) :
    (Src.str (atPos sep (pre ++ t) pre.length)).consumeD =
      (.str { atPos sep (pre ++ t) pre.length with pos := none }, .ok v) := by
  have hne := strict_ne_nil t v h
  have hlt : pre.length < (pre ++ t).length := by
    have : 0 < t.length := by cases t with | nil => exact absurd rfl hne | cons _ _ => simp
    simp; omega
  have hc := cdouble_strict t [] v h stops_nil
  have hd := strict_dropSpace t [] v h
  rw [List.append_nil] at hc hd
  simp only [Src.consumeD]
  have hv : (atPos sep (pre ++ t) pre.length).hasValue = true := rfl
  rw [hv]
  simp only [Bool.not_true, Bool.false_eq_true, ↓reduceIte, StrIt.conv]
  rw [convWith_last cdouble sep pre t v hc hd hne]
  simp only []
  rw [advance_last sep _ _ hlt]

/-- an exhausted text source reports MissingData -/
theorem consumeD_done (s : StrIt) (h : s.pos = none) : (Src.str s).consumeD = (.str s, .err .MissingData) := by
  simp only [Src.consumeD, StrIt.hasValue, h]
  rfl

theorem count_dropSpace (n rest : List Char) (k : Nat) (h : strictCount n = some k) :
    dropSpace (n ++ rest) = n ++ rest ∧ n ≠ [] := by
  unfold strictCount at h
  split at h
  · cases h
  · rename_i hc
    simp only [not_or, Bool.not_eq_true', Bool.not_eq_false, Nat.not_lt, not_and] at hc
    obtain ⟨hne, _, hall, _⟩ := hc
    have hd := all_digits n hall
    cases n with
    | nil => simp at hne
    | cons a as =>
      exact ⟨dropSpace_id a _ (digit_not_space a (hd a (by simp))), by simp⟩

/-- `mpt_iterator_consume(…, 'u', …)` takes a count token and moves behind its separator -/
theorem consumeU_mid (sep pre n : List Char) (c : Char) (rest : List Char) (k : Nat) (h : strictCount n = some k)
    (hc : isDigit c = false) (hr : NoLeadSpace rest) :
    (Src.str (atPos sep (pre ++ (n ++ c :: rest)) pre.length)).consumeU =
      (.str (atPos sep ((pre ++ n ++ [c]) ++ rest) (pre ++ n ++ [c]).length), .ok k) := by
  have hlt : pre.length < (pre ++ (n ++ c :: rest)).length := by simp; omega
  obtain ⟨hd, hne⟩ := count_dropSpace n (c :: rest) k h
  have hu := (cuint32_strict n (c :: rest) k h (by intro x hx; simp at hx; subst hx; exact hc)).1
  simp only [Src.consumeU]
  have hv : (atPos sep (pre ++ (n ++ c :: rest)) pre.length).hasValue = true := rfl
  rw [hv]
  simp only [Bool.not_true, Bool.false_eq_true, ↓reduceIte]
  rw [convWith_mid cuint32 sep pre n c rest k hu hd hne]
  simp only []
  have hnl : NoLeadSpace ((pre ++ (n ++ c :: rest)).drop (pre.length + n.length + 1)) := by
    have e : pre ++ (n ++ c :: rest) = (pre ++ n ++ [c]) ++ rest := by simp
    have l : pre.length + n.length + 1 = (pre ++ n ++ [c]).length := by simp; omega
    rw [e, l, List.drop_left]; exact hr
  rw [advance_mid sep _ _ _ hlt hnl]
  simp only []
  have htxt : pre ++ (n ++ c :: rest) = (pre ++ n ++ [c]) ++ rest := by simp
  have hpos : pre.length + n.length + 1 = (pre ++ n ++ [c]).length := by simp; omega
  rw [htxt, hpos]

/-- **linear generator from an argument text** `n c a c' b`: the same generator as `lin(n : a b)` -/
theorem linFromIter_text (sep n ta tb : List Char) (c1 c2 : Char) (k : Nat) (va vb : Rat)
    (hn : strictCount n = some k) (ha : strictNumber ta = some va) (hb : strictNumber tb = some vb)
    (h1 : SepChar c1) (h2 : SepChar c2) :
    (linFromIter (.str (StrIt.create (some (n ++ c1 :: (ta ++ c2 :: tb))) (some sep)))).2
      = mkLinear (wrap32 (k + 1)) va vb := by
  have hcreate : StrIt.create (some (n ++ c1 :: (ta ++ c2 :: tb))) (some sep)
      = atPos sep ([] ++ (n ++ c1 :: (ta ++ c2 :: tb))) ([] : List Char).length := rfl
  rw [hcreate]
  unfold linFromIter
  rw [consumeU_mid sep [] n c1 _ k hn h1.1 (strict_noLead ta _ va ha)]
  simp only [rangeSet]
  rw [consumeD_mid sep ([] ++ n ++ [c1]) ta c2 tb va ha h2 (by have := strict_noLead tb [] vb hb; simpa using this)]
  simp only []
  rw [consumeD_last sep (([] ++ n ++ [c1]) ++ ta ++ [c2]) tb vb hb]

/-- **factor generator from an argument text** with count and base only: the factor is the base -/
theorem facFromIter_text2 (sep n tb : List Char) (c1 : Char) (k : Nat) (vb : Rat)
    (hn : strictCount n = some k) (hb : strictNumber tb = some vb) (h1 : SepChar c1) :
    (facFromIter (.str (StrIt.create (some (n ++ c1 :: tb)) (some sep)))).2
      = (if vb < dblMin then none else some (.factor vb vb 0 (wrap32 (k + 1)) 0 0)) := by
  have hcreate : StrIt.create (some (n ++ c1 :: tb)) (some sep)
      = atPos sep ([] ++ (n ++ c1 :: tb)) ([] : List Char).length := rfl
  rw [hcreate]
  have hlt := (cuint32_strict n (c1 :: tb) k hn (by intro x hx; simp at hx; subst hx; exact h1.1)).2
  unfold facFromIter
  rw [consumeU_mid sep [] n c1 _ k hn h1.1 (by have := strict_noLead tb [] vb hb; simpa using this)]
  simp only []
  rw [if_neg (by omega)]
  rw [consumeD_last sep ([] ++ n ++ [c1]) tb vb hb]
  simp only []
  rw [consumeD_done _ rfl]

end Mpt.Iter
