/-
  Helper lemmas for C02, liveness (core Lean only): a receiver history inside a valid stream keeps the work area
  invariant; draining — give the queue free space, receive — delivers one message per complete frame.
-/
import MptModel.Lemmas.CodedQueueLive
namespace Mpt.CQ
open Mpt Mpt.Cobs Mpt.Codec Mpt.Ring Mpt.Stream

/-- receiver invariant with the work area invariant -/
structure RInvL (v : Variant) (frames : List (List Byte)) (ms : List Msg) (s : RSt) : Prop where
  inv : RInv v frames ms s
  slack : SlackOk v s.q.st

theorem rstepL_inv (v : Variant) (frames : List (List Byte)) (ms : List Msg) (hcar : Carries v frames ms) (s : RSt) (op : DOp)
    (future : List Byte) (hfut : (rstep s op).fed ++ future = frames.flatten) (h : RInvL v frames ms s) :
    RInvL v frames ms (rstep s op) := by
  refine ⟨rstep_inv v frames ms hcar s op future hfut h.inv, ?_⟩
  obtain ⟨k, hgot, hk, hph⟩ := h.inv.ex
  cases op with
  | feed bytes =>
    obtain ⟨q', c, he, _, _, hst, _⟩ := queueFeed_inv s.q bytes h.inv.inv
    simp only [rstep, he]
    split <;> (simp only; rw [hst]; exact h.slack)
  | recv =>
    have hsame : (rstep s .recv).fed = s.fed := by
      simp only [rstep]
      split
      · split <;> rfl
      · rfl
    have hfed : s.fed ++ future = frames.flatten := by rw [← hsame]; exact hfut
    obtain ⟨q', r, he, _⟩ := queueRecv_phase v frames ms hcar s.q h.inv.codec s.fed future hfed k h.inv.inv hph
    have := queueRecv_slack v frames ms hcar s.q h.inv.codec s.fed future hfed k h.inv.inv h.slack hph q' r he
    simp only [rstep, he]
    split <;> exact this
  | shift =>
    obtain ⟨n, p', r', he, _, hn, hp, _⟩ := queueShift_eff s.q h.inv.inv
    simp only [rstep, he]
    exact slackOk_shift h.slack n p' hn hp
  | grow n =>
    obtain ⟨q', he, _, hst, _⟩ := queueGrow_inv s.q n h.inv.inv
    simp only [rstep, he]
    rw [hst]; exact h.slack
  | peek mx dst =>
    have hsame : (rstep s (.peek mx dst)).fed = s.fed := by
      simp only [rstep]
      split <;> rfl
    have hfed : s.fed ++ future = frames.flatten := by rw [← hsame]; exact hfut
    simp only [rstep]
    split
    · rename_i q' r out he
      exact (queuePeek_phase v frames ms hcar s.q h.inv.codec s.fed future hfed k h.inv.inv hph mx dst q' r out he).2.1 h.slack
    · exact h.slack

theorem rrunL_inv (v : Variant) (frames : List (List Byte)) (ms : List Msg) (hcar : Carries v frames ms) (ops : List DOp) :
    ∀ (s : RSt) (future : List Byte), (ops.foldl rstep s).fed ++ future = frames.flatten → RInvL v frames ms s →
      RInvL v frames ms (ops.foldl rstep s) := by
  induction ops with
  | nil => intro s _ _ h; exact h
  | cons op ops ih =>
    intro s future hfut h
    simp only [List.foldl_cons] at hfut ⊢
    obtain ⟨more, hm⟩ := rrun_fed ops (rstep s op)
    exact ih (rstep s op) future hfut
      (rstepL_inv v frames ms hcar s op (more ++ future) (by rw [← List.append_assoc, ← hm]; exact hfut) h)

/-! ### counting frames -/

theorem frame_count_one {f : List Byte} (h : IsFrame f) : f.count 0 = 1 := by
  obtain ⟨body, rfl, hnz⟩ := h.split
  rw [List.count_append, List.count_eq_zero.mpr (fun hm => hnz 0 hm rfl)]
  simp

theorem carries_length {v : Variant} {fs : List (List Byte)} {ms : List Msg} (h : Carries v fs ms) : fs.length = ms.length := by
  induction h with
  | nil => rfl
  | cons _ _ ih => simp [ih]

theorem carries_isFrame {v : Variant} {fs : List (List Byte)} {ms : List Msg} (h : Carries v fs ms) : ∀ f ∈ fs, IsFrame f := by
  induction h with
  | nil => intro f hf; cases hf
  | cons a _ ih =>
    intro f hf
    rcases List.mem_cons.mp hf with rfl | h'
    · exact a.1
    · exact ih f h'

theorem frames_count (fs : List (List Byte)) (h : ∀ f ∈ fs, IsFrame f) : fs.flatten.count 0 = fs.length := by
  induction fs with
  | nil => rfl
  | cons f fs ih =>
    rw [List.flatten_cons, List.count_append, frame_count_one (h f (by simp)), ih (fun g hg => h g (by simp [hg]))]
    simp; omega

/-- a list with a zero byte: the bytes in front of its first zero -/
theorem first_zero : ∀ (l : List Byte), 0 < l.count 0 → ∃ pre junk, l = pre ++ 0 :: junk ∧ ∀ x ∈ pre, x ≠ 0 := by
  intro l
  induction l with
  | nil => intro h; simp at h
  | cons a as ih =>
    intro h
    by_cases ha : a = 0
    · exact ⟨[], as, by rw [ha]; rfl, by simp⟩
    · rw [List.count_cons_of_ne ha] at h
      obtain ⟨pre, junk, e, hnz⟩ := ih h
      refine ⟨a :: pre, junk, by rw [e]; rfl, ?_⟩
      intro x hx
      rcases List.mem_cons.mp hx with rfl | h'
      · exact ha
      · exact hnz x h'

/-- a receiver that has finished `k` frames while more than `k` complete frames have arrived holds the rest
    of frame `k` up to its delimiter -/
theorem phase_has_frame (v : Variant) (frames : List (List Byte)) (ms : List Msg) (hcar : Carries v frames ms)
    (st : DecState) (content fed : List Byte) (k : Nat) (hk : k ≤ ms.length)
    (hph : Phase v frames st content fed k) (hc : k < frameCount fed) :
    ∃ pre junk, content.drop st.curr = pre ++ 0 :: junk ∧ (∀ x ∈ pre, x ≠ 0) ∧ pre.length ≤ fed.length := by
  have hP : (frames.take k).flatten.count 0 = k := by
    rw [frames_count _ (fun f hf => carries_isFrame hcar f (List.mem_of_mem_take hf)), List.length_take,
      carries_length hcar]; omega
  unfold frameCount at hc
  cases hph with
  | idle hf hcl hfed =>
    rw [← hfed, List.count_append, hP] at hc
    obtain ⟨pre, junk, e, hnz⟩ := first_zero (content.drop st.curr) (by omega)
    refine ⟨pre, junk, e, hnz, ?_⟩
    rw [← hfed, e]; simp only [List.length_append, List.length_cons]; omega
  | busy c0 Uc hc0 hnz0 hh hfed =>
    rw [← hfed, List.count_append, hP, List.count_cons_of_ne hc0, List.count_append,
      List.count_eq_zero.mpr (fun hm => hnz0 0 hm rfl)] at hc
    obtain ⟨pre, junk, e, hnz⟩ := first_zero (content.drop st.curr) (by omega)
    refine ⟨pre, junk, e, hnz, ?_⟩
    rw [← hfed, e]; simp only [List.length_append, List.length_cons]; omega

/-- the storage grows to exactly the requested size -/
theorem queueGrow_len (q : DecodeQueue) (n : Nat) (h : DInv q) (hn : q.ring.store.length < n) :
    ∃ q', queueGrow q n = .ok q' ∧ q'.ring.store.length = n ∧ q'.ring.len = q.ring.len := by
  unfold queueGrow
  simp only [Ring.max]
  rw [if_neg (by omega)]
  obtain ⟨r', he, hwf', hs', hc'⟩ := resize_spec q.ring h.wf n
  rw [he]
  have hsub : q.ring.len - n = 0 := by have := h.wf.1; omega
  rw [hsub, List.drop_zero] at hc'
  have hl' : r'.len = q.ring.len := by
    have a := content_length r' hwf'.1 hwf'.2
    have b := content_length q.ring h.wf.1 h.wf.2
    rw [hc', b] at a; exact a.symm
  exact ⟨_, rfl, hs', hl'⟩

/-- one round of a draining reader: the queue gets `B` bytes of storage more, then `mpt_queue_recv` -/
def drainStep (B : Nat) (s : RSt) : RSt := rstep (rstep s (.grow (s.q.ring.max + B))) .recv

/-- a round delivers the next message when its frame is complete -/
theorem drainStep_delivers (v : Variant) (frames : List (List Byte)) (ms : List Msg) (hcar : Carries v frames ms) (s : RSt)
    (future : List Byte) (hfut : s.fed ++ future = frames.flatten) (h : RInvL v frames ms s) (B : Nat) (hB : s.fed.length + 2 ≤ B)
    (hc : s.got.length < frameCount s.fed) :
    RInvL v frames ms (drainStep B s) ∧ (drainStep B s).fed = s.fed ∧ (drainStep B s).got = ms.take (s.got.length + 1) ∧
      (drainStep B s).got.length = s.got.length + 1 := by
  -- the growth
  have hB0 : 0 < B := by omega
  obtain ⟨q1, hg, hlen1, hl1⟩ := queueGrow_len s.q (s.q.ring.max + B) h.inv.inv (by simp only [Ring.max]; omega)
  obtain ⟨q1', hg', _, hst1, hcont1, _⟩ := queueGrow_inv s.q (s.q.ring.max + B) h.inv.inv
  rw [hg] at hg'; cases hg'
  have hs1 : rstep s (.grow (s.q.ring.max + B)) = { s with q := q1 } := by simp only [rstep, hg]
  have hI1 : RInvL v frames ms { s with q := q1 } := by
    rw [← hs1]
    exact rstepL_inv v frames ms hcar s _ future (by rw [hs1]; exact hfut) h
  obtain ⟨k, hgot, hk, hph⟩ := hI1.inv.ex
  have hkl : s.got.length = k := by
    have := congrArg List.length hgot
    simp only [List.length_take] at this; omega
  obtain ⟨pre, junk, hun, hnz, hpl⟩ := phase_has_frame v frames ms hcar q1.st q1.ring.content s.fed k hk hph (by omega)
  have hmaxlen : s.q.ring.len ≤ s.q.ring.store.length := h.inv.inv.wf.1
  obtain ⟨q2, hr⟩ := queueRecv_live v frames ms hcar q1 hI1.inv.codec s.fed future hfut k hI1.inv.inv hI1.slack hph pre junk hun hnz
    (by rw [hlen1, hl1]; simp only [Ring.max]; omega)
  have hs2 : drainStep B s = { s with q := q2, got := s.got ++ [msgOf q2] } := by
    unfold drainStep
    rw [hs1]
    simp only [rstep, hr, if_true]
  have hI2 : RInvL v frames ms (drainStep B s) := by
    unfold drainStep
    rw [hs1]
    exact rstepL_inv v frames ms hcar _ .recv future (by simp only [rstep, hr, if_true]; exact hfut) hI1
  refine ⟨hI2, by rw [hs2], ?_, by rw [hs2]; simp⟩
  obtain ⟨k', hgot', hk', _⟩ := hI2.inv.ex
  rw [hgot']
  have : k' = s.got.length + 1 := by
    have := congrArg List.length hgot'
    rw [hs2] at this
    simp only [List.length_append, List.length_cons, List.length_nil, List.length_take] at this
    omega
  rw [this]

/-- `n` rounds of the draining reader -/
def drainN (B : Nat) : Nat → RSt → RSt
  | 0, s => s
  | n + 1, s => drainN B n (drainStep B s)

/-- **draining delivers everything that is complete** -/
theorem drain_all (v : Variant) (frames : List (List Byte)) (ms : List Msg) (hcar : Carries v frames ms) (B : Nat) :
    ∀ (n : Nat) (s : RSt) (future : List Byte), s.fed ++ future = frames.flatten → RInvL v frames ms s →
      s.fed.length + 2 ≤ B → s.got.length + n ≤ frameCount s.fed →
      (drainN B n s).got = ms.take (s.got.length + n) ∧ (drainN B n s).fed = s.fed := by
  intro n
  induction n with
  | zero =>
    intro s future _ h _ _
    obtain ⟨k, hgot, hk, _⟩ := h.inv.ex
    have : s.got.length = k := by
      have := congrArg List.length hgot
      simp only [List.length_take] at this; omega
    show s.got = ms.take (s.got.length + 0) ∧ s.fed = s.fed
    exact ⟨by rw [Nat.add_zero, this]; exact hgot, rfl⟩
  | succ n ih =>
    intro s future hfut h hB hc
    obtain ⟨hI, hfed, hgot, hk1⟩ := drainStep_delivers v frames ms hcar s future hfut h B hB (by omega)
    obtain ⟨a, b⟩ := ih (drainStep B s) future (by rw [hfed]; exact hfut) hI (by rw [hfed]; exact hB) (by rw [hfed, hk1]; omega)
    simp only [drainN]
    exact ⟨by rw [a, hk1]; congr 1; omega, by rw [b, hfed]⟩

end Mpt.CQ
