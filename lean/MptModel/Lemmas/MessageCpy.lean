/-
  C17: the iovec→iovec copy loop of mpt_memcpy equals one contiguous copy.
-/
import MptModel.Lemmas.Message
namespace Mpt
open Mpt.Flat

/-- number of bytes `mpt_memcpy` moves when `s` source and `d` target bytes remain -/
def cpyAmount (len : Int) (s d : Nat) : Nat :=
  if len < 0 then min s d else min len.toNat (min s d)

theorem take_take_drop (l : List Byte) (c k : Nat) (h : c ≤ k) :
    l.take c ++ (l.drop c).take (k - c) = l.take k := by
  have : k = c + (k - c) := by omega
  rw [this, List.take_add]
  simp

theorem cpyLoop_eq (fuel : Nat) (len : Int) (left : Frag) (srcs done : List Frag) (tw space : Frag) (ds : List Frag) (total : Nat)
    (hf : srcs.length + ds.length + (left ++ srcs.flatten).length < fuel) :
    let S := left ++ srcs.flatten
    let D := space ++ ds.flatten
    let k := cpyAmount len S.length D.length
    let r := Iov.cpyLoop fuel len left srcs done tw space ds total
    r.ret = ((total + k : Nat) : Int) ∧
    r.dst.flatten = done.flatten ++ tw ++ S.take k ++ D.drop k ∧
    r.dst.map List.length = done.map List.length ++ [tw.length + space.length] ++ ds.map List.length := by
  induction fuel generalizing len left srcs done tw space ds total with
  | zero => omega
  | succ fuel ih =>
    intro S D k r
    have hr : r = Iov.cpyLoop (fuel + 1) len left srcs done tw space ds total := rfl
    clear_value r
    unfold Iov.cpyLoop at hr
    subst hr
    by_cases h0 : len = 0
    · have hk : k = 0 := by simp [k, cpyAmount, h0]
      simp only [h0, if_true, hk]
      simp [D]
    · by_cases hl : left.length = 0
      · have hleft : left = [] := List.eq_nil_of_length_eq_zero hl
        cases srcs with
        | nil =>
          have hk : k = 0 := by simp [k, cpyAmount, S, hleft]
          simp only [h0, hl, if_true, if_false, hk]
          simp [D]
        | cons s ss =>
          have := ih len s ss done tw space ds total (by simp [hleft] at hf ⊢; omega)
          simp only [h0, hl, if_true, if_false]
          simpa [S, D, k, hleft] using this
      · by_cases hs : space.length = 0
        · have hspace : space = [] := List.eq_nil_of_length_eq_zero hs
          cases ds with
          | nil =>
            have hk : k = 0 := by simp [k, cpyAmount, D, hspace]
            simp only [h0, hl, hs, if_true, if_false, hk]
            simp [D, hspace]
          | cons d dd =>
            have := ih len left srcs (done ++ [tw ++ space]) [] d dd total (by simp at hf ⊢; omega)
            simp only [h0, hl, hs, if_true, if_false]
            simpa [S, D, k, hspace] using this
        · -- a real copy step
          simp only [h0, hl, hs, if_false]
          generalize hc : (if len < 0 then min left.length space.length else min len.toNat (min left.length space.length)) = copy
          have hc1 : 1 ≤ copy := by subst hc; split <;> omega
          have hcl : copy ≤ left.length := by subst hc; split <;> omega
          have hcs : copy ≤ space.length := by subst hc; split <;> omega
          have hSlen : S.length = left.length + srcs.flatten.length := by simp [S]
          have hDlen : D.length = space.length + ds.flatten.length := by simp [D]
          have hck : copy ≤ k := by
            subst hc; simp only [k, cpyAmount, hSlen, hDlen]; split <;> omega
          have hk' : cpyAmount (len - (copy : Int)) (left.drop copy ++ srcs.flatten).length (space.drop copy ++ ds.flatten).length = k - copy := by
            subst hc
            simp only [k, cpyAmount, hSlen, hDlen, List.length_append, List.length_drop]
            split <;> split <;> omega
          have := ih (len - (copy : Int)) (left.drop copy) srcs done (tw ++ left.take copy) (space.drop copy) ds (total + copy)
            (by simp at hf ⊢; omega)
          simp only [hk'] at this
          obtain ⟨h1, h2, h3⟩ := this
          refine ⟨?_, ?_, ?_⟩
          · rw [h1]; congr 1; omega
          · rw [h2]
            have e1 : (left.drop copy ++ srcs.flatten) = S.drop copy := by
              simp [S, List.drop_append, Nat.sub_eq_zero_of_le hcl]
            have e2 : (space.drop copy ++ ds.flatten) = D.drop copy := by
              simp [D, List.drop_append, Nat.sub_eq_zero_of_le hcs]
            have e3 : left.take copy = S.take copy := by
              simp [S, List.take_append, Nat.sub_eq_zero_of_le hcl]
            rw [e1, e2, e3, List.drop_drop]
            have : copy + (k - copy) = k := by omega
            rw [this]
            simp only [List.append_assoc]
            rw [← List.append_assoc (S.take copy), take_take_drop S copy k hck]
          · rw [h3]; simp [List.length_take, List.length_drop]; omega

theorem memcpy_eq (len : Int) (src dst : List Frag) (hs : src ≠ []) (hd : dst ≠ []) :
    (Iov.memcpy len src dst).ret = (Flat.cpy len src.flatten dst.flatten).1 ∧
    (Iov.memcpy len src dst).dst.flatten = (Flat.cpy len src.flatten dst.flatten).2 ∧
    (Iov.memcpy len src dst).dst.map List.length = dst.map List.length := by
  cases src with
  | nil => exact absurd rfl hs
  | cons s ss =>
  cases dst with
  | nil => exact absurd rfl hd
  | cons d dd =>
    have hS : (s :: ss).flatten = s ++ ss.flatten := by simp
    have hD : (d :: dd).flatten = d ++ dd.flatten := by simp
    generalize hSd : s ++ ss.flatten = S at hS
    generalize hDd : d ++ dd.flatten = D at hD
    unfold Iov.memcpy Flat.cpy
    simp only [sumLen_eq, hS, hD]
    by_cases h1 : len > 0 ∧ len > (S.length : Int)
    · simp only [h1, and_self, if_true]; simp [hDd]
    · by_cases h2 : len > 0 ∧ len > (D.length : Int)
      · have g : ¬ len > (S.length : Int) := by omega
        simp only [h2, g, and_self, if_true, if_false]; simp [hDd]
      · rw [if_neg h1, if_neg h2]
        have := cpyLoop_eq ((s :: ss).length + (d :: dd).length + S.length + 1) len s ss [] [] d dd 0
          (by simp [hSd]; omega)
        simp only [List.flatten_nil, List.nil_append, List.map_nil, List.length_nil, Nat.zero_add, hSd, hDd] at this
        obtain ⟨r1, r2, r3⟩ := this
        by_cases hp : len > 0
        · have ha : cpyAmount len S.length D.length = len.toNat := by
            simp only [cpyAmount]; split <;> omega
          have g1 : ¬ len > (S.length : Int) := by omega
          have g2 : ¬ len > (D.length : Int) := by omega
          rw [ha] at r1 r2
          simp only [hp, g1, g2, if_true, if_false]
          refine ⟨?_, r2, by simpa using r3⟩
          rw [r1]; omega
        · by_cases hz : len = 0
          · have ha : cpyAmount len S.length D.length = 0 := by
              simp [cpyAmount, hz]
            rw [ha] at r1 r2
            subst hz
            simp only [if_true, if_false, Int.lt_irrefl, gt_iff_lt]
            refine ⟨by rw [r1]; simp, by simpa using r2, by simpa using r3⟩
          · have ha : cpyAmount len S.length D.length = min S.length D.length := by
              simp only [cpyAmount]; split <;> omega
            rw [ha] at r1 r2
            simp only [hp, hz, if_false]
            refine ⟨by rw [r1], r2, by simpa using r3⟩

/-- without a source or a target fragment `mpt_memcpy` returns 0 whatever the length -/
theorem memcpy_nofrag (len : Int) (src dst : List Frag) (h : src = [] ∨ dst = []) :
    Iov.memcpy len src dst = ⟨0, dst⟩ := by
  cases src <;> cases dst <;> simp_all [Iov.memcpy]

end Mpt
