/-
  Lemmas about the command text decoder model (core Lean only).
-/
import MptModel.Impl.Decode
import MptModel.Lemmas.Decode
namespace Mpt.Codec
open Mpt.Cobs

theorem findZero_spec (store : List Byte) (body : List Byte) : ∀ (i n : Nat) (junk : List Byte),
    store.drop i = body ++ 0 :: junk → (∀ x ∈ body, x ≠ 0) → n = store.length - i →
    findZero store n i = some (i + body.length) := by
  induction body with
  | nil =>
    intro i n junk h _ hn
    have hlt : i < store.length := by
      rcases Nat.lt_or_ge i store.length with h1 | h1
      · exact h1
      · rw [List.drop_eq_nil_of_le h1] at h; simp at h
    have h0 : store[i]? = some 0 := by
      have := congrArg (fun x => x[0]?) h
      simpa using this
    obtain ⟨k, rfl⟩ : ∃ k, n = k + 1 := ⟨n - 1, by omega⟩
    simp [findZero, h0]
  | cons b body ih =>
    intro i n junk h hnz hn
    have hlt : i < store.length := by
      rcases Nat.lt_or_ge i store.length with h1 | h1
      · exact h1
      · rw [List.drop_eq_nil_of_le h1] at h; simp at h
    have hb : store[i]? = some b := by
      have := congrArg (fun x => x[0]?) h
      simpa using this
    have hb0 : b ≠ 0 := hnz b (by simp)
    obtain ⟨k, rfl⟩ : ∃ k, n = k + 1 := ⟨n - 1, by omega⟩
    have hdrop : store.drop (i + 1) = body ++ 0 :: junk := by
      have := congrArg (List.drop 1) h
      simpa [List.drop_drop, Nat.add_comm] using this
    simp only [findZero, hb]
    rw [if_neg (by simpa using hb0)]
    rw [ih (i + 1) k junk hdrop (fun x hx => hnz x (by simp [hx])) (by omega)]
    simp; omega

/-- the command decoder on a state between two messages with the 2 bytes of head room it needs:
    the delivered message is the header followed by the text in front of the delimiter -/
theorem decodeCommand_honest (st : DecState) (segs : List Seg) (body junk : List Byte)
    (hlen : st.len - st.msg.getD 0 = 0) (hpos : 2 ≤ st.curr)
    (hin : (flat segs).drop st.curr = body ++ 0 :: junk) (hnz : ∀ x ∈ body, x ≠ 0) :
    (decodeCommand st segs false).ret = .val 1 ∧
    decCmd (body ++ [0]) = some (decodeCommand st segs false).region ∧
    (decodeCommand st segs false).st.curr = st.curr + body.length + 1 ∧
    (∀ x ∈ (decodeCommand st segs false).writes, x.1 < x.2 ∧ x.2 ≤ (flat segs).length) := by
  have hle : st.curr < (flat segs).length := by
    rcases Nat.lt_or_ge st.curr (flat segs).length with h1 | h1
    · exact h1
    · rw [List.drop_eq_nil_of_le h1] at hin; simp at hin
  unfold decodeCommand
  simp only [Bool.false_eq_true, if_false, and_false, hlen, if_true]
  rw [if_neg (by omega), if_neg (by omega), if_neg (by omega), if_neg (by omega)]
  have hdrop2 : (((flat segs).set (st.curr - 2) 0x04).set (st.curr - 1) 0x20).drop st.curr = body ++ 0 :: junk := by
    rw [drop_set_lt _ _ _ _ (by omega), drop_set_lt _ _ _ _ (by omega), hin]
  have hfz := findZero_spec (((flat segs).set (st.curr - 2) 0x04).set (st.curr - 1) 0x20) body st.curr
    ((flat segs).length - st.curr) junk hdrop2 hnz (by simp)
  simp only [List.length_set] at hfz ⊢
  rw [hfz]
  refine ⟨rfl, ?_, by first | rfl | (simp only; omega), ?_⟩
  · simp only [DecOut.region]
    have hreg : ((((flat segs).set (st.curr - 2) 0x04).set (st.curr - 1) 0x20).drop (st.curr - 2)).take
        (2 + (st.curr + body.length - st.curr)) = cmdHeader ++ body := by
      apply List.ext_getElem?
      intro i
      have hb : ∀ j, j < body.length → (flat segs)[st.curr + j]? = body[j]? := by
        intro j hj
        have := congrArg (fun x => x[j]?) hin
        simp only [List.getElem?_drop] at this
        rw [this, List.getElem?_append_left hj]
      simp only [List.getElem?_take, List.getElem?_drop, List.getElem?_set, cmdHeader, List.length_set]
      by_cases h0 : i = 0
      · subst h0
        simp
        refine ⟨by omega, ?_⟩
        rw [if_neg (by omega), if_pos (by omega)]
      by_cases h1 : i = 1
      · subst h1
        have : st.curr - 2 + 1 = st.curr - 1 := by omega
        simp [this]
        exact ⟨by omega, by omega⟩
      · have hi : 2 ≤ i := by omega
        by_cases hlt : i < 2 + (st.curr + body.length - st.curr)
        · rw [if_pos hlt]
          have e1 : st.curr - 1 ≠ st.curr - 2 + i := by omega
          have e2 : st.curr - 2 ≠ st.curr - 2 + i := by omega
          simp only [e1, e2, if_false]
          have : st.curr - 2 + i = st.curr + (i - 2) := by omega
          rw [this, hb (i - 2) (by omega)]
          obtain ⟨k, rfl⟩ : ∃ k, i = k + 2 := ⟨i - 2, by omega⟩
          simp
        · rw [if_neg hlt]
          obtain ⟨k, rfl⟩ : ∃ k, i = k + 2 := ⟨i - 2, by omega⟩
          simp
          omega
    rw [hreg]
    simp [decCmd, hnz]
    intro h0; exact hnz 0 h0 rfl
  · intro x hx
    simp only [List.mem_cons, List.mem_nil_iff, or_false] at hx
    rcases hx with rfl | rfl <;> simp <;> omega

end Mpt.Codec
