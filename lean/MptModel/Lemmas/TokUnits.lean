/-
  C05, layer 6: complete steps.  A step maps a good state (structural invariant + token invariant) to a good
  state and its new events are a legal run of the token spec from what was stored before to what is stored
  after.  `amb` are live tokens that are not stored in any buffer (source elements held by the caller).
-/
import MptModel.Lemmas.TokBuf
namespace Mpt.Heap
open Mpt

/-- live tokens outside the buffers: distinct, below the counter, not stored anywhere -/
def AmbOK (amb : List Nat) (s : State) : Prop := amb.Nodup ∧ ∀ t ∈ amb, t < s.next ∧ t ∉ stored s

/-- good state: structure, and (as long as the 32-bit token counter has not wrapped) tokens -/
structure GoodS (amb : List Nat) (s : State) : Prop where
  inv : InvM s
  tok : s.next ≤ tokLimit → TokP s ∧ AmbOK amb s

/-- a complete step -/
structure Step (amb : List Nat) (s s' : State) : Prop where
  inv : InvM s'
  hsl : s'.hs.length = s.hs.length
  next : s.next ≤ s'.next
  tok : s'.next ≤ tokLimit → TokP s' ∧ AmbOK amb s' ∧
    ∃ evs, s'.log = s.log ++ evs ∧ Run (amb ++ stored s) evs (amb ++ stored s')

theorem Step.good {amb : List Nat} {s s' : State} (st : Step amb s s') : GoodS amb s' :=
  ⟨st.inv, fun h => ⟨(st.tok h).1, (st.tok h).2.1⟩⟩

theorem Step.refl {amb : List Nat} {s : State} (gs : GoodS amb s) : Step amb s s :=
  ⟨gs.inv, rfl, Nat.le_refl _, fun h => ⟨(gs.tok h).1, (gs.tok h).2, [], by simp, Run.nil _⟩⟩

theorem Step.trans {amb : List Nat} {s s1 s2 : State} (a : Step amb s s1) (b : Step amb s1 s2) : Step amb s s2 := by
  refine ⟨b.inv, by rw [b.hsl, a.hsl], Nat.le_trans a.next b.next, ?_⟩
  intro h
  obtain ⟨tp2, am2, e2, l2, r2⟩ := b.tok h
  obtain ⟨_, _, e1, l1, r1⟩ := a.tok (Nat.le_trans b.next h)
  exact ⟨tp2, am2, e1 ++ e2, by rw [l2, l1]; simp, r1.append r2⟩

/-- tokens stored in buffers other than `b` -/
def others (s : State) (b t : Nat) : Prop := ∃ c y, c ≠ b ∧ s.buf? c = some y ∧ t ∈ y.toks

theorem mem_stored_split {s : State} {b : Nat} {x : Buf} (hb : s.buf? b = some x) (t : Nat) :
    t ∈ stored s ↔ t ∈ x.toks ∨ others s b t := by
  rw [mem_stored]
  constructor
  · rintro ⟨c, y, hy, ht⟩
    by_cases e : c = b
    · subst e; rw [hb] at hy; cases hy; exact Or.inl ht
    · exact Or.inr ⟨c, y, e, hy, ht⟩
  · rintro (h | ⟨c, y, _, hy, ht⟩)
    · exact ⟨b, x, hb, h⟩
    · exact ⟨c, y, hy, ht⟩

theorem mem_stored_dead {s : State} {b : Nat} (hb : s.buf? b = none) (t : Nat) : t ∈ stored s ↔ others s b t := by
  rw [mem_stored]
  constructor
  · rintro ⟨c, y, hy, ht⟩
    by_cases e : c = b
    · subst e; rw [hb] at hy; cases hy
    · exact ⟨c, y, e, hy, ht⟩
  · rintro ⟨c, y, _, hy, ht⟩; exact ⟨c, y, hy, ht⟩

theorem others_frame {s s' : State} {b : Nat} (fr : Frame s s' b) (t : Nat) : others s' b t ↔ others s b t := by
  constructor
  · rintro ⟨c, y, ne, hy, ht⟩; exact ⟨c, y, ne, by rw [← fr.other c ne]; exact hy, ht⟩
  · rintro ⟨c, y, ne, hy, ht⟩; exact ⟨c, y, ne, by rw [fr.other c ne]; exact hy, ht⟩

/-- description of what a rewrite of one buffer did to its tokens: `g1` destroyed first, `m` fresh tokens
    created (copy sources `S`), `g2` destroyed last -/
structure Delta (s s' : State) (amb xt xt' : List Nat) where
  g1 : List Nat
  g2 : List Nat
  cre : List Ev
  m : Nat
  S : List Nat
  next : s'.next = s.next + m
  log : s'.log = s.log ++ (g1.map Ev.fini ++ cre ++ g2.map Ev.fini)
  creates : Creates S s.next cre m
  n1 : g1.Nodup
  s1 : ∀ t ∈ g1, t ∈ xt
  hS : ∀ k ∈ S, (k ∈ amb ∨ k ∈ stored s) ∧ k ∉ g1
  n2 : g2.Nodup
  s2 : ∀ t ∈ g2, (t ∈ xt ∧ t ∉ g1) ∨ (s.next ≤ t ∧ t < s.next + m)
  nd : xt'.Nodup
  mem : ∀ t, t ∈ xt' ↔ ((t ∈ xt ∧ t ∉ g1) ∨ (s.next ≤ t ∧ t < s.next + m)) ∧ t ∉ g2

/-- one buffer is rewritten (reference count kept): a complete step -/
theorem step_of_frame {amb : List Nat} {s s' : State} {b : Nat} {x x' : Buf} (gs : GoodS amb s) (hb : s.buf? b = some x)
    (fr : Frame s s' b) (hb' : s'.buf? b = some x') (r : x'.ref = x.ref) (g : GoodBuf x') (nx : s.next ≤ s'.next)
    (delta : s'.next ≤ tokLimit → Nonempty (Delta s s' amb x.toks x'.toks)) : Step amb s s' := by
  refine ⟨gs.inv.setBuf hb fr hb' r g, by rw [fr.hs], nx, ?_⟩
  intro small
  obtain ⟨tp, am⟩ := gs.tok (Nat.le_trans nx small)
  obtain ⟨d⟩ := delta small
  have xsub : ∀ t, t ∈ x.toks → t ∈ stored s := fun t ht => (mem_stored_split hb t).mpr (Or.inl ht)
  have tp' : TokP s' := by
    refine tp.transfer b nx ?_ ?_
    · intro c y ne hy
      exact ⟨y, by rw [← fr.other c ne]; exact hy, rfl⟩
    · intro z hz
      rw [hb'] at hz; cases hz
      refine ⟨d.nd, ?_, ?_⟩
      · intro t ht
        rcases ((d.mem t).mp ht).1 with h | h
        · have := tp.fresh b x hb t h.1; omega
        · rw [d.next]; exact h.2
      · intro c y ne hy t ht hty
        rw [fr.other c ne] at hy
        rcases ((d.mem t).mp ht).1 with h | h
        · exact tp.disj b c x y (fun e => ne e.symm) hb hy t h.1 hty
        · have := tp.fresh c y hy t hty; omega
  have mem' : ∀ t, t ∈ stored s' ↔ t ∈ x'.toks ∨ others s b t := by
    intro t; rw [mem_stored_split hb' t, others_frame fr]
  have am' : AmbOK amb s' := by
    refine ⟨am.1, fun t ht => ⟨by have := (am.2 t ht).1; omega, ?_⟩⟩
    intro hm
    rcases (mem' t).mp hm with h | h
    · rcases ((d.mem t).mp h).1 with h1 | h1
      · exact (am.2 t ht).2 (xsub t h1.1)
      · have := (am.2 t ht).1; omega
    · exact (am.2 t ht).2 ((mem_stored_split hb t).mpr (Or.inr h))
  refine ⟨tp', am', _, d.log, ?_⟩
  have nds := tp.nodup_stored
  have nds' := tp'.nodup_stored
  have ndl : (amb ++ stored s).Nodup := by
    rw [List.nodup_append]
    exact ⟨am.1, nds, fun a ha b hb e => by subst e; exact (am.2 a ha).2 hb⟩
  have ndl' : (amb ++ stored s').Nodup := by
    rw [List.nodup_append]
    exact ⟨am'.1, nds', fun a ha b hb e => by subst e; exact (am'.2 a ha).2 hb⟩
  apply run_delta ndl (a := s.next) (m := d.m) _ d.n1 _ d.creates _ d.n2 _ ndl'
  · intro t
    rw [List.mem_append, List.mem_append, mem', mem_stored_split hb t, d.mem t]
    constructor
    · rintro (h | ⟨h, hn2⟩ | h)
      · refine ⟨Or.inl ⟨Or.inl h, fun hg => (am.2 t h).2 (xsub t (d.s1 t hg))⟩, fun hg => ?_⟩
        rcases d.s2 t hg with k | k
        · exact (am.2 t h).2 (xsub t k.1)
        · have := (am.2 t h).1; omega
      · rcases h with k | k
        · exact ⟨Or.inl ⟨Or.inr (Or.inl k.1), k.2⟩, hn2⟩
        · exact ⟨Or.inr k, hn2⟩
      · have h0 := h
        obtain ⟨c, y, ne, hy, hty⟩ := h
        refine ⟨Or.inl ⟨Or.inr (Or.inr h0), fun hg => ?_⟩, fun hg => ?_⟩
        · exact tp.disj b c x y (fun e => ne e.symm) hb hy t (d.s1 t hg) hty
        · rcases d.s2 t hg with k | k
          · exact tp.disj b c x y (fun e => ne e.symm) hb hy t k.1 hty
          · have := tp.fresh c y hy t hty; omega
    · rintro ⟨h | h, hn2⟩
      · rcases h.1 with k | k | k
        · exact Or.inl k
        · exact Or.inr (Or.inl ⟨Or.inl ⟨k, h.2⟩, hn2⟩)
        · exact Or.inr (Or.inr k)
      · exact Or.inr (Or.inl ⟨Or.inr h, hn2⟩)
  · intro t ht
    rcases List.mem_append.mp ht with h | h
    · exact (am.2 t h).1
    · exact tp.fresh_stored t h
  · intro t ht; exact List.mem_append.mpr (Or.inr (xsub t (d.s1 t ht)))
  · intro k hk
    have := d.hS k hk
    exact ⟨List.mem_append.mpr this.1, this.2⟩
  · intro t ht
    rcases d.s2 t ht with k | k
    · exact Or.inl ⟨List.mem_append.mpr (Or.inr (xsub t k.1)), k.2⟩
    · exact Or.inr k

theorem nodup_mid_iff {A B C : List Nat} (nd : (A ++ B ++ C).Nodup) (t : Nat) :
    t ∈ A ++ C ↔ t ∈ A ++ B ++ C ∧ t ∉ B := by
  rw [List.append_assoc] at nd
  have h1 := (List.nodup_append.mp nd)
  have h2 := (List.nodup_append.mp h1.2.1)
  simp only [List.mem_append]
  constructor
  · rintro (h | h)
    · exact ⟨Or.inl (Or.inl h), fun hb => h1.2.2 t h t (List.mem_append.mpr (Or.inl hb)) rfl⟩
    · exact ⟨Or.inr h, fun hb => h2.2.2 t hb t h rfl⟩
  · rintro ⟨(h | h) | h, nb⟩
    · exact Or.inl h
    · exact absurd h nb
    · exact Or.inr h

theorem nodup_mid {A B C : List Nat} (nd : (A ++ B ++ C).Nodup) : (A ++ C).Nodup ∧ B.Nodup := by
  rw [List.append_assoc] at nd
  have h1 := (List.nodup_append.mp nd)
  have h2 := (List.nodup_append.mp h1.2.1)
  refine ⟨?_, h2.1⟩
  rw [List.nodup_append]
  exact ⟨h1.1, h2.2.1, fun a ha b hb e => h1.2.2 a ha b (List.mem_append.mpr (Or.inr hb)) e⟩

theorem goodBuf_of {x : Buf} {t : Traits} (xt : x.traits = some t) (mt : Managed t) {n : Nat} (hu : x.used = n * t.size)
    (fit : n * t.size ≤ x.size) : GoodBuf x :=
  ⟨t, xt, mt, by rw [hu]; exact fit, by rw [hu]; exact Nat.mul_mod_left _ _⟩

theorem GoodBuf.elems {x : Buf} (g : GoodBuf x) : ∃ t n, x.traits = some t ∧ Managed t ∧ x.used = n * t.size ∧ x.used ≤ x.size := by
  obtain ⟨t, xt, mt, u, a⟩ := g
  exact ⟨t, x.used / t.size, xt, mt, used_eq_mul a, u⟩

/-- `mpt_buffer_cut` on any live buffer is a complete step (refused: nothing happens) -/
theorem bufferCut_step {amb : List Nat} {s : State} {b : Nat} {x : Buf} (gs : GoodS amb s) (hb : s.buf? b = some x) (off len : Nat) :
    match bufferCut s b off len with
    | .fault _ => False
    | .fail s' _ => s' = s
    | .ok s' _ => Step amb s s' ∧ Frame s s' b := by
  obtain ⟨t, n, xt, mt, hu, hsz⟩ := (gs.inv.good b x hb).elems
  rcases bufferCut_managed hb xt mt hu hsz off len with ⟨e, he⟩ | ⟨i, l, s', x', v, il, he, ob, hb', r, f, tr, dl, u', lg, tk⟩
  · rw [he]
  · rw [he]
    have fr : Frame s s' b := ⟨ob.hs, ob.wins, ob.len, ob.other⟩
    refine ⟨?_, fr⟩
    have xtoks : x.toks = slotsFrom x.data t.size 0 i ++ slotsFrom x.data t.size i l ++ slotsFrom x.data t.size (i + l) (n - (i + l)) := by
      rw [toks_of_used xt mt hu]
      have e : n = i + (l + (n - (i + l))) := by omega
      conv => lhs; rw [e]
      rw [slotsFrom_add, slotsFrom_add]
      simp [List.append_assoc]
    refine step_of_frame gs hb fr hb' r
      (goodBuf_of (tr.trans xt) mt u' (by
        have : (n - l) * t.size ≤ n * t.size := Nat.mul_le_mul_right _ (by omega)
        simp only [Buf.size, dl]; simp only [Buf.size] at hsz; omega))
      (by rw [ob.next]; exact Nat.le_refl _) ?_
    intro small
    have tp := (gs.tok (by rw [← ob.next]; exact small)).1
    have nd := tp.nodup b x hb
    rw [xtoks] at nd
    refine ⟨Delta.mk (slotsFrom x.data t.size i l) [] [] 0 [] (by rw [ob.next]; rfl) (by rw [lg]; simp) (Creates.nil _)
      (nodup_mid nd).2 ?_ (fun k hk => by cases hk) List.nodup_nil (fun t ht => by cases ht)
      (by rw [tk]; exact (nodup_mid nd).1) ?_⟩
    · intro t ht; rw [xtoks]; simp only [List.mem_append]; exact Or.inl (Or.inr ht)
    · intro t
      rw [tk, nodup_mid_iff nd t, ← xtoks]
      constructor
      · intro h; exact ⟨Or.inl h, by simp⟩
      · rintro ⟨h | h, _⟩
        · exact h
        · omega


theorem slotsFrom_eq_seqFrom {d : List Byte} {sz i m a : Nat} (h : ∀ j, i ≤ j → j < i + m → slot d sz j = a + (j - i)) :
    slotsFrom d sz i m = seqFrom a m := by
  induction m generalizing i a with
  | zero => rfl
  | succ m ih =>
    have e : m + 1 = 1 + m := by omega
    conv => lhs; rw [e, slotsFrom_add]
    simp only [seqFrom]
    have h0 : slotsFrom d sz i 1 = [a] := by
      simp only [slotsFrom, List.range_one, List.map_cons, List.map_nil, Nat.add_zero]
      rw [h i (Nat.le_refl _) (by omega)]; simp
    rw [h0, ih (i := i + 1) (a := a + 1) (fun j h1 h2 => by rw [h j (by omega) (by omega)]; omega)]
    rfl

/-- membership in the tokens of a buffer after `mpt_buffer_set`: kept prefix, fresh tokens, kept tail -/
theorem set_mem {A g1 T : List Nat} {a M : Nat} (fatal : Bool) (nd : (A ++ g1 ++ T).Nodup) (old : ∀ t ∈ A ++ g1 ++ T, t < a) (t : Nat) :
    t ∈ A ++ seqFrom a M ++ (if fatal then [] else T) ↔
      ((t ∈ A ++ g1 ++ T ∧ t ∉ g1) ∨ (a ≤ t ∧ t < a + M)) ∧ t ∉ (if fatal then T else []) := by
  have key := nodup_mid_iff nd t
  simp only [List.mem_append, mem_seqFrom] at key ⊢
  cases fatal with
  | true =>
    simp only [if_true, List.not_mem_nil, or_false]
    constructor
    · rintro (h | h)
      · have := key.mp (Or.inl h)
        refine ⟨Or.inl this, fun hT => ?_⟩
        have h1 := List.nodup_append.mp nd
        exact h1.2.2 t (List.mem_append.mpr (Or.inl h)) t hT rfl
      · refine ⟨Or.inr h, fun hT => ?_⟩
        have := old t (by simp only [List.mem_append]; exact Or.inr hT); omega
    · rintro ⟨h | h, nT⟩
      · rcases key.mpr h with k | k
        · exact Or.inl k
        · exact absurd k nT
      · exact Or.inr h
  | false =>
    simp only [Bool.false_eq_true, if_false, List.not_mem_nil, not_false_eq_true, and_true]
    constructor
    · rintro ((h | h) | h)
      · exact Or.inl (key.mp (Or.inl h))
      · exact Or.inr h
      · exact Or.inl (key.mp (Or.inr h))
    · rintro (h | h)
      · rcases key.mpr h with k | k
        · exact Or.inl (Or.inl k)
        · exact Or.inr k
      · exact Or.inl (Or.inr h)

theorem set_nodup {A g1 T : List Nat} {a M : Nat} (fatal : Bool) (nd : (A ++ g1 ++ T).Nodup) (old : ∀ t ∈ A ++ g1 ++ T, t < a) :
    (A ++ seqFrom a M ++ (if fatal then [] else T)).Nodup := by
  have h0 := nodup_mid nd
  have hA : ∀ t ∈ A, t < a := fun t h => old t (by simp only [List.mem_append]; exact Or.inl (Or.inl h))
  have hT : ∀ t ∈ T, t < a := fun t h => old t (by simp only [List.mem_append]; exact Or.inr h)
  have hAT := List.nodup_append.mp h0.1
  rw [List.append_assoc, List.nodup_append]
  refine ⟨hAT.1, ?_, ?_⟩
  · rw [List.nodup_append]
    refine ⟨seqFrom_nodup a M, by cases fatal <;> simp [hAT.2.1], ?_⟩
    intro x hx y hy e
    subst e
    have := mem_seqFrom.mp hx
    cases fatal with
    | true => simp at hy
    | false => simp only [Bool.false_eq_true, if_false] at hy; have := hT x hy; omega
  · intro x hx y hy e
    subst e
    rcases List.mem_append.mp hy with h | h
    · have := mem_seqFrom.mp h; have := hA x hx; omega
    · cases fatal with
      | true => simp at h
      | false => simp only [Bool.false_eq_true, if_false] at h; exact hAT.2.2 x hx x h rfl


theorem slotsFrom_three (d : List Byte) (sz a1 a2 a3 : Nat) :
    slotsFrom d sz 0 (a1 + a2 + a3) = slotsFrom d sz 0 a1 ++ slotsFrom d sz a1 a2 ++ slotsFrom d sz (a1 + a2) a3 := by
  rw [slotsFrom_add, slotsFrom_add]; simp

theorem slotsFrom_four (d : List Byte) (sz a1 a2 a3 a4 : Nat) :
    slotsFrom d sz 0 (a1 + a2 + a3 + a4) =
      slotsFrom d sz 0 a1 ++ slotsFrom d sz a1 a2 ++ slotsFrom d sz (a1 + a2) a3 ++ slotsFrom d sz (a1 + a2 + a3) a4 := by
  rw [slotsFrom_add, slotsFrom_three]; simp

theorem slotsFrom_start {d : List Byte} {sz i i' c : Nat} (h : c ≠ 0 → i = i') : slotsFrom d sz i c = slotsFrom d sz i' c := by
  by_cases z : c = 0
  · subst z; rfl
  · rw [h z]

/-- `mpt_buffer_set` on a live buffer of managed elements is a complete step; the copy sources must be live
    tokens outside the buffer -/
theorem bufferSet_step {amb : List Nat} {s : State} {b : Nat} {x : Buf} {t : Traits} (gs : GoodS amb s) (hb : s.buf? b = some x)
    (xt : x.traits = some t) (pos : Nat) (bytes : List Byte) (hasSrc : Bool) (S : List Nat)
    (hS : hasSrc = true → ∀ j, j < bytes.length / t.size → slot bytes t.size j ∈ S)
    (hSl : s.next ≤ tokLimit → ∀ k ∈ S, (k ∈ amb ∨ k ∈ stored s) ∧ k ∉ x.toks) :
    match bufferSet s b (some t) pos bytes hasSrc with
    | .fault _ => False
    | .fail s' _ => s' = s ∨ (Step amb s s' ∧ Frame s s' b)
    | .ok s' _ => Step amb s s' ∧ Frame s s' b := by
  obtain ⟨t', n, xt', mt, hu, hsz⟩ := (gs.inv.good b x hb).elems
  rw [xt] at xt'; cases xt'
  have h4 := mt.2.2
  have nsz : n * t.size ≤ x.data.length := by rw [← hu]; exact hsz
  rcases bufferSet_managed hb xt mt hu hsz pos bytes hasSrc S hS with ⟨e, he⟩ | ⟨p, k, m, fatal, s', x', v, ep, ek, qfit, he, sd⟩ |
    ⟨p, m, s', x', ep, lt, pfit, he, fr, hb', r, f, tr, dl, u', n', ⟨evs, lg, cr⟩, lo, inn⟩
  · rw [he]; exact Or.inl rfl
  · rw [he]
    refine ⟨?_, sd.frame⟩
    -- decomposition of the old tokens
    have xtoks : x.toks = slotsFrom x.data t.size 0 (min n p) ++ slotsFrom x.data t.size p (min n (p + k) - p)
        ++ slotsFrom x.data t.size (p + k) (n - (p + k)) := by
      rw [toks_of_used xt mt hu]
      have e : n = min n p + (min n (p + k) - p) + (n - (p + k)) := by omega
      conv => lhs; rw [e]
      rw [slotsFrom_three]
      congr 1
      · congr 1
        exact slotsFrom_start (by intro h; omega)
      · exact slotsFrom_start (by intro h; omega)
    have ugood : x'.used = (if fatal then p + m else max n (p + k)) * t.size := by
      rw [sd.used]; cases fatal <;> simp
    have ufit : (if fatal then p + m else max n (p + k)) * t.size ≤ x'.size := by
      simp only [Buf.size, sd.len]
      cases fatal with
      | true =>
        simp only [if_true]
        have := sd.fat rfl
        have : (p + m) * t.size ≤ (p + k) * t.size := Nat.mul_le_mul_right _ (by omega)
        simp only [Buf.size] at qfit; omega
      | false =>
        simp only [Bool.false_eq_true, if_false]
        rcases Nat.le_total n (p + k) with h | h
        · rw [Nat.max_eq_right h]; simpa [Buf.size] using qfit
        · rw [Nat.max_eq_left h]; exact nsz
    refine step_of_frame gs hb sd.frame sd.buf sd.ref (goodBuf_of (sd.traits.trans xt) mt ugood ufit)
      (by rw [sd.next]; omega) ?_
    intro small
    obtain ⟨tp, am⟩ := gs.tok (by rw [sd.next] at small; omega)
    have nd := tp.nodup b x hb
    have old := tp.fresh b x hb
    rw [xtoks] at nd old
    obtain ⟨cre, crc, lg⟩ := sd.log
    -- the new tokens of the buffer
    have x'toks : x'.toks = slotsFrom x.data t.size 0 (min n p) ++ seqFrom s.next ((p - n) + m)
        ++ (if fatal then [] else slotsFrom x.data t.size (p + k) (n - (p + k))) := by
      rw [toks_of_used (sd.traits.trans xt) mt ugood]
      have e : (if fatal then p + m else max n (p + k)) = min n p + (p - n) + m + (if fatal then 0 else n - (p + k)) := by
        cases fatal with
        | true => simp only [if_true]; omega
        | false =>
          simp only [Bool.false_eq_true, if_false]
          have := sd.nfat rfl
          omega
      rw [e, slotsFrom_four, seqFrom_add, ← List.append_assoc]
      congr 1
      · congr 1
        · congr 1
          · exact slotsFrom_congr (fun j _ h2 => sd.low j (by omega))
          · rw [slotsFrom_start (i' := n) (by intro h; omega)]
            exact slotsFrom_eq_seqFrom (fun j h1 h2 => sd.gap small j h1 (by omega))
        · rw [slotsFrom_start (i' := p) (by intro h; omega)]
          exact slotsFrom_eq_seqFrom (fun j h1 h2 => by rw [sd.new small j h1 h2])
      · cases fatal with
        | true => rfl
        | false =>
          simp only [Bool.false_eq_true, if_false]
          have mk := sd.nfat rfl
          rw [slotsFrom_start (i' := p + k) (by intro h; omega)]
          exact slotsFrom_congr (fun j h1 _ => sd.high rfl j h1)
    have ndp := List.nodup_append.mp nd
    have ndq := List.nodup_append.mp ndp.1
    -- the replaced elements are destroyed last (after the old tail, when the copy ended fatally)
    refine ⟨Delta.mk [] ((if fatal then slotsFrom x.data t.size (p + k) (n - (p + k)) else []) ++
        slotsFrom x.data t.size p (min n (p + k) - p)) cre ((p - n) + m) S sd.next ?_ crc
      List.nodup_nil (fun t ht => by cases ht) ?_ ?_ ?_ (by rw [x'toks]; exact set_nodup fatal nd old) ?_⟩
    · rw [lg]; cases fatal <;> simp
    · intro k hk
      have := hSl (by rw [sd.next] at small; omega) k hk
      exact ⟨this.1, by simp⟩
    · rw [List.nodup_append]
      refine ⟨by cases fatal <;> simp [ndp.2.1], ndq.2.1, fun a ha c hc e => ?_⟩
      subst e
      cases fatal with
      | true =>
        simp only [if_true] at ha
        exact ndp.2.2 a (List.mem_append.mpr (Or.inr hc)) a ha rfl
      | false => simp at ha
    · intro t ht
      left
      refine ⟨?_, by simp⟩
      rw [xtoks]
      simp only [List.mem_append] at ht ⊢
      rcases ht with h | h
      · cases fatal with
        | true => simp only [if_true] at h; exact Or.inr h
        | false => simp at h
      · exact Or.inl (Or.inr h)
    · intro t
      have sm := set_mem (M := (p - n) + m) fatal nd old t
      rw [x'toks, xtoks]
      rw [sm]
      simp only [List.mem_append, List.not_mem_nil, not_false_eq_true, and_true, not_or]
      constructor
      · rintro ⟨(⟨h1, h2⟩ | h), h3⟩
        · exact ⟨Or.inl h1, h3, h2⟩
        · refine ⟨Or.inr h, h3, fun hg => ?_⟩
          have := old t (by simp only [List.mem_append]; exact Or.inl (Or.inr hg))
          omega
      · rintro ⟨(h1 | h), h3, h2⟩
        · exact ⟨Or.inl ⟨h1, h2⟩, h3⟩
        · exact ⟨Or.inr h, h3⟩
  · rw [he]
    refine Or.inr ⟨?_, fr⟩
    have ufit : (n + m) * t.size ≤ x'.size := by
      simp only [Buf.size, dl]
      have : (n + m) * t.size ≤ p * t.size := Nat.mul_le_mul_right _ (by omega)
      simp only [Buf.size] at pfit; omega
    refine step_of_frame gs hb fr hb' r (goodBuf_of (tr.trans xt) mt u' ufit) (by rw [n']; omega) ?_
    intro small
    obtain ⟨tp, am⟩ := gs.tok (by rw [n'] at small; omega)
    have nd := tp.nodup b x hb
    have old := tp.fresh b x hb
    have x'toks : x'.toks = x.toks ++ seqFrom s.next m := by
      rw [toks_of_used (tr.trans xt) mt u', toks_of_used xt mt hu, slotsFrom_add]
      congr 1
      · exact slotsFrom_congr (fun j _ h2 => lo j (by omega))
      · simp only [Nat.zero_add]
        exact slotsFrom_eq_seqFrom (fun j h1 h2 => inn small j h1 h2)
    refine ⟨Delta.mk [] [] evs m S n' (by rw [lg]; simp) cr List.nodup_nil (fun t ht => by cases ht)
      (fun k hk => ⟨(hSl (by rw [n'] at small; omega) k hk).1, by simp⟩) List.nodup_nil (fun t ht => by cases ht) ?_ ?_⟩
    · rw [x'toks, List.nodup_append]
      refine ⟨nd, seqFrom_nodup _ _, fun a ha c hc e => ?_⟩
      subst e
      have := old a ha
      have := mem_seqFrom.mp hc
      omega
    · intro t
      rw [x'toks, List.mem_append, mem_seqFrom]
      simp


/-- two buffers change: `b` (kept or freed) and the buffer `nb` that did not exist before; every other buffer
    keeps its tokens (its reference count may change); `xt'` = what the two store afterwards.  With the
    structural invariant of the result given, this is a complete step. -/
theorem step_of_pair {amb : List Nat} {s s' : State} {b nb : Nat} {x : Buf} (gs : GoodS amb s) (hb : s.buf? b = some x)
    (hnb : s.buf? nb = none) (inv' : InvM s') (hsl : s'.hs.length = s.hs.length) (nx : s.next ≤ s'.next)
    (other : ∀ c, c ≠ b → c ≠ nb → bufToks (s'.buf? c) = bufToks (s.buf? c))
    (delta : s'.next ≤ tokLimit → Nonempty (Delta s s' amb x.toks (bufToks (s'.buf? b) ++ bufToks (s'.buf? nb)))) :
    Step amb s s' := by
  have bnb : b ≠ nb := by intro e; rw [e] at hb; rw [hb] at hnb; cases hnb
  refine ⟨inv', hsl, nx, ?_⟩
  intro small
  obtain ⟨tp, am⟩ := gs.tok (Nat.le_trans nx small)
  obtain ⟨d⟩ := delta small
  have xsub : ∀ t, t ∈ x.toks → t ∈ stored s := fun t ht => (mem_stored_split hb t).mpr (Or.inl ht)
  have ndp := List.nodup_append.mp d.nd
  have memb : ∀ (st : State) (c t : Nat), t ∈ bufToks (st.buf? c) ↔ ∃ y, st.buf? c = some y ∧ t ∈ y.toks := by
    intro st c t
    cases hx : st.buf? c with
    | none => simp [bufToks]
    | some y => simp [bufToks]
  have oth : ∀ t, others s b t ↔ ∃ c, c ≠ b ∧ c ≠ nb ∧ t ∈ bufToks (s'.buf? c) := by
    intro t
    constructor
    · rintro ⟨c, y, ne, hy, ht⟩
      have : c ≠ nb := by intro e; rw [e, hnb] at hy; cases hy
      exact ⟨c, ne, this, by rw [other c ne this, hy]; exact ht⟩
    · rintro ⟨c, ne, ne2, ht⟩
      rw [other c ne ne2] at ht
      obtain ⟨y, hy, hty⟩ := (memb s c t).mp ht
      exact ⟨c, y, ne, hy, hty⟩
  have mem' : ∀ t, t ∈ stored s' ↔ t ∈ bufToks (s'.buf? b) ++ bufToks (s'.buf? nb) ∨ others s b t := by
    intro t
    rw [mem_stored, oth, List.mem_append]
    constructor
    · rintro ⟨c, y, hy, ht⟩
      by_cases e1 : c = b
      · subst e1; rw [hy]; exact Or.inl (Or.inl ht)
      · by_cases e2 : c = nb
        · subst e2; rw [hy]; exact Or.inl (Or.inr ht)
        · exact Or.inr ⟨c, e1, e2, by rw [hy]; exact ht⟩
    · rintro ((h | h) | ⟨c, _, _, ht⟩)
      · obtain ⟨y, hy, hty⟩ := (memb s' b t).mp h; exact ⟨b, y, hy, hty⟩
      · obtain ⟨y, hy, hty⟩ := (memb s' nb t).mp h; exact ⟨nb, y, hy, hty⟩
      · obtain ⟨y, hy, hty⟩ := (memb s' c t).mp ht; exact ⟨c, y, hy, hty⟩
  have bound : ∀ t, t ∈ bufToks (s'.buf? b) ++ bufToks (s'.buf? nb) → t < s'.next ∧ ¬ others s b t := by
    intro t ht
    rcases ((d.mem t).mp ht).1 with h | h
    · refine ⟨by have := tp.fresh b x hb t h.1; omega, ?_⟩
      rintro ⟨c, y, ne, hy, hty⟩
      exact tp.disj b c x y (fun e => ne e.symm) hb hy t h.1 hty
    · refine ⟨by rw [d.next]; exact h.2, ?_⟩
      rintro ⟨c, y, ne, hy, hty⟩
      have := tp.fresh c y hy t hty; omega
  -- a buffer other than the two stores what the buffer with the same identity stored before
  have oldb : ∀ c y, c ≠ b → c ≠ nb → s'.buf? c = some y → ∀ t, t ∈ y.toks → ∃ y0, s.buf? c = some y0 ∧ t ∈ y0.toks ∧ y.toks = y0.toks := by
    intro c y e1 e2 hy t ht
    have e := other c e1 e2
    rw [hy] at e
    cases h0 : s.buf? c with
    | none => rw [h0] at e; simp only [bufToks] at e; rw [e] at ht; cases ht
    | some y0 => rw [h0] at e; simp only [bufToks] at e; exact ⟨y0, rfl, by rw [← e]; exact ht, e⟩
  have tp' : TokP s' := by
    refine ⟨?_, ?_, ?_⟩
    · intro c y hy
      by_cases e1 : c = b
      · subst e1; have := ndp.1; rw [hy] at this; exact this
      · by_cases e2 : c = nb
        · subst e2; have := ndp.2.1; rw [hy] at this; exact this
        · have e := other c e1 e2
          rw [hy] at e
          cases h0 : s.buf? c with
          | none => rw [h0] at e; simp only [bufToks] at e; rw [e]; exact List.nodup_nil
          | some y0 => rw [h0] at e; simp only [bufToks] at e; rw [e]; exact tp.nodup c y0 h0
    · intro c y hy t ht
      by_cases e1 : c = b
      · subst e1; exact (bound t (by rw [hy]; exact List.mem_append.mpr (Or.inl ht))).1
      · by_cases e2 : c = nb
        · subst e2; exact (bound t (by rw [hy]; exact List.mem_append.mpr (Or.inr ht))).1
        · obtain ⟨y0, h0, ht0, _⟩ := oldb c y e1 e2 hy t ht
          have := tp.fresh c y0 h0 t ht0; omega
    · intro c1 c2 y1 y2 ne h1 h2 t t1 t2
      have cls : ∀ c y, s'.buf? c = some y → t ∈ y.toks →
          (c = b ∧ t ∈ bufToks (s'.buf? b)) ∨ (c = nb ∧ t ∈ bufToks (s'.buf? nb)) ∨
          (c ≠ b ∧ c ≠ nb ∧ ∃ y0, s.buf? c = some y0 ∧ t ∈ y0.toks) := by
        intro c y hy ht
        by_cases e1 : c = b
        · subst e1; exact Or.inl ⟨rfl, by rw [hy]; exact ht⟩
        · by_cases e2 : c = nb
          · subst e2; exact Or.inr (Or.inl ⟨rfl, by rw [hy]; exact ht⟩)
          · obtain ⟨y0, h0, ht0, _⟩ := oldb c y e1 e2 hy t ht
            exact Or.inr (Or.inr ⟨e1, e2, y0, h0, ht0⟩)
      rcases cls c1 y1 h1 t1 with ⟨e1, m1⟩ | ⟨e1, m1⟩ | ⟨a1, a2, z1, o1, u1⟩ <;>
        rcases cls c2 y2 h2 t2 with ⟨e2, m2⟩ | ⟨e2, m2⟩ | ⟨b1, b2, z2, o2, u2⟩
      · exact ne (e1.trans e2.symm)
      · exact ndp.2.2 t m1 t m2 rfl
      · exact (bound t (List.mem_append.mpr (Or.inl m1))).2 ⟨c2, z2, b1, o2, u2⟩
      · exact ndp.2.2 t m2 t m1 rfl
      · exact ne (e1.trans e2.symm)
      · exact (bound t (List.mem_append.mpr (Or.inr m1))).2 ⟨c2, z2, b1, o2, u2⟩
      · exact (bound t (List.mem_append.mpr (Or.inl m2))).2 ⟨c1, z1, a1, o1, u1⟩
      · exact (bound t (List.mem_append.mpr (Or.inr m2))).2 ⟨c1, z1, a1, o1, u1⟩
      · exact tp.disj c1 c2 z1 z2 ne o1 o2 t u1 u2
  have am' : AmbOK amb s' := by
    refine ⟨am.1, fun t ht => ⟨by have := (am.2 t ht).1; omega, ?_⟩⟩
    intro hm
    rcases (mem' t).mp hm with h | h
    · rcases ((d.mem t).mp h).1 with h1 | h1
      · exact (am.2 t ht).2 (xsub t h1.1)
      · have := (am.2 t ht).1; omega
    · exact (am.2 t ht).2 ((mem_stored_split hb t).mpr (Or.inr h))
  refine ⟨tp', am', _, d.log, ?_⟩
  have nds := tp.nodup_stored
  have nds' := tp'.nodup_stored
  have ndl : (amb ++ stored s).Nodup := by
    rw [List.nodup_append]
    exact ⟨am.1, nds, fun a ha b hb e => by subst e; exact (am.2 a ha).2 hb⟩
  have ndl' : (amb ++ stored s').Nodup := by
    rw [List.nodup_append]
    exact ⟨am'.1, nds', fun a ha b hb e => by subst e; exact (am'.2 a ha).2 hb⟩
  apply run_delta ndl (a := s.next) (m := d.m) _ d.n1 _ d.creates _ d.n2 _ ndl'
  · intro t
    rw [List.mem_append, List.mem_append, mem', mem_stored_split hb t, d.mem t]
    constructor
    · rintro (h | ⟨h, hn2⟩ | h)
      · refine ⟨Or.inl ⟨Or.inl h, fun hg => (am.2 t h).2 (xsub t (d.s1 t hg))⟩, fun hg => ?_⟩
        rcases d.s2 t hg with k | k
        · exact (am.2 t h).2 (xsub t k.1)
        · have := (am.2 t h).1; omega
      · rcases h with k | k
        · exact ⟨Or.inl ⟨Or.inr (Or.inl k.1), k.2⟩, hn2⟩
        · exact ⟨Or.inr k, hn2⟩
      · have h0 := h
        obtain ⟨c, y, ne, hy, hty⟩ := h
        refine ⟨Or.inl ⟨Or.inr (Or.inr h0), fun hg => ?_⟩, fun hg => ?_⟩
        · exact tp.disj b c x y (fun e => ne e.symm) hb hy t (d.s1 t hg) hty
        · rcases d.s2 t hg with k | k
          · exact tp.disj b c x y (fun e => ne e.symm) hb hy t k.1 hty
          · have := tp.fresh c y hy t hty; omega
    · rintro ⟨h | h, hn2⟩
      · rcases h.1 with k | k | k
        · exact Or.inl k
        · exact Or.inr (Or.inl ⟨Or.inl ⟨k, h.2⟩, hn2⟩)
        · exact Or.inr (Or.inr k)
      · exact Or.inr (Or.inl ⟨Or.inr h, hn2⟩)
  · intro t ht
    rcases List.mem_append.mp ht with h | h
    · exact (am.2 t h).1
    · exact tp.fresh_stored t h
  · intro t ht; exact List.mem_append.mpr (Or.inr (xsub t (d.s1 t ht)))
  · intro k hk
    have := d.hS k hk
    exact ⟨List.mem_append.mpr this.1, this.2⟩
  · intro t ht
    rcases d.s2 t ht with k | k
    · exact Or.inl ⟨List.mem_append.mpr (Or.inr (xsub t k.1)), k.2⟩
    · exact Or.inr k

/-- no buffer changed what it stores (reference counts and handles may have changed) -/
theorem step_of_toks_same {amb : List Nat} {s s' : State} (gs : GoodS amb s) (inv' : InvM s') (hsl : s'.hs.length = s.hs.length)
    (toks : ∀ c, bufToks (s'.buf? c) = bufToks (s.buf? c)) (hlog : s'.log = s.log) (hn : s'.next = s.next) : Step amb s s' := by
  refine ⟨inv', hsl, by rw [hn]; exact Nat.le_refl _, ?_⟩
  intro small
  obtain ⟨tp, am⟩ := gs.tok (by rw [← hn]; exact small)
  have memb : ∀ (st : State) (c t : Nat), t ∈ bufToks (st.buf? c) ↔ ∃ y, st.buf? c = some y ∧ t ∈ y.toks := by
    intro st c t
    cases hx : st.buf? c with
    | none => simp [bufToks]
    | some y => simp [bufToks]
  have oldb : ∀ c y, s'.buf? c = some y → y.toks = [] ∨ ∃ y0, s.buf? c = some y0 ∧ y.toks = y0.toks := by
    intro c y hy
    have e := toks c
    rw [hy] at e
    cases h0 : s.buf? c with
    | none => rw [h0] at e; exact Or.inl e
    | some y0 => rw [h0] at e; exact Or.inr ⟨y0, rfl, e⟩
  have tp' : TokP s' := by
    refine ⟨?_, ?_, ?_⟩
    · intro c y hy
      rcases oldb c y hy with e | ⟨y0, h0, e⟩
      · rw [e]; exact List.nodup_nil
      · rw [e]; exact tp.nodup c y0 h0
    · intro c y hy t ht
      rcases oldb c y hy with e | ⟨y0, h0, e⟩
      · rw [e] at ht; cases ht
      · rw [e] at ht; rw [hn]; exact tp.fresh c y0 h0 t ht
    · intro c1 c2 y1 y2 ne h1 h2 t t1 t2
      rcases oldb c1 y1 h1 with e | ⟨z1, g1, e1⟩
      · rw [e] at t1; cases t1
      · rcases oldb c2 y2 h2 with e | ⟨z2, g2, e2⟩
        · rw [e] at t2; cases t2
        · rw [e1] at t1; rw [e2] at t2
          exact tp.disj c1 c2 z1 z2 ne g1 g2 t t1 t2
  have mem : ∀ t, t ∈ stored s' ↔ t ∈ stored s := by
    intro t; rw [mem_stored, mem_stored]
    constructor
    · rintro ⟨c, y, hy, ht⟩
      have : t ∈ bufToks (s'.buf? c) := (memb s' c t).mpr ⟨y, hy, ht⟩
      rw [toks c] at this
      obtain ⟨y0, h0, ht0⟩ := (memb s c t).mp this
      exact ⟨c, y0, h0, ht0⟩
    · rintro ⟨c, y, hy, ht⟩
      have : t ∈ bufToks (s.buf? c) := (memb s c t).mpr ⟨y, hy, ht⟩
      rw [← toks c] at this
      obtain ⟨y0, h0, ht0⟩ := (memb s' c t).mp this
      exact ⟨c, y0, h0, ht0⟩
  have am' : AmbOK amb s' := ⟨am.1, fun t ht => ⟨by rw [hn]; exact (am.2 t ht).1, fun h => (am.2 t ht).2 ((mem t).mp h)⟩⟩
  refine ⟨tp', am', [], by rw [hlog]; simp, ?_⟩
  refine (Run.nil _).perm_right (List.Perm.append_left amb ?_)
  exact perm_of_mem_iff tp.nodup_stored tp'.nodup_stored (fun t => (mem t).symm)

end Mpt.Heap
