/-
  mpt_queue_load / mpt_queue_save (queue_load.c, queue_save.c) against the byte-deque spec.
-/
import MptModel.Lemmas.Ring4
namespace Mpt
namespace Ring

theorem empty_eq (r : Ring) (hfull : r.len < r.store.length) :
    r.empty = some (if r.store.length - r.len ≤ r.off
      then (r.len - (r.store.length - r.off), r.store.length - r.len, 0)
      else (r.off + r.len, r.store.length - r.len - r.off, r.off)) := by
  unfold empty
  simp only [max]
  rw [if_neg (by omega)]
  split <;> rfl

/-- total number of bytes `mpt_queue_load` offers to `readv` -/
theorem loadParts_sum (low high len : Nat) :
    (loadParts low high len).1 + (loadParts low high len).2 =
      if len = 0 ∨ len ≥ low + high then low + high else len := by
  unfold loadParts
  repeat' split
  all_goals simp only []
  all_goals omega

theorem loadParts_le (low high len : Nat) :
    (loadParts low high len).1 ≤ low ∧ (loadParts low high len).2 ≤ high := by
  unfold loadParts
  repeat' split
  all_goals simp only []
  all_goals omega

/-- the first part is used up before the second one gets anything -/
theorem loadParts_first (low high len : Nat) :
    (loadParts low high len).2 ≠ 0 → (loadParts low high len).1 = low := by
  unfold loadParts
  repeat' split
  all_goals simp only []
  all_goals (intro _; first | trivial | omega)

/-- writing `a` at the free start and `b` at the storage start appends `a ++ b` to the content, provided
    `a` fits into the first free part and `b` is only used once that part is full -/
theorem append_parts (r : Ring) (h : r.WF) (hfull : r.len < r.store.length) (a b : List Byte)
    (st low high : Nat) (he : (st, low, high) = (if r.store.length - r.len ≤ r.off
      then (r.len - (r.store.length - r.off), r.store.length - r.len, 0)
      else (r.off + r.len, r.store.length - r.len - r.off, r.off)))
    (ha : a.length ≤ low) (hb : b.length ≤ high) (hab : b.length ≠ 0 → a.length = low) :
    ({ r with store := Mem.write (Mem.write r.store st a) 0 b, len := r.len + (a.length + b.length) } : Ring).content
      = r.content ++ (a ++ b) := by
  obtain ⟨h1, h2⟩ := h
  have hst : st + a.length ≤ r.store.length ∧ b.length ≤ r.store.length := by
    split at he <;> (simp only [Prod.mk.injEq] at he; omega)
  have hl1 : (Mem.write r.store st a).length = r.store.length := Mem.write_length _ _ _ hst.1
  have hl2 : (Mem.write (Mem.write r.store st a) 0 b).length = r.store.length := by
    rw [Mem.write_length _ _ _ (by omega), hl1]
  apply List.ext_getElem?; intro i
  rw [getElem?_content _ _ (by simp only [hl2]; split at he <;> (simp only [Prod.mk.injEq] at he; omega))
        (by simp only [hl2]; exact h2)]
  simp only [hl2]
  rw [List.getElem?_append, content_length _ h1 h2, getElem?_content _ _ h1 h2, List.getElem?_append]
  have hw2 : 0 + b.length ≤ (Mem.write r.store st a).length := by omega
  simp only [Mem.getElem?_write _ 0 b _ hw2, Mem.getElem?_write _ st a _ hst.1]
  simp only [Nat.zero_add, Nat.sub_zero, Nat.not_lt_zero, ↓reduceIte]
  by_cases hc : r.store.length - r.len ≤ r.off
  · simp only [hc, ↓reduceIte, Prod.mk.injEq] at he
    obtain ⟨e1, e2, e3⟩ := he
    have hb0 : b.length = 0 := by omega
    have : b = [] := List.eq_nil_of_length_eq_zero hb0
    subst this
    simp only [List.length_nil, Nat.add_zero, Nat.not_lt_zero, ↓reduceIte, List.getElem?_nil]
    subst e1
    ite_idx
  · simp only [hc, ↓reduceIte, Prod.mk.injEq] at he
    obtain ⟨e1, e2, e3⟩ := he
    subst e1
    by_cases hb0 : b.length = 0
    · have : b = [] := List.eq_nil_of_length_eq_zero hb0
      subst this
      simp only [List.length_nil, Nat.add_zero, Nat.not_lt_zero, ↓reduceIte, List.getElem?_nil]
      ite_idx
    · have hal := hab hb0
      have hg : b[i - r.len - a.length]? =
          if i - r.len - a.length < b.length then b[i - r.len - a.length]? else none := by
        split
        · rfl
        · exact List.getElem?_eq_none (by omega)
      rw [hg]
      ite_idx

theorem load_spec (r : Ring) (len : Nat) (bytes : List Byte) (h : r.WF) (hfull : r.len < r.store.length) :
    let cap := if len = 0 ∨ len ≥ r.store.length - r.len then r.store.length - r.len else len
    ∃ r', r.load len bytes = .ok (r', min bytes.length cap) ∧ r'.WF ∧
      r'.content = r.content ++ bytes.take (min bytes.length cap) := by
  intro cap
  have hwf := h
  obtain ⟨h1, h2⟩ := h
  unfold load
  rw [empty_eq r hfull]
  generalize hE : (if r.store.length - r.len ≤ r.off
      then (r.len - (r.store.length - r.off), r.store.length - r.len, 0)
      else (r.off + r.len, r.store.length - r.len - r.off, r.off)) = E
  obtain ⟨st, low, high⟩ := E
  simp only []
  have hlh : low + high = r.store.length - r.len := by
    split at hE <;> (simp only [Prod.mk.injEq] at hE; omega)
  have hsum := loadParts_sum low high len
  have hle := loadParts_le low high len
  have hfirst := loadParts_first low high len
  generalize hP : loadParts low high len = P at hsum hle hfirst
  obtain ⟨lo, hi⟩ := P
  simp only [] at hsum hle hfirst ⊢
  have hcap : lo + hi = cap := by rw [hsum, hlh]
  have hst : st + low ≤ r.store.length ∧ high ≤ r.store.length := by
    split at hE <;> (simp only [Prod.mk.injEq] at hE; omega)
  rw [hcap]
  have hK1 : min bytes.length cap ≤ bytes.length := Nat.min_le_left _ _
  have hK2 : min bytes.length cap ≤ lo + hi := by rw [hcap]; exact Nat.min_le_right _ _
  generalize min bytes.length cap = K at hK1 hK2 ⊢
  have hla : (bytes.take (min K lo)).length = min K lo := by
    rw [List.length_take]; omega
  have hlb : ((bytes.drop (min K lo)).take (K - min K lo)).length = K - min K lo := by
    rw [List.length_take, List.length_drop]; omega
  have hw1 : st + (bytes.take (min K lo)).length ≤ r.store.length := by rw [hla]; omega
  have hw2 : 0 + ((bytes.drop (min K lo)).take (K - min K lo)).length ≤
      (Mem.write r.store st (bytes.take (min K lo))).length := by
    rw [Mem.write_length _ _ _ hw1, hlb]; omega
  rw [Mem.wr_ok _ _ _ hw1]
  simp only []
  rw [Mem.wr_ok _ _ _ hw2]
  simp only []
  refine ⟨_, rfl, ?_, ?_⟩
  · unfold WF
    simp only []
    rw [Mem.write_length _ _ _ hw2, Mem.write_length _ _ _ hw1]
    omega
  · have hsplit : bytes.take K =
        bytes.take (min K lo) ++ (bytes.drop (min K lo)).take (K - min K lo) := by
      have : K = min K lo + (K - min K lo) := by omega
      conv => lhs; rw [this]
      rw [List.take_add]
    rw [hsplit]
    have := append_parts r hwf hfull (bytes.take (min K lo)) ((bytes.drop (min K lo)).take (K - min K lo))
      st low high hE.symm (by rw [hla]; omega) (by rw [hlb]; omega)
      (by rw [hla, hlb]; intro hne; have := hfirst (by omega); omega)
    rw [hla, hlb] at this
    rw [← this]
    congr 2
    omega

theorem save_spec (r : Ring) (h : r.WF) :
    ∃ r', r.save = .ok (r', r.content) ∧ r'.WF ∧ r'.content = [] := by
  have hwf := h
  obtain ⟨h1, h2⟩ := h
  unfold save
  by_cases h0 : r.len = 0
  · rw [if_pos h0]
    have hc : r.content = [] := by
      apply List.eq_nil_of_length_eq_zero; rw [content_length _ h1 h2]; exact h0
    exact ⟨r, by rw [hc], hwf, hc⟩
  · rw [if_neg h0]
    simp only []
    rw [Mem.rd_ok _ _ _ (by unfold low; simp only [max]; omega),
        Mem.rd_ok _ _ _ (by unfold low; simp only [max]; omega)]
    simp only []
    obtain ⟨r1, k, hc, hw1, _, _, hcont⟩ := crop_front r hwf r.len (Nat.le_refl _)
    rw [hc]
    simp only []
    refine ⟨r1, ?_, hw1, ?_⟩
    · congr 2
      apply List.ext_getElem?; intro i
      rw [List.getElem?_append, Mem.read_length _ _ _ (by unfold low; simp only [max]; omega),
          Mem.getElem?_read, Mem.getElem?_read, getElem?_content _ _ h1 h2]
      unfold low
      simp only [max, Nat.zero_add]
      ite_idx
    · rw [hcont]
      apply List.eq_nil_of_length_eq_zero
      rw [List.length_drop, content_length _ h1 h2]; omega

/-- `io::queue::read`: elements come off the end, last element first; what is left plus the elements in
    their original order is the old content -/
theorem xread_spec (r : Ring) (h : r.WF) (part k : Nat) :
    ∃ r' outs, r.xread part k = .ok (r', outs) ∧ r'.WF ∧ r'.store.length = r.store.length ∧
      r'.content ++ outs.reverse.flatten = r.content ∧ (∀ o ∈ outs, o.length = part) ∧
      outs.length ≤ k ∧ (k * part ≤ r.len → outs.length = k) ∧ (outs.length < k → r'.len < part) := by
  induction k generalizing r with
  | zero =>
    refine ⟨r, [], rfl, h, rfl, by simp, by simp, by simp, by simp, by simp⟩
  | succ k ih =>
    have h1 := h.1
    have h2 := h.2
    have hcl := content_length r h1 h2
    unfold xread
    by_cases hp : part ≤ r.len
    · have hq := (qpop_spec r h part true).1 hp
      have hq' : r.qpop part true = .ok ({ r with len := r.len - part }, r.content.drop (r.len - part)) := by
        rcases hq with hq | ⟨hf, _⟩
        · exact hq
        · exact absurd hf (by decide)
      rw [hq']
      simp only []
      have hw1 : ({ r with len := r.len - part } : Ring).WF := by unfold WF; simp only []; omega
      obtain ⟨r2, outs, he, hw2, hs2, hc2, hl2, hk2, hf2, hst2⟩ := ih { r with len := r.len - part } hw1
      rw [he]
      simp only []
      have hct := content_take r (r.len - part) (by omega)
      refine ⟨r2, _, rfl, hw2, hs2, ?_, ?_, ?_, ?_, ?_⟩
      · rw [List.reverse_cons, List.flatten_append, ← List.append_assoc, hc2, hct]
        simp
      · intro o ho
        rcases List.mem_cons.mp ho with rfl | ho
        · rw [List.length_drop, hcl]; omega
        · exact hl2 o ho
      · simp only [List.length_cons]; omega
      · intro hkp
        simp only [List.length_cons]
        rw [Nat.succ_mul] at hkp
        have := hf2 (by simp only []; omega)
        omega
      · intro hlt
        simp only [List.length_cons] at hlt
        exact hst2 (by omega)
    · have hq := (qpop_spec r h part true).2 (by omega)
      rw [hq]
      simp only []
      refine ⟨r, [], rfl, h, rfl, by simp, by simp, by simp, ?_, fun _ => by omega⟩
      intro hkp
      rw [Nat.succ_mul] at hkp
      omega

/-- `io::queue::peek`: the span is a prefix of the content that covers the request whenever the request can
    be met; the content is unchanged (the storage may have been re-aligned) -/
theorem xpeek_spec (r : Ring) (h : r.WF) (n : Nat) :
    ∃ r' out, r.xpeek n = .ok (r', out) ∧ r'.WF ∧ r'.content = r.content ∧
      ∃ m, out = r.content.take m ∧ m ≤ r.len ∧ ((if n = 0 then r.len else n) ≤ r.len → (if n = 0 then r.len else n) ≤ m) := by
  have h1 := h.1
  have h2 := h.2
  have hcl := content_length r h1 h2
  unfold xpeek
  simp only []
  generalize (if n = 0 then r.len else n) = n'
  by_cases hc1 : n' ≤ r.low
  · rw [if_pos hc1]
    have hlow : r.off + r.low ≤ r.store.length := by unfold low; simp only [max]; omega
    rw [Mem.rd_ok _ _ _ hlow]
    simp only []
    refine ⟨r, _, rfl, h, rfl, r.low, ?_, by unfold low; omega, fun _ => hc1⟩
    apply List.ext_getElem?; intro i
    rw [Mem.getElem?_read, List.getElem?_take, getElem?_content _ _ h1 h2]
    have : r.low ≤ r.len ∧ r.off + r.low ≤ r.store.length := ⟨by unfold low; omega, hlow⟩
    ite_idx
  · rw [if_neg hc1]
    by_cases hf : r.frag = true
    · simp only [hf, Bool.not_true, Bool.false_eq_true, ↓reduceIte]
      obtain ⟨r1, he, hw1, hl1, hs1, hc1', ho1⟩ := align_spec r h 0
      rw [he]
      simp only []
      have ho := ho1 rfl
      rw [Mem.rd_ok _ _ _ (by have := hw1.1; omega)]
      simp only []
      refine ⟨r1, _, rfl, hw1, hc1', r.len, ?_, Nat.le_refl _, fun hh => hh⟩
      rw [← hc1']
      apply List.ext_getElem?; intro i
      rw [Mem.getElem?_read, List.getElem?_take, getElem?_content _ _ hw1.1 hw1.2, ho, hl1]
      have := hw1.1
      ite_idx
    · have hnf : r.off + r.len ≤ r.store.length := by
        unfold frag at hf; simp only [max, decide_eq_true_eq] at hf; omega
      simp only [hf, Bool.not_false, ↓reduceIte]
      rw [Mem.rd_ok _ _ _ hnf]
      simp only []
      refine ⟨r, _, rfl, h, rfl, r.len, ?_, Nat.le_refl _, fun hh => hh⟩
      apply List.ext_getElem?; intro i
      rw [Mem.getElem?_read, List.getElem?_take, getElem?_content _ _ h1 h2]
      ite_idx

end Ring
end Mpt
