/-
  The tree `mpt_parse_node` builds from a text in one of the flat styles (options, then one level
  of sections that hold options): generic over the style, see `OptStyle` / `SectStyle`.
-/
import MptModel.Lemmas.ParseFlat
import MptModel.Lemmas.BraceTree

namespace Mpt.Parse
open Mpt.Conf Mpt.Render

theorem isLeaf_iff (t : Tree) : isLeaf t = true ↔ ∃ n v, t = .node n v [] := by
  cases t with
  | node n v cs =>
    simp only [isLeaf, List.isEmpty_iff]
    constructor
    · intro h; exact ⟨n, v, by rw [h]⟩
    · rintro ⟨n', v', h⟩; cases h; rfl

/-! ### option lists -/

section options
variable {k : Kind} {cfg : Cfg} (hst : OptStyle k cfg) (d : Decor) (hd : d.ok)
include hst hd

/-- a list of option lines below the node at depth `dep` (open sections `e`) -/
theorem options_claim : ∀ (os : Forest) (kk dep : Nat) (e : List (List UInt8)) (b : Build) (prev : Nat) (s : St)
    (src : Src) (J rest : List UInt8) (first : Bool),
    os.all isLeaf = true → nodesOk os = true → forestFits cfg.sect cfg.opt os = true →
    Ready e s src J (renderOptions d kk os ++ rest) →
    Mode first dep b prev → PrevOpt prev → HasSpine dep b.forest →
    ∃ (b' : Build) (prev' : Nat) (s' : St) (src' : Src) (J' : List UInt8),
      Ready e s' src' J' rest ∧ Mode (first && os.isEmpty) dep b' prev' ∧ prev' = (if os.isEmpty then prev else 11)
      ∧ b'.forest = appendAll dep b.forest (norm os) ∧ HasSpine dep b'.forest
      ∧ loop k cfg nodeAppend b prev s src = loop k cfg nodeAppend b' prev' s' src' := by
  intro os
  induction os with
  | nil =>
    intro kk dep e b prev s src J rest first _ _ _ hr hm hp hs
    exact ⟨b, prev, s, src, J, by simpa [renderOptions] using hr, by simpa using hm, rfl,
      by simp [norm, appendAll], hs, rfl⟩
  | cons t ts ih =>
    intro kk dep e b prev s src J rest first hleaf hok hfit hr hm hp hs
    simp only [List.all_cons, Bool.and_eq_true] at hleaf
    obtain ⟨n, v, ht⟩ := (isLeaf_iff t).mp hleaf.1
    subst ht
    have hfit' : nameFits cfg.opt n = true ∧ forestFits cfg.sect cfg.opt ts = true := by
      simp only [forestFits, treeFits, List.isEmpty_nil, ↓reduceIte, Bool.and_eq_true] at hfit
      exact ⟨hfit.1.1, hfit.2⟩
    have hok' : treeOk (.node n v []) = true ∧ nodesOk ts = true := by simpa [nodesOk] using hok
    have hnv : nameOk n = true ∧ OptValOk v := by
      have := hok'.1
      simp only [treeOk, List.isEmpty_nil, ↓reduceIte, Bool.and_eq_true] at this
      refine ⟨this.1, ?_⟩
      cases v with
      | none => trivial
      | some x => simpa [OptValOk] using this.2
    have hdk := hd kk
    obtain ⟨hpre, hpost, htr, hht⟩ := LineDecor.ok_parts _ hdk
    have hjunk := visSkip_lead J (d kk) hr.junk hdk
    have hsrc : src.rest = (J ++ (d kk).before ++ (d kk).indent) ++ n ++ (d kk).pre ++
        61 :: ((d kk).post ++ valueText v ++ (d kk).trail ++ 10 :: (renderOptions d (kk + 1) ts ++ rest)) := by
      rw [hr.src]
      cases v <;> simp [renderOptions, optionLine, valueText, List.append_assoc]
    obtain ⟨s1, src1, heq, ⟨l, kq, fi', ln', hs1, htake⟩, hrest⟩ :=
      hst.optLine e s src prev _ n (d kk).pre (d kk).post (d kk).trail _ v hr.clean hr.valid hp hjunk hnv.1
        (nameFits_ncheck _ _ hfit'.1) hpre hpost htr hnv.2 hsrc
    have hlen : n.length < 65535 := by
      have := hnv.1
      simp only [nameOk, Bool.and_eq_true, decide_eq_true_eq] at this
      exact this.2
    have hname : s1.name = valueOf v := by
      rw [hs1]; simp only [St.name, head_pth, htake]
    -- the element, whatever its code is
    have hstep : ∃ fi2, loop k cfg nodeAppend b prev s src =
        loop k cfg nodeAppend { forest := appendAt dep b.forest (normTree (.node n v [])), depth := dep + 1 } s1.curr
          { s1 with path := Pth e [] false fi2, curr := 0, valid := 0 } src1 := by
      by_cases hz : (valueOf v).isEmpty = true
      · simp only [hz, ↓reduceIte] at heq
        have hna := nodeAppend_new first dep b prev s1 3 e n none hm (Or.inr (Or.inl ⟨rfl, rfl⟩))
          (by rw [hs1]; rfl) hlen
        obtain ⟨fi2, hafter⟩ := afterSave_del e n l kq fi' 3 (Or.inr (Or.inl rfl))
        refine ⟨fi2, ?_⟩
        rw [loop_step k cfg b _ prev s s1 src src1 3 _ heq (by decide) hna (by rw [hs1]; exact hafter)]
        simp only [normTree_leaf, hz, ↓reduceIte]
      · simp only [hz, Bool.false_eq_true, ↓reduceIte] at heq
        have hna := nodeAppend_new first dep b prev s1 7 e n (some s1.name) hm (Or.inr (Or.inr ⟨rfl, rfl⟩))
          (by rw [hs1]; rfl) hlen
        obtain ⟨fi2, hafter⟩ := afterSave_del e n l kq fi' 7 (Or.inr (Or.inr rfl))
        refine ⟨fi2, ?_⟩
        rw [loop_step k cfg b _ prev s s1 src src1 7 _ heq (by decide) hna (by rw [hs1]; exact hafter)]
        simp only [normTree_leaf, hz, Bool.false_eq_true, ↓reduceIte, hname]
    obtain ⟨fi2, hstep⟩ := hstep
    have hcurr : s1.curr = 11 := by rw [hs1]; rfl
    have hm1 : Mode false dep { forest := appendAt dep b.forest (normTree (.node n v [])), depth := dep + 1 } s1.curr := by
      rw [hcurr]; simp [Mode, Flag.sectEnd]
    have hr1 : Ready e { s1 with path := Pth e [] false fi2, curr := 0, valid := 0 } src1 []
        (renderOptions d (kk + 1) ts ++ rest) := ⟨clean_pth e fi2, rfl, rfl, by simpa using hrest⟩
    obtain ⟨b2, prev2, s2, src2, J2, hr2, hm2, hp2, hf2, hs2, heq2⟩ :=
      ih (kk + 1) dep e _ s1.curr _ src1 [] rest false hleaf.2 hok'.2 hfit'.2 hr1 hm1 (by rw [hcurr]; exact Or.inr (Or.inr rfl))
        (hasSpine_appendAt dep _ _ hs)
    refine ⟨b2, prev2, s2, src2, J2, hr2, by simpa using hm2, ?_, ?_, hs2, hstep.trans heq2⟩
    · rw [hp2, hcurr]; simp
    · rw [hf2]; simp [norm, appendAll]

end options


/-! ### the enclosed format with different delimiters: an option list -/

/-- `parseNode` on a description whose format and type are known -/
theorem parseNode_eq (desc : Option (List UInt8)) (cfg : Cfg) (t : UInt8) (k : Kind) (input : List UInt8)
    (fs fo : Nat) (hdesc : parseFormat desc = (cfg.fmt, t)) (hk : Kind.ofType t = some k)
    (hcfg : cfg = { fmt := cfg.fmt, sect := fs, opt := fo, eof := -2 })
    (r : Result Build) (hr : parseConfig k cfg nodeAppend ({} : Build) Flag.section_ input = r) (hcode : r.code = 0) :
    (parseNode [] desc fs fo (-2) input).code = 0
    ∧ (parseNode [] desc fs fo (-2) input).children = r.ctx.forest := by
  unfold parseNode
  simp only [hdesc, hk]
  rw [← hcfg, hr]
  simp [hcode]

/-- the `{x}` format as a nested style: `{name` opens a section, `}` closes it -/
theorem nestStyle_E (fs fo : Nat) : NestStyle .enc (cfgE fs fo) encOpenLine where
  optLine := by
    intro e s src prev junk n pre post tr rest ov h1 h2 h4 h5 hnc h6 h7 h8 h9 h10
    simp only [next]
    exact enc_option_line (flatCfg_E (fs := fs) (fo := fo)) rfl rfl e s src prev junk n pre post tr rest ov h1 h2
      (Or.inr rfl) h4 h5 hnc h6 h7 h8 h9 h10
  openLine := by
    intro e s src prev J dl n rest hclean hv hJ hdl hn hnc hsrc
    obtain ⟨_, _, _, hht⟩ := LineDecor.ok_parts _ hdl
    have hjunk := visSkip_lead J dl hJ hdl
    have hsrc' : src.rest = (J ++ dl.before ++ dl.indent) ++ 123 :: (n ++ headTrail dl ++ 10 :: rest) := by
      rw [hsrc]; simp [encOpenLine, List.append_assoc]
    obtain ⟨ln, src1, hnv, hr1⟩ := nextvis_skip (flatCfg_E (fs := fs) (fo := fo)).hash _ 123 _ s src hjunk (by decide) hsrc'
    have hclean1 : Clean e ({ s with line := ln } : St).path := hclean
    obtain ⟨l, fi', ln', src2, J', hes, hJ', hr2⟩ := encSection_head (flatCfg_E (fs := fs) (fo := fo)) e { s with line := ln } src1 n
      (headTrail dl) rest hclean1 hv hn hnc hht hr1
    refine ⟨_, src2, J', ?_, ⟨l, fi', 0, ln', rfl⟩, hJ', hr2⟩
    simp only [next, parseFormatEnc]
    have hse : ((cfgE fs fo).fmt.sstart == (cfgE fs fo).fmt.send) = false := rfl
    have h1 : ((123 : UInt8) == (cfgE fs fo).fmt.send) = false := rfl
    have h2 : ((123 : UInt8) != (cfgE fs fo).fmt.sstart) = false := rfl
    simp only [hse, Bool.false_eq_true, ↓reduceIte, hnv, h1, Bool.and_false, h2, hes]
  closeLine := by
    intro e m s src prev junk rest hclean _ hj hsrc
    obtain ⟨ln, src1, hnv, hr1⟩ := nextvis_skip (flatCfg_E (fs := fs) (fo := fo)).hash junk 125 rest s src hj (by decide) hsrc
    obtain ⟨p', hafter, hclean'⟩ := del_clean e m s.path hclean
    have hem : s.path.elems.isEmpty = false := by rw [hclean.1]; simp
    refine ⟨{ s with line := ln, curr := Flag.sectEnd }, src1, p', ?_, rfl, hafter, hclean', hr1⟩
    simp only [next, parseFormatEnc]
    have hse : ((cfgE fs fo).fmt.sstart == (cfgE fs fo).fmt.send) = false := rfl
    simp [hse, hnv, hem, Flag.sectEnd]
  eof := by
    intro s src prev junk b hclean hj hsrc
    obtain ⟨ln, src1, hnv, _⟩ := nextvis_end (flatCfg_E (fs := fs) (fo := fo)).hash junk b s src hj hsrc
    refine ⟨{ s with line := ln, curr := Flag.name }, src1, ?_⟩
    simp only [next, parseFormatEnc]
    have hse : ((cfgE fs fo).fmt.sstart == (cfgE fs fo).fmt.send) = false := rfl
    have hem : s.path.elems.isEmpty = true := by rw [hclean.1]; rfl
    simp [hse, hnv, hem]

/-- the element loop on a whole text in the `{x}` format, from any clean parser state -/
theorem loop_enc (fs fo : Nat) (d : Decor) (hd : d.ok) (f : Forest) (hok : nodesOk f = true)
    (hfit : forestFits fs fo f = true)
    (s : St) (hclean : Clean [] s.path) (hv : s.valid = 0) (tail : List UInt8) (b : Bool)
    (htail : visSkip false tail = some b) :
    (loop .enc (cfgE fs fo) nodeAppend ({} : Build) Flag.section_ s { rest := renderNest encOpenLine d 0 f ++ tail }).code = 0
    ∧ (loop .enc (cfgE fs fo) nodeAppend ({} : Build) Flag.section_ s
        { rest := renderNest encOpenLine d 0 f ++ tail }).ctx.forest = norm f :=
  loop_nest (nestStyle_E fs fo) d hd f hok hfit s Flag.section_ (by decide) hclean hv tail b htail

theorem parseNode_enc (fs fo : Nat) (d : Decor) (hd : d.ok) (f : Forest) (hok : nodesOk f = true)
    (hfit : forestFits fs fo f = true)
    (tail : List UInt8) (b : Bool) (htail : visSkip false tail = some b) :
    (parseNode [] (Style.desc .enc) fs fo (-2) (renderNest encOpenLine d 0 f ++ tail)).code = 0
    ∧ (parseNode [] (Style.desc .enc) fs fo (-2) (renderNest encOpenLine d 0 f ++ tail)).children = norm f := by
  obtain ⟨hcode, hforest⟩ := loop_enc fs fo d hd f hok hfit ({} : St) clean_init rfl tail b htail
  have := parseNode_eq (Style.desc .enc) (cfgE fs fo) 120 .enc (renderNest encOpenLine d 0 f ++ tail) fs fo cfgE_desc
    (by decide) rfl _ rfl (by unfold parseConfig; exact hcode)
  refine ⟨this.1, ?_⟩
  rw [this.2]
  unfold parseConfig
  exact hforest

/-! ### sections -/

/-- `mpt_node_append` for a section end at depth 1, behind the section start or behind an option -/
theorem nodeAppend_end_any (first : Bool) (b : Build) (prev : Nat) (s1 : St) (hm : Mode first 1 b prev) :
    nodeAppend b s1 prev 2 = some { b with depth := 0 + 1 } := by
  cases first with
  | false => exact nodeAppend_end 0 b prev s1 hm
  | true =>
    rw [nodeAppend_end_first 1 b prev s1 hm]
    have : b.depth = 1 := by
      unfold Mode at hm
      simp only [↓reduceIte] at hm
      exact hm.2.2
    cases b
    simp only at this
    subst this
    rfl

section sections
variable {k : Kind} {cfg : Cfg} {open_ close : List UInt8} (hst : SectStyle k cfg open_ close) (d : Decor) (hd : d.ok)
include hst hd

/-- what `flatShape` says about a list of sections -/
def SectsOk (ts : Forest) : Prop := ts.all sectNode = true

/-- the sections behind an open one: each header ends the open section and starts the next; the text ends
    with insignificant characters `tail` -/
theorem sections_tail : ∀ (ts : Forest) (kk : Nat) (m : List UInt8) (b : Build) (prev : Nat) (first : Bool) (s : St)
    (src : Src) (J tail : List UInt8) (bb : Bool),
    SectsOk ts → nodesOk ts = true → forestFits cfg.sect cfg.opt ts = true → visSkip false tail = some bb →
    Ready [m] s src J (renderSects d open_ close kk ts ++ tail) →
    Mode first 1 b prev → (prev = 9 ∨ prev = 11) → HasSpine 1 b.forest →
    (loop k cfg nodeAppend b prev s src).code = 0
    ∧ (loop k cfg nodeAppend b prev s src).ctx.forest = b.forest ++ norm ts := by
  intro ts
  induction ts with
  | nil =>
    intro kk m b prev first s src J tail bb _ _ _ htail hr _ hprev _
    obtain ⟨s2, src2, heof⟩ := hst.eofOpen m s src prev (J ++ tail) bb hr.clean hprev
      (visSkip_append _ _ _ _ _ hr.junk htail) (by simpa [renderSects] using hr.src)
    obtain ⟨hcode, hctx⟩ := loop_stop k cfg b prev s s2 src src2 heof
    exact ⟨hcode, by rw [hctx]; simp [norm]⟩
  | cons t ts ih =>
    intro kk m b prev first s src J tail bb hsh hok hfit htail hr hm hprev hs
    cases t with
    | node n v cs =>
      unfold SectsOk at hsh
      simp only [List.all_cons, Bool.and_eq_true] at hsh
      obtain ⟨hsn, hrest⟩ := hsh
      simp only [sectNode, Bool.and_eq_true, Bool.or_eq_true, Bool.not_eq_eq_eq_not, Bool.not_true] at hsn
      obtain ⟨hcl', hval⟩ := hsn
      have hfit' : (nameFits cfg.sect n = true ∧ forestFits cfg.sect cfg.opt cs = true)
          ∧ forestFits cfg.sect cfg.opt ts = true := by
        simp only [forestFits, Bool.and_eq_true] at hfit
        refine ⟨?_, hfit.2⟩
        have h1 := hfit.1
        by_cases hce : cs.isEmpty = true
        · have hcs : cs = [] := by simpa using hce
          subst hcs
          simp only [treeFits, List.isEmpty_nil, ↓reduceIte, Bool.and_eq_true, Bool.or_eq_true,
            Bool.not_eq_eq_eq_not, Bool.not_true] at h1
          refine ⟨?_, rfl⟩
          rcases hval with h | h
          · cases h
          · rcases h1.2 with h' | h'
            · rw [h] at h'; cases h'
            · exact h'
        · simp only [treeFits, hce, Bool.false_eq_true, ↓reduceIte, Bool.and_eq_true] at h1
          exact h1
      have hok' : (nameOk n = true ∧ nodesOk cs = true) ∧ nodesOk ts = true := by
        simp only [nodesOk, treeOk, Bool.and_eq_true] at hok
        refine ⟨⟨hok.1.1, ?_⟩, hok.2⟩
        by_cases hce : cs.isEmpty = true
        · have : cs = [] := by simpa using hce
          subst this; rfl
        · have := hok.1.2
          simp only [hce, Bool.false_eq_true, ↓reduceIte, Bool.and_eq_true] at this
          exact this.2
      obtain ⟨⟨hn, hcok⟩, htok⟩ := hok'
      -- the node is read back without value
      have hnorm : normTree (.node n v cs) = .node n none (norm cs) := by
        by_cases hce : cs.isEmpty = true
        · have hvl : valueless v = true := by
            rcases hval with h | h
            · rw [hce] at h; cases h
            · exact h
          cases v with
          | none => simp [normTree]
          | some x =>
            have : x.isEmpty = true := by simpa [valueless] using hvl
            simp [normTree, this]
        · have := hok
          simp only [nodesOk, treeOk, hce, Bool.false_eq_true, ↓reduceIte, Bool.and_eq_true,
            Option.isNone_iff_eq_none] at this
          rw [this.1.2.1]; simp [normTree]
      have hlen : n.length < 65535 := by
        have := hn
        simp only [nameOk, Bool.and_eq_true, decide_eq_true_eq] at this
        exact this.2
      have hdk := hd kk
      obtain ⟨_, _, htr, hht⟩ := LineDecor.ok_parts _ hdk
      have hjunk := visSkip_lead J (d kk) hr.junk hdk
      -- the opening character ends the open section
      have hsrc : src.rest = (J ++ (d kk).before ++ (d kk).indent) ++ open_ ++
          (n ++ close ++ headTrail (d kk) ++ 10 :: (renderOptions d (kk + 1) cs ++
            (renderSects d open_ close (kk + 1 + cs.length) ts ++ tail))) := by
        rw [hr.src]
        simp [renderSects, List.append_assoc]
      obtain ⟨s1, src1, heq1, hp1, hc1, hr1⟩ := hst.headEnd m s src prev _ _ hr.clean hr.valid hprev hjunk hsrc
      have hna1 := nodeAppend_end_any first b prev s1 hm
      obtain ⟨p1, hafter1, hclean1⟩ := del_clean [] m s1.path (by rw [hp1]; exact hr.clean)
      have hstep1 := loop_step k cfg b _ prev s s1 src src1 2 p1 heq1 (by decide) hna1 hafter1
      rw [hc1] at hstep1
      -- the name of the next section
      obtain ⟨s2, src2, J2, heq2, ⟨l2, fi2, v2, ln2, hs2⟩, hJ2, hr2⟩ :=
        hst.headNext { s1 with path := p1, curr := 0, valid := 0 } src1 n (headTrail (d kk)) _ hclean1 rfl hn
          (nameFits_ncheck _ _ hfit'.1.1) hht hr1
      have hna2 := nodeAppend_new false 0 { b with depth := 0 + 1 } Flag.sectEnd s2 1 [] n none
        (by simp [Mode, Flag.sectEnd]) (Or.inl ⟨rfl, rfl⟩) (by rw [hs2]; rfl) hlen
      have hstep2 := loop_step k cfg _ _ Flag.sectEnd _ s2 src1 src2 1 _ heq2 (by decide) hna2
        (by rw [hs2]; exact afterSave_inv _ _ _ _)
      -- its options
      have hcurr2 : s2.curr = 9 := by rw [hs2]; rfl
      have hm3 : Mode true 1 { forest := appendAt 0 b.forest (.node n none []), depth := 0 + 1 } s2.curr := by
        rw [hcurr2]; simp [Mode, Flag.sectEnd]
      have hr3 : Ready ([] ++ [n]) { s2 with path := Pth ([] ++ [n]) [] false fi2, curr := 0, valid := 0 } src2 J2
          (renderOptions d (kk + 1) cs ++ (renderSects d open_ close (kk + 1 + cs.length) ts ++ tail)) :=
        ⟨clean_pth _ _, rfl, hJ2, hr2⟩
      obtain ⟨b4, prev4, s4, src4, J4, hr4, hm4, hp4, hf4, hs4, heq4⟩ :=
        options_claim hst.toOptStyle d hd cs (kk + 1) 1 ([] ++ [n]) _ s2.curr _ src2 J2 _ true hcl' hcok hfit'.1.2 hr3 hm3
          (by rw [hcurr2]; exact Or.inr (Or.inl rfl))
          (hasSpine_appendAt_succ 0 b.forest n none [] trivial)
      have hprev4 : prev4 = 9 ∨ prev4 = 11 := by
        rw [hp4, hcurr2]; split
        · exact Or.inl rfl
        · exact Or.inr rfl
      -- the remaining sections
      obtain ⟨hcode, hforest⟩ := ih (kk + 1 + cs.length) n b4 prev4 (true && cs.isEmpty) s4 src4 J4 tail bb hrest htok
        hfit'.2 htail (by simpa using hr4) hm4 hprev4 hs4
      have hall : loop k cfg nodeAppend b prev s src = loop k cfg nodeAppend b4 prev4 s4 src4 := by
        rw [hstep1, hstep2]
        simp only [hs2] at heq4 ⊢
        exact heq4
      rw [hall]
      refine ⟨hcode, ?_⟩
      rw [hforest, hf4, appendAll_child 0 b.forest n none (norm cs) trivial]
      simp [norm, hnorm, appendAt]

/-- a whole flat forest: options, then sections, then the end of the text (`tail`: insignificant characters) -/
theorem flat_claim : ∀ (f : Forest) (kk : Nat) (b : Build) (prev : Nat) (s : St) (src : Src) (J tail : List UInt8)
    (first bb : Bool),
    flatShape f = true → nodesOk f = true → forestFits cfg.sect cfg.opt f = true → visSkip false tail = some bb →
    Ready [] s src J (renderFlat d open_ close kk f ++ tail) →
    Mode first 0 b prev → (prev = 1 ∨ prev = 11) →
    (loop k cfg nodeAppend b prev s src).code = 0
    ∧ (loop k cfg nodeAppend b prev s src).ctx.forest = b.forest ++ norm f := by
  intro f
  induction f with
  | nil =>
    intro kk b prev s src J tail first bb _ _ _ htail hr _ hp
    have hpo : PrevOpt prev := by
      rcases hp with h | h
      · exact Or.inl h
      · exact Or.inr (Or.inr h)
    obtain ⟨s2, src2, heof⟩ := hst.eof s src prev (J ++ tail) bb hr.clean hpo (visSkip_append _ _ _ _ _ hr.junk htail)
      (by simpa [renderFlat] using hr.src)
    obtain ⟨hcode, hctx⟩ := loop_stop k cfg b prev s s2 src src2 heof
    exact ⟨hcode, by rw [hctx]; simp [norm]⟩
  | cons t ts ih =>
    intro kk b prev s src J tail first bb hsh hok hfit htail hr hm hp
    have hfit' : treeFits cfg.sect cfg.opt t = true ∧ forestFits cfg.sect cfg.opt ts = true := by
      simpa [forestFits] using hfit
    have hpo : PrevOpt prev := by
      rcases hp with h | h
      · exact Or.inl h
      · exact Or.inr (Or.inr h)
    cases t with
    | node n v cs =>
      by_cases hce : cs.isEmpty = true
      · -- an option line
        have hcs : cs = [] := by simpa using hce
        subst hcs
        have hsh' : flatShape ts = true := by simpa [flatShape] using hsh
        have hok' : treeOk (.node n v []) = true ∧ nodesOk ts = true := by simpa [nodesOk] using hok
        have hr1 : Ready [] s src J (renderOptions d kk [.node n v []] ++ (renderFlat d open_ close (kk + 1) ts ++ tail)) := by
          refine ⟨hr.clean, hr.valid, hr.junk, ?_⟩
          rw [hr.src]; simp [renderFlat, renderOptions, List.append_assoc]
        obtain ⟨b2, prev2, s2, src2, J2, hr2, hm2, hp2, hf2, _, heq2⟩ :=
          options_claim hst.toOptStyle d hd [.node n v []] kk 0 [] b prev s src J _ first (by simp [isLeaf])
            (by simp [nodesOk, hok'.1]) (by simp [forestFits, hfit'.1]) hr1 hm hpo trivial
        simp only [List.isEmpty_cons, Bool.and_false, Bool.false_eq_true, ↓reduceIte] at hm2 hp2
        subst hp2
        obtain ⟨hcode, hforest⟩ := ih (kk + 1) b2 11 s2 src2 J2 tail false bb hsh' hok'.2 hfit'.2 htail hr2 hm2 (Or.inr rfl)
        rw [heq2]
        refine ⟨hcode, ?_⟩
        rw [hforest, hf2]
        simp [norm, appendAll, appendAt]
      · -- the first section
        have hce' : cs.isEmpty = false := by simpa using hce
        simp only [flatShape, hce', Bool.false_eq_true, ↓reduceIte, Bool.and_eq_true] at hsh
        obtain ⟨hcl, hrest⟩ := hsh
        have hok' : (nameOk n = true ∧ v = none ∧ nodesOk cs = true) ∧ nodesOk ts = true := by
          simp only [nodesOk, treeOk, hce', Bool.false_eq_true, ↓reduceIte, Bool.and_eq_true,
            Option.isNone_iff_eq_none] at hok
          exact ⟨⟨hok.1.1, hok.1.2.1, hok.1.2.2⟩, hok.2⟩
        obtain ⟨⟨hn, hv, hcok⟩, htok⟩ := hok'
        subst hv
        have hfs : nameFits cfg.sect n = true ∧ forestFits cfg.sect cfg.opt cs = true := by
          have := hfit'.1
          simp only [treeFits, hce', Bool.false_eq_true, ↓reduceIte, Bool.and_eq_true] at this
          exact this
        have hlen : n.length < 65535 := by
          have := hn
          simp only [nameOk, Bool.and_eq_true, decide_eq_true_eq] at this
          exact this.2
        have hdk := hd kk
        obtain ⟨_, _, htr, hht⟩ := LineDecor.ok_parts _ hdk
        have hjunk := visSkip_lead J (d kk) hr.junk hdk
        have hsrc : src.rest = (J ++ (d kk).before ++ (d kk).indent) ++ open_ ++ n ++ close ++ headTrail (d kk) ++
            10 :: (renderOptions d (kk + 1) cs ++ (renderSects d open_ close (kk + 1 + cs.length) ts ++ tail)) := by
          rw [hr.src]
          simp [renderFlat, renderSects, hce', List.append_assoc]
        obtain ⟨s1, src1, J1, heq1, ⟨l1, fi1, v1, ln1, hs1⟩, hJ1, hr1⟩ :=
          hst.headFirst s src prev _ n (headTrail (d kk)) _ hr.clean hr.valid hp hjunk hn (nameFits_ncheck _ _ hfs.1) hht hsrc
        have hna1 := nodeAppend_new first 0 b prev s1 1 [] n none hm (Or.inl ⟨rfl, rfl⟩) (by rw [hs1]; rfl) hlen
        have hstep1 := loop_step k cfg b _ prev s s1 src src1 1 _ heq1 (by decide) hna1
          (by rw [hs1]; exact afterSave_inv _ _ _ _)
        have hcurr1 : s1.curr = 9 := by rw [hs1]; rfl
        have hm2 : Mode true 1 { forest := appendAt 0 b.forest (.node n none []), depth := 0 + 1 } s1.curr := by
          rw [hcurr1]; simp [Mode, Flag.sectEnd]
        have hr2 : Ready ([] ++ [n]) { s1 with path := Pth ([] ++ [n]) [] false fi1, curr := 0, valid := 0 } src1 J1
            (renderOptions d (kk + 1) cs ++ (renderSects d open_ close (kk + 1 + cs.length) ts ++ tail)) :=
          ⟨clean_pth _ _, rfl, hJ1, hr1⟩
        obtain ⟨b3, prev3, s3, src3, J3, hr3, hm3, hp3, hf3, hs3, heq3⟩ :=
          options_claim hst.toOptStyle d hd cs (kk + 1) 1 ([] ++ [n]) _ s1.curr _ src1 J1 _ true hcl hcok hfs.2 hr2 hm2
            (by rw [hcurr1]; exact Or.inr (Or.inl rfl))
            (hasSpine_appendAt_succ 0 b.forest n none [] trivial)
        simp only [hce', Bool.and_false, Bool.false_eq_true, ↓reduceIte] at hm3 hp3
        subst hp3
        obtain ⟨hcode, hforest⟩ := sections_tail hst d hd ts (kk + 1 + cs.length) n b3 11 false s3 src3 J3 tail bb hrest
          htok hfit'.2 htail (by simpa using hr3) hm3 (Or.inr rfl) hs3
        have hall : loop k cfg nodeAppend b prev s src = loop k cfg nodeAppend b3 11 s3 src3 := by
          rw [hstep1]
          simp only [hs1] at heq3 ⊢
          exact heq3
        rw [hall]
        refine ⟨hcode, ?_⟩
        rw [hforest, hf3, appendAll_child 0 b.forest n none (norm cs) trivial]
        simp [norm, normTree, appendAt]

end sections

/-- **flat styles are read back** (`[name]` and `|name`) -/
theorem parseNode_flat {k : Kind} {cfg : Cfg} {open_ close : List UInt8} (hst : SectStyle k cfg open_ close)
    (desc : Option (List UInt8)) (t : UInt8) (fs fo : Nat) (hdesc : parseFormat desc = (cfg.fmt, t))
    (hk : Kind.ofType t = some k)
    (hcfg : cfg = { fmt := cfg.fmt, sect := fs, opt := fo, eof := -2 })
    (d : Decor) (hd : d.ok) (f : Forest) (hsh : flatShape f = true) (hok : nodesOk f = true)
    (hfit : forestFits cfg.sect cfg.opt f = true)
    (tail : List UInt8) (bb : Bool) (htail : visSkip false tail = some bb) :
    (parseNode [] desc fs fo (-2) (renderFlat d open_ close 0 f ++ tail)).code = 0
    ∧ (parseNode [] desc fs fo (-2) (renderFlat d open_ close 0 f ++ tail)).children = norm f := by
  obtain ⟨hcode, hforest⟩ := flat_claim hst d hd f 0 ({} : Build) Flag.section_ ({} : St)
    { rest := renderFlat d open_ close 0 f ++ tail } [] tail true bb hsh hok hfit htail ⟨clean_init, rfl, rfl, by simp⟩
    (by simp [Mode, Flag.section_, Flag.sectEnd]) (Or.inl rfl)
  have := parseNode_eq desc cfg t k (renderFlat d open_ close 0 f ++ tail) fs fo hdesc hk hcfg _ rfl
    (by unfold parseConfig; exact hcode)
  refine ⟨this.1, ?_⟩
  rw [this.2]
  unfold parseConfig
  rw [hforest]
  rfl

end Mpt.Parse
