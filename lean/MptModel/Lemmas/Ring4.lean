/-
  Helper lemmas for C13, part 4: mpt_queue_find (core Lean only).
-/
import MptModel.Lemmas.Ring3
namespace Mpt
namespace Ring

/-- element `k` (of size `esz`) of a byte list -/
def elemAt (l : List Byte) (esz k : Nat) : List Byte := (l.drop (k * esz)).take esz

theorem findLoop_spec (store needle : List Byte) (esz : Nat) (iter addr : Nat)
    (hb : addr + iter * esz ≤ store.length) :
    (∃ k, k < iter ∧ findLoop store needle esz iter addr = .ok (some (addr + k * esz)) ∧
        Mem.read store (addr + k * esz) esz = needle ∧
        ∀ j, j < k → Mem.read store (addr + j * esz) esz ≠ needle) ∨
    (findLoop store needle esz iter addr = .ok none ∧
        ∀ j, j < iter → Mem.read store (addr + j * esz) esz ≠ needle) := by
  induction iter generalizing addr with
  | zero => right; exact ⟨rfl, fun j hj => by omega⟩
  | succ n ih =>
    have hm : (n + 1) * esz = n * esz + esz := Nat.succ_mul n esz
    unfold findLoop
    rw [Mem.rd_ok _ _ _ (by omega)]
    simp only []
    by_cases he : Mem.read store addr esz = needle
    · left
      refine ⟨0, by omega, ?_, ?_, fun j hj => by omega⟩
      · rw [if_pos he]; simp
      · simpa using he
    · rw [if_neg he]
      rcases ih (addr + esz) (by omega) with ⟨k, hk, hf, hr, hn⟩ | ⟨hf, hn⟩
      · left
        have e1 : addr + esz + k * esz = addr + (k + 1) * esz := by rw [Nat.succ_mul]; omega
        refine ⟨k + 1, by omega, by rw [hf, e1], by rw [← e1]; exact hr, ?_⟩
        intro j hj
        cases j with
        | zero => simpa using he
        | succ j =>
          have := hn j (by omega)
          rw [show addr + esz + j * esz = addr + (j + 1) * esz by rw [Nat.succ_mul]; omega] at this
          exact this
      · right
        refine ⟨hf, ?_⟩
        intro j hj
        cases j with
        | zero => simpa using he
        | succ j =>
          have := hn j (by omega)
          rw [show addr + esz + j * esz = addr + (j + 1) * esz by rw [Nat.succ_mul]; omega] at this
          exact this

/-- a stretch of the content that lies in the first (upper) storage part -/
theorem slice_upper (r : Ring) (h : r.WF) (p n : Nat) (h1 : r.off + p + n ≤ r.store.length) (h2 : p + n ≤ r.len) :
    (r.content.drop p).take n = Mem.read r.store (r.off + p) n := by
  apply List.ext_getElem?; intro i
  rw [List.getElem?_take, List.getElem?_drop, getElem?_content _ _ h.1 h.2, Mem.getElem?_read]
  ite_idx

/-- a stretch of the content that lies in the second (wrapped) storage part -/
theorem slice_lower (r : Ring) (h : r.WF) (p n : Nat) (h1 : r.store.length ≤ r.off + p) (h2 : p + n ≤ r.len) :
    (r.content.drop p).take n = Mem.read r.store (r.off + p - r.store.length) n := by
  have := h.1; have := h.2
  apply List.ext_getElem?; intro i
  rw [List.getElem?_take, List.getElem?_drop, getElem?_content _ _ h.1 h.2, Mem.getElem?_read]
  ite_idx

end Ring
end Mpt

namespace Mpt
namespace Ring

theorem lt_div_of_succ_mul_le (esz n k : Nat) (hpos : 0 < esz) (h : (k + 1) * esz ≤ n) : k < n / esz := by
  have := (Nat.le_div_iff_mul_le hpos).mpr h
  omega

theorem succ_mul_le_of_lt_div (esz n k : Nat) (hpos : 0 < esz) (h : k < n / esz) : (k + 1) * esz ≤ n :=
  (Nat.le_div_iff_mul_le hpos).mp (by omega)

/-- result of the search on a contiguous stretch `[addr, addr + total)` holding the content from
    logical position `base` on: first match or none -/
theorem find_spec (r : Ring) (h : r.WF) (needle : List Byte) (hn : needle ≠ []) :
    match r.find needle with
    | .ok (some a) => ∃ k, (k + 1) * needle.length ≤ r.len ∧ a = physIdx r.store.length r.off (k * needle.length) ∧
        elemAt r.content needle.length k = needle ∧ ∀ j, j < k → elemAt r.content needle.length j ≠ needle
    | .ok none => ∀ k, (k + 1) * needle.length ≤ r.len → elemAt r.content needle.length k ≠ needle
    | .null => r.len < needle.length ∨ (r.frag = true ∧ (r.store.length - r.off) % needle.length ≠ 0)
    | _ => False := by
  have h1 := h.1
  have h2 := h.2
  have hpos : 0 < needle.length := List.length_pos_iff.mpr hn
  generalize hes : needle.length = esz at *
  unfold find
  simp only [hes, max]
  rw [if_neg (by omega)]
  by_cases hlt : r.len < esz
  · rw [if_pos hlt]
    simp only []
    left; exact hlt
  · rw [if_neg hlt]
    unfold frag
    simp only [max]
    by_cases hf : r.store.length - r.len < r.off
    · -- wrapped content
      simp only [hf, decide_true, Bool.not_true, Bool.false_eq_true, ↓reduceIte]
      have hd1 : (r.store.length - r.off) / esz * esz ≤ r.store.length - r.off := Nat.div_mul_le_self _ _
      rcases findLoop_spec r.store needle esz ((r.store.length - r.off) / esz) r.off (by omega) with
        ⟨k, hk, hfl, hr, hno⟩ | ⟨hfl, hno⟩
      · rw [hfl]
        simp only []
        have hk1 := succ_mul_le_of_lt_div esz _ k hpos hk
        have hm : (k + 1) * esz = k * esz + esz := Nat.succ_mul k esz
        refine ⟨k, by omega, ?_, ?_, ?_⟩
        · unfold physIdx; rw [if_pos (by omega)]
        · unfold elemAt; rw [slice_upper r h _ _ (by omega) (by omega)]; exact hr
        · intro j hj
          have hmj : (j + 1) * esz = j * esz + esz := Nat.succ_mul j esz
          have : (j + 1) * esz ≤ (k + 1) * esz := Nat.mul_le_mul_right esz (by omega)
          unfold elemAt; rw [slice_upper r h _ _ (by omega) (by omega)]; exact hno j hj
      · rw [hfl]
        simp only []
        by_cases hmod : (r.store.length - r.off) % esz ≠ 0
        · rw [if_pos hmod]
          simp only []
          right; exact ⟨by simp, hmod⟩
        · rw [if_neg hmod]
          have hq : (r.store.length - r.off) / esz * esz = r.store.length - r.off := by
            have := Nat.div_add_mod (r.store.length - r.off) esz
            rw [Nat.mul_comm] at this; omega
          have hd2 : (r.len - (r.store.length - r.off)) / esz * esz ≤ r.len - (r.store.length - r.off) :=
            Nat.div_mul_le_self _ _
          -- every element index splits at q
          have split : ∀ k, (k + 1) * esz ≤ r.len → ¬ k < (r.store.length - r.off) / esz →
              ∃ k2, k = (r.store.length - r.off) / esz + k2 ∧ k * esz = (r.store.length - r.off) + k2 * esz ∧
                (k2 + 1) * esz ≤ r.len - (r.store.length - r.off) := by
            intro k hk hnk
            refine ⟨k - (r.store.length - r.off) / esz, by omega, ?_, ?_⟩
            · have : k = (r.store.length - r.off) / esz + (k - (r.store.length - r.off) / esz) := by omega
              conv => lhs; rw [this, Nat.add_mul, hq]
            · have e : k = (r.store.length - r.off) / esz + (k - (r.store.length - r.off) / esz) := by omega
              have : (k + 1) * esz = (r.store.length - r.off) + (k - (r.store.length - r.off) / esz + 1) * esz := by
                conv => lhs; rw [e]
                rw [Nat.add_assoc, Nat.add_mul, hq]
              omega
          have lower : ∀ k2, (k2 + 1) * esz ≤ r.len - (r.store.length - r.off) →
              elemAt r.content esz ((r.store.length - r.off) / esz + k2) = Mem.read r.store (0 + k2 * esz) esz := by
            intro k2 hk2
            have hm : (k2 + 1) * esz = k2 * esz + esz := Nat.succ_mul k2 esz
            unfold elemAt
            rw [Nat.add_mul, hq, slice_lower r h _ _ (by omega) (by omega)]
            congr 1; omega
          rcases findLoop_spec r.store needle esz ((r.len - (r.store.length - r.off)) / esz) 0 (by omega) with
            ⟨k2, hk2, hfl2, hr2, hno2⟩ | ⟨hfl2, hno2⟩
          · rw [hfl2]
            simp only []
            have hk21 := succ_mul_le_of_lt_div esz _ k2 hpos hk2
            have hm : (k2 + 1) * esz = k2 * esz + esz := Nat.succ_mul k2 esz
            have hidx : ((r.store.length - r.off) / esz + k2) * esz = (r.store.length - r.off) + k2 * esz := by
              rw [Nat.add_mul, hq]
            refine ⟨(r.store.length - r.off) / esz + k2, ?_, ?_, ?_, ?_⟩
            · rw [Nat.add_assoc, Nat.add_mul, hq]; omega
            · unfold physIdx; rw [hidx, if_neg (by omega)]; omega
            · rw [lower k2 hk21]; exact hr2
            · intro j hj
              by_cases hjq : j < (r.store.length - r.off) / esz
              · have hj1 := succ_mul_le_of_lt_div esz _ j hpos hjq
                have hmj : (j + 1) * esz = j * esz + esz := Nat.succ_mul j esz
                unfold elemAt; rw [slice_upper r h _ _ (by omega) (by omega)]; exact hno j hjq
              · have hjle : (j + 1) * esz ≤ r.len := by
                  have : (j + 1) * esz ≤ ((r.store.length - r.off) / esz + k2 + 1) * esz :=
                    Nat.mul_le_mul_right esz (by omega)
                  have e : ((r.store.length - r.off) / esz + k2 + 1) * esz
                      = (r.store.length - r.off) + (k2 + 1) * esz := by
                    rw [Nat.add_assoc, Nat.add_mul, hq]
                  rw [e] at this; omega
                obtain ⟨j2, hj2, _, hj2le⟩ := split j hjle hjq
                rw [hj2, lower j2 hj2le]
                exact hno2 j2 (by omega)
          · rw [hfl2]
            simp only []
            intro k hk
            by_cases hkq : k < (r.store.length - r.off) / esz
            · have hk1 := succ_mul_le_of_lt_div esz _ k hpos hkq
              have hmk : (k + 1) * esz = k * esz + esz := Nat.succ_mul k esz
              unfold elemAt; rw [slice_upper r h _ _ (by omega) (by omega)]; exact hno k hkq
            · obtain ⟨k2, hk2, _, hk2le⟩ := split k hk hkq
              rw [hk2, lower k2 hk2le]
              exact hno2 k2 (lt_div_of_succ_mul_le esz _ k2 hpos hk2le)
    · -- contiguous content
      simp only [hf, decide_false, Bool.not_false, ↓reduceIte]
      have hd : r.len / esz * esz ≤ r.len := Nat.div_mul_le_self _ _
      rcases findLoop_spec r.store needle esz (r.len / esz) r.off (by omega) with
        ⟨k, hk, hfl, hr, hno⟩ | ⟨hfl, hno⟩
      · rw [hfl]
        simp only []
        have hk1 := succ_mul_le_of_lt_div esz _ k hpos hk
        have hm : (k + 1) * esz = k * esz + esz := Nat.succ_mul k esz
        refine ⟨k, hk1, ?_, ?_, ?_⟩
        · unfold physIdx
          by_cases hc : r.off + k * esz < r.store.length
          · rw [if_pos hc]
          · omega
        · unfold elemAt; rw [slice_upper r h _ _ (by omega) (by omega)]; exact hr
        · intro j hj
          have hmj : (j + 1) * esz = j * esz + esz := Nat.succ_mul j esz
          have : (j + 1) * esz ≤ (k + 1) * esz := Nat.mul_le_mul_right esz (by omega)
          unfold elemAt; rw [slice_upper r h _ _ (by omega) (by omega)]; exact hno j hj
      · rw [hfl]
        simp only []
        intro k hk
        have hmk : (k + 1) * esz = k * esz + esz := Nat.succ_mul k esz
        unfold elemAt; rw [slice_upper r h _ _ (by omega) (by omega)]
        exact hno k (lt_div_of_succ_mul_le esz _ k hpos hk)

end Ring
end Mpt

namespace Mpt
namespace Ring

/-- `io::queue::pop`: `true` means the last `n` bytes were removed (and returned when a target was given),
    `false` means nothing changed -/
theorem xpop_spec (r : Ring) (h : r.WF) (n : Nat) (dst : Bool) :
    ∃ r' b out, r.xpop n dst = .ok (r', b, out) ∧ r'.WF ∧
      (b = false → r'.content = r.content ∧ r'.store.length = r.store.length) ∧
      (b = true → n ≤ r.len ∧ r'.content = r.content.take (r.len - n) ∧ r'.store.length = r.store.length ∧
        (dst = true → out = r.content.drop (r.len - n))) ∧
      (n ≤ r.len → 0 < n → r.store.length ≠ 0 → b = true) := by
  have h1 := h.1
  have h2 := h.2
  have hcl := content_length r h1 h2
  unfold xpop
  cases dst with
  | true =>
    simp only [↓reduceIte]
    obtain ⟨hok, hno⟩ := qpop_spec r h n true
    by_cases hc : n ≤ r.len
    · rcases hok hc with he | ⟨hf, _⟩
      · rw [he]
        simp only [max]
        refine ⟨_, _, _, rfl, ⟨by simp only []; omega, h2⟩, ?_, ?_, ?_⟩
        · intro hb
          have : r.store.length = 0 := by simpa using hb
          have : r.len = 0 := by omega
          have : n = 0 := by omega
          subst this
          refine ⟨?_, rfl⟩
          rw [content_take r (r.len - 0) (by omega)]
          apply List.take_of_length_le; omega
        · intro _
          exact ⟨hc, content_take r (r.len - n) (by omega), rfl, fun _ => rfl⟩
        · intro _ _ hm; simpa using hm
      · cases hf
    · rw [hno (by omega)]
      exact ⟨r, false, [], rfl, h, fun _ => ⟨rfl, rfl⟩, fun hb => Bool.noConfusion hb, fun hle => by omega⟩
  | false =>
    simp only [Bool.false_eq_true, ↓reduceIte]
    by_cases hc : r.len < n
    · rw [if_pos hc]
      exact ⟨r, false, [], rfl, h, fun _ => ⟨rfl, rfl⟩, fun hb => Bool.noConfusion hb, fun hle => by omega⟩
    · rw [if_neg hc]
      by_cases hp : r.len - n = 0
      · rw [hp]
        obtain ⟨r', c, he, hw, hs, hl, hcn⟩ := crop_front r h n (by omega)
        rw [he]
        refine ⟨r', true, [], rfl, hw, fun hb => Bool.noConfusion hb, fun _ => ⟨by omega, ?_, by rw [hs], fun hd => absurd hd (by simp)⟩, fun _ _ _ => rfl⟩
        rw [hcn, List.take_zero]
        apply List.drop_of_length_le; omega
      · obtain ⟨r', c, he, hw, hs, ho, hl, hcn⟩ := crop_mid r h (r.len - n) n hp (by omega)
        rw [he]
        refine ⟨r', true, [], rfl, hw, fun hb => Bool.noConfusion hb, fun _ => ⟨by omega, ?_, hs, fun hd => absurd hd (by simp)⟩, fun _ _ _ => rfl⟩
        rw [hcn, show r.len - n + n = r.len by omega, List.drop_of_length_le (by omega), List.append_nil]

/-- `io::queue::shift` -/
theorem xshift_spec (r : Ring) (h : r.WF) (n : Nat) (dst : Bool) :
    ∃ r' b out, r.xshift n dst = .ok (r', b, out) ∧ r'.WF ∧
      (b = false → r'.content = r.content ∧ r'.store.length = r.store.length) ∧
      (b = true → n ≤ r.len ∧ r'.content = r.content.drop n ∧ r'.store.length = r.store.length ∧
        (dst = true → out = r.content.take n)) ∧
      (n ≤ r.len → 0 < n → r.store.length ≠ 0 → b = true) := by
  have h1 := h.1
  have h2 := h.2
  have hcl := content_length r h1 h2
  unfold xshift
  cases dst with
  | true =>
    simp only [↓reduceIte]
    obtain ⟨hok, hno⟩ := qshift_spec r h n true
    by_cases hc : n ≤ r.len
    · rcases hok hc with ⟨r', he, hw, hs, hl, hcn⟩ | ⟨hf, _⟩
      · rw [he]
        simp only [max]
        refine ⟨_, _, _, rfl, hw, ?_, ?_, ?_⟩
        · intro hb
          have hz : r.store.length = 0 := by simpa using hb
          have : r.len = 0 := by omega
          have : n = 0 := by omega
          subst this
          exact ⟨by rw [hcn, List.drop_zero], by rw [hs]⟩
        · intro _
          exact ⟨hc, hcn, by rw [hs], fun _ => rfl⟩
        · intro _ _ hm; simpa using hm
      · cases hf
    · rw [hno (by omega)]
      exact ⟨r, false, [], rfl, h, fun _ => ⟨rfl, rfl⟩, fun hb => Bool.noConfusion hb, fun hle => by omega⟩
  | false =>
    simp only [Bool.false_eq_true, ↓reduceIte]
    by_cases hc : n ≤ r.len
    · obtain ⟨r', c, he, hw, hs, hl, hcn⟩ := crop_front r h n hc
      rw [he]
      exact ⟨r', true, [], rfl, hw, fun hb => Bool.noConfusion hb,
        fun _ => ⟨hc, hcn, by rw [hs], fun hd => absurd hd (by simp)⟩, fun _ _ _ => rfl⟩
    · rw [crop_refused r h 0 n (by omega)]
      exact ⟨r, false, [], rfl, h, fun _ => ⟨rfl, rfl⟩, fun hb => Bool.noConfusion hb, fun hle => by omega⟩

end Ring
end Mpt

namespace Mpt
namespace Ring

theorem xwriteLoop_spec (part : Nat) (hp : 0 < part) (elems : List (List Byte)) :
    ∀ (r : Ring) (done : Nat), r.WF → (∀ e ∈ elems, e.length = part) →
      part * elems.length ≤ r.store.length - r.len →
      ∃ r', xwriteLoop r part elems done = .ok (r', done + elems.length) ∧ r'.WF ∧
        r'.content = r.content ++ elems.flatten ∧ r'.store.length = r.store.length := by
  induction elems with
  | nil =>
    intro r done h _ _
    exact ⟨r, rfl, h, by simp, rfl⟩
  | cons e es ih =>
    intro r done h he hfree
    have h1 := h.1
    have h2 := h.2
    have hel : e.length = part := he e (by simp)
    have hm : part * (es.length + 1) = part * es.length + part := by rw [Nat.mul_succ]
    simp only [List.length_cons] at hfree
    obtain ⟨r1, c, hq, hw1, hl1, hc1⟩ := qpush_ok r h part (some e) (by omega) (by omega)
    have hs : setSrc part (some e) = e := by rw [← hel]; exact setSrc_some' e
    rw [hs] at hc1
    have hlen1 : r1.len = r.len + part := by
      have a := content_length r1 hw1.1 hw1.2
      have b := content_length r h1 h2
      rw [hc1, List.length_append, b, hel] at a
      omega
    unfold xwriteLoop
    rw [hq]
    simp only []
    obtain ⟨r', hr, hw', hc', hl'⟩ := ih r1 (done + 1) hw1 (fun x hx => he x (by simp [hx])) (by omega)
    refine ⟨r', ?_, hw', ?_, by omega⟩
    · rw [hr]; simp only [List.length_cons]; congr 2; omega
    · rw [hc', hc1]; simp

/-- `io::queue::write(len, data, part)`: the storage grows as needed, all `len` elements are appended -/
theorem xwrite_spec (r : Ring) (h : r.WF) (part : Nat) (hp : 0 < part) (elems : List (List Byte))
    (he : ∀ e ∈ elems, e.length = part) :
    ∃ r', r.xwrite part elems = .ok (r', elems.length) ∧ r'.WF ∧ r'.content = r.content ++ elems.flatten := by
  obtain ⟨r1, left, hprep, hw1, hc1, hl, hn, _⟩ := prepare_spec r h (part * elems.length)
  unfold xwrite
  rw [hprep]
  simp only []
  obtain ⟨r', hr, hw', hc', _⟩ := xwriteLoop_spec part hp elems r1 0 hw1 he (by omega)
  rw [Nat.zero_add] at hr
  exact ⟨r', hr, hw', by rw [hc', hc1]⟩

end Ring
end Mpt
