/-
  C12, reply context: the invariant behind `at_most_once`.
  A *slot* is a place where an unanswered request can stand: the context itself (`none`) or deferred
  handle `k` (`some k`).
-/
import MptModel.Impl.Reply
namespace Mpt.Reply
open Mpt.ReplySpec (mark)

theorem markB_idem (b : UInt8) : ((b ||| 128) &&& 127) ||| 128 = b ||| 128 := by
  apply UInt8.eq_of_toBitVec_eq
  simp
  ext i hi
  have : i = 0 ∨ i = 1 ∨ i = 2 ∨ i = 3 ∨ i = 4 ∨ i = 5 ∨ i = 6 ∨ i = 7 := by omega
  rcases this with h|h|h|h|h|h|h|h <;> subst h <;> simp <;> decide

/-- clearing the reply mark after a rejected send and setting it again gives the same id bytes -/
theorem mark_unmark_mark (v : List Byte) : mark (unmark (mark v)) = mark v := by
  cases v with
  | nil => rfl
  | cons b r => simp [mark, unmark, markB_idem]

abbrev Slot := Option Nat

/-- the unanswered request standing in a slot -/
def Ctx.slot (c : Ctx) : Slot → Option Req
  | none => c.cur
  | some k => c.handles.getD k none

structure Inv (c : Ctx) : Prop where
  lt : ∀ s r, c.slot s = some r → r.tag < c.nextTag
  inj : ∀ s1 s2 r1 r2, c.slot s1 = some r1 → c.slot s2 = some r2 → r1.tag = r2.tag → s1 = s2
  okDead : ∀ e ∈ c.log, e.ok = true → ∀ s r, c.slot s = some r → r.tag ≠ e.tag
  ids : ∀ s r, c.slot s = some r → mark r.val = mark (c.arms.getD r.tag [])
  logLt : ∀ e ∈ c.log, e.tag < c.nextTag
  logId : ∀ e ∈ c.log, e.id = mark (c.arms.getD e.tag [])
  ordered : c.log.Pairwise (fun a b => a.tag = b.tag → a.ok = false)
  armsLen : c.arms.length = c.nextTag
  /-- every non-empty armed request still stands in a slot, or the transport was called for it, or it was
      discarded while the transport was detached -/
  covered : c.ptr = true → ∀ t, t < c.nextTag → c.arms.getD t [] ≠ [] →
    (∃ s r, c.slot s = some r ∧ r.tag = t) ∨ (∃ e ∈ c.log, e.tag = t) ∨ t ∈ c.lost
  /-- requests are discarded only after the transport has been detached -/
  lostDet : c.lost ≠ [] → c.send = false

theorem inv_create (len : Nat) (ptr : Bool) (c : Ctx) (h : create len ptr = some c) : Inv c := by
  unfold create at h
  split at h
  · simp at h
  · simp at h
    have hc : c.cur = none ∧ c.handles = [] ∧ c.log = [] ∧ c.nextTag = 0 ∧ c.arms = [] ∧ c.lost = [] := by subst h; simp
    obtain ⟨h1, h2, h3, h4, h5, h6⟩ := hc
    have hs : ∀ s r, ¬ (c.slot s = some r) := by
      intro s r h
      cases s <;> simp [Ctx.slot, h1, h2] at h
    constructor
    · intro s r h; exact absurd h (hs s r)
    · intro s1 _ r1 _ h; exact absurd h (hs s1 r1)
    · intro e he; simp [h3] at he
    · intro s r h; exact absurd h (hs s r)
    · intro e he; simp [h3] at he
    · intro e he; simp [h3] at he
    · simp [h3]
    · simp [h4, h5]
    · intro _ t ht; rw [h4] at ht; omega
    · intro hl; exact absurd h6 hl

/-- an attempt to answer the request `r` standing in slot `s0`: at most one call is logged, it carries
    `r`'s tag and marked id, an accepted call empties the slot, otherwise the slot is emptied or keeps
    a request with the same tag and the same marked id; nothing else changes -/
theorem inv_answer (c c' : Ctx) (s0 : Slot) (r : Req) (hinv : Inv c) (h0 : c.slot s0 = some r)
    (hother : ∀ s, s ≠ s0 → c'.slot s = c.slot s)
    (hnext : c'.nextTag = c.nextTag) (harms : c'.arms = c.arms)
    (hlog : c'.log = c.log ∨ ∃ msg ok, c'.log = c.log ++ [⟨r.tag, mark r.val, msg, ok⟩] ∧ (ok = true → c'.slot s0 = none))
    (hslot : c'.slot s0 = none ∨ ∃ r', c'.slot s0 = some r' ∧ r'.tag = r.tag ∧ mark r'.val = mark r.val)
    (hlost : c'.lost = c.lost ∨ (c'.lost = c.lost ++ [r.tag] ∧ c.send = false))
    (hsend : c'.send = c.send ∨ c'.send = false) (hptr : c'.ptr = c.ptr)
    (hdone : c.ptr = true → c'.slot s0 = none → (∃ e ∈ c'.log, e.tag = r.tag) ∨ r.tag ∈ c'.lost) :
    Inv c' := by
  -- every request of c' sits in the same slot of c with the same tag and marked id
  have hback : ∀ s r2, c'.slot s = some r2 → ∃ r1, c.slot s = some r1 ∧ r1.tag = r2.tag ∧ mark r1.val = mark r2.val := by
    intro s r2 h
    by_cases hs : s = s0
    · subst hs
      rcases hslot with hn | ⟨r', h1, h2, h3⟩
      · rw [hn] at h; cases h
      · rw [h1] at h; cases h; exact ⟨r, h0, h2.symm, h3.symm⟩
    · rw [hother s hs] at h; exact ⟨r2, h, rfl, rfl⟩
  have hmem : ∀ e ∈ c'.log, e ∈ c.log ∨ ∃ msg ok, e = ⟨r.tag, mark r.val, msg, ok⟩ ∧ (ok = true → c'.slot s0 = none) := by
    intro e he
    rcases hlog with h | ⟨msg, ok, h, hk⟩
    · rw [h] at he; exact Or.inl he
    · rw [h] at he
      rcases List.mem_append.mp he with h1 | h1
      · exact Or.inl h1
      · simp at h1; exact Or.inr ⟨msg, ok, h1, hk⟩
  constructor
  · intro s r2 h
    obtain ⟨r1, h1, ht, _⟩ := hback s r2 h
    rw [hnext, ← ht]; exact hinv.lt s r1 h1
  · intro s1 s2 r1 r2 h1 h2 ht
    obtain ⟨q1, g1, t1, _⟩ := hback s1 r1 h1
    obtain ⟨q2, g2, t2, _⟩ := hback s2 r2 h2
    exact hinv.inj s1 s2 q1 q2 g1 g2 (by omega)
  · intro e he hok s r2 h
    obtain ⟨r1, h1, ht, _⟩ := hback s r2 h
    rcases hmem e he with hold | ⟨msg, ok, he', hk⟩
    · rw [← ht]; exact hinv.okDead e hold hok s r1 h1
    · subst he'
      simp only at hok ⊢
      have hn := hk hok
      by_cases hs : s = s0
      · subst hs; rw [hn] at h; cases h
      · intro heq
        exact hs (hinv.inj s s0 r1 r h1 h0 (by omega))
  · intro s r2 h
    obtain ⟨r1, h1, ht, hm⟩ := hback s r2 h
    rw [harms, ← hm, ← ht]; exact hinv.ids s r1 h1
  · intro e he
    rw [hnext]
    rcases hmem e he with hold | ⟨msg, ok, he', _⟩
    · exact hinv.logLt e hold
    · subst he'; exact hinv.lt s0 r h0
  · intro e he
    rw [harms]
    rcases hmem e he with hold | ⟨msg, ok, he', _⟩
    · exact hinv.logId e hold
    · subst he'; exact hinv.ids s0 r h0
  · rcases hlog with h | ⟨msg, ok, h, _⟩
    · rw [h]; exact hinv.ordered
    · rw [h, List.pairwise_append]
      refine ⟨hinv.ordered, List.pairwise_singleton _ _, ?_⟩
      intro a ha b hb
      simp at hb; subst hb
      intro htag
      cases hok : a.ok with
      | false => rfl
      | true => exact absurd htag.symm (hinv.okDead a ha hok s0 r h0)
  · rw [harms, hnext]; exact hinv.armsLen
  · intro hp t ht hne
    rw [hptr] at hp
    rw [hnext] at ht; rw [harms] at hne
    have hlmono : ∀ x, x ∈ c.lost → x ∈ c'.lost := by
      intro x hx
      rcases hlost with h | ⟨h, _⟩ <;> rw [h]
      · exact hx
      · exact List.mem_append_left _ hx
    have hlogmono : ∀ e, e ∈ c.log → e ∈ c'.log := by
      intro e he
      rcases hlog with h | ⟨_, _, h, _⟩ <;> rw [h]
      · exact he
      · exact List.mem_append_left _ he
    rcases hinv.covered hp t ht hne with ⟨s, r1, h1, h2⟩ | ⟨e, he, h2⟩ | hl
    · by_cases hs : s = s0
      · subst hs
        rw [h0] at h1; cases h1
        rcases hslot with hn | ⟨r', g1, g2, _⟩
        · rcases hdone hp hn with ⟨e, he, h3⟩ | h3
          · exact Or.inr (Or.inl ⟨e, he, by omega⟩)
          · exact Or.inr (Or.inr (h2 ▸ h3))
        · exact Or.inl ⟨s, r', g1, by omega⟩
      · exact Or.inl ⟨s, r1, by rw [hother s hs]; exact h1, h2⟩
    · exact Or.inr (Or.inl ⟨e, hlogmono e he, h2⟩)
    · exact Or.inr (Or.inr (hlmono t hl))
  · intro hl
    rcases hlost with h | ⟨_, hs⟩
    · rw [h] at hl
      rcases hsend with g | g
      · rw [g]; exact hinv.lostDet hl
      · exact g
    · rcases hsend with g | g
      · rw [g]; exact hs
      · exact g

/- ---------------------------------------------------------------- contextSend -/

theorem csend_none (send ptr : Bool) (msg : Option (List Byte)) (ans : Int) :
    contextSend send ptr none msg ans = ⟨Err.BadArgument.code, none, none, none⟩ := rfl

/-- the outcomes of `contextSend` on an armed request -/
theorem csend_some (send ptr : Bool) (r : Req) (msg : Option (List Byte)) (ans : Int) :
    let s := contextSend send ptr (some r) msg ans
    (send = false ∧ s.call = none ∧ s.rd = none ∧ s.dropped = some r.tag) ∨
    (send = true ∧ ptr = false ∧ s.call = none ∧ s.rd = some r ∧ s.dropped = none) ∨
    (send = true ∧ ptr = true ∧ 0 ≤ ans ∧ s.call = some ⟨r.tag, mark r.val, msg, true⟩ ∧ s.rd = none ∧ s.ret = ans ∧ s.dropped = none) ∨
    (send = true ∧ ptr = true ∧ ans < 0 ∧ s.call = some ⟨r.tag, mark r.val, msg, false⟩ ∧
      s.rd = some ⟨unmark (mark r.val), r.tag⟩ ∧ s.ret = ans ∧ s.dropped = none) := by
  unfold contextSend
  cases send <;> cases ptr <;> simp
  by_cases h : 0 ≤ ans
  · simp [h]
  · have : ans < 0 := by omega
    simp [h, this]

/-- hypotheses of `inv_answer` from the `contextSend` outcomes -/
theorem csend_shape (send ptr : Bool) (r : Req) (msg : Option (List Byte)) (ans : Int) (log : List Sent) (lost : List Nat) :
    let s := contextSend send ptr (some r) msg ans
    (addCall log s.call = log ∨ ∃ m ok, addCall log s.call = log ++ [⟨r.tag, mark r.val, m, ok⟩] ∧ (ok = true → s.rd = none)) ∧
    (s.rd = none ∨ ∃ r', s.rd = some r' ∧ r'.tag = r.tag ∧ mark r'.val = mark r.val) ∧
    (addLost lost s.dropped = lost ∨ (addLost lost s.dropped = lost ++ [r.tag] ∧ send = false)) ∧
    ((∃ e ∈ addCall log s.call, e.tag = r.tag) ∨ r.tag ∈ addLost lost s.dropped ∨ s.rd ≠ none) := by
  intro s
  rcases csend_some send ptr r msg ans with ⟨h0, h1, h2, h3⟩ | ⟨_, _, h1, h2, h3⟩ | ⟨_, _, _, h1, h2, _, h3⟩ | ⟨_, _, _, h1, h2, _, h3⟩
  · exact ⟨Or.inl (by simp [s, h1, addCall]), Or.inl h2, Or.inr ⟨by simp [s, h3, addLost], h0⟩,
      Or.inr (Or.inl (by simp [s, h3, addLost]))⟩
  · exact ⟨Or.inl (by simp [s, h1, addCall]), Or.inr ⟨r, h2, rfl, rfl⟩, Or.inl (by simp [s, h3, addLost]),
      Or.inr (Or.inr (by simp [s, h2]))⟩
  · exact ⟨Or.inr ⟨msg, true, by simp [s, h1, addCall], fun _ => h2⟩, Or.inl h2, Or.inl (by simp [s, h3, addLost]),
      Or.inl ⟨⟨r.tag, mark r.val, msg, true⟩, by simp [s, h1, addCall], rfl⟩⟩
  · exact ⟨Or.inr ⟨msg, false, by simp [s, h1, addCall], fun h => by cases h⟩,
      Or.inr ⟨_, h2, rfl, mark_unmark_mark r.val⟩, Or.inl (by simp [s, h3, addLost]),
      Or.inl ⟨⟨r.tag, mark r.val, msg, false⟩, by simp [s, h1, addCall], rfl⟩⟩

/- ---------------------------------------------------------------- the operations keep the invariant -/

theorem inv_of_same (c c' : Ctx) (hinv : Inv c) (h1 : c'.cur = c.cur) (h2 : c'.handles = c.handles) (h3 : c'.log = c.log)
    (h4 : c'.nextTag = c.nextTag) (h5 : c'.arms = c.arms) (h6 : c'.lost = c.lost)
    (h7 : c'.send = c.send ∨ c'.send = false) (h8 : c'.ptr = c.ptr) : Inv c' := by
  have hs : ∀ s, c'.slot s = c.slot s := by intro s; cases s <;> simp [Ctx.slot, h1, h2]
  constructor
  · intro s r h; rw [h4]; exact hinv.lt s r (hs s ▸ h)
  · intro s1 s2 r1 r2 g1 g2; exact hinv.inj s1 s2 r1 r2 (hs s1 ▸ g1) (hs s2 ▸ g2)
  · intro e he hok s r h; exact hinv.okDead e (h3 ▸ he) hok s r (hs s ▸ h)
  · intro s r h; rw [h5]; exact hinv.ids s r (hs s ▸ h)
  · intro e he; rw [h4]; exact hinv.logLt e (h3 ▸ he)
  · intro e he; rw [h5]; exact hinv.logId e (h3 ▸ he)
  · rw [h3]; exact hinv.ordered
  · rw [h5, h4]; exact hinv.armsLen
  · intro hp t ht hne
    rw [h8] at hp
    rw [h4] at ht; rw [h5] at hne
    rcases hinv.covered hp t ht hne with ⟨s, r, g1, g2⟩ | ⟨e, he, g⟩ | g
    · exact Or.inl ⟨s, r, by rw [hs]; exact g1, g2⟩
    · exact Or.inr (Or.inl ⟨e, by rw [h3]; exact he, g⟩)
    · exact Or.inr (Or.inr (by rw [h6]; exact g))
  · intro hl
    rw [h6] at hl
    rcases h7 with g | g
    · rw [g]; exact hinv.lostDet hl
    · exact g

theorem inv_reply (c : Ctx) (msg : Option (List Byte)) (ans : Int) (hinv : Inv c) : Inv (reply c msg ans).2 := by
  unfold reply
  cases hc : c.cur with
  | none =>
    exact inv_of_same c _ hinv (by simp [csend_none, hc]) rfl (by simp [csend_none, addCall]) rfl rfl
      (by simp [csend_none, addLost]) (Or.inl rfl) rfl
  | some r =>
    obtain ⟨hl, hs, hlo, hd⟩ := csend_shape c.send c.ptr r msg ans c.log c.lost
    refine inv_answer c _ none r hinv (by simp [Ctx.slot, hc]) ?_ rfl rfl ?_ ?_ hlo (Or.inl rfl) rfl ?_
    · intro s hs; cases s with
      | none => exact absurd rfl hs
      | some k => simp only [Ctx.slot]
    · simp only [Ctx.slot]; exact hl
    · simp only [Ctx.slot]; exact hs
    · simp only [Ctx.slot]
      intro _ hn
      rcases hd with h | h | h
      · exact Or.inl h
      · exact Or.inr h
      · exact absurd hn h

theorem getD_set_self (l : List (Option Req)) (k : Nat) (v : Option Req) (h : k < l.length) :
    (l.set k v).getD k none = v := by
  simp [List.getD_eq_getElem?_getD, List.getElem?_set, h]

theorem getD_set_ne (l : List (Option Req)) (k k' : Nat) (v : Option Req) (h : k' ≠ k) :
    (l.set k v).getD k' none = l.getD k' none := by
  simp [List.getD_eq_getElem?_getD, List.getElem?_set, Ne.symm h]

theorem getD_some_lt (l : List (Option Req)) (k : Nat) (r : Req) (h : l.getD k none = some r) : k < l.length := by
  by_cases hk : k < l.length
  · exact hk
  · simp [List.getD_eq_getElem?_getD, List.getElem?_eq_none (Nat.le_of_not_lt hk)] at h

theorem inv_dreply (c : Ctx) (k : Nat) (msg : Option (List Byte)) (ans : Int) (hinv : Inv c) :
    Inv (dreply c k msg ans).2 := by
  unfold dreply
  cases hk : c.handles.getD k none with
  | none => exact hinv
  | some r =>
    have hlt := getD_some_lt _ _ _ hk
    obtain ⟨hl, hs, hlo, hd⟩ := csend_shape c.send c.ptr r msg ans c.log c.lost
    have h0 : c.slot (some k) = some r := by simp only [Ctx.slot]; exact hk
    simp only []
    split
    · refine inv_answer c _ (some k) r hinv h0 ?_ rfl rfl ?_ ?_ hlo (Or.inl rfl) rfl ?_
      · intro s hs'
        cases s with
        | none => simp only [Ctx.slot]
        | some k' =>
          have : k' ≠ k := fun h => hs' (by rw [h])
          simp only [Ctx.slot]; exact getD_set_ne _ _ _ _ this
      · simp only [Ctx.slot]; rw [getD_set_self _ _ _ hlt]; exact hl
      · simp only [Ctx.slot]; rw [getD_set_self _ _ _ hlt]; exact hs
      · simp only [Ctx.slot]; rw [getD_set_self _ _ _ hlt]
        intro _ hn
        rcases hd with h | h | h
        · exact Or.inl h
        · exact Or.inr h
        · exact absurd hn h
    · refine inv_answer c _ (some k) r hinv h0 ?_ rfl rfl ?_ ?_ hlo (Or.inl rfl) rfl ?_
      · intro s hs'
        cases s with
        | none => simp only [Ctx.slot]
        | some k' =>
          have : k' ≠ k := fun h => hs' (by rw [h])
          simp only [Ctx.slot]; exact getD_set_ne _ _ _ _ this
      · simp only [Ctx.slot]; rw [getD_set_self _ _ _ hlt]
        rcases hl with hl | ⟨m, ok, hl, _⟩
        · exact Or.inl hl
        · exact Or.inr ⟨m, ok, hl, fun _ => rfl⟩
      · simp only [Ctx.slot]; rw [getD_set_self _ _ _ hlt]; exact Or.inl rfl
      · -- the handle is released: with a transport pointer the transport was called, or it is detached
        simp only [Ctx.slot]
        intro hp _
        rcases csend_some c.send c.ptr r msg ans with ⟨_, _, _, h3⟩ | ⟨_, h2, _, _, _⟩ | ⟨_, _, _, h1, _, _, _⟩ | ⟨_, _, _, h1, _, _, _⟩
        · exact Or.inr (by simp [h3, addLost])
        · rw [hp] at h2; cases h2
        · exact Or.inl ⟨⟨r.tag, mark r.val, msg, true⟩, by simp [h1, addCall], rfl⟩
        · exact Or.inl ⟨⟨r.tag, mark r.val, msg, false⟩, by simp [h1, addCall], rfl⟩

theorem inv_dropCtx (c : Ctx) (ans : Int) (hinv : Inv c) : Inv (dropCtx c ans) := by
  unfold dropCtx
  have hsend : ∀ b : Bool, (if c.refs - 1 ≠ 0 then false else b) = b ∨ (if c.refs - 1 ≠ 0 then false else b) = false := by
    intro b; split <;> simp
  by_cases hcond : c.send = true ∧ c.cur.isSome = true
  · rw [if_pos hcond]
    cases hc : c.cur with
    | none => simp [hc] at hcond
    | some r =>
      obtain ⟨hl, hs, hlo, hd⟩ := csend_shape c.send c.ptr r none ans c.log c.lost
      refine inv_answer c _ none r hinv (by simp [Ctx.slot, hc]) ?_ rfl rfl ?_ ?_ hlo (hsend c.send) rfl ?_
      · intro s hs; cases s with
        | none => exact absurd rfl hs
        | some k => simp only [Ctx.slot]
      · simp only [Ctx.slot]; exact hl
      · simp only [Ctx.slot]; exact hs
      · simp only [Ctx.slot]
        intro _ hn
        rcases hd with h | h | h
        · exact Or.inl h
        · exact Or.inr h
        · exact absurd hn h
  · rw [if_neg hcond]
    exact inv_of_same c _ hinv rfl rfl (by simp [addCall]) rfl rfl (by simp [addLost]) (hsend c.send) rfl

theorem inv_arm_aux (c c' : Ctx) (bytes : List Byte) (hinv : Inv c) (hnone : c.cur = none)
    (hcur : c'.cur = if bytes.length = 0 then none else some ⟨bytes, c.nextTag⟩)
    (hh : c'.handles = c.handles) (hlog : c'.log = c.log) (hnext : c'.nextTag = c.nextTag + 1)
    (harms : c'.arms = c.arms ++ [bytes]) (hlost : c'.lost = c.lost) (hsend : c'.send = c.send)
    (hptr : c'.ptr = c.ptr) : Inv c' := by
  have hlen := hinv.armsLen
  have hget : ∀ t, t < c.nextTag → (c.arms ++ [bytes]).getD t [] = c.arms.getD t [] := by
    intro t ht
    simp [List.getD_eq_getElem?_getD, List.getElem?_append_left (by omega : t < c.arms.length)]
  have hnew : (c.arms ++ [bytes]).getD c.nextTag [] = bytes := by
    simp [List.getD_eq_getElem?_getD, ← hlen]
  -- a request of the new state is the freshly armed one or an old handle
  have hcases : ∀ s r, c'.slot s = some r →
      (s = none ∧ r = ⟨bytes, c.nextTag⟩) ∨ (∃ k, s = some k ∧ c.slot (some k) = some r) := by
    intro s r h
    cases s with
    | none =>
      simp only [Ctx.slot, hcur] at h
      split at h
      · cases h
      · cases h; exact Or.inl ⟨rfl, rfl⟩
    | some k => exact Or.inr ⟨k, rfl, by simpa [Ctx.slot, hh] using h⟩
  constructor
  · intro s r h
    rw [hnext]
    rcases hcases s r h with ⟨_, rfl⟩ | ⟨k, _, hk⟩
    · simp
    · have := hinv.lt _ _ hk; omega
  · intro s1 s2 r1 r2 h1 h2 ht
    rcases hcases s1 r1 h1 with ⟨e1, rfl⟩ | ⟨k1, e1, g1⟩ <;> rcases hcases s2 r2 h2 with ⟨e2, rfl⟩ | ⟨k2, e2, g2⟩
    · rw [e1, e2]
    · have := hinv.lt _ _ g2; simp at ht; omega
    · have := hinv.lt _ _ g1; simp at ht; omega
    · rw [e1, e2]; exact hinv.inj _ _ _ _ g1 g2 ht
  · intro e he hok s r h
    rw [hlog] at he
    rcases hcases s r h with ⟨_, rfl⟩ | ⟨k, _, hk⟩
    · have := hinv.logLt e he; simp; omega
    · exact hinv.okDead e he hok _ _ hk
  · intro s r h
    rw [harms]
    rcases hcases s r h with ⟨_, rfl⟩ | ⟨k, _, hk⟩
    · simp only; rw [hnew]
    · rw [hget _ (hinv.lt _ _ hk)]; exact hinv.ids _ _ hk
  · intro e he
    rw [hlog] at he
    have := hinv.logLt e he
    rw [hnext]; omega
  · intro e he
    rw [hlog] at he
    rw [harms, hget _ (hinv.logLt e he)]; exact hinv.logId e he
  · rw [hlog]; exact hinv.ordered
  · rw [harms, hnext]; simp [hlen]
  · intro hp t ht hne
    rw [hptr] at hp
    rw [hnext] at ht; rw [harms] at hne
    by_cases htn : t = c.nextTag
    · subst htn
      rw [hnew] at hne
      have hb : ¬ bytes.length = 0 := by intro h0; exact hne (List.eq_nil_of_length_eq_zero h0)
      exact Or.inl ⟨none, ⟨bytes, c.nextTag⟩, by simp [Ctx.slot, hcur, hb], rfl⟩
    · have ht' : t < c.nextTag := by omega
      rw [hget t ht'] at hne
      rcases hinv.covered hp t ht' hne with ⟨s, r, g1, g2⟩ | ⟨e, he, g⟩ | g
      · cases s with
        | none => simp [Ctx.slot, hnone] at g1
        | some k => exact Or.inl ⟨some k, r, by simpa [Ctx.slot, hh] using g1, g2⟩
      · exact Or.inr (Or.inl ⟨e, by rw [hlog]; exact he, g⟩)
      · exact Or.inr (Or.inr (by rw [hlost]; exact g))
  · intro hl; rw [hlost] at hl; rw [hsend]; exact hinv.lostDet hl

theorem inv_arm (c : Ctx) (bytes : List Byte) (hinv : Inv c) : Inv (arm c bytes).2 := by
  unfold arm
  split
  · exact hinv
  · rename_i hcur
    split
    · exact hinv
    · exact inv_arm_aux c _ bytes hinv (by simpa using hcur) rfl rfl rfl rfl rfl rfl rfl rfl

theorem inv_defer_aux (c c' : Ctx) (r : Req) (hinv : Inv c) (hc : c.cur = some r)
    (hcur : c'.cur = none) (hh : c'.handles = c.handles ++ [some r]) (hlog : c'.log = c.log)
    (hnext : c'.nextTag = c.nextTag) (harms : c'.arms = c.arms) (hlost : c'.lost = c.lost) (hsend : c'.send = c.send)
    (hptr : c'.ptr = c.ptr) : Inv c' := by
  -- the request moves from the context to the new handle
  have hnew : c'.slot (some c.handles.length) = some r := by
    simp [Ctx.slot, hh, List.getD_eq_getElem?_getD]
  have hold : ∀ k, k < c.handles.length → c'.slot (some k) = c.slot (some k) := by
    intro k hk
    simp [Ctx.slot, hh, List.getD_eq_getElem?_getD, List.getElem?_append_left hk]
  have hslot : ∀ s r2, c'.slot s = some r2 →
      (s = some c.handles.length ∧ c.slot none = some r2) ∨ (∃ k, s = some k ∧ k < c.handles.length ∧ c.slot (some k) = some r2) := by
    intro s r2 h
    cases s with
    | none => simp [Ctx.slot, hcur] at h
    | some k =>
      simp only [Ctx.slot, hh, List.getD_eq_getElem?_getD] at h
      by_cases hk : k < c.handles.length
      · rw [List.getElem?_append_left hk] at h
        exact Or.inr ⟨k, rfl, hk, by simpa [Ctx.slot, List.getD_eq_getElem?_getD] using h⟩
      · rw [List.getElem?_append_right (Nat.le_of_not_lt hk)] at h
        by_cases hk2 : k = c.handles.length
        · subst hk2
          simp at h
          exact Or.inl ⟨rfl, by simp [Ctx.slot, hc, h]⟩
        · have : k - c.handles.length ≠ 0 := by omega
          cases hd : k - c.handles.length with
          | zero => exact absurd hd this
          | succ n => simp [hd] at h
  constructor
  · intro s r2 h
    rw [hnext]
    rcases hslot s r2 h with ⟨_, g⟩ | ⟨k, _, _, g⟩ <;> exact hinv.lt _ _ g
  · intro s1 s2 r1 r2 h1 h2 ht
    rcases hslot s1 r1 h1 with ⟨e1, g1⟩ | ⟨k1, e1, l1, g1⟩ <;> rcases hslot s2 r2 h2 with ⟨e2, g2⟩ | ⟨k2, e2, l2, g2⟩
    · rw [e1, e2]
    · have := hinv.inj _ _ _ _ g1 g2 ht; cases this
    · have := hinv.inj _ _ _ _ g1 g2 ht; cases this
    · rw [e1, e2]; exact hinv.inj _ _ _ _ g1 g2 ht
  · intro e he hok s r2 h
    rw [hlog] at he
    rcases hslot s r2 h with ⟨_, g⟩ | ⟨k, _, _, g⟩ <;> exact hinv.okDead e he hok _ _ g
  · intro s r2 h
    rw [harms]
    rcases hslot s r2 h with ⟨_, g⟩ | ⟨k, _, _, g⟩ <;> exact hinv.ids _ _ g
  · rw [hlog, hnext]; exact hinv.logLt
  · rw [hlog, harms]; exact hinv.logId
  · rw [hlog]; exact hinv.ordered
  · rw [harms, hnext]; exact hinv.armsLen
  · intro hp t ht hne
    rw [hptr] at hp
    rw [hnext] at ht; rw [harms] at hne
    rcases hinv.covered hp t ht hne with ⟨s, r1, g1, g2⟩ | ⟨e, he, g⟩ | g
    · cases s with
      | none =>
        simp only [Ctx.slot, hc] at g1; cases g1
        exact Or.inl ⟨some c.handles.length, r, hnew, g2⟩
      | some k =>
        have hk : k < c.handles.length := getD_some_lt _ _ _ (by simpa [Ctx.slot] using g1)
        exact Or.inl ⟨some k, r1, by rw [hold k hk]; exact g1, g2⟩
    · exact Or.inr (Or.inl ⟨e, by rw [hlog]; exact he, g⟩)
    · exact Or.inr (Or.inr (by rw [hlost]; exact g))
  · intro hl; rw [hlost] at hl; rw [hsend]; exact hinv.lostDet hl

theorem inv_defer (c : Ctx) (hinv : Inv c) : Inv (defer c).2 := by
  unfold defer
  cases hc : c.cur with
  | none => exact hinv
  | some r =>
    simp only []
    split
    · exact hinv
    · exact inv_defer_aux c _ r hinv hc rfl rfl rfl rfl rfl rfl rfl rfl

theorem inv_step (c : Ctx) (op : Op) (hinv : Inv c) : Inv (step c op) := by
  cases op with
  | arm b => exact inv_arm c b hinv
  | reply m a => exact inv_reply c m a hinv
  | defer => exact inv_defer c hinv
  | dreply k m a => exact inv_dreply c k m a hinv
  | dropCtx a => exact inv_dropCtx c a hinv

theorem inv_run (c : Ctx) (ops : List Op) (hinv : Inv c) : Inv (run c ops) := by
  induction ops generalizing c with
  | nil => exact hinv
  | cons op ops ih =>
    unfold run
    split
    · exact ih _ (inv_step c op hinv)
    · exact ih _ hinv

theorem step_ptr (c : Ctx) (op : Op) : (step c op).ptr = c.ptr := by
  cases op with
  | arm b => simp only [step, arm]; split <;> (try split) <;> rfl
  | reply m a => rfl
  | defer => simp only [step, defer]; split <;> (try split) <;> rfl
  | dreply k m a => simp only [step, dreply]; split <;> (try split) <;> rfl
  | dropCtx a => rfl

theorem run_ptr (c : Ctx) (ops : List Op) : (run c ops).ptr = c.ptr := by
  induction ops generalizing c with
  | nil => rfl
  | cons op ops ih =>
    unfold run
    split
    · rw [ih, step_ptr]
    · exact ih c

/-- at most one accepted call per tag in an ordered log -/
theorem count_le_one (log : List Sent) (t : Nat)
    (h : log.Pairwise (fun a b => a.tag = b.tag → a.ok = false)) :
    (log.filter (fun e => e.tag == t && e.ok)).length ≤ 1 := by
  induction log with
  | nil => simp
  | cons x l ih =>
    rw [List.pairwise_cons] at h
    by_cases hx : (x.tag == t && x.ok) = true
    · have hx' : x.tag = t ∧ x.ok = true := by simpa using hx
      have : l.filter (fun e => e.tag == t && e.ok) = [] := by
        rw [List.filter_eq_nil_iff]
        intro b hb hb2
        have hb' : b.tag = t ∧ b.ok = true := by simpa using hb2
        have := h.1 b hb (by rw [hx'.1, hb'.1])
        rw [hx'.2] at this; cases this
      simp [List.filter_cons, hx, this]
    · simp only [List.filter_cons, hx]
      exact ih h.2

end Mpt.Reply
