/-
  Helper lemmas for C19 (core Lean only): every recognised description is accepted; the documented loop on
  a text argument iterator over a separated number list.
-/
import MptModel.Lemmas.IterAccept6
import MptModel.Impl.IterArgs
namespace Mpt.Iter
open Mpt.IterSpec

/-- **every canonical description whose meaning the grammar fixes is accepted and denotes exactly that
    sequence** -/
theorem accept_any (s : List Char) (d : Desc) (den : Den) (h : recognise s = some d) (hd : d.den = some den) :
    ∃ g, create s = some g ∧ g.all = den.elems ∧ g.rem = g.all ∧ g.WF := by
  cases d with
  | lin k a b => exact accept_lin s k a b den h hd
  | range a b st => exact accept_range s a b st den h hd
  | fac k base f init => exact accept_fac s k base f init den h hd
  | values vs =>
    simp only [Desc.den, Option.some.injEq] at hd
    subst hd
    unfold recognise at h
    simp only [] at h
    split at h
    · rename_i hname
      cases hq : numbers s with
      | none => rw [hq] at h; simp at h
      | some ws =>
        rw [hq] at h
        simp only [Option.bind_some] at h
        split at h
        · cases h
        · rename_i hne
          cases h
          obtain ⟨g, h1, h2, h3, h4⟩ := accept_values s vs hname hq (by simpa using hne)
          exact ⟨g, h1, by rw [h2, explicit_elems], by rw [h3, h2], h4⟩
    · exfalso
      revert h
      (repeat' split) <;> intros <;> simp_all

/-! ### text argument iterator -/

/-- number tokens, each followed by one separator character, and a last token -/
def sepJoin : List (List Char × Char) → List Char → List Char
  | [], last => last
  | (t, c) :: more, last => t ++ c :: sepJoin more last

/-- a separator character: anything that cannot continue a number -/
def SepChar (c : Char) : Prop := isDigit c = false ∧ c ≠ '.' ∧ c ≠ 'e' ∧ c ≠ 'E'

/-- the documented loop on a text argument iterator: read (convert to a number), advance -/
def strWalk : Nat → StrIt → List Rat × StrIt
  | 0, it => ([], it)
  | fuel + 1, it =>
    if !it.hasValue then ([], it)
    else match it.conv with
      | (it1, .ok v) =>
        match it1.advance with
        | (it2, .more) => ((strWalk fuel it2).1.cons v, (strWalk fuel it2).2)
        | (it2, _) => ([v], it2)
      | (it1, _) => ([], it1)

theorem strict_dropSpace (t rest : List Char) (v : Rat) (h : strictNumber t = some v) :
    dropSpace (t ++ rest) = t ++ rest := by
  have hne := strict_ne_nil t v h
  cases t with
  | nil => exact absurd rfl hne
  | cons c cs =>
    apply dropSpace_id
    rcases strict_head (c :: cs) v h c rfl with e | e | e
    · subst e; decide
    · subst e; decide
    · exact digit_not_space c e

/-- state of a text iterator that has consumed `pre` -/
def atPos (sep text : List Char) (p : Nat) : StrIt :=
  { sep := sep, text := text, pos := some p, endNull := false, restore := none, patched := false }

theorem conv_last (sep pre t : List Char) (v : Rat) (h : strictNumber t = some v) :
    (atPos sep (pre ++ t) pre.length).conv = (atPos sep (pre ++ t) pre.length, .ok v) := by
  have hc := cdouble_strict t [] v h stops_nil
  have hd := strict_dropSpace t [] v h
  rw [List.append_nil] at hc hd
  have hne := strict_ne_nil t v h
  have he : t.isEmpty = false := by cases t with | nil => exact absurd rfl hne | cons _ _ => rfl
  unfold StrIt.conv StrIt.convWith atPos
  simp only [List.drop_left, he, Bool.false_eq_true, ↓reduceIte, hd, hc]
  simp

theorem conv_mid (sep pre t : List Char) (c : Char) (rest : List Char) (v : Rat) (h : strictNumber t = some v)
    (hs : SepChar c) :
    (atPos sep (pre ++ (t ++ c :: rest)) pre.length).conv =
      ({ atPos sep (pre ++ (t ++ c :: rest)) pre.length with restore := some (pre.length + t.length), patched := true },
        .ok v) := by
  have hst : Stops (c :: rest) := by intro x hx; simp at hx; subst hx; exact hs
  have hc := cdouble_strict t (c :: rest) v h hst
  have hd := strict_dropSpace t (c :: rest) v h
  have hne := strict_ne_nil t v h
  have he : (t ++ c :: rest).isEmpty = false := by cases t with | nil => exact absurd rfl hne | cons _ _ => rfl
  unfold StrIt.conv StrIt.convWith atPos
  simp only [List.drop_left, he, Bool.false_eq_true, ↓reduceIte, hd, hc]
  have hr : pre.length + ((t ++ c :: rest).length - (c :: rest).length) = pre.length + t.length := by simp
  rw [hr]
  rw [if_neg (by simp)]

theorem advance_last (sep text : List Char) (p : Nat) (h : p < text.length) :
    (atPos sep text p).advance = ({ atPos sep text p with pos := none }, .last) := by
  unfold StrIt.advance atPos
  simp only [Bool.false_eq_true, ↓reduceIte]
  rw [if_neg (by omega)]

/-- the text goes on with something that is not white space -/
def NoLeadSpace (l : List Char) : Prop := ∃ x xs, l = x :: xs ∧ isSpace x = false

theorem noLead_not_all (l : List Char) (h : NoLeadSpace l) : l.all isSpace = false := by
  obtain ⟨x, xs, e, hx⟩ := h
  subst e
  simp [hx]

theorem strict_noLead (t rest : List Char) (v : Rat) (h : strictNumber t = some v) : NoLeadSpace (t ++ rest) := by
  have hne := strict_ne_nil t v h
  cases t with
  | nil => exact absurd rfl hne
  | cons c cs =>
    refine ⟨c, cs ++ rest, rfl, ?_⟩
    rcases strict_head (c :: cs) v h c rfl with e | e | e
    · subst e; decide
    · subst e; decide
    · exact digit_not_space c e

theorem advance_mid (sep text : List Char) (p r : Nat) (h : p < text.length)
    (hn : NoLeadSpace (text.drop (r + 1))) :
    ({ atPos sep text p with restore := some r, patched := true } : StrIt).advance = (atPos sep text (r + 1), .more) := by
  unfold StrIt.advance atPos
  simp only [Bool.false_eq_true, ↓reduceIte]
  rw [if_neg (by omega)]
  rw [if_neg (by intro hc; have := noLead_not_all _ hn; rw [hc.2] at this; cases this)]

theorem sepJoin_noLead (pairs : List (List Char × Char)) (last : List Char) (vs : List Rat) (vl : Rat)
    (hv : pairs.map (fun p => strictNumber p.1) = vs.map some) (hl : strictNumber last = some vl) :
    NoLeadSpace (sepJoin pairs last) := by
  cases pairs with
  | nil =>
    have := strict_noLead last [] vl hl
    simpa [sepJoin] using this
  | cons p more =>
    obtain ⟨t, c⟩ := p
    cases vs with
    | nil => simp at hv
    | cons v vs' =>
      simp only [List.map_cons, List.cons.injEq] at hv
      exact strict_noLead t _ v hv.1

/-- the walk from a position inside the text: `pre` has been consumed -/
theorem strWalk_from (pairs : List (List Char × Char)) (last : List Char) (vs : List Rat) (vl : Rat)
    (hp : ∀ p ∈ pairs, SepChar p.2) (hv : pairs.map (fun p => strictNumber p.1) = vs.map some)
    (hl : strictNumber last = some vl) (pre sep : List Char) (fuel : Nat) (hf : pairs.length < fuel) :
    (strWalk fuel (atPos sep (pre ++ sepJoin pairs last) pre.length)).1 = vs ++ [vl] := by
  induction pairs generalizing pre vs fuel with
  | nil =>
    cases vs with
    | cons _ _ => simp at hv
    | nil =>
      obtain ⟨f, rfl⟩ : ∃ f, fuel = f + 1 := ⟨fuel - 1, by omega⟩
      have hne := strict_ne_nil last vl hl
      have hlt : pre.length < (pre ++ last).length := by
        have : 0 < last.length := by cases last with | nil => exact absurd rfl hne | cons _ _ => simp
        simp; omega
      simp only [sepJoin]
      rw [strWalk]
      have hv1 : (atPos sep (pre ++ last) pre.length).hasValue = true := rfl
      rw [hv1]
      simp only [Bool.not_true, Bool.false_eq_true, ↓reduceIte]
      rw [conv_last sep pre last vl hl]
      simp only []
      rw [advance_last sep _ _ hlt]
      rfl
  | cons p more ih =>
    obtain ⟨t, c⟩ := p
    cases vs with
    | nil => simp at hv
    | cons v vs' =>
      simp only [List.map_cons, List.cons.injEq] at hv
      obtain ⟨ht, hv'⟩ := hv
      obtain ⟨f, rfl⟩ : ∃ f, fuel = f + 1 := ⟨fuel - 1, by omega⟩
      have hsep : SepChar c := hp (t, c) (by simp)
      have hrec := ih vs' (fun q hq => hp q (by simp [hq])) hv' (pre ++ t ++ [c]) f (by simp at hf; omega)
      have hlt : pre.length < (pre ++ (t ++ c :: sepJoin more last)).length := by simp; omega
      simp only [sepJoin]
      rw [strWalk]
      have hv1 : (atPos sep (pre ++ (t ++ c :: sepJoin more last)) pre.length).hasValue = true := rfl
      rw [hv1]
      simp only [Bool.not_true, Bool.false_eq_true, ↓reduceIte]
      rw [conv_mid sep pre t c _ v ht hsep]
      simp only []
      have hnl : NoLeadSpace ((pre ++ (t ++ c :: sepJoin more last)).drop (pre.length + t.length + 1)) := by
        have e : pre ++ (t ++ c :: sepJoin more last) = (pre ++ t ++ [c]) ++ sepJoin more last := by simp
        have l : pre.length + t.length + 1 = (pre ++ t ++ [c]).length := by simp; omega
        rw [e, l, List.drop_left]
        exact sepJoin_noLead more last vs' vl hv' hl
      rw [advance_mid sep _ _ _ hlt hnl]
      simp only []
      have htxt : pre ++ (t ++ c :: sepJoin more last) = (pre ++ t ++ [c]) ++ sepJoin more last := by simp
      have hpos : pre.length + t.length + 1 = (pre ++ t ++ [c]).length := by simp; omega
      rw [htxt, hpos, hrec]
      rfl

end Mpt.Iter
