/-
  C04: `mpt_slice_write` appends whole blocks to the window of a slice; other handles keep their values.
-/
import MptModel.Lemmas.HeapOwn
import MptModel.Lemmas.HeapXX
namespace Mpt.Heap
open Mpt

theorem Inv.setWin {s : State} (inv : Inv s) (h : Nat) (w : Option Win) : Inv (s.setWin h w) :=
  ⟨inv.live, inv.ref, inv.used, inv.plain, inv.aligned⟩

theorem State.win_lt {s : State} {h : Nat} {w : Win} (e : s.win h = some w) : h < s.wins.length := by
  unfold State.win at e
  cases hx : s.wins[h]? with
  | none => rw [hx] at e; cases e
  | some v => exact (List.getElem?_eq_some_iff.mp hx).1

theorem State.win_setWin (s : State) (h : Nat) (w : Win) (hlt : h < s.wins.length) : (s.setWin h (some w)).win h = some w := by
  simp [State.win, State.setWin, hlt]

/-- the bytes of a region that lies inside the first `M` bytes -/
theorem sub_take (X : List Byte) (M off n : Nat) (h : off + n ≤ M) : ((X.take M).drop off).take n = (X.drop off).take n := by
  rw [List.drop_take, List.take_take, Nat.min_eq_left (by omega)]

theorem replaceBuf_wins {S : State} {dst : Nat} {set : Option Nat} (buf : Option Nat)
    (hb : ∀ b, buf = some b → ∃ x, (S.setHandle dst set).buf? b = some x ∧ PlainT x.traits) :
    ∀ (s3 : State) (v : Int), replaceBuf S dst set buf = .ok s3 v → s3.wins = S.wins := by
  intro s3 v e
  unfold replaceBuf at e
  cases buf with
  | none => simp only at e; cases e; rfl
  | some b =>
    obtain ⟨x, hx, hp⟩ := hb b rfl
    simp only at e
    rw [unref_plain hx hp] at e
    by_cases r0 : x.ref = 0
    · rw [if_pos r0] at e
      injection e with e1 _
      rw [← e1]; rfl
    · rw [if_neg r0] at e
      by_cases r1 : x.ref ≠ 1
      · rw [if_pos r1] at e
        injection e with e1 _
        rw [← e1]; rfl
      · rw [if_neg r1] at e
        injection e with e1 _
        rw [← e1]; rfl

/-- `_fast_append` on an owned untyped buffer: as many whole blocks as fit are stored behind the window -/
theorem fastAppend_own {s : State} {h b : Nat} {x : Buf} (inv : Inv s) (o : Own s h b x) (xt : x.traits = none) (w : Win)
    (wfit : w.off + w.len ≤ x.used) (nblk esz : Nat) (bytes : List Byte) (bl : bytes.length = nblk * esz)
    (hwl : h < s.wins.length) :
    ∃ s' k, fastAppend s h b w nblk esz bytes = .ok s' k ∧ k ≤ nblk ∧
      (nblk ≠ 0 → esz ≠ 0 → esz ≤ x.size - (w.off + w.len) → 1 ≤ k) ∧ Inv s' ∧ (∀ h', h' ≠ h → s'.abs h' = s.abs h') ∧
      s'.win h = some { off := w.off, len := w.len + k * esz } ∧
      Vec.sub (s'.abs h) w.off (w.len + k * esz) = Vec.sub x.content w.off w.len ++ Vec.blocks bytes k esz ∧
      (s'.abs h).length = max x.used (w.off + w.len + k * esz) := by
  have xu := inv.used b x o.hb
  unfold fastAppend
  rw [o.hb]
  simp only
  generalize hk : min nblk ((x.size - (w.off + w.len)) / esz) = k
  have kn : k ≤ nblk := by rw [← hk]; exact Nat.min_le_left _ _
  have kfit : k * esz ≤ x.size - (w.off + w.len) := by
    have : k ≤ (x.size - (w.off + w.len)) / esz := by rw [← hk]; exact Nat.min_le_right _ _
    exact Nat.le_trans (Nat.mul_le_mul_right _ this) (Nat.div_mul_le_self _ _)
  have pfit : w.off + w.len + k * esz ≤ x.size := by omega
  rw [if_neg (by omega)]
  have tl : (bytes.take (k * esz)).length = k * esz := by
    rw [List.length_take, bl]
    exact Nat.min_eq_left (Nat.mul_le_mul_right _ kn)
  have wl : (Mem.write x.data (w.off + w.len) (bytes.take (k * esz))).length = x.data.length :=
    write_length _ _ _ (by rw [tl]; exact pfit)
  have up := o.update inv { x with data := Mem.write x.data (w.off + w.len) (bytes.take (k * esz)), used := max x.used (w.off + w.len + k * esz) }
    o.ref rfl (by simp only [Buf.size, wl]; simp only [Buf.size] at pfit xu; omega) (by rw [xt]; exact PlainT.none)
    (by simp [xt, esize, Nat.mod_one])
  obtain ⟨inv', _, abs', oth', _⟩ := up
  refine ⟨_, k, rfl, kn, ?_, inv'.setWin _ _, oth', State.win_setWin _ _ _ hwl, ?_, ?_⟩
  · intro n0 e0 room
    rw [← hk]
    have : 1 ≤ (x.size - (w.off + w.len)) / esz := Nat.div_pos room (Nat.pos_of_ne_zero e0)
    omega
  rotate_left
  · show ((s.setBuf b _).abs h).length = _
    rw [abs']
    exact content_length _ (by simp only [Buf.size, wl]; simp only [Buf.size] at pfit xu; omega)
  show Vec.sub ((s.setBuf b _).abs h) _ _ = _
  rw [abs']
  simp only [Vec.sub, Vec.blocks, Buf.content]
  rw [sub_take _ _ _ _ (by omega), ← sub_take (Mem.write x.data (w.off + w.len) (bytes.take (k * esz))) (w.off + w.len + k * esz) w.off (w.len + k * esz) (by omega)]
  have twa := take_write_append x.data (w.off + w.len) (bytes.take (k * esz)) (by rw [tl]; exact pfit)
  rw [tl] at twa
  rw [twa, List.drop_append_of_le_length (by rw [List.length_take]; simp only [Buf.size] at pfit; omega)]
  have l1 : ((x.data.take (w.off + w.len)).drop w.off).length = w.len := by
    rw [List.length_drop, List.length_take]; simp only [Buf.size] at pfit; omega
  rw [List.take_of_length_le (by rw [List.length_append, l1, tl]; omega)]
  congr 1
  rw [sub_take _ _ _ _ wfit, List.drop_take]
  congr 1; omega

theorem move_front_take (d : List Byte) (off len : Nat) (h : off + len ≤ d.length) :
    (Mem.move d 0 off len).take len = (d.drop off).take len := by
  unfold Mem.move
  have rl : (Mem.read d off len).length = len := read_length _ _ _ h
  have := content_take_write d (Mem.read d off len) (by omega)
  rw [rl] at this
  rw [this]
  apply List.ext_getElem?
  intro i
  rw [getElem?_read, List.getElem?_take, List.getElem?_drop]

/-- the slow path of `mpt_slice_write`: a fresh buffer with the window data and all blocks -/
theorem sliceSlow_sem {S : State} (inv : Inv S) {h : Nat} (hlt : h < S.hs.length) (hwl : h < S.wins.length) (w : Win) (bx : Option Buf)
    (hk : match bx with
      | some x => w.off + w.len ≤ x.used
      | none => w.len = 0)
    (hbx : bx = (S.handle h).bind S.buf?)
    (nblk esz : Nat) (bytes : List Byte) (bl : bytes.length = nblk * esz) :
    match sliceSlow S h w bx nblk esz bytes with
    | .fault _ => False
    | .fail s' _ => Inv s' ∧ ∀ h', s'.abs h' = S.abs h'
    | .ok s' k => Inv s' ∧ k = nblk ∧ (∀ h', h' ≠ h → s'.abs h' = S.abs h') ∧
        s'.win h = some { off := 0, len := w.len + nblk * esz } ∧
        s'.abs h = Vec.sub (S.abs h) w.off w.len ++ bytes := by
  unfold sliceSlow
  simp only
  have hz : (S.newBuf (w.len + nblk * esz) 0).buf? S.bufs.length = some (State.fresh (w.len + nblk * esz) 0 none) := by
    rw [State.buf?_newBuf]; simp
  rw [hz]
  simp only
  generalize hkeep : sliceKeep bx w = keep
  have kl : keep.length = w.len ∧ keep = Vec.sub (S.abs h) w.off w.len := by
    cases bx with
    | none =>
      simp only [sliceKeep] at hk hkeep
      subst hkeep
      have : S.abs h = [] := by
        unfold State.abs
        cases hh : S.handle h with
        | none => rfl
        | some b =>
          rw [hh] at hbx
          simp only [Option.bind_some] at hbx
          show (match S.buf? b with
            | some x => x.content
            | none => []) = []
          rw [← hbx]
      simp [hk, this, Vec.sub]
    | some x =>
      simp only [sliceKeep] at hk hkeep
      subst hkeep
      cases hh : S.handle h with
      | none => rw [hh] at hbx; cases hbx
      | some b =>
        rw [hh] at hbx
        simp only [Option.bind_some] at hbx
        have xu := inv.used b x hbx.symm
        refine ⟨by rw [List.length_take, List.length_drop]; simp only [Buf.size] at xu; omega, ?_⟩
        rw [State.abs_of hh hbx.symm]
        simp only [Vec.sub, Buf.content]
        rw [sub_take _ _ _ _ hk]
  rw [if_neg (by simp [kl.1])]
  have tb : bytes.take (nblk * esz) = bytes := List.take_of_length_le (by omega)
  rw [tb]
  have asz := le_allocSize (w.len + nblk * esz)
  have dl : (Mem.write (State.fresh (w.len + nblk * esz) 0 none).data 0 (keep ++ bytes)).length = allocSize (w.len + nblk * esz) := by
    rw [write_length _ _ _ (by simp [State.fresh, kl.1, bl]; omega)]; simp [State.fresh]
  generalize hz' : ({ State.fresh (w.len + nblk * esz) 0 none with
      data := Mem.write (State.fresh (w.len + nblk * esz) 0 none).data 0 (keep ++ bytes), used := w.len + nblk * esz } : Buf) = z'
  have rs := replaceBuf_fresh_sem (s := S)
    (s2 := (setUsed (S.newBuf (w.len + nblk * esz) 0) S.bufs.length (State.fresh (w.len + nblk * esz) 0 none)
      (Mem.write (State.fresh (w.len + nblk * esz) 0 none).data 0 (keep ++ bytes)) (w.len + nblk * esz)).setWin h
        (some { off := 0, len := w.len + nblk * esz })) inv hlt (z := z') rfl (by simp [setUsed, State.setWin])
    (by
      intro c
      show (setUsed (S.newBuf (w.len + nblk * esz) 0) S.bufs.length _ _ _).buf? c = _
      simp only [setUsed]
      rw [State.buf?_setBuf _ _ _ _ (by simp), State.buf?_newBuf, hz']
      split <;> rfl)
    (by rw [← hz']; rfl) (by rw [← hz']; simp only [Buf.size, dl]; omega) (by rw [← hz']; exact PlainT.none)
    (by rw [← hz']; simp [State.fresh, esize, Nat.mod_one])
  have zc : z'.content = keep ++ bytes := by
    rw [← hz']
    simp only [Buf.content]
    have := content_take_write (State.fresh (w.len + nblk * esz) 0 none).data (keep ++ bytes) (by simp [State.fresh, kl.1, bl]; omega)
    rw [List.length_append, kl.1, bl] at this
    exact this
  have wn := replaceBuf_wins (S := (setUsed (S.newBuf (w.len + nblk * esz) 0) S.bufs.length (State.fresh (w.len + nblk * esz) 0 none)
      (Mem.write (State.fresh (w.len + nblk * esz) 0 none).data 0 (keep ++ bytes)) (w.len + nblk * esz)).setWin h
        (some { off := 0, len := w.len + nblk * esz })) (dst := h) (set := some S.bufs.length) (S.handle h)
    (by
      intro b eb
      obtain ⟨x, hx⟩ := inv.live h b eb
      refine ⟨x, ?_, inv.plain b x hx⟩
      have blt := State.buf?_lt hx
      show (setUsed (S.newBuf (w.len + nblk * esz) 0) S.bufs.length _ _ _).buf? b = _
      simp only [setUsed]
      rw [State.buf?_setBuf _ _ _ _ (by simp), State.buf?_newBuf, if_neg (by omega), if_neg (by omega)]
      exact hx)
  generalize replaceBuf _ h (some S.bufs.length) (S.handle h) = r at rs wn
  cases r with
  | fault e => exact rs
  | fail s3 e => exact ⟨rs.1, rs.2.2⟩
  | ok s3 v =>
    refine ⟨rs.1, rfl, rs.2.2.2, ?_, ?_⟩
    · have := wn s3 v rfl
      unfold State.win
      rw [this]
      exact State.win_setWin _ h _ hwl
    · rw [rs.2.2.1, zc, kl.2]


theorem winRepair_ok (w : Win) (used : Nat) (h : w.off + w.len ≤ used) : winRepair w used = w := by
  unfold winRepair
  rw [if_neg (by omega)]

theorem sub_length (v : List Byte) (off len : Nat) (h : off + len ≤ v.length) : (Vec.sub v off len).length = len := by
  simp [Vec.sub]; omega

theorem sub_all (A B : List Byte) : Vec.sub (A ++ B) 0 (A.length + B.length) = A ++ B := by
  simp only [Vec.sub, List.drop_zero]
  exact List.take_of_length_le (by simp)

/-- `mpt_slice_write`: whole blocks are appended to the window of the slice handle (`k ≤ nblk` of them; all when a
    new buffer is needed); every other handle keeps its value; a typed buffer is refused without a change -/
theorem sliceWrite_sem (s : State) (h nblk esz : Nat) (bytes : List Byte) (w : Win) (inv : Inv s) (hlt : h < s.hs.length)
    (e0 : esz ≠ 0) (bl : bytes.length = nblk * esz) (hw : s.win h = some w) (wfit : w.off + w.len ≤ (s.abs h).length) :
    match sliceWrite s h nblk esz bytes with
    | .fault _ => False
    | .fail s' _ => Inv s' ∧ ∀ h', s'.abs h' = s.abs h'
    | .ok s' k => Inv s' ∧ k ≤ nblk ∧ (nblk ≠ 0 → 1 ≤ k) ∧ (∀ h', h' ≠ h → s'.abs h' = s.abs h') ∧
        ∃ w', s'.win h = some w' ∧
          Vec.sub (s'.abs h) w'.off w'.len = Vec.sub (s.abs h) w.off w.len ++ Vec.blocks bytes k esz ∧
          ((s'.abs h).length - (w'.off + w'.len) = 0 ∨
            (s'.abs h).length - (w'.off + w'.len) = (s.abs h).length - (w.off + w.len) - k * esz) := by
  have hwl := State.win_lt hw
  have hwl' : ∀ v, h < (s.setWin h v).wins.length := by intro v; simp [State.setWin]; exact hwl
  have blk : Vec.blocks bytes nblk esz = bytes := by
    unfold Vec.blocks; exact List.take_of_length_le (by omega)
  have slow : ∀ (bx : Option Buf), (match bx with
        | some x => w.off + w.len ≤ x.used
        | none => w.len = 0) → bx = (s.handle h).bind s.buf? →
      match sliceSlow (s.setWin h (some w)) h w bx nblk esz bytes with
      | .fault _ => False
      | .fail s' _ => Inv s' ∧ ∀ h', s'.abs h' = s.abs h'
      | .ok s' k => Inv s' ∧ k ≤ nblk ∧ (nblk ≠ 0 → 1 ≤ k) ∧ (∀ h', h' ≠ h → s'.abs h' = s.abs h') ∧
          ∃ w', s'.win h = some w' ∧
            Vec.sub (s'.abs h) w'.off w'.len = Vec.sub (s.abs h) w.off w.len ++ Vec.blocks bytes k esz ∧
            ((s'.abs h).length - (w'.off + w'.len) = 0 ∨
              (s'.abs h).length - (w'.off + w'.len) = (s.abs h).length - (w.off + w.len) - k * esz) := by
    intro bx hk hbx
    have ss := sliceSlow_sem (S := s.setWin h (some w)) (inv.setWin _ _) hlt (hwl' _) w bx hk hbx nblk esz bytes bl
    generalize sliceSlow (s.setWin h (some w)) h w bx nblk esz bytes = r at ss
    cases r with
    | fault e => exact ss
    | fail s' e => exact ss
    | ok s' k =>
      obtain ⟨inv', ek, oth, win', abs'⟩ := ss
      have : (Vec.sub ((s.setWin h (some w)).abs h) w.off w.len).length = w.len := sub_length _ _ _ wfit
      refine ⟨inv', by omega, fun _ => by omega, oth, _, win', ?_, Or.inl ?_⟩
      · rw [abs', ek, blk]
        have sa := sub_all (Vec.sub ((s.setWin h (some w)).abs h) w.off w.len) bytes
        rw [this, bl] at sa
        exact sa
      · rw [abs', List.length_append, this, bl]
        show w.len + nblk * esz - (0 + (w.len + nblk * esz)) = 0
        omega
  unfold sliceWrite
  simp only [hw, Option.getD_some]
  cases hh : s.handle h with
  | none =>
    simp only
    have a0 : s.abs h = [] := State.abs_none hh
    rw [a0] at wfit
    simp only [List.length_nil] at wfit
    rw [winRepair_ok w 0 wfit]
    exact slow none (by show w.len = 0; omega) (by rw [hh]; rfl)
  | some b =>
    simp only
    obtain ⟨x, hb⟩ := inv.live h b hh
    rw [hb]
    simp only
    by_cases typed : x.traits.isSome = true
    · rw [if_pos typed]; exact ⟨inv, fun _ => rfl⟩
    · rw [if_neg typed]
      have xt : x.traits = none := by cases ht : x.traits with
        | none => rfl
        | some t => rw [ht] at typed; simp at typed
      have xu := inv.used b x hb
      have absx : s.abs h = x.content := State.abs_of hh hb
      have wf' : w.off + w.len ≤ x.used := by rw [absx, content_length x xu] at wfit; exact wfit
      rw [winRepair_ok w x.used wf']
      have slowx := slow (some x) wf' (by rw [hh]; simp [hb])
      by_cases priv : ¬ (x.immutable = true ∨ x.shared = true)
      · rw [if_pos priv]
        simp only [not_or, Bool.not_eq_true] at priv
        have r1 : x.ref = 1 := by
          have := (inv.ref b x hb).2
          have ns := priv.2
          simp only [Buf.shared, decide_eq_false_iff_not] at ns
          omega
        have o : Own (s.setWin h (some w)) h b x := ⟨hh, hb, r1, priv.1⟩
        by_cases n0 : nblk = 0
        · rw [if_pos n0]
          refine ⟨inv.setWin _ _, by omega, fun c => absurd n0 c, fun _ _ => rfl, w, State.win_setWin _ _ _ hwl, ?_, Or.inr ?_⟩
          · simp [Vec.blocks]
            rfl
          · show (s.abs h).length - (w.off + w.len) = (s.abs h).length - (w.off + w.len) - 0 * esz
            omega
        · rw [if_neg n0]
          by_cases fast : x.size - (w.off + w.len) ≥ esz
          · rw [if_pos fast]
            obtain ⟨s', k, q, kn, k1, inv', oth, win', sub', len'⟩ := fastAppend_own (inv.setWin _ _) o xt w wf' nblk esz bytes bl (hwl' _)
            rw [q]
            refine ⟨inv', kn, fun c => k1 c e0 fast, oth, _, win', by rw [sub', absx], ?_⟩
            rw [len', absx, content_length x xu]
            show max x.used (w.off + w.len + k * esz) - (w.off + (w.len + k * esz)) = 0 ∨
              max x.used (w.off + w.len + k * esz) - (w.off + (w.len + k * esz)) = x.used - (w.off + w.len) - k * esz
            generalize k * esz = t
            omega
          · rw [if_neg fast]
            by_cases front : w.off ≠ 0 ∧ x.size - (w.off + w.len) + w.off ≥ esz
            · rw [if_pos front]
              have dlen : (if w.len ≠ 0 then Mem.move x.data 0 w.off w.len else x.data).length = x.data.length := by
                split
                · exact move_length _ _ _ _ (by simp only [Buf.size] at xu; omega) (by simp only [Buf.size] at xu; omega)
                · rfl
              have up := o.update (inv.setWin _ _) { x with data := (if w.len ≠ 0 then Mem.move x.data 0 w.off w.len else x.data), used := w.len }
                r1 rfl (by simp only [Buf.size, dlen]; simp only [Buf.size] at xu; omega) (by rw [xt]; exact PlainT.none)
                (by simp [xt, esize, Nat.mod_one])
              obtain ⟨inv1, o1, _, oth1, _⟩ := up
              have o1' : Own (sliceFront (s.setWin h (some w)) h b x w) h b
                  { x with data := (if w.len ≠ 0 then Mem.move x.data 0 w.off w.len else x.data), used := w.len } :=
                ⟨o1.hh, o1.hb, o1.ref, o1.wr⟩
              obtain ⟨s', k, q, kn, k1, inv', oth, win', sub', len'⟩ := fastAppend_own (s := sliceFront (s.setWin h (some w)) h b x w)
                (inv1.setWin _ _) o1' xt { off := 0, len := w.len } (by simp) nblk esz bytes bl
                (by simp only [sliceFront, setUsed, State.setWin, State.setBuf, List.length_set]; exact hwl)
              rw [q]
              refine ⟨inv', kn, fun c => k1 c e0 ?_, fun h' ne => ?_, _, win', ?_, Or.inl ?_⟩
              rotate_right
              · rw [len']
                show max w.len (0 + w.len + k * esz) - (0 + (w.len + k * esz)) = 0
                generalize k * esz = t
                omega
              · show esz ≤ (if w.len ≠ 0 then Mem.move x.data 0 w.off w.len else x.data).length - (0 + w.len)
                rw [dlen]
                have := front.2
                simp only [Buf.size] at this xu ⊢
                omega
              · rw [oth h' ne]; exact oth1 h' ne
              · rw [sub']
                congr 1
                rw [absx]
                simp only [Vec.sub, Buf.content, List.drop_zero, List.take_take, Nat.min_self]
                rw [sub_take _ _ _ _ wf']
                by_cases l0 : w.len = 0
                · simp [l0]
                · rw [if_pos l0]
                  exact move_front_take _ _ _ (by simp only [Buf.size] at xu; omega)
            · rw [if_neg front]; exact slowx
      · rw [if_neg priv]; exact slowx

end Mpt.Heap
