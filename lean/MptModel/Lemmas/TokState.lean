/-
  C05, layer 4: heaps of buffers with constructor/destructor element types: structural invariant `InvM`,
  the tokens stored in the live buffers, the token invariant in pointwise form (`TokP`), and the master lemma
  `run_delta` that turns "these tokens were destroyed, these were created" into a legal run of the spec.
-/
import MptModel.Lemmas.TokLoops
namespace Mpt.Heap
open Mpt

/-- element traits with constructor and destructor, elements of at least four bytes (they hold a token) -/
def Managed (t : Traits) : Prop := t.init = true ∧ t.fini.isSome = true ∧ 4 ≤ t.size

/-- a well-formed buffer of managed elements -/
def GoodBuf (x : Buf) : Prop := ∃ t, x.traits = some t ∧ Managed t ∧ x.used ≤ x.size ∧ x.used % t.size = 0

/-- structural invariant: handles name live buffers, reference count = number of handles (not zero), every
    live buffer is a well-formed buffer of managed elements -/
structure InvM (s : State) : Prop where
  live : ∀ h b, s.handle h = some b → ∃ x, s.buf? b = some x
  ref : ∀ b x, s.buf? b = some x → x.ref = s.hs.count (some b) ∧ 1 ≤ x.ref
  good : ∀ b x, s.buf? b = some x → GoodBuf x

/-- tokens of an optional buffer -/
def bufToks : Option Buf → List Nat
  | some x => x.toks
  | none => []

/-- tokens stored in `[0, used)` of all live buffers -/
def stored (s : State) : List Nat := (List.range s.bufs.length).flatMap fun c => bufToks (s.buf? c)

theorem mem_stored {s : State} {t : Nat} : t ∈ stored s ↔ ∃ c x, s.buf? c = some x ∧ t ∈ x.toks := by
  unfold stored
  rw [List.mem_flatMap]
  constructor
  · rintro ⟨c, _, hc⟩
    cases hx : s.buf? c with
    | none => rw [hx] at hc; cases hc
    | some x => rw [hx] at hc; exact ⟨c, x, hx, hc⟩
  · rintro ⟨c, x, hx, ht⟩
    exact ⟨c, List.mem_range.mpr (State.buf?_lt hx), by rw [hx]; exact ht⟩

/-- token invariant, pointwise: per buffer no duplicates and below the counter, distinct buffers disjoint -/
structure TokP (s : State) : Prop where
  nodup : ∀ c x, s.buf? c = some x → x.toks.Nodup
  fresh : ∀ c x, s.buf? c = some x → ∀ t ∈ x.toks, t < s.next
  disj : ∀ c1 c2 x1 x2, c1 ≠ c2 → s.buf? c1 = some x1 → s.buf? c2 = some x2 → ∀ t, t ∈ x1.toks → t ∉ x2.toks

theorem nodup_flatMap_range (n : Nat) (f : Nat → List Nat) (h1 : ∀ c, c < n → (f c).Nodup)
    (h2 : ∀ c1 c2, c1 < n → c2 < n → c1 ≠ c2 → ∀ t, t ∈ f c1 → t ∉ f c2) : ((List.range n).flatMap f).Nodup := by
  induction n with
  | zero => simp
  | succ n ih =>
    rw [List.range_succ, List.flatMap_append]
    simp only [List.flatMap_cons, List.flatMap_nil, List.append_nil]
    rw [List.nodup_append]
    refine ⟨ih (fun c hc => h1 c (by omega)) (fun c1 c2 a b ne => h2 c1 c2 (by omega) (by omega) ne), h1 n (by omega), ?_⟩
    intro a ha b hb
    rw [List.mem_flatMap] at ha
    obtain ⟨c, hc, hac⟩ := ha
    have cl := List.mem_range.mp hc
    intro e
    subst e
    exact h2 c n (by omega) (by omega) (by omega) a hac hb

theorem TokP.nodup_stored {s : State} (tp : TokP s) : (stored s).Nodup := by
  apply nodup_flatMap_range
  · intro c _
    cases hx : s.buf? c with
    | none => simp [bufToks]
    | some x => exact tp.nodup c x hx
  · intro c1 c2 _ _ ne t h1 h2
    cases hx1 : s.buf? c1 with
    | none => rw [hx1] at h1; cases h1
    | some x1 =>
      cases hx2 : s.buf? c2 with
      | none => rw [hx2] at h2; cases h2
      | some x2 =>
        rw [hx1] at h1; rw [hx2] at h2
        exact tp.disj c1 c2 x1 x2 ne hx1 hx2 t h1 h2

theorem TokP.fresh_stored {s : State} (tp : TokP s) : ∀ t ∈ stored s, t < s.next := by
  intro t ht
  obtain ⟨c, x, hx, hm⟩ := mem_stored.mp ht
  exact tp.fresh c x hx t hm

/-- permutation of duplicate-free lists = same members -/
theorem perm_of_mem_iff {l m : List Nat} (hl : l.Nodup) (hm : m.Nodup) (h : ∀ t, t ∈ l ↔ t ∈ m) : l.Perm m :=
  (List.perm_ext_iff_of_nodup hl hm).mpr h

/-- master lemma: from the live set `l`, destroy `g1` (stored, distinct), create `m` fresh tokens (copy sources
    are live tokens outside `g1`), destroy `g2` (live after the first step, distinct): a legal run that ends in any
    duplicate-free list with exactly the remaining and the new tokens -/
theorem run_delta {l l' g1 g2 S : List Nat} {a m : Nat} {cre : List Ev}
    (hl : l.Nodup) (fresh : ∀ t ∈ l, t < a)
    (n1 : g1.Nodup) (s1 : ∀ t ∈ g1, t ∈ l)
    (cr : Creates S a cre m) (hS : ∀ k ∈ S, k ∈ l ∧ k ∉ g1)
    (n2 : g2.Nodup) (s2 : ∀ t ∈ g2, (t ∈ l ∧ t ∉ g1) ∨ (a ≤ t ∧ t < a + m))
    (hl' : l'.Nodup) (mem : ∀ t, t ∈ l' ↔ ((t ∈ l ∧ t ∉ g1) ∨ (a ≤ t ∧ t < a + m)) ∧ t ∉ g2) :
    Run l (g1.map Ev.fini ++ cre ++ g2.map Ev.fini) l' := by
  -- step 1
  have r1nd : (l.filter fun t => !g1.contains t).Nodup := hl.filter _
  have p1 : l.Perm (g1 ++ l.filter fun t => !g1.contains t) := by
    apply perm_of_mem_iff hl
    · rw [List.nodup_append]
      refine ⟨n1, r1nd, ?_⟩
      intro x hx y hy e
      subst e
      simp only [List.mem_filter, List.contains_eq_mem, Bool.not_eq_eq_eq_not, Bool.not_true, decide_eq_false_iff_not] at hy
      exact hy.2 hx
    · intro t
      simp only [List.mem_append, List.mem_filter, List.contains_eq_mem, Bool.not_eq_eq_eq_not, Bool.not_true, decide_eq_false_iff_not]
      constructor
      · intro h; by_cases c : t ∈ g1
        · exact Or.inl c
        · exact Or.inr ⟨h, c⟩
      · rintro (h | h)
        · exact s1 t h
        · exact h.1
  have run1 := Run.fini (toks := g1) p1
  -- step 2
  have memr1 : ∀ t, t ∈ (l.filter fun t => !g1.contains t) ↔ t ∈ l ∧ t ∉ g1 := by
    intro t; simp [List.mem_filter]
  have run2 := cr.run (l.filter fun t => !g1.contains t)
    (by intro t ht; exact fresh t ((memr1 t).mp ht).1)
    (by intro k hk; exact (memr1 k).mpr (hS k hk))
  -- step 3
  have nd2 : (seqFrom a m ++ l.filter fun t => !g1.contains t).Nodup := by
    rw [List.nodup_append]
    refine ⟨seqFrom_nodup a m, r1nd, ?_⟩
    intro x hx y hy e
    subst e
    have := fresh x ((memr1 x).mp hy).1
    have := mem_seqFrom.mp hx
    omega
  have mem2 : ∀ t, t ∈ (seqFrom a m ++ l.filter fun t => !g1.contains t) ↔ (t ∈ l ∧ t ∉ g1) ∨ (a ≤ t ∧ t < a + m) := by
    intro t
    rw [List.mem_append, memr1, mem_seqFrom]
    constructor
    · rintro (h | h); exact Or.inr h; exact Or.inl h
    · rintro (h | h); exact Or.inr h; exact Or.inl h
  have p3 : (seqFrom a m ++ l.filter fun t => !g1.contains t).Perm (g2 ++ l') := by
    apply perm_of_mem_iff nd2
    · rw [List.nodup_append]
      refine ⟨n2, hl', ?_⟩
      intro x hx y hy e
      subst e
      exact ((mem x).mp hy).2 hx
    · intro t
      rw [mem2, List.mem_append, mem]
      constructor
      · intro h
        by_cases c : t ∈ g2
        · exact Or.inl c
        · exact Or.inr ⟨h, c⟩
      · rintro (h | h)
        · exact s2 t h
        · exact h.1
  have run3 := Run.fini (toks := g2) p3
  exact (run1.append run2).append run3


/-! ### transfer of the token invariant -/

/-- every buffer of `s'` other than `nb` stores what the buffer with the same identity stored in `s`; the
    buffer `nb` (new, or rewritten) is checked separately -/
theorem TokP.transfer {s s' : State} (tp : TokP s) (nb : Nat) (hn : s.next ≤ s'.next)
    (old : ∀ c y, c ≠ nb → s'.buf? c = some y → ∃ y0, s.buf? c = some y0 ∧ y.toks = y0.toks)
    (new : ∀ z, s'.buf? nb = some z → z.toks.Nodup ∧ (∀ t ∈ z.toks, t < s'.next) ∧
      ∀ c y, c ≠ nb → s'.buf? c = some y → ∀ t, t ∈ z.toks → t ∉ y.toks) : TokP s' := by
  refine ⟨?_, ?_, ?_⟩
  · intro c y hy
    by_cases e : c = nb
    · subst e; exact (new y hy).1
    · obtain ⟨y0, h0, te⟩ := old c y e hy
      rw [te]; exact tp.nodup c y0 h0
  · intro c y hy t ht
    by_cases e : c = nb
    · subst e; exact (new y hy).2.1 t ht
    · obtain ⟨y0, h0, te⟩ := old c y e hy
      rw [te] at ht
      have := tp.fresh c y0 h0 t ht; omega
  · intro c1 c2 x1 x2 ne h1 h2 t t1 t2
    by_cases e1 : c1 = nb
    · subst e1
      exact (new x1 h1).2.2 c2 x2 (fun e => ne e.symm) h2 t t1 t2
    · by_cases e2 : c2 = nb
      · subst e2
        exact (new x2 h2).2.2 c1 x1 e1 h1 t t2 t1
      · obtain ⟨y1, g1, te1⟩ := old c1 x1 e1 h1
        obtain ⟨y2, g2, te2⟩ := old c2 x2 e2 h2
        rw [te1] at t1; rw [te2] at t2
        exact tp.disj c1 c2 y1 y2 ne g1 g2 t t1 t2

/-- no buffer changed what it stores -/
theorem TokP.same {s s' : State} (tp : TokP s) (hn : s.next ≤ s'.next)
    (old : ∀ c y, s'.buf? c = some y → ∃ y0, s.buf? c = some y0 ∧ y.toks = y0.toks) : TokP s' := by
  refine tp.transfer s'.bufs.length hn (fun c y _ hy => old c y hy) ?_
  intro z hz
  have := State.buf?_lt hz
  omega

/-! ### structural invariant: the same bookkeeping lemmas as for plain heaps -/

theorem InvM.unique {s : State} (inv : InvM s) {h h' b : Nat} {x : Buf} (hb : s.buf? b = some x) (hr : x.ref = 1)
    (hh : s.handle h = some b) (hh' : s.handle h' = some b) : h' = h := by
  have hc := (inv.ref b x hb).1
  rw [hr] at hc
  exact count_one_unique hc.symm (State.handle_eq_some.mp hh') (State.handle_eq_some.mp hh)

/-- one buffer is rewritten, its reference count is kept -/
theorem InvM.setBuf {s s' : State} (inv : InvM s) {b : Nat} {x x' : Buf} (hb : s.buf? b = some x)
    (fr : Frame s s' b) (hb' : s'.buf? b = some x') (r' : x'.ref = x.ref) (g' : GoodBuf x') : InvM s' := by
  have hh : ∀ h, s'.handle h = s.handle h := by intro h; simp [State.handle, fr.hs]
  refine ⟨?_, ?_, ?_⟩
  · intro h c e
    rw [hh] at e
    by_cases cb : c = b
    · subst cb; exact ⟨x', hb'⟩
    · rw [fr.other c cb]; exact inv.live h c e
  · intro c y e
    rw [fr.hs]
    by_cases cb : c = b
    · subst cb; rw [hb'] at e; cases e; rw [r']; exact inv.ref c x hb
    · rw [fr.other c cb] at e; exact inv.ref c y e
  · intro c y e
    by_cases cb : c = b
    · subst cb; rw [hb'] at e; cases e; exact g'
    · rw [fr.other c cb] at e; exact inv.good c y e

theorem InvM.congr {s s' : State} (inv : InvM s) (hbuf : ∀ c, s'.buf? c = s.buf? c) (hhs : s'.hs = s.hs) : InvM s' := by
  have hh : ∀ h, s'.handle h = s.handle h := by intro h; simp [State.handle, hhs]
  exact ⟨fun h b e => by rw [hh] at e; rw [hbuf]; exact inv.live h b e,
    fun b x e => by rw [hbuf] at e; rw [hhs]; exact inv.ref b x e,
    fun b x e => by rw [hbuf] at e; exact inv.good b x e⟩

theorem InvM.no_handle_of_dead {s : State} (inv : InvM s) {nb : Nat} (hnb : s.buf? nb = none) (h : Nat) :
    s.handle h ≠ some nb := by
  intro e
  obtain ⟨x, hx⟩ := inv.live h nb e
  rw [hnb] at hx; cases hx

theorem InvM.count_dead {s : State} (inv : InvM s) {nb : Nat} (hnb : s.buf? nb = none) : s.hs.count (some nb) = 0 := by
  rw [List.count_eq_zero]
  intro hm
  obtain ⟨i, hi, e⟩ := List.getElem_of_mem hm
  have : s.handle i = some nb := State.handle_eq_some.mpr (by rw [List.getElem?_eq_getElem hi, e])
  exact inv.no_handle_of_dead hnb i this

/-- handle `h` is pointed at a fresh private buffer `nb`, its old buffer loses one reference -/
theorem InvM.retarget {s s' : State} (inv : InvM s) {h nb : Nat} {z : Buf}
    (hlt : h < s.hs.length) (hnb : s.buf? nb = none) (hhs : s'.hs = s.hs.set h (some nb))
    (hbuf : ∀ c, s'.buf? c = if c = nb then some z else
      if s.handle h = some c then
        (match s.buf? c with
         | some x => if x.ref = 1 then none else some { x with ref := x.ref - 1 }
         | none => none)
      else s.buf? c)
    (zr : z.ref = 1) (zg : GoodBuf z) : InvM s' ∧ s'.handle h = some nb := by
  have hh : ∀ h1, s'.handle h1 = if h1 = h then some nb else s.handle h1 := by
    intro h1
    have := State.handle_setHandle s h h1 (some nb) hlt
    simp only [State.handle, State.setHandle] at this ⊢
    rw [hhs]; exact this
  have hdead := inv.no_handle_of_dead hnb
  have hcnt : ∀ c, s'.hs.count (some c) = (s.hs.count (some c) - if s.handle h = some c then 1 else 0) + if c = nb then 1 else 0 := by
    intro c
    rw [hhs, count_set_handle _ _ _ _ hlt]
    have e1 : (s.hs[h] = some c) ↔ (s.handle h = some c) := by
      rw [State.handle_eq_some, List.getElem?_eq_getElem hlt]; simp
    have e2 : (some nb = some c) ↔ (c = nb) := by
      constructor
      · intro e; cases e; rfl
      · intro e; rw [e]
    simp only [e1, e2]
  have two : ∀ h1 c x, h1 ≠ h → s.handle h1 = some c → s.handle h = some c → s.buf? c = some x → 2 ≤ x.ref := by
    intro h1 c x ne e1 e2 ex
    have r := inv.ref c x ex
    rcases Nat.lt_or_ge x.ref 2 with lt | ge
    · have : x.ref = 1 := by omega
      exact absurd (inv.unique ex this e2 e1) ne
    · exact ge
  refine ⟨⟨?_, ?_, ?_⟩, ?_⟩
  · intro h1 b1 e
    rw [hh] at e
    rw [hbuf]
    split at e
    · cases e; simp
    · rename_i ne
      have nb1 : b1 ≠ nb := by intro eq; subst eq; exact hdead h1 e
      simp only [nb1, if_false]
      obtain ⟨x, hx⟩ := inv.live h1 b1 e
      split
      · rename_i e2
        rw [hx]
        have := two h1 b1 x ne e e2 hx
        have : ¬ x.ref = 1 := by omega
        simp [this]
      · exact ⟨x, hx⟩
  · intro c y e
    rw [hbuf] at e
    rw [hcnt]
    split at e
    · rename_i eq; cases e
      subst eq
      have := inv.count_dead hnb
      have hd : ¬ s.handle h = some c := hdead h
      simp [hd, this, zr]
    · rename_i ne
      simp only [ne, if_false, Nat.add_zero]
      split at e
      · rename_i e2
        cases hx : s.buf? c with
        | none => rw [hx] at e; cases e
        | some x =>
          rw [hx] at e
          simp only at e
          split at e
          · cases e
          · rename_i n1
            cases e
            have := inv.ref c x hx
            simp [e2]
            omega
      · rename_i e2
        have := inv.ref c y e
        simp [e2]
        exact this
  · intro c y e
    rw [hbuf] at e
    split at e
    · cases e; exact zg
    · split at e
      · cases hx : s.buf? c with
        | none => rw [hx] at e; cases e
        | some x =>
          rw [hx] at e; simp only at e
          split at e
          · cases e
          · cases e
            obtain ⟨t, ht, m, u, a⟩ := inv.good c x hx
            exact ⟨t, ht, m, u, a⟩
      · exact inv.good c y e
  · rw [hh]; simp


/-- handle `h` is re-pointed from its buffer (one reference less, freed at zero) to the live buffer `new`
    (one reference more) or to nothing -/
theorem InvM.reassign {s s' : State} (inv : InvM s) {h : Nat} (hlt : h < s.hs.length) (new : Option Nat)
    (hnew : ∀ a, new = some a → ∃ x, s.buf? a = some x)
    (hne : s.handle h ≠ new)
    (hhs : s'.hs = s.hs.set h new)
    (hbuf : ∀ c, s'.buf? c =
      if new = some c then (s.buf? c).map (fun x => { x with ref := x.ref + 1 })
      else if s.handle h = some c then
        (match s.buf? c with
         | some x => if x.ref = 1 then none else some { x with ref := x.ref - 1 }
         | none => none)
      else s.buf? c) : InvM s' := by
  have hh : ∀ h1, s'.handle h1 = if h1 = h then new else s.handle h1 := by
    intro h1
    have := State.handle_setHandle s h h1 new hlt
    simp only [State.handle, State.setHandle] at this ⊢
    rw [hhs]; exact this
  have hcnt : ∀ c, s'.hs.count (some c) = (s.hs.count (some c) - if s.handle h = some c then 1 else 0) + if new = some c then 1 else 0 := by
    intro c
    rw [hhs, count_set_handle _ _ _ _ hlt]
    have e1 : (s.hs[h] = some c) ↔ (s.handle h = some c) := by
      rw [State.handle_eq_some, List.getElem?_eq_getElem hlt]; simp
    simp only [e1]
  have two : ∀ h1 c x, h1 ≠ h → s.handle h1 = some c → s.handle h = some c → s.buf? c = some x → 2 ≤ x.ref := by
    intro h1 c x ne e1 e2 ex
    have r := inv.ref c x ex
    rcases Nat.lt_or_ge x.ref 2 with lt | ge
    · have : x.ref = 1 := by omega
      exact absurd (inv.unique ex this e2 e1) ne
    · exact ge
  have cases3 : ∀ c y, s'.buf? c = some y →
      (new = some c ∧ ∃ x, s.buf? c = some x ∧ y = { x with ref := x.ref + 1 }) ∨
      (new ≠ some c ∧ s.handle h = some c ∧ ∃ x, s.buf? c = some x ∧ x.ref ≠ 1 ∧ y = { x with ref := x.ref - 1 }) ∨
      (new ≠ some c ∧ s.handle h ≠ some c ∧ s.buf? c = some y) := by
    intro c y e
    rw [hbuf] at e
    by_cases n1 : new = some c
    · rw [if_pos n1] at e
      cases hx : s.buf? c with
      | none => rw [hx] at e; cases e
      | some x => rw [hx] at e; simp only [Option.map_some, Option.some.injEq] at e; exact Or.inl ⟨n1, x, rfl, e.symm⟩
    · rw [if_neg n1] at e
      by_cases o1 : s.handle h = some c
      · rw [if_pos o1] at e
        cases hx : s.buf? c with
        | none => rw [hx] at e; cases e
        | some x =>
          rw [hx] at e; simp only at e
          by_cases r1 : x.ref = 1
          · rw [if_pos r1] at e; cases e
          · rw [if_neg r1] at e; cases e; exact Or.inr (Or.inl ⟨n1, o1, x, rfl, r1, rfl⟩)
      · rw [if_neg o1] at e; exact Or.inr (Or.inr ⟨n1, o1, e⟩)
  refine ⟨?_, ?_, ?_⟩
  · intro h1 b1 e
    rw [hh] at e
    rw [hbuf]
    by_cases e1 : h1 = h
    · rw [if_pos e1] at e
      obtain ⟨x, hx⟩ := hnew b1 e
      simp [e, hx]
    · rw [if_neg e1] at e
      obtain ⟨x, hx⟩ := inv.live h1 b1 e
      by_cases n1 : new = some b1
      · simp [n1, hx]
      · rw [if_neg n1]
        by_cases o1 : s.handle h = some b1
        · have := two h1 b1 x e1 e o1 hx
          have : ¬ x.ref = 1 := by omega
          simp [o1, hx, this]
        · simp [o1, hx]
  · intro c y e
    rw [hcnt]
    rcases cases3 c y e with ⟨n1, x, hx, ey⟩ | ⟨n1, o1, x, hx, r1, ey⟩ | ⟨n1, o1, ey⟩
    · have r := inv.ref c x hx
      have o1 : ¬ s.handle h = some c := by intro o; exact hne (o.trans n1.symm)
      subst ey
      simp only [o1, n1, if_true, if_false]
      omega
    · have r := inv.ref c x hx
      subst ey
      simp only [o1, n1, if_true, if_false]
      omega
    · have r := inv.ref c y ey
      simp only [o1, n1, if_false]
      omega
  · intro c y e
    rcases cases3 c y e with ⟨_, x, hx, ey⟩ | ⟨_, _, x, hx, _, ey⟩ | ⟨_, _, ey⟩
    · subst ey; obtain ⟨t, ht, m, u, a⟩ := inv.good c x hx; exact ⟨t, ht, m, u, a⟩
    · subst ey; obtain ⟨t, ht, m, u, a⟩ := inv.good c x hx; exact ⟨t, ht, m, u, a⟩
    · exact inv.good c y ey

end Mpt.Heap
