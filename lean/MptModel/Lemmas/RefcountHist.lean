/-
  C15 helper lemmas, second file: object creation, "never later" as a relation between states that every
  operation respects (`Mono`), and completeness of the cascade that destroys the handles of destroyed owners.
-/
import MptModel.Lemmas.Refcount

namespace Mpt.Refcount

/-- the objects after appending one -/
theorem obj_push (s : St) (nb : RObj) (ev : List Ev) (x : Nat) :
    ({ s with objs := s.objs ++ [nb], ev := ev } : St).obj x = if x = s.objs.length then nb else s.obj x := by
  unfold St.obj
  simp only [List.getD_eq_getElem?_getD]
  by_cases hx : x = s.objs.length
  · subst hx; simp
  · simp only [hx, ↓reduceIte]
    rcases Nat.lt_or_ge x s.objs.length with hl | hl
    · rw [List.getElem?_append_left hl]
    · have : s.objs.length + 1 ≤ x := by omega
      rw [List.getElem?_eq_none (by simp; omega), List.getElem?_eq_none hl]

/-- a new object whose creator holds `n` references -/
theorem create_inv (s : St) (nb : RObj) (ev : List Ev) (hI : Inv s)
    (hn : nb.count = nb.ext ∧ nb.count ≤ MAXV ∧ nb.alive = true) :
    Inv { s with objs := s.objs ++ [nb], ev := ev } := by
  intro x
  obtain ⟨h1, h2, h3⟩ := hI x
  rw [obj_push]
  show _ = _ + (hrefs s.hnd x : Int) + _ ∧ _
  by_cases hx : x = s.objs.length
  · subst hx
    simp only [↓reduceIte]
    have hd : s.obj s.objs.length = default := by
      unfold St.obj; rw [List.getD_eq_getElem?_getD, List.getElem?_eq_none (Nat.le_refl _)]; rfl
    rw [hd] at h1
    have hz : ((default : RObj).count : Int) = 0 := by decide
    have hz2 : ((default : RObj).ext : Int) = 0 := by decide
    rw [hz, hz2] at h1
    simp only [Int.add_zero] at h1 ⊢
    refine ⟨by rw [hn.1]; omega, hn.2.1, fun h => by rw [hn.2.2] at h; cases h⟩
  · simp only [hx, ↓reduceIte]; exact ⟨h1, h2, h3⟩

/-! ### never later -/

/-- `s'` comes after `s`: no object disappears, a destroyed object stays destroyed, and an object that had a
    positive counter and has counter 0 now IS destroyed -/
def Mono (s s' : St) : Prop :=
  s.objs.length ≤ s'.objs.length ∧
  ∀ x, x < s.objs.length →
    ((s.obj x).alive = false → (s'.obj x).alive = false) ∧
    (0 < (s.obj x).count → (s'.obj x).count = 0 → (s'.obj x).alive = false)

theorem Mono.refl (s : St) : Mono s s := by
  refine ⟨Nat.le_refl _, fun x _ => ⟨fun h => h, fun h1 h2 => by omega⟩⟩

theorem Mono.trans {s s1 s2 : St} (a : Mono s s1) (b : Mono s1 s2) : Mono s s2 := by
  refine ⟨Nat.le_trans a.1 b.1, fun x hx => ?_⟩
  have hx1 : x < s1.objs.length := Nat.lt_of_lt_of_le hx a.1
  obtain ⟨a1, a2⟩ := a.2 x hx
  obtain ⟨b1, b2⟩ := b.2 x hx1
  refine ⟨fun h => b1 (a1 h), fun hp hz => ?_⟩
  by_cases h0 : (s1.obj x).count = 0
  · exact b1 (a2 hp h0)
  · exact b2 (by omega) hz

/-- states whose objects have the same counters and flags -/
theorem mono_of_same (s s' : St) (hl : s.objs.length ≤ s'.objs.length)
    (h : ∀ x, x < s.objs.length → (s'.obj x).count = (s.obj x).count ∧ (s'.obj x).alive = (s.obj x).alive) : Mono s s' := by
  refine ⟨hl, fun x hx => ?_⟩
  obtain ⟨c, a⟩ := h x hx
  rw [c, a]
  exact ⟨fun h => h, fun h1 h2 => by omega⟩

theorem raise_ne_zero (v : Nat) (h : v ≠ 0) : (raise v).1 ≠ 0 := by
  unfold raise
  simp only [h, ↓reduceIte]
  split
  · assumption
  · rename_i hw
    have hw' : (v + 1) % (MAXV + 1) = 0 := by simpa using hw
    rw [hw']; simp [MAXV]

theorem addref_len (s : St) (o : Nat) : (s.addref o).1.objs.length = s.objs.length := by
  have := addref_shape s o; simp only [St.shape, Prod.mk.injEq] at this; exact this.1

theorem unref_len (s : St) (o : Nat) : (s.unref o).objs.length = s.objs.length := by
  have := unref_shape s o; simp only [St.shape, Prod.mk.injEq] at this; exact this.1

theorem addref_mono (s : St) (o : Nat) : Mono s (s.addref o).1 := by
  refine ⟨by rw [addref_len]; exact Nat.le_refl _, fun x _ => ?_⟩
  rw [addref_obj]
  split
  · rename_i h
    obtain ⟨rfl, ha⟩ := h
    refine ⟨fun hd => (by rw [ha] at hd; cases hd), fun hp hz => ?_⟩
    exact absurd hz (raise_ne_zero _ (by omega))
  · exact ⟨fun h => h, fun h1 h2 => by omega⟩

theorem unref_mono (s : St) (o : Nat) : Mono s (s.unref o) := by
  refine ⟨by rw [unref_len]; exact Nat.le_refl _, fun x _ => ?_⟩
  rw [unref_obj]
  split
  · rename_i h
    obtain ⟨rfl, ha⟩ := h
    refine ⟨fun hd => (by rw [ha] at hd; cases hd), fun hp hz => ?_⟩
    have hne : (s.obj x).count ≠ 0 := by omega
    have e : (lower (s.obj x).count).2 = (lower (s.obj x).count).1 := by
      unfold lower; simp only [hne, ↓reduceIte]
    simp only [] at hz ⊢
    rw [e, hz]; simp
  · exact ⟨fun h => h, fun h1 h2 => by omega⟩

/-- a change of the handles alone -/
theorem mono_hnd {s s' : St} (a : Mono s s') (hnd : List (Option Nat)) : Mono s { s' with hnd := hnd } := a

theorem take_mono (s : St) (h o : Nat) : Mono s (s.take h o).1 := by
  unfold St.take; split
  · exact addref_mono s o
  · exact mono_hnd (addref_mono s o) _

theorem copy_mono (s : St) (h g : Nat) : Mono s (s.copy h g).1 := by
  unfold St.copy; split
  · exact Mono.refl s
  · exact take_mono s h _

theorem drop_mono (s : St) (h : Nat) : Mono s (s.drop h) := by
  unfold St.drop; split
  · exact Mono.refl s
  · exact mono_hnd (unref_mono s _) _

theorem retain_mono (s : St) (src : Option Nat) : Mono s (s.retain src).1 := by
  unfold St.retain; split
  · exact Mono.refl s
  · exact addref_mono s _

theorem release_mono (s : St) (old : Option Nat) : Mono s (s.release old) := by
  unfold St.release; split
  · exact Mono.refl s
  · exact unref_mono s _

theorem assignMeta_mono (s : St) (h : Nat) (src : Option Nat) : Mono s (s.assignMeta h src).1 := by
  unfold St.assignMeta; split
  · exact retain_mono s src
  · exact mono_hnd ((retain_mono s src).trans (release_mono _ _)) _

theorem assignArr_mono (s : St) (h : Nat) (src : Option Nat) : Mono s (s.assignArr h src).1 := by
  unfold St.assignArr; split
  · exact Mono.refl s
  · split
    · exact Mono.refl s
    · split
      · exact retain_mono s src
      · exact (mono_hnd (retain_mono s src) _).trans (release_mono _ _)

/-- an update of one object that keeps its counter and flag -/
theorem mono_setobj (s : St) (o : Nat) (x : RObj) (hc : x.count = (s.obj o).count) (ha : x.alive = (s.obj o).alive) :
    Mono s { s with objs := s.objs.set o x } := by
  refine mono_of_same s _ (by simp) (fun y _ => ?_)
  have e : ({ s with objs := s.objs.set o x } : St).obj y = if y = o ∧ o < s.objs.length then x else s.obj y := by
    unfold St.obj; exact getD_set _ _ _ _
  rw [e]
  split
  · rename_i h; rw [h.1]; exact ⟨hc, ha⟩
  · exact ⟨rfl, rfl⟩

theorem extAdd_mono (s : St) (o : Nat) : Mono s (s.extAdd o).1 := by
  unfold St.extAdd; split
  · exact (addref_mono s o).trans (mono_setobj _ o _ rfl rfl)
  · exact addref_mono s o

theorem extUnref_mono (s : St) (o : Nat) : Mono s (s.extUnref o) := by
  unfold St.extUnref
  exact (unref_mono s o).trans (mono_setobj _ o _ rfl rfl)

theorem push_mono (s : St) (nb : RObj) (ev : List Ev) : Mono s { s with objs := s.objs ++ [nb], ev := ev } := by
  refine mono_of_same s _ (by simp) (fun y hy => ?_)
  rw [obj_push]
  have : ¬ y = s.objs.length := by omega
  simp only [this, ↓reduceIte, and_self]

theorem relocateWith_mono (s : St) (h o newcap : Nat) (clear : Bool) (els : List Nat) :
    Mono s (s.relocateWith h o newcap clear els) := by
  unfold St.relocateWith
  simp only []
  have a : Mono s (if clear = true then ({ s with objs := s.objs.set o { (s.obj o) with elems := [] } } : St)
      else { s with elog := s.elog ++ els.map ElEv.copy }) := by
    split
    · exact mono_setobj s o _ rfl rfl
    · exact Mono.refl s
  exact mono_hnd ((a.trans (unref_mono _ o)).trans (push_mono _ _ _)) _

theorem detach_mono (s : St) (h len : Nat) : Mono s (s.detach h len).1 := by
  unfold St.detach; split
  · exact Mono.refl s
  · simp only []
    (repeat' split) <;> first | exact Mono.refl s | exact relocateWith_mono _ _ _ _ _ _

theorem reserve_mono (s : St) (h len : Nat) : Mono s (s.reserve h len).1 := by
  unfold St.reserve; split
  · exact mono_hnd (push_mono s _ _) _
  · split
    · exact relocateWith_mono _ _ _ _ _ _
    · exact detach_mono s h len

theorem exec_mono (s : St) (op : Op) : Mono s (s.exec op).1 := by
  unfold St.exec
  split
  · exact Mono.refl s
  · cases op with
    | create k n els => exact push_mono s _ _
    | take h o => exact take_mono s h o
    | copy h g => exact copy_mono s h g
    | drop h => exact drop_mono s h
    | assignMeta h src => exact assignMeta_mono s h src
    | assignArr h src => exact assignArr_mono s h src
    | extAdd o => exact extAdd_mono s o
    | extUnref o => exact extUnref_mono s o
    | detach h len => exact detach_mono s h len
    | reserve h len => exact reserve_mono s h len

theorem run_mono (ops : List Op) (s : St) : Mono s (run s ops) := by
  induction ops generalizing s with
  | nil => exact Mono.refl s
  | cons op ops ih => exact (exec_mono s op).trans (ih _)

/-! ### the C++ handle operations -/

theorem assignRef_mono (s : St) (h : Nat) (src : Option Nat) : Mono s (s.assignRef h src) := by
  unfold St.assignRef; split
  · exact Mono.refl s
  · exact mono_hnd ((retain_mono s src).trans (release_mono _ _)) _

theorem moveRef_mono (s : St) (h g : Nat) : Mono s (s.moveRef h g) := by
  unfold St.moveRef; split
  · exact Mono.refl s
  · exact mono_hnd ((mono_hnd (Mono.refl s) _).trans (release_mono _ _)) _

theorem detachRef_mono (s : St) (h : Nat) : Mono s (s.detachRef h) := by
  unfold St.detachRef; split
  · exact Mono.refl s
  · refine mono_of_same s _ (by simp) (fun y _ => ?_)
    unfold St.obj
    simp only [getD_set]
    split
    · rename_i hc; rw [hc.1]; exact ⟨rfl, rfl⟩
    · exact ⟨rfl, rfl⟩

theorem cascade_mono (s : St) (nroot fuel : Nat) : Mono s (s.cascade nroot fuel) := by
  induction fuel generalizing s with
  | zero => exact Mono.refl s
  | succ n ih =>
    unfold St.cascade
    split
    · exact Mono.refl s
    · exact (drop_mono s _).trans (ih _)

/-! ### the cascade finishes -/

/-- handle slots owned by objects that refer to something -/
def filled (s : St) (nroot : Nat) : Nat :=
  ((List.range s.objs.length).filter fun o => (s.hnd.getD (nroot + o) none).isSome).length

theorem filter_length_lt {α : Type} (l : List α) (p q : α → Bool) (hpq : ∀ x, q x = true → p x = true)
    (a : α) (ha : a ∈ l) (hp : p a = true) (hq : q a = false) : (l.filter q).length < (l.filter p).length := by
  induction l with
  | nil => cases ha
  | cons b r ih =>
    have hle : (r.filter q).length ≤ (r.filter p).length := by
      clear ih ha
      induction r with
      | nil => simp
      | cons c t iht =>
        simp only [List.filter_cons]
        by_cases hqc : q c = true
        · simp only [hqc, hpq c hqc, ↓reduceIte, List.length_cons]; omega
        · by_cases hpc : p c = true
          · simp only [hqc, hpc, ↓reduceIte, List.length_cons, Bool.false_eq_true]; omega
          · simp only [hqc, hpc, ↓reduceIte, Bool.false_eq_true]; exact iht
    simp only [List.filter_cons]
    rcases List.mem_cons.mp ha with e | hm
    · subst e
      simp only [hp, hq, ↓reduceIte, List.length_cons, Bool.false_eq_true]; omega
    · have := ih hm
      by_cases hqb : q b = true
      · simp only [hqb, hpq b hqb, ↓reduceIte, List.length_cons]; omega
      · by_cases hpb : p b = true
        · simp only [hqb, hpb, ↓reduceIte, List.length_cons, Bool.false_eq_true]; omega
        · simp only [hqb, hpb, ↓reduceIte, Bool.false_eq_true]; exact this

theorem drop_len (s : St) (h : Nat) : (s.drop h).objs.length = s.objs.length := by
  have := drop_shape s h; simp only [St.shape, Prod.mk.injEq] at this; exact this.1

theorem pending_spec (s : St) (nroot o : Nat) (hp : s.pendingOwner nroot = some o) :
    o < s.objs.length ∧ (s.obj o).alive = false ∧ (s.hnd.getD (nroot + o) none).isSome = true := by
  unfold St.pendingOwner at hp
  have hm := List.mem_of_find?_eq_some hp
  have hq := List.find?_some hp
  simp only [Bool.and_eq_true, Bool.not_eq_eq_eq_not, Bool.not_true] at hq
  exact ⟨by simpa using hm, hq.1, hq.2⟩

theorem drop_filled (s : St) (nroot o : Nat) (ho : o < s.objs.length)
    (hs : (s.hnd.getD (nroot + o) none).isSome = true) : filled (s.drop (nroot + o)) nroot < filled s nroot := by
  unfold filled
  rw [drop_len]
  have hh : (s.drop (nroot + o)).hnd = s.hnd.set (nroot + o) none := by
    unfold St.drop
    cases hv : s.hnd.getD (nroot + o) none with
    | none => rw [hv] at hs; cases hs
    | some t => simp only [unref_hnd]
  rw [hh]
  apply filter_length_lt _ _ _ _ o (List.mem_range.mpr ho) hs
  · simp only [List.getD_eq_getElem?_getD, List.getElem?_set, ↓reduceIte]
    split <;> rfl
  · intro x hx
    simp only [List.getD_eq_getElem?_getD, List.getElem?_set] at hx ⊢
    split at hx
    · split at hx <;> simp at hx
    · exact hx

/-- **the cascade finishes**: with fuel for every filled owned slot no destroyed object owns a handle that still
    refers to something -/
theorem cascade_complete (s : St) (nroot fuel : Nat) (hf : filled s nroot ≤ fuel) :
    (s.cascade nroot fuel).pendingOwner nroot = none := by
  induction fuel generalizing s with
  | zero =>
    unfold St.cascade
    cases hp : s.pendingOwner nroot with
    | none => rfl
    | some o =>
      obtain ⟨ho, _, hs⟩ := pending_spec s nroot o hp
      have := drop_filled s nroot o ho hs
      omega
  | succ n ih =>
    unfold St.cascade
    cases hp : s.pendingOwner nroot with
    | none => simp only [hp]
    | some o =>
      simp only []
      obtain ⟨ho, _, hs⟩ := pending_spec s nroot o hp
      have := drop_filled s nroot o ho hs
      exact ih _ (by omega)

theorem filled_le (s : St) (nroot : Nat) : filled s nroot ≤ s.objs.length := by
  unfold filled
  have := List.length_filter_le (fun o => (s.hnd.getD (nroot + o) none).isSome) (List.range s.objs.length)
  simpa using this


/-! ### a cascade step on a settled state; call counters -/

theorem pending_none_iff (s : St) (nroot : Nat) :
    s.pendingOwner nroot = none ↔
      ∀ o, o < s.objs.length → ¬ ((s.obj o).alive = false ∧ (s.hnd.getD (nroot + o) none).isSome = true) := by
  unfold St.pendingOwner
  rw [List.find?_eq_none]
  constructor
  · intro h o ho hc
    have := h o (List.mem_range.mpr ho)
    rw [hc.1, hc.2] at this
    exact this rfl
  · intro h o ho
    have := h o (List.mem_range.mp ho)
    cases ha : (s.obj o).alive <;> simp_all

/-- giving a reference away neither destroys an object nor fills a slot -/
theorem detachRef_pending (s : St) (nroot h : Nat) (hp : s.pendingOwner nroot = none) :
    (s.detachRef h).pendingOwner nroot = none := by
  rw [pending_none_iff] at hp ⊢
  have hm := detachRef_mono s h
  have hl : (s.detachRef h).objs.length = s.objs.length := by
    have := detachRef_shape s h; simp only [St.shape, Prod.mk.injEq] at this; exact this.1
  intro o ho hc
  rw [hl] at ho
  apply hp o ho
  unfold St.detachRef at hc
  cases hv : s.hnd.getD h none with
  | none => simp only [hv] at hc; exact hc
  | some t =>
    simp only [hv] at hc
    obtain ⟨h1, h2⟩ := hc
    constructor
    · have e : ({ s with hnd := s.hnd.set h none, objs := s.objs.set t { (s.obj t) with ext := (s.obj t).ext + 1 } } : St).obj o =
          if o = t ∧ t < s.objs.length then { (s.obj t) with ext := (s.obj t).ext + 1 } else s.obj o := by
        unfold St.obj; exact getD_set _ _ _ _
      rw [e] at h1
      split at h1
      · rename_i hc'; rw [hc'.1]; exact h1
      · exact h1
    · simp only [List.getD_eq_getElem?_getD, List.getElem?_set] at h2 ⊢
      split at h2
      · split at h2 <;> simp at h2
      · exact h2

theorem getD_set_ev (l : List Ev) (o o' : Nat) (x : Ev) :
    (l.set o x).getD o' {} = if o' = o ∧ o < l.length then x else l.getD o' {} := by
  simp only [List.getD_eq_getElem?_getD, List.getElem?_set]
  by_cases h : o = o'
  · subst h
    by_cases hl : o < l.length
    · simp [hl]
    · simp [hl, List.getElem?_eq_none (Nat.le_of_not_lt hl)]
  · have : ¬ o' = o := fun e => h e.symm
    simp [h, this]

/-- `addref` on a living object: one more `add` call on that object, nothing else -/
theorem addref_ev (s : St) (o x : Nat) (ha : (s.obj o).alive = true) (hl : o < s.ev.length) :
    (s.addref o).1.evOf x = if x = o then { (s.evOf o) with add := (s.evOf o).add + 1 } else s.evOf x := by
  unfold St.addref
  simp only [ha, Bool.not_true, Bool.false_eq_true, ↓reduceIte]
  unfold St.evOf
  simp only [getD_set_ev, hl, and_true]

theorem addref_evlen (s : St) (o : Nat) : (s.addref o).1.ev.length = s.ev.length := by
  unfold St.addref; simp only []; split <;> simp

/-- `unref` on a living object: one more `unref` call, `destroyed` iff the lowered count is 0 -/
theorem unref_ev (s : St) (o x : Nat) (ha : (s.obj o).alive = true) (hl : o < s.ev.length) :
    (s.unref o).evOf x =
      if x = o then { (s.evOf o) with unref := (s.evOf o).unref + 1,
                                      destroyed := (s.evOf o).destroyed || decide ((lower (s.obj o).count).2 = 0) }
      else s.evOf x := by
  unfold St.unref
  simp only [ha, Bool.not_true, Bool.false_eq_true, ↓reduceIte]
  by_cases hr : (lower (s.obj o).count).2 = 0
  · simp only [hr, ne_eq, not_true_eq_false, ↓reduceIte, decide_true, Bool.or_true]
    unfold St.evOf
    simp only [getD_set_ev, hl, and_true]
  · simp only [hr, ne_eq, not_false_eq_true, ↓reduceIte, decide_false, Bool.or_false]
    unfold St.evOf
    simp only [getD_set_ev, hl, and_true]

end Mpt.Refcount
